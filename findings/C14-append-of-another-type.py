# C14: an append of a value of another type IS reported, but the list keeps its declared item type afterwards:
# `votes` and `sum(votes)` are typed with SecretInteger, abstract execution binds PublicInteger values there
# ("including programs containing deliberate type errors elsewhere": the later, non-error types must still be right).
# run: cd / && PYTHONPATH=/repo /venv/bin/python /verif/findings/C14-append-of-another-type.py
SRC = """from nada_dsl import *

def nada_main():
    p = Party(name="P")
    u = PublicInteger(Input(name="u", party=p))
    s = SecretInteger(Input(name="s", party=p))
    votes: list[SecretInteger] = []
    votes.append(u)
    total = sum(votes)
    return [Output(total, "o", p), Output(s, "s", p)]
"""
if __name__ == "__main__":
    import json, subprocess, sys
    out = subprocess.run([sys.executable, "/verif/tools/impl_strict.py"], input=json.dumps([SRC]), capture_output=True, text=True).stdout
    r = json.loads(out[out.index("["):])[0]
    for k, s in r["static"].items():
        if k in r["dynamic"] and r["dynamic"][k] != [s] and not s.startswith("TypeError"):
            print(k, "static", s, "dynamic", r["dynamic"][k])
