# C14: a helper's body is typed with the module-level names as they are where the helper is DEFINED; Python looks a
# global up when the helper RUNS.  k = Integer(2); def scale(x): return x * k; k = 5  — the checker types `k` in the
# body as Integer and reports nothing; abstract execution multiplies by the int 5 and raises TypeError.
# run: cd / && PYTHONPATH=/repo /venv/bin/python /verif/findings/C14-rebound-module-level-name.py
SRC = """from nada_dsl import *

k = Integer(2)

def scale(x: SecretInteger) -> SecretInteger:
    return x * k

k = 5

def nada_main():
    p = Party(name="P")
    s = SecretInteger(Input(name="s", party=p))
    y = scale(s)
    return [Output(y, "o", p)]
"""
if __name__ == "__main__":
    import json, subprocess, sys
    out = subprocess.run([sys.executable, "/verif/tools/impl_strict.py"], input=json.dumps([SRC]), capture_output=True, text=True).stdout
    r = json.loads(out[out.index("["):])[0]
    print("type errors:", r["type_errors"], "restrictions:", r["restrictions"], "abstract execution:", r["dynamic_outcome"])
