# C14: six shapes on which the strict checker's static type differs from the class bound under abstract execution
# (or a program reported clean raises).  The programs are the entries of tools/strict_gen.FIXED named below.
# run: cd / && PYTHONPATH=/repo /venv/bin/python /verif/findings/C14-checker-gaps.py
import json, subprocess, sys
sys.path.insert(0, "/verif/tools")
import strict_gen
names = ["return-annotation-unchecked", "nested-list-annotation", "element-assignment-of-another-type", "loop-carried-type",
         "empty-range-body", "list-called-as-function"]
progs = [(k, t) for k, t in strict_gen.FIXED if k in names]
out = subprocess.run([sys.executable, "/verif/tools/impl_strict.py"], input=json.dumps([t for _, t in progs]), capture_output=True, text=True).stdout
res = json.loads(out[out.index("["):])
bad = 0
for (k, _), r in zip(progs, res):
    mism = [(n, s, r["dynamic"][n]) for n, s in r["static"].items() if n in r["dynamic"] and r["dynamic"][n] != [s] and not (r["dynamic"][n] == ["list"] and s.startswith("list"))]
    print(k, "| clean:", r["type_errors"] == 0 and r["restrictions"] == 0, "| run:", r["dynamic_outcome"], "| mismatches:", mism[:2])
    bad += bool(mism) or r["dynamic_outcome"] != "ok"
raise SystemExit(1 if bad else 0)
