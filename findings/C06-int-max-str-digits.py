# C06: folding is claimed exact "for operands of any magnitude", but a literal whose decimal
# rendering exceeds CPython's int->str digit limit (4300) cannot even be registered.
# run: cd / && PYTHONPATH=/repo /venv/bin/python /verif/findings/C06-int-max-str-digits.py
from nada_dsl import *
try:
    r = UnsignedInteger(2 ** 1023) ** UnsignedInteger(14)
    print("folded, bits:", r.value.bit_length())
except ValueError as e:
    print("ValueError:", e)
