# C01 (scoping clause): a nada_fn defined inside another nada_fn whose body uses a parameter of the
# enclosing function emits that NadaFunctionArgRef (function_id of the OUTER function) inside the
# INNER function's operation table.
# run: cd / && PYTHONPATH=/repo /venv/bin/python /verif/tools/run_one.py /verif/findings/C01-nested-capture.py
from nada_dsl import *


def nada_main():
    p = Party(name="P0")
    a = Array(SecretInteger(Input(name="a", party=p)), size=2)

    @nada_fn
    def outer(x: SecretInteger) -> SecretInteger:
        @nada_fn
        def inner(y: SecretInteger) -> SecretInteger:
            return y + x          # x is outer's parameter

        return inner(x)

    return [Output(a.map(outer), "o", p)]
