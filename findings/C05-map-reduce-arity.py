# C05: Array.map accepts a function of two parameters and Array.reduce a function of one: the MIR's Map / Reduce then
# names a function whose parameters cannot be bound to (element) / (accumulator, element), so a parameter has no
# argument whose type it could have.  The repair (check len(function.args) in Array.map / Array.reduce) is two lines,
# but the repository's own tests rely on the behaviour: tests/compiler_frontend_test.py::test_nada_function_using_matrix
# maps a two-parameter `add` over a zipped array and test-programs/ntuple_accessor.py / object_accessor.py reduce with
# a one-parameter function, so it cannot be made with the existing suite unedited.
# run: cd / && PYTHONPATH=/repo /venv/bin/python /verif/tools/run_one.py /verif/findings/C05-map-reduce-arity.py
from nada_dsl import *


def nada_main():
    party_P0 = Party(name='P0')

    @nada_fn
    def add(acc: SecretInteger, x: SecretInteger) -> SecretInteger:
        return acc + x

    @nada_fn
    def twice(x: SecretInteger) -> SecretInteger:
        return x + x
    xs = Array(SecretInteger(Input(name='xs', party=party_P0)), size=3)
    seed = SecretInteger(Input(name='seed', party=party_P0))
    m = xs.map(add)                # accepted: Map over SecretInteger elements with a function of (acc, x)
    r = xs.reduce(twice, seed)     # accepted: Reduce with a function of (x)
    return [Output(m, 'm', party_P0), Output(r, 'r', party_P0)]
