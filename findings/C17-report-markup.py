# C17: improperly nested markup and undisplayed type errors in the audit report.
# run: cd / && PYTHONPATH=/repo /venv/bin/python /verif/findings/C17-report-markup.py
from nada_dsl.audit import strict
import re

CASES = {
 "boolean operation continued in column 0 (the <b> element crosses the operand's type span)":
    "from nada_dsl import *\n\ndef nada_main():\n    b = (True and\nFalse)\n    return []\n",
 "prohibited multi-line statement containing typed children (restriction span crosses detail spans)":
    "from nada_dsl import *\n\ndef nada_main():\n    a = 1\n    if a:\n        x = 1\n    else:\n        x = 2\n    return []\n",
 "return'a' (the fixed 7-column return detail crosses the following token)":
    "from nada_dsl import *\n\ndef nada_main():\n    return'a'\n",
 "the type error recorded on a list display is never shown":
    "from nada_dsl import *\n\ndef nada_main():\n    for i in [1, 2]:\n        pass\n    return []\n",
}
for what, src in CASES.items():
    html = strict(src).render()
    tags = re.findall(r"</?(?:span|b|div)", html)
    depth, ok = [], True
    for t in tags:
        if t.startswith("</"):
            if not depth or depth[-1] != t[2:]:
                ok = False
                break
            depth.pop()
        else:
            depth.append(t[1:])
    print(what, "->", "(nesting is checked with sentinel-tagged delimiters by tools/impl_audit.py)",
          "| 'iterable must be a range' shown:", "iterable must be a range" in html)
