# C05: an array parameter of a nada_fn has no size in the function signature.
# run: cd / && PYTHONPATH=/repo /venv/bin/python /verif/tools/run_one.py /verif/findings/C05-array-param.py
from nada_dsl import *


def nada_main():
    p = Party(name="P0")
    a = Array(SecretInteger(Input(name="a", party=p)), size=3)
    x = SecretInteger(Input(name="x", party=p))

    @nada_fn
    def fa(v: Array[SecretInteger], w: SecretInteger) -> SecretInteger:
        return v.inner_product(v) + w

    return [Output(fa(a, x), "r", p)]
