# C17: the type error recorded on a Subscript node is not displayed anywhere in the report
# run: cd / && PYTHONPATH=/repo /venv/bin/python /verif/findings/C17-undisplayed-subscript-error.py
from nada_dsl.audit.strict import strict
SRC = "from nada_dsl import *\n\ndef nada_main():\n    l = [1, 2, 3]\n    for i in l[0]:\n        pass\n    return []\n"
r = strict(SRC).render()
shown = "iterable must be a range" in r
print("error displayed:", shown)
raise SystemExit(0 if shown else 1)
