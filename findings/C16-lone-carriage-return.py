# C16: strict() raises on texts containing a carriage return that is not part of CR-LF
# run: cd / && PYTHONPATH=/repo /venv/bin/python /verif/findings/C16-lone-carriage-return.py
from nada_dsl.audit.strict import strict
bad = 0
for t in ["x = 1\ry = 2", "x = 1\r\r\ny = 2", "x = 1\n\ry = 2"]:
    try:
        strict(t)
        print(repr(t), "ok")
    except Exception as e:  # noqa
        bad += 1
        print(repr(t), "raises", type(e).__name__, e)
raise SystemExit(1 if bad else 0)
