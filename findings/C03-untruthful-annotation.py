# C03: a function annotated public applied to a secret argument: the call result is typed public (Integer) but depends on the secret input
# run: cd / && PYTHONPATH=/repo /venv/bin/python /verif/tools/run_one.py /verif/findings/C03-untruthful-annotation.py
from nada_dsl import *


def nada_main():
    party_P0 = Party(name='P0')
    @nada_fn
    def ident(e: PublicInteger) -> PublicInteger:
        s = e + e
        return s
    x = SecretInteger(Input(name='x', party=party_P0))
    r = ident(x)
    return [Output(r, 'o', party_P0)]
