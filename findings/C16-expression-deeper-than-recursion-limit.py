# C16: a chain of about 1000 to 2900 binary operations (deeper than the interpreter's recursion limit, shallower than the
# parser's) makes strict() raise RecursionError: strict.types is recursive over the expression's depth.
# run: cd / && PYTHONPATH=/repo /venv/bin/python /verif/findings/C16-expression-deeper-than-recursion-limit.py
SRC = "from nada_dsl import *\n\ndef nada_main():\n    x = 1" + "+1" * 1200 + "\n    return []\n"
if __name__ == "__main__":
    from nada_dsl.audit import strict
    try:
        strict(SRC)
        print("no exception")
    except RecursionError as e:
        print("RecursionError:", e)
