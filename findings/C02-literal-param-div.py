# C02 (also C04/C06): a nada_fn parameter of a literal type is traced with the placeholder
# value 0, so `a / b` on two such parameters raises ZeroDivisionError while the same operator
# on the same operand types produced any other way is accepted.
# run: cd / && PYTHONPATH=/repo /venv/bin/python /verif/findings/C02-literal-param-div.py
from nada_dsl import *

p = Party("P")
x = SecretInteger(Input("x", p))
print("outside a function:", type(Integer(6) / Integer(3)).__name__)


def f(a: Integer, b: Integer, c: SecretInteger) -> SecretInteger:
    return c * (a / b)


try:
    nada_fn(f)
    print("inside a function: accepted")
except ZeroDivisionError as e:
    print("inside a function: ZeroDivisionError", e)
