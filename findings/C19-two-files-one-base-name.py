# C19: source_files and the file field of a source reference use the BASE name of a file: a program whose operations are
# created in two files with the same base name (pkga/__init__.py and pkgb/__init__.py) gets one embedded text, and the
# references into the other file delimit unrelated characters of it.
# run: cd / && PYTHONPATH=/repo /venv/bin/python /verif/findings/C19-two-files-one-base-name.py
import json, os, sys, tempfile
MAIN = ("from nada_dsl import *\nfrom pkga import add_a\nfrom pkgb import mul_b\n\n\ndef nada_main():\n    p = Party(name='P0')\n"
        "    a = SecretInteger(Input(name='a', party=p))\n    b = SecretInteger(Input(name='b', party=p))\n"
        "    x = add_a(a, b)\n    y = mul_b(x, b)\n    return [Output(y, 'o', p)]\n")
A = "from nada_dsl import *\n\n# a comment line that shifts the offsets of this file\ndef add_a(u, v):\n    return u + v\n"
B = "from nada_dsl import *\n\ndef mul_b(u, v):\n    return u * v\n"
if __name__ == "__main__":
    from nada_dsl.compile import compile_script
    d = tempfile.mkdtemp()
    for rel, t in (("main.py", MAIN), ("pkga/__init__.py", A), ("pkgb/__init__.py", B)):
        os.makedirs(os.path.dirname(os.path.join(d, rel)), exist_ok=True)
        open(os.path.join(d, rel), "w").write(t)
    m = json.loads(compile_script(os.path.join(d, "main.py")).mir)
    print("embedded files:", list(m["source_files"]))
    for op in m["operations"].values():
        (k, b), = op.items()
        r = m["source_refs"][b["source_ref_index"]]
        if r["file"] == "__init__.py":
            print(k, "->", repr(m["source_files"]["__init__.py"][r["offset"]:r["offset"] + r["length"]]))
