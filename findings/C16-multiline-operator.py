# C16: an operator whose left operand ends its line (the operator is on a following line) makes the
# report builder ask richreports to skip whitespace starting at the end-of-line cell; richreports'
# _skip_whitespace_left then indexes past the line and raises IndexError out of strict().
# run: cd / && PYTHONPATH=/repo /venv/bin/python /verif/findings/C16-multiline-operator.py
from nada_dsl.audit import strict

SRC = '''from nada_dsl import *

def nada_main():
    p = Party(name="P")
    a = SecretInteger(Input(name="a", party=p))
    x = (a
         <
         a)
    return [Output(a, "o", p)]
'''
try:
    strict(SRC)
    print("report produced")
except IndexError as e:
    print("IndexError:", e)
