# C14: sum of an empty (annotated) list: static SecretInteger, dynamic int
# run: cd / && echo '["<this text>"]' | PYTHONPATH=/repo /venv/bin/python /verif/tools/impl_strict.py   (or see below)
SRC = """from nada_dsl import *

def nada_main():
    p = Party(name="P")
    a = SecretInteger(Input(name="a", party=p))
    l: list[SecretInteger] = []
    s = sum(l)
    return [Output(a, "o", p)]
"""
if __name__ == "__main__":
    import json, subprocess, sys
    out = subprocess.run([sys.executable, "/verif/tools/impl_strict.py"], input=json.dumps([SRC]), capture_output=True, text=True).stdout
    r = json.loads(out[out.index("["):])[0]
    for k, s in r["static"].items():
        if k in r["dynamic"] and r["dynamic"][k] != [s]:
            print(k, "static", s, "dynamic", r["dynamic"][k])
