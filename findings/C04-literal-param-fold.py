# C04/C06/C11: operators on literal-typed nada_fn parameters are folded on the placeholder 0: the body is emitted as 0 * x
# run: cd / && PYTHONPATH=/repo /venv/bin/python /verif/tools/run_one.py /verif/findings/C04-literal-param-fold.py
from nada_dsl import *


def nada_main():
    party_P0 = Party(name='P0')
    @nada_fn
    def g(k: Integer, j: Integer, x: SecretInteger) -> SecretInteger:
        kj = k + j
        r = kj * x
        return r
    c1 = Integer(2)
    c2 = Integer(3)
    x = SecretInteger(Input(name='x', party=party_P0))
    r = g(c1, c2, x)
    return [Output(r, 'o', party_P0)]
