(* PyMini: a small total interpreter for the Python expression / straight-line
   statement fragment that tools/extract.py serialises from /repo.
   Hand-written, fixed.  Every partial operation returns [Err exn]; recursion is
   on explicit fuel whose exhaustion is the distinct outcome [OutOfFuel]. *)
From Coq Require Import ZArith List String Bool Ascii.
Import ListNotations.
Open Scope string_scope.
Open Scope Z_scope.

(* ------------------------------------------------------------------ syntax *)

Inductive cmpop := CEq | CNe | CLt | CLe | CGt | CGe | CIn | CNotIn | CIs | CIsNot.
Inductive binop := BAdd | BSub | BMul | BTrueDiv | BFloorDiv | BMod | BPow
                 | BLShift | BRShift | BAnd | BOr | BXor.
Inductive boolop := BoAnd | BoOr.

Inductive expr :=
| EInt (z : Z)
| EBoolC (b : bool)
| EStr (s : string)
| ENone
| EName (x : string)
| EAttr (e : expr) (a : string)
| ECall (f : expr) (args : list expr) (kwargs : list (string * expr))
| ECmp (o : cmpop) (a b : expr)
| EBoolOp (o : boolop) (es : list expr)
| ENot (e : expr)
| ENeg (e : expr)
| EBin (o : binop) (a b : expr)
| EIfExp (c a b : expr)
| ETuple (es : list expr)
| EList (es : list expr)
| ELambda (params : list string) (body : expr)
| ESubscript (e i : expr)
| EAllGen (x : string) (iter : expr) (cond : expr)   (* all(cond for x in iter) *)
| EListComp (elt : expr) (x : string) (iter : expr)  (* [elt for x in iter] *)
| EOpaque (what : string).                           (* f-strings, ignored args *)

Inductive stmt :=
| SAssign (x : string) (e : expr)
| SAttrAssign (x : string) (field : string) (e : expr)     (* x.field = e  on a local object *)
| SExpr (e : expr)
| SIf (c : expr) (th el : list stmt)
| SRaise (exn : string)
| SReturn (e : expr)
| SMatch (e : expr) (cases : list (list expr * list stmt))
| SPass.

(* ------------------------------------------------------------------ values *)

Inductive value :=
| VInt (z : Z)
| VBool (b : bool)
| VStr (s : string)
| VNone
| VTuple (vs : list value)
| VList (vs : list value)
| VDict (kvs : list (value * value))
| VEnum (enum member : string) (v : Z)
| VClass (name : string)
| VObj (cls : string) (fields : list (string * value))
| VLam (params : list string) (body : expr)
| VFunc (name : string)
| VBound (self : value) (cls meth : string)      (* method [meth] found in class [cls] *)
| VBuiltin (name : string)
| VQuot (a b : Z)                                (* the float a / b, not yet converted *)
| VOpaque (what : string).

Inductive res (A : Type) :=
| Ok (a : A)
| Err (exn : string)
| OutOfFuel.
Arguments Ok {A} a.
Arguments Err {A} exn.
Arguments OutOfFuel {A}.

Definition bind {A B} (r : res A) (f : A -> res B) : res B :=
  match r with Ok a => f a | Err e => Err e | OutOfFuel => OutOfFuel end.
Notation "'do' x <- r ; k" := (bind r (fun x => k)) (at level 200, x pattern, r at level 100, k at level 200).

(* ----------------------------------------------------- generated context *)

Record fundef := { f_params : list string; f_defaults : list (string * value); f_body : list stmt }.

(* how a class is constructed; recognised by shape in the extractor *)
Inductive ctor :=
| CtorLiteral (norm : string) (base mode : string)   (* value = norm(value); wraps Literal *)
| CtorChild (base mode : string)                     (* scalar wrapper around child op *)
| CtorFields (pf : list (string * string))            (* generic: parameter p stored as field f *)
| CtorReclass                                         (* Abstract(cls): an object of class cls with value None *)
| CtorInputValue                                      (* AbstractInteger/Boolean(input=None, value=None) *)
| CtorNone.

Record classdef := {
  c_name : string;
  c_mro : list string;                   (* including itself first *)
  c_methods : list (string * fundef);    (* defined in the class body *)
  c_classmethods : list string;
  c_ctor : ctor;
  c_dataclass : bool;
  c_dataclass_eq : bool;                 (* dataclass installs a structural __eq__ here *)
  c_meta : string                        (* metaclass (own or inherited), "" if none *)
}.

Record genv := {
  g_funs : list (string * fundef);
  g_classes : list classdef;
  g_enums : list (string * list (string * Z));
  g_enum_methods : list (string * list (string * fundef));
  g_consts : list (string * value)
}.

(* ---------------------------------------------------------------- helpers *)

(* Comparisons on *control* integers (enum values, list indices) and guards on *data*
   integers are written so that proofs can keep data arithmetic symbolic:
   [lazy -[Z.add ... Z.ltb Z.eqb ...]] blocks the data operations while these still
   compute (on numerals, resp. on the head constructor). *)
Definition ctl_ltb (a b : Z) : bool := match Z.compare a b with Lt => true | _ => false end.
Definition ctl_leb (a b : Z) : bool := match Z.compare a b with Gt => false | _ => true end.
Definition ctl_eqb (a b : Z) : bool := match Z.compare a b with Eq => true | _ => false end.
Definition is_zero (z : Z) : bool := match z with Z0 => true | _ => false end.
Definition is_neg (z : Z) : bool := match z with Zneg _ => true | _ => false end.

Fixpoint assoc {A} (k : string) (l : list (string * A)) : option A :=
  match l with
  | [] => None
  | (k', v) :: l' => if String.eqb k k' then Some v else assoc k l'
  end.

Fixpoint find_class (G : list classdef) (n : string) : option classdef :=
  match G with
  | [] => None
  | c :: G' => if String.eqb (c_name c) n then Some c else find_class G' n
  end.

(* first class in the MRO of [cls] that defines [m] *)
Fixpoint find_in_mro (G : list classdef) (mro : list string) (m : string)
  : option (string * fundef) :=
  match mro with
  | [] => None
  | c :: mro' =>
      match find_class G c with
      | Some cd => match assoc m (c_methods cd) with
                   | Some fd => Some (c, fd)
                   | None => find_in_mro G mro' m
                   end
      | None => find_in_mro G mro' m
      end
  end.

Definition find_method (G : genv) (cls m : string) : option (string * fundef) :=
  match find_class (g_classes G) cls with
  | Some cd => find_in_mro (g_classes G) (c_mro cd) m
  | None => None
  end.

Definition mro_of (G : genv) (cls : string) : list string :=
  match find_class (g_classes G) cls with
  | Some cd => c_mro cd
  | None => [cls]
  end.

Definition is_subclass (G : genv) (c d : string) : bool :=
  existsb (String.eqb d) (mro_of G c) || String.eqb d "object".

(* structural equality of the comparable values; objects are not comparable here *)
Fixpoint veqb (a b : value) : option bool :=
  match a, b with
  | VInt x, VInt y => Some (Z.eqb x y)
  | VBool x, VBool y => Some (Bool.eqb x y)
  | VInt x, VBool y => Some (Z.eqb x (if y then 1 else 0))
  | VBool x, VInt y => Some (Z.eqb (if x then 1 else 0) y)
  | VStr x, VStr y => Some (String.eqb x y)
  | VNone, VNone => Some true
  | VEnum e m _, VEnum e' m' _ => Some (String.eqb e e' && String.eqb m m')
  | VClass x, VClass y => Some (String.eqb x y)
  | VTuple xs, VTuple ys =>
      (fix go (xs ys : list value) : option bool :=
         match xs, ys with
         | [], [] => Some true
         | x :: xs', y :: ys' =>
             match veqb x y with
             | Some true => go xs' ys'
             | Some false => Some false
             | None => None
             end
         | _, _ => Some false
         end) xs ys
  | VObj _ _, _ | _, VObj _ _ => None
  | VLam _ _, _ | _, VLam _ _ => None
  | VQuot _ _, _ | _, VQuot _ _ => None
  | VOpaque _, _ | _, VOpaque _ => None
  | _, _ => Some false
  end.

Definition truthy (v : value) : res bool :=
  match v with
  | VBool b => Ok b
  | VInt z => Ok (negb (Z.eqb z 0))
  | VNone => Ok false
  | VStr s => Ok (negb (String.eqb s ""))
  | VTuple l | VList l => Ok (match l with [] => false | _ => true end)
  | VDict l => Ok (match l with [] => false | _ => true end)
  | VEnum _ _ _ | VClass _ | VLam _ _ | VFunc _ | VBound _ _ _ | VBuiltin _ => Ok true
  | VQuot a _ => Ok (negb (Z.eqb a 0))
  | VObj _ _ => Err "PyMini:truth-of-object"
  | VOpaque _ => Err "PyMini:truth-of-opaque"
  end.

(* ---- int(a / b): CPython's correctly rounded true division, then truncation.
   Written in Z arithmetic only.  *)
Definition round_half_even (n d : Z) : Z :=   (* n/d rounded, d > 0, n >= 0 *)
  let q := n / d in
  let r := n mod d in
  if 2 * r <? d then q
  else if d <? 2 * r then q + 1
  else if Z.even q then q else q + 1.

Definition truediv_trunc (a b : Z) : res Z :=
  if b =? 0 then Err "ZeroDivisionError"
  else if a =? 0 then Ok 0
  else
    let sgn := if (a <? 0) then (if b <? 0 then 1 else -1) else (if b <? 0 then -1 else 1) in
    let A := Z.abs a in
    let B := Z.abs b in
    let k := Z.log2 A - Z.log2 B in
    (* e = floor(log2(A/B)) is k or k-1 *)
    let ge := if 0 <=? k then (B * 2 ^ k <=? A) else (B <=? A * 2 ^ (- k)) in
    let e := if ge then k else k - 1 in
    if e <? -1 then Ok 0
    else
      (* m = round(A/B * 2^(52-e)) *)
      let s := 52 - e in
      let m := if 0 <=? s then round_half_even (A * 2 ^ s) B
               else round_half_even A (B * 2 ^ (- s)) in
      (* value = m * 2^(e-52); overflow if >= 2^1024 *)
      if (0 <=? e - 52) && (2 ^ 1024 <=? m * 2 ^ (e - 52)) then Err "OverflowError"
      else
        let t := if 0 <=? e - 52 then m * 2 ^ (e - 52) else m / 2 ^ (52 - e) in
        Ok (sgn * t).

Definition to_int (v : value) : res Z :=
  match v with
  | VInt z => Ok z
  | VBool b => Ok (if b then 1 else 0)
  | VQuot a b => truediv_trunc a b
  | _ => Err "TypeError"
  end.

Definition as_int (v : value) : option Z :=
  match v with
  | VInt z => Some z
  | VBool b => Some (if b then 1 else 0)
  | _ => None
  end.

Definition both_bool (a b : value) : option (bool * bool) :=
  match a, b with VBool x, VBool y => Some (x, y) | _, _ => None end.

Definition eval_binop (o : binop) (a b : value) : res value :=
  match o, both_bool a b with
  | BAnd, Some (x, y) => Ok (VBool (andb x y))
  | BOr, Some (x, y) => Ok (VBool (orb x y))
  | BXor, Some (x, y) => Ok (VBool (xorb x y))
  | _, _ =>
    match as_int a, as_int b with
    | Some x, Some y =>
        match o with
        | BAdd => Ok (VInt (x + y))
        | BSub => Ok (VInt (x - y))
        | BMul => Ok (VInt (x * y))
        | BTrueDiv => if is_zero y then Err "ZeroDivisionError" else Ok (VQuot x y)
        | BFloorDiv => if is_zero y then Err "ZeroDivisionError" else Ok (VInt (x / y))
        | BMod => if is_zero y then Err "ZeroDivisionError" else Ok (VInt (x mod y))
        | BPow => if is_neg y then Err "PyMini:negative-exponent" else Ok (VInt (x ^ y))
        | BLShift => if is_neg y then Err "ValueError" else Ok (VInt (Z.shiftl x y))
        | BRShift => if is_neg y then Err "ValueError" else Ok (VInt (Z.shiftr x y))
        | BAnd => Ok (VInt (Z.land x y))
        | BOr => Ok (VInt (Z.lor x y))
        | BXor => Ok (VInt (Z.lxor x y))
        end
    | _, _ => Err "TypeError"
    end
  end.

Fixpoint vin (x : value) (l : list value) : res bool :=
  match l with
  | [] => Ok false
  | y :: l' => match veqb x y with
               | Some true => Ok true
               | Some false => vin x l'
               | None => Err "PyMini:incomparable"
               end
  end.

Definition eval_cmp (o : cmpop) (a b : value) : res value :=
  match o with
  | CEq | CIs => match veqb a b with Some r => Ok (VBool r) | None => Err "PyMini:incomparable" end
  | CNe | CIsNot => match veqb a b with Some r => Ok (VBool (negb r)) | None => Err "PyMini:incomparable" end
  | CIn | CNotIn =>
      match b with
      | VTuple l | VList l =>
          do r <- vin a l; Ok (VBool (match o with CIn => r | _ => negb r end))
      | VDict kvs => do r <- vin a (map fst kvs); Ok (VBool (match o with CIn => r | _ => negb r end))
      | _ => Err "TypeError"
      end
  | _ =>
      match as_int a, as_int b with
      | Some x, Some y =>
          Ok (VBool (match o with
                     | CLt => x <? y | CLe => x <=? y | CGt => x >? y | _ => x >=? y end))
      | _, _ => Err "TypeError"
      end
  end.

Fixpoint dict_get (k : value) (kvs : list (value * value)) : res value :=
  match kvs with
  | [] => Err "KeyError"
  | (k', v) :: r => match veqb k k' with
                    | Some true => Ok v
                    | Some false => dict_get k r
                    | None => Err "PyMini:incomparable"
                    end
  end.

Fixpoint enum_by_value (ms : list (string * Z)) (z : Z) : option string :=
  match ms with
  | [] => None
  | (m, v) :: r => if ctl_eqb v z then Some m else enum_by_value r z
  end.

Definition class_name_of (v : value) : string :=
  match v with
  | VInt _ => "int" | VBool _ => "bool" | VStr _ => "str" | VNone => "NoneType"
  | VTuple _ => "tuple" | VList _ => "list" | VDict _ => "dict"
  | VEnum e _ _ => e | VClass _ => "type" | VObj c _ => c
  | VQuot _ _ => "float"
  | _ => "function"
  end.

Definition isinstance1 (G : genv) (v : value) (c : string) : bool :=
  match v with
  | VBool _ => String.eqb c "bool" || String.eqb c "int" || String.eqb c "object"
  | _ => is_subclass G (class_name_of v) c
  end.

Fixpoint maxz (l : list Z) (acc : Z) : Z :=
  match l with [] => acc | x :: r => maxz r (if ctl_ltb acc x then x else acc) end.

Fixpoint all_ints (l : list value) : option (list Z) :=
  match l with
  | [] => Some []
  | v :: r => match as_int v, all_ints r with
              | Some z, Some zs => Some (z :: zs)
              | _, _ => None
              end
  end.

Fixpoint bind_params_d (ps : list string) (defaults : list (string * value)) (args : list value)
         (kw : list (string * value)) : res (list (string * value)) :=
  match ps, args with
  | [], [] => Ok []
  | p :: ps', a :: args' => do r <- bind_params_d ps' defaults args' kw; Ok ((p, a) :: r)
  | p :: ps', [] =>
      match assoc p kw with
      | Some v => do r <- bind_params_d ps' defaults [] kw; Ok ((p, v) :: r)
      | None =>
          match assoc p defaults with
          | Some v => do r <- bind_params_d ps' defaults [] kw; Ok ((p, v) :: r)
          | None => Err "TypeError"   (* missing argument *)
          end
      end
  | [], _ :: _ => Err "TypeError"
  end.
Definition bind_params (ps : list string) (args : list value) (kw : list (string * value)) :=
  bind_params_d ps [] args kw.
Definition bind_fun (fd : fundef) (args : list value) (kw : list (string * value)) :=
  bind_params_d (f_params fd) (f_defaults fd) args kw.

Definition enum_attr (G : genv) (enum member : string) (z : Z) (a : string) : res value :=
  if String.eqb a "value" then Ok (VInt z)
  else if String.eqb a "name" then Ok (VStr member)
  else match assoc enum (g_enum_methods G) with
       | Some ms => match assoc a ms with
                    | Some _ => Ok (VBound (VEnum enum member z) enum a)
                    | None => Err "AttributeError"
                    end
       | None => Err "AttributeError"
       end.

(* class-level attributes of scalar classes installed by register_scalar_type *)
Definition class_attr (G : genv) (cls a : string) : option value :=
  match find_class (g_classes G) cls with
  | Some cd =>
      match c_ctor cd with
      | CtorLiteral _ base mode | CtorChild base mode =>
          if String.eqb a "mode" then
            match assoc "Mode" (g_enums G) with
            | Some ms => option_map (VEnum "Mode" mode) (assoc mode ms)
            | None => None
            end
          else if String.eqb a "base_type" then
            match assoc "BaseType" (g_enums G) with
            | Some ms => option_map (VEnum "BaseType" base) (assoc base ms)
            | None => None
            end
          else None
      | _ => None
      end
  | None => None
  end.

Definition get_attr (G : genv) (v : value) (a : string) : res value :=
  match v with
  | VEnum e m z => enum_attr G e m z a
  | VObj cls fields =>
      match assoc a fields with
      | Some x => Ok x
      | None =>
          match class_attr G cls a with
          | Some x => Ok x
          | None =>
              match find_method G cls a with
              | Some (c, _) => Ok (VBound v c a)
              | None =>
                  if String.eqb a "__class__" then Ok (VClass cls) else Err "AttributeError"
              end
          end
      end
  | VClass c =>
      if String.eqb a "__name__" then Ok (VStr c) else
      match assoc c (g_enums G) with
      | Some ms => match assoc a ms with
                   | Some z => Ok (VEnum c a z)
                   | None => Err "AttributeError"
                   end
      | None =>
          match class_attr G c a with
          | Some x => Ok x
          | None =>
              match find_method G c a with
              | Some (c', _) => Ok (VBound (VClass c) c' a)   (* unbound/class method *)
              | None =>
                  (* a method of the metaclass, bound to the class *)
                  match find_class (g_classes G) c with
                  | Some cd =>
                      match find_method G (c_meta cd) a with
                      | Some (mc, _) => Ok (VBound (VClass c) mc a)
                      | None => Err "AttributeError"
                      end
                  | None => Err "AttributeError"
                  end
              end
          end
      end
  | _ => Err "AttributeError"
  end.

(* construct an instance of a class from evaluated arguments *)
Definition construct (G : genv) (cls : string) (args : list value) (kw : list (string * value))
  : res value :=
  match assoc cls (g_enums G) with
  | Some ms =>
      match args with
      | [v] => match as_int v with
               | Some z => match enum_by_value ms z with
                           | Some m => Ok (VEnum cls m z)
                           | None => Err "ValueError"
                           end
               | None => Err "ValueError"
               end
      | _ => Err "TypeError"
      end
  | None =>
    match find_class (g_classes G) cls with
    | None => Ok (VObj cls kw)       (* unknown class: opaque record of its keywords *)
    | Some cd =>
        match c_ctor cd with
        | CtorLiteral norm base mode =>
            do b <- bind_params ["value"] args kw;
            match assoc "value" b with
            | Some v =>
                do nv <- (if String.eqb norm "int" then do z <- to_int v; Ok (VInt z)
                          else if String.eqb norm "bool" then do t <- truthy v; Ok (VBool t)
                          else Err "PyMini:unknown-norm");
                Ok (VObj cls [("value", nv); ("child", VObj "Literal" [("value", nv)])])
            | None => Err "TypeError"
            end
        | CtorChild base mode =>
            do b <- bind_params ["child"] args kw;
            match assoc "child" b with
            | Some ch => Ok (VObj cls [("child", ch)])
            | None => Err "TypeError"
            end
        | CtorFields pf =>
            do b <- bind_params (map fst pf) args kw;
            Ok (VObj cls (map (fun pv : string * value =>
                                 (match assoc (fst pv) pf with Some f => f | None => fst pv end, snd pv)) b))
        | CtorReclass =>
            match args with
            | [VClass k] => Ok (VObj k [("value", VNone)])
            | [] => Ok (VObj cls [("value", VNone)])
            | [VNone] => Ok (VObj cls [("value", VNone)])
            | _ => Err "PyMini:reclass-argument"
            end
        | CtorInputValue =>
            do b <- bind_params_d ["input"; "value"] [("input", VNone); ("value", VNone)] args kw;
            match assoc "input" b, assoc "value" b with
            | Some VNone, Some v => Ok (VObj cls [("input", VNone); ("value", v)])
            | Some (VInt z), Some _ => Ok (VObj cls [("input", VNone); ("value", VInt z)])     (* Integer(5) *)
            | Some (VObj ic ifs), Some _ =>
                Ok (VObj cls [("input", VObj ic ifs);
                              ("value", match assoc "__ctx__" ifs with Some v => v | None => VNone end)])
            | _, _ => Err "AttributeError"
            end
        | CtorNone => Err "PyMini:not-constructible"
        end
    end
  end.

Definition list_of_value (v : value) : res (list value) :=
  match v with
  | VTuple l | VList l => Ok l
  | VDict kvs => Ok (map fst kvs)
  | _ => Err "TypeError"
  end.

(* ------------------------------------------------------------- evaluator *)

Definition env := list (string * value).

Definition lookup_name (G : genv) (ρ : env) (x : string) : res value :=
  match assoc x ρ with
  | Some v => Ok v
  | None =>
      match assoc x (g_consts G) with
      | Some v => Ok v
      | None =>
          match assoc x (g_funs G) with
          | Some _ => Ok (VFunc x)
          | None =>
              match find_class (g_classes G) x with
              | Some _ => Ok (VClass x)
              | None =>
                  match assoc x (g_enums G) with
                  | Some _ => Ok (VClass x)
                  | None =>
                      if existsb (String.eqb x)
                           ["max"; "min"; "len"; "bool"; "int"; "str"; "isinstance"; "issubclass";
                            "type"; "globals"; "all"; "any"; "super"; "hasattr"]
                      then Ok (VBuiltin x)
                      else if existsb (String.eqb x) ["float"; "list"; "tuple"; "dict"; "object"]
                      then Ok (VClass x)
                      else if String.eqb x "NotImplemented" then Ok (VBuiltin "NotImplemented")
                      else Err "NameError"
                  end
              end
          end
      end
  end.

Definition call_builtin (G : genv) (name : string) (args : list value) : res value :=
  match args with
  | [v] =>
      if String.eqb name "max" then
        do l <- list_of_value v;
        match all_ints l with
        | Some (z :: zs) => Ok (VInt (maxz zs z))
        | Some [] => Err "ValueError"
        | None => Err "PyMini:max-of-non-int"
        end
      else if String.eqb name "len" then
        match v with
        | VStr s => Ok (VInt (Z.of_nat (String.length s)))
        | VDict kvs => Ok (VInt (Z.of_nat (List.length kvs)))
        | _ => do l <- list_of_value v; Ok (VInt (Z.of_nat (List.length l)))
        end
      else if String.eqb name "bool" then do t <- truthy v; Ok (VBool t)
      else if String.eqb name "int" then do z <- to_int v; Ok (VInt z)
      else if String.eqb name "type" then Ok (VClass (class_name_of v))
      else if String.eqb name "all" then
        do l <- list_of_value v;
        (fix go (l : list value) : res value :=
           match l with
           | [] => Ok (VBool true)
           | x :: r => do t <- truthy x; if t then go r else Ok (VBool false)
           end) l
      else if String.eqb name "any" then
        do l <- list_of_value v;
        (fix go (l : list value) : res value :=
           match l with
           | [] => Ok (VBool false)
           | x :: r => do t <- truthy x; if t then Ok (VBool true) else go r
           end) l
      else Err "PyMini:unknown-builtin"
  | [v; c] =>
      if String.eqb name "isinstance" then
        match c with
        | VClass cn | VBuiltin cn => Ok (VBool (isinstance1 G v cn))
        | VTuple cs =>
            Ok (VBool (existsb (fun c => match c with VClass cn | VBuiltin cn => isinstance1 G v cn | _ => false end) cs))
        | _ => Err "TypeError"
        end
      else if String.eqb name "issubclass" then
        match v, c with
        | VClass a, VClass b => Ok (VBool (is_subclass G a b))
        | VClass a, VTuple bs =>
            Ok (VBool (existsb (fun b => match b with VClass bn => is_subclass G a bn | _ => false end) bs))
        | _, _ => Err "TypeError"
        end
      else if String.eqb name "max" then
        match as_int v, as_int c with
        | Some a, Some b => Ok (VInt (Z.max a b))
        | _, _ => Err "PyMini:max-of-non-int"
        end
      else Err "PyMini:unknown-builtin"
  | [] =>
      if String.eqb name "globals" then Ok (VBuiltin "globals-dict")
      else Err "PyMini:unknown-builtin"
  | _ => Err "PyMini:unknown-builtin"
  end.

Fixpoint eval (n : nat) (G : genv) (ρ : env) (e : expr) {struct n} : res value :=
  match n with
  | O => OutOfFuel
  | S n' =>
      let ev := eval n' G ρ in
      let evs := fix evs (es : list expr) : res (list value) :=
                   match es with
                   | [] => Ok []
                   | e :: r => do v <- ev e; do vs <- evs r; Ok (v :: vs)
                   end in
      let evkw := fix evkw (es : list (string * expr)) : res (list (string * value)) :=
                   match es with
                   | [] => Ok []
                   | (k, e) :: r => do v <- ev e; do vs <- evkw r; Ok ((k, v) :: vs)
                   end in
      match e with
      | EInt z => Ok (VInt z)
      | EBoolC b => Ok (VBool b)
      | EStr s => Ok (VStr s)
      | ENone => Ok VNone
      | EOpaque w => Ok (VOpaque w)
      | EName x => lookup_name G ρ x
      | EAttr e a => do v <- ev e; get_attr G v a
      | ECall f args kwargs =>
          do fv <- ev f;
          do avs <- evs args;
          do kvs <- evkw kwargs;
          apply n' G fv avs kvs
      | ECmp o a b => do x <- ev a; do y <- ev b; eval_cmp o x y
      | EBoolOp o es =>
          (fix go (es : list expr) : res value :=
             match es with
             | [] => Ok (VBool (match o with BoAnd => true | BoOr => false end))
             | [e] => ev e
             | e :: r =>
                 do v <- ev e; do t <- truthy v;
                 match o with
                 | BoAnd => if t then go r else Ok v
                 | BoOr => if t then Ok v else go r
                 end
             end) es
      | ENot e => do v <- ev e; do t <- truthy v; Ok (VBool (negb t))
      | ENeg e => do v <- ev e;
                  match as_int v with Some z => Ok (VInt (- z)) | None => Err "TypeError" end
      | EBin o a b => do x <- ev a; do y <- ev b; eval_binop o x y
      | EIfExp c a b => do v <- ev c; do t <- truthy v; if t then ev a else ev b
      | ETuple es => do vs <- evs es; Ok (VTuple vs)
      | EList es => do vs <- evs es; Ok (VList vs)
      | ELambda ps b => Ok (VLam ps b)
      | ESubscript e i =>
          do v <- ev e; do k <- ev i;
          match v with
          | VDict kvs => dict_get k kvs
          | VBuiltin "globals-dict" =>
              match k with VStr s => lookup_name G [] s | _ => Err "KeyError" end
          | VTuple l | VList l =>
              match k with
              | VInt z => if (ctl_leb 0 z) && (ctl_ltb z (Z.of_nat (List.length l)))
                          then Ok (nth (Z.to_nat z) l VNone) else Err "IndexError"
              | _ => Err "TypeError"
              end
          | _ => Err "TypeError"
          end
      | EAllGen x it c =>
          do iv <- ev it; do l <- list_of_value iv;
          (fix go (l : list value) : res value :=
             match l with
             | [] => Ok (VBool true)
             | v :: r => do cv <- eval n' G ((x, v) :: ρ) c; do t <- truthy cv;
                         if t then go r else Ok (VBool false)
             end) l
      | EListComp elt x it =>
          do iv <- ev it; do l <- list_of_value iv;
          do vs <- (fix go (l : list value) : res (list value) :=
             match l with
             | [] => Ok []
             | v :: r => do y <- eval n' G ((x, v) :: ρ) elt; do ys <- go r; Ok (y :: ys)
             end) l;
          Ok (VList vs)
      end
  end

with apply (n : nat) (G : genv) (f : value) (args : list value) (kw : list (string * value))
  {struct n} : res value :=
  match n with
  | O => OutOfFuel
  | S n' =>
      match f with
      | VLam ps body => do b <- bind_params ps args kw; eval n' G b body
      | VFunc name =>
          match assoc name (g_funs G) with
          | Some fd => do b <- bind_fun fd args kw; run n' G b (f_body fd)
          | None => Err "NameError"
          end
      | VBound self cls m =>
          match self with
          | VEnum e _ _ =>
              match assoc e (g_enum_methods G) with
              | Some ms => match assoc m ms with
                           | Some fd => do b <- bind_fun fd (self :: args) kw;
                                        run n' G b (f_body fd)
                           | None => Err "AttributeError"
                           end
              | None => Err "AttributeError"
              end
          | VClass c =>
              (* Class.method(...) : classmethod receives the class, otherwise unbound;
                 a metaclass method receives the class as self *)
              match find_class (g_classes G) cls with
              | Some cd =>
                  match assoc m (c_methods cd) with
                  | Some fd =>
                      if existsb (String.eqb m) (c_classmethods cd) || negb (existsb (String.eqb cls) (mro_of G c))
                      then do b <- bind_fun fd (self :: args) kw; run n' G b (f_body fd)
                      else do b <- bind_fun fd args kw; run n' G b (f_body fd)
                  | None => Err "AttributeError"
                  end
              | None => Err "AttributeError"
              end
          | _ =>
              match find_class (g_classes G) cls with
              | Some cd =>
                  match assoc m (c_methods cd) with
                  | Some fd => do b <- bind_fun fd (self :: args) kw;
                               run n' G b (f_body fd)
                  | None => Err "AttributeError"
                  end
              | None => Err "AttributeError"
              end
          end
      | VClass c => construct G c args kw
      | VBuiltin name =>
          let classes_of := fix co (l : list value) : option (list string) :=
                              match l with
                              | [] => Some []
                              | VClass c :: r => match co r with Some cs => Some (c :: cs) | None => None end
                              | _ => None
                              end in
          let items := match args with [VList l] | [VTuple l] => l | other => other end in
          match (if String.eqb name "max" then classes_of items else None) with
          | Some (c0 :: cs) =>
              (* maxitem = c0; for each item: if item > maxitem (reflected: maxitem.__lt__(item)) *)
              (fix go (cur : string) (rest : list string) : res value :=
                 match rest with
                 | [] => Ok (VClass cur)
                 | c :: rest' =>
                     match find_class (g_classes G) cur with
                     | Some cd =>
                         match find_method G (c_meta cd) "__lt__" with
                         | Some (mc, _) =>
                             do r <- apply n' G (VBound (VClass cur) mc "__lt__") [VClass c] [];
                             do t <- truthy r;
                             go (if t then c else cur) rest'
                         | None => Err "TypeError"
                         end
                     | None => Err "TypeError"
                     end
                 end) c0 cs
          | _ => call_builtin G name args
          end
      | _ => Err "TypeError"
      end
  end

(* run a statement list as a function body: the returned value, None if it falls off *)
with run (n : nat) (G : genv) (ρ : env) (ss : list stmt) {struct n} : res value :=
  match n with
  | O => OutOfFuel
  | S n' =>
      match ss with
      | [] => Ok VNone
      | s :: rest =>
          match s with
          | SAssign x e => do v <- eval n' G ρ e; run n' G ((x, v) :: ρ) rest
          | SAttrAssign x f e =>
              do v <- eval n' G ρ e;
              match assoc x ρ with
              | Some (VObj cls fields) =>
                  let fields' := (f, v) :: filter (fun kv => negb (String.eqb (fst kv) f)) fields in
                  run n' G ((x, VObj cls fields') :: ρ) rest
              | _ => Err "PyMini:attr-assign-target"
              end
          | SExpr e => do _ <- eval n' G ρ e; run n' G ρ rest
          | SPass => run n' G ρ rest
          | SRaise exn => Err exn
          | SReturn e => eval n' G ρ e
          | SIf c th el =>
              do v <- eval n' G ρ c; do t <- truthy v;
              (* branches do not bind names used after the if in the extracted
                 fragment unless the extractor duplicated the continuation *)
              run n' G ρ ((if t then th else el) ++ rest)
          | SMatch e cases =>
              do v <- eval n' G ρ e;
              (fix go (cs : list (list expr * list stmt)) : res value :=
                 match cs with
                 | [] => run n' G ρ rest
                 | (pats, body) :: cs' =>
                     do hit <- (fix anyp (ps : list expr) : res bool :=
                                  match ps with
                                  | [] => Ok false
                                  | p :: ps' =>
                                      do pv <- eval n' G ρ p;
                                      match veqb v pv with
                                      | Some true => Ok true
                                      | Some false => anyp ps'
                                      | None => Err "PyMini:incomparable"
                                      end
                                  end) pats;
                     if hit then run n' G ρ (body ++ rest) else go cs'
                 end) cases
          end
      end
  end.

Definition FUEL : nat := 200.
