(* C02 — Scalar operators accept exactly the allowed type pairs and yield the ruled type.
   Statements only; proofs live in Proofs/C02Proofs.v.  [G] is REGENERATED from
   /repo/nada_dsl/nada_types/scalar_types.py on every check. *)
From Coq Require Import ZArith List String Bool.
From NadaV.PyMini Require Import PyMini.
From NadaV.Gen Require Import GenScalar.
From NadaV.Model Require Import Rules.
From NadaV.Spec Require Import TypingSpec.
From NadaV.Proofs Require Import C02Proofs.
Import ListNotations.
Open Scope string_scope.

(* every binary operator / method x every ordered pair of the nine scalar types *)
Theorem C02_binary : forall (o : op) (l r : sty),
  conforms (spec2 o l r) (literal l && literal r) (rule2 G o l r) = true.
Proof. exact rules_binary. Qed.
Print Assumptions C02_binary.

(* if_else x every ordered triple *)
Theorem C02_if_else : forall (c a b : sty),
  conforms (spec_ifelse c a b) false (rule_ifelse G c a b) = true.
Proof. exact rules_ifelse. Qed.
Print Assumptions C02_if_else.

(* ~, to_public, random x every type *)
Theorem C02_unary : forall (t : sty),
  conforms (spec1 UInvert t) (literal t) (rule1 G UInvert t) = true /\
  conforms (spec1 UToPublic t) false (rule1 G UToPublic t) = true /\
  conforms (spec_random t) false (rule_random G t) = true.
Proof. exact rules_unary_split. Qed.
Print Assumptions C02_unary.

(* The table read as the rule of the property text: an accepted arithmetic /
   comparison / logical result keeps the common base type (boolean for comparisons)
   and takes the maximum of the operand modes; mixed bases are rejected. *)
Theorem C02_accepted_mode_is_max : forall o l r name t roles,
  o <> OPublicEquals ->
  rule2 G o l r = Emit name t roles ->
  fst t = mode_max (fst l) (fst r).
Proof. exact accepted_mode_is_max. Qed.
Print Assumptions C02_accepted_mode_is_max.

Theorem C02_mixed_bases_rejected : forall o l r,
  o <> OLShift -> o <> ORShift -> o <> OTruncPr ->
  snd l <> snd r -> exists e, rule2 G o l r = Reject e.
Proof. exact mixed_bases_rejected. Qed.
Print Assumptions C02_mixed_bases_rejected.

Theorem C02_secret_amount_rejected : forall o l r,
  (o = OLShift \/ o = ORShift \/ o = OTruncPr \/ o = OPow) ->
  fst r = MSecret -> exists e, rule2 G o l r = Reject e.
Proof. exact secret_amount_rejected. Qed.
Print Assumptions C02_secret_amount_rejected.

(* non-vacuity: accepted cells exist *)
Example C02_nonvacuous :
  rule2 G OAdd (MSecret, BInt) (MPublic, BInt) = Emit "Addition" (MSecret, BInt) [("left", 0%Z); ("right", 1%Z)]
  /\ rule_ifelse G (MSecret, BBool) (MPublic, BUInt) (MConst, BUInt)
     = Emit "IfElse" (MSecret, BUInt) [("this", 0%Z); ("arg_0", 1%Z); ("arg_1", 2%Z)].
Proof. exact nonvacuous. Qed.

(* ---- program level: EVERY program of the scalar fragment (literals of the three bases, inputs, random
   values, all twenty binary operators, ~, to_public, if_else, k + x; any length).  If the tracer accepts the
   program, the written rules (Spec/TypingSpec.v) type it, and every value bound — whatever the provenance of
   its operands: inputs, literals, folded literals, results of earlier operations — has exactly the ruled type,
   in the tracer and in the operation store.  The operator facts hold for ANY operand values. *)
From NadaV.Model Require Import Surface Trace Compile Mir.
From NadaV.Spec Require Import TypingSpec.
From NadaV.Proofs Require Import C02Rules C02Program.

Theorem C02_accepted_programs_are_typed_by_the_rules : forall ss fuel ρ s,
  exec GenScalar.G fuel [] ss init_state = Ok (ρ, s) -> scalar_fragment ss = true ->
  exists Γ, type_stmts ss [] = Some Γ
    /\ Forall2 (fun b a => fst b = fst a /\ exists id v, snd b = BWrap (WScalar (snd a) id v)
                           /\ forall i, id = Some i -> exists r, lookup i (store s) = Some r /\ r_ty r = TyName (Corr.mir_name (snd a)))
               ρ Γ.
Proof. exact accepted_programs_are_typed_by_the_rules. Qed.
Print Assumptions C02_accepted_programs_are_typed_by_the_rules.

(* ... and an operation the rules prohibit is rejected, whatever the operand values and provenance *)
Theorem C02_prohibited_operations_are_rejected : forall o ta ida va tb idb vb s,
  spec2 o ta tb = MustReject ->
  match do_binop GenScalar.G o (WScalar ta ida va) (WScalar tb idb vb) s with Ok _ => False | _ => True end.
Proof. exact prohibited_operations_are_rejected. Qed.
Print Assumptions C02_prohibited_operations_are_rejected.

Definition c02_example : list stmt :=
  [SLet "s" (RInput "s" "P0" "" (IScalar (MSecret, BUInt)));
   SLet "u" (RInput "u" "P0" "" (IScalar (MPublic, BUInt)));
   SLet "k" (RLit BUInt 2); SLet "j" (RLit BUInt 5);
   SLet "f" (RBin OMul "k" "j");                 (* folded literal *)
   SLet "a" (RBin OLShift "u" "f");              (* public << folded literal *)
   SLet "c" (RBin OLt "a" "s");
   SLet "r" (RIfElse "c" "u" "a");
   SLet "e" (RBin OPublicEquals "s" "r");
   SLet "n" (RNot "e")].
Example C02_program_nonvacuous :
  scalar_fragment c02_example = true
  /\ (exists ρ s, exec GenScalar.G 20 [] c02_example init_state = Ok (ρ, s))
  /\ type_stmts c02_example []
     = Some [("n", (MPublic, BBool)); ("e", (MPublic, BBool)); ("r", (MSecret, BUInt)); ("c", (MSecret, BBool));
             ("a", (MPublic, BUInt)); ("f", (MConst, BUInt)); ("j", (MConst, BUInt)); ("k", (MConst, BUInt));
             ("u", (MPublic, BUInt)); ("s", (MSecret, BUInt))].
Proof. split; [reflexivity|]. split; [eexists; eexists; vm_compute; reflexivity | vm_compute; reflexivity]. Qed.

(* ---- step level, for ANY state the tracer can be in (fresh_store holds of every reachable state) and ANY scalar
   operand wrappers — whatever produced them: inputs, literals, earlier operations, accessors of n-tuples and objects,
   parameters of nada functions, elements handed to map / reduce bodies.  An accepted operation returns a value of
   exactly the type the written rules prescribe, filed in the operation store under a fresh id with that type
   (step_ok: the store only grows, stays fresh, and the result's id is linked to a record of type mir_name t). *)
From NadaV.Proofs Require Import ScalarInv.
Theorem C02_binary_step : forall o ta ida va tb idb vb s w s1,
  do_binop GenScalar.G o (WScalar ta ida va) (WScalar tb idb vb) s = Ok (w, s1) -> fresh_store s ->
  exists t, principal (spec2 o ta tb) = Some t /\ ScalarInv.step_ok sty PE s s1 w t.
Proof. exact binop_ok. Qed.
Print Assumptions C02_binary_step.

Theorem C02_unary_step : forall u ta ida va s w s1,
  do_unop GenScalar.G u (WScalar ta ida va) s = Ok (w, s1) -> idlink s ida ta -> fresh_store s ->
  exists t, match spec1 u ta with MustAccept t' => Some t' | MustSame => Some ta | _ => None end = Some t
            /\ ScalarInv.step_ok sty PE s s1 w t.
Proof. exact unop_ok. Qed.
Print Assumptions C02_unary_step.

Theorem C02_if_else_step : forall tc idc vc ta ida va tb idb vb s w s1,
  do_ifelse GenScalar.G (WScalar tc idc vc) (WScalar ta ida va) (WScalar tb idb vb) s = Ok (w, s1) -> fresh_store s ->
  exists t, principal (spec_ifelse tc ta tb) = Some t /\ ScalarInv.step_ok sty PE s s1 w t.
Proof. exact ifelse_ok. Qed.
Print Assumptions C02_if_else_step.
