(* C15 — The abstract interpreter agrees with the real DSL on types and values.
   Both sides are REGENERATED: GenScalar.G from nada_types/scalar_types.py, GenAbstract.GA from
   audit/abstract.py (metaclass ordering, operator bodies), both evaluated by PyMini. *)
From Coq Require Import ZArith List String Bool.
From NadaV.PyMini Require Import PyMini.
From NadaV.Gen Require GenScalar.
From NadaV.Gen Require Import GenAbstract.
From NadaV.Model Require Import Rules AbsRules.
From NadaV.Proofs Require Import C15Proofs.
Import ListNotations.
Open Scope string_scope.

(* whenever the real DSL accepts a modelled operation on the six shared classes, the abstract
   interpreter accepts it too and gives the result the corresponding class *)
Theorem C15_types_binary : forall o l r t,
  In o abs_ops -> in_shared l = true -> in_shared r = true -> modelled o l r = true ->
  accepted_type (rule2 GenScalar.G o l r) = Some t ->
  exists v, arule2 GA o l r None None = AValue t v.
Proof. exact types_agree_binary. Qed.
Print Assumptions C15_types_binary.

Theorem C15_types_if_else : forall c a b t,
  in_shared c = true -> in_shared a = true -> in_shared b = true ->
  accepted_type (rule_ifelse GenScalar.G c a b) = Some t ->
  exists v, arule_ifelse GA c a b None None None = AValue t v.
Proof. exact types_agree_ifelse. Qed.
Print Assumptions C15_types_if_else.

(* for ALL integers x y: the abstract value of a modelled operation is the exact result *)
Theorem C15_value_binary : forall o ta tb x y,
  In o abs_ops -> int_sty ta -> int_sty tb ->
  exists m, arule2 GA o ta tb (Some x) (Some y) = AValue (m, res_base o) (exact_bin o x y).
Proof. exact abs_bin_exact_typed. Qed.
Print Assumptions C15_value_binary.

(* for ALL expressions composed from the modelled operators and ALL integer valuations of the
   inputs: whenever abstract execution yields a value, it is the exact integer evaluation *)
Theorem C15_values : forall ρ e t v, wf e ->
  abs_eval GA ρ e = AValue t (Some v) -> exact_eval ρ e = Some v /\ val_ok t v.
Proof. exact abs_eval_exact. Qed.
Print Assumptions C15_values.

Example C15_nonvacuous :
  let e := AIf (ABin OLt (AIn (MSecret, BInt) 0) (AIn (MPublic, BInt) 1))
               (ABin OMul (AIn (MSecret, BInt) 0) (ALit 3)) (ABin OSub (AIn (MPublic, BInt) 1) (ALit 7)) in
  wf e /\ abs_eval GA [2 ^ 70; 5]%Z e = AValue (MSecret, BInt) (Some (VInt (-2)%Z)).
Proof. split; [simpl; unfold shared; simpl; tauto | vm_compute; reflexivity]. Qed.
