(* C05 — Every type in the MIR is well formed and consistent along every edge. *)
From Coq Require Import ZArith List String Bool.
From NadaV.Gen Require GenScalar GenAst GenFrontend.
From NadaV.Model Require Import Rules Corr Mir Surface Trace Compile.
From NadaV.Spec Require MirSpec Tables.
From NadaV.Proofs Require Import TableObligations.
Import ListNotations.

(* the code computing recorded types still has the shape the model's [to_mir] was written against *)
Theorem C05_tables :
  GenFrontend.src_Collection_to_mir = Tables.src_Collection_to_mir /\
  GenFrontend.src_Collection_retrieve_inner_type = Tables.src_Collection_retrieve_inner_type /\
  GenFrontend.src_ArrayType_to_mir = Tables.src_ArrayType_to_mir /\
  GenFrontend.src_NadaType_to_mir = Tables.src_NadaType_to_mir /\
  GenFrontend.src_NadaType_class_to_mir = Tables.src_NadaType_class_to_mir /\
  GenFrontend.src_Array_init = Tables.src_Array_init /\
  GenFrontend.src_Array_map = Tables.src_Array_map /\
  GenFrontend.src_Array_zip = Tables.src_Array_zip /\
  GenFrontend.src_unzip = Tables.src_unzip /\
  GenFrontend.src_Array_new = Tables.src_Array_new /\
  GenFrontend.src_generate_accessor = Tables.src_generate_accessor /\
  GenFrontend.src_contained_types = Tables.src_contained_types /\
  GenFrontend.src_NadaFunction_init = Tables.src_NadaFunction_init.
Proof.
  repeat split; first [ exact tbl_src_Collection_to_mir | exact tbl_src_Collection_retrieve_inner_type
    | exact tbl_src_ArrayType_to_mir | exact tbl_src_NadaType_to_mir | exact tbl_src_NadaType_class_to_mir
    | exact tbl_src_Array_init | exact tbl_src_Array_map | exact tbl_src_Array_zip | exact tbl_src_unzip
    | exact tbl_src_Array_new | exact tbl_src_generate_accessor | exact tbl_src_contained_types
    | exact tbl_src_NadaFunction_init ].
Qed.
Print Assumptions C05_tables.

(* ---- program level (scalar fragment): the boolean specification C05b itself — every type complete, every edge
   consistent, outputs typed like their operations, input references typed like the inputs they name — holds of
   the MIR of EVERY program built from literals, inputs, random values, the twenty binary operators, ~, to_public,
   if_else and k + x (the same specification that is evaluated on the implementation's MIRs on every run) *)
From NadaV.PyMini Require Import PyMini.
From NadaV.Model Require Import Surface Trace Compile.
From NadaV.Spec Require Import MirSpec.
From NadaV.Proofs Require Import C02Program C05Program.

Theorem C05_scalar_programs : forall p m,
  run GenScalar.G p = Ok m -> scalar_fragment (p_stmts p) = true -> C05b m = true.
Proof. exact scalar_programs_satisfy_C05b. Qed.
Print Assumptions C05_scalar_programs.

(* ---------------------------------------------------------------------------------------------
   First clause of the property for the WHOLE surface language: for every well-formed program (declared array
   inputs have a size >= 0, object field names are distinct, function parameters are scalars — array parameters
   carry no size, the open finding C05/incomplete:array-param-without-size), every type in the MIR is a complete
   Nada type: operations of the main table and of every function's table, function return types and parameters,
   outputs, inputs and literals.  (An entry with the empty operation stands for a function record met as an operand;
   the tracer never produces one.) *)
From NadaV.PyMini Require Import PyMini.
From NadaV.Proofs Require Import C05All.
Theorem C05_all_types_complete : forall p m,
  wf_stmts (p_stmts p) = true -> Compile.run GenScalar.G p = Ok m -> mir_types_complete m.
Proof. exact (well_formed_programs_have_complete_types GenScalar.G). Qed.
Print Assumptions C05_all_types_complete.

(* the invariant behind it: at every point of every well-formed program every recorded type is complete and every
   bound value has a complete type *)
Theorem C05_tracing_records_complete_types : forall fuel ρ ss s ρ' s',
  wf_stmts ss = true -> cenv ρ -> CInv s -> exec GenScalar.G fuel ρ ss s = Ok (ρ', s') -> CInv s' /\ cenv ρ'.
Proof. exact (exec_complete GenScalar.G). Qed.
Print Assumptions C05_tracing_records_complete_types.

Example C05_all_types_nonvacuous :
  exists m, Compile.run GenScalar.G
    {| p_stmts := [ SLet "a" (RInput "a" "P" "" (IArray (IScalar (MSecret, BInt)) (Some 3)));
                    SLet "b" (RInput "b" "P" "" (IArray (IScalar (MPublic, BInt)) (Some 3)));
                    SLet "z" (RZip "a" "b"); SLet "u" (RUnzip "z");
                    SLet "o" (RObjectNew [("left", "a"); ("pairs", "z")]) ];
       p_outs := [{| out_name := "o"; out_party := "P"; out_var := "o" |}; {| out_name := "u"; out_party := "P"; out_var := "u" |}] |} = Ok m
    /\ wf_stmts [ SLet "a" (RInput "a" "P" "" (IArray (IScalar (MSecret, BInt)) (Some 3)));
                  SLet "b" (RInput "b" "P" "" (IArray (IScalar (MPublic, BInt)) (Some 3)));
                  SLet "z" (RZip "a" "b"); SLet "u" (RUnzip "z");
                  SLet "o" (RObjectNew [("left", "a"); ("pairs", "z")]) ] = true.
Proof. eexists. split; vm_compute; reflexivity. Qed.

(* ---------------------------------------------------------------------------------------------
   Second clause of the property for the WHOLE surface language (Proofs/C05Edges.v).
   Coherence: at every point of every program — top level, function bodies, nested definitions — every value
   bound to a name, and every component of a bound n-tuple or object, that carries an operation id is recorded
   under that id with ITS OWN type ([InvE]); [Inv] is the C11 invariant (fresh ids, function records), which
   C11_invariant_everywhere establishes at the same points. *)
From NadaV.Proofs Require Import TraceMono C11Program C12Steps C05Edges.

Theorem C05_values_are_recorded_with_their_types : forall fuel ρ ss s ρ' s',
  Inv ρ s -> InvE ρ s -> exec GenScalar.G fuel ρ ss s = Ok (ρ', s') -> InvE ρ' s'.
Proof. exact (exec_coherent GenScalar.G). Qed.
Print Assumptions C05_values_are_recorded_with_their_types.

Theorem C05_each_step_keeps_values_and_types_together : forall ρ r s w s1,
  Inv ρ s -> InvE ρ s -> eval_rhs GenScalar.G ρ r s = Ok (w, s1) -> cohd s1 w /\ InvE ρ s1 /\ sub s s1.
Proof. exact (eval_rhs_coherent GenScalar.G). Qed.
Print Assumptions C05_each_step_keeps_values_and_types_together.

(* a function body starts in such a state: each parameter is recorded with the type of the value its name is bound to *)
Theorem C05_function_bodies_start_coherent : forall ρ s params args s1,
  Inv ρ s -> InvE ρ s -> make_args (counter s + 1) params (after_alloc s) = Ok (args, s1) ->
  Inv (body_env args ρ) s1 /\ InvE (body_env args ρ) s1.
Proof. exact body_starts_coherent. Qed.
Print Assumptions C05_function_bodies_start_coherent.

(* Edges: in any such state, the type recorded for an accepted operation is determined by the types RECORDED for
   its operands.  [ty_at s id t]: the store holds type t under id;  [recorded_as s id t n]: it holds node n with type t. *)
Theorem C05_zip_edge : forall ρ s, Inv ρ s -> InvE ρ s -> forall a b w s1,
  eval_rhs GenScalar.G ρ (RZip a b) s = Ok (w, s1) ->
  exists l r id tx ty sz,
    wid w = Some id /\ recorded_as s1 id (TyArray (TyTuple tx ty) sz) (ABinary "Zip" l r)
    /\ ty_at s1 l (TyArray tx sz) /\ ty_at s1 r (TyArray ty sz).
Proof. exact (zip_edge GenScalar.G). Qed.
Print Assumptions C05_zip_edge.

Theorem C05_unzip_edge : forall ρ s, Inv ρ s -> InvE ρ s -> forall a w s1,
  eval_rhs GenScalar.G ρ (RUnzip a) s = Ok (w, s1) ->
  exists src id tl tr sz,
    wid w = Some id /\ recorded_as s1 id (TyTuple (TyArray tl sz) (TyArray tr sz)) (AUnary "Unzip" src)
    /\ ty_at s1 src (TyArray (TyTuple tl tr) sz).
Proof. exact (unzip_edge GenScalar.G). Qed.
Print Assumptions C05_unzip_edge.

Theorem C05_map_edge : forall ρ s, Inv ρ s -> InvE ρ s -> forall a f w s1,
  eval_rhs GenScalar.G ρ (RMap a f) s = Ok (w, s1) ->
  exists src fn id te tr sz,
    wid w = Some id /\ recorded_as s1 id (TyArray tr sz) (AMap src fn)
    /\ ty_at s1 src (TyArray te sz) /\ ty_at s1 fn tr.
Proof. exact (map_edge GenScalar.G). Qed.
Print Assumptions C05_map_edge.

Theorem C05_reduce_edge : forall ρ s, Inv ρ s -> InvE ρ s -> forall a f init w s1,
  eval_rhs GenScalar.G ρ (RReduce a f init) s = Ok (w, s1) ->
  exists src fn ini id tr,
    wid w = Some id /\ recorded_as s1 id tr (AReduce src fn ini) /\ ty_at s1 fn tr.
Proof. exact (reduce_edge GenScalar.G). Qed.
Print Assumptions C05_reduce_edge.

Theorem C05_call_edge : forall ρ s, Inv ρ s -> InvE ρ s -> forall f args kwargs w s1,
  eval_rhs GenScalar.G ρ (RCall f args kwargs) s = Ok (w, s1) ->
  exists ids fn id tr,
    wid w = Some id /\ recorded_as s1 id tr (ACall ids fn) /\ ty_at s1 fn tr.
Proof. exact (call_edge GenScalar.G). Qed.
Print Assumptions C05_call_edge.

Theorem C05_array_new_edge : forall ρ s, Inv ρ s -> InvE ρ s -> forall es w s1,
  eval_rhs GenScalar.G ρ (RArrayNew es) s = Ok (w, s1) ->
  exists ids id t0,
    wid w = Some id /\ recorded_as s1 id (TyArray t0 (Some (Z.of_nat (List.length ids)))) (ANew "ArrayNew" ids)
    /\ Forall (fun i => ty_at s1 i t0) ids.
Proof. exact (array_new_edge GenScalar.G). Qed.
Print Assumptions C05_array_new_edge.

Theorem C05_tuple_new_edge : forall ρ s, Inv ρ s -> InvE ρ s -> forall a b w s1,
  eval_rhs GenScalar.G ρ (RTupleNew a b) s = Ok (w, s1) ->
  exists i1 i2 id t1 t2,
    wid w = Some id /\ recorded_as s1 id (TyTuple t1 t2) (ANew "TupleNew" [i1; i2])
    /\ ty_at s1 i1 t1 /\ ty_at s1 i2 t2.
Proof. exact (tuple_new_edge GenScalar.G). Qed.
Print Assumptions C05_tuple_new_edge.

Theorem C05_ntuple_new_edge : forall ρ s, Inv ρ s -> InvE ρ s -> forall es w s1,
  eval_rhs GenScalar.G ρ (RNTupleNew es) s = Ok (w, s1) ->
  exists ids id ts,
    wid w = Some id /\ recorded_as s1 id (TyNTuple ts) (ANew "NTupleNew" ids) /\ Forall2 (ty_at s1) ids ts.
Proof. exact (ntuple_new_edge GenScalar.G). Qed.
Print Assumptions C05_ntuple_new_edge.

Theorem C05_object_new_edge : forall ρ s, Inv ρ s -> InvE ρ s -> forall fs w s1,
  eval_rhs GenScalar.G ρ (RObjectNew fs) s = Ok (w, s1) ->
  exists ids id kts,
    wid w = Some id /\ recorded_as s1 id (TyObject kts) (ANew "ObjectNew" ids)
    /\ map fst kts = map fst fs /\ Forall2 (fun i kt => ty_at s1 i (snd kt)) ids kts.
Proof. exact (object_new_edge GenScalar.G). Qed.
Print Assumptions C05_object_new_edge.

Theorem C05_index_edge : forall ρ s, Inv ρ s -> InvE ρ s -> forall a i w s1,
  eval_rhs GenScalar.G ρ (RIndex a i) s = Ok (w, s1) ->
  exists src ts t,
    ty_at s1 src (TyNTuple ts) /\ nth_error ts (Z.to_nat i) = Some t /\ (0 <= i < Z.of_nat (List.length ts))%Z
    /\ ((store s1 = store s /\ to_mir w = Ok t)
        \/ (wid w = Some (counter s + 1)%Z /\ recorded_as s1 (counter s + 1)%Z t (ANTupleAcc i src))).
Proof. exact (index_edge GenScalar.G). Qed.
Print Assumptions C05_index_edge.

Theorem C05_field_edge : forall ρ s, Inv ρ s -> InvE ρ s -> forall a k w s1,
  eval_rhs GenScalar.G ρ (RField a k) s = Ok (w, s1) ->
  exists src kts t,
    ty_at s1 src (TyObject kts) /\ assoc k kts = Some t
    /\ ((store s1 = store s /\ to_mir w = Ok t)
        \/ (wid w = Some (counter s + 1)%Z /\ recorded_as s1 (counter s + 1)%Z t (AObjectAcc k src))).
Proof. exact (field_edge GenScalar.G). Qed.
Print Assumptions C05_field_edge.

Theorem C05_inner_product_edge : forall ρ s, Inv ρ s -> InvE ρ s -> forall a b w s1,
  eval_rhs GenScalar.G ρ (RInner a b) s = Ok (w, s1) ->
  exists l r id tl tr sz,
    wid w = Some id
    /\ recorded_as s1 id (TyName (mir_name (mode_max (fst tl) (fst tr), snd tl))) (ABinary "InnerProduct" l r)
    /\ ty_at s1 l (TyArray (TyName (mir_name tl)) sz) /\ ty_at s1 r (TyArray (TyName (mir_name tr)) sz).
Proof. exact (inner_product_edge GenScalar.G). Qed.
Print Assumptions C05_inner_product_edge.

(* the hypotheses are met by the empty program state, hence (by the two invariant theorems) at every point of
   every program; and the operations above are accepted by concrete programs *)
Example C05_edges_nonvacuous :
  Inv [] init_state /\ InvE [] init_state
  /\ exists ρ s, exec GenScalar.G 20 []
       [ SLet "a" (RInput "a" "P" "" (IArray (IScalar (MSecret, BInt)) (Some 3)));
         SLet "b" (RInput "b" "P" "" (IArray (IScalar (MPublic, BInt)) (Some 3)));
         SLet "z" (RZip "a" "b"); SLet "u" (RUnzip "z"); SLet "p" (RInner "a" "b");
         SLet "n" (RNTupleNew ["a"; "p"]); SLet "x" (RIndex "n" 1);
         SLet "o" (RObjectNew [("left", "a"); ("pairs", "z")]); SLet "y" (RField "o" "pairs") ] init_state = Ok (ρ, s).
Proof.
  split; [apply Inv_init|]. split; [intros x w H; discriminate H|].
  eexists. eexists. vm_compute. reflexivity.
Qed.

(* Third sentence of the property, for any store and any outputs (the compile model): the MIR carries the RECORDED
   types — every table entry is the image of a stored record with its type, every output has the type recorded for
   the operation it names, every input entry the type recorded for its input operation.  With the coherence and
   edge theorems above (which speak about the store) this carries them to the MIR. *)
Theorem C05_mir_carries_the_recorded_types : forall st couts m fs',
  compile st [] couts = Ok (m, fs') -> mir_carries_recorded_types st couts m.
Proof. exact compile_carries_recorded_types. Qed.
Print Assumptions C05_mir_carries_the_recorded_types.

(* End to end, whole surface language: in the MIR of EVERY program each output carries the type of the VALUE the
   program returned for it ([to_mir] of the value bound to the returned variable), which is the type recorded for
   the operation the output names (coherence at the end of the trace + the compile model). *)
From NadaV.Proofs Require Import C05Outputs.
Theorem C05_outputs_have_the_type_of_the_returned_value : forall p m,
  Compile.run GenScalar.G p = Ok m ->
  exists ρ s', exec GenScalar.G (stmts_size (p_stmts p)) [] (p_stmts p) init_state = Ok (ρ, s')
              /\ Forall2 (typed_like_the_value ρ (store s')) (p_outs p) (m_outputs m).
Proof. exact (outputs_have_the_type_of_the_returned_value GenScalar.G). Qed.
Print Assumptions C05_outputs_have_the_type_of_the_returned_value.
