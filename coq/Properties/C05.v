(* C05 — Every type in the MIR is well formed and consistent along every edge. *)
From Coq Require Import ZArith List String Bool.
From NadaV.Gen Require GenScalar GenAst GenFrontend.
From NadaV.Model Require Import Rules Corr Mir Surface Trace Compile.
From NadaV.Spec Require MirSpec Tables.
From NadaV.Proofs Require Import TableObligations.
Import ListNotations.

(* the code computing recorded types still has the shape the model's [to_mir] was written against *)
Theorem C05_tables :
  GenFrontend.src_Collection_to_mir = Tables.src_Collection_to_mir /\
  GenFrontend.src_Collection_retrieve_inner_type = Tables.src_Collection_retrieve_inner_type /\
  GenFrontend.src_ArrayType_to_mir = Tables.src_ArrayType_to_mir /\
  GenFrontend.src_NadaType_to_mir = Tables.src_NadaType_to_mir /\
  GenFrontend.src_NadaType_class_to_mir = Tables.src_NadaType_class_to_mir /\
  GenFrontend.src_Array_init = Tables.src_Array_init /\
  GenFrontend.src_Array_map = Tables.src_Array_map /\
  GenFrontend.src_Array_zip = Tables.src_Array_zip /\
  GenFrontend.src_unzip = Tables.src_unzip /\
  GenFrontend.src_Array_new = Tables.src_Array_new /\
  GenFrontend.src_generate_accessor = Tables.src_generate_accessor /\
  GenFrontend.src_contained_types = Tables.src_contained_types /\
  GenFrontend.src_NadaFunction_init = Tables.src_NadaFunction_init.
Proof.
  repeat split; first [ exact tbl_src_Collection_to_mir | exact tbl_src_Collection_retrieve_inner_type
    | exact tbl_src_ArrayType_to_mir | exact tbl_src_NadaType_to_mir | exact tbl_src_NadaType_class_to_mir
    | exact tbl_src_Array_init | exact tbl_src_Array_map | exact tbl_src_Array_zip | exact tbl_src_unzip
    | exact tbl_src_Array_new | exact tbl_src_generate_accessor | exact tbl_src_contained_types
    | exact tbl_src_NadaFunction_init ].
Qed.
Print Assumptions C05_tables.

(* ---- program level (scalar fragment): the boolean specification C05b itself — every type complete, every edge
   consistent, outputs typed like their operations, input references typed like the inputs they name — holds of
   the MIR of EVERY program built from literals, inputs, random values, the twenty binary operators, ~, to_public,
   if_else and k + x (the same specification that is evaluated on the implementation's MIRs on every run) *)
From NadaV.PyMini Require Import PyMini.
From NadaV.Model Require Import Surface Trace Compile.
From NadaV.Spec Require Import MirSpec.
From NadaV.Proofs Require Import C02Program C05Program.

Theorem C05_scalar_programs : forall p m,
  run GenScalar.G p = Ok m -> scalar_fragment (p_stmts p) = true -> C05b m = true.
Proof. exact scalar_programs_satisfy_C05b. Qed.
Print Assumptions C05_scalar_programs.

(* ---------------------------------------------------------------------------------------------
   First clause of the property for the WHOLE surface language: for every well-formed program (declared array
   inputs have a size >= 0, object field names are distinct, function parameters are scalars — array parameters
   carry no size, the open finding C05/incomplete:array-param-without-size), every type in the MIR is a complete
   Nada type: operations of the main table and of every function's table, function return types and parameters,
   outputs, inputs and literals.  (An entry with the empty operation stands for a function record met as an operand;
   the tracer never produces one.) *)
From NadaV.PyMini Require Import PyMini.
From NadaV.Proofs Require Import C05All.
Theorem C05_all_types_complete : forall p m,
  wf_stmts (p_stmts p) = true -> Compile.run GenScalar.G p = Ok m -> mir_types_complete m.
Proof. exact (well_formed_programs_have_complete_types GenScalar.G). Qed.
Print Assumptions C05_all_types_complete.

(* the invariant behind it: at every point of every well-formed program every recorded type is complete and every
   bound value has a complete type *)
Theorem C05_tracing_records_complete_types : forall fuel ρ ss s ρ' s',
  wf_stmts ss = true -> cenv ρ -> CInv s -> exec GenScalar.G fuel ρ ss s = Ok (ρ', s') -> CInv s' /\ cenv ρ'.
Proof. exact (exec_complete GenScalar.G). Qed.
Print Assumptions C05_tracing_records_complete_types.

Example C05_all_types_nonvacuous :
  exists m, Compile.run GenScalar.G
    {| p_stmts := [ SLet "a" (RInput "a" "P" "" (IArray (IScalar (MSecret, BInt)) (Some 3)));
                    SLet "b" (RInput "b" "P" "" (IArray (IScalar (MPublic, BInt)) (Some 3)));
                    SLet "z" (RZip "a" "b"); SLet "u" (RUnzip "z");
                    SLet "o" (RObjectNew [("left", "a"); ("pairs", "z")]) ];
       p_outs := [{| out_name := "o"; out_party := "P"; out_var := "o" |}; {| out_name := "u"; out_party := "P"; out_var := "u" |}] |} = Ok m
    /\ wf_stmts [ SLet "a" (RInput "a" "P" "" (IArray (IScalar (MSecret, BInt)) (Some 3)));
                  SLet "b" (RInput "b" "P" "" (IArray (IScalar (MPublic, BInt)) (Some 3)));
                  SLet "z" (RZip "a" "b"); SLet "u" (RUnzip "z");
                  SLet "o" (RObjectNew [("left", "a"); ("pairs", "z")]) ] = true.
Proof. eexists. split; vm_compute; reflexivity. Qed.
