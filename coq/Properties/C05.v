(* C05 — Every type in the MIR is well formed and consistent along every edge. *)
From Coq Require Import ZArith List String Bool.
From NadaV.Gen Require GenScalar GenAst GenFrontend.
From NadaV.Model Require Import Rules Corr Mir Surface Trace Compile.
From NadaV.Spec Require MirSpec Tables.
From NadaV.Proofs Require Import TableObligations.
Import ListNotations.

(* the code computing recorded types still has the shape the model's [to_mir] was written against *)
Theorem C05_tables :
  GenFrontend.src_Collection_to_mir = Tables.src_Collection_to_mir /\
  GenFrontend.src_Collection_retrieve_inner_type = Tables.src_Collection_retrieve_inner_type /\
  GenFrontend.src_ArrayType_to_mir = Tables.src_ArrayType_to_mir /\
  GenFrontend.src_NadaType_to_mir = Tables.src_NadaType_to_mir /\
  GenFrontend.src_NadaType_class_to_mir = Tables.src_NadaType_class_to_mir /\
  GenFrontend.src_Array_init = Tables.src_Array_init /\
  GenFrontend.src_Array_map = Tables.src_Array_map /\
  GenFrontend.src_Array_zip = Tables.src_Array_zip /\
  GenFrontend.src_unzip = Tables.src_unzip /\
  GenFrontend.src_Array_new = Tables.src_Array_new /\
  GenFrontend.src_generate_accessor = Tables.src_generate_accessor /\
  GenFrontend.src_contained_types = Tables.src_contained_types /\
  GenFrontend.src_NadaFunction_init = Tables.src_NadaFunction_init.
Proof.
  repeat split; first [ exact tbl_src_Collection_to_mir | exact tbl_src_Collection_retrieve_inner_type
    | exact tbl_src_ArrayType_to_mir | exact tbl_src_NadaType_to_mir | exact tbl_src_NadaType_class_to_mir
    | exact tbl_src_Array_init | exact tbl_src_Array_map | exact tbl_src_Array_zip | exact tbl_src_unzip
    | exact tbl_src_Array_new | exact tbl_src_generate_accessor | exact tbl_src_contained_types
    | exact tbl_src_NadaFunction_init ].
Qed.
Print Assumptions C05_tables.
