(* C14 — The strict checker is sound: inferred static types equal the types at run time.
   Theorems: the checker's result-type rules (regenerated from audit/strict.py) against the abstract
   interpreter's operator bodies (regenerated from audit/abstract.py), over every combination of the
   six classes.  The recursion skeleton of types() (statements, lists, loops, helper functions) is
   validated per program: static attribute of every node vs the class bound there at run time. *)
From Coq Require Import ZArith List String Bool.
From NadaV.PyMini Require Import PyMini.
From NadaV.Gen Require GenAbstract GenAudit.
From NadaV.Model Require Import Rules StaticRules AbsRules.
From NadaV.Proofs Require Import C15Proofs C14Proofs.
Import ListNotations.
Open Scope string_scope.

(* + - * : whenever _types_binop_mult_add_sub gives a (non-error) type, abstract execution of the
   operation yields a value of exactly that class *)
Theorem C14_arithmetic : forall o l r t, In o arith_ops -> in_shared l = true -> in_shared r = true ->
  static_bin GS "_types_binop_mult_add_sub" l r = SType t -> exists v, arule2 GA o l r None None = AValue t v.
Proof. exact static_arith_sound. Qed.
Print Assumptions C14_arithmetic.

(* < <= > >= == != : _types_compare *)
Theorem C14_comparisons : forall o l r t, In o cmp_ops -> in_shared l = true -> in_shared r = true ->
  static_bin GS "_types_compare" l r = SType t -> exists v, arule2 GA o l r None None = AValue t v.
Proof. exact static_compare_sound. Qed.
Print Assumptions C14_comparisons.

(* cond.if_else(a, b): the rule extracted from the if_else branch of types() *)
Theorem C14_if_else : forall c a b t, in_shared c = true -> in_shared a = true -> in_shared b = true ->
  static_ifelse GS GenAudit.ifelse_static_exprs c a b = SType t ->
  exists v, arule_ifelse GA c a b None None None = AValue t v.
Proof. exact static_ifelse_sound. Qed.
Print Assumptions C14_if_else.

Example C14_nonvacuous :
  static_ifelse GS GenAudit.ifelse_static_exprs (MSecret, BBool) (MPublic, BInt) (MConst, BInt) = SType (MSecret, BInt)
  /\ static_bin GS "_types_compare" (MConst, BInt) (MPublic, BInt) = SType (MPublic, BBool).
Proof. split; vm_compute; reflexivity. Qed.

(* ---- whole expressions: the checker's rules applied bottom-up (inputs of the six shared classes, integer literals,
   + - *, the six comparisons, if_else, to any depth).  Whenever they give a type, abstract execution under ANY
   valuation of the inputs yields a value of exactly that class — and (with C15's induction) the exact result. *)
From NadaV.Proofs Require Import C14Expr.
Theorem C14_expressions : forall ρ e t, wf e -> sty_of e = SType t ->
  in_shared t = true /\ exists v, abs_eval GA ρ e = AValue t (Some v) /\ value_kind t v.
Proof. exact checker_sound_on_expressions. Qed.
Print Assumptions C14_expressions.

Theorem C14_expressions_exact : forall ρ e t, wf e -> sty_of e = SType t ->
  exists v, abs_eval GA ρ e = AValue t (Some v) /\ exact_eval ρ e = Some v.
Proof. exact checker_sound_and_exact. Qed.
Print Assumptions C14_expressions_exact.

Example C14_expressions_nonvacuous :
  sty_of (AIf (ABin OLt (AIn (MSecret, BInt) 0) (ALit 5)) (ABin OMul (AIn (MPublic, BInt) 1) (ALit 2)) (AIn (MPublic, BInt) 1))
  = SType (MSecret, BInt).
Proof. vm_compute. reflexivity. Qed.
