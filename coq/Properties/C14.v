(* C14 — The strict checker is sound: inferred static types equal the types at run time.
   Theorems: the checker's result-type rules (regenerated from audit/strict.py) against the abstract
   interpreter's operator bodies (regenerated from audit/abstract.py), over every combination of the
   six classes.  The recursion skeleton of types() (statements, lists, loops, helper functions) is
   validated per program: static attribute of every node vs the class bound there at run time. *)
From Coq Require Import ZArith List String Bool.
From NadaV.PyMini Require Import PyMini.
From NadaV.Gen Require GenAbstract GenAudit.
From NadaV.Model Require Import Rules StaticRules AbsRules.
From NadaV.Proofs Require Import C15Proofs C14Proofs.
Import ListNotations.
Open Scope string_scope.

(* + - * : whenever _types_binop_mult_add_sub gives a (non-error) type, abstract execution of the
   operation yields a value of exactly that class *)
Theorem C14_arithmetic : forall o l r t, In o arith_ops -> in_shared l = true -> in_shared r = true ->
  static_bin GS "_types_binop_mult_add_sub" l r = SType t -> exists v, arule2 GA o l r None None = AValue t v.
Proof. exact static_arith_sound. Qed.
Print Assumptions C14_arithmetic.

(* < <= > >= == != : _types_compare *)
Theorem C14_comparisons : forall o l r t, In o cmp_ops -> in_shared l = true -> in_shared r = true ->
  static_bin GS "_types_compare" l r = SType t -> exists v, arule2 GA o l r None None = AValue t v.
Proof. exact static_compare_sound. Qed.
Print Assumptions C14_comparisons.

(* cond.if_else(a, b): the rule extracted from the if_else branch of types() *)
Theorem C14_if_else : forall c a b t, in_shared c = true -> in_shared a = true -> in_shared b = true ->
  static_ifelse GS GenAudit.ifelse_static_exprs c a b = SType t ->
  exists v, arule_ifelse GA c a b None None None = AValue t v.
Proof. exact static_ifelse_sound. Qed.
Print Assumptions C14_if_else.

Example C14_nonvacuous :
  static_ifelse GS GenAudit.ifelse_static_exprs (MSecret, BBool) (MPublic, BInt) (MConst, BInt) = SType (MSecret, BInt)
  /\ static_bin GS "_types_compare" (MConst, BInt) (MPublic, BInt) = SType (MPublic, BBool).
Proof. split; vm_compute; reflexivity. Qed.
