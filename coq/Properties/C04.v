(* C04 — The operation graph is a faithful image of the expression the program wrote. *)
From Coq Require Import ZArith List String Bool.
From NadaV.PyMini Require Import PyMini.
From NadaV.Gen Require GenScalar GenAst GenFrontend.
From NadaV.Model Require Import Rules Corr Mir Surface Trace Compile.
From NadaV.Spec Require Denote.
From NadaV.Spec Require Import TypingSpec.
From NadaV.Spec Require Tables.
From NadaV.Proofs Require Import TableObligations C04Proofs.
From NadaV.Proofs Require C06Proofs.
Import ListNotations.
Open Scope string_scope.

(* every accepted scalar operator records the operation named after the operator, with the
   written left operand as `left` and the written right operand as `right` (all 19 binary
   operators / methods x 81 type pairs) *)
Theorem C04_binary_roles : forall o l r name t roles,
  rule2 GenScalar.G o l r = Emit name t roles ->
  name = opname o /\ roles = [("left", 0%Z); ("right", 1%Z)].
Proof. exact binary_roles. Qed.
Print Assumptions C04_binary_roles.

Theorem C04_ifelse_roles : forall c a b name t roles,
  rule_ifelse GenScalar.G c a b = Emit name t roles ->
  name = "IfElse" /\ roles = [("this", 0%Z); ("arg_0", 1%Z); ("arg_1", 2%Z)].
Proof. exact ifelse_roles. Qed.
Print Assumptions C04_ifelse_roles.

Theorem C04_unary_roles : forall u t name t' roles,
  rule1 GenScalar.G u t = Emit name t' roles ->
  name = (match u with UInvert => "Not" | UToPublic => "Reveal" end) /\ roles = [("child", 0%Z)].
Proof. exact unary_roles. Qed.
Print Assumptions C04_unary_roles.

(* the attribute paths that feed the AST record of each operation class, and the MIR key each
   AST field is written to, are the ones the model (and Spec/Denote.v's reading of a MIR) assume *)
Theorem C04_tables :
  GenAst.store_maps = Tables.store_maps /\ GenAst.ast_to_mir = Tables.ast_to_mir /\
  GenAst.alloc_inits = Tables.alloc_inits /\
  GenFrontend.src_NadaFunction_call = Tables.src_NadaFunction_call /\
  GenFrontend.src_NadaFunctionCall_init = Tables.src_NadaFunctionCall_init /\
  GenFrontend.src_nada_fn = Tables.src_nada_fn /\
  GenFrontend.src_Array_map = Tables.src_Array_map /\ GenFrontend.src_Array_reduce = Tables.src_Array_reduce /\
  GenFrontend.src_Tuple_new = Tables.src_Tuple_new /\ GenFrontend.src_NTuple_new = Tables.src_NTuple_new /\
  GenFrontend.src_Object_new = Tables.src_Object_new.
Proof.
  repeat split; first [ exact tbl_store_maps | exact tbl_ast_to_mir | exact tbl_alloc_inits
    | exact tbl_src_NadaFunction_call | exact tbl_src_NadaFunctionCall_init | exact tbl_src_nada_fn
    | exact tbl_src_Array_map | exact tbl_src_Array_reduce | exact tbl_src_Tuple_new | exact tbl_src_NTuple_new
    | exact tbl_src_Object_new ].
Qed.
Print Assumptions C04_tables.

(* "sub-expressions made only of literals are replaced by their value": the value is the exact one
   (consumed from the C06 development: for ALL integers) *)
Theorem C04_literal_subexpressions_exact : forall b x y, NadaV.Proofs.C06Proofs.num b -> y <> 0%Z ->
  rule2v GenScalar.G OAdd (MConst, b) (MConst, b) x y = Fold (MConst, b) (VInt (x + y)%Z) /\
  rule2v GenScalar.G OSub (MConst, b) (MConst, b) x y = Fold (MConst, b) (VInt (x - y)%Z) /\
  rule2v GenScalar.G OMul (MConst, b) (MConst, b) x y = Fold (MConst, b) (VInt (x * y)%Z) /\
  rule2v GenScalar.G ODiv (MConst, b) (MConst, b) x y = Fold (MConst, b) (VInt (x / y)%Z) /\
  rule2v GenScalar.G OMod (MConst, b) (MConst, b) x y = Fold (MConst, b) (VInt (x mod y)%Z).
Proof.
  intros b x y Hb Hy.
  exact (conj (NadaV.Proofs.C06Proofs.fold_add b x y Hb) (conj (NadaV.Proofs.C06Proofs.fold_sub b x y Hb)
        (conj (NadaV.Proofs.C06Proofs.fold_mul b x y Hb) (conj (NadaV.Proofs.C06Proofs.fold_div b x y Hb Hy)
        (NadaV.Proofs.C06Proofs.fold_mod b x y Hb Hy))))).
Qed.
Print Assumptions C04_literal_subexpressions_exact.

(* FULL statement of C04 over the model -- NOT proved for all programs (the simulation between the
   store-free denotation Spec/Denote.v and the tracer is future work); it is decided per program:
   [Denote.faithfulb p m] is evaluated in Coq on every MIR the real compiler emits. *)
Definition C04_statement : Prop :=
  forall p m, run GenScalar.G p = Ok m -> Denote.faithfulb p m = true.

(* ... and it is FALSE of the faithful model for one syntactic class (known finding
   C04/fold:literal-typed-params): an operator applied to literal-typed nada_fn parameters is
   folded on the placeholder value 0: (k + j) * x is emitted as 0 * x *)
Definition literal_param_program : program :=
  {| p_stmts := [(SDef "g" [("k", (IScalar (MConst, BInt))); ("j", (IScalar (MConst, BInt))); ("x", (IScalar (MSecret, BInt)))] (IScalar (MSecret, BInt)) [(SLet "kj" (RBin OAdd "k" "j")); (SLet "r" (RBin OMul "kj" "x"))] "r"); (SLet "c1" (RLit BInt (2)%Z)); (SLet "c2" (RLit BInt (3)%Z)); (SLet "x" (RInput "x" "P0" "" (IScalar (MSecret, BInt)))); (SLet "r" (RCall "g" ["c1"; "c2"; "x"] []))]; p_outs := [{| out_name := "o"; out_party := "P0"; out_var := "r" |}] |}.

Theorem C04_refuted_literal_typed_params :
  exists p m, run GenScalar.G p = Ok m /\ Denote.faithfulb p m = false.
Proof. exists literal_param_program. eexists. split; [vm_compute; reflexivity | vm_compute; reflexivity]. Qed.
Print Assumptions C04_refuted_literal_typed_params.

(* ---- program level (scalar fragment): the tracer's operation store is a faithful image of the store-free
   denotation of the program (Spec/Denote.v), for EVERY program built from literals, inputs, random values, the
   twenty binary operators, ~, to_public, if_else and k + x on which both succeed.  There is a map φ from
   evaluation events to operation ids such that ([sim], [node_rel], [env_rel] in Proofs/C04Program.v):
     - every event is recorded as the operation of the same kind / MIR name, with its operands in the written
       order, an event operand as the image of that event, a literal operand as a Literal operation holding
       exactly the literal's value and type;
     - φ is injective and stays below the id counter;
     - every variable is bound to the image of its denotation: an event's operation (never literal-typed), or a
       Literal operation holding the exact value of a literal-only expression. *)
From NadaV.Model Require Import Surface Trace Compile.
From NadaV.Spec Require Import Denote.
From NadaV.Proofs Require Import C02Program C04Program.

Theorem C04_scalar_programs_faithful : forall ss f1 f2 ρ s dρ ds,
  exec GenScalar.G f1 [] ss init_state = Ok (ρ, s) -> dexec f2 [] ss ds0 = Some (dρ, ds) -> scalar_fragment ss = true ->
  exists φ, sim φ ds s /\ env_rel φ s ρ dρ.
Proof. exact store_is_a_faithful_image. Qed.
Print Assumptions C04_scalar_programs_faithful.

Definition c04_example : list stmt :=
  [SLet "s" (RInput "s" "P0" "" (IScalar (MSecret, BInt))); SLet "u" (RInput "u" "P0" "" (IScalar (MPublic, BInt)));
   SLet "k" (RLit BInt 2); SLet "j" (RLit BInt 5); SLet "f" (RBin OSub "k" "j");
   SLet "a" (RBin OSub "u" "f"); SLet "b" (RBin OSub "f" "s"); SLet "c" (RBin OLt "a" "b");
   SLet "r" (RIfElse "c" "u" "f"); SLet "d" (RToPublic "b"); SLet "e" (RRAdd 7 "r")].
Example C04_program_nonvacuous :
  scalar_fragment c04_example = true
  /\ (exists ρ s, exec GenScalar.G 20 [] c04_example init_state = Ok (ρ, s))
  /\ (exists dρ ds, dexec 20 [] c04_example ds0 = Some (dρ, ds) /\ List.length (ds_nodes ds) = 8%nat).
Proof.
  split; [reflexivity|]. split; [eexists; eexists; vm_compute; reflexivity|].
  eexists; eexists; split; [vm_compute; reflexivity | reflexivity].
Qed.

(* ---- collection operations, site level, WHOLE surface language (Proofs/C04Sites.v): for ANY environment and ANY
   tracer state an accepted collection operation is recorded under its own operation name with, as operands, the
   ids of the values its arguments are bound to ([named_id ρ x i]: x is bound to a value whose operation id is i),
   in written order.  (map / reduce / calls: C11_map_bound, C11_reduce_bound, C11_call_bound.) *)
From NadaV.Proofs Require Import TraceMono C11Program C12Steps C04Sites.

Theorem C04_zip_site : forall ρ a b s w s1,
  eval_rhs GenScalar.G ρ (RZip a b) s = Ok (w, s1) ->
  exists l r id ty, named_id ρ a l /\ named_id ρ b r /\ wid w = Some id /\ recorded_as s1 id ty (ABinary "Zip" l r).
Proof. exact (zip_site GenScalar.G). Qed.
Print Assumptions C04_zip_site.

Theorem C04_inner_product_site : forall ρ a b s w s1,
  eval_rhs GenScalar.G ρ (RInner a b) s = Ok (w, s1) ->
  exists l r id ty, named_id ρ a l /\ named_id ρ b r /\ wid w = Some id /\ recorded_as s1 id ty (ABinary "InnerProduct" l r).
Proof. exact (inner_product_site GenScalar.G). Qed.
Print Assumptions C04_inner_product_site.

Theorem C04_unzip_site : forall ρ a s w s1,
  eval_rhs GenScalar.G ρ (RUnzip a) s = Ok (w, s1) ->
  exists src id ty, named_id ρ a src /\ wid w = Some id /\ recorded_as s1 id ty (AUnary "Unzip" src).
Proof. exact (unzip_site GenScalar.G). Qed.
Print Assumptions C04_unzip_site.

Theorem C04_array_new_site : forall ρ es s w s1,
  eval_rhs GenScalar.G ρ (RArrayNew es) s = Ok (w, s1) ->
  exists ids id ty, Forall2 (named_id ρ) es ids /\ wid w = Some id /\ recorded_as s1 id ty (ANew "ArrayNew" ids).
Proof. exact (array_new_site GenScalar.G). Qed.
Print Assumptions C04_array_new_site.

Theorem C04_tuple_new_site : forall ρ a b s w s1,
  eval_rhs GenScalar.G ρ (RTupleNew a b) s = Ok (w, s1) ->
  exists i1 i2 id ty, named_id ρ a i1 /\ named_id ρ b i2 /\ wid w = Some id /\ recorded_as s1 id ty (ANew "TupleNew" [i1; i2]).
Proof. exact (tuple_new_site GenScalar.G). Qed.
Print Assumptions C04_tuple_new_site.

Theorem C04_ntuple_new_site : forall ρ es s w s1,
  eval_rhs GenScalar.G ρ (RNTupleNew es) s = Ok (w, s1) ->
  exists ids id ty, Forall2 (named_id ρ) es ids /\ wid w = Some id /\ recorded_as s1 id ty (ANew "NTupleNew" ids).
Proof. exact (ntuple_new_site GenScalar.G). Qed.
Print Assumptions C04_ntuple_new_site.

Theorem C04_object_new_site : forall ρ fs s w s1,
  eval_rhs GenScalar.G ρ (RObjectNew fs) s = Ok (w, s1) ->
  exists ids id ty, Forall2 (named_id ρ) (map snd fs) ids /\ wid w = Some id /\ recorded_as s1 id ty (ANew "ObjectNew" ids).
Proof. exact (object_new_site GenScalar.G). Qed.
Print Assumptions C04_object_new_site.

Theorem C04_index_site : forall ρ a i s w s1,
  eval_rhs GenScalar.G ρ (RIndex a i) s = Ok (w, s1) ->
  exists src, named_id ρ a src
    /\ (store s1 = store s \/ exists ty, wid w = Some (counter s + 1)%Z /\ recorded_as s1 (counter s + 1)%Z ty (ANTupleAcc i src)).
Proof. exact (index_site GenScalar.G). Qed.
Print Assumptions C04_index_site.

Theorem C04_field_site : forall ρ a k s w s1,
  eval_rhs GenScalar.G ρ (RField a k) s = Ok (w, s1) ->
  exists src, named_id ρ a src
    /\ (store s1 = store s \/ exists ty, wid w = Some (counter s + 1)%Z /\ recorded_as s1 (counter s + 1)%Z ty (AObjectAcc k src)).
Proof. exact (field_site GenScalar.G). Qed.
Print Assumptions C04_field_site.
