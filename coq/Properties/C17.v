(* C17 — The audit report reproduces the source and shows the inferred types. *)
From Coq Require Import ZArith List String Bool.
From NadaV.Gen Require GenAudit.
From NadaV.Model Require Import RichReports.
From NadaV.Proofs Require Import C17Proofs.
Import ListNotations.

(* for EVERY source text and EVERY sequence of enrich operations (any positions, any delimiters, any
   flags) that completes: removing the inserted delimiters from the rendered report gives back the
   source text exactly, character for character and line for line *)
Theorem C17_source : forall src cs r',
  run_calls (mk_report src) cs = Done r' -> erase (render r') = src_tokens src.
Proof. exact source_reproduced_exactly. Qed.
Print Assumptions C17_source.

(* one enrich operation never changes the characters of the report *)
Theorem C17_enrich_preserves_text : forall r s e left right inter skip r',
  enrich r s e left right inter skip = Done r' -> skeleton r' = skeleton r.
Proof. exact enrich_skeleton. Qed.
Print Assumptions C17_enrich_preserves_text.

Example C17_nonvacuous :
  exists r, run_calls (mk_report "x = 1")
              [{| e_start := (1, 0)%Z; e_end := (1, 0)%Z; e_left := "<b>"; e_right := "</b>"; e_inter := false; e_skip := true |}] = Done r
            /\ render r <> render (mk_report "x = 1").
Proof. eexists. split; [vm_compute; reflexivity | vm_compute; discriminate]. Qed.
