(* C06 — Literal-only expressions fold to the exact integer or boolean result.
   For ALL integer values (unbounded Z).  [G] is regenerated from scalar_types.py. *)
From Coq Require Import ZArith List String Bool.
From NadaV.PyMini Require Import PyMini.
From NadaV.Gen Require Import GenScalar.
From NadaV.Model Require Import Rules.
From NadaV.Spec Require Import TypingSpec.
From NadaV.Proofs Require Import C06Proofs.
Import ListNotations.
Open Scope Z_scope.

(* sums, differences, products *)
Theorem C06_add : forall b x y, num b -> rule2v G OAdd (L b) (L b) x y = Fold (L b) (VInt (x + y)).
Proof. exact fold_add. Qed.
Print Assumptions C06_add.
Theorem C06_sub : forall b x y, num b -> rule2v G OSub (L b) (L b) x y = Fold (L b) (VInt (x - y)).
Proof. exact fold_sub. Qed.
Print Assumptions C06_sub.
Theorem C06_mul : forall b x y, num b -> rule2v G OMul (L b) (L b) x y = Fold (L b) (VInt (x * y)).
Proof. exact fold_mul. Qed.
Print Assumptions C06_mul.

(* powers with non-negative exponent, shifts *)
Theorem C06_pow : forall b x e, num b -> 0 <= e -> rule2v G OPow (L b) (L b) x e = Fold (L b) (VInt (x ^ e)).
Proof. exact fold_pow. Qed.
Print Assumptions C06_pow.
Theorem C06_lshift : forall b x k, num b -> 0 <= k ->
  rule2v G OLShift (L b) (L BUInt) x k = Fold (L b) (VInt (x * 2 ^ k)).
Proof. exact fold_lshift. Qed.
Print Assumptions C06_lshift.
Theorem C06_rshift : forall b x k, num b -> 0 <= k ->
  rule2v G ORShift (L b) (L BUInt) x k = Fold (L b) (VInt (x / 2 ^ k)).
Proof. exact fold_rshift. Qed.
Print Assumptions C06_rshift.

(* comparisons and equality *)
Theorem C06_compare : forall b x y, num b ->
  rule2v G OLt (L b) (L b) x y = Fold (L BBool) (VBool (x <? y)) /\
  rule2v G OGt (L b) (L b) x y = Fold (L BBool) (VBool (x >? y)) /\
  rule2v G OLe (L b) (L b) x y = Fold (L BBool) (VBool (x <=? y)) /\
  rule2v G OGe (L b) (L b) x y = Fold (L BBool) (VBool (x >=? y)) /\
  rule2v G OEq (L b) (L b) x y = Fold (L BBool) (VBool (x =? y)) /\
  rule2v G ONe (L b) (L b) x y = Fold (L BBool) (VBool (negb (x =? y))).
Proof.
  intros b x y H.
  exact (conj (fold_lt b x y H) (conj (fold_gt b x y H) (conj (fold_le b x y H)
        (conj (fold_ge b x y H) (conj (fold_eq b x y H) (fold_ne b x y H)))))).
Qed.
Print Assumptions C06_compare.

(* boolean connectives ([tb v] is the boolean carried by the literal) *)
Theorem C06_boolean : forall x y,
  rule2v G OAnd (L BBool) (L BBool) x y = Fold (L BBool) (VBool (tb x && tb y)) /\
  rule2v G OOr (L BBool) (L BBool) x y = Fold (L BBool) (VBool (tb x || tb y)) /\
  rule2v G OXor (L BBool) (L BBool) x y = Fold (L BBool) (VBool (xorb (tb x) (tb y))) /\
  rule2v G OEq (L BBool) (L BBool) x y = Fold (L BBool) (VBool (Bool.eqb (tb x) (tb y))) /\
  rule2v G ONe (L BBool) (L BBool) x y = Fold (L BBool) (VBool (negb (Bool.eqb (tb x) (tb y)))) /\
  classify (dispatch_method G "__invert__" (operand (L BBool) x 0) []) = Fold (L BBool) (VBool (negb (tb x))).
Proof.
  intros x y.
  exact (conj (fold_and x y) (conj (fold_or x y) (conj (fold_xor x y) (conj (fold_beq x y)
        (conj (fold_bne x y) (fold_not x)))))).
Qed.
Print Assumptions C06_boolean.

(* quotient and remainder: integers q, r with a = q*b + r and |r| < |b| *)
Theorem C06_divmod : forall b x y, num b -> y <> 0 ->
  exists q r, rule2v G ODiv (L b) (L b) x y = Fold (L b) (VInt q)
           /\ rule2v G OMod (L b) (L b) x y = Fold (L b) (VInt r)
           /\ x = q * y + r /\ Z.abs r < Z.abs y.
Proof. exact divmod_exact. Qed.
Print Assumptions C06_divmod.

Theorem C06_div_by_zero_rejected : forall b x, num b ->
  (exists e, rule2v G ODiv (L b) (L b) x 0 = Reject e) /\ (exists e, rule2v G OMod (L b) (L b) x 0 = Reject e).
Proof. exact div_by_zero_rejected. Qed.
Print Assumptions C06_div_by_zero_rejected.

(* sum([...]) / int + literal *)
Theorem C06_radd : forall b k v, num b -> rule_radd_int G k (L b) v = Fold (L b) (VInt (v + k)).
Proof. exact fold_radd. Qed.
Print Assumptions C06_radd.

(* an operation with at least one non-literal operand is never folded *)
Theorem C06_only_literals : forall o l r t v,
  rule2 G o l r = Fold t v -> literal l = true /\ literal r = true.
Proof. exact only_literals_fold. Qed.
Print Assumptions C06_only_literals.
Theorem C06_if_else_never_folded : forall c a b t v, rule_ifelse G c a b <> Fold t v.
Proof. exact ifelse_never_folded. Qed.
Print Assumptions C06_if_else_never_folded.

(* why [/] followed by int() would not do (semantics of PyMini's true division):
   -7 / 2 truncates to -3, and -3*2 + (-7 mod 2) <> -7. *)
Example C06_truediv_is_not_floor :
  truediv_trunc (-7) 2 = Ok (-3) /\ (-7) <> (-3) * 2 + ((-7) mod 2)
  /\ truediv_trunc (2 ^ 60 + 1) 1 = Ok (2 ^ 60) /\ truediv_trunc (10 ^ 400) 3 = Err "OverflowError".
Proof. split; [vm_compute; reflexivity|]. split; [vm_compute; congruence|]. split; vm_compute; reflexivity. Qed.

(* non-vacuity with numbers beyond the float range *)
Example C06_nonvacuous :
  rule2v G OMul (L BInt) (L BInt) (2 ^ 1100) (- 3) = Fold (L BInt) (VInt (- 3 * 2 ^ 1100)).
Proof. rewrite fold_mul by (left; reflexivity). rewrite Z.mul_comm. reflexivity. Qed.

(* ---- program level: EVERY accepted program of the scalar fragment.  A value whose defining expression is built
   from literals only — through any number of intermediate variables, with inputs and other operations in
   between — is a literal of the ruled base type carrying exactly the value that plain arithmetic
   (Spec/FoldSpec.exact2; floor division and modulo for a non-zero divisor; boolean negation; k + x) gives. *)
From NadaV.Model Require Import Surface Trace Compile Mir Corr.
From NadaV.Spec Require Import FoldSpec.
From NadaV.Proofs Require Import C02Program C06Program.

Theorem C06_literal_only_values_are_exact : forall ss fuel ρ s,
  exec GenScalar.G fuel [] ss init_state = Ok (ρ, s) -> scalar_fragment ss = true ->
  forall x b z, assoc x (lit_stmts ss []) = Some (Some (b, z)) ->
  exists id, assoc x ρ = Some (BWrap (WScalar (MConst, b) id (Some z)))
             /\ forall i, id = Some i -> exists r, lookup i (store s) = Some r /\ r_ty r = TyName (mir_name (MConst, b)).
Proof. exact literal_only_values_are_exact. Qed.
Print Assumptions C06_literal_only_values_are_exact.

Definition c06_example : list stmt :=
  [SLet "a" (RLit BInt (-7)); SLet "b" (RLit BInt 2); SLet "s" (RInput "s" "P" "" (IScalar (MSecret, BInt)));
   SLet "q" (RBin ODiv "a" "b"); SLet "m" (RBin OMod "a" "b"); SLet "p" (RBin OPow "b" "b");
   SLet "c" (RBin OLt "q" "m"); SLet "n" (RNot "c"); SLet "t" (RBin OMul "q" "s"); SLet "k" (RRAdd 10 "p")].
Example C06_program_nonvacuous :
  (exists ρ s, exec GenScalar.G 20 [] c06_example init_state = Ok (ρ, s))
  /\ lit_stmts c06_example []
     = [("k", Some (BInt, 14%Z)); ("t", None); ("n", Some (BBool, 0%Z)); ("c", Some (BBool, 1%Z)); ("p", Some (BInt, 4%Z));
        ("m", Some (BInt, 1%Z)); ("q", Some (BInt, (-4)%Z)); ("s", None); ("b", Some (BInt, 2%Z)); ("a", Some (BInt, (-7)%Z))].
Proof. split; [eexists; eexists; vm_compute; reflexivity | vm_compute; reflexivity]. Qed.
