(* C09 — MIR tables hold exactly what the outputs need, each entry once and consistent. *)
From Coq Require Import ZArith List String Bool.
From NadaV.PyMini Require Import PyMini.
From NadaV.Gen Require GenScalar GenAst GenFrontend.
From NadaV.Model Require Import Rules Corr Mir Surface Trace Compile.
From NadaV.Spec Require MirSpec Tables.
From NadaV.Proofs Require Import CompileProofs TableObligations.
Import ListNotations.

(* Nothing the outputs need is missing, nothing is listed twice, and nothing is listed that the
   store does not hold: for ANY store and roots, whenever the worklist returns. *)
Theorem C09_worklist : forall fuel st fs stack ops extra c ops' extra' c',
  traverse fuel st fs stack ops extra c = Ok (ops', extra', c') ->
  store_ok st -> closed_upto ops stack -> own_id ops -> NoDup (keys ops) ->
  closed_upto ops' [] /\ own_id ops' /\ NoDup (keys ops')
  /\ incl (keys ops) (keys ops') /\ (forall k, In k stack -> In k (keys ops'))
  /\ (forall k, In k (keys ops') -> In k (keys ops) \/ exists r, lookup k st = Some r).
Proof. exact traverse_sound. Qed.
Print Assumptions C09_worklist.

Theorem C09_no_entry_missing_or_twice : forall p m, run GenScalar.G p = Ok m -> mir_closed m.
Proof. exact (run_closed GenScalar.G). Qed.
Print Assumptions C09_no_entry_missing_or_twice.

Theorem C09_tables :
  GenAst.ast_child_fields = Tables.ast_child_fields /\
  GenAst.literal_init = Tables.literal_init /\
  GenFrontend.src_traverse_and_process_operations = Tables.src_traverse_and_process_operations /\
  GenFrontend.src_process_operation = Tables.src_process_operation /\
  GenFrontend.src_to_mir_function_list = Tables.src_to_mir_function_list /\
  GenFrontend.src_to_literal_list = Tables.src_to_literal_list /\
  GenFrontend.src_nada_dsl_to_nada_mir = Tables.src_nada_dsl_to_nada_mir.
Proof.
  repeat split; first [ exact tbl_ast_child_fields | exact tbl_literal_init
    | exact tbl_src_traverse_and_process_operations | exact tbl_src_process_operation
    | exact tbl_src_to_mir_function_list | exact tbl_src_to_literal_list | exact tbl_src_nada_dsl_to_nada_mir ].
Qed.
Print Assumptions C09_tables.

(* the input table is exact with respect to the emitted operations: every input reference among them is
   listed (complete), and every listed input is an Input operation of the traced program with that name,
   owner, documentation and type (nothing foreign) — for ANY store and output list *)
From NadaV.Proofs Require Import C18Proofs.
Theorem C09_inputs_complete : forall st fs0 outs m fs',
  compile st fs0 outs = Ok (m, fs') ->
  forall e n, In e (m_ops m) -> e_op e = MInputRef n -> In n (map i_name (m_inputs m)).
Proof. exact compile_inputs_complete. Qed.
Print Assumptions C09_inputs_complete.

Theorem C09_inputs_and_parties_from_the_program : forall st fs0 outs m fs',
  compile st fs0 outs = Ok (m, fs') ->
  (forall i, In i (m_inputs m) ->
     exists k r, lookup k st = Some r /\ r_node r = AInput (i_name i) (i_party i) (i_doc i) /\ r_ty r = i_ty i)
  /\ (forall p, In p (m_parties m) ->
        In (p_name p) (map co_party outs)
        \/ exists k r n doc, lookup k st = Some r /\ r_node r = AInput n (p_name p) doc).
Proof. exact compile_inputs_parties. Qed.
Print Assumptions C09_inputs_and_parties_from_the_program.

(* nothing unneeded: every operation of the program table is reachable from an output, and every operation of a
   function table from that function's return operation, through operand references of the operation store —
   for ANY store and output list *)
From NadaV.Proofs Require Import C09Proofs.
Theorem C09_nothing_unneeded : forall st fs0 outs m fs',
  compile st fs0 outs = Ok (m, fs') ->
  (forall k, In k (keys (m_ops m)) -> needed st (map co_id outs) k)
  /\ Forall (fun f => forall k, In k (keys (f_ops f)) -> needed st [f_ret f] k) (m_functions m).
Proof.
  intros st fs0 outs m fs' H. split;
    [eapply compile_nothing_unneeded; eauto | eapply compile_functions_nothing_unneeded; eauto].
Qed.
Print Assumptions C09_nothing_unneeded.

(* ---------------------------------------------------------------------------------------------
   Literals, for EVERY program of the whole surface language and EVERY history of the process
   (the literal-name table ast_util.LITERALS is never cleared, so names depend on the history):
   every literal entry of the MIR has a scalar literal type, and two entries have the same NAME exactly
   when they have the same KEY — the printed value followed by the type name (what the implementation
   hashes) — so distinct (value, type) pairs have distinct entries and one pair never has two. *)
From NadaV.PyMini Require Import PyMini.
From NadaV.Model Require Import Rules Corr Mir Surface Trace Compile.
From NadaV.Proofs Require Import C09Program.

Theorem C09_literal_names_are_keys : forall h p m,
  run_after GenScalar.G true h p = Ok m ->
  (forall l, In l (m_literals m) -> exists key, lit_key l key) /\
  forall l1 l2 k1 k2, In l1 (m_literals m) -> In l2 (m_literals m) -> lit_key l1 k1 -> lit_key l2 k2 ->
    (l_name l1 = l_name l2 <-> k1 = k2).
Proof. exact (literal_names_after_any_history GenScalar.G). Qed.
Print Assumptions C09_literal_names_are_keys.

(* every literal entry is a Literal operation of the store with that value, name and type (any store) *)
Theorem C09_literals_from_records : forall st fs0 outs m fs',
  compile st fs0 outs = Ok (m, fs') ->
  forall l, In l (m_literals m) ->
    exists k r, lookup k st = Some r /\ r_node r = ALiteral (l_value l) (l_name l) /\ r_ty r = l_ty l.
Proof. exact compile_literals. Qed.
Print Assumptions C09_literals_from_records.

(* the invariant behind it: whatever is traced, a Literal record is named after the position of its key *)
Theorem C09_literal_naming_invariant : forall fuel ρ ss s ρ' s',
  LInv s -> exec GenScalar.G fuel ρ ss s = Ok (ρ', s') -> LInv s'.
Proof. exact (exec_LInv GenScalar.G). Qed.
Print Assumptions C09_literal_naming_invariant.
