(* C03 — No implicit declassification.  Part (a): the scalar rule table.
   (Part (b), the graph-level statement over emitted MIRs, is in C03_graph below once
   the tracer model is in place.) *)
From Coq Require Import ZArith List String Bool.
From NadaV.PyMini Require Import PyMini.
From NadaV.Gen Require Import GenScalar.
From NadaV.Model Require Import Rules Corr Mir Surface Trace Compile.
From NadaV.Spec Require Taint Tables.
From NadaV.Gen Require GenFrontend.
From NadaV.Proofs Require TableObligations.
From NadaV.Spec Require Import TypingSpec.
From NadaV.Proofs Require Import C03Proofs.
Import ListNotations.
Open Scope string_scope.

Theorem C03_rules_binary : forall o l r name t roles,
  rule2 G o l r = Emit name t roles -> secret l = true \/ secret r = true ->
  declassifier name = false -> secret t = true.
Proof. exact binary_no_declass. Qed.
Print Assumptions C03_rules_binary.

Theorem C03_rules_if_else : forall c a b name t roles,
  rule_ifelse G c a b = Emit name t roles -> secret c = true \/ secret a = true \/ secret b = true ->
  secret t = true.
Proof. exact ifelse_no_declass. Qed.
Print Assumptions C03_rules_if_else.

Theorem C03_rules_unary_random : forall t,
  (forall name t' roles, rule1 G UInvert t = Emit name t' roles -> secret t = true -> secret t' = true) /\
  (forall name t' roles, rule1 G UToPublic t = Emit name t' roles -> name = "Reveal") /\
  (forall name t' roles, rule_random G t = Emit name t' roles -> secret t' = true) /\
  (forall k v name t' roles, rule_radd_int G k t v = Emit name t' roles -> secret t = true -> secret t' = true).
Proof. exact unary_no_declass. Qed.
Print Assumptions C03_rules_unary_random.

Example C03_nonvacuous :
  rule2 G OLt (MSecret, BInt) (MPublic, BInt) = Emit "LessThan" (MSecret, BBool) [("left", 0%Z); ("right", 1%Z)].
Proof. vm_compute. reflexivity. Qed.

(* collections: the element-wise product of two arrays is as secret as the more secret of the two
   element types (the rule the model's RInner implements; the code it mirrors is pinned below) *)
Theorem C03_inner_product_mode : forall tl tr : sty,
  secret tl = true \/ secret tr = true -> secret (mode_max (fst tl) (fst tr), snd tl) = true.
Proof. intros [[| |] bl] [[| |] br] [H | H]; simpl in *; try discriminate; reflexivity. Qed.
Print Assumptions C03_inner_product_mode.

Theorem C03_tables :
  NadaV.Gen.GenFrontend.src_Array_inner_product = NadaV.Spec.Tables.src_Array_inner_product /\
  NadaV.Gen.GenFrontend.src_Array_map = NadaV.Spec.Tables.src_Array_map /\
  NadaV.Gen.GenFrontend.src_Array_reduce = NadaV.Spec.Tables.src_Array_reduce /\
  NadaV.Gen.GenFrontend.src_Array_zip = NadaV.Spec.Tables.src_Array_zip /\
  NadaV.Gen.GenFrontend.src_unzip = NadaV.Spec.Tables.src_unzip /\
  NadaV.Gen.GenFrontend.src_generate_accessor = NadaV.Spec.Tables.src_generate_accessor /\
  NadaV.Gen.GenFrontend.src_NadaFunction_call = NadaV.Spec.Tables.src_NadaFunction_call.
Proof.
  repeat split; first [ exact NadaV.Proofs.TableObligations.tbl_src_Array_inner_product
    | exact NadaV.Proofs.TableObligations.tbl_src_Array_map | exact NadaV.Proofs.TableObligations.tbl_src_Array_reduce
    | exact NadaV.Proofs.TableObligations.tbl_src_Array_zip | exact NadaV.Proofs.TableObligations.tbl_src_unzip
    | exact NadaV.Proofs.TableObligations.tbl_src_generate_accessor
    | exact NadaV.Proofs.TableObligations.tbl_src_NadaFunction_call ].
Qed.
Print Assumptions C03_tables.

(* Part (b), graph level.  FULL statement over the model -- decided per program: [Taint.C03b m] is
   evaluated in Coq on every MIR the real compiler emits; not proved for all programs. *)
Definition C03_graph_statement : Prop :=
  forall p m, run G p = Ok m -> Taint.C03b m = true.

(* it is FALSE without the hypothesis that nada_fn annotations are truthful (known finding
   C03/declass:untruthful-annotation): the DSL never compares an annotation with the actual
   argument, so a function annotated public applied to a secret yields a public-typed result *)
Definition untruthful_program : program :=
  {| p_stmts := [(SDef "ident" [("e", (IScalar (MPublic, BInt)))] (IScalar (MPublic, BInt)) [(SLet "s" (RBin OAdd "e" "e"))] "s"); (SLet "x" (RInput "x" "P0" "" (IScalar (MSecret, BInt)))); (SLet "r" (RCall "ident" ["x"] []))]; p_outs := [{| out_name := "o"; out_party := "P0"; out_var := "r" |}] |}.

Theorem C03_graph_refuted_untruthful_annotation :
  exists p m, run G p = Ok m /\ Taint.C03b m = false.
Proof. exists untruthful_program. eexists. split; [vm_compute; reflexivity | vm_compute; reflexivity]. Qed.
Print Assumptions C03_graph_refuted_untruthful_annotation.

(* ---- program level: EVERY program of the scalar fragment (any number of statements: literals of the three
   bases, inputs, random values, all twenty binary operators, ~, to_public, if_else, k + x).  Whenever the
   trace + compile model yields a MIR, every output into which a secret input or a random value flows through
   anything but the two declassifiers (public_equals, to_public) is typed secret in the MIR; and so is every
   value the program binds, in the tracer and in the operation store. *)
From NadaV.Model Require Import Surface Trace Compile.
From NadaV.Proofs Require Import C03Rules C03Program.

Theorem C03_scalar_programs_outputs : forall p m τ,
  run GenScalar.G p = Ok m -> taint_stmts (p_stmts p) [] = Some τ ->
  Forall2 (fun o mo => o_name mo = out_name o /\ o_party mo = out_party o
                       /\ (assoc (out_var o) τ = Some true -> secret_ty (o_ty mo) = true))
          (p_outs p) (m_outputs m).
Proof. exact tainted_outputs_are_secret. Qed.
Print Assumptions C03_scalar_programs_outputs.

Theorem C03_scalar_programs_values : forall ss fuel ρ s τ,
  exec GenScalar.G fuel [] ss init_state = Ok (ρ, s) -> taint_stmts ss [] = Some τ ->
  forall x, assoc x τ = Some true ->
  exists t id v, assoc x ρ = Some (BWrap (WScalar t id v)) /\ fst t = MSecret
                 /\ forall i, id = Some i -> exists r, lookup i (store s) = Some r /\ secret_ty (r_ty r) = true.
Proof. exact tainted_values_are_secret. Qed.
Print Assumptions C03_scalar_programs_values.

Definition c03_example : program :=
  {| p_stmts := [SLet "s" (RInput "s" "P0" "" (IScalar (MSecret, BInt)));
                 SLet "u" (RInput "u" "P0" "" (IScalar (MPublic, BInt)));
                 SLet "k" (RLit BInt 2);
                 SLet "a" (RBin OMul "u" "k");
                 SLet "c" (RBin OLt "a" "s");
                 SLet "r" (RIfElse "c" "u" "a");
                 SLet "d" (RToPublic "r")];
     p_outs := [{| out_name := "r"; out_party := "P0"; out_var := "r" |};
                {| out_name := "a"; out_party := "P0"; out_var := "a" |};
                {| out_name := "d"; out_party := "P0"; out_var := "d" |}] |}.
Example C03_program_nonvacuous :
  (exists m, run GenScalar.G c03_example = Ok m /\ map (fun o => o_ty o) (m_outputs m)
                                                  = [TyName "SecretInteger"; TyName "Integer"; TyName "Integer"])
  /\ taint_stmts (p_stmts c03_example) []
     = Some [("d", false); ("r", true); ("c", true); ("a", false); ("k", false); ("u", false); ("s", true)].
Proof. split; [eexists; split; [vm_compute; reflexivity | reflexivity] | vm_compute; reflexivity]. Qed.

(* ---- step level, for ANY tracer state and ANY scalar operand wrappers, whatever produced them (inputs, earlier
   operations, accessors of n-tuples and objects, parameters of nada functions, elements inside map / reduce bodies):
   x, y, z say "this operand may carry a secret"; if the flag of the result is set, the value returned — and the
   operation recorded for it — is typed secret.  public_equals and to_public are the two declassifiers. *)
Theorem C03_binary_step : forall o ta ida va tb idb vb (x y : bool) s w s1,
  do_binop GenScalar.G o (WScalar ta ida va) (WScalar tb idb vb) s = Ok (w, s1) ->
  (x = true -> fst ta = MSecret) -> (y = true -> fst tb = MSecret) -> ScalarInv.fresh_store s ->
  ScalarInv.step_ok bool PT s s1 w (if C02Proofs.op_eqb o OPublicEquals then false else x || y).
Proof. exact C03Program.binop_ok. Qed.
Print Assumptions C03_binary_step.

Theorem C03_unary_step : forall u ta ida va (x : bool) s w s1,
  do_unop GenScalar.G u (WScalar ta ida va) s = Ok (w, s1) ->
  (x = true -> fst ta = MSecret) -> ScalarInv.idlink s ida ta -> ScalarInv.fresh_store s ->
  ScalarInv.step_ok bool PT s s1 w (match u with UInvert => x | UToPublic => false end).
Proof. exact C03Program.unop_ok. Qed.
Print Assumptions C03_unary_step.

Theorem C03_if_else_step : forall tc idc vc ta ida va tb idb vb (x y z : bool) s w s1,
  do_ifelse GenScalar.G (WScalar tc idc vc) (WScalar ta ida va) (WScalar tb idb vb) s = Ok (w, s1) ->
  (x = true -> fst tc = MSecret) -> (y = true -> fst ta = MSecret) -> (z = true -> fst tb = MSecret) ->
  ScalarInv.fresh_store s -> ScalarInv.step_ok bool PT s s1 w (x || y || z).
Proof. exact C03Program.ifelse_ok. Qed.
Print Assumptions C03_if_else_step.

(* ---- collection operations, step level, WHOLE surface language (Proofs/C03Edges.v on the C05 edge theorems):
   at any point of any program ([Inv] / [InvE] hold at every point: C11_invariant_everywhere,
   C05_values_are_recorded_with_their_types), the taint that the information-flow specification Spec/Taint.v
   computes for an accepted zip, unzip, Tuple / NTuple / Object construction, accessor or inner product FROM THE
   TYPES RECORDED FOR ITS OPERANDS — every secret leaf of an operand counted as tainted ([tvs]) — is within the
   type recorded for the result ([tv_ok]): no collection operation turns a secret component into a public one.
   (map, reduce and calls take the annotated return type of the function: the open finding on untruthful annotations.) *)
From NadaV.Spec Require Import Taint.
From NadaV.Proofs Require Import TraceMono C11Program C12Steps C05Edges C03Edges.

Theorem C03_zip_keeps_secrecy : forall ρ s, Inv ρ s -> InvE ρ s -> forall a b w s1,
  eval_rhs GenScalar.G ρ (RZip a b) s = Ok (w, s1) ->
  exists l r id tl tr T,
    recorded_as s1 id T (ABinary "Zip" l r) /\ ty_at s1 l tl /\ ty_at s1 r tr
    /\ tv_ok (TArrT (TTupT (elt_of (tvs tl)) (elt_of (tvs tr)))) T = true.
Proof. exact (zip_keeps_secrecy GenScalar.G). Qed.
Print Assumptions C03_zip_keeps_secrecy.

Theorem C03_unzip_keeps_secrecy : forall ρ s, Inv ρ s -> InvE ρ s -> forall a w s1,
  eval_rhs GenScalar.G ρ (RUnzip a) s = Ok (w, s1) ->
  exists src id ts T,
    recorded_as s1 id T (AUnary "Unzip" src) /\ ty_at s1 src ts
    /\ tv_ok (match elt_of (tvs ts) with TTupT x y => TTupT (TArrT x) (TArrT y) | other => TTupT (TArrT other) (TArrT other) end) T = true.
Proof. exact (unzip_keeps_secrecy GenScalar.G). Qed.
Print Assumptions C03_unzip_keeps_secrecy.

Theorem C03_tuple_new_keeps_secrecy : forall ρ s, Inv ρ s -> InvE ρ s -> forall a b w s1,
  eval_rhs GenScalar.G ρ (RTupleNew a b) s = Ok (w, s1) ->
  exists i1 i2 id t1 t2 T,
    recorded_as s1 id T (ANew "TupleNew" [i1; i2]) /\ ty_at s1 i1 t1 /\ ty_at s1 i2 t2
    /\ tv_ok (TTupT (tvs t1) (tvs t2)) T = true.
Proof. exact (tuple_new_keeps_secrecy GenScalar.G). Qed.
Print Assumptions C03_tuple_new_keeps_secrecy.

Theorem C03_ntuple_new_keeps_secrecy : forall ρ s, Inv ρ s -> InvE ρ s -> forall es w s1,
  eval_rhs GenScalar.G ρ (RNTupleNew es) s = Ok (w, s1) ->
  exists ids id ts T,
    recorded_as s1 id T (ANew "NTupleNew" ids) /\ Forall2 (ty_at s1) ids ts /\ tv_ok (TNTT (map tvs ts)) T = true.
Proof. exact (ntuple_new_keeps_secrecy GenScalar.G). Qed.
Print Assumptions C03_ntuple_new_keeps_secrecy.

Theorem C03_object_new_keeps_secrecy : forall ρ s, Inv ρ s -> InvE ρ s -> forall fs w s1,
  eval_rhs GenScalar.G ρ (RObjectNew fs) s = Ok (w, s1) ->
  exists ids id kts T,
    recorded_as s1 id T (ANew "ObjectNew" ids) /\ Forall2 (fun i kt => ty_at s1 i (snd kt)) ids kts
    /\ map fst kts = map fst fs
    /\ tv_ok (TObjT (combine (map fst kts) (map tvs (map snd kts)))) T = true.
Proof. exact (object_new_keeps_secrecy GenScalar.G). Qed.
Print Assumptions C03_object_new_keeps_secrecy.

Theorem C03_index_keeps_secrecy : forall ρ s, Inv ρ s -> InvE ρ s -> forall a i w s1,
  eval_rhs GenScalar.G ρ (RIndex a i) s = Ok (w, s1) ->
  exists src ts t,
    ty_at s1 src (TyNTuple ts)
    /\ tv_ok (match tvs (TyNTuple ts) with TNTT cs => nth (Z.to_nat i) cs (TLeaf (existsb any_taint cs)) | other => TLeaf (any_taint other) end) t = true
    /\ ((store s1 = store s /\ to_mir w = Ok t) \/ recorded_as s1 (counter s + 1)%Z t (ANTupleAcc i src)).
Proof. exact (index_keeps_secrecy GenScalar.G). Qed.
Print Assumptions C03_index_keeps_secrecy.

Theorem C03_field_keeps_secrecy : forall ρ s, Inv ρ s -> InvE ρ s -> forall a k w s1,
  eval_rhs GenScalar.G ρ (RField a k) s = Ok (w, s1) ->
  exists src kts t,
    ty_at s1 src (TyObject kts)
    /\ tv_ok (match tvs (TyObject kts) with
              | TObjT cs => match find (fun kv => String.eqb (fst kv) k) cs with
                            | Some kv => snd kv
                            | None => TLeaf (existsb (fun kv => any_taint (snd kv)) cs) end
              | other => TLeaf (any_taint other) end) t = true
    /\ ((store s1 = store s /\ to_mir w = Ok t) \/ recorded_as s1 (counter s + 1)%Z t (AObjectAcc k src)).
Proof. exact (field_keeps_secrecy GenScalar.G). Qed.
Print Assumptions C03_field_keeps_secrecy.

Theorem C03_inner_product_keeps_secrecy : forall ρ s, Inv ρ s -> InvE ρ s -> forall a b w s1,
  eval_rhs GenScalar.G ρ (RInner a b) s = Ok (w, s1) ->
  exists l r id tl tr T,
    recorded_as s1 id T (ABinary "InnerProduct" l r) /\ ty_at s1 l tl /\ ty_at s1 r tr
    /\ tv_ok (TLeaf (any_taint (tvs tl) || any_taint (tvs tr))) T = true.
Proof. exact (inner_product_keeps_secrecy GenScalar.G). Qed.
Print Assumptions C03_inner_product_keeps_secrecy.

(* Array.new: every element is recorded with the one type t0; the taint the specification computes for the new array —
   the join of the element taints over the untainted value of that type — is within the recorded array type *)
Theorem C03_array_new_keeps_secrecy : forall ρ s, Inv ρ s -> InvE ρ s -> forall es w s1,
  eval_rhs GenScalar.G ρ (RArrayNew es) s = Ok (w, s1) ->
  exists ids id t0 T,
    recorded_as s1 id T (ANew "ArrayNew" ids) /\ Forall (fun i => ty_at s1 i t0) ids /\ ids <> []
    /\ tv_ok (TArrT (fold_right (fun v acc => tv_join v acc) (clean t0) (repeat (tvs t0) (List.length ids)))) T = true.
Proof. exact (array_new_keeps_secrecy GenScalar.G). Qed.
Print Assumptions C03_array_new_keeps_secrecy.
