(* C03 — No implicit declassification.  Part (a): the scalar rule table.
   (Part (b), the graph-level statement over emitted MIRs, is in C03_graph below once
   the tracer model is in place.) *)
From Coq Require Import ZArith List String Bool.
From NadaV.PyMini Require Import PyMini.
From NadaV.Gen Require Import GenScalar.
From NadaV.Model Require Import Rules Corr Mir Surface Trace Compile.
From NadaV.Spec Require Taint Tables.
From NadaV.Gen Require GenFrontend.
From NadaV.Proofs Require TableObligations.
From NadaV.Spec Require Import TypingSpec.
From NadaV.Proofs Require Import C03Proofs.
Import ListNotations.
Open Scope string_scope.

Theorem C03_rules_binary : forall o l r name t roles,
  rule2 G o l r = Emit name t roles -> secret l = true \/ secret r = true ->
  declassifier name = false -> secret t = true.
Proof. exact binary_no_declass. Qed.
Print Assumptions C03_rules_binary.

Theorem C03_rules_if_else : forall c a b name t roles,
  rule_ifelse G c a b = Emit name t roles -> secret c = true \/ secret a = true \/ secret b = true ->
  secret t = true.
Proof. exact ifelse_no_declass. Qed.
Print Assumptions C03_rules_if_else.

Theorem C03_rules_unary_random : forall t,
  (forall name t' roles, rule1 G UInvert t = Emit name t' roles -> secret t = true -> secret t' = true) /\
  (forall name t' roles, rule1 G UToPublic t = Emit name t' roles -> name = "Reveal") /\
  (forall name t' roles, rule_random G t = Emit name t' roles -> secret t' = true) /\
  (forall k v name t' roles, rule_radd_int G k t v = Emit name t' roles -> secret t = true -> secret t' = true).
Proof. exact unary_no_declass. Qed.
Print Assumptions C03_rules_unary_random.

Example C03_nonvacuous :
  rule2 G OLt (MSecret, BInt) (MPublic, BInt) = Emit "LessThan" (MSecret, BBool) [("left", 0%Z); ("right", 1%Z)].
Proof. vm_compute. reflexivity. Qed.

(* collections: the element-wise product of two arrays is as secret as the more secret of the two
   element types (the rule the model's RInner implements; the code it mirrors is pinned below) *)
Theorem C03_inner_product_mode : forall tl tr : sty,
  secret tl = true \/ secret tr = true -> secret (mode_max (fst tl) (fst tr), snd tl) = true.
Proof. intros [[| |] bl] [[| |] br] [H | H]; simpl in *; try discriminate; reflexivity. Qed.
Print Assumptions C03_inner_product_mode.

Theorem C03_tables :
  NadaV.Gen.GenFrontend.src_Array_inner_product = NadaV.Spec.Tables.src_Array_inner_product /\
  NadaV.Gen.GenFrontend.src_Array_map = NadaV.Spec.Tables.src_Array_map /\
  NadaV.Gen.GenFrontend.src_Array_reduce = NadaV.Spec.Tables.src_Array_reduce /\
  NadaV.Gen.GenFrontend.src_Array_zip = NadaV.Spec.Tables.src_Array_zip /\
  NadaV.Gen.GenFrontend.src_unzip = NadaV.Spec.Tables.src_unzip /\
  NadaV.Gen.GenFrontend.src_generate_accessor = NadaV.Spec.Tables.src_generate_accessor /\
  NadaV.Gen.GenFrontend.src_NadaFunction_call = NadaV.Spec.Tables.src_NadaFunction_call.
Proof.
  repeat split; first [ exact NadaV.Proofs.TableObligations.tbl_src_Array_inner_product
    | exact NadaV.Proofs.TableObligations.tbl_src_Array_map | exact NadaV.Proofs.TableObligations.tbl_src_Array_reduce
    | exact NadaV.Proofs.TableObligations.tbl_src_Array_zip | exact NadaV.Proofs.TableObligations.tbl_src_unzip
    | exact NadaV.Proofs.TableObligations.tbl_src_generate_accessor
    | exact NadaV.Proofs.TableObligations.tbl_src_NadaFunction_call ].
Qed.
Print Assumptions C03_tables.

(* Part (b), graph level.  FULL statement over the model -- decided per program: [Taint.C03b m] is
   evaluated in Coq on every MIR the real compiler emits; not proved for all programs. *)
Definition C03_graph_statement : Prop :=
  forall p m, run G p = Ok m -> Taint.C03b m = true.

(* it is FALSE without the hypothesis that nada_fn annotations are truthful (known finding
   C03/declass:untruthful-annotation): the DSL never compares an annotation with the actual
   argument, so a function annotated public applied to a secret yields a public-typed result *)
Definition untruthful_program : program :=
  {| p_stmts := [(SDef "ident" [("e", (IScalar (MPublic, BInt)))] (IScalar (MPublic, BInt)) [(SLet "s" (RBin OAdd "e" "e"))] "s"); (SLet "x" (RInput "x" "P0" "" (IScalar (MSecret, BInt)))); (SLet "r" (RCall "ident" ["x"] []))]; p_outs := [{| out_name := "o"; out_party := "P0"; out_var := "r" |}] |}.

Theorem C03_graph_refuted_untruthful_annotation :
  exists p m, run G p = Ok m /\ Taint.C03b m = false.
Proof. exists untruthful_program. eexists. split; [vm_compute; reflexivity | vm_compute; reflexivity]. Qed.
Print Assumptions C03_graph_refuted_untruthful_annotation.
