(* C07 — Tracing is oblivious: program shape cannot depend on run-time data.
   [G] is the class table REGENERATED from nada_types/__init__.py, scalar_types.py and
   collections.py: which class defines which special method, the MRO, the structural
   __eq__ a bare @dataclass installs, and the method bodies. *)
From Coq Require Import ZArith List String Bool.
From NadaV.PyMini Require Import PyMini.
From NadaV.Gen Require Import GenClasses.
From NadaV.Model Require Import Rules PyProtocol.
From NadaV.Spec Require Import TypingSpec.
From NadaV.Proofs Require Import C07Proofs.
Import ListNotations.
Open Scope string_scope.

(* every non-literal scalar type, every coercion route: an error, never a silent answer *)
Theorem C07_scalars : forall t r, literal t = false ->
  exists e, coerce G r (operand t 1 0) (operand t 1 1) = Raises e.
Proof. exact scalars_oblivious. Qed.
Print Assumptions C07_scalars.

(* every collection type: truth value, ordering (chained comparison, min/max/sorted) and
   membership by equality raise *)
Theorem C07_collections : forall cls r, In cls collection_classes -> r <> RIter ->
  exists e, coerce G r (coll_obj cls 0) (coll_obj cls 1) = Raises e.
Proof. exact collections_oblivious. Qed.
Print Assumptions C07_collections.

(* iterating over a Nada array raises *)
Theorem C07_array_iteration : exists e, coerce G RIter (coll_obj "Array" 0) (coll_obj "Array" 1) = Raises e.
Proof. exact array_iteration_raises. Qed.
Print Assumptions C07_array_iteration.

(* comparing / testing membership against a plain Python value (0, 1, True, None, 'a', 0.5), in both
   operand orders, raises as well: no fallback to identity comparison *)
Theorem C07_scalars_vs_plain : forall t pname p r c, literal t = false ->
  In (pname, p) plain_values -> In r [RChained; RMinMax; RMember] ->
  In c (coerce_plain G r (operand t 1 0) p) -> exists e, c = Raises e.
Proof. exact scalars_vs_plain_values. Qed.
Print Assumptions C07_scalars_vs_plain.

Theorem C07_collections_vs_plain : forall cls pname p r c, In cls collection_classes ->
  In (pname, p) plain_values -> In r [RChained; RMinMax; RMember] ->
  In c (coerce_plain G r (coll_obj cls 0) p) -> exists e, c = Raises e.
Proof. exact collections_vs_plain_values. Qed.
Print Assumptions C07_collections_vs_plain.

Example C07_nonvacuous : literal (MSecret, BInt) = false /\ In "Array" collection_classes.
Proof. split; [reflexivity | simpl; auto]. Qed.
