(* C01 — Emitted MIR is referentially closed, correctly scoped and acyclic. *)
From Coq Require Import ZArith List String Bool.
From NadaV.PyMini Require Import PyMini.
From NadaV.Gen Require GenScalar GenAst GenFrontend.
From NadaV.Model Require Import Rules Corr Mir Surface Trace Compile.
From NadaV.Spec Require MirSpec Tables.
From NadaV.Proofs Require Import CompileProofs TableObligations.
Import ListNotations.

(* For ALL surface programs (any size, any nesting): whenever the model compiler returns a MIR,
   every operand reference of every operation resolves inside the same table (program table,
   or the function's own table), every operation is filed under its own id exactly once,
   every output designates an existing operation and every function's return operation is in
   its own table.  (Fuel exhaustion is the distinct outcome OutOfFuel, not Ok.) *)
Theorem C01_closed : forall p m, run GenScalar.G p = Ok m -> mir_closed m.
Proof. exact (run_closed GenScalar.G). Qed.
Print Assumptions C01_closed.

(* the DFS worklist itself, for any store and any starting table *)
Theorem C01_worklist : forall fuel st fs stack ops extra c ops' extra' c',
  traverse fuel st fs stack ops extra c = Ok (ops', extra', c') ->
  store_ok st -> closed_upto ops stack -> own_id ops -> NoDup (keys ops) ->
  closed_upto ops' [] /\ own_id ops' /\ NoDup (keys ops')
  /\ incl (keys ops) (keys ops') /\ (forall k, In k stack -> In k (keys ops'))
  /\ (forall k, In k (keys ops') -> In k (keys ops) \/ exists r, lookup k st = Some r).
Proof. exact traverse_sound. Qed.
Print Assumptions C01_worklist.

(* the code the model mirrors has the shape the model was written against:
   child_operations of every AST class, the to_mir field maps, store_in_ast attribute paths,
   the DFS, process_operation and the function worklist *)
Theorem C01_tables :
  GenAst.ast_child_fields = Tables.ast_child_fields /\
  GenAst.ast_to_mir = Tables.ast_to_mir /\
  GenAst.store_maps = Tables.store_maps /\
  GenFrontend.src_traverse_and_process_operations = Tables.src_traverse_and_process_operations /\
  GenFrontend.src_process_operation = Tables.src_process_operation /\
  GenFrontend.src_to_mir_function_list = Tables.src_to_mir_function_list /\
  GenFrontend.src_nada_fn = Tables.src_nada_fn /\
  GenFrontend.src_NadaFunctionArg_init = Tables.src_NadaFunctionArg_init.
Proof.
  exact (conj tbl_ast_child_fields (conj tbl_ast_to_mir (conj tbl_store_maps
        (conj tbl_src_traverse_and_process_operations (conj tbl_src_process_operation
        (conj tbl_src_to_mir_function_list (conj tbl_src_nada_fn tbl_src_NadaFunctionArg_init))))))).
Qed.
Print Assumptions C01_tables.

(* the boolean checker evaluated on implementation MIRs is sound for closedness *)
Theorem C01_checker_sound : forall m own t, MirSpec.table_closedb m own t = true -> closed t.
Proof. exact table_closedb_closed. Qed.
Print Assumptions C01_checker_sound.

(* FULL statement of the scoping clause -- NOT proved: it is false of the faithful model
   (known finding C01/scope:param-of-enclosing-fn, see C01_scoped_refuted). *)
Definition C01_scoped_statement : Prop :=
  forall p m, run GenScalar.G p = Ok m -> MirSpec.arg_scopedb m = true.

Open Scope string_scope.
Definition nested_capture : program :=
  {| p_stmts :=
       [SLet "a" (RInput "a" "P" "" (IArray (IScalar (MSecret, BInt)) (Some 2%Z)));
        SDef "outer" [("x", IScalar (MSecret, BInt))] (IScalar (MSecret, BInt))
          [SDef "inner" [("y", IScalar (MSecret, BInt))] (IScalar (MSecret, BInt))
             [SLet "s" (RBin OAdd "y" "x")] "s";
           SLet "m" (RMap "a" "inner");
           SLet "i" (RInput "i" "P" "" (IScalar (MSecret, BInt)));
           SLet "r" (RReduce "m" "inner2" "i")] "x";
        SLet "o" (RMap "a" "outer")];
     p_outs := [{| out_name := "o"; out_party := "P"; out_var := "o" |}] |}.

(* a smaller witness: the inner function's body refers to the enclosing function's parameter *)
Definition nested_capture2 : program :=
  {| p_stmts :=
       [SLet "a" (RInput "a" "P" "" (IArray (IScalar (MSecret, BInt)) (Some 2%Z)));
        SDef "outer" [("x", IScalar (MSecret, BInt))] (IScalar (MSecret, BInt))
          [SDef "inner" [("y", IScalar (MSecret, BInt))] (IScalar (MSecret, BInt))
             [SLet "s" (RBin OAdd "y" "x")] "s";
           SLet "c" (RCall "inner" ["x"] [])] "c";
        SLet "o" (RMap "a" "outer")];
     p_outs := [{| out_name := "o"; out_party := "P"; out_var := "o" |}] |}.

Theorem C01_scoped_refuted :
  exists p m, run GenScalar.G p = Ok m /\ MirSpec.arg_scopedb m = false.
Proof.
  exists nested_capture2. eexists. split; [vm_compute; reflexivity | vm_compute; reflexivity].
Qed.
Print Assumptions C01_scoped_refuted.

(* non-vacuity: a program with functions, closures and collections compiles in the model *)
Example C01_nonvacuous : exists m, run GenScalar.G nested_capture2 = Ok m /\ MirSpec.C01b m = false
                                   /\ mir_closed m.
Proof.
  eexists. split; [vm_compute; reflexivity|]. split; [vm_compute; reflexivity|].
  eapply (run_closed GenScalar.G nested_capture2). vm_compute. reflexivity.
Qed.

(* ---- program level (scalar fragment): for EVERY program built from literals, inputs, random values, the twenty
   binary operators, ~, to_public, if_else and k + x, every operand reference in the emitted table points to a
   strictly smaller key: the table is acyclic (and closed, by C01_closed) *)
From NadaV.Proofs Require Import C02Program C01Program.
Theorem C01_scalar_programs_are_acyclic : forall p m,
  run GenScalar.G p = Ok m -> scalar_fragment (p_stmts p) = true ->
  forall e, In e (m_ops m) -> forall o, In o (operands (e_op e)) -> (o < e_key e)%Z.
Proof. exact scalar_programs_are_acyclic. Qed.
Print Assumptions C01_scalar_programs_are_acyclic.

(* ---- program level, the WHOLE surface language: scalars, arrays, tuples, n-tuples, objects, accessors,
   map / reduce / zip / unzip / inner product, function definitions (nested ones too) and calls.
   Whatever the program, whenever tracing and compilation succeed, every operand reference of every
   operation — in the main table and in every function's table — points to a strictly smaller key:
   the emitted graph is acyclic (closedness is C01_closed above). *)
From NadaV.Proofs Require Import C01All.
Theorem C01_all_programs_are_acyclic : forall p m,
  run GenScalar.G p = Ok m ->
  (forall e, In e (m_ops m) -> forall o, In o (operands (e_op e)) -> (o < e_key e)%Z)
  /\ (forall f, In f (m_functions m) -> forall e, In e (f_ops f) -> forall o, In o (operands (e_op e)) -> (o < e_key e)%Z).
Proof. exact (all_programs_are_acyclic GenScalar.G). Qed.
Print Assumptions C01_all_programs_are_acyclic.

(* the invariant behind it, at every point of every program: the store only grows, by entries under fresh
   ids whose operands are older (and, for a trace started at counter lo, newer than lo) *)
Theorem C01_tracing_is_acyclic : forall lo fuel ρ ss s ρ' s',
  InvA lo ρ s -> exec GenScalar.G fuel ρ ss s = Ok (ρ', s') -> InvA lo ρ' s' /\ grow_acy lo s s'.
Proof. intro lo. exact (exec_acyclic lo GenScalar.G). Qed.
Print Assumptions C01_tracing_is_acyclic.
