(* C08 — A compilation is independent of earlier traces and failures in the process. *)
From Coq Require Import ZArith List String Bool.
From NadaV.Gen Require GenScalar GenAst GenFrontend.
From NadaV.Model Require Import Mir.
From NadaV.Spec Require Tables.
From NadaV.Proofs Require Import TableObligations.
Import ListNotations.
Open Scope string_scope.

(* every compiler-frontend table is cleared at the start of nada_dsl_to_nada_mir
   (re-extracted from compiler_frontend.py on every run) *)
Theorem C08_cleared :
  forallb (fun t => smem t GenFrontend.cleared) ["PARTIES"; "INPUTS"; "LITERALS"; "FUNCTIONS"] = true.
Proof. vm_compute. reflexivity. Qed.
Print Assumptions C08_cleared.

(* the process-global state the model carries from one program to the next is exactly the state
   the code keeps: the id counter, AST_OPERATIONS, ast_util.LITERALS and the frontend tables *)
Theorem C08_tables :
  GenFrontend.frontend_globals = Tables.frontend_globals /\
  GenAst.next_operation_id_body = Tables.next_operation_id_body /\
  GenAst.literal_init = Tables.literal_init /\
  GenFrontend.src_nada_dsl_to_nada_mir = Tables.src_nada_dsl_to_nada_mir /\
  GenFrontend.src_add_input_to_map = Tables.src_add_input_to_map.
Proof.
  repeat split; first [ exact tbl_frontend_globals | exact tbl_next_operation_id_body | exact tbl_literal_init
    | exact tbl_src_nada_dsl_to_nada_mir | exact tbl_src_add_input_to_map ].
Qed.
Print Assumptions C08_tables.
