(* C08 — A compilation is independent of earlier traces and failures in the process. *)
From Coq Require Import ZArith List String Bool.
From NadaV.Gen Require GenScalar GenAst GenFrontend.
From NadaV.Model Require Import Mir.
From NadaV.Spec Require Tables.
From NadaV.Proofs Require Import TableObligations.
Import ListNotations.
Open Scope string_scope.

(* every compiler-frontend table is cleared at the start of nada_dsl_to_nada_mir
   (re-extracted from compiler_frontend.py on every run) *)
Theorem C08_cleared :
  forallb (fun t => smem t GenFrontend.cleared) ["PARTIES"; "INPUTS"; "LITERALS"; "FUNCTIONS"] = true.
Proof. vm_compute. reflexivity. Qed.
Print Assumptions C08_cleared.

(* the process-global state the model carries from one program to the next is exactly the state
   the code keeps: the id counter, AST_OPERATIONS, ast_util.LITERALS and the frontend tables *)
Theorem C08_tables :
  GenFrontend.frontend_globals = Tables.frontend_globals /\
  GenAst.next_operation_id_body = Tables.next_operation_id_body /\
  GenAst.literal_init = Tables.literal_init /\
  GenFrontend.src_nada_dsl_to_nada_mir = Tables.src_nada_dsl_to_nada_mir /\
  GenFrontend.src_add_input_to_map = Tables.src_add_input_to_map.
Proof.
  repeat split; first [ exact tbl_frontend_globals | exact tbl_next_operation_id_body | exact tbl_literal_init
    | exact tbl_src_nada_dsl_to_nada_mir | exact tbl_src_add_input_to_map ].
Qed.
Print Assumptions C08_tables.

(* ---- source tables (source_files / source_refs of the MIR) *)
From NadaV.Gen Require GenSourceRef.
From NadaV.Model Require Import SourceRef.
From NadaV.Proofs Require Import C08Proofs.
Open Scope list_scope.

(* what the code does, re-extracted on every run: the compilation starts by resetting the reference index
   (REFS, index_map, next_index), get_sources() keeps only files the indexed references point into, and the
   text cache is validated by path and modification stamp *)
Theorem C08_source_tables_reset :
  smem "SourceRef.reset_refs" GenFrontend.cleared
  && forallb (fun x => smem x GenSourceRef.sr_reset_clears) ["REFS"; "index_map"; "next_index"]
  && GenSourceRef.sr_sources_filtered && GenSourceRef.sr_cache_checks_path = true.
Proof. vm_compute. reflexivity. Qed.
Print Assumptions C08_source_tables_reset.

(* for EVERY earlier state of the process and every sequence of tracing / indexing steps of the current
   compilation: only references indexed since the compilation started are emitted *)
Theorem C08_references_fresh : forall by_path s0 ops x,
  ~ In OCompileStart ops ->
  In x (emit_refs (fold_left (tstep true by_path) ops (tstep true by_path s0 OCompileStart))) -> In (OIndex x) ops.
Proof. exact refs_fresh. Qed.
Print Assumptions C08_references_fresh.

(* the text held (and emitted) for a file name is what a step of this run read from disk; an earlier entry
   survives only if every access to that name in the run was to the very same path with the very same
   modification stamp (the file was not touched in between) *)
Theorem C08_file_texts_fresh : forall resets s0 ops base p v d,
  held (fold_left (tstep resets true) ops s0) base = Some (p, v, d) ->
  In (OTouch p base v d) ops
  \/ (held s0 base = Some (p, v, d) /\ forall p1 v1 d1, In (OTouch p1 base v1 d1) ops -> p1 = p /\ v1 = v).
Proof. exact files_fresh. Qed.
Print Assumptions C08_file_texts_fresh.

(* every emitted file is one some emitted reference points into *)
Theorem C08_files_are_referenced : forall s base text,
  In (base, text) (emit_files true s) ->
  (exists r, In r (t_refs s) /\ s_file r = base) /\ exists e, In e (t_cache s) /\ c_base e = base /\ c_text e = text.
Proof. exact emit_files_held. Qed.
Print Assumptions C08_files_are_referenced.

(* ---------------------------------------------------------------------------------------------
   Program level, on the trace + compile model, for EVERY history of the process and EVERY program of
   the whole surface language.  A history is any sequence of complete programs (traced and compiled, the
   compilation possibly raising) and of traces aborted after any number of top-level statements; the
   FUNCTIONS table is cleared at the start of a compilation (C08_cleared: a fact regenerated from the source).
   "Nothing belonging to an earlier program appears in a later program's MIR": every operation of the
   main table and of every function's table, every function, every output's operation, every input and
   every literal of the MIR is (recorded under) an id above the counter at which this program's trace
   started, i.e. was recorded by this trace; and the trace changes nothing recorded before. *)
From Coq Require Import Lia.
From NadaV.PyMini Require Import PyMini.
From NadaV.Model Require Import Rules Corr Mir Surface Trace Compile.
From NadaV.Proofs Require Import ScalarInv CompileProofs C01All C08Program.
Open Scope Z_scope.

Theorem C08_nothing_from_earlier_programs : forall h p m,
  run_after GenScalar.G true h p = Ok m ->
  exists s fns s', after_history GenScalar.G true h init_state [] = Ok (s, fns) /\
    let lo := counter s in
    all_new lo (keys (m_ops m))
    /\ Forall (fun_own lo) (m_functions m)
    /\ (forall o, In o (m_outputs m) -> lo < o_op o)
    /\ (forall i, In i (m_inputs m) ->
          exists k r, lo < k /\ lookup k (store s') = Some r /\ r_node r = AInput (i_name i) (i_party i) (i_doc i))
    /\ (forall l, In l (m_literals m) ->
          exists k r, lo < k /\ lookup k (store s') = Some r /\ r_node r = ALiteral (l_value l) (l_name l))
    /\ (forall k, k <= lo -> lookup k (store s') = lookup k (store s)).
Proof. exact (after_any_history GenScalar.G). Qed.
Print Assumptions C08_nothing_from_earlier_programs.

(* the same from any earlier state whatever produced it, as long as it is a state tracing can leave behind *)
Theorem C08_later_program_owns_its_mir : forall s0 p m s' fs',
  fresh_store s0 -> ordered s0 ->
  run_from GenScalar.G s0 [] p = Ok (m, s', fs') ->
  let lo := counter s0 in
  all_new lo (keys (m_ops m))
  /\ Forall (fun_own lo) (m_functions m)
  /\ (forall i, In i (m_inputs m) ->
        exists k r, lo < k /\ lookup k (store s') = Some r /\ r_node r = AInput (i_name i) (i_party i) (i_doc i))
  /\ (forall l, In l (m_literals m) ->
        exists k r, lo < k /\ lookup k (store s') = Some r /\ r_node r = ALiteral (l_value l) (l_name l))
  /\ (forall o, In o (m_outputs m) -> lo < o_op o)
  /\ (forall k, k <= lo -> lookup k (store s') = lookup k (store s0)).
Proof. exact (later_program_owns_its_mir GenScalar.G). Qed.
Print Assumptions C08_later_program_owns_its_mir.

Theorem C08_history_states : forall fc h s fns s1 fns1,
  fresh_store s -> ordered s -> after_history GenScalar.G fc h s fns = Ok (s1, fns1) ->
  fresh_store s1 /\ ordered s1 /\ counter s <= counter s1.
Proof. exact (history_states_are_ordered GenScalar.G). Qed.
Print Assumptions C08_history_states.

(* the premises are met: a program with a function, compiled after a complete program and an aborted trace *)
Example C08_history_nonvacuous :
  exists m, run_after GenScalar.G true
    [ HComplete {| p_stmts := [SLet "a" (RInput "a" "P" "" (IScalar (MSecret, BInt))); SLet "r" (RBin OAdd "a" "a")];
                   p_outs := [{| out_name := "o"; out_party := "P"; out_var := "r" |}] |};
      HAbortTrace [SLet "z" (RInput "z" "Q" "" (IScalar (MSecret, BInt))); SLet "k" (RLit BInt 7)] ]
    {| p_stmts := [SLet "x" (RInput "x" "P" "" (IScalar (MSecret, BInt))); SLet "k" (RLit BInt 7); SLet "y" (RBin OMul "x" "k")];
       p_outs := [{| out_name := "o"; out_party := "P"; out_var := "y" |}] |} = Ok m
    /\ map e_key (m_ops m) = [7; 6; 5].
Proof. eexists. split; vm_compute; reflexivity. Qed.
