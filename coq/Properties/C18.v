(* C18 — The audited signature agrees with the compiled program's interface.
   Proved here for the compile model (tied to compiler_frontend.py by exact MIR correspondence):
   the interface tables of every compiled MIR, for every operation store and output list.
   The agreement with signature() itself is decided per program by Spec/SigSpec.signature_agreesb. *)
From Coq Require Import ZArith List String Bool.
From NadaV.PyMini Require Import PyMini.
From NadaV.Model Require Import Rules Corr Mir Surface Trace Compile.
From NadaV.Proofs Require Import C18Proofs.
Import ListNotations.

(* outputs: one for one, in order, with name, party and the type recorded for the operation *)
Theorem C18_outputs_one_for_one : forall st fs0 outs m fs',
  compile st fs0 outs = Ok (m, fs') -> Forall2 (out_rel st) outs (m_outputs m).
Proof. exact compile_outputs. Qed.
Print Assumptions C18_outputs_one_for_one.

(* every listed input is an Input operation of the traced program with that name, owner and type;
   every listed party receives an output or owns such an input: the MIR lists nothing the program
   did not construct *)
Theorem C18_interface_from_program : forall st fs0 outs m fs',
  compile st fs0 outs = Ok (m, fs') ->
  (forall i, In i (m_inputs m) ->
     exists k r, lookup k st = Some r /\ r_node r = AInput (i_name i) (i_party i) (i_doc i) /\ r_ty r = i_ty i)
  /\ (forall p, In p (m_parties m) ->
        In (p_name p) (map co_party outs)
        \/ exists k r n doc, lookup k st = Some r /\ r_node r = AInput n (p_name p) doc).
Proof. exact compile_inputs_parties. Qed.
Print Assumptions C18_interface_from_program.

(* ---- the program-level statement: for EVERY surface program (any number of statements, inputs,
   parties and outputs) on which abstract execution under the audit classes regenerated from
   audit/abstract.py yields a signature and the trace + compile model over the scalar rules regenerated
   from nada_types/scalar_types.py yields a MIR: the outputs are the same, in the same order, with the
   same secrecy type; every input the MIR lists is in the signature with the same owner and type; every
   party the MIR lists receives an output or owns a listed input. *)
From NadaV.Gen Require GenScalar GenAbstract.
From NadaV.Model Require Import AbsRules SigModel.
From NadaV.Spec Require Import SigSpec.
From NadaV.Proofs Require Import C18Rules C18Program.
Open Scope string_scope.

Theorem C18_signature_agrees_with_mir : forall parties p m sg,
  run GenScalar.G p = Ok m -> abs_sig GenAbstract.GA parties p = Some sg ->
  map spell (sg_outputs sg) = map (fun o => (o_name o, o_party o, ty_name (o_ty o))) (m_outputs m)
  /\ (forall i, In i (m_inputs m) -> In (i_name i, i_party i, ty_name (i_ty i)) (map spell (sg_inputs sg)))
  /\ (forall q, In q (m_parties m) ->
        In (p_name q) (map out_party (p_outs p)) \/ In (p_name q) (map t_party (sg_inputs sg))).
Proof. exact (program_agrees GenScalar.G GenAbstract.GA bin_spec_all abs_bin_needs_ints ifelse_spec). Qed.
Print Assumptions C18_signature_agrees_with_mir.

(* what the signature lists beyond the MIR is unused: every input reference among the operations the MIR
   emits is in the MIR's input list (any program, any store), so an input that the signature lists and the MIR
   does not is referenced by no emitted operation — and by C09 the emitted operations are exactly those the
   outputs reach *)
Theorem C18_unlisted_inputs_are_unused : forall G p m,
  run G p = Ok m ->
  forall e n, In e (m_ops m) -> e_op e = MInputRef n -> In n (map i_name (m_inputs m)).
Proof. exact run_inputs_complete. Qed.
Print Assumptions C18_unlisted_inputs_are_unused.

(* the premises are satisfiable: a program with a literal, two inputs of different owners, arithmetic, a
   comparison, an if_else and two outputs *)
Definition c18_example : program :=
  {| p_stmts := [SLet "a" (RInput "a" "P0" "" (IScalar (MSecret, BInt)));
                 SLet "b" (RInput "b" "P1" "" (IScalar (MPublic, BInt)));
                 SLet "u" (RInput "unused" "P2" "" (IScalar (MPublic, BInt)));
                 SLet "k" (RLit BInt 3);
                 SLet "s" (RBin OMul "k" "b");
                 SLet "c" (RBin OLt "b" "k");
                 SLet "r" (RIfElse "c" "a" "s")];
     p_outs := [{| out_name := "r"; out_party := "P1"; out_var := "r" |};
                {| out_name := "s"; out_party := "P0"; out_var := "s" |}] |}.
Example C18_nonvacuous :
  (exists m, run GenScalar.G c18_example = Ok m /\ List.length (m_inputs m) = 2%nat)
  /\ exists sg, abs_sig GenAbstract.GA ["P0"; "P1"; "P2"] c18_example = Some sg
                /\ sg_outputs sg = [("r", "P1", "SecretInteger"); ("s", "P0", "PublicInteger")]
                /\ List.length (sg_inputs sg) = 3%nat.
Proof.
  split; [eexists; split; [vm_compute; reflexivity | reflexivity] | eexists; split; [vm_compute; reflexivity | split; reflexivity]].
Qed.
