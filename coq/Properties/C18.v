(* C18 — The audited signature agrees with the compiled program's interface.
   Proved here for the compile model (tied to compiler_frontend.py by exact MIR correspondence):
   the interface tables of every compiled MIR, for every operation store and output list.
   The agreement with signature() itself is decided per program by Spec/SigSpec.signature_agreesb. *)
From Coq Require Import ZArith List String Bool.
From NadaV.PyMini Require Import PyMini.
From NadaV.Model Require Import Rules Corr Mir Surface Trace Compile.
From NadaV.Proofs Require Import C18Proofs.
Import ListNotations.

(* outputs: one for one, in order, with name, party and the type recorded for the operation *)
Theorem C18_outputs_one_for_one : forall st fs0 outs m fs',
  compile st fs0 outs = Ok (m, fs') -> Forall2 (out_rel st) outs (m_outputs m).
Proof. exact compile_outputs. Qed.
Print Assumptions C18_outputs_one_for_one.

(* every listed input is an Input operation of the traced program with that name, owner and type;
   every listed party receives an output or owns such an input: the MIR lists nothing the program
   did not construct *)
Theorem C18_interface_from_program : forall st fs0 outs m fs',
  compile st fs0 outs = Ok (m, fs') ->
  (forall i, In i (m_inputs m) ->
     exists k r, lookup k st = Some r /\ r_node r = AInput (i_name i) (i_party i) (i_doc i) /\ r_ty r = i_ty i)
  /\ (forall p, In p (m_parties m) ->
        In (p_name p) (map co_party outs)
        \/ exists k r n doc, lookup k st = Some r /\ r_node r = AInput n (p_name p) doc).
Proof. exact compile_inputs_parties. Qed.
Print Assumptions C18_interface_from_program.
