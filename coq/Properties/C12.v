(* C12 — Collection operations enforce their preconditions and size/element rules. *)
From Coq Require Import ZArith List String Bool.
Import ListNotations.
From NadaV.Gen Require GenScalar GenAst GenFrontend.
From NadaV.Spec Require Tables.
From NadaV.PyMini Require Import PyMini.
From NadaV.Model Require Import Rules Corr Mir Surface Trace Compile.
From NadaV.Proofs Require Import TableObligations C12Proofs.
Open Scope Z_scope.

(* On the model tracer, for ALL sizes n, m (unbounded Z) and all non-literal scalar element types *)
Theorem C12_zip_size_mismatch : forall ta tb n m, nonconst ta -> nonconst tb -> n <> m ->
  run GenScalar.G (zip_prog ta tb n m) = Err "IncompatibleTypesError"%string.
Proof. exact zip_size_mismatch_rejected. Qed.
Print Assumptions C12_zip_size_mismatch.

Theorem C12_inner_size_mismatch : forall ta tb n m, nonconst ta -> nonconst tb -> n <> m ->
  run GenScalar.G (inner_prog ta tb n m) = Err "IncompatibleTypesError"%string.
Proof. exact inner_size_mismatch_rejected. Qed.
Print Assumptions C12_inner_size_mismatch.

Theorem C12_inner_non_integer : forall ta tb n, nonconst ta -> nonconst tb ->
  snd ta = BBool \/ snd tb = BBool ->
  run GenScalar.G (inner_prog ta tb n n) = Err "InvalidTypeError"%string.
Proof. exact inner_non_integer_rejected. Qed.
Print Assumptions C12_inner_non_integer.

(* every index outside 0..2 of a 3-tuple, negative ones included *)
Theorem C12_index_out_of_range : forall i, i < 0 \/ 3 <= i ->
  run GenScalar.G (index_prog 3 i) = Err "IndexError"%string.
Proof. exact index_out_of_range_rejected_3. Qed.
Print Assumptions C12_index_out_of_range.

Theorem C12_array_new_empty :
  run GenScalar.G {| p_stmts := [SLet "r"%string (RArrayNew [])]; p_outs := out1 "r"%string |} = Err "ValueError"%string.
Proof. exact array_new_empty_rejected. Qed.
Print Assumptions C12_array_new_empty.


Theorem C12_tables :
  GenFrontend.src_Array_zip = Tables.src_Array_zip /\
  GenFrontend.src_Array_inner_product = Tables.src_Array_inner_product /\
  GenFrontend.src_is_primitive_integer = Tables.src_is_primitive_integer /\
  GenFrontend.src_Array_new = Tables.src_Array_new /\
  GenFrontend.src_Array_map = Tables.src_Array_map /\
  GenFrontend.src_unzip = Tables.src_unzip /\
  GenFrontend.src_NTuple_getitem = Tables.src_NTuple_getitem /\
  GenFrontend.src_Object_getattr = Tables.src_Object_getattr /\
  GenFrontend.src_generate_accessor = Tables.src_generate_accessor.
Proof.
  repeat split; first [ exact tbl_src_Array_zip | exact tbl_src_Array_inner_product
    | exact tbl_src_is_primitive_integer | exact tbl_src_Array_new | exact tbl_src_Array_map
    | exact tbl_src_unzip | exact tbl_src_NTuple_getitem | exact tbl_src_Object_getattr
    | exact tbl_src_generate_accessor ].
Qed.
Print Assumptions C12_tables.
