(* C12 — Collection operations enforce their preconditions and size/element rules. *)
From Coq Require Import ZArith List String Bool.
Import ListNotations.
From NadaV.Gen Require GenScalar GenAst GenFrontend.
From NadaV.Spec Require Tables.
From NadaV.PyMini Require Import PyMini.
From NadaV.Model Require Import Rules Corr Mir Surface Trace Compile.
From NadaV.Proofs Require Import TableObligations C12Proofs.
Open Scope Z_scope.

(* On the model tracer, for ALL sizes n, m (unbounded Z) and all non-literal scalar element types *)
Theorem C12_zip_size_mismatch : forall ta tb n m, nonconst ta -> nonconst tb -> n <> m ->
  run GenScalar.G (zip_prog ta tb n m) = Err "IncompatibleTypesError"%string.
Proof. exact zip_size_mismatch_rejected. Qed.
Print Assumptions C12_zip_size_mismatch.

Theorem C12_inner_size_mismatch : forall ta tb n m, nonconst ta -> nonconst tb -> n <> m ->
  run GenScalar.G (inner_prog ta tb n m) = Err "IncompatibleTypesError"%string.
Proof. exact inner_size_mismatch_rejected. Qed.
Print Assumptions C12_inner_size_mismatch.

Theorem C12_inner_non_integer : forall ta tb n, nonconst ta -> nonconst tb ->
  snd ta = BBool \/ snd tb = BBool ->
  run GenScalar.G (inner_prog ta tb n n) = Err "InvalidTypeError"%string.
Proof. exact inner_non_integer_rejected. Qed.
Print Assumptions C12_inner_non_integer.

(* every index outside 0..2 of a 3-tuple, negative ones included *)
Theorem C12_index_out_of_range : forall i, i < 0 \/ 3 <= i ->
  run GenScalar.G (index_prog 3 i) = Err "IndexError"%string.
Proof. exact index_out_of_range_rejected_3. Qed.
Print Assumptions C12_index_out_of_range.

Theorem C12_array_new_empty :
  run GenScalar.G {| p_stmts := [SLet "r"%string (RArrayNew [])]; p_outs := out1 "r"%string |} = Err "ValueError"%string.
Proof. exact array_new_empty_rejected. Qed.
Print Assumptions C12_array_new_empty.


Theorem C12_tables :
  GenFrontend.src_Array_zip = Tables.src_Array_zip /\
  GenFrontend.src_Array_inner_product = Tables.src_Array_inner_product /\
  GenFrontend.src_is_primitive_integer = Tables.src_is_primitive_integer /\
  GenFrontend.src_Array_new = Tables.src_Array_new /\
  GenFrontend.src_Array_map = Tables.src_Array_map /\
  GenFrontend.src_unzip = Tables.src_unzip /\
  GenFrontend.src_NTuple_getitem = Tables.src_NTuple_getitem /\
  GenFrontend.src_Object_getattr = Tables.src_Object_getattr /\
  GenFrontend.src_generate_accessor = Tables.src_generate_accessor.
Proof.
  repeat split; first [ exact tbl_src_Array_zip | exact tbl_src_Array_inner_product
    | exact tbl_src_is_primitive_integer | exact tbl_src_Array_new | exact tbl_src_Array_map
    | exact tbl_src_unzip | exact tbl_src_NTuple_getitem | exact tbl_src_Object_getattr
    | exact tbl_src_generate_accessor ].
Qed.
Print Assumptions C12_tables.

(* ---------------------------------------------------------------------------------------------
   Step level: for ANY environment, ANY state of the tracer and ANY operand wrappers — every size
   (unbounded Z, or none), every element type (scalar, tuple, n-tuple, object, nested array), every
   index and field name.  [bound_to ρ x w]: the name x is bound to the wrapper w. *)
From NadaV.Proofs Require Import ScalarInv TraceMono C11Program C12Steps.

Theorem C12_zip_sizes_differ : forall ρ a b ex sx ia ey sy ib s,
  bound_to ρ a (WArray ex sx ia) -> bound_to ρ b (WArray ey sy ib) -> size_eqb sx sy = false ->
  eval_rhs GenScalar.G ρ (RZip a b) s = Err "IncompatibleTypesError"%string.
Proof. exact (zip_size_mismatch GenScalar.G). Qed.
Print Assumptions C12_zip_sizes_differ.

(* zip pairs the element types in operand order and keeps the size *)
Theorem C12_zip_result : forall ρ a b ex sx ia ey sy ib s w s1,
  bound_to ρ a (WArray ex sx ia) -> bound_to ρ b (WArray ey sy ib) ->
  eval_rhs GenScalar.G ρ (RZip a b) s = Ok (w, s1) ->
  size_eqb sx sy = true /\
  exists id l r tx ty,
    ia = Some l /\ ib = Some r
    /\ w = WArray (DInst (WTuple ex ey None)) sx (Some id)
    /\ side_mir ex = Ok tx /\ side_mir ey = Ok ty
    /\ recorded_as s1 id (TyArray (TyTuple tx ty) sx) (ABinary "Zip" l r).
Proof. exact (zip_accepted GenScalar.G). Qed.
Print Assumptions C12_zip_result.

(* unzip splits them back in the same order, each half with the array's size *)
Theorem C12_unzip_result : forall ρ a l r it size ia s w s1,
  bound_to ρ a (WArray (DInst (WTuple l r it)) size ia) ->
  eval_rhs GenScalar.G ρ (RUnzip a) s = Ok (w, s1) ->
  exists id src tl tr,
    ia = Some src
    /\ w = WTuple (DArrayType l size) (DArrayType r size) (Some id)
    /\ marker_mir l = Ok tl /\ marker_mir r = Ok tr
    /\ recorded_as s1 id (TyTuple (TyArray tl size) (TyArray tr size)) (AUnary "Unzip" src).
Proof. exact (unzip_accepted GenScalar.G). Qed.
Print Assumptions C12_unzip_result.

Theorem C12_unzip_of_a_non_pair_array : forall ρ a e size ia s,
  bound_to ρ a (WArray e size ia) -> (forall l r it, e <> DInst (WTuple l r it)) ->
  eval_rhs GenScalar.G ρ (RUnzip a) s = Err "AttributeError"%string.
Proof. exact (unzip_of_a_non_pair_array_rejected GenScalar.G). Qed.
Print Assumptions C12_unzip_of_a_non_pair_array.

(* map keeps the size; the element type is the function's return type *)
Theorem C12_map_result : forall ρ a f e size ia fr s w s1,
  bound_to ρ a (WArray e size ia) -> assoc f ρ = Some (BFun fr) ->
  eval_rhs GenScalar.G ρ (RMap a f) s = Ok (w, s1) ->
  exists id src t,
    ia = Some src /\ fn_ret fr = IScalar t
    /\ w = WArray (DCls t) size (Some id)
    /\ recorded_as s1 id (TyArray (TyName (mir_name t)) size) (AMap src (fn_id fr)).
Proof. exact (map_accepted GenScalar.G). Qed.
Print Assumptions C12_map_result.

Theorem C12_inner_product_sizes_differ : forall ρ a b ex sx ia ey sy ib s,
  bound_to ρ a (WArray ex sx ia) -> bound_to ρ b (WArray ey sy ib) -> size_eqb sx sy = false ->
  eval_rhs GenScalar.G ρ (RInner a b) s = Err "IncompatibleTypesError"%string.
Proof. exact (inner_size_mismatch GenScalar.G). Qed.
Print Assumptions C12_inner_product_sizes_differ.

Theorem C12_inner_product_non_integer_elements : forall ρ a b ex sx ia ey sy ib tx ty s,
  bound_to ρ a (WArray ex sx ia) -> bound_to ρ b (WArray ey sy ib) -> size_eqb sx sy = true ->
  inner_mir ex = Ok tx -> inner_mir ey = Ok ty ->
  is_primitive_integer tx = false \/ is_primitive_integer ty = false ->
  eval_rhs GenScalar.G ρ (RInner a b) s = Err "InvalidTypeError"%string.
Proof. exact (inner_non_integer GenScalar.G). Qed.
Print Assumptions C12_inner_product_non_integer_elements.

Theorem C12_inner_product_result : forall ρ a b ex sx ia ey sy ib s w s1,
  bound_to ρ a (WArray ex sx ia) -> bound_to ρ b (WArray ey sy ib) ->
  eval_rhs GenScalar.G ρ (RInner a b) s = Ok (w, s1) ->
  size_eqb sx sy = true /\
  exists id l r tx ty tl tr,
    ia = Some l /\ ib = Some r
    /\ inner_mir ex = Ok tx /\ is_primitive_integer tx = true
    /\ inner_mir ey = Ok ty /\ is_primitive_integer ty = true
    /\ elt_class ex = Ok tl /\ elt_class ey = Ok tr
    /\ w = WScalar (mode_max (fst tl) (fst tr), snd tl) (Some id) None
    /\ recorded_as s1 id (TyName (mir_name (mode_max (fst tl) (fst tr), snd tl))) (ABinary "InnerProduct" l r).
Proof. exact (inner_accepted GenScalar.G). Qed.
Print Assumptions C12_inner_product_result.

(* every index that is not a position of the n-tuple, negative ones included, whatever n *)
Theorem C12_index_not_a_position : forall ρ a vals it i s,
  bound_to ρ a (WNTuple vals it) -> i < 0 \/ Z.of_nat (List.length vals) <= i ->
  eval_rhs GenScalar.G ρ (RIndex a i) s = Err "IndexError"%string.
Proof. exact (index_out_of_range GenScalar.G). Qed.
Print Assumptions C12_index_not_a_position.

(* an accepted index is a position in 0..n-1 and is what the recorded accessor carries *)
Theorem C12_index_result : forall ρ a vals it i s w s1,
  bound_to ρ a (WNTuple vals it) ->
  eval_rhs GenScalar.G ρ (RIndex a i) s = Ok (w, s1) ->
  0 <= i < Z.of_nat (List.length vals) /\
  exists v src, nth_wrap vals (Z.to_nat i) = Some v /\ it = Some src /\
    ((exists b li lv, v = WScalar (MConst, b) li lv /\ w = v)
     \/ (exists ty, wid w = Some (counter s + 1) /\ recorded_as s1 (counter s + 1) ty (ANTupleAcc i src))).
Proof. exact (index_accepted GenScalar.G). Qed.
Print Assumptions C12_index_result.

Theorem C12_undeclared_field : forall ρ a vals it k s,
  bound_to ρ a (WObject vals it) -> reserved_attr k = false -> assoc k vals = None ->
  eval_rhs GenScalar.G ρ (RField a k) s = Err "AttributeError"%string.
Proof. exact (undeclared_field_rejected GenScalar.G). Qed.
Print Assumptions C12_undeclared_field.

Theorem C12_array_new_of_nothing : forall ρ s, eval_rhs GenScalar.G ρ (RArrayNew []) s = Err "ValueError"%string.
Proof. exact (array_new_empty_rejected_anywhere GenScalar.G). Qed.
Print Assumptions C12_array_new_of_nothing.

(* an accepted Array.new has elements of one class and one type, and counts them *)
Theorem C12_array_new_result : forall ρ es s w s1,
  eval_rhs GenScalar.G ρ (RArrayNew es) s = Ok (w, s1) ->
  exists ws first ids t0,
    Forall2 (bound_to ρ) es ws /\ hd_error ws = Some first
    /\ Forall (same_as first) ws
    /\ Forall2 has_id ws ids
    /\ to_mir first = Ok t0
    /\ w = WArray (DInst first) (Some (Z.of_nat (List.length ws))) (Some (counter s + 1))
    /\ recorded_as s1 (counter s + 1) (TyArray t0 (Some (Z.of_nat (List.length ws)))) (ANew "ArrayNew" ids).
Proof. exact (array_new_accepted GenScalar.G). Qed.
Print Assumptions C12_array_new_result.

(* the premises are met by a real program state: zip of a secret and a public array of size 4, then unzip *)
Example C12_steps_nonvacuous :
  exists ρ s w s1,
    exec GenScalar.G 10 [] [SLet "a" (RInput "a" "P" "" (IArray (IScalar (MSecret, BInt)) (Some 4)));
                            SLet "b" (RInput "b" "P" "" (IArray (IScalar (MPublic, BInt)) (Some 4)))]%string init_state = Ok (ρ, s)
    /\ eval_rhs GenScalar.G ρ (RZip "a" "b")%string s = Ok (w, s1)
    /\ recorded_as s1 3 (TyArray (TyTuple (TyName "SecretInteger") (TyName "Integer")) (Some 4)) (ABinary "Zip" 1 2)%string.
Proof. do 4 eexists. split; [vm_compute; reflexivity|]. split; vm_compute; reflexivity. Qed.

(* ---- the remaining constructors and the field accessor (Proofs/C12Steps2.v), same generality: any environment,
   any tracer state.  The collection returned holds the argument values themselves, in written order (under the
   written keys), and the type recorded is the type of the value returned. *)
From NadaV.Proofs Require Import C12Steps2.

Theorem C12_tuple_new_result : forall ρ a b s w s1,
  eval_rhs GenScalar.G ρ (RTupleNew a b) s = Ok (w, s1) ->
  exists x y i1 i2 ty,
    bound_to ρ a x /\ bound_to ρ b y /\ wid x = Some i1 /\ wid y = Some i2
    /\ w = WTuple (DInst x) (DInst y) (Some (counter s + 1)) /\ to_mir w = Ok ty
    /\ recorded_as s1 (counter s + 1) ty (ANew "TupleNew" [i1; i2])%string.
Proof. exact (tuple_new_accepted GenScalar.G). Qed.
Print Assumptions C12_tuple_new_result.

Theorem C12_ntuple_new_result : forall ρ es s w s1,
  eval_rhs GenScalar.G ρ (RNTupleNew es) s = Ok (w, s1) ->
  exists ws ids ty,
    Forall2 (bound_to ρ) es ws /\ Forall2 has_id ws ids
    /\ w = WNTuple ws (Some (counter s + 1)) /\ to_mir w = Ok ty
    /\ recorded_as s1 (counter s + 1) ty (ANew "NTupleNew" ids)%string.
Proof. exact (ntuple_new_accepted GenScalar.G). Qed.
Print Assumptions C12_ntuple_new_result.

Theorem C12_object_new_result : forall ρ fs s w s1,
  eval_rhs GenScalar.G ρ (RObjectNew fs) s = Ok (w, s1) ->
  exists ws ids ty,
    Forall2 (bound_to ρ) (map snd fs) ws /\ Forall2 has_id ws ids
    /\ w = WObject (combine (map fst fs) ws) (Some (counter s + 1)) /\ to_mir w = Ok ty
    /\ recorded_as s1 (counter s + 1) ty (ANew "ObjectNew" ids)%string.
Proof. exact (object_new_accepted GenScalar.G). Qed.
Print Assumptions C12_object_new_result.

Theorem C12_field_result : forall ρ a vals it k s w s1,
  bound_to ρ a (WObject vals it) ->
  eval_rhs GenScalar.G ρ (RField a k) s = Ok (w, s1) ->
  reserved_attr k = false /\
  exists v src, assoc k vals = Some v /\ it = Some src /\
    ((exists b li lv, v = WScalar (MConst, b) li lv /\ w = v /\ store s1 = store s)
     \/ (exists ty, to_mir v = Ok ty /\ to_mir w = Ok ty /\ wid w = Some (counter s + 1)
                    /\ recorded_as s1 (counter s + 1) ty (AObjectAcc k src))).
Proof. exact (field_accepted GenScalar.G). Qed.
Print Assumptions C12_field_result.
