(* C19 — Source references designate the user line that created each MIR element. *)
From Coq Require Import ZArith List String Bool Ascii.
From NadaV.Gen Require GenSourceRef.
From NadaV.Spec Require Tables.
From NadaV.Model Require Import SourceRef.
From NadaV.Proofs Require Import C19Proofs.
Import ListNotations.
Open Scope string_scope.

(* the constants recognised in source_ref.py on this run are the ones the theorems are about:
   lines = src.split('\n') (only a newline ends a line, as in Python's line numbering),
   guard `lineno <= len(lines)`, accumulation `offset += len(lines[i]) + 1` over range(lineno - 1),
   length of lines[lineno - 1]; frame selection starts two frames up and walks while the frame
   belongs to the DSL package *)
Theorem C19_code_constants :
  GenSourceRef.li_guard_le = true /\ GenSourceRef.li_plus = 1%Z /\ GenSourceRef.li_range_minus = 1%Z
  /\ GenSourceRef.li_index_minus = 1%Z /\ GenSourceRef.li_split = "src.split('\n')"
  /\ GenSourceRef.bf_hops = 2%Z /\ GenSourceRef.bf_walks = true
  /\ GenSourceRef.bf_walk_pred = "_in_package(backend_frame.f_code.co_filename)"
  /\ GenSourceRef.sr_private_helpers = Tables.sr_private_helpers
  /\ GenSourceRef.li_pre = Tables.li_pre /\ GenSourceRef.bf_rest = Tables.bf_rest.
Proof. repeat split; reflexivity. Qed.
Print Assumptions C19_code_constants.

(* for EVERY text (list of lines of any length) and EVERY line number of it, first and last
   included: offset and length delimit exactly that line *)
Theorem C19_line : forall lines n,
  (1 <= n <= Z.of_nat (List.length lines))%Z ->
  let '(off, len) := line_info GenSourceRef.li_guard_le GenSourceRef.li_plus GenSourceRef.li_range_minus
                               GenSourceRef.li_index_minus lines n in
  substring (Z.to_nat off) (Z.to_nat len) (join lines) = nth (Z.to_nat (n - 1)) lines "".
Proof. exact line_info_exact. Qed.
Print Assumptions C19_line.

Theorem C19_line_delimited : forall ls k, k < List.length ls ->
  let e := offset_of 1 ls k + String.length (nth k ls "") in
  e = String.length (join ls) \/ get e (join ls) = Some (ascii_of_nat 10).
Proof. exact slice_end_delimited. Qed.
Print Assumptions C19_line_delimited.

(* ... and the lines are those of the text: splitting a text at its newlines and joining the pieces with
   newlines gives the text back, for EVERY text (so the two theorems above speak about the embedded text itself) *)
Theorem C19_lines_of_the_text : forall text, join (split_lines text) = text.
Proof. exact join_split_lines. Qed.
Print Assumptions C19_lines_of_the_text.

(* for EVERY call stack: whatever number of DSL helper frames lie between the operator method
   and the user's statement, the selected frame is the user's *)
Theorem C19_frame : forall bf site dsl u rest,
  Forall (fun f => fr_kind f = Dsl) dsl -> fr_kind u = User ->
  select GenSourceRef.bf_hops GenSourceRef.bf_walks (bf :: site :: dsl ++ u :: rest)%list = Some u.
Proof. exact select_finds_user. Qed.
Print Assumptions C19_frame.

Example C19_nonvacuous :
  line_info true 1 1 1 ["from nada_dsl import *"; ""; "x = 1"] 3 = (24%Z, 5%Z).
Proof. reflexivity. Qed.
