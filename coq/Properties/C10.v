(* C10 — The program's inputs, outputs and parties are reproduced exactly. *)
From Coq Require Import ZArith List String Bool.
From NadaV.PyMini Require Import PyMini.
From NadaV.Gen Require GenScalar GenAst GenFrontend.
From NadaV.Model Require Import Rules Corr Mir Surface Trace Compile.
From NadaV.Spec Require Tables.
From NadaV.Proofs Require Import TableObligations C10Proofs.
Import ListNotations.
Open Scope string_scope.

(* the output loop of the model compiler emits one entry per returned Output, in order, with
   its name and party (for ANY store, ANY list of outputs) *)
Theorem C10_outputs_in_order : forall outs st fs ops macc c ops' mouts fs' c',
  outputs_loop st fs outs ops macc c = Ok (ops', mouts, fs', c') ->
  map (fun o => (o_name o, o_party o)) mouts
  = (map (fun o => (o_name o, o_party o)) macc ++ map (fun o => (co_name o, co_party o)) outs)%list.
Proof. exact outputs_in_order. Qed.
Print Assumptions C10_outputs_in_order.

(* two different inputs under one name can never both be registered, whichever parties own them
   (add_input_to_map in the model; its source is pinned by C10_tables) *)
Theorem C10_duplicate_rejected : forall c id1 id2 ty1 ty2 name p1 p2 d1 d2 c1,
  add_input id1 ty1 name p1 d1 c = Ok c1 -> id1 <> id2 ->
  add_input id2 ty2 name p2 d2 c1 = Err "CompilerException".
Proof. exact duplicate_rejected. Qed.
Print Assumptions C10_duplicate_rejected.

Theorem C10_tables :
  GenFrontend.src_add_input_to_map = Tables.src_add_input_to_map /\
  GenFrontend.src_to_input_list = Tables.src_to_input_list /\
  GenFrontend.src_to_party_list = Tables.src_to_party_list /\
  GenFrontend.src_nada_dsl_to_nada_mir = Tables.src_nada_dsl_to_nada_mir /\
  GenFrontend.src_Output_init = Tables.src_Output_init /\
  GenFrontend.src_Input_init = Tables.src_Input_init.
Proof.
  repeat split; first [ exact tbl_src_add_input_to_map | exact tbl_src_to_input_list | exact tbl_src_to_party_list
    | exact tbl_src_nada_dsl_to_nada_mir | exact tbl_src_Output_init | exact tbl_src_Input_init ].
Qed.
Print Assumptions C10_tables.

(* outputs: one for one, in order, each with the type recorded for its operation; inputs and parties: only
   what the program constructed, with name, owner, documentation and type (ANY store, ANY output list) *)
From NadaV.Proofs Require Import C18Proofs.
Theorem C10_outputs_with_types : forall st fs0 outs m fs',
  compile st fs0 outs = Ok (m, fs') -> Forall2 (out_rel st) outs (m_outputs m).
Proof. exact compile_outputs. Qed.
Print Assumptions C10_outputs_with_types.

Theorem C10_inputs_and_parties_reproduced : forall st fs0 outs m fs',
  compile st fs0 outs = Ok (m, fs') ->
  (forall i, In i (m_inputs m) ->
     exists k r, lookup k st = Some r /\ r_node r = AInput (i_name i) (i_party i) (i_doc i) /\ r_ty r = i_ty i)
  /\ (forall p, In p (m_parties m) ->
        In (p_name p) (map co_party outs)
        \/ exists k r n doc, lookup k st = Some r /\ r_node r = AInput n (p_name p) doc).
Proof. exact compile_inputs_parties. Qed.
Print Assumptions C10_inputs_and_parties_reproduced.

(* ---------------------------------------------------------------------------------------------
   Program level, for EVERY program of the whole surface language traced from ANY earlier state of the
   process (a state tracing can leave behind: C08_history_states). *)
From NadaV.PyMini Require Import PyMini.
From NadaV.Model Require Import Rules Corr Mir Surface Trace Compile.
From NadaV.Proofs Require Import ScalarInv TraceMono C01All C10Program.

(* every input of the MIR was declared by an Input statement of THIS program — at top level, in a function body
   or in a nested definition — with exactly that name, owning party and documentation string *)
Theorem C10_inputs_are_declared : forall s0 p m s' fs',
  fresh_store s0 -> ordered s0 ->
  run_from GenScalar.G s0 [] p = Ok (m, s', fs') ->
  forall i, In i (m_inputs m) -> In (i_name i, i_party i, i_doc i) (decls (p_stmts p)).
Proof. exact (mir_inputs_are_declared GenScalar.G). Qed.
Print Assumptions C10_inputs_are_declared.

(* whatever the tracer records as an input, anywhere in any program, is a declared input of that program *)
Theorem C10_recorded_inputs_are_declared : forall fuel ρ ss s ρ' s',
  exec GenScalar.G fuel ρ ss s = Ok (ρ', s') -> G (declared (decls ss)) (counter s) s s'.
Proof. exact (exec_declared GenScalar.G). Qed.
Print Assumptions C10_recorded_inputs_are_declared.

(* one MIR output per returned Output, in the returned order, with its name and receiving party, naming the
   operation bound to the returned variable and carrying the type recorded for that operation *)
Theorem C10_outputs_are_the_returned_ones : forall s0 p m s' fs',
  run_from GenScalar.G s0 [] p = Ok (m, s', fs') ->
  exists ρ, exec GenScalar.G (stmts_size (p_stmts p)) [] (p_stmts p) s0 = Ok (ρ, s')
            /\ Forall2 (out_of ρ (store s')) (p_outs p) (m_outputs m).
Proof. exact (mir_outputs_are_the_returned_ones GenScalar.G). Qed.
Print Assumptions C10_outputs_are_the_returned_ones.
