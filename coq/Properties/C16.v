(* C16 — The auditor is total: always terminates with a report, runs no audited code.
   What a theorem carries here: the auditor calls no dynamic-code primitive, and its one unbounded
   loop terminates on every target.  That no partial operation of the 650-line recursive checker
   raises is decided on generated source texts (partial; see DESIGN.md section 7). *)
From Coq Require Import List String Bool.
From NadaV.Gen Require GenAudit.
From NadaV.Model Require Import AuditLoop.
From NadaV.Proofs Require Import C16Proofs.
Import ListNotations.

(* no eval / exec / compile / __import__ call anywhere in strict.py, report.py, common.py, audit/__init__.py
   (re-extracted from the source on every run) *)
Theorem C16_no_dynamic_code : GenAudit.dynamic_code_calls = [].
Proof. reflexivity. Qed.
Print Assumptions C16_no_dynamic_code.

(* the subscript-target walk, with the loop shape recognised in the source on this run, terminates
   for EVERY assignment target, whatever sits under the subscripts *)
Theorem C16_loop_terminates : forall t fuel, target_size t < fuel ->
  run_loop fuel GenAudit.subscript_loop_breaks t = Some true.
Proof. exact loop_terminates. Qed.
Print Assumptions C16_loop_terminates.

Example C16_nonvacuous : run_loop 5 true (TSub (TSub TOther)) = Some true /\ run_loop 5 false (TSub (TSub TOther)) = Some false.
Proof. split; reflexivity. Qed.
