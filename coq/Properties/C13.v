(* C13 — Compilation is deterministic and the same through every entry point.
   The theorems cover the decision logic (the CLI block, timers); determinism of the real
   process across hash seeds and entry points is reached by the differential matrix only. *)
From Coq Require Import List String Bool.
From NadaV.Gen Require GenFrontend.
From NadaV.Spec Require Tables.
From NadaV.Model Require Import Cli.
From NadaV.Proofs Require Import TableObligations C13Proofs.
Import ListNotations.
Open Scope string_scope.

(* invoked with a program, the entry point prints exactly one JSON object: Success when the
   compilation returned, Failure when an Exception was raised anywhere *)
Theorem C13_one_json : forall argv rs rstr,
  invoked_with_program argv = true ->
  rs <> RaisedBaseException -> rstr <> RaisedBaseException ->
  exists l, cli argv rs rstr = [l] /\
    (match argv with
     | [_; _] => (rs = Compiled -> l = LSuccess) /\ (rs = RaisedException -> l = LFailure)
     | _ => (rstr = Compiled -> l = LSuccess) /\ (rstr = RaisedException -> l = LFailure)
     end).
Proof. exact one_json. Qed.
Print Assumptions C13_one_json.

(* the code of the entry points is the one the model was written against *)
Theorem C13_tables :
  GenFrontend.src_compile_main = Tables.src_compile_main /\
  GenFrontend.src_compile_script = Tables.src_compile_script /\
  GenFrontend.src_compile_string = Tables.src_compile_string /\
  GenFrontend.src_print_output = Tables.src_print_output /\
  GenFrontend.src_nada_compile = Tables.src_nada_compile /\
  GenFrontend.src_DefaultClock_start = Tables.src_DefaultClock_start /\
  GenFrontend.src_DefaultClock_stop = Tables.src_DefaultClock_stop /\
  GenFrontend.src_Clock_start = Tables.src_Clock_start.
Proof.
  repeat split; first [ exact tbl_src_compile_main | exact tbl_src_compile_script | exact tbl_src_compile_string
    | exact tbl_src_print_output | exact tbl_src_nada_compile | exact tbl_src_DefaultClock_start
    | exact tbl_src_DefaultClock_stop | exact tbl_src_Clock_start ].
Qed.
Print Assumptions C13_tables.

(* timers with distinct names never raise, whatever the number of compilations *)
Theorem C13_timer_restart : forall n r f,
  ~ In n r -> exists c, clock_start (Default r f) n = Some c /\
                        exists c', clock_stop c n = Some c' /\ exists c'', clock_start c' n = Some c''.
Proof. exact timer_restart. Qed.
Print Assumptions C13_timer_restart.
