(* C11 — Nada functions keep their signature, their bindings and their restrictions. *)
From Coq Require Import ZArith List String Bool.
From NadaV.Gen Require GenScalar GenAst GenFrontend.
From NadaV.Spec Require Tables.
From NadaV.Proofs Require Import TableObligations.
Import ListNotations.

Theorem C11_tables :
  GenFrontend.src_NadaFunction_init = Tables.src_NadaFunction_init /\
  GenFrontend.src_NadaFunction_call = Tables.src_NadaFunction_call /\
  GenFrontend.src_NadaFunctionCall_init = Tables.src_NadaFunctionCall_init /\
  GenFrontend.src_NadaFunctionArg_init = Tables.src_NadaFunctionArg_init /\
  GenFrontend.src_nada_fn = Tables.src_nada_fn /\
  GenFrontend.src_contained_types = Tables.src_contained_types /\
  GenFrontend.src_Array_map = Tables.src_Array_map /\
  GenFrontend.src_Array_reduce = Tables.src_Array_reduce /\
  GenFrontend.src_to_mir_function_list = Tables.src_to_mir_function_list /\
  GenAst.ast_to_mir = Tables.ast_to_mir.
Proof.
  repeat split; first [ exact tbl_src_NadaFunction_init | exact tbl_src_NadaFunction_call
    | exact tbl_src_NadaFunctionCall_init | exact tbl_src_NadaFunctionArg_init | exact tbl_src_nada_fn
    | exact tbl_src_contained_types | exact tbl_src_Array_map | exact tbl_src_Array_reduce
    | exact tbl_src_to_mir_function_list | exact tbl_ast_to_mir ].
Qed.
Print Assumptions C11_tables.
