(* C11 — Nada functions keep their signature, their bindings and their restrictions. *)
From Coq Require Import ZArith List String Bool.
From NadaV.Gen Require GenScalar GenAst GenFrontend.
From NadaV.Spec Require Tables.
From NadaV.Proofs Require Import TableObligations.
Import ListNotations.

Theorem C11_tables :
  GenFrontend.src_NadaFunction_init = Tables.src_NadaFunction_init /\
  GenFrontend.src_NadaFunction_call = Tables.src_NadaFunction_call /\
  GenFrontend.src_NadaFunctionCall_init = Tables.src_NadaFunctionCall_init /\
  GenFrontend.src_NadaFunctionArg_init = Tables.src_NadaFunctionArg_init /\
  GenFrontend.src_nada_fn = Tables.src_nada_fn /\
  GenFrontend.src_contained_types = Tables.src_contained_types /\
  GenFrontend.src_Array_map = Tables.src_Array_map /\
  GenFrontend.src_Array_reduce = Tables.src_Array_reduce /\
  GenFrontend.src_to_mir_function_list = Tables.src_to_mir_function_list /\
  GenAst.ast_to_mir = Tables.ast_to_mir.
Proof.
  repeat split; first [ exact tbl_src_NadaFunction_init | exact tbl_src_NadaFunction_call
    | exact tbl_src_NadaFunctionCall_init | exact tbl_src_NadaFunctionArg_init | exact tbl_src_nada_fn
    | exact tbl_src_contained_types | exact tbl_src_Array_map | exact tbl_src_Array_reduce
    | exact tbl_src_to_mir_function_list | exact tbl_ast_to_mir ].
Qed.
Print Assumptions C11_tables.

(* ---------------------------------------------------------------------------------------------
   Program level, for EVERY program of the surface language (scalars, collections, functions,
   nested definitions) traced by the model with the regenerated scalar rules. *)
From Coq Require Import Lia Permutation.
From NadaV.PyMini Require Import PyMini.
From NadaV.Model Require Import Rules Corr Mir Surface Trace Compile.
From NadaV.Proofs Require Import ScalarInv TraceMono C11Proofs C11Program.
Open Scope Z_scope.

(* The tracer only adds operations, under ids above the counter it started from: nothing recorded is
   ever overwritten or removed, whatever the program. *)
Theorem C11_store_only_grows : forall fuel ρ ss s ρ' s',
  Inv ρ s -> exec GenScalar.G fuel ρ ss s = Ok (ρ', s') ->
  counter s <= counter s' /\
  exists new, store s' = (new ++ store s)%list /\ Forall (fun e => counter s < fst e <= counter s' /\ True) new.
Proof.
  intros fuel ρ ss s ρ' s' HI H. destruct (exec_inv GenScalar.G fuel ρ ss s ρ' s' HI H) as [_ Hg]. exact Hg.
Qed.
Print Assumptions C11_store_only_grows.

(* A definition leaves one function record under a fresh id with the definition's name, and one argument
   record per parameter — the parameter's name, the annotation's type, in the written order; the body is
   traced with each parameter name bound to the value carrying that argument record's id; the records are
   still there, unchanged, at the end of the enclosing block. *)
Theorem C11_definition_recorded : forall n ρ f params rt body res rest s ρ' s',
  Inv ρ s -> exec GenScalar.G (S n) ρ (SDef f params rt body res :: rest) s = Ok (ρ', s') ->
  exists t, rt = IScalar t /\ fst t <> MConst
    /\ forallb (fun p => is_const_scalar (snd p)) params = false
    /\ def_recorded s' (counter s + 1) f params t
    /\ exists args s1 ρb s2,
         exec GenScalar.G n (body_env args ρ) body s1 = Ok (ρb, s2)
         /\ Forall2 (fun a p => fst (snd a) = fst p /\ wid (snd (snd a)) = Some (fst a)
                                /\ is_arg s' (counter s + 1) (fst a) (fst p)) args params.
Proof. exact (definition_recorded GenScalar.G). Qed.
Print Assumptions C11_definition_recorded.

(* ... and down to the MIR: the function emitted under that id has the definition's name, parameter
   names, parameter order and parameter types. *)
Theorem C11_mir_function_is_the_definition : forall s fid f params t fs0 outs m fs' mf,
  def_recorded s fid f params t ->
  compile (store s) fs0 outs = Ok (m, fs') -> In mf (m_functions m) -> f_id mf = fid ->
  f_name mf = f /\ f_ret_ty mf = TyName (mir_name t)
  /\ Forall2 (fun a p => a_name a = fst p /\ param_mir (snd p) = Ok (a_ty a)) (f_args mf) params.
Proof. exact mir_function_is_the_definition. Qed.
Print Assumptions C11_mir_function_is_the_definition.

(* Every function of the MIR is read from the record stored under its id (any store), and no function is
   emitted twice however many sites refer to it. *)
Theorem C11_functions_from_records : forall st fs0 outs m fs',
  compile st fs0 outs = Ok (m, fs') -> Forall (fun_from_store st) (m_functions m).
Proof. exact compile_functions_from_records. Qed.
Print Assumptions C11_functions_from_records.

Theorem C11_each_function_once : forall st fs0 outs m fs',
  compile st fs0 outs = Ok (m, fs') -> NoDup fs0 ->
  NoDup (map f_id (m_functions m)) /\ Permutation fs' (map f_id (m_functions m)).
Proof.
  intros st fs0 outs m fs' H Hn. split;
    [exact (compile_functions_once _ _ _ _ _ H Hn) | exact (compile_functions_are_the_discovered _ _ _ _ _ H Hn)].
Qed.
Print Assumptions C11_each_function_once.

(* Every map, reduce and call records the id of the function its name is bound to where it is written,
   the operands in the written order, and that id's record is the one the binding's definition left. *)
Theorem C11_map_bound : forall ρ a f s w s1,
  Inv ρ s -> eval_rhs GenScalar.G ρ (RMap a f) s = Ok (w, s1) ->
  exists fr x src id,
    assoc f ρ = Some (BFun fr) /\ assoc a ρ = Some (BWrap x) /\ wid x = Some src /\ wid w = Some id
    /\ recorded s1 id (AMap src (fn_id fr)) /\ fun_rec s1 f fr.
Proof. exact (map_site GenScalar.G). Qed.
Print Assumptions C11_map_bound.

Theorem C11_reduce_bound : forall ρ a f init s w s1,
  Inv ρ s -> eval_rhs GenScalar.G ρ (RReduce a f init) s = Ok (w, s1) ->
  exists fr x src i ini id,
    assoc f ρ = Some (BFun fr) /\ assoc a ρ = Some (BWrap x) /\ wid x = Some src
    /\ assoc init ρ = Some (BWrap i) /\ wid i = Some ini /\ wid w = Some id
    /\ recorded s1 id (AReduce src (fn_id fr) ini) /\ fun_rec s1 f fr.
Proof. exact (reduce_site GenScalar.G). Qed.
Print Assumptions C11_reduce_bound.

Theorem C11_call_bound : forall ρ f args kwargs s w s1,
  Inv ρ s -> eval_rhs GenScalar.G ρ (RCall f args kwargs) s = Ok (w, s1) ->
  exists fr ws ks all ids id,
    assoc f ρ = Some (BFun fr) /\ Forall2 (bound_to ρ) args ws /\ Forall2 (bound_to ρ) (map snd kwargs) ks
    /\ call_args fr ws (map fst kwargs) ks all
    /\ List.length all = List.length (fn_params fr)
    /\ Forall2 has_id all ids /\ wid w = Some id
    /\ recorded s1 id (ACall ids (fn_id fr)) /\ fun_rec s1 f fr.
Proof. exact (call_site GenScalar.G). Qed.
Print Assumptions C11_call_bound.

(* keyword arguments take the position of the parameter they name, after the positional ones *)
Theorem C11_keyword_arguments_by_parameter : forall params pos kw all,
  bind_partial params pos kw = Ok all ->
  exists tail, all = (pos ++ tail)%list
               /\ Forall2 (fun p w => assoc p kw = Some w)
                          (firstn (List.length tail) (skipn (List.length pos) params)) tail.
Proof. exact bind_partial_spec. Qed.
Print Assumptions C11_keyword_arguments_by_parameter.

(* The invariant [Inv] the three site theorems assume holds at every point a program reaches: it holds of
   the empty process and every statement (nested bodies included) preserves it; in particular at the end
   every function reference in the store resolves to a function record and every function record's
   arguments to its own argument records. *)
Theorem C11_invariant_everywhere : forall fuel ρ ss s ρ' s',
  Inv ρ s -> exec GenScalar.G fuel ρ ss s = Ok (ρ', s') -> Inv ρ' s'.
Proof. intros fuel ρ ss s ρ' s' HI H. destruct (exec_inv GenScalar.G fuel ρ ss s ρ' s' HI H) as [HI' _]. exact HI'. Qed.
Print Assumptions C11_invariant_everywhere.

Theorem C11_programs_consistent : forall fuel ss ρ' s',
  exec GenScalar.G fuel [] ss init_state = Ok (ρ', s') -> Inv ρ' s'.
Proof. exact (program_functions_consistent GenScalar.G). Qed.
Print Assumptions C11_programs_consistent.

(* Restrictions: a definition whose return type is a literal type (or an array), or whose parameters are all
   of literal types, never succeeds — whatever its body, the fuel and the state. *)
Theorem C11_literal_return_rejected : forall n ρ f params b body res rest s ρ' s',
  exec GenScalar.G n ρ (SDef f params (IScalar (MConst, b)) body res :: rest) s <> Ok (ρ', s').
Proof. intros. apply literal_return_rejected. Qed.
Print Assumptions C11_literal_return_rejected.

Theorem C11_literal_parameters_rejected : forall n ρ f params rt body res rest s ρ' s',
  forallb (fun p => is_const_scalar (snd p)) params = true ->
  exec GenScalar.G n ρ (SDef f params rt body res :: rest) s <> Ok (ρ', s').
Proof. intros. apply literal_parameters_rejected. assumption. Qed.
Print Assumptions C11_literal_parameters_rejected.

(* the hypotheses are satisfiable: a program with a two-parameter function used by a reduce and a call *)
Example C11_example :
  exists ρ' s', exec GenScalar.G 40 []
    [ SLet "a" (RInput "a" "P" "" (IArray (IScalar (MSecret, BInt)) (Some 3)));
      SLet "z" (RInput "z" "P" "" (IScalar (MSecret, BInt)));
      SLet "u" (RInput "u" "P" "" (IScalar (MPublic, BInt)));
      SDef "f" [("x", IScalar (MSecret, BInt)); ("k", IScalar (MPublic, BInt))] (IScalar (MSecret, BInt))
           [SLet "r" (RBin OSub "x" "k")] "r";
      SLet "q" (RReduce "a" "f" "z");
      SLet "c" (RCall "f" ["z"] [("k", "u")]) ] init_state = Ok (ρ', s')
    /\ def_recorded s' 4 "f" [("x", IScalar (MSecret, BInt)); ("k", IScalar (MPublic, BInt))] (MSecret, BInt).
Proof.
  eexists. eexists. split; [vm_compute; reflexivity|].
  eexists. eexists. split; [vm_compute; reflexivity|].
  repeat constructor; eexists; (split; [reflexivity | vm_compute; reflexivity]).
Qed.
