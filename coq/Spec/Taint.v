(* C03 (graph level): information flow over an emitted MIR.  Sources: InputReference of a
   secret type, Random.  Taint flows through every operation except the two declassifiers
   (Reveal, PublicOutputEquality), component-wise through containers (new / accessors / zip /
   unzip) and through functions (map / reduce / call: from the actual arguments, through the
   callee's body, to its return operation).  The property: every tainted scalar leaf of every
   operation's value is typed secret.  Written from the property text over the plain MIR. *)
From Coq Require Import ZArith List String Bool.
From NadaV.Model Require Import Mir.
From NadaV.Spec Require Import MirSpec.
Import ListNotations.
Open Scope string_scope.
Open Scope Z_scope.
Open Scope list_scope.

Inductive tv :=
| TLeaf (tainted : bool)
| TArrT (elt : tv)
| TTupT (l r : tv)
| TNTT (cs : list tv)
| TObjT (cs : list (string * tv)).

Definition secret_name (s : string) : bool :=
  smem s ["SecretInteger"; "SecretUnsignedInteger"; "SecretBoolean"; "EcdsaPrivateKey"; "EcdsaSignature"].

(* taint of a value of type [t] all of whose leaves have taint [f leaf-name] *)
Fixpoint tv_of_type (f : string -> bool) (t : mty) : tv :=
  match t with
  | TyName s => TLeaf (f s)
  | TyArray i _ => TArrT (tv_of_type f i)
  | TyTuple l r => TTupT (tv_of_type f l) (tv_of_type f r)
  | TyNTuple ts => TNTT (map (tv_of_type f) ts)
  | TyObject fs => TObjT (map (fun kv => (fst kv, tv_of_type f (snd kv))) fs)
  end.

Fixpoint any_taint (v : tv) : bool :=
  match v with
  | TLeaf b => b
  | TArrT e => any_taint e
  | TTupT l r => any_taint l || any_taint r
  | TNTT cs => existsb any_taint cs
  | TObjT cs => existsb (fun kv => any_taint (snd kv)) cs
  end.

Fixpoint tv_join (a b : tv) : tv :=
  match a, b with
  | TLeaf x, TLeaf y => TLeaf (x || y)
  | TArrT x, TArrT y => TArrT (tv_join x y)
  | TTupT l r, TTupT l' r' => TTupT (tv_join l l') (tv_join r r')
  | TNTT xs, TNTT ys =>
      TNTT ((fix go (xs ys : list tv) : list tv :=
               match xs, ys with
               | x :: xs', y :: ys' => tv_join x y :: go xs' ys'
               | l, [] => l
               | [], l => l
               end) xs ys)
  | TObjT xs, TObjT ys =>
      TObjT ((fix go (xs ys : list (string * tv)) : list (string * tv) :=
                match xs, ys with
                | (k, x) :: xs', (_, y) :: ys' => (k, tv_join x y) :: go xs' ys'
                | l, [] => l
                | [], l => l
                end) xs ys)
  | x, y => if any_taint y then (if any_taint x then x else y) else x     (* shape mismatch: keep a tainted one *)
  end.

(* every tainted leaf is typed secret *)
Fixpoint tv_ok (v : tv) (t : mty) : bool :=
  match v, t with
  | TLeaf b, TyName s => implb b (secret_name s)
  | TArrT e, TyArray i _ => tv_ok e i
  | TTupT l r, TyTuple tl tr => tv_ok l tl && tv_ok r tr
  | TNTT cs, TyNTuple ts =>
      (fix go (cs : list tv) (ts : list mty) : bool :=
         match cs, ts with
         | c :: cs', t' :: ts' => tv_ok c t' && go cs' ts'
         | [], _ => true
         | _, [] => negb (existsb any_taint cs)
         end) cs ts
  | TObjT cs, TyObject fs =>
      (fix go (cs : list (string * tv)) (fs : list (string * mty)) : bool :=
         match cs, fs with
         | (_, c) :: cs', (_, t') :: fs' => tv_ok c t' && go cs' fs'
         | [], _ => true
         | _, [] => negb (existsb (fun kv => any_taint (snd kv)) cs)
         end) cs fs
  | v', TyName s => implb (any_taint v') (secret_name s)     (* shape mismatch: be conservative *)
  | v', _ => negb (any_taint v')
  end.

Definition leaf_of (v : tv) : bool := any_taint v.

Definition declassifier (name : string) : bool :=
  String.eqb name "Reveal" || String.eqb name "PublicOutputEquality".

Fixpoint env_get (k : Z) (env : list (Z * tv)) : tv :=
  match env with [] => TLeaf false | (k', v) :: r => if Z.eqb k k' then v else env_get k r end.
Fixpoint ctx_get (k : string) (ctx : list (string * tv)) : tv :=
  match ctx with [] => TLeaf false | (k', v) :: r => if String.eqb k k' then v else ctx_get k r end.

Definition elt_of (v : tv) : tv := match v with TArrT e => e | other => TLeaf (any_taint other) end.

Section Eval.
Variable m : mir.

(* taint of one entry from the taints of its operands; [call] evaluates a function on argument taints *)
Definition entry_tv (call : Z -> list tv -> tv) (ctx : list (string * tv)) (env : list (Z * tv)) (e : mentry) : tv :=
  let g := fun k => env_get k env in
  match e_op e with
  | MInputRef _ => tv_of_type secret_name (e_ty e)
  | MLiteralRef _ => tv_of_type (fun _ => false) (e_ty e)
  | MRandom => TLeaf true
  | MArgRef _ p => ctx_get p ctx
  | MBinary name l r =>
      if String.eqb name "Zip" then TArrT (TTupT (elt_of (g l)) (elt_of (g r)))
      else if String.eqb name "InnerProduct" then TLeaf (any_taint (g l) || any_taint (g r))
      else if declassifier name then TLeaf false
      else TLeaf (any_taint (g l) || any_taint (g r))
  | MUnary name c =>
      if String.eqb name "Unzip" then
        match elt_of (g c) with
        | TTupT a b => TTupT (TArrT a) (TArrT b)
        | other => TTupT (TArrT other) (TArrT other)
        end
      else if declassifier name then TLeaf false
      else TLeaf (any_taint (g c))
  | MIfElse c a b => TLeaf (any_taint (g c) || any_taint (g a) || any_taint (g b))
  | MNew es =>
      match e_ty e with
      | TyArray _ _ => TArrT (fold_right (fun k acc => tv_join (g k) acc) (tv_of_type (fun _ => false) (match e_ty e with TyArray i _ => i | t => t end)) es)
      | TyTuple _ _ => match es with [a; b] => TTupT (g a) (g b) | _ => TLeaf (existsb (fun k => any_taint (g k)) es) end
      | TyNTuple _ => TNTT (map g es)
      | TyObject fs => TObjT (combine (map fst fs) (map g es))
      | TyName _ => TLeaf (existsb (fun k => any_taint (g k)) es)
      end
  | MNTupleAcc i s =>
      match g s with
      | TNTT cs => nth (Z.to_nat i) cs (TLeaf (existsb any_taint cs))
      | other => TLeaf (any_taint other)
      end
  | MObjectAcc k s =>
      match g s with
      | TObjT cs => match find (fun kv => String.eqb (fst kv) k) cs with
                    | Some kv => snd kv
                    | None => TLeaf (existsb (fun kv => any_taint (snd kv)) cs) end
      | other => TLeaf (any_taint other)
      end
  | MMap fn inner => TArrT (call fn [elt_of (g inner)])
  | MReduce fn inner initial =>
      let e1 := elt_of (g inner) in
      let r0 := call fn [g initial; e1] in
      call fn [tv_join (g initial) r0; e1]
  | MCall fn args _ => call fn (map g args)
  | MCast t _ => g t
  | MEmpty => TLeaf false
  end.

(* |t| rounds of recomputation (monotone): the least fixpoint on an acyclic table *)
Fixpoint rounds (n : nat) (call : Z -> list tv -> tv) (ctx : list (string * tv)) (t : list mentry) (env : list (Z * tv))
  : list (Z * tv) :=
  match n with
  | O => env
  | S k => rounds k call ctx t (map (fun e => (e_key e, entry_tv call ctx env e)) t)
  end.

Definition table_env (call : Z -> list tv -> tv) (ctx : list (string * tv)) (t : list mentry) : list (Z * tv) :=
  rounds (S (List.length t)) call ctx t [].

Definition table_okb (env : list (Z * tv)) (t : list mentry) : bool :=
  forallb (fun e => tv_ok (env_get (e_key e) env) (e_ty e)) t.

(* evaluate function [fid] on argument taints: (taint of its return operation, body well typed?) *)
Fixpoint fun_eval (fuel : nat) (fid : Z) (args : list tv) : tv * bool :=
  match fuel with
  | O => (TLeaf true, false)
  | S n =>
      match find_fun fid (m_functions m) with
      | None => (TLeaf true, false)
      | Some f =>
          let ctx := combine (map a_name (f_args f)) args in
          let call := fun g a => fst (fun_eval n g a) in
          let env := table_env call ctx (f_ops f) in
          let inner_ok := forallb (fun e => match fn_ref (e_op e) with
                                            | Some g => true
                                            | None => true end) (f_ops f) in
          (env_get (f_ret f) env, table_okb env (f_ops f) && inner_ok)
      end
  end.

Definition depth_fuel : nat := S (List.length (m_functions m)).

(* all call contexts reachable from a table: every map / reduce / call site with its argument taints *)
Definition sites (call : Z -> list tv -> tv) (env : list (Z * tv)) (t : list mentry) : list (Z * list tv) :=
  flat_map (fun e => let g := fun k => env_get k env in
                     match e_op e with
                     | MMap fn inner => [(fn, [elt_of (g inner)])]
                     | MReduce fn inner initial =>
                         let e1 := elt_of (g inner) in
                         let r0 := call fn [g initial; e1] in
                         [(fn, [g initial; e1]); (fn, [tv_join (g initial) r0; e1])]
                     | MCall fn args _ => [(fn, map g args)]
                     | _ => []
                     end) t.

(* check a function body under a context, and recursively the sites inside it *)
Fixpoint check_ctx (fuel : nat) (fid : Z) (args : list tv) : bool :=
  match fuel with
  | O => false
  | S n =>
      match find_fun fid (m_functions m) with
      | None => false
      | Some f =>
          let ctx := combine (map a_name (f_args f)) args in
          let call := fun g a => fst (fun_eval depth_fuel g a) in
          let env := table_env call ctx (f_ops f) in
          table_okb env (f_ops f)
          && tv_ok (env_get (f_ret f) env) (f_ret_ty f)
          && forallb (fun s => check_ctx n (fst s) (snd s)) (sites call env (f_ops f))
      end
  end.

Definition C03b : bool :=
  let call := fun g a => fst (fun_eval depth_fuel g a) in
  let env := table_env call [] (m_ops m) in
  table_okb env (m_ops m)
  && forallb (fun s => check_ctx depth_fuel (fst s) (snd s)) (sites call env (m_ops m))
  && forallb (fun o => tv_ok (env_get (o_op o) env) (o_ty o)) (m_outputs m).

End Eval.
