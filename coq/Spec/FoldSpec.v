(* C06 specification: the exact mathematical result of a literal-only operation,
   written from the property text in plain Z arithmetic (no reference to Gen). *)
From Coq Require Import ZArith List String Bool.
From NadaV.PyMini Require Import PyMini.
From NadaV.Model Require Import Rules Corr Surface.
From NadaV.Spec Require Import TypingSpec.
Import ListNotations.
Open Scope Z_scope.

Definition b2z (b : bool) : Z := if b then 1 else 0.

(* expected (result base, value); None where the text does not constrain the value *)
Definition exact2 (o : op) (bt : base) (x y : Z) : option (base * Z) :=
  match bt with
  | BBool =>
      let p := negb (x =? 0) in let q := negb (y =? 0) in
      match o with
      | OAnd => Some (BBool, b2z (p && q)) | OOr => Some (BBool, b2z (p || q))
      | OXor => Some (BBool, b2z (xorb p q))
      | OEq => Some (BBool, b2z (Bool.eqb p q)) | ONe => Some (BBool, b2z (negb (Bool.eqb p q)))
      | _ => None
      end
  | _ =>
      match o with
      | OAdd => Some (bt, x + y) | OSub => Some (bt, x - y) | OMul => Some (bt, x * y)
      | OPow => if 0 <=? y then Some (bt, x ^ y) else None
      | OLShift => if 0 <=? y then Some (bt, x * 2 ^ y) else None
      | ORShift => if 0 <=? y then Some (bt, x / 2 ^ y) else None
      | OLt => Some (BBool, b2z (x <? y)) | OGt => Some (BBool, b2z (x >? y))
      | OLe => Some (BBool, b2z (x <=? y)) | OGe => Some (BBool, b2z (x >=? y))
      | OEq => Some (BBool, b2z (x =? y)) | ONe => Some (BBool, b2z (negb (x =? y)))
      | _ => None
      end
  end.

(* unsigned literals: the property speaks of non-negative operands with a non-negative result *)
Definition in_domain (bt : base) (x y : Z) (res : Z) : bool :=
  match bt with BUInt => (0 <=? x) && (0 <=? y) && (0 <=? res) | _ => true end.

Fixpoint lookup_op (o : op) (l : list (op * icode)) : option icode :=
  match l with
  | [] => None
  | (o', c) :: r =>
      if match o, o' with
         | OAdd, OAdd | OSub, OSub | OMul, OMul | ODiv, ODiv | OMod, OMod | OPow, OPow
         | OLShift, OLShift | ORShift, ORShift | OLt, OLt | OGt, OGt | OLe, OLe | OGe, OGe
         | OEq, OEq | ONe, ONe | OAnd, OAnd | OOr, OOr | OXor, OXor => true
         | _, _ => false end
      then Some c else lookup_op o r
  end.

Definition one_ok (bt : base) (x y : Z) (oc : op * icode) : bool :=
  let '(o, c) := oc in
  match exact2 o bt x y with
  | Some (rb, v) =>
      if in_domain bt x y v then
        match c with
        | IF cls (Some z) => String.eqb cls (class_of (MConst, rb)) && (z =? v)
        | _ => false
        end
      else true
  | None => true
  end.

Definition divmod_ok (bt : base) (x y : Z) (outs : list (op * icode)) : bool :=
  match bt with
  | BBool => true
  | _ =>
      match lookup_op ODiv outs, lookup_op OMod outs with
      | Some cq, Some cr =>
          if y =? 0 then
            match cq, cr with IR _, IR _ => true | _, _ => false end
          else if negb (in_domain bt x y 0) then true
          else
            match cq, cr with
            | IF c1 (Some q), IF c2 (Some r) =>
                String.eqb c1 (class_of (MConst, bt)) && String.eqb c2 (class_of (MConst, bt))
                && (x =? q * y + r) && (Z.abs r <? Z.abs y)
            | _, _ => false
            end
      | _, _ => true
      end
  end.

Definition fold_case := (base * Z * Z * list (op * icode))%type.

Definition fold_case_ok (c : fold_case) : bool :=
  let '(bt, x, y, outs) := c in forallb (one_ok bt x y) outs && divmod_ok bt x y outs.

Definition fold_spec_violations (cs : list fold_case) : list Z :=
  indices_where (fun c => negb (fold_case_ok c)) cs 0.

(* model vs implementation on the same literal pairs *)
Definition shift_rhs (o : op) (bt : base) : base :=
  match o with OLShift | ORShift => BUInt | _ => bt end.

Definition fold_case_agrees (G : genv) (c : fold_case) : bool :=
  let '(bt, x, y, outs) := c in
  forallb (fun oc : op * icode =>
             agree (rule2v G (fst oc) (MConst, bt) (MConst, shift_rhs (fst oc) bt) x y) (snd oc)) outs.

Definition fold_mismatches (G : genv) (cs : list fold_case) : list Z :=
  indices_where (fun c => negb (fold_case_agrees G c)) cs 0.

(* the value a literal wrapper records: booleans as 0 / 1 *)
Definition lit_norm (b : base) (v : Z) : Z := match b with BBool => if Z.eqb v 0 then 0 else 1 | _ => v end.

(* ---- program level: the exact value of a literal-only expression of a surface program, through any number of
   intermediate variables (None: not literal-only, or outside what the text constrains) *)
Definition lval := option (base * Z).

Definition compat (o : op) (ba bb : base) : bool :=
  match o with
  | OLShift | ORShift => numeric ba && base_eqb bb BUInt
  | _ => base_eqb ba bb
  end.

Definition exact_bin (o : op) (ba bb : base) (x y : Z) : option (base * Z) :=
  if compat o ba bb then
    match exact2 o ba x y with
    | Some r => Some r
    | None =>
        if numeric ba then
          match o with
          | ODiv => if y =? 0 then None else Some (ba, x / y)
          | OMod => if y =? 0 then None else Some (ba, x mod y)
          | _ => None
          end
        else None
    end
  else None.

Definition lit_rhs (σ : list (string * lval)) (r : rhs) : lval :=
  match r with
  | RLit b v => Some (b, lit_norm b v)
  | RBin o a b =>
      match assoc a σ, assoc b σ with
      | Some (Some (ba, x)), Some (Some (bb, y)) => exact_bin o ba bb x y
      | _, _ => None
      end
  | RNot a => match assoc a σ with Some (Some (BBool, x)) => Some (BBool, if x =? 0 then 1 else 0) | _ => None end
  | RRAdd k a => match assoc a σ with Some (Some (b, x)) => if numeric b then Some (b, x + k) else None | _ => None end
  | _ => None
  end.

Fixpoint lit_stmts (ss : list stmt) (σ : list (string * lval)) : list (string * lval) :=
  match ss with
  | SLet x r :: rest => lit_stmts rest ((x, lit_rhs σ r) :: σ)
  | _ => σ
  end.

