(* C04 specification: a STORE-FREE denotation of a surface program as a graph of evaluation
   events (no operation ids, no global tables), and the executable check that a MIR is a
   faithful image of it: there is ONE injective map from evaluation events to MIR operation
   ids under which every output unfolds to the same operations, operand order, inputs,
   literal values, element positions / keys and functions.  Literal-only sub-expressions
   denote their exact value (Spec/FoldSpec.v arithmetic, independent of the DSL's code).
   Written from the property text; evaluated in Coq on the MIRs the implementation emits. *)
From Coq Require Import ZArith List String Bool DecimalString.
From NadaV.PyMini Require Import PyMini.
From NadaV.Model Require Import Rules Corr Mir Surface.
From NadaV.Spec Require Import TypingSpec FoldSpec MirSpec.
Import ListNotations.
Open Scope string_scope.
Open Scope Z_scope.
Open Scope list_scope.

Inductive dref := DN (l : Z) | DL (b : base) (v : Z).      (* an evaluation event, or a literal value *)

Inductive dkind :=
| KInput (name : string)
| KRandom
| KOp (name : string)
| KIfElse
| KNew
| KIndex (i : Z)
| KField (k : string)
| KMap (f : Z)                    (* the function DEFINITION event that was passed *)
| KReduce (f : Z)
| KCall (f : Z)
| KParam (f : Z) (p : string).

Record dnode := { dn_kind : dkind; dn_args : list dref }.

Inductive dty :=
| TS (t : sty)
| TArr (elt : dty)
| TTup (a b : dty)
| TNT (comps : list (dref * dty))
| TObj (comps : list (string * (dref * dty)))
| TUnknown.

Inductive dbind := BV (r : dref) (t : dty) | BF (label : Z) (ret : dty).

Record dfun := { df_label : Z; df_name : string; df_params : list string; df_ret : dref }.

Record dstate := { ds_next : Z; ds_nodes : list (Z * dnode); ds_funs : list dfun }.

Definition DM (A : Type) := dstate -> option (A * dstate).
Definition dret {A} (a : A) : DM A := fun s => Some (a, s).
Definition dfail {A} : DM A := fun _ => None.
Definition dbind_ {A B} (m : DM A) (f : A -> DM B) : DM B :=
  fun s => match m s with Some (a, s') => f a s' | None => None end.
Notation "'ddo' x <- m ; k" := (dbind_ m (fun x => k)) (at level 200, x pattern, m at level 100, k at level 200).

Definition node (k : dkind) (args : list dref) : DM dref :=
  fun s => let l := ds_next s in
           Some (DN l, {| ds_next := l + 1; ds_nodes := (l, {| dn_kind := k; dn_args := args |}) :: ds_nodes s;
                          ds_funs := ds_funs s |}).
Definition add_fun (f : dfun) : DM unit :=
  fun s => Some (tt, {| ds_next := ds_next s; ds_nodes := ds_nodes s; ds_funs := f :: ds_funs s |}).

Definition denv := list (string * dbind).

Definition getv (ρ : denv) (x : string) : DM (dref * dty) :=
  match assoc x ρ with Some (BV r t) => dret (r, t) | _ => dfail end.
Definition getf (ρ : denv) (x : string) : DM (Z * dty) :=
  match assoc x ρ with Some (BF n r) => dret (n, r) | _ => dfail end.
Fixpoint getvs (ρ : denv) (xs : list string) : DM (list (dref * dty)) :=
  match xs with
  | [] => dret []
  | x :: r => ddo v <- getv ρ x; ddo vs <- getvs ρ r; dret (v :: vs)
  end.

Fixpoint dty_of_ity (t : ity) : dty :=
  match t with IScalar s => TS s | IArray e _ => TArr (dty_of_ity e) end.

Definition principal (v : verdict) : option sty :=
  match v with MustAccept t | Free t => Some t | _ => None end.

(* a binary scalar operator / method *)
Definition dbin (o : op) (a b : dref * dty) : DM (dref * dty) :=
  match snd a, snd b with
  | TS ta, TS tb =>
      match principal (spec2 o ta tb) with
      | None => dfail
      | Some t =>
          match fst a, fst b with
          | DL ba x, DL bb y =>
              match exact2 o ba x y with
              | Some (rb, v) => dret (DL rb v, TS t)
              | None => match o with
                        | ODiv => if Z.eqb y 0 then dfail else dret (DL ba (x / y), TS t)
                        | OMod => if Z.eqb y 0 then dfail else dret (DL ba (x mod y), TS t)
                        | _ => dfail
                        end
              end
          | ra, rb => ddo r <- node (KOp (opname o)) [ra; rb]; dret (r, TS t)
          end
      end
  | _, _ => dfail
  end.

Definition nth_comp {A} (l : list A) (i : Z) : option A :=
  if i <? 0 then None else nth_error l (Z.to_nat i).

Fixpoint assoc_comp (k : string) (l : list (string * (dref * dty))) : option (dref * dty) :=
  match l with [] => None | (k', v) :: r => if String.eqb k k' then Some v else assoc_comp k r end.

Definition is_lit (r : dref) : bool := match r with DL _ _ => true | _ => false end.

(* the parameter names of an already defined function *)
Definition get_params (lab : Z) : DM (list string) :=
  fun s => match find (fun df => Z.eqb (df_label df) lab) (ds_funs s) with
           | Some df => Some (df_params df, s)
           | None => None
           end.
Fixpoint bind_kw (params : list string) (named : list (string * dref)) : option (list dref) :=
  match params with
  | [] => Some []
  | p :: rest =>
      match assoc p named, bind_kw rest named with
      | Some r, Some l => Some (r :: l)
      | _, _ => None
      end
  end.

Definition drhs (ρ : denv) (r : rhs) : DM (dref * dty) :=
  match r with
  | RLit b v => dret (DL b (match b with BBool => if Z.eqb v 0 then 0 else 1 | _ => v end), TS (MConst, b))
  | RInput name party doc t => ddo n <- node (KInput name) []; dret (n, dty_of_ity t)
  | RRandom b => ddo n <- node KRandom []; dret (n, TS (MSecret, b))
  | RBin o a b => ddo x <- getv ρ a; ddo y <- getv ρ b; dbin o x y
  | RNot a =>
      ddo x <- getv ρ a;
      match x with
      | (DL BBool v, t) => dret (DL BBool (if Z.eqb v 0 then 1 else 0), t)
      | (rx, TS t) => ddo n <- node (KOp "Not") [rx]; dret (n, TS t)
      | _ => dfail
      end
  | RToPublic a =>
      ddo x <- getv ρ a;
      match x with
      | (rx, TS (MSecret, b)) => ddo n <- node (KOp "Reveal") [rx]; dret (n, TS (MPublic, b))
      | _ => dret x
      end
  | RIfElse c a b =>
      ddo x <- getv ρ c; ddo y <- getv ρ a; ddo z <- getv ρ b;
      match snd x, snd y, snd z with
      | TS tc, TS ta, TS tb =>
          match principal (spec_ifelse tc ta tb) with
          | Some t => ddo n <- node KIfElse [fst x; fst y; fst z]; dret (n, TS t)
          | None => dfail
          end
      | _, _, _ => dfail
      end
  | RRAdd k a =>
      ddo x <- getv ρ a;
      match snd x with
      | TS (m, b) => dbin OAdd x (DL b k, TS (MConst, b))        (* k + x is x + Literal(k) *)
      | _ => dfail
      end
  | RArrayNew es =>
      ddo vs <- getvs ρ es;
      match vs with
      | [] => dfail
      | (_, t) :: _ => ddo n <- node KNew (map fst vs); dret (n, TArr t)
      end
  | RTupleNew a b => ddo x <- getv ρ a; ddo y <- getv ρ b; ddo n <- node KNew [fst x; fst y]; dret (n, TTup (snd x) (snd y))
  | RNTupleNew es => ddo vs <- getvs ρ es; ddo n <- node KNew (map fst vs); dret (n, TNT vs)
  | RObjectNew fs =>
      ddo vs <- getvs ρ (map snd fs); ddo n <- node KNew (map fst vs); dret (n, TObj (combine (map fst fs) vs))
  | RIndex a i =>
      ddo x <- getv ρ a;
      match snd x with
      | TNT comps =>
          match nth_comp comps i with
          | Some (r, t) => if is_lit r then dret (r, t) else ddo n <- node (KIndex i) [fst x]; dret (n, t)
          | None => dfail
          end
      | _ => dfail
      end
  | RField a k =>
      ddo x <- getv ρ a;
      match snd x with
      | TObj comps =>
          match assoc_comp k comps with
          | Some (r, t) => if is_lit r then dret (r, t) else ddo n <- node (KField k) [fst x]; dret (n, t)
          | None => dfail
          end
      | _ => dfail
      end
  | RMap a f => ddo x <- getv ρ a; ddo g <- getf ρ f; ddo n <- node (KMap (fst g)) [fst x]; dret (n, TArr (snd g))
  | RReduce a f i =>
      ddo x <- getv ρ a; ddo g <- getf ρ f; ddo y <- getv ρ i;
      ddo n <- node (KReduce (fst g)) [fst x; fst y]; dret (n, snd g)
  | RZip a b =>
      ddo x <- getv ρ a; ddo y <- getv ρ b;
      match snd x, snd y with
      | TArr ea, TArr eb => ddo n <- node (KOp "Zip") [fst x; fst y]; dret (n, TArr (TTup ea eb))
      | _, _ => dfail
      end
  | RUnzip a =>
      ddo x <- getv ρ a;
      match snd x with
      | TArr (TTup l r) => ddo n <- node (KOp "Unzip") [fst x]; dret (n, TTup (TArr l) (TArr r))
      | _ => dfail
      end
  | RInner a b =>
      ddo x <- getv ρ a; ddo y <- getv ρ b;
      match snd x with
      | TArr e => ddo n <- node (KOp "InnerProduct") [fst x; fst y]; dret (n, e)
      | _ => dfail
      end
  | RCall f args kwargs =>
      ddo g <- getf ρ f; ddo vs <- getvs ρ args; ddo ks <- getvs ρ (map snd kwargs);
      (* keyword arguments take the position of the parameter they name, whatever the order they are written in *)
      ddo ps <- get_params (fst g);
      match bind_kw (skipn (List.length vs) ps) (combine (map fst kwargs) (map fst ks)) with
      | Some ordered =>
          if Nat.eqb (List.length vs + List.length ks) (List.length ps)
          then ddo n <- node (KCall (fst g)) (map fst vs ++ ordered); dret (n, snd g)
          else dfail
      | None => dfail
      end
  end.

Definition fresh_label : DM Z :=
  fun s => Some (ds_next s, {| ds_next := ds_next s + 1; ds_nodes := ds_nodes s; ds_funs := ds_funs s |}).

Fixpoint dparams (f : Z) (ps : list (string * ity)) : DM denv :=
  match ps with
  | [] => dret []
  | (x, t) :: r => ddo n <- node (KParam f x) []; ddo rest <- dparams f r; dret ((x, BV n (dty_of_ity t)) :: rest)
  end.

Fixpoint dexec (fuel : nat) (ρ : denv) (ss : list stmt) {struct fuel} : DM denv :=
  match fuel with
  | O => dfail
  | S n =>
      match ss with
      | [] => dret ρ
      | SLet x r :: rest => ddo v <- drhs ρ r; dexec n ((x, BV (fst v) (snd v)) :: ρ) rest
      | SDef f params rt body res :: rest =>
          ddo lab <- fresh_label;
          ddo pe <- dparams lab params;
          ddo ρ' <- dexec n (rev pe ++ ρ) body;
          ddo r <- getv ρ' res;
          ddo _ <- add_fun {| df_label := lab; df_name := f; df_params := map fst params; df_ret := fst r |};
          dexec n ((f, BF lab (dty_of_ity rt)) :: ρ) rest
      end
  end.

Record denotation := { d_nodes : list (Z * dnode); d_funs : list dfun; d_outs : list dref }.

(* a generous bound: nested bodies are re-counted by the caller *)
Fixpoint stmts_count (fuel : nat) (ss : list stmt) : nat :=
  match fuel with
  | O => 0
  | S n => fold_right (fun s acc => match s with
                                    | SLet _ _ => S acc
                                    | SDef _ _ _ b _ => S (stmts_count n b + acc)
                                    end)%nat 1%nat ss
  end.

Definition denote (p : program) : option denotation :=
  let fuel := (stmts_count 50 (p_stmts p) + 5)%nat in
  match dexec fuel [] (p_stmts p) {| ds_next := 1; ds_nodes := []; ds_funs := [] |} with
  | Some (ρ, s) =>
      match getvs ρ (map out_var (p_outs p)) s with
      | Some (vs, s') => Some {| d_nodes := ds_nodes s'; d_funs := ds_funs s'; d_outs := map fst vs |}
      | None => None
      end
  | None => None
  end.

(* ------------------------------------------------------------ matching against a MIR *)

Fixpoint zassoc (k : Z) (l : list (Z * Z)) : option Z :=
  match l with [] => None | (k', v) :: r => if Z.eqb k k' then Some v else zassoc k r end.
Fixpoint nassoc (k : Z) (l : list (Z * dnode)) : option dnode :=
  match l with [] => None | (k', v) :: r => if Z.eqb k k' then Some v else nassoc k r end.
Fixpoint find_fun_by_name (n : string) (fs : list mfun) : option mfun :=
  match fs with [] => None | f :: r => if String.eqb (f_name f) n then Some f else find_fun_by_name n r end.

Definition lit_string (b : base) (v : Z) : string :=
  match b with
  | BBool => if Z.eqb v 0 then "False" else "True"
  | _ => NilZero.string_of_int (Z.to_int v)
  end.

Definition lam_t := (list (Z * Z) * list (Z * Z))%type.     (* events -> operation ids, function definitions -> function ids *)

(* bind the function definition [lab] to the MIR function [fid] (same name, injective) *)
Definition bind_fun_label (m : mir) (d : denotation) (fl : list (Z * Z)) (lab fid : Z) : option (list (Z * Z)) :=
  match zassoc lab fl with
  | Some fid' => if Z.eqb fid fid' then Some fl else None
  | None =>
      if existsb (fun kv => Z.eqb (snd kv) fid) fl then None
      else match find (fun df => Z.eqb (df_label df) lab) (d_funs d), find_fun fid (m_functions m) with
           | Some df, Some mf => if String.eqb (df_name df) (f_name mf) then Some ((lab, fid) :: fl) else None
           | _, _ => None
           end
  end.

(* kind of the MIR operation against the kind of the event; function-carrying kinds return the
   updated function map *)
Definition kind_matches (m : mir) (d : denotation) (fl : list (Z * Z)) (k : dkind) (nargs : nat) (o : mop)
  : option (list (Z * Z)) :=
  let ok (b : bool) := if b then Some fl else None in
  match k, o with
  | KInput n, MInputRef n' => ok (String.eqb n n')
  | KRandom, MRandom => Some fl
  | KOp n, MBinary n' _ _ => ok (String.eqb n n' && Nat.eqb nargs 2)
  | KOp n, MUnary n' _ => ok (String.eqb n n' && Nat.eqb nargs 1)
  | KIfElse, MIfElse _ _ _ => Some fl
  | KNew, MNew es => ok (Nat.eqb nargs (List.length es))
  | KIndex i, MNTupleAcc i' _ => ok (Z.eqb i i')
  | KField k1, MObjectAcc k2 _ => ok (String.eqb k1 k2)
  | KMap f, MMap fn _ => bind_fun_label m d fl f fn
  | KReduce f, MReduce fn _ _ => bind_fun_label m d fl f fn
  | KCall f, MCall fn args _ => if Nat.eqb nargs (List.length args) then bind_fun_label m d fl f fn else None
  | KParam f p, MArgRef fid p' => if String.eqb p p' then bind_fun_label m d fl f fid else None
  | _, _ => None
  end.

(* match the event graph rooted at [r] against the MIR operation [id] of table [t] *)
Fixpoint match_ref (fuel : nat) (m : mir) (d : denotation) (t : list mentry)
         (lf : lam_t) (r : dref) (id : Z) {struct fuel} : option lam_t :=
  match fuel with
  | O => None
  | S n =>
      let '(lam, fl) := lf in
      match find_entry id t with
      | None => None
      | Some e =>
          match r with
          | DL b v =>
              match e_op e with
              | MLiteralRef name =>
                  match find_literal name (m_literals m) with
                  | Some l => if String.eqb (l_value l) (lit_string b v)
                                 && mty_eqb (l_ty l) (TyName (mir_name (MConst, b))) then Some lf else None
                  | None => None
                  end
              | _ => None
              end
          | DN l =>
              match zassoc l lam with
              | Some id' => if Z.eqb id id' then Some lf else None
              | None =>
                  if existsb (fun kv => Z.eqb (snd kv) id) lam then None      (* injectivity *)
                  else
                    match nassoc l (d_nodes d) with
                    | None => None
                    | Some nd =>
                        match kind_matches m d fl (dn_kind nd) (List.length (dn_args nd)) (e_op e) with
                        | Some fl' =>
                            (fix go (args : list dref) (ids : list Z) (lf : lam_t) : option lam_t :=
                               match args, ids with
                               | [], [] => Some lf
                               | a :: args', i :: ids' =>
                                   match match_ref n m d t lf a i with
                                   | Some lf' => go args' ids' lf'
                                   | None => None
                                   end
                               | _, _ => None
                               end) (dn_args nd) (operands (e_op e)) ((l, id) :: lam, fl')
                        | None => None
                        end
                    end
              end
          end
      end
  end.

Fixpoint list_eqb_str (a b : list string) : bool :=
  match a, b with
  | [], [] => true
  | x :: a', y :: b' => String.eqb x y && list_eqb_str a' b'
  | _, _ => false
  end.

Definition match_fuel (m : mir) (d : denotation) : nat :=
  (4 * (List.length (d_nodes d) + List.length (all_tables m)) + 8)%nat.

(* match the bodies of all bound functions; matching a body may bind further functions *)
Fixpoint match_bodies (fuel : nat) (bfuel : nat) (m : mir) (d : denotation) (done : list Z) (lf : lam_t) : option lam_t :=
  match fuel with
  | O => None
  | S n =>
      match find (fun kv => negb (zmem (fst kv) done)) (snd lf) with
      | None => Some lf
      | Some (lab, fid) =>
          match find (fun df => Z.eqb (df_label df) lab) (d_funs d), find_fun fid (m_functions m) with
          | Some df, Some mf =>
              if list_eqb_str (df_params df) (map a_name (f_args mf)) then
                match match_ref bfuel m d (f_ops mf) lf (df_ret df) (f_ret mf) with
                | Some lf' => match_bodies n bfuel m d (lab :: done) lf'
                | None => None
                end
              else None
          | _, _ => None
          end
      end
  end.

Definition faithfulb (p : program) (m : mir) : bool :=
  match denote p with
  | None => false
  | Some d =>
      let fuel := match_fuel m d in
      let step := fun (acc : option lam_t) (ro : dref * moutput) =>
                    match acc with
                    | Some lf => match_ref fuel m d (m_ops m) lf (fst ro) (o_op (snd ro))
                    | None => None
                    end in
      if negb (Nat.eqb (List.length (d_outs d)) (List.length (m_outputs m))) then false
      else
        match fold_left step (combine (d_outs d) (m_outputs m)) (Some ([], [])) with
        | None => false
        | Some lf0 =>
            match match_bodies (S (List.length (d_funs d))) fuel m d [] lf0 with
            | Some lf =>
                (* every emitted function is one the program reaches *)
                forallb (fun mf => existsb (fun kv => Z.eqb (snd kv) (f_id mf)) (snd lf)) (m_functions m)
            | None => false
            end
        end
  end.
