(* C18: what it means for an audited signature to agree with a compiled program's interface.
   Written from the property text over plain data: the signature (parties, inputs, outputs as
   names), the MIR, and the list of Party / Input constructions the program performs. *)
From Coq Require Import ZArith List String Bool.
From NadaV.Model Require Import Mir.
From NadaV.Spec Require Import MirSpec.
Import ListNotations.
Open Scope string_scope.
Open Scope list_scope.

Definition trip := (string * string * string)%type.        (* name, party, type *)
Record sigr := { sg_parties : list string; sg_inputs : list trip; sg_outputs : list trip }.
Record decl := { d_parties : list string; d_inputs : list trip }.   (* what nada_main constructs, in order *)

Definition t_name (t : trip) : string := fst (fst t).
Definition t_party (t : trip) : string := snd (fst t).
Definition trip_eqb (a b : trip) : bool :=
  String.eqb (t_name a) (t_name b) && String.eqb (t_party a) (t_party b) && String.eqb (snd a) (snd b).
Definition tmem (x : trip) (l : list trip) : bool := existsb (trip_eqb x) l.
Definition tsubset (a b : list trip) : bool := forallb (fun x => tmem x b) a.
Definition tseteq (a b : list trip) : bool := tsubset a b && tsubset b a.

Fixpoint trips_eqb (a b : list trip) : bool :=
  match a, b with
  | [], [] => true
  | x :: a', y :: b' => trip_eqb x y && trips_eqb a' b'
  | _, _ => false
  end.

Definition ty_name (t : mty) : string := match t with TyName s => s | _ => "<compound>" end.

(* the MIR spells the type of a public value without a prefix: class PublicInteger is "Integer" there
   (so is the literal class Integer; the property compares secrecy types of inputs and outputs, which
   are never literals) *)
Definition mir_spelling (cls : string) : string :=
  if String.eqb cls "PublicInteger" then "Integer"
  else if String.eqb cls "PublicUnsignedInteger" then "UnsignedInteger"
  else if String.eqb cls "PublicBoolean" then "Boolean"
  else if String.eqb cls "Integer" then "<literal Integer>"
  else if String.eqb cls "Boolean" then "<literal Boolean>"
  else cls.
Definition spell (t : trip) : trip := (fst t, mir_spelling (snd t)).

(* 1. the outputs are the same (name, receiving party, secrecy type) in the same order *)
Definition outputs_agreeb (sg : sigr) (m : mir) : bool :=
  trips_eqb (map spell (sg_outputs sg)) (map (fun o => (o_name o, o_party o, ty_name (o_ty o))) (m_outputs m)).

(* 2. every input and party listed in the MIR appears in the signature with the same name, owner and type *)
Definition mir_listedb (sg : sigr) (m : mir) : bool :=
  forallb (fun i => tmem (i_name i, i_party i, ty_name (i_ty i)) (map spell (sg_inputs sg))) (m_inputs m)
  && forallb (fun p => smem (p_name p) (sg_parties sg)) (m_parties m).

(* the inputs some output depends on: input references among the operations reachable from the
   outputs (computed from the operation table, not from the MIR's own input list) *)
Definition dep_inputs (m : mir) : list string :=
  let seen := reach (reach_fuel (m_ops m)) (m_ops m) (map o_op (m_outputs m)) [] in
  input_refs (filter (fun e => zmem (e_key e) seen) (m_ops m)).

(* 3. what the signature lists beyond the MIR is exactly what the program constructs but no
      output depends on / is delivered to *)
Definition extras_exactb (d : decl) (sg : sigr) (m : mir) : bool :=
  let dep := dep_inputs m in
  let extra_in := filter (fun t => negb (smem (t_name t) (map i_name (m_inputs m)))) (sg_inputs sg) in
  let unused_in := filter (fun t => negb (smem (t_name t) dep)) (d_inputs d) in
  let used_parties := map o_party (m_outputs m) ++ map t_party (filter (fun t => smem (t_name t) dep) (d_inputs d)) in
  let extra_p := filter (fun p => negb (smem p (map p_name (m_parties m)))) (sg_parties sg) in
  let unused_p := filter (fun p => negb (smem p used_parties)) (d_parties d) in
  tseteq extra_in unused_in && sseteq extra_p unused_p.

Definition signature_agreesb (d : decl) (sg : sigr) (m : mir) : bool :=
  outputs_agreeb sg m && mir_listedb sg m && extras_exactb d sg m.

(* which clause fails (for reports): 0 = none *)
Definition which_fails (d : decl) (sg : sigr) (m : mir) : Z :=
  if negb (outputs_agreeb sg m) then 1%Z
  else if negb (mir_listedb sg m) then 2%Z
  else if negb (extras_exactb d sg m) then 3%Z else 0%Z.
