(* SNAPSHOT of the structure tables the hand-written model (Model/Trace.v, Model/Compile.v)
   was written and reviewed against.  Written by tools/mk_tables_snapshot.py; the obligations
   Gen.<table> = Tables.<table> are proved in Proofs/TableObligations.v on every run. *)
From Coq Require Import ZArith List String.
Import ListNotations.
Open Scope string_scope.

Definition ast_child_fields : list (string * string) :=  [
   ("BinaryASTOperation", "[left, right]"); 
   ("UnaryASTOperation", "[child]"); 
   ("IfElseASTOperation", "[condition, true_branch_child, false_branch_child]"); 
   ("RandomASTOperation", "[]"); 
   ("InputASTOperation", "[]"); 
   ("LiteralASTOperation", "[]"); 
   ("ReduceASTOperation", "[child, initial]"); 
   ("MapASTOperation", "[child]"); 
   ("NewASTOperation", "elements"); 
   ("NadaFunctionCallASTOperation", "args"); 
   ("NadaFunctionArgASTOperation", "[]"); 
   ("NadaFunctionASTOperation", "[]"); 
   ("CastASTOperation", "[target]"); 
   ("NTupleAccessorASTOperation", "[source]"); 
   ("ObjectAccessorASTOperation", "[source]")].

Definition ast_to_mir : list (string * (string * list (string * string) * list string)) :=  [
   ("BinaryASTOperation", ("name", [("'id'", "id"); ("'left'", "left"); ("'right'", "right"); ("'type'", "ty"); ("'source_ref_index'", "source_ref.to_index()")], [])); 
   ("UnaryASTOperation", ("name", [("'id'", "id"); ("'this'", "child"); ("'type'", "ty"); ("'source_ref_index'", "source_ref.to_index()")], [])); 
   ("IfElseASTOperation", ("'IfElse'", [("'id'", "id"); ("'this'", "condition"); ("'arg_0'", "true_branch_child"); ("'arg_1'", "false_branch_child"); ("'type'", "ty"); ("'source_ref_index'", "source_ref.to_index()")], [])); 
   ("RandomASTOperation", ("'Random'", [("'id'", "id"); ("'type'", "ty"); ("'source_ref_index'", "source_ref.to_index()")], [])); 
   ("InputASTOperation", ("'InputReference'", [("'id'", "id"); ("'refers_to'", "name"); ("'type'", "ty"); ("'source_ref_index'", "source_ref.to_index()")], [])); 
   ("LiteralASTOperation", ("'LiteralReference'", [("'id'", "id"); ("'refers_to'", "literal_index"); ("'type'", "ty"); ("'source_ref_index'", "source_ref.to_index()")], [])); 
   ("ReduceASTOperation", ("'Reduce'", [("'id'", "id"); ("'fn'", "fn"); ("'inner'", "child"); ("'initial'", "initial"); ("'type'", "ty"); ("'source_ref_index'", "source_ref.to_index()")], [])); 
   ("MapASTOperation", ("'Map'", [("'id'", "id"); ("'fn'", "fn"); ("'inner'", "child"); ("'type'", "ty"); ("'source_ref_index'", "source_ref.to_index()")], [])); 
   ("NewASTOperation", ("'New'", [("'id'", "id"); ("'elements'", "elements"); ("'type'", "ty"); ("'source_ref_index'", "source_ref.to_index()")], [])); 
   ("NadaFunctionCallASTOperation", ("'NadaFunctionCall'", [("'id'", "id"); ("'function_id'", "fn"); ("'args'", "args"); ("'type'", "ty"); ("'source_ref_index'", "source_ref.to_index()"); ("'return_type'", "ty")], [])); 
   ("NadaFunctionArgASTOperation", ("'NadaFunctionArgRef'", [("'id'", "id"); ("'function_id'", "fn"); ("'refers_to'", "name"); ("'type'", "ty"); ("'source_ref_index'", "source_ref.to_index()")], [])); 
   ("NadaFunctionASTOperation", ("<flat>", [("'id'", "id"); ("'args'", "[{'name': arg.name, 'type': arg.ty, 'source_ref_index': arg.source_ref.to_index()} for arg in arg_operations]"); ("'function'", "name"); ("'return_operation_id'", "child"); ("'operations'", "operations"); ("'return_type'", "ty"); ("'source_ref_index'", "source_ref.to_index()")], ["arg_operations: List[NadaFunctionArgASTOperation] = [AST_OPERATIONS[arg] for arg in args]"])); 
   ("CastASTOperation", ("'Cast'", [("'id'", "id"); ("'target'", "target"); ("'to'", "ty"); ("'type'", "ty"); ("'source_ref_index'", "source_ref.to_index()")], [])); 
   ("NTupleAccessorASTOperation", ("'NTupleAccessor'", [("'id'", "id"); ("'index'", "index"); ("'source'", "source"); ("'type'", "ty"); ("'source_ref_index'", "source_ref.to_index()")], [])); 
   ("ObjectAccessorASTOperation", ("'ObjectAccessor'", [("'id'", "id"); ("'key'", "key"); ("'source'", "source"); ("'type'", "ty"); ("'source_ref_index'", "source_ref.to_index()")], []))].

Definition literal_init : list string :=  [
   "id = operation_id"; 
   "name = name"; 
   "ty = ty"; 
   "value = value"; 
   "source_ref = source_ref"; 
   "literal_name = hashlib.md5((str(value) + str(ty)).encode('UTF-8')).hexdigest()"; 
   "if literal_name not in LITERALS: ;     LITERALS[literal_name] = len(LITERALS)"; 
   "literal_index = str(LITERALS[literal_name])"; 
   "super().__init__(id=id, source_ref=source_ref, ty=ty)"].

Definition next_operation_id_body : list string := ["global OPERATION_ID_COUNTER"; "OPERATION_ID_COUNTER += 1"; "return OPERATION_ID_COUNTER"].

Definition store_maps : list (string * (string * string * list (string * string))) :=  [
   ("BinaryOperation", ("AST_OPERATIONS[id]", "BinaryASTOperation", [("id", "id"); ("name", "__class__.__name__"); ("left", "left.child.id"); ("right", "right.child.id"); ("source_ref", "source_ref"); ("ty", "ty")])); 
   ("UnaryOperation", ("AST_OPERATIONS[id]", "UnaryASTOperation", [("id", "id"); ("name", "__class__.__name__"); ("child", "child.child.id"); ("source_ref", "source_ref"); ("ty", "ty")])); 
   ("Random", ("AST_OPERATIONS[id]", "RandomASTOperation", [("id", "id"); ("ty", "ty"); ("source_ref", "source_ref")])); 
   ("IfElse", ("AST_OPERATIONS[id]", "IfElseASTOperation", [("id", "id"); ("condition", "this.child.id"); ("true_branch_child", "arg_0.child.id"); ("false_branch_child", "arg_1.child.id"); ("ty", "ty"); ("source_ref", "source_ref")])); 
   ("Map", ("AST_OPERATIONS[id]", "MapASTOperation", [("id", "id"); ("child", "child.child.id"); ("fn", "fn.id"); ("source_ref", "source_ref"); ("ty", "ty")])); 
   ("Reduce", ("AST_OPERATIONS[id]", "ReduceASTOperation", [("id", "id"); ("child", "child.child.id"); ("fn", "fn.id"); ("initial", "initial.child.id"); ("source_ref", "source_ref"); ("ty", "ty")])); 
   ("NTupleAccessor", ("AST_OPERATIONS[id]", "NTupleAccessorASTOperation", [("id", "id"); ("source", "child.child.id"); ("index", "index"); ("source_ref", "source_ref"); ("ty", "ty")])); 
   ("ObjectAccessor", ("AST_OPERATIONS[id]", "ObjectAccessorASTOperation", [("id", "id"); ("source", "child.child.id"); ("key", "key"); ("source_ref", "source_ref"); ("ty", "ty")])); 
   ("Zip", ("AST_OPERATIONS[id]", "BinaryASTOperation", [("id", "id"); ("name", "'Zip'"); ("left", "left.child.id"); ("right", "right.child.id"); ("source_ref", "source_ref"); ("ty", "ty")])); 
   ("Unzip", ("AST_OPERATIONS[id]", "UnaryASTOperation", [("id", "id"); ("name", "'Unzip'"); ("child", "child.child.id"); ("source_ref", "source_ref"); ("ty", "ty")])); 
   ("InnerProduct", ("AST_OPERATIONS[id]", "BinaryASTOperation", [("id", "id"); ("name", "'InnerProduct'"); ("left", "left.child.id"); ("right", "right.child.id"); ("source_ref", "source_ref"); ("ty", "ty")])); 
   ("TupleNew", ("AST_OPERATIONS[id]", "NewASTOperation", [("id", "id"); ("name", "__class__.__name__"); ("elements", "[element.child.id for element in child]"); ("source_ref", "source_ref"); ("ty", "ty")])); 
   ("NTupleNew", ("AST_OPERATIONS[id]", "NewASTOperation", [("id", "id"); ("name", "__class__.__name__"); ("elements", "[element.child.id for element in child]"); ("source_ref", "source_ref"); ("ty", "ty")])); 
   ("ObjectNew", ("AST_OPERATIONS[id]", "NewASTOperation", [("id", "id"); ("name", "__class__.__name__"); ("elements", "[element.child.id for element in child.values()]"); ("source_ref", "source_ref"); ("ty", "ty")])); 
   ("ArrayNew", ("AST_OPERATIONS[id]", "NewASTOperation", [("id", "id"); ("name", "__class__.__name__"); ("elements", "[element.child.id for element in child]"); ("source_ref", "source_ref"); ("ty", "ty")])); 
   ("NadaFunctionArg", ("AST_OPERATIONS[id]", "NadaFunctionArgASTOperation", [("id", "id"); ("name", "name"); ("fn", "function_id"); ("ty", "ty"); ("source_ref", "source_ref")])); 
   ("NadaFunction", ("AST_OPERATIONS[id]", "NadaFunctionASTOperation", [("name", "function.__name__"); ("args", "[arg.id for arg in args]"); ("id", "id"); ("ty", "return_type.class_to_mir()"); ("source_ref", "source_ref"); ("child", "child.child.id")])); 
   ("NadaFunctionCall", ("AST_OPERATIONS[id]", "NadaFunctionCallASTOperation", [("id", "id"); ("args", "[arg.child.id for arg in args]"); ("fn", "fn.id"); ("source_ref", "source_ref"); ("ty", "ty")])); 
   ("Input", ("AST_OPERATIONS[id]", "InputASTOperation", [("id", "id"); ("name", "name"); ("ty", "ty"); ("party", "party"); ("doc", "doc"); ("source_ref", "source_ref")])); 
   ("Literal", ("AST_OPERATIONS[id]", "LiteralASTOperation", [("operation_id", "id"); ("name", "__class__.__name__"); ("ty", "ty"); ("value", "value"); ("source_ref", "source_ref")]))].

Definition alloc_inits : list (string * list string) :=  [
   ("BinaryOperation", ["id = next_operation_id()"; "left = left"; "right = right"; "source_ref = source_ref"]); 
   ("UnaryOperation", ["id = next_operation_id()"; "child = child"; "source_ref = source_ref"]); 
   ("Random", ["id = next_operation_id()"; "source_ref = source_ref"]); 
   ("IfElse", ["id = next_operation_id()"; "this = this"; "arg_0 = arg_0"; "arg_1 = arg_1"; "source_ref = source_ref"]); 
   ("Map", ["id = next_operation_id()"; "child = child"; "fn = fn"; "source_ref = source_ref"]); 
   ("Reduce", ["id = next_operation_id()"; "child = child"; "fn = fn"; "initial = initial"; "source_ref = source_ref"]); 
   ("NTupleAccessor", ["id = next_operation_id()"; "child = child"; "index = index"; "source_ref = source_ref"]); 
   ("ObjectAccessor", ["id = next_operation_id()"; "child = child"; "key = key"; "source_ref = source_ref"]); 
   ("Zip", ["id = next_operation_id()"; "left = left"; "right = right"; "source_ref = source_ref"]); 
   ("Unzip", ["id = next_operation_id()"; "child = child"; "source_ref = source_ref"]); 
   ("InnerProduct", ["id = next_operation_id()"; "left = left"; "right = right"; "source_ref = source_ref"]); 
   ("TupleNew", ["id = next_operation_id()"; "child = child"; "source_ref = source_ref"]); 
   ("NTupleNew", ["id = next_operation_id()"; "child = child"; "source_ref = source_ref"]); 
   ("ObjectNew", ["id = next_operation_id()"; "child = child"; "source_ref = source_ref"]); 
   ("ArrayNew", ["id = next_operation_id()"; "child = child"; "source_ref = source_ref"]); 
   ("NadaFunctionArg", ["id = next_operation_id()"; "function_id = function_id"; "name = name"; "type = arg_type"; "source_ref = source_ref"; "store_in_ast(arg_type.to_mir())"]); 
   ("NadaFunctionCall", ["id = next_operation_id()"; "args = args"; "fn = nada_function"; "source_ref = source_ref"; "store_in_ast(nada_function.return_type.class_to_mir())"]); 
   ("Input", ["id = next_operation_id()"; "name = name"; "party = party"; "doc = doc"; "child = None"; "source_ref = SourceRef.back_frame()"; "super().__init__(child)"]); 
   ("Literal", ["id = next_operation_id()"; "value = value"; "source_ref = source_ref"; "child = None"; "super().__init__(child)"])].

Definition cleared : list string := ["PARTIES"; "INPUTS"; "LITERALS"; "FUNCTIONS"; "SourceRef.reset_refs"].

Definition src_nada_dsl_to_nada_mir : list string :=  [
   "new_outputs = []"; 
   "PARTIES.clear()"; 
   "INPUTS.clear()"; 
   "LITERALS.clear()"; 
   "FUNCTIONS.clear()"; 
   "SourceRef.reset_refs()"; 
   "operations: Dict[int, Dict] = {}"; 
   "for output in outputs: ;     timer.start(f'nada_dsl.compiler_frontend.nada_dsl_to_nada_mir.{output.name}.process_operation') ;     try: ;         out_operation_id = output.child.child.id ;         extra_fns = traverse_and_process_operations(out_operation_id, operations, FUNCTIONS) ;         FUNCTIONS.update(extra_fns) ;     finally: ;         timer.stop(f'nada_dsl.compiler_frontend.nada_dsl_to_nada_mir.{output.name}.process_operation') ;     party = output.party ;     PARTIES[party.name] = party ;     new_outputs.append({'operation_id': out_operation_id, 'name': output.name, 'party': party.name, 'type': AST_OPERATIONS[out_operation_id].ty, 'source_ref_index': output.source_ref.to_index()})"; 
   "return {'functions': to_mir_function_list(FUNCTIONS), 'parties': to_party_list(PARTIES), 'inputs': to_input_list(INPUTS), 'literals': to_literal_list(LITERALS), 'outputs': new_outputs, 'operations': operations, 'source_files': SourceRef.get_sources(), 'source_refs': SourceRef.get_refs()}"].

Definition src_to_party_list : list string :=  [
   "return [{'name': party.name, 'source_ref_index': party.source_ref.to_index()} for party in parties.values()]"].

Definition src_to_input_list : list string :=  [
   "input_list = []"; 
   "for party_inputs in inputs.values(): ;     for program_input, program_type in party_inputs.values(): ;         input_list.append({'name': program_input.name, 'type': program_type, 'party': program_input.party.name, 'doc': program_input.doc, 'source_ref_index': program_input.source_ref.to_index()})"; 
   "return input_list"].

Definition src_to_literal_list : list string :=  [
   "literal_list = []"; 
   "for name, (value, ty) in literals.items(): ;     literal_list.append({'name': name, 'value': str(value), 'type': ty})"; 
   "return literal_list"].

Definition src_to_mir_function_list : list string :=  [
   "mir_functions = []"; 
   "stack = list(functions.values())"; 
   "while len(stack) > 0: ;     function = stack.pop() ;     function_operations = {} ;     extra_functions = traverse_and_process_operations(function.child, function_operations, functions) ;     if extra_functions: ;         stack.extend(extra_functions.values()) ;         functions.update(extra_functions) ;     mir_functions.append(function.to_mir(function_operations))"; 
   "return mir_functions"].

Definition src_add_input_to_map : list string :=  [
   "party_name = operation.party.name"; 
   "PARTIES[party_name] = operation.party"; 
   "if party_name not in INPUTS: ;     INPUTS[party_name] = {}"; 
   "for party_inputs in INPUTS.values(): ;     if operation.name in party_inputs and party_inputs[operation.name][0].id != operation.id: ;         raise CompilerException(f'Input is duplicated: {operation.name}')"; 
   "INPUTS[party_name][operation.name] = (operation, operation.ty)"; 
   "return operation.to_mir()"].

Definition src_traverse_and_process_operations : list string :=  [
   "extra_functions = {}"; 
   "stack = [operation_id]"; 
   "while len(stack) > 0: ;     operation_id = stack.pop() ;     if operation_id not in operations: ;         operation = AST_OPERATIONS[operation_id] ;         wrapped_operation = process_operation(operation, functions) ;         operations[operation_id] = wrapped_operation.mir ;         if wrapped_operation.extra_function: ;             extra_functions[wrapped_operation.extra_function.id] = wrapped_operation.extra_function ;         stack.extend(operation.child_operations())"; 
   "return extra_functions"].

Definition src_process_operation : list string :=  [
   "processed_operation = None"; 
   "if isinstance(operation, (BinaryASTOperation, UnaryASTOperation, CastASTOperation, IfElseASTOperation, NewASTOperation, RandomASTOperation, NadaFunctionArgASTOperation, NTupleAccessorASTOperation, ObjectAccessorASTOperation)): ;     processed_operation = ProcessOperationOutput(operation.to_mir(), None) ; elif isinstance(operation, InputASTOperation): ;     add_input_to_map(operation) ;     processed_operation = ProcessOperationOutput(operation.to_mir(), None) ; elif isinstance(operation, LiteralASTOperation): ;     LITERALS[operation.literal_index] = (str(operation.value), operation.ty) ;     processed_operation = ProcessOperationOutput(operation.to_mir(), None) ; elif isinstance(operation, (MapASTOperation, ReduceASTOperation, NadaFunctionCallASTOperation)): ;     extra_fn = None ;     if operation.fn not in functions: ;         extra_fn = AST_OPERATIONS[operation.fn] ;     processed_operation = ProcessOperationOutput(operation.to_mir(), extra_fn) ; elif isinstance(operation, NadaFunctionASTOperation): ;     extra_fn = None ;     if operation.id not in functions: ;         extra_fn = AST_OPERATIONS[operation.id] ;     processed_operation = ProcessOperationOutput({}, extra_fn) ; else: ;     raise CompilerException(f'Compilation of Operation {operation} is not supported')"; 
   "return processed_operation"].

Definition src_nada_compile : list string :=  [
   "compiled = nada_dsl_to_nada_mir(outputs)"; 
   "return json.dumps(compiled)"].

Definition frontend_globals : list string := ["INPUTS = SortedDict()"; "PARTIES = SortedDict()"; "FUNCTIONS: Dict[int, NadaFunctionASTOperation] = {}"; "LITERALS: Dict[str, Tuple[str, object]] = {}"].

Definition src_NadaFunctionArg_init : list string :=  [
   "self.id = next_operation_id()"; 
   "self.function_id = function_id"; 
   "self.name = name"; 
   "self.type = arg_type"; 
   "self.source_ref = source_ref"; 
   "self.store_in_ast(arg_type.to_mir())"].

Definition src_NadaFunction_init : list string :=  [
   "if issubclass(return_type, ScalarType) and return_type.mode == Mode.CONSTANT: ;     raise NotAllowedException('Nada functions with literal return types are not allowed')"; 
   "if all((issubclass(arg.type.__class__, ScalarType) and arg.type.mode == Mode.CONSTANT for arg in args)): ;     raise NotAllowedException('Nada functions with literal argument types are not allowed')"; 
   "self.child = child"; 
   "self.id = function_id"; 
   "self.args = args"; 
   "self.function = function"; 
   "self.return_type = return_type"; 
   "self.source_ref = source_ref"; 
   "self.store_in_ast()"].

Definition src_NadaFunction_call : list string :=  [
   "bound = inspect.signature(self.function).bind(*args, **kwargs)"; 
   "if bound.kwargs: ;     raise TypeError(f'{self.function.__name__}() got a value for the keyword-only parameter(s) {', '.join(bound.kwargs)}, which a Nada function call cannot bind')"; 
   "args = bound.args"; 
   "if len(args) != len(self.args): ;     raise TypeError(f'{self.function.__name__}() takes {len(self.args)} arguments but {len(args)} were given')"; 
   "return self.return_type(child=NadaFunctionCall(self, args, source_ref=SourceRef.back_frame()))"].

Definition src_NadaFunctionCall_init : list string :=  [
   "self.id = next_operation_id()"; 
   "self.args = args"; 
   "self.fn = nada_function"; 
   "self.source_ref = source_ref"; 
   "self.store_in_ast(nada_function.return_type.class_to_mir())"].

Definition src_contained_types : list string :=  [
   "origin_ty = getattr(ty, '__origin__', ty)"; 
   "if not issubclass(origin_ty, ScalarType): ;     inner_ty = getattr(ty, '__args__', None) ;     inner_ty = contained_types(inner_ty[0]) if inner_ty else T ;     return origin_ty.init_as_template_type(inner_ty)"; 
   "if origin_ty.mode == Mode.CONSTANT: ;     return origin_ty(value=0)"; 
   "return origin_ty(child=None)"].

Definition src_nada_fn : list string :=  [
   "args = inspect.getfullargspec(fn)"; 
   "nada_args = []"; 
   "function_id = next_operation_id()"; 
   "for arg in args.args: ;     arg_type = args_ty[arg] if args_ty else args.annotations[arg] ;     arg_type = contained_types(arg_type) ;     nada_arg = NadaFunctionArg(function_id, name=arg, arg_type=arg_type, source_ref=SourceRef.back_frame()) ;     nada_args.append(nada_arg)"; 
   "nada_args_type_wrapped = []"; 
   "for arg in nada_args: ;     arg_type = copy(arg.type) ;     arg_type.child = arg ;     nada_args_type_wrapped.append(arg_type)"; 
   "child = fn(*nada_args_type_wrapped)"; 
   "return_type = return_ty if return_ty else args.annotations['return']"; 
   "return NadaFunction(function_id, function=fn, args=nada_args, child=child, return_type=return_type, source_ref=SourceRef.back_frame())"].

Definition src_is_primitive_integer : list string :=  [
   "return nada_type_str in ('Integer', 'PublicInteger', 'SecretInteger', 'UnsignedInteger', 'PublicUnsignedInteger', 'SecretUnsignedInteger')"].

Definition src_generate_accessor : list string :=  [
   "ty = type(value)"; 
   "if ty.is_scalar(): ;     if ty.is_literal(): ;         return value ;     return ty(child=accessor)"; 
   "if ty == Array: ;     return Array(child=accessor, contained_type=value.contained_type, size=value.size)"; 
   "if ty == NTuple: ;     return NTuple(child=accessor, values=value.values)"; 
   "if ty == Object: ;     return Object(child=accessor, values=value.values)"; 
   "raise TypeError(f'Unsupported type for accessor: {ty}')"].

Definition src_unzip : list string :=  [
   "right_type = ArrayType(contained_type=array.contained_type.right_type, size=array.size)"; 
   "left_type = ArrayType(contained_type=array.contained_type.left_type, size=array.size)"; 
   "return Tuple(right_type=right_type, left_type=left_type, child=Unzip(child=array, source_ref=SourceRef.back_frame()))"].

Definition src_get_inner_type : list string :=  [
   "inner_type = copy.copy(inner_type)"; 
   "setattr(inner_type, 'inner', None)"; 
   "return inner_type"].

Definition src_Collection_to_mir : list string :=  [
   "if isinstance(self, (Array, ArrayType)): ;     size = {'size': self.size} if self.size is not None else {} ;     contained_type = self.retrieve_inner_type() ;     return {'Array': {'inner_type': contained_type, **size}}"; 
   "if isinstance(self, (Tuple, TupleType)): ;     return {'Tuple': {'left_type': self.left_type.to_mir() if isinstance(self.left_type, (NadaType, ArrayType, TupleType)) else self.left_type.class_to_mir(), 'right_type': self.right_type.to_mir() if isinstance(self.right_type, (NadaType, ArrayType, TupleType)) else self.right_type.class_to_mir()}}"; 
   "if isinstance(self, NTuple): ;     return {'NTuple': {'types': [ty.to_mir() if isinstance(ty, (NadaType, ArrayType, TupleType)) else ty.class_to_mir() for ty in [value for value in self.values]]}}"; 
   "if isinstance(self, Object): ;     return {'Object': {'types': {name: ty.to_mir() if isinstance(ty, (NadaType, ArrayType, TupleType)) else ty.class_to_mir() for name, ty in [(name, value) for name, value in self.values.items()]}}}"; 
   "raise InvalidTypeError(f'{self.__class__.__name__} is not a valid Nada Collection')"].

Definition src_Collection_retrieve_inner_type : list string :=  [
   "if isinstance(self.contained_type, TypeVar): ;     return 'T'"; 
   "if inspect.isclass(self.contained_type): ;     return self.contained_type.class_to_mir()"; 
   "return self.contained_type.to_mir()"].

Definition src_Array_init : list string :=  [
   "self.contained_type = contained_type if child is None or contained_type is not None else get_inner_type(child)"; 
   "if size is not None and (isinstance(size, bool) or not isinstance(size, int) or size < 0): ;     raise TypeError(f'The size of an array is a non-negative integer, not {size!r}')"; 
   "self.size = size"; 
   "self.child = child if contained_type is not None else getattr(child, 'child', None)"; 
   "if self.child is not None: ;     self.child.store_in_ast(self.to_mir())"].

Definition src_Array_iter : list string :=  [
   "raise NotAllowedException('Cannot loop over a Nada Array, use functional style Array operations (map, reduce, zip).')"].

Definition src_Array_map : list string :=  [
   "nada_function = function"; 
   "if not isinstance(function, NadaFunction): ;     nada_function = nada_fn(function)"; 
   "return Array(size=self.size, contained_type=nada_function.return_type, child=Map(child=self, fn=nada_function, source_ref=SourceRef.back_frame()))"].

Definition src_Array_reduce : list string :=  [
   "if not isinstance(function, NadaFunction): ;     function = nada_fn(function)"; 
   "return function.return_type(Reduce(child=self, fn=function, initial=initial, source_ref=SourceRef.back_frame()))"].

Definition src_Array_zip : list string :=  [
   "if self.size != other.size: ;     raise IncompatibleTypesError('Cannot zip arrays of different size')"; 
   "return Array(size=self.size, contained_type=Tuple(left_type=self.contained_type, right_type=other.contained_type, child=None), child=Zip(left=self, right=other, source_ref=SourceRef.back_frame()))"].

Definition src_Array_inner_product : list string :=  [
   "if self.size != other.size: ;     raise IncompatibleTypesError('Cannot do child product of arrays of different size')"; 
   "if is_primitive_integer(self.retrieve_inner_type()) and is_primitive_integer(other.retrieve_inner_type()): ;     left_type = self.contained_type if inspect.isclass(self.contained_type) else self.contained_type.__class__ ;     right_type = other.contained_type if inspect.isclass(other.contained_type) else other.contained_type.__class__ ;     mode = Mode(max(left_type.mode.value, right_type.mode.value)) ;     contained_type = new_scalar_type(mode, left_type.base_type) ;     return contained_type(child=InnerProduct(left=self, right=other, source_ref=SourceRef.back_frame()))"; 
   "raise InvalidTypeError('Inner product is only implemented for arrays of integer types')"].

Definition src_Array_new : list string :=  [
   "if len(args) == 0: ;     raise ValueError('At least one value is required')"; 
   "first_arg = args[0]"; 
   "if not all((isinstance(arg, type(first_arg)) and arg.to_mir() == first_arg.to_mir() for arg in args)): ;     raise TypeError('All arguments must be of the same type')"; 
   "return Array(contained_type=first_arg, size=len(args), child=ArrayNew(child=args, source_ref=SourceRef.back_frame()))"].

Definition src_Array_init_as_template_type : list string :=  [
   "return Array(child=None, contained_type=contained_type, size=None)"].

Definition src_Tuple_init : list string :=  [
   "self.left_type = left_type"; 
   "self.right_type = right_type"; 
   "self.child = child"; 
   "super().__init__(self.child)"].

Definition src_Tuple_new : list string :=  [
   "return Tuple(left_type=left_type, right_type=right_type, child=TupleNew(child=(left_type, right_type), source_ref=SourceRef.back_frame()))"].

Definition src_NTuple_init : list string :=  [
   "self.values = values"; 
   "self.child = child"; 
   "super().__init__(self.child)"].

Definition src_NTuple_new : list string :=  [
   "values = list(values)"; 
   "return NTuple(values=values, child=NTupleNew(child=values, source_ref=SourceRef.back_frame()))"].

Definition src_NTuple_getitem : list string :=  [
   "if not isinstance(index, int): ;     raise TypeError(f'NTuple indices must be integers, not {type(index).__name__}')"; 
   "index = int(index)"; 
   "if index < 0 or index >= len(self.values): ;     raise IndexError(f'Invalid index {index} for NTuple.')"; 
   "accessor = NTupleAccessor(index=index, child=self, source_ref=SourceRef.back_frame())"; 
   "return _generate_accessor(self.values[index], accessor)"].

Definition src_Object_init : list string :=  [
   "self.values = values"; 
   "self.child = child"; 
   "super().__init__(self.child)"].

Definition src_Object_new : list string :=  [
   "values = dict(values)"; 
   "return Object(values=values, child=ObjectNew(child=values, source_ref=SourceRef.back_frame()))"].

Definition src_Object_getattr : list string :=  [
   "if attr not in self.values: ;     raise AttributeError(f""'{self.__class__.__name__}' object has no attribute '{attr}'"")"; 
   "accessor = ObjectAccessor(key=attr, child=self, source_ref=SourceRef.back_frame())"; 
   "return _generate_accessor(self.values[attr], accessor)"].

Definition src_ArrayType_to_mir : list string :=  [
   "return {'Array': {'inner_type': self.contained_type.to_mir(), 'size': self.size}}"].

Definition src_TupleType_to_mir : list string :=  [
   "return {'Tuple': {'left_type': self.left_type.to_mir(), 'right_type': self.right_type.to_mir()}}"].

Definition src_Input_init : list string :=  [
   "self.id = next_operation_id()"; 
   "self.name = name"; 
   "self.party = party"; 
   "self.doc = doc"; 
   "self.child = None"; 
   "self.source_ref = SourceRef.back_frame()"; 
   "super().__init__(self.child)"].

Definition src_Literal_init : list string :=  [
   "self.id = next_operation_id()"; 
   "self.value = value"; 
   "self.source_ref = source_ref"; 
   "self.child = None"; 
   "super().__init__(self.child)"].

Definition src_Output_init : list string :=  [
   "self.source_ref = SourceRef.back_frame()"; 
   "if not issubclass(type(child), NadaType): ;     raise InvalidTypeError(f""{self.source_ref.file}:{self.source_ref.lineno}: Output value {child} of type {type(child)} is not a Nada type so it isn't a valid output"")"; 
   "self.child = child"; 
   "self.name = name"; 
   "self.party = party"].

Definition src_NadaType_init : list string :=  [
   "self.child = child"; 
   "if self.child is not None: ;     self.child.store_in_ast(self.to_mir())"].

Definition src_NadaType_to_mir : list string :=  [
   "return self.__class__.class_to_mir()"].

Definition src_NadaType_class_to_mir : list string :=  [
   "name = cls.__name__"; 
   "if name.startswith('Public'): ;     name = name[len('Public'):].lstrip()"; 
   "return name"].

Definition src_NadaType_bool : list string :=  [
   "raise NotImplementedError"].

Definition src_compile_script : list string :=  [
   "script_dir = os.path.dirname(script_path)"; 
   "path_before = list(sys.path)"; 
   "sys.path.insert(0, script_dir)"; 
   "loaded_before = set(sys.modules)"; 
   "try: ;     return _compile_script(script_path) ; finally: ;     if script_dir in sys.path: ;         sys.path.remove(script_dir) ;     added = [entry for entry in sys.path if entry not in path_before] ;     own_dirs = {os.path.abspath(entry) for entry in added} ;     own_dirs.add(os.path.abspath(script_dir)) ;     loaded = set(sys.modules) - loaded_before ;     own = {name for name in loaded if '.' not in name and any((_found_in(sys.modules[name], own_dir) for own_dir in own_dirs))} ;     for name in loaded: ;         if name.split('.')[0] in own: ;             del sys.modules[name] ;     for entry in added: ;         sys.path.remove(entry)"].

Definition src_compile_string : list string :=  [
   "decoded_program = base64.b64decode(script).decode('utf-8-sig')"; 
   "temp_name = 'temp_program'"; 
   "spec = importlib.util.spec_from_loader(temp_name, loader=None)"; 
   "module = importlib.util.module_from_spec(spec)"; 
   "exec(decoded_program, module.__dict__)"; 
   "sys.modules[temp_name] = module"; 
   "globals()[temp_name] = module"; 
   "outputs = module.nada_main()"; 
   "compile_output = nada_compile(outputs)"; 
   "return CompilerOutput(compile_output)"].

Definition src_print_output : list string :=  [
   "output_json = {'result': 'Success', 'mir': out.mir}"; 
   "print(json.dumps(output_json))"].

Definition src_compile_main : list string :=  [
   "try: ;     if os.environ.get('NADA_TIMER'): ;         timer.enable() ;     args_length = len(sys.argv) ;     if args_length < 2: ;         raise MissingProgramArgumentError('expected program as argument') ;     if args_length == 2: ;         output = compile_script(sys.argv[1]) ;         print_output(output) ;     if args_length == 3 and sys.argv[1] == '-s': ;         output = compile_string(sys.argv[2]) ;         print_output(output) ; except Exception as ex: ;     output = {'result': 'Failure', 'reason': str(ex), 'traceback': str(traceback.format_exc())} ;     print(json.dumps(output)) ; finally: ;     if timer.is_enabled(): ;         with open('nada-timers.json', 'w', encoding='utf-8') as fd: ;             json.dump(timer.report(), fd)"].

Definition src_Clock_start : list string :=  [].

Definition src_Clock_stop : list string :=  [].

Definition src_Clock_report : list string :=  [
   "return {}"].

Definition src_DefaultClock_init : list string :=  [
   "self.timers = {}"; 
   "self.running = {}"].

Definition src_DefaultClock_start : list string :=  [
   "if timer_name in self.running: ;     raise TimerError(f'timer {timer_name} already running.')"; 
   "self.running[timer_name] = time.perf_counter()"].

Definition src_DefaultClock_stop : list string :=  [
   "if timer_name not in self.running: ;     raise TimerError(f'timer {timer_name} is not running, use start() to start it.')"; 
   "self.timers[timer_name] = time.perf_counter() - self.running.pop(timer_name)"].

Definition src_DefaultClock_report : list string :=  [
   "return self.timers"].

Definition src_Timer_init : list string :=  [
   "self.clock = Clock()"].

Definition src_Timer_enable : list string :=  [
   "self.clock = DefaultClock()"].

Definition src_Timer_is_enabled : list string :=  [
   "return isinstance(self.clock, DefaultClock)"].

Definition src_Timer_start : list string :=  [
   "self.clock.start(timer_name)"].

Definition src_Timer_stop : list string :=  [
   "self.clock.stop(timer_name)"].

Definition src_Timer_report : list string :=  [
   "return self.clock.report()"].

Definition bf_hops : Z := (2)%Z.
Definition bf_walks : bool := true.
Definition bf_walk_pred : string := "_in_package(backend_frame.f_code.co_filename)".
Definition sr_private_helpers : list string := ["_SOURCE_PATHS = {}"; "_PACKAGE_DIR = os.path.dirname(os.path.abspath(__file__))"; "def _in_package(filename: str) -> bool: ;     """"""Returns True for the source files of the nada_dsl package itself."""""" ;     return os.path.abspath(filename).startswith(_PACKAGE_DIR + os.sep)"].
Definition sr_reset_clears : list string := ["REFS"; "index_map"; "next_index"].
Definition sr_sources_filtered : bool := true.
Definition sr_cache_checks_path : bool := true.
Definition bf_rest : list string := ["lineno = backend_frame.f_lineno"; "offset, length = SourceRef.try_get_line_info(backend_frame, lineno)"; "return cls(lineno=lineno, offset=offset, file=os.path.basename(backend_frame.f_code.co_filename), length=length)"].

Definition li_split : string := "src.split('\n')".
Definition li_guard_le : bool := true.
Definition li_range_minus : Z := (1)%Z.
Definition li_plus : Z := (1)%Z.
Definition li_index_minus : Z := (1)%Z.
Definition li_pre : list string := ["if _in_package(backend_frame.f_code.co_filename): ;     return (0, 0)"; "path = backend_frame.f_code.co_filename"; "filename = os.path.basename(path)"; "src = None"; "try: ;     stat = os.stat(path) ;     stamp = (path, stat.st_mtime_ns, stat.st_size) ;     if filename not in USED_SOURCES or _SOURCE_PATHS.get(filename) != stamp: ;         with tokenize.open(path) as file: ;             src = file.read() ;         USED_SOURCES[filename] = src ;         _SOURCE_PATHS[filename] = stamp ;     else: ;         src = USED_SOURCES[filename] ; except (OSError, SyntaxError, UnicodeDecodeError): ;     return (0, 0)"].
Definition li_tail : list string := ["return (0, 0)"].

Definition back_frame_sites : list (string * string * Z) :=  [("nada_dsl/nada_types/__init__.py", "__init__", (1)%Z); ("nada_dsl/nada_types/collections.py", "__getattr__", (1)%Z); ("nada_dsl/nada_types/collections.py", "__getitem__", (1)%Z); ("nada_dsl/nada_types/collections.py", "inner_product", (1)%Z); ("nada_dsl/nada_types/collections.py", "map", (1)%Z); ("nada_dsl/nada_types/collections.py", "new", (1)%Z); ("nada_dsl/nada_types/collections.py", "new", (1)%Z); ("nada_dsl/nada_types/collections.py", "new", (1)%Z); ("nada_dsl/nada_types/collections.py", "new", (1)%Z); ("nada_dsl/nada_types/collections.py", "reduce", (1)%Z); ("nada_dsl/nada_types/collections.py", "unzip", (1)%Z); ("nada_dsl/nada_types/collections.py", "zip", (1)%Z); ("nada_dsl/nada_types/function.py", "__call__", (1)%Z); ("nada_dsl/nada_types/function.py", "nada_fn", (1)%Z); ("nada_dsl/nada_types/function.py", "nada_fn", (1)%Z); ("nada_dsl/nada_types/scalar_types.py", "__init__", (1)%Z); ("nada_dsl/nada_types/scalar_types.py", "__init__", (1)%Z); ("nada_dsl/nada_types/scalar_types.py", "__init__", (1)%Z); ("nada_dsl/nada_types/scalar_types.py", "__invert__", (1)%Z); ("nada_dsl/nada_types/scalar_types.py", "__invert__", (1)%Z); ("nada_dsl/nada_types/scalar_types.py", "__pow__", (1)%Z); ("nada_dsl/nada_types/scalar_types.py", "binary_arithmetic_operation", (2)%Z); ("nada_dsl/nada_types/scalar_types.py", "binary_logical_operation", (2)%Z); ("nada_dsl/nada_types/scalar_types.py", "binary_logical_operation", (2)%Z); ("nada_dsl/nada_types/scalar_types.py", "binary_relational_operation", (2)%Z); ("nada_dsl/nada_types/scalar_types.py", "ecdsa_sign", (1)%Z); ("nada_dsl/nada_types/scalar_types.py", "equals_operation", (2)%Z); ("nada_dsl/nada_types/scalar_types.py", "equals_operation", (2)%Z); ("nada_dsl/nada_types/scalar_types.py", "if_else", (1)%Z); ("nada_dsl/nada_types/scalar_types.py", "public_equals_operation", (2)%Z); ("nada_dsl/nada_types/scalar_types.py", "random", (1)%Z); ("nada_dsl/nada_types/scalar_types.py", "random", (1)%Z); ("nada_dsl/nada_types/scalar_types.py", "random", (1)%Z); ("nada_dsl/nada_types/scalar_types.py", "shift_operation", (2)%Z); ("nada_dsl/nada_types/scalar_types.py", "to_public", (1)%Z); ("nada_dsl/nada_types/scalar_types.py", "to_public", (1)%Z); ("nada_dsl/nada_types/scalar_types.py", "to_public", (1)%Z); ("nada_dsl/nada_types/scalar_types.py", "trunc_pr", (1)%Z); ("nada_dsl/nada_types/scalar_types.py", "trunc_pr", (1)%Z); ("nada_dsl/nada_types/scalar_types.py", "trunc_pr", (1)%Z); ("nada_dsl/nada_types/scalar_types.py", "trunc_pr", (1)%Z); ("nada_dsl/program_io.py", "__init__", (1)%Z); ("nada_dsl/program_io.py", "__init__", (1)%Z)].
