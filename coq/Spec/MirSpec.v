(* Executable statements of the MIR-level properties (C01, C05, C09), written from the
   property texts over the plain MIR data type.  They are evaluated in Coq on the MIRs the
   implementation emits (translation validation) and are the conclusions of the theorems
   about the model compiler. *)
From Coq Require Import ZArith List String Bool.
From NadaV.Model Require Import Mir.
Import ListNotations.
Open Scope string_scope.
Open Scope Z_scope.

Definition count_fun (k : Z) (fs : list mfun) : nat := List.length (filter (fun f => Z.eqb (f_id f) k) fs).
Definition count_str (s : string) (l : list string) : nat := List.length (filter (String.eqb s) l).

(* ------------------------------------------------------------------ C01 *)

Definition entry_closedb (m : mir) (own : option mfun) (t : list mentry) (e : mentry) : bool :=
  Z.eqb (e_key e) (e_id e)
  && Nat.eqb (count_key (e_key e) t) 1
  && forallb (fun o => Nat.eqb (count_key o t) 1) (operands (e_op e))
  && match fn_ref (e_op e) with
     | Some f => Nat.eqb (count_fun f (m_functions m)) 1
     | None => true
     end
  && match e_op e with
     | MInputRef n => Nat.eqb (count_str n (map i_name (m_inputs m))) 1
     | MLiteralRef n => Nat.eqb (count_str n (map l_name (m_literals m))) 1
     | MArgRef fid n =>
         match own with
         | Some f => Z.eqb fid (f_id f) && Nat.eqb (count_str n (map a_name (f_args f))) 1
         | None => false                       (* an argument reference outside any function *)
         end
     | MEmpty => false
     | _ => true
     end.

Definition table_closedb (m : mir) (own : option mfun) (t : list mentry) : bool :=
  forallb (entry_closedb m own t) t.

(* acyclicity of operand references: Kahn's elimination, |t|+1 rounds *)
Fixpoint kahn (rounds : nat) (t : list mentry) (done : list Z) : list Z :=
  match rounds with
  | O => done
  | S r =>
      let ready := filter (fun e => negb (zmem (e_key e) done)
                                    && forallb (fun o => zmem o done) (operands (e_op e))) t in
      match ready with
      | [] => done
      | _ => kahn r t (map e_key ready ++ done)
      end
  end.

Definition acyclicb (t : list mentry) : bool :=
  let done := kahn (S (List.length t)) t [] in
  forallb (fun e => zmem (e_key e) done) t.

Definition C01b (m : mir) : bool :=
  table_closedb m None (m_ops m) && acyclicb (m_ops m)
  && forallb (fun o => Nat.eqb (count_key (o_op o) (m_ops m)) 1) (m_outputs m)
  && forallb (fun f => table_closedb m (Some f) (f_ops f) && acyclicb (f_ops f)
                       && Nat.eqb (count_key (f_ret f) (f_ops f)) 1) (m_functions m)
  && znodup (map f_id (m_functions m)).

(* the scoping clause alone (used to key the known finding) *)
Definition arg_scopedb (m : mir) : bool :=
  forallb (fun e => match e_op e with MArgRef _ _ => false | _ => true end) (m_ops m)
  && forallb (fun f => forallb (fun e => match e_op e with
                                         | MArgRef fid n => Z.eqb fid (f_id f) && smem n (map a_name (f_args f))
                                         | _ => true end) (f_ops f)) (m_functions m).

(* ------------------------------------------------------------------ C09 *)

Fixpoint reach (fuel : nat) (t : list mentry) (stack : list Z) (seen : list Z) : list Z :=
  match fuel with
  | O => seen
  | S n =>
      match stack with
      | [] => seen
      | k :: rest =>
          if zmem k seen then reach n t rest seen
          else match find_entry k t with
               | Some e => reach n t (operands (e_op e) ++ rest) (k :: seen)
               | None => reach n t rest (k :: seen)
               end
      end
  end.

Definition reach_fuel (t : list mentry) : nat :=
  S (List.length t + fold_right (fun e acc => (List.length (operands (e_op e)) + acc)%nat) O t) * 2.

Definition ops_exactb (t : list mentry) (roots : list Z) : bool :=
  znodup (map e_key t) && zseteq (map e_key t) (reach (reach_fuel t + List.length roots) t roots []).

Definition fn_refs (t : list mentry) : list Z :=
  flat_map (fun e => match fn_ref (e_op e) with Some f => [f] | None => [] end) t.

Fixpoint reach_funs (fuel : nat) (fs : list mfun) (stack : list Z) (seen : list Z) : list Z :=
  match fuel with
  | O => seen
  | S n =>
      match stack with
      | [] => seen
      | k :: rest =>
          if zmem k seen then reach_funs n fs rest seen
          else match find_fun k fs with
               | Some f => reach_funs n fs (fn_refs (f_ops f) ++ rest) (k :: seen)
               | None => reach_funs n fs rest (k :: seen)
               end
      end
  end.

Definition all_tables (m : mir) : list mentry := m_ops m ++ flat_map f_ops (m_functions m).

Definition input_refs (t : list mentry) : list string :=
  flat_map (fun e => match e_op e with MInputRef n => [n] | _ => [] end) t.
Definition literal_refs (t : list mentry) : list string :=
  flat_map (fun e => match e_op e with MLiteralRef n => [n] | _ => [] end) t.

Fixpoint find_literal (n : string) (l : list mliteral) : option mliteral :=
  match l with [] => None | x :: r => if String.eqb (l_name x) n then Some x else find_literal n r end.
Fixpoint find_input (n : string) (l : list minput) : option minput :=
  match l with [] => None | x :: r => if String.eqb (i_name x) n then Some x else find_input n r end.

Fixpoint lit_pairs_nodup (l : list mliteral) : bool :=
  match l with
  | [] => true
  | x :: r => negb (existsb (fun y => String.eqb (l_value x) (l_value y) && mty_eqb (l_ty x) (l_ty y)) r)
              && lit_pairs_nodup r
  end.

Definition C09b (m : mir) : bool :=
  let fs := m_functions m in
  let total := (List.length (all_tables m) + List.length fs + 1)%nat in
  ops_exactb (m_ops m) (map o_op (m_outputs m))
  && forallb (fun f => ops_exactb (f_ops f) [f_ret f]) fs
  && znodup (map f_id fs)
  && zseteq (map f_id fs) (reach_funs (total * 2) fs (fn_refs (m_ops m)) [])
  && snodup (map i_name (m_inputs m))
  && sseteq (map i_name (m_inputs m)) (input_refs (all_tables m))
  && snodup (map l_name (m_literals m))
  && sseteq (map l_name (m_literals m)) (literal_refs (all_tables m))
  && lit_pairs_nodup (m_literals m)
  && snodup (map p_name (m_parties m))
  && sseteq (map p_name (m_parties m)) (map i_party (m_inputs m) ++ map o_party (m_outputs m))
  && forallb (fun e => match e_op e with
                       | MLiteralRef n => match find_literal n (m_literals m) with
                                          | Some l => mty_eqb (l_ty l) (e_ty e)
                                          | None => false end
                       | _ => true end) (all_tables m).

(* ------------------------------------------------------------------ C05 *)

Definition scalar_names : list string :=
  ["Integer"; "UnsignedInteger"; "Boolean"; "SecretInteger"; "SecretUnsignedInteger"; "SecretBoolean";
   "EcdsaPrivateKey"; "EcdsaDigestMessage"; "EcdsaSignature"].

Fixpoint completeb (t : mty) : bool :=
  match t with
  | TyName s => smem s scalar_names
  | TyArray i (Some n) => completeb i && (0 <=? n)
  | TyArray _ None => false
  | TyTuple l r => completeb l && completeb r
  | TyNTuple ts => forallb completeb ts
  | TyObject fs => forallb (fun kv => completeb (snd kv)) fs && snodup (map fst fs)
  end.

Definition ty_of (t : list mentry) (k : Z) : option mty := option_map e_ty (find_entry k t).

Fixpoint assoc_ty (k : string) (l : list (string * mty)) : option mty :=
  match l with [] => None | (k', v) :: r => if String.eqb k k' then Some v else assoc_ty k r end.

Definition opt_ty_eqb (a : option mty) (b : mty) : bool :=
  match a with Some x => mty_eqb x b | None => false end.

Fixpoint tys_eqb (a : list (option mty)) (b : list mty) : bool :=
  match a, b with
  | [], [] => true
  | x :: a', y :: b' => opt_ty_eqb x y && tys_eqb a' b'
  | _, _ => false
  end.

Definition edge_okb (m : mir) (t : list mentry) (e : mentry) : bool :=
  let ty := e_ty e in
  match e_op e with
  | MMap fn inner =>
      match find_fun fn (m_functions m), ty_of t inner with
      | Some f, Some (TyArray elt n) =>
          mty_eqb ty (TyArray (f_ret_ty f) n)
          && match f_args f with [a] => mty_eqb (a_ty a) elt | _ => false end
      | _, _ => false
      end
  | MReduce fn inner initial =>
      match find_fun fn (m_functions m), ty_of t inner, ty_of t initial with
      | Some f, Some (TyArray elt _), Some ti =>
          mty_eqb ty (f_ret_ty f)
          && match f_args f with [a; b] => mty_eqb (a_ty a) ti && mty_eqb (a_ty b) elt | _ => false end
      | _, _, _ => false
      end
  | MCall fn args rt =>
      match find_fun fn (m_functions m) with
      | Some f => mty_eqb ty (f_ret_ty f) && mty_eqb rt (f_ret_ty f)
                  && tys_eqb (map (ty_of t) args) (map a_ty (f_args f))
      | None => false
      end
  | MBinary "Zip" l r =>
      match ty_of t l, ty_of t r with
      | Some (TyArray a n), Some (TyArray b n') =>
          mty_eqb ty (TyArray (TyTuple a b) n)
          && match n, n' with Some x, Some y => Z.eqb x y | _, _ => false end
      | _, _ => false
      end
  | MUnary "Unzip" c =>
      match ty_of t c with
      | Some (TyArray (TyTuple a b) n) => mty_eqb ty (TyTuple (TyArray a n) (TyArray b n))
      | _ => false
      end
  | MBinary "InnerProduct" l r =>
      match ty_of t l, ty_of t r with
      | Some (TyArray a n), Some (TyArray b n') =>
          match n, n' with Some x, Some y => Z.eqb x y | _, _ => false end
      | _, _ => false
      end
  | MNew es =>
      match ty with
      | TyArray elt n => forallb (fun x => opt_ty_eqb (ty_of t x) elt) es
                         && match n with Some k => Z.eqb k (Z.of_nat (List.length es)) | None => false end
      | TyTuple a b => tys_eqb (map (ty_of t) es) [a; b]
      | TyNTuple ts => tys_eqb (map (ty_of t) es) ts
      | TyObject fs => tys_eqb (map (ty_of t) es) (map snd fs)
      | TyName _ => false
      end
  | MNTupleAcc i s =>
      match ty_of t s with
      | Some (TyNTuple ts) => (0 <=? i) && (i <? Z.of_nat (List.length ts))
                              && mty_eqb ty (nth (Z.to_nat i) ts (TyName "?"))
      | _ => false
      end
  | MObjectAcc k s =>
      match ty_of t s with
      | Some (TyObject fs) => opt_ty_eqb (assoc_ty k fs) ty
      | _ => false
      end
  | MInputRef n => match find_input n (m_inputs m) with Some i => mty_eqb (i_ty i) ty | None => false end
  | _ => true
  end.

Definition table_typesb (m : mir) (t : list mentry) : bool :=
  forallb (fun e => completeb (e_ty e) && edge_okb m t e) t.

Definition fun_typesb (m : mir) (f : mfun) : bool :=
  table_typesb m (f_ops f)
  && completeb (f_ret_ty f) && forallb (fun a => completeb (a_ty a)) (f_args f)
  && opt_ty_eqb (ty_of (f_ops f) (f_ret f)) (f_ret_ty f)
  && forallb (fun e => match e_op e with
                       | MArgRef _ n => match find (fun a => String.eqb (a_name a) n) (f_args f) with
                                        | Some a => mty_eqb (a_ty a) (e_ty e)
                                        | None => false end
                       | _ => true end) (f_ops f).

Definition C05b (m : mir) : bool :=
  table_typesb m (m_ops m)
  && forallb (fun_typesb m) (m_functions m)
  && forallb (fun o => completeb (o_ty o) && opt_ty_eqb (ty_of (m_ops m) (o_op o)) (o_ty o)) (m_outputs m)
  && forallb (fun i => completeb (i_ty i)) (m_inputs m)
  && forallb (fun l => completeb (l_ty l)) (m_literals m).

(* per-entry diagnosis helpers: first offending entry key, for replay files *)
Definition first_bad {A} (f : A -> bool) (l : list A) : option A := find (fun x => negb (f x)) l.

(* C01 without the argument-scoping clause (to separate the known scoping finding) *)
Definition entry_closedb_noscope (m : mir) (t : list mentry) (e : mentry) : bool :=
  Z.eqb (e_key e) (e_id e)
  && Nat.eqb (count_key (e_key e) t) 1
  && forallb (fun o => Nat.eqb (count_key o t) 1) (operands (e_op e))
  && match fn_ref (e_op e) with
     | Some f => Nat.eqb (count_fun f (m_functions m)) 1
     | None => true
     end
  && match e_op e with
     | MInputRef n => Nat.eqb (count_str n (map i_name (m_inputs m))) 1
     | MLiteralRef n => Nat.eqb (count_str n (map l_name (m_literals m))) 1
     | MEmpty => false
     | _ => true
     end.
Definition C01b_noscope (m : mir) : bool :=
  forallb (entry_closedb_noscope m (m_ops m)) (m_ops m) && acyclicb (m_ops m)
  && forallb (fun o => Nat.eqb (count_key (o_op o) (m_ops m)) 1) (m_outputs m)
  && forallb (fun f => forallb (entry_closedb_noscope m (f_ops f)) (f_ops f) && acyclicb (f_ops f)
                       && Nat.eqb (count_key (f_ret f) (f_ops f)) 1) (m_functions m)
  && znodup (map f_id (m_functions m)).
