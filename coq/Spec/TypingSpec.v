(* The Nada scalar typing rules, written from the text of properties C02/C03/C06
   (no reference to the generated code).  A three-valued table:
   MustAccept t | MustReject | Free t  (text silent: may reject, but if accepted the
   result must be the principal type t). *)
From Coq Require Import ZArith List String Bool.
From NadaV.PyMini Require Import PyMini.
From NadaV.Model Require Import Rules.
Import ListNotations.
Open Scope string_scope.

Inductive verdict := MustAccept (t : sty) | MustReject | Free (t : sty) | MustSame.

Definition numeric (b : base) : bool := match b with BBool => false | _ => true end.
Definition secret (t : sty) : bool := mode_eqb (fst t) MSecret.
Definition literal (t : sty) : bool := mode_eqb (fst t) MConst.

Definition spec2 (o : op) (l r : sty) : verdict :=
  let '(ml, bl) := l in
  let '(mr, br) := r in
  let mx := mode_max ml mr in
  match o with
  | OAdd | OSub | OMul | ODiv | OMod =>
      if base_eqb bl br && numeric bl then MustAccept (mx, bl) else MustReject
  | OPow =>
      if negb (base_eqb bl br && numeric bl) then MustReject
      else if mode_eqb mr MSecret then MustReject            (* secret exponent *)
      else if mode_eqb ml MSecret then Free (mx, bl)         (* secret base: text silent *)
      else MustAccept (mx, bl)
  | OLShift | ORShift =>
      if negb (numeric bl) then MustReject                   (* arithmetic on booleans *)
      else if negb (base_eqb br BUInt) then MustReject       (* signed / boolean amount *)
      else if mode_eqb mr MSecret then MustReject            (* secret amount *)
      else MustAccept (mx, bl)
  | OLt | OGt | OLe | OGe =>
      if base_eqb bl br && numeric bl then MustAccept (mx, BBool) else MustReject
  | OEq | ONe =>
      if base_eqb bl br then MustAccept (mx, BBool) else MustReject
  | OAnd | OOr | OXor =>
      if base_eqb bl BBool && base_eqb br BBool then MustAccept (mx, BBool) else MustReject
  | OPublicEquals =>
      if negb (base_eqb bl br) then MustReject
      else if mode_eqb ml MConst || mode_eqb mr MConst then Free (MPublic, BBool)
      else if mode_eqb ml MSecret && base_eqb bl BBool then Free (MPublic, BBool)
      else MustAccept (MPublic, BBool)
  | OTruncPr =>
      if negb (numeric bl) then MustReject
      else if negb (base_eqb br BUInt) then MustReject
      else if mode_eqb mr MSecret then MustReject
      else if mode_eqb ml MSecret then MustAccept (MSecret, bl)
      else Free (mx, bl)
  end.

Definition spec_ifelse (c a b : sty) : verdict :=
  if negb (base_eqb (snd c) BBool) then MustReject
  else if mode_eqb (fst c) MConst then MustReject
  else if negb (base_eqb (snd a) (snd b)) then MustReject
  else if base_eqb (snd a) BBool then MustReject
  else MustAccept (mode_max (fst c) (mode_max (fst a) (fst b)), snd a).

Definition spec1 (u : unop) (t : sty) : verdict :=
  match u with
  | UInvert => if base_eqb (snd t) BBool then MustAccept t else MustReject
  | UToPublic => if secret t then MustAccept (MPublic, snd t) else MustSame
  end.

Definition spec_random (t : sty) : verdict := if secret t then MustAccept t else MustReject.

(* the MIR operation a given operator must be recorded as (used by C04) *)
Definition opname (o : op) : string :=
  match o with
  | OAdd => "Addition" | OSub => "Subtraction" | OMul => "Multiplication" | ODiv => "Division"
  | OMod => "Modulo" | OPow => "Power" | OLShift => "LeftShift" | ORShift => "RightShift"
  | OLt => "LessThan" | OGt => "GreaterThan" | OLe => "LessOrEqualThan" | OGe => "GreaterOrEqualThan"
  | OEq => "Equals" | ONe => "NotEquals" | OAnd => "BooleanAnd" | OOr => "BooleanOr"
  | OXor => "BooleanXor" | OPublicEquals => "PublicOutputEquality" | OTruncPr => "TruncPr"
  end.

Definition conforms (v : verdict) (all_literal : bool) (o : outcome) : bool :=
  match v, o with
  | MustAccept t, Emit _ t' _ => sty_eqb t t' && negb all_literal
  | MustAccept t, Fold t' _ => sty_eqb t t' && all_literal
  | MustReject, Reject _ => true
  | Free t, Reject _ => true
  | Free t, Emit _ t' _ => sty_eqb t t' && negb all_literal
  | Free t, Fold t' _ => sty_eqb t t' && all_literal
  | MustSame, Same 0 => true
  | _, _ => false
  end.

(* ---- the same specification evaluated on outcomes observed on the implementation ---- *)
From NadaV.Model Require Import Corr.

(* int + x : x must be numeric; the int is a literal of x's base type *)
Definition spec_radd (t : sty) : verdict :=
  if numeric (snd t) then MustAccept (fst t, snd t) else MustReject.

Definition cell_violates (c : cell) : bool :=
  match c with
  | Cell2 o l r cs => negb (forallb (fun ic => conforms (spec2 o l r) (literal l && literal r) (outcome_of_icode ic)) cs)
  | Cell3 c a b cs => negb (forallb (fun ic => conforms (spec_ifelse c a b) false (outcome_of_icode ic)) cs)
  | Cell1 u t cs => negb (forallb (fun ic => conforms (spec1 u t) (match u with UInvert => literal t | _ => false end)
                                                (outcome_of_icode ic)) cs)
  | CellRandom t cs => negb (forallb (fun ic => conforms (spec_random t) false (outcome_of_icode ic)) cs)
  | CellRAdd t k cs => negb (forallb (fun ic => conforms (spec_radd t) (literal t) (outcome_of_icode ic)) cs)
  end.

Definition spec_violations (cells : list cell) : list Z := indices_where cell_violates cells 0%Z.
