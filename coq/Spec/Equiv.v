(* Equality of two MIRs up to renaming of operation ids, function ids and literal names
   (C08: "the same MIR, up to renaming of operation ids, literal names and source-reference
   indices").  Both MIRs are put in a canonical form: operations numbered by first visit of a
   DFS from the outputs (operands in field order), functions by first reference, literals by
   first reference; tables sorted; source references ignored. *)
From Coq Require Import ZArith List String Bool.
From NadaV.Model Require Import Mir.
From NadaV.Spec Require Import MirSpec.
Import ListNotations.
Open Scope string_scope.
Open Scope Z_scope.
Open Scope list_scope.

Fixpoint zassoc (k : Z) (l : list (Z * Z)) : option Z :=
  match l with [] => None | (k', v) :: r => if Z.eqb k k' then Some v else zassoc k r end.
Definition ren (m : list (Z * Z)) (k : Z) : Z := match zassoc k m with Some v => v | None => k + 100000000 end.

Fixpoint number (l : list Z) (start : Z) : list (Z * Z) :=
  match l with [] => [] | x :: r => (x, start) :: number r (start + 1) end.

Definition first_visit (t : list mentry) (roots : list Z) : list Z :=
  rev (reach (reach_fuel t + List.length roots) t roots []).

Fixpoint dedup (l : list Z) (seen : list Z) : list Z :=
  match l with
  | [] => []
  | x :: r => if zmem x seen then dedup r seen else x :: dedup r (x :: seen)
  end.

(* function ids in order of first reference, following references out of function bodies *)
Fixpoint fun_order (fuel : nat) (fs : list mfun) (pending : list Z) (seen : list Z) : list Z :=
  match fuel with
  | O => rev seen
  | S n =>
      match pending with
      | [] => rev seen
      | f :: rest =>
          if zmem f seen then fun_order n fs rest seen
          else match find_fun f fs with
               | Some mf =>
                   let order := first_visit (f_ops mf) [f_ret mf] in
                   let refs := flat_map (fun k => match find_entry k (f_ops mf) with
                                                  | Some e => match fn_ref (e_op e) with Some g => [g] | None => [] end
                                                  | None => [] end) order in
                   fun_order n fs (rest ++ refs) (f :: seen)
               | None => fun_order n fs rest (f :: seen)
               end
      end
  end.

Definition refs_in_order (t : list mentry) (order : list Z) : list Z :=
  flat_map (fun k => match find_entry k t with
                     | Some e => match fn_ref (e_op e) with Some g => [g] | None => [] end
                     | None => [] end) order.

Definition lits_in_order (t : list mentry) (order : list Z) : list string :=
  flat_map (fun k => match find_entry k t with
                     | Some e => match e_op e with MLiteralRef n => [n] | _ => [] end
                     | None => [] end) order.

Fixpoint sdedup (l : list string) (seen : list string) : list string :=
  match l with
  | [] => []
  | x :: r => if smem x seen then sdedup r seen else x :: sdedup r (x :: seen)
  end.

Fixpoint snumber (l : list string) (i : nat) : list (string * string) :=
  match l with [] => [] | x :: r => (x, String (Ascii.ascii_of_nat (48 + i mod 10)) (String (Ascii.ascii_of_nat (48 + (i / 10) mod 10)) (String (Ascii.ascii_of_nat (48 + (i / 100) mod 10)) ""))) :: snumber r (S i) end.
Fixpoint sassoc (k : string) (l : list (string * string)) : option string :=
  match l with [] => None | (k', v) :: r => if String.eqb k k' then Some v else sassoc k r end.
Definition sren (m : list (string * string)) (k : string) : string :=
  match sassoc k m with Some v => v | None => String.append "?" k end.

Definition ren_op (om fm : list (Z * Z)) (lm : list (string * string)) (o : mop) : mop :=
  match o with
  | MBinary n l r => MBinary n (ren om l) (ren om r)
  | MUnary n t => MUnary n (ren om t)
  | MIfElse t a b => MIfElse (ren om t) (ren om a) (ren om b)
  | MRandom => MRandom
  | MInputRef n => MInputRef n
  | MLiteralRef n => MLiteralRef (sren lm n)
  | MReduce f i n => MReduce (ren fm f) (ren om i) (ren om n)
  | MMap f i => MMap (ren fm f) (ren om i)
  | MNew es => MNew (map (ren om) es)
  | MCall f args rt => MCall (ren fm f) (map (ren om) args) rt
  | MArgRef f n => MArgRef (ren fm f) n
  | MNTupleAcc i s => MNTupleAcc i (ren om s)
  | MObjectAcc k s => MObjectAcc k (ren om s)
  | MCast t to => MCast (ren om t) to
  | MEmpty => MEmpty
  end.

Definition ren_entry (om fm : list (Z * Z)) (lm : list (string * string)) (e : mentry) : mentry :=
  {| e_key := ren om (e_key e); e_id := ren om (e_id e); e_ty := e_ty e;
     e_op := ren_op om fm lm (e_op e); e_sref := no_sref |}.

Definition canon (m : mir) : mir :=
  let fs := m_functions m in
  let porder := first_visit (m_ops m) (map o_op (m_outputs m)) in
  let forder := fun_order (S (List.length fs) * 4 + List.length (all_tables m))%nat fs
                          (refs_in_order (m_ops m) porder) [] in
  let fm := number forder (-1000000) in
  (* operation numbering: program table first, then each function's table in function order *)
  let '(om, _) :=
    fold_left (fun (acc : list (Z * Z) * Z) (f : Z) =>
                 match find_fun f fs with
                 | Some mf => let o := first_visit (f_ops mf) [f_ret mf] in
                              (fst acc ++ number o (snd acc), snd acc + Z.of_nat (List.length o))
                 | None => acc
                 end) forder (number porder 1, 1 + Z.of_nat (List.length porder)) in
  let lits := sdedup (lits_in_order (m_ops m) porder
                      ++ flat_map (fun f => match find_fun f fs with
                                            | Some mf => lits_in_order (f_ops mf) (first_visit (f_ops mf) [f_ret mf])
                                            | None => [] end) forder) [] in
  let lm := snumber lits 0 in
  {| m_functions := map (fun mf => {| f_id := ren fm (f_id mf); f_args := f_args mf; f_name := f_name mf;
                                      f_ret := ren om (f_ret mf);
                                      f_ops := map (ren_entry om fm lm) (f_ops mf);
                                      f_ret_ty := f_ret_ty mf; f_sref := no_sref |}) fs;
     m_parties := m_parties m;
     m_inputs := m_inputs m;
     m_literals := map (fun l => {| l_name := sren lm (l_name l); l_value := l_value l; l_ty := l_ty l |}) (m_literals m);
     m_outputs := map (fun o => {| o_op := ren om (o_op o); o_name := o_name o; o_party := o_party o;
                                   o_ty := o_ty o; o_sref := no_sref |}) (m_outputs m);
     m_ops := map (ren_entry om fm lm) (m_ops m) |}.

From NadaV.Model Require Import Compile.
Definition mir_equivb (a b : mir) : bool := mir_eqb (canon a) (canon b).

(* ---- the source tables of a MIR (source_files, source_refs): "the same up to renaming of
   source-reference indices" = the same set of references and the same set of (file, text) pairs *)
Record srctabs := { st_files : list (string * string);      (* file name, digest of the embedded text *)
                    st_refs : list sref }.
Definition sref_eqb (a b : sref) : bool :=
  String.eqb (sr_file a) (sr_file b) && Z.eqb (sr_line a) (sr_line b) && Z.eqb (sr_off a) (sr_off b) && Z.eqb (sr_len a) (sr_len b).
Definition pair_eqb (a b : string * string) : bool := String.eqb (fst a) (fst b) && String.eqb (snd a) (snd b).
Definition subsetb {A} (eqb : A -> A -> bool) (a b : list A) : bool := forallb (fun x => existsb (eqb x) b) a.
Definition sources_sameb (a b : srctabs) : bool :=
  subsetb pair_eqb (st_files a) (st_files b) && subsetb pair_eqb (st_files b) (st_files a)
  && subsetb sref_eqb (st_refs a) (st_refs b) && subsetb sref_eqb (st_refs b) (st_refs a).
(* which part differs: 0 none, 1 files, 2 references *)
Definition sources_diff (a b : srctabs) : Z :=
  if negb (subsetb pair_eqb (st_files a) (st_files b) && subsetb pair_eqb (st_files b) (st_files a)) then 1
  else if negb (subsetb sref_eqb (st_refs a) (st_refs b) && subsetb sref_eqb (st_refs b) (st_refs a)) then 2 else 0.
