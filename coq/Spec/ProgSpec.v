(* C10 / C11 specifications relating a surface program and the MIR emitted for it. *)
From Coq Require Import ZArith List String Bool.
From NadaV.PyMini Require Import PyMini.
From NadaV.Model Require Import Rules Corr Mir Surface.
From NadaV.Spec Require Import TypingSpec MirSpec.
Import ListNotations.
Open Scope string_scope.
Open Scope Z_scope.
Open Scope list_scope.

Fixpoint mty_of_ity (t : ity) : mty :=
  match t with
  | IScalar s => TyName (mir_name s)
  | IArray e n => TyArray (mty_of_ity e) n
  end.

Record decl_input := { di_name : string; di_party : string; di_doc : string; di_ty : ity }.

(* every Input the program text declares, at any nesting depth *)
Fixpoint declared_inputs (fuel : nat) (ss : list stmt) : list decl_input :=
  match fuel with
  | O => []
  | S n =>
      flat_map (fun s => match s with
                         | SLet _ (RInput name party doc t) => [{| di_name := name; di_party := party; di_doc := doc; di_ty := t |}]
                         | SLet _ _ => []
                         | SDef _ _ _ body _ => declared_inputs n body
                         end) ss
  end.

Record decl_fun := { dfn_name : string; dfn_params : list (string * ity); dfn_ret : ity }.
Fixpoint declared_funs (fuel : nat) (ss : list stmt) : list decl_fun :=
  match fuel with
  | O => []
  | S n =>
      flat_map (fun s => match s with
                         | SLet _ _ => []
                         | SDef f ps rt body _ => {| dfn_name := f; dfn_params := ps; dfn_ret := rt |} :: declared_funs n body
                         end) ss
  end.

Fixpoint list_eqb_pair (a b : list (string * string)) : bool :=
  match a, b with
  | [], [] => true
  | (x1, x2) :: a', (y1, y2) :: b' => String.eqb x1 y1 && String.eqb x2 y2 && list_eqb_pair a' b'
  | _, _ => false
  end.

(* ---- C10: inputs, outputs and parties are reproduced exactly *)
Definition interfaceb (p : program) (m : mir) : bool :=
  let decls := declared_inputs 50 (p_stmts p) in
  (* outputs: the same (name, party) sequence, each carrying the type of the operation it names *)
  list_eqb_pair (map (fun o => (out_name o, out_party o)) (p_outs p))
                (map (fun o => (o_name o, o_party o)) (m_outputs m))
  && forallb (fun o => opt_ty_eqb (ty_of (m_ops m) (o_op o)) (o_ty o)) (m_outputs m)
  (* every listed input is a declared one, once, with its name, party, type and documentation *)
  && snodup (map i_name (m_inputs m))
  && forallb (fun i => existsb (fun d => String.eqb (di_name d) (i_name i) && String.eqb (di_party d) (i_party i)
                                          && String.eqb (di_doc d) (i_doc i) && mty_eqb (mty_of_ity (di_ty d)) (i_ty i)) decls)
             (m_inputs m)
  (* every input the MIR uses is listed *)
  && ssubset (input_refs (all_tables m)) (map i_name (m_inputs m))
  (* every party named by an input or output is listed, once *)
  && snodup (map p_name (m_parties m))
  && ssubset (map i_party (m_inputs m) ++ map o_party (m_outputs m)) (map p_name (m_parties m)).

(* a program that must be rejected (sufficient syntactic conditions):
   an output that is not a Nada value, or two different inputs under one name both returned *)
Definition top_bindings (ss : list stmt) : list (string * bool * option string) :=   (* var, is-function, input name *)
  map (fun s => match s with
                | SLet x (RInput name _ _ _) => (x, false, Some name)
                | SLet x _ => (x, false, None)
                | SDef f _ _ _ _ => (f, true, None)
                end) ss.
Fixpoint last_binding (x : string) (bs : list (string * bool * option string)) (acc : option (bool * option string))
  : option (bool * option string) :=
  match bs with
  | [] => acc
  | (y, isf, nm) :: r => last_binding x r (if String.eqb x y then Some (isf, nm) else acc)
  end.
Definition c10_must_reject (p : program) : bool :=
  let bs := top_bindings (p_stmts p) in
  let outs := map (fun o => (out_var o, last_binding (out_var o) bs None)) (p_outs p) in
  existsb (fun o => match snd o with Some (true, _) => true | _ => false end) outs
  || existsb (fun o1 => existsb (fun o2 => negb (String.eqb (fst o1) (fst o2))
                                            && match snd o1, snd o2 with
                                               | Some (false, Some n1), Some (false, Some n2) => String.eqb n1 n2
                                               | _, _ => false end) outs) outs.

(* ---- C11: functions keep their signature, their bindings and their restrictions *)
Definition params_match (ps : list (string * ity)) (args : list marg) : bool :=
  (fix go (a : list (string * ity)) (b : list marg) : bool :=
     match a, b with
     | [], [] => true
     | (n, t) :: a', x :: b' => String.eqb n (a_name x) && mty_eqb (mty_of_ity t) (a_ty x) && go a' b'
     | _, _ => false
     end) ps args.

Definition functionsb (p : program) (m : mir) : bool :=
  let decls := declared_funs 50 (p_stmts p) in
  (* every emitted function is a declared one: name, parameter names / order / types, return type *)
  forallb (fun f => existsb (fun d => String.eqb (dfn_name d) (f_name f) && params_match (dfn_params d) (f_args f)
                                      && mty_eqb (mty_of_ity (dfn_ret d)) (f_ret_ty f)) decls) (m_functions m)
  (* emitted once *)
  && znodup (map f_id (m_functions m))
  (* its body refers to parameters by those names *)
  && forallb (fun f => forallb (fun e => match e_op e with
                                         | MArgRef fid n => Z.eqb fid (f_id f) && smem n (map a_name (f_args f))
                                         | _ => true end) (f_ops f)) (m_functions m)
  (* every map / reduce / call names an emitted function *)
  && forallb (fun e => match fn_ref (e_op e) with
                       | Some g => match find_fun g (m_functions m) with Some _ => true | None => false end
                       | None => true end) (all_tables m).

Definition is_const_ity (t : ity) : bool := match t with IScalar (MConst, _) => true | _ => false end.
(* a program that defines (at top level, hence certainly executed unless an earlier statement
   fails) a function with a literal return type or only literal parameters must be rejected *)
(* the number of parameters of the function a top-level name is bound to just before the n-th statement *)
Fixpoint arity_before (ss : list stmt) (f : string) (acc : option nat) (n : nat) : option nat :=
  match n, ss with
  | O, _ => acc
  | S k, s :: r => arity_before r f (match s with
                                     | SDef g ps _ _ _ => if String.eqb g f then Some (List.length ps) else acc
                                     | SLet x _ => if String.eqb x f then None else acc
                                     end) k
  | S _, [] => acc
  end.
(* a top-level call that does not give every parameter exactly one argument (too few, too many) *)
Definition bad_arity_call (p : program) : bool :=
  (fix go (ss : list stmt) (i : nat) : bool :=
     match ss with
     | [] => false
     | SLet _ (RCall f args kw) :: r =>
         match arity_before (p_stmts p) f None i with
         | Some n => negb (Nat.eqb n (List.length args + List.length kw)) || go r (S i)
         | None => go r (S i)
         end
     | _ :: r => go r (S i)
     end) (p_stmts p) O.
Definition c11_must_reject (p : program) : bool :=
  existsb (fun s => match s with
                    | SDef _ ps rt _ _ => is_const_ity rt || forallb (fun q => is_const_ity (snd q)) ps
                    | _ => false end) (p_stmts p)
  || bad_arity_call p.
