(* C06 at program level, as a check on a compiled MIR: every output whose defining expression is built from
   literals only must be a reference to a literal-table entry holding exactly the value (and type) that the
   plain-arithmetic specification FoldSpec.lit_stmts assigns to it. *)
From Coq Require Import ZArith List String Bool.
From NadaV.PyMini Require Import PyMini.
From NadaV.Model Require Import Rules Corr Mir Surface.
From NadaV.Spec Require Import TypingSpec FoldSpec MirSpec Denote.
Import ListNotations.
Open Scope string_scope.

Definition lit_output_okb (m : mir) (mo : moutput) (b : base) (z : Z) : bool :=
  match find_entry (o_op mo) (m_ops m) with
  | Some e =>
      match e_op e with
      | MLiteralRef name =>
          match find_literal name (m_literals m) with
          | Some l => String.eqb (l_value l) (lit_string b z) && mty_eqb (l_ty l) (TyName (mir_name (MConst, b)))
                      && mty_eqb (o_ty mo) (TyName (mir_name (MConst, b)))
          | None => false
          end
      | _ => false
      end
  | None => false
  end.

Fixpoint outs_okb (σ : list (string * lval)) (m : mir) (outs : list output) (mouts : list moutput) : bool :=
  match outs, mouts with
  | [], [] => true
  | o :: outs', mo :: mouts' =>
      match assoc (out_var o) σ with
      | Some (Some (b, z)) => lit_output_okb m mo b z
      | _ => true
      end && outs_okb σ m outs' mouts'
  | _, _ => false
  end.

Definition c06_progb (p : program) (m : mir) : bool :=
  outs_okb (lit_stmts (p_stmts p) []) m (p_outs p) (m_outputs m).
