(* C12 specification: preconditions and size/element rules of the collection operations,
   written from the property text, over single-operation cases.  Evaluated in Coq on what the
   real DSL does with each case (outcome = rejected | recorded MIR). *)
From Coq Require Import ZArith List String Bool.
From NadaV.Model Require Import Mir.
From NadaV.Spec Require Import MirSpec.
Import ListNotations.
Open Scope string_scope.
Open Scope Z_scope.

Inductive ccase :=
| CZip (ea eb : mty) (n m : Z)            (* arrays of element types ea, eb and sizes n, m *)
| CInner (ea eb : mty) (n m : Z)
| CNew (tys : list mty)                    (* Array.new of values of these types *)
| CIndex (tys : list mty) (i : Z)          (* ntuple[i] *)
| CField (fs : list (string * mty)) (k : string)
| CUnzip (ea eb : mty) (n : Z)             (* unzip(zip(a, b)) *)
| CMap (ea ret : mty) (n : Z)              (* a.map(f), f : ea -> ret *)
| CUnsized (inner : bool) (param_first : bool) (ea eb : mty) (m : Z)
| CNewLiteralAndPublic (tys : list mty).
    (* inside a function: zip / inner product of an array PARAMETER (no size) with a captured array of size m *)
    (* CNewLiteralAndPublic: Array.new of a literal and a public value of one base type: different DSL types, though their
       MIR type names coincide *)

Inductive expect := MustReject | Accept (result : mty) (index : option Z).

Definition is_integer_ty (t : mty) : bool :=
  match t with
  | TyName s => smem s ["Integer"; "UnsignedInteger"; "SecretInteger"; "SecretUnsignedInteger"]
  | _ => false
  end.

Fixpoint all_same (l : list mty) : bool :=
  match l with
  | [] => true
  | [x] => true
  | x :: ((y :: _) as r) => mty_eqb x y && all_same r
  end.

(* the inner product is as secret as the more secret of the two element types (C03) and keeps the
   receiver's base type *)
Definition is_secret_ty (t : mty) : bool :=
  match t with TyName s => smem s ["SecretInteger"; "SecretUnsignedInteger"; "SecretBoolean"] | _ => false end.
Definition inner_result (ea eb : mty) : mty :=
  if is_secret_ty ea || negb (is_secret_ty eb) then ea
  else match ea with
       | TyName s => TyName ("Secret" ++ s)
       | t => t
       end.

Definition coll_spec (c : ccase) : expect :=
  match c with
  | CZip ea eb n m => if Z.eqb n m then Accept (TyArray (TyTuple ea eb) (Some n)) None else MustReject
  | CInner ea eb n m =>
      if negb (Z.eqb n m) then MustReject
      else if is_integer_ty ea && is_integer_ty eb then Accept (inner_result ea eb) None else MustReject
  | CNew tys =>
      match tys with
      | [] => MustReject
      | t :: _ => if all_same tys then Accept (TyArray t (Some (Z.of_nat (List.length tys)))) None else MustReject
      end
  | CIndex tys i =>
      if (0 <=? i) && (i <? Z.of_nat (List.length tys))
      then Accept (nth (Z.to_nat i) tys (TyName "?")) (Some i) else MustReject
  | CField fs k => match assoc_ty k fs with Some t => Accept t None | None => MustReject end
  | CUnzip ea eb n => Accept (TyTuple (TyArray ea (Some n)) (TyArray eb (Some n))) None
  | CMap ea ret n => Accept (TyArray ret (Some n)) None
  | CUnsized _ _ _ _ _ => MustReject       (* no size and size m are different sizes *)
  | CNewLiteralAndPublic _ => MustReject
  end.

(* what the implementation did: rejected, or the type of the single output (and the index
   recorded by an n-tuple accessor, if one was emitted) *)
Inductive cobs := ORejected (exn : string) | OAccepted (result : mty) (index : option Z).

Definition coll_okb (c : ccase) (o : cobs) : bool :=
  match coll_spec c, o with
  | MustReject, ORejected _ => true
  | Accept _ _, ORejected _ => true        (* the text does not oblige the DSL to accept *)
  | Accept t i, OAccepted t' i' =>
      mty_eqb t t' && match i, i' with
                      | Some a, Some b => Z.eqb a b
                      | Some _, None => true           (* a literal component: no accessor is emitted *)
                      | None, _ => true end
  | _, _ => false
  end.

Fixpoint indices_where {A} (f : A -> bool) (l : list A) (i : Z) : list Z :=
  match l with [] => [] | x :: r => if f x then i :: indices_where f r (i + 1) else indices_where f r (i + 1) end.

Definition coll_violations (cs : list (ccase * cobs)) : list Z :=
  indices_where (fun c => negb (coll_okb (fst c) (snd c))) cs 0.
