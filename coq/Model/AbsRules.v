(* The audit component's abstract interpreter (nada_dsl/audit/abstract.py), evaluated by PyMini over
   the GENERATED class table (Gen/GenAbstract.v): operand objects, operator dispatch, outcomes. *)
From Coq Require Import ZArith List String Bool.
From NadaV.PyMini Require Import PyMini.
From NadaV.Model Require Import Rules.
Import ListNotations.
Open Scope string_scope.

(* an abstract value of class [t] whose concrete value is [v] (None = unknown) *)
Definition aoperand (t : sty) (v : option Z) : value :=
  VObj (class_of t) [("input", VNone);
                     ("value", match v with
                               | Some z => match snd t with BBool => VBool (negb (Z.eqb z 0)) | _ => VInt z end
                               | None => VNone end)].

Inductive aoutcome :=
| AReject (exn : string)
| AValue (t : sty) (v : option value)       (* an abstract object of class t carrying value v *)
| ANonAbstract (what : string)
| AStuck (why : string).

Definition aclassify (r : res value) : aoutcome :=
  match r with
  | OutOfFuel => AStuck "fuel"
  | Err e => if is_internal e then AStuck e else AReject e
  | Ok (VObj cls fs) =>
      match sty_of_class cls with
      | Some t => AValue t (match assoc "value" fs with Some VNone => None | Some x => Some x | None => None end)
      | None => ANonAbstract cls
      end
  | Ok _ => ANonAbstract "python-value"
  end.

Definition arule2 (GA : genv) (o : op) (t1 t2 : sty) (v1 v2 : option Z) : aoutcome :=
  aclassify (run_binop GA o (aoperand t1 v1) (aoperand t2 v2)).

Definition arule_ifelse (GA : genv) (c a b : sty) (vc va vb : option Z) : aoutcome :=
  aclassify (dispatch_method GA "if_else" (aoperand c vc) [aoperand a va; aoperand b vb]).

Definition arule_neg (GA : genv) (t : sty) (v : option Z) : aoutcome :=
  aclassify (dispatch_method GA "__neg__" (aoperand t v) []).

(* the operators the abstract interpreter models, and the six classes it shares with the DSL *)
Definition abs_ops := [OAdd; OSub; OMul; OLt; OLe; OGt; OGe; OEq; ONe].
Definition shared_stys : list sty := [(MConst, BInt); (MPublic, BInt); (MSecret, BInt);
                                      (MConst, BBool); (MPublic, BBool); (MSecret, BBool)].

(* ---- expressions over the modelled operators *)
Inductive aexpr :=
| AIn (t : sty) (i : nat)            (* the i-th input, declared with class t *)
| ALit (v : Z)                       (* Integer literal *)
| ABin (o : op) (a b : aexpr)
| AIf (c a b : aexpr).

Definition zval (v : value) : option Z :=
  match v with VInt z => Some z | VBool b => Some (if b then 1 else 0)%Z | _ => None end.

(* abstract execution of an expression under a valuation of the inputs *)
Fixpoint abs_eval (GA : genv) (ρ : list Z) (e : aexpr) : aoutcome :=
  match e with
  | AIn t i => AValue t (match snd t with
                         | BBool => Some (VBool (negb (Z.eqb (nth i ρ 0%Z) 0)))
                         | _ => Some (VInt (nth i ρ 0%Z)) end)
  | ALit v => AValue (MConst, BInt) (Some (VInt v))
  | ABin o a b =>
      match abs_eval GA ρ a, abs_eval GA ρ b with
      | AValue ta (Some va), AValue tb (Some vb) =>
          match zval va, zval vb with
          | Some x, Some y => arule2 GA o ta tb (Some x) (Some y)
          | _, _ => AStuck "value"
          end
      | AReject e, _ => AReject e
      | _, AReject e => AReject e
      | _, _ => AStuck "operand"
      end
  | AIf c a b =>
      match abs_eval GA ρ c, abs_eval GA ρ a, abs_eval GA ρ b with
      | AValue tc (Some vc), AValue ta (Some va), AValue tb (Some vb) =>
          match zval vc, zval va, zval vb with
          | Some x, Some y, Some z => arule_ifelse GA tc ta tb (Some x) (Some y) (Some z)
          | _, _, _ => AStuck "value"
          end
      | AReject e, _, _ => AReject e
      | _, AReject e, _ => AReject e
      | _, _, AReject e => AReject e
      | _, _, _ => AStuck "operand"
      end
  end.

(* exact evaluation in Z *)
Definition exact_bin (o : op) (a b : Z) : option value :=
  match o with
  | OAdd => Some (VInt (a + b)) | OSub => Some (VInt (a - b)) | OMul => Some (VInt (a * b))
  | OLt => Some (VBool (a <? b)%Z) | OLe => Some (VBool (a <=? b)%Z)
  | OGt => Some (VBool (a >? b)%Z) | OGe => Some (VBool (a >=? b)%Z)
  | OEq => Some (VBool (a =? b)%Z) | ONe => Some (VBool (negb (a =? b)%Z))
  | _ => None
  end.

Fixpoint exact_eval (ρ : list Z) (e : aexpr) : option value :=
  match e with
  | AIn t i => match snd t with
               | BBool => Some (VBool (negb (Z.eqb (nth i ρ 0%Z) 0)))
               | _ => Some (VInt (nth i ρ 0%Z)) end
  | ALit v => Some (VInt v)
  | ABin o a b =>
      match exact_eval ρ a, exact_eval ρ b with
      | Some (VInt x), Some (VInt y) => exact_bin o x y
      | _, _ => None
      end
  | AIf c a b =>
      match exact_eval ρ c, exact_eval ρ a, exact_eval ρ b with
      | Some (VBool x), Some (VInt y), Some (VInt z) => Some (VInt (if x then y else z))
      | _, _, _ => None
      end
  end.

(* the type the real DSL gives the same expression (None = rejected) *)
Fixpoint real_type (G : genv) (e : aexpr) : option sty :=
  match e with
  | AIn t _ => Some t
  | ALit _ => Some (MConst, BInt)
  | ABin o a b =>
      match real_type G a, real_type G b with
      | Some ta, Some tb => match rule2 G o ta tb with
                            | Emit _ t _ | Fold t _ => Some t
                            | _ => None end
      | _, _ => None
      end
  | AIf c a b =>
      match real_type G c, real_type G a, real_type G b with
      | Some tc, Some ta, Some tb => match rule_ifelse G tc ta tb with
                                     | Emit _ t _ | Fold t _ => Some t
                                     | _ => None end
      | _, _, _ => None
      end
  end.
