(* Implementation outcomes as data (written by the harness into Cases/*.v) and their
   comparison with model outcomes.  Independent of Gen/. *)
From Coq Require Import ZArith List String Bool.
From NadaV.PyMini Require Import PyMini.
From NadaV.Model Require Import Rules.
Import ListNotations.
Open Scope string_scope.

Inductive icode :=
| IR (exn : string)
| IF (cls : string) (v : option Z)
| IE (cls opname : string) (roles : list (string * Z)) (ty : string)
| IS (i : Z)
| IN (what : string)
| IX (exn : string).        (* harness could not even build the operands *)

(* MIR name of a scalar type: public and literal share a name *)
Definition mir_name (t : sty) : string :=
  match t with
  | (MSecret, BInt) => "SecretInteger" | (MSecret, BUInt) => "SecretUnsignedInteger"
  | (MSecret, BBool) => "SecretBoolean"
  | (_, BInt) => "Integer" | (_, BUInt) => "UnsignedInteger" | (_, BBool) => "Boolean"
  end.

Definition z_of_value (v : value) : option Z :=
  match v with VInt z => Some z | VBool b => Some (if b then 1 else 0)%Z | _ => None end.

Definition outcome_of_icode (c : icode) : outcome :=
  match c with
  | IR e => Reject e
  | IF cls v => match sty_of_class cls with
                | Some t => Fold t (match v with Some z => VInt z | None => VNone end)
                | None => NonNada cls
                end
  | IE cls opn roles ty =>
      match sty_of_class cls with
      | Some t => if String.eqb ty (mir_name t) then Emit opn t roles else NonNada ("recorded-type:" ++ ty)
      | None => NonNada cls
      end
  | IS i => Same i
  | IN w => NonNada w
  | IX e => Stuck e
  end.

Fixpoint roles_eqb (a b : list (string * Z)) : bool :=
  match a, b with
  | [], [] => true
  | (k, i) :: a', (k', i') :: b' => String.eqb k k' && Z.eqb i i' && roles_eqb a' b'
  | _, _ => false
  end.

(* model outcome vs implementation outcome: rejection is compared coarsely *)
Definition agree (o : outcome) (c : icode) : bool :=
  match o, c with
  | Reject _, IR _ => true
  | Fold t v, IF cls None => String.eqb (class_of t) cls
  | Fold t v, IF cls (Some z) =>
      String.eqb (class_of t) cls && match z_of_value v with Some z' => Z.eqb z z' | None => false end
  | Emit opn t roles, IE cls opn' roles' ty =>
      String.eqb (class_of t) cls && String.eqb opn opn' && roles_eqb roles roles'
      && String.eqb ty (mir_name t)
  | Same i, IS j => Z.eqb i j
  | _, _ => false
  end.

Fixpoint indices_where {A} (f : A -> bool) (l : list A) (i : Z) : list Z :=
  match l with
  | [] => []
  | x :: r => if f x then i :: indices_where f r (i + 1)%Z else indices_where f r (i + 1)%Z
  end.

Inductive cell :=
| Cell2 (o : op) (l r : sty) (codes : list icode)
| Cell3 (c a b : sty) (codes : list icode)
| Cell1 (u : unop) (t : sty) (codes : list icode)
| CellRandom (t : sty) (codes : list icode)
| CellRAdd (t : sty) (k : Z) (codes : list icode).

Definition model_cell (G : genv) (c : cell) : outcome * list icode :=
  match c with
  | Cell2 o l r cs => (rule2 G o l r, cs)
  | Cell3 c a b cs => (rule_ifelse G c a b, cs)
  | Cell1 u t cs => (rule1 G u t, cs)
  | CellRandom t cs => (rule_random G t, cs)
  | CellRAdd t k cs => (rule_radd_int G k t 3, cs)
  end.

Definition cell_disagrees (G : genv) (c : cell) : bool :=
  let '(o, cs) := model_cell G c in negb (forallb (agree o) cs).

Definition mismatches (G : genv) (cells : list cell) : list Z := indices_where (cell_disagrees G) cells 0%Z.
