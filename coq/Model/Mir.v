(* The MIR emitted by nada_dsl_to_nada_mir, as data.  Implementation MIRs (JSON) are
   printed into this type by tools/mirprint.py; the model compiler produces it too. *)
From Coq Require Import ZArith List String Bool.
Import ListNotations.
Open Scope string_scope.
Open Scope Z_scope.

Inductive mty :=
| TyName (s : string)
| TyArray (inner : mty) (size : option Z)
| TyTuple (l r : mty)
| TyNTuple (ts : list mty)
| TyObject (fs : list (string * mty)).

Record sref := { sr_file : string; sr_line : Z; sr_off : Z; sr_len : Z }.

Inductive mop :=
| MBinary (name : string) (left right : Z)
| MUnary (name : string) (this : Z)
| MIfElse (this arg0 arg1 : Z)
| MRandom
| MInputRef (refers_to : string)
| MLiteralRef (refers_to : string)
| MReduce (fn inner initial : Z)
| MMap (fn inner : Z)
| MNew (elements : list Z)
| MCall (function_id : Z) (args : list Z) (return_type : mty)
| MArgRef (function_id : Z) (refers_to : string)
| MNTupleAcc (index source : Z)
| MObjectAcc (key : string) (source : Z)
| MCast (target : Z) (to : mty)
| MEmpty.

(* one entry of an operation table: the key it is filed under, its own "id" field *)
Record mentry := { e_key : Z; e_id : Z; e_ty : mty; e_op : mop; e_sref : sref }.

Record marg := { a_name : string; a_ty : mty; a_sref : sref }.
Record mfun := { f_id : Z; f_args : list marg; f_name : string; f_ret : Z;
                 f_ops : list mentry; f_ret_ty : mty; f_sref : sref }.
Record minput := { i_name : string; i_ty : mty; i_party : string; i_doc : string; i_sref : sref }.
Record mliteral := { l_name : string; l_value : string; l_ty : mty }.
Record moutput := { o_op : Z; o_name : string; o_party : string; o_ty : mty; o_sref : sref }.
Record mparty := { p_name : string; p_sref : sref }.

Record mir := {
  m_functions : list mfun;
  m_parties : list mparty;
  m_inputs : list minput;
  m_literals : list mliteral;
  m_outputs : list moutput;
  m_ops : list mentry
}.

Definition no_sref : sref := {| sr_file := ""; sr_line := 0; sr_off := 0; sr_len := 0 |}.

(* ------------------------------------------------------------ equality *)
Fixpoint mty_eqb (a b : mty) : bool :=
  match a, b with
  | TyName x, TyName y => String.eqb x y
  | TyArray i s, TyArray i' s' =>
      mty_eqb i i' && match s, s' with
                      | Some x, Some y => Z.eqb x y | None, None => true | _, _ => false end
  | TyTuple l r, TyTuple l' r' => mty_eqb l l' && mty_eqb r r'
  | TyNTuple ts, TyNTuple ts' =>
      (fix go (xs ys : list mty) : bool :=
         match xs, ys with
         | [], [] => true
         | x :: xs', y :: ys' => mty_eqb x y && go xs' ys'
         | _, _ => false
         end) ts ts'
  | TyObject fs, TyObject fs' =>
      (fix go (xs ys : list (string * mty)) : bool :=
         match xs, ys with
         | [], [] => true
         | (k, x) :: xs', (k', y) :: ys' => String.eqb k k' && mty_eqb x y && go xs' ys'
         | _, _ => false
         end) fs fs'
  | _, _ => false
  end.

Fixpoint zlist_eqb (a b : list Z) : bool :=
  match a, b with
  | [], [] => true
  | x :: a', y :: b' => Z.eqb x y && zlist_eqb a' b'
  | _, _ => false
  end.

Definition mop_eqb (a b : mop) : bool :=
  match a, b with
  | MBinary n l r, MBinary n' l' r' => String.eqb n n' && Z.eqb l l' && Z.eqb r r'
  | MUnary n t, MUnary n' t' => String.eqb n n' && Z.eqb t t'
  | MIfElse t a0 a1, MIfElse t' a0' a1' => Z.eqb t t' && Z.eqb a0 a0' && Z.eqb a1 a1'
  | MRandom, MRandom => true
  | MInputRef r, MInputRef r' => String.eqb r r'
  | MLiteralRef r, MLiteralRef r' => String.eqb r r'
  | MReduce f i n, MReduce f' i' n' => Z.eqb f f' && Z.eqb i i' && Z.eqb n n'
  | MMap f i, MMap f' i' => Z.eqb f f' && Z.eqb i i'
  | MNew es, MNew es' => zlist_eqb es es'
  | MCall f as_ rt, MCall f' as_' rt' => Z.eqb f f' && zlist_eqb as_ as_' && mty_eqb rt rt'
  | MArgRef f r, MArgRef f' r' => Z.eqb f f' && String.eqb r r'
  | MNTupleAcc i s, MNTupleAcc i' s' => Z.eqb i i' && Z.eqb s s'
  | MObjectAcc k s, MObjectAcc k' s' => String.eqb k k' && Z.eqb s s'
  | MCast t to, MCast t' to' => Z.eqb t t' && mty_eqb to to'
  | MEmpty, MEmpty => true
  | _, _ => false
  end.

(* operand references of an operation, in field order (function references excluded) *)
Definition operands (o : mop) : list Z :=
  match o with
  | MBinary _ l r => [l; r]
  | MUnary _ t => [t]
  | MIfElse t a0 a1 => [t; a0; a1]
  | MReduce _ i n => [i; n]
  | MMap _ i => [i]
  | MNew es => es
  | MCall _ as_ _ => as_
  | MNTupleAcc _ s => [s]
  | MObjectAcc _ s => [s]
  | MCast t _ => [t]
  | MRandom | MInputRef _ | MLiteralRef _ | MArgRef _ _ | MEmpty => []
  end.

Definition fn_ref (o : mop) : option Z :=
  match o with
  | MReduce f _ _ | MMap f _ | MCall f _ _ => Some f
  | _ => None
  end.

Fixpoint find_entry (k : Z) (t : list mentry) : option mentry :=
  match t with
  | [] => None
  | e :: r => if Z.eqb (e_key e) k then Some e else find_entry k r
  end.

Definition count_key (k : Z) (t : list mentry) : nat :=
  List.length (filter (fun e => Z.eqb (e_key e) k) t).

Fixpoint find_fun (k : Z) (fs : list mfun) : option mfun :=
  match fs with
  | [] => None
  | f :: r => if Z.eqb (f_id f) k then Some f else find_fun k r
  end.

Fixpoint zmem (x : Z) (l : list Z) : bool :=
  match l with [] => false | y :: r => Z.eqb x y || zmem x r end.
Fixpoint smem (x : string) (l : list string) : bool :=
  match l with [] => false | y :: r => String.eqb x y || smem x r end.
Fixpoint znodup (l : list Z) : bool :=
  match l with [] => true | x :: r => negb (zmem x r) && znodup r end.
Fixpoint snodup (l : list string) : bool :=
  match l with [] => true | x :: r => negb (smem x r) && snodup r end.
Definition zsubset (a b : list Z) : bool := forallb (fun x => zmem x b) a.
Definition zseteq (a b : list Z) : bool := zsubset a b && zsubset b a.
Definition ssubset (a b : list string) : bool := forallb (fun x => smem x b) a.
Definition sseteq (a b : list string) : bool := ssubset a b && ssubset b a.
