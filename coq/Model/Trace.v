(* Hand-written executable model of the tracer: what running nada_main() does to the
   process-global tables (operation id counter, AST_OPERATIONS, ast_util.LITERALS).
   Tied to /repo by the MIR correspondence check; scalar typing decisions are delegated to
   the GENERATED rules through [rule2v G] etc.  No proofs in this file. *)
From Coq Require Import ZArith List String Bool Ascii.
From Coq Require Import DecimalString.
From NadaV.PyMini Require Import PyMini.
From NadaV.Model Require Import Rules Corr Mir Surface.
Import ListNotations.
Open Scope string_scope.
Open Scope Z_scope.

(* ------------------------------------------------------------ AST store *)

Inductive ast :=
| ABinary (name : string) (left right : Z)
| AUnary (name : string) (child : Z)
| AIfElse (condition tbranch fbranch : Z)
| ARandom
| AInput (name party doc : string)
| ALiteral (value : string) (index : string)
| AReduce (child fn initial : Z)
| AMap (child fn : Z)
| ANew (name : string) (elements : list Z)
| ACall (args : list Z) (fn : Z)
| AArg (name : string) (fn : Z)
| AFunction (name : string) (args : list Z) (child : Z)
| ANTupleAcc (index source : Z)
| AObjectAcc (key : string) (source : Z).

Record arec := { r_id : Z; r_ty : mty; r_node : ast }.

Record tstate := {
  counter : Z;                          (* ast_util.OPERATION_ID_COUNTER *)
  store : list (Z * arec);              (* AST_OPERATIONS, newest binding first *)
  lits : list string                    (* ast_util.LITERALS: key -> index = position *)
}.
Definition init_state : tstate := {| counter := 0; store := []; lits := [] |}.

(* AST_OPERATIONS[k]: the record found under key k (its id field is the key it was stored under:
   every store_in_ast writes AST_OPERATIONS[self.id] = ...(id=self.id, ...)) *)
Fixpoint lookup (k : Z) (s : list (Z * arec)) : option arec :=
  match s with
  | [] => None
  | (k', r) :: s' => if Z.eqb k k' then Some {| r_id := k; r_ty := r_ty r; r_node := r_node r |}
                     else lookup k s'
  end.

(* ------------------------------------------------------------ wrappers *)

Inductive td :=                 (* the value of a contained_type / left_type / right_type attribute *)
| DCls (t : sty)                (* a scalar class object *)
| DInst (w : wrap)              (* an instance *)
| DArrayType (elt : td) (size : option Z)     (* the ArrayType marker dataclass *)
| DTypeVar                      (* typing.TypeVar T *)
with wrap :=
| WScalar (t : sty) (id : option Z) (v : option Z)   (* v: the literal's value; id None: child is None *)
| WArray (elt : td) (size : option Z) (id : option Z)
| WTuple (l r : td) (id : option Z)
| WNTuple (vals : list wrap) (id : option Z)
| WObject (vals : list (string * wrap)) (id : option Z).

Definition wid (w : wrap) : option Z :=
  match w with
  | WScalar _ i _ | WArray _ _ i | WTuple _ _ i | WNTuple _ i | WObject _ i => i
  end.

Definition with_id (w : wrap) (i : Z) : wrap :=
  match w with
  | WScalar t _ v => WScalar t (Some i) v
  | WArray e s _ => WArray e s (Some i)
  | WTuple l r _ => WTuple l r (Some i)
  | WNTuple vs _ => WNTuple vs (Some i)
  | WObject vs _ => WObject vs (Some i)
  end.

(* Python class name of an instance, and cls.class_to_mir() *)
Definition py_class (w : wrap) : string :=
  match w with
  | WScalar t _ _ => class_of t
  | WArray _ _ _ => "Array" | WTuple _ _ _ => "Tuple" | WNTuple _ _ => "NTuple" | WObject _ _ => "Object"
  end.
Definition class_to_mir (w : wrap) : string :=
  match w with
  | WScalar t _ _ => mir_name t
  | _ => py_class w
  end.

(* {"size": self.size} if self.size is not None else {} *)
Definition truthy_size (s : option Z) : option Z := s.

(* Collection.to_mir / NadaType.to_mir / ArrayType.to_mir, quirks included *)
Fixpoint to_mir (w : wrap) : res mty :=
  match w with
  | WScalar t _ _ => Ok (TyName (mir_name t))
  | WArray elt size _ =>
      do i <- inner_mir elt; Ok (TyArray i (truthy_size size))
  | WTuple l r _ => do a <- side_mir l; do b <- side_mir r; Ok (TyTuple a b)
  | WNTuple vals _ =>
      (* each component through its own to_mir() *)
      do ts <- (fix go (l : list wrap) : res (list mty) :=
                  match l with
                  | [] => Ok []
                  | v :: r => do t <- to_mir v; do ts <- go r; Ok (t :: ts)
                  end) vals;
      Ok (TyNTuple ts)
  | WObject vals _ =>
      do ts <- (fix go (l : list (string * wrap)) : res (list (string * mty)) :=
                  match l with
                  | [] => Ok []
                  | (k, v) :: r => do t <- to_mir v; do ts <- go r; Ok ((k, t) :: ts)
                  end) vals;
      Ok (TyObject ts)
  end
with inner_mir (d : td) : res mty :=        (* retrieve_inner_type *)
  match d with
  | DTypeVar => Ok (TyName "T")
  | DCls t => Ok (TyName (mir_name t))
  | DInst w => to_mir w
  | DArrayType e s => do i <- marker_mir e; Ok (TyArray i s)
  end
with side_mir (d : td) : res mty :=         (* the left_type / right_type branch of Tuple.to_mir *)
  match d with
  | DCls t => Ok (TyName (mir_name t))
  | DInst w => to_mir w
  | DArrayType e s => do i <- marker_mir e; Ok (TyArray i s)
  | DTypeVar => Err "AttributeError"
  end
with marker_mir (d : td) : res mty :=       (* ArrayType.to_mir calls contained_type.to_mir() *)
  match d with
  | DCls _ => Err "TypeError"              (* unbound method called on a class *)
  | DInst w => to_mir w
  | DArrayType e s => do i <- marker_mir e; Ok (TyArray i s)
  | DTypeVar => Err "AttributeError"
  end.

(* ------------------------------------------------------------ the trace monad *)

Definition M (A : Type) := tstate -> res (A * tstate).
Definition ret {A} (a : A) : M A := fun s => Ok (a, s).
Definition fail {A} (e : string) : M A := fun _ => Err e.
Definition mbind {A B} (m : M A) (f : A -> M B) : M B :=
  fun s => match m s with Ok (a, s') => f a s' | Err e => Err e | OutOfFuel => OutOfFuel end.
Notation "'mdo' x <- m ; k" := (mbind m (fun x => k)) (at level 200, x pattern, m at level 100, k at level 200).
Definition lift {A} (r : res A) : M A :=
  fun s => match r with Ok a => Ok (a, s) | Err e => Err e | OutOfFuel => OutOfFuel end.

Definition alloc : M Z :=
  fun s => let n := counter s + 1 in
           Ok (n, {| counter := n; store := store s; lits := lits s |}).
Definition put (id : Z) (ty : mty) (n : ast) : M unit :=
  fun s => Ok (tt, {| counter := counter s;
                      store := (id, {| r_id := id; r_ty := ty; r_node := n |}) :: store s;
                      lits := lits s |}).

Fixpoint index_of (k : string) (l : list string) (i : Z) : option Z :=
  match l with [] => None | x :: r => if String.eqb k x then Some i else index_of k r (i + 1) end.

Definition z_to_string (z : Z) : string := NilZero.string_of_int (Z.to_int z).

(* ast_util.LITERALS: md5(str(value)+str(ty)) -> index; md5 is modelled as injective *)
Definition lit_index (key : string) : M string :=
  fun s => match index_of key (lits s) 0 with
           | Some i => Ok (z_to_string i, s)
           | None => Ok (z_to_string (Z.of_nat (List.length (lits s))),
                         {| counter := counter s; store := store s; lits := (lits s ++ [key])%list |})
           end.

Definition lit_value_string (b : base) (v : Z) : string :=
  match b with
  | BBool => if Z.eqb v 0 then "False" else "True"
  | _ => z_to_string v
  end.

(* T(value) for a literal class: Literal op allocated and stored *)
Definition new_literal (b : base) (v : Z) : M wrap :=
  let v' := match b with BBool => if Z.eqb v 0 then 0 else 1 | _ => v end in
  mdo id <- alloc;
  let tyname := mir_name (MConst, b) in
  let vs := lit_value_string b v' in
  mdo idx <- lit_index (vs ++ tyname);
  mdo _ <- put id (TyName tyname) (ALiteral vs idx);
  ret (WScalar (MConst, b) (Some id) (Some v')).

Definition need_id (w : wrap) : M Z :=
  match wid w with Some i => ret i | None => fail "AttributeError" end.   (* None.id *)

(* wrap a freshly allocated operation as a scalar of type t and store it *)
Definition emit_scalar (t : sty) (id : Z) (n : ast) : M wrap :=
  match fst t with
  | MConst => fail "TypeError"            (* Integer(child=...) : unexpected keyword *)
  | _ => mdo _ <- put id (TyName (mir_name t)) n; ret (WScalar t (Some id) None)
  end.

Definition value_of (w : wrap) : Z := match w with WScalar _ _ (Some v) => v | _ => 0 end.

Definition pick (roles : list (string * Z)) (field : string) (operands : list wrap) : M Z :=
  match assoc field roles with
  | Some i => match nth_error operands (Z.to_nat i) with
              | Some w => need_id w
              | None => fail "PyMini:bad-role"
              end
  | None => fail "PyMini:missing-role"
  end.

Section WithRules.
Variable G : genv.

Definition scalar_of (w : wrap) : option sty := match w with WScalar t _ _ => Some t | _ => None end.

(* a binary scalar operator / method applied to two wrappers *)
Definition do_binop (o : op) (a b : wrap) : M wrap :=
  match a, b with
  | WScalar ta _ _, WScalar tb _ _ =>
      match rule2v G o ta tb (value_of a) (value_of b) with
      | Reject e => fail e
      | Fold t v => match z_of_value v with
                    | Some z => new_literal (snd t) z
                    | None => fail "PyMini:fold-value"
                    end
      | Emit name t roles =>
          mdo id <- alloc;
          mdo l <- pick roles "left" [a; b];
          mdo r <- pick roles "right" [a; b];
          emit_scalar t id (ABinary name l r)
      | Same i => match i with 0 => ret a | _ => ret b end
      | NonNada w => fail ("PyMini:non-nada:" ++ w)
      | Stuck w => fail ("PyMini:stuck:" ++ w)
      end
  | _, _ => fail "TypeError"                (* operators of collections are not modelled: rejected *)
  end.

Definition do_unop (u : unop) (a : wrap) : M wrap :=
  match a with
  | WScalar ta _ _ =>
      match classify (dispatch_method G (match u with UInvert => "__invert__" | UToPublic => "to_public" end)
                        (operand ta (value_of a) 0) []) with
      | Reject e => fail e
      | Fold t v => match z_of_value v with
                    | Some z => new_literal (snd t) z
                    | None => fail "PyMini:fold-value"
                    end
      | Emit name t roles =>
          mdo id <- alloc;
          mdo c <- pick roles "child" [a];
          emit_scalar t id (AUnary name c)
      | Same _ => ret a
      | NonNada w => fail ("PyMini:non-nada:" ++ w)
      | Stuck w => fail ("PyMini:stuck:" ++ w)
      end
  | _ => fail "AttributeError"
  end.

Definition do_ifelse (c a b : wrap) : M wrap :=
  match c, a, b with
  | WScalar tc _ _, WScalar ta _ _, WScalar tb _ _ =>
      match rule_ifelse G tc ta tb with
      | Reject e => fail e
      | Emit name t roles =>
          mdo id <- alloc;
          mdo x <- pick roles "this" [c; a; b];
          mdo y <- pick roles "arg_0" [c; a; b];
          mdo z <- pick roles "arg_1" [c; a; b];
          emit_scalar t id (AIfElse x y z)
      | _ => fail "PyMini:ifelse-outcome"
      end
  | WScalar _ _ _, _, _ => fail "AttributeError"     (* arg.base_type of a collection *)
  | _, _, _ => fail "AttributeError"
  end.

Definition numeric_base (b : base) : bool := match b with BBool => false | _ => true end.

(* ------------------------------------------------------------ inputs *)

Fixpoint template_of (t : ity) : M wrap :=        (* contained_types(annotation) *)
  match t with
  | IScalar (MConst, b) => mdo w <- new_literal b 0; ret w      (* origin_ty(value=0): a real literal *)
  | IScalar t => ret (WScalar t None None)
  | IArray elt _ => mdo e <- template_of elt; ret (WArray (DInst e) None None)
  end.

Fixpoint mk_input (name party doc : string) (t : ity) : M wrap :=
  match t with
  | IScalar (MConst, _) => mdo _ <- alloc; fail "TypeError"     (* int(Input(...)) *)
  | IScalar t =>
      mdo id <- alloc;
      mdo _ <- put id (TyName (mir_name t)) (AInput name party doc);
      ret (WScalar t (Some id) None)
  | IArray elt size =>
      mdo inner <- mk_input name party doc elt;
      mdo id <- need_id inner;
      (* get_inner_type(child): a copy of the inner wrapper; self.child = child.child *)
      let w := WArray (DInst inner) size (Some id) in
      mdo ty <- lift (to_mir w);
      mdo _ <- put id ty (AInput name party doc);
      ret w
  end.

(* ------------------------------------------------------------ environment *)

Record fnrec := { fn_id : Z; fn_ret : ity; fn_params : list string }.
Inductive binding := BWrap (w : wrap) | BFun (f : fnrec).
Definition env := list (string * binding).

Definition get_wrap (ρ : env) (x : string) : M wrap :=
  match assoc x ρ with
  | Some (BWrap w) => ret w
  | Some (BFun _) => fail "AttributeError"     (* a NadaFunction where a value is needed *)
  | None => fail "NameError"
  end.
Definition get_fun (ρ : env) (x : string) : M fnrec :=
  match assoc x ρ with
  | Some (BFun f) => ret f
  | Some (BWrap _) => fail "PyMini:not-a-function"
  | None => fail "NameError"
  end.

Fixpoint get_wraps (ρ : env) (xs : list string) : M (list wrap) :=
  match xs with
  | [] => ret []
  | x :: r => mdo w <- get_wrap ρ x; mdo ws <- get_wraps ρ r; ret (w :: ws)
  end.
Fixpoint need_ids (ws : list wrap) : M (list Z) :=
  match ws with
  | [] => ret []
  | w :: r => mdo i <- need_id w; mdo is_ <- need_ids r; ret (i :: is_)
  end.

Definition ret_scalar (t : ity) : M sty :=
  match t with
  | IScalar t => ret t
  | IArray _ _ => fail "TypeError"            (* Array(child=...) without size / generic alias *)
  end.

Definition size_eqb (a b : option Z) : bool :=
  match a, b with Some x, Some y => Z.eqb x y | None, None => true | _, _ => false end.

(* _generate_accessor(value, accessor) *)
Definition generate_accessor (value : wrap) (id : Z) (n : ast) : M wrap :=
  match value with
  | WScalar (MConst, _) _ _ => ret value                      (* a literal is returned itself *)
  | WScalar t _ _ => mdo _ <- put id (TyName (mir_name t)) n; ret (WScalar t (Some id) None)
  | WTuple _ _ _ => fail "TypeError"
  | _ => let w := with_id value id in
         mdo ty <- lift (to_mir w); mdo _ <- put id ty n; ret w
  end.

Fixpoint nth_wrap (l : list wrap) (n : nat) : option wrap :=
  match l, n with
  | x :: _, O => Some x
  | _ :: r, S k => nth_wrap r k
  | [], _ => None
  end.

Definition reserved_attr (k : string) : bool :=
  existsb (String.eqb k) ["values"; "child"; "to_mir"; "new"; "retrieve_inner_type"; "class_to_mir";
                          "is_scalar"; "is_literal"; "left_type"; "right_type"; "contained_type"].

Definition is_primitive_integer (t : mty) : bool :=
  match t with
  | TyName n => existsb (String.eqb n) ["Integer"; "PublicInteger"; "SecretInteger"; "UnsignedInteger";
                                        "PublicUnsignedInteger"; "SecretUnsignedInteger"]
  | _ => false
  end.

Definition elt_class (d : td) : res sty :=    (* contained_type if isclass else contained_type.__class__, then called *)
  match d with
  | DCls t => Ok t
  | DInst (WScalar t _ _) => Ok t
  | _ => Err "TypeError"
  end.

(* Signature.bind_partial( *pos, **kw ).args for positional-or-keyword parameters *)
Fixpoint take_bound (params : list string) (kw : list (string * wrap)) : list wrap :=
  match params with
  | [] => []
  | p :: r => match assoc p kw with Some w => w :: take_bound r kw | None => [] end
  end.
Definition bind_partial (params : list string) (pos : list wrap) (kw : list (string * wrap)) : res (list wrap) :=
  if Nat.ltb (List.length params) (List.length pos) then Err "TypeError"
  else
    let taken := firstn (List.length pos) params in
    let rest := skipn (List.length pos) params in
    if existsb (fun k => existsb (String.eqb (fst k)) taken) kw then Err "TypeError"           (* multiple values *)
    else if existsb (fun k => negb (existsb (String.eqb (fst k)) params)) kw then Err "TypeError"  (* unexpected keyword *)
    else Ok (pos ++ take_bound rest kw)%list.

Definition eval_rhs (ρ : env) (r : rhs) : M wrap :=
  match r with
  | RLit b v => new_literal b v
  | RInput name party doc t => mk_input name party doc t
  | RRandom b => mdo id <- alloc; emit_scalar (MSecret, b) id ARandom
  | RBin o a b => mdo x <- get_wrap ρ a; mdo y <- get_wrap ρ b; do_binop o x y
  | RNot a => mdo x <- get_wrap ρ a; do_unop UInvert x
  | RToPublic a => mdo x <- get_wrap ρ a; do_unop UToPublic x
  | RIfElse c a b =>
      mdo x <- get_wrap ρ c; mdo y <- get_wrap ρ a; mdo z <- get_wrap ρ b; do_ifelse x y z
  | RRAdd k a =>
      mdo x <- get_wrap ρ a;
      match x with
      | WScalar (m, b) _ _ =>
          if numeric_base b then mdo l <- new_literal b k; do_binop OAdd x l
          else fail "TypeError"
      | _ => fail "TypeError"
      end
  | RArrayNew es =>
      mdo ws <- get_wraps ρ es;
      match ws with
      | [] => fail "ValueError"
      | first :: _ =>
          (* all(isinstance(arg, type(first_arg)) and arg.to_mir() == first_arg.to_mir() for arg in args) *)
          mdo same <- (fix go (l : list wrap) : M bool :=
                         match l with
                         | [] => ret true
                         | w :: r =>
                             if String.eqb (py_class w) (py_class first) then
                               mdo t <- lift (to_mir w); mdo t0 <- lift (to_mir first);
                               if mty_eqb t t0 then go r else ret false
                             else ret false
                         end) ws;
          if same then
            mdo id <- alloc;
            mdo ids <- need_ids ws;
            let w := WArray (DInst first) (Some (Z.of_nat (List.length ws))) (Some id) in
            mdo ty <- lift (to_mir w);
            mdo _ <- put id ty (ANew "ArrayNew" ids);
            ret w
          else fail "TypeError"
      end
  | RTupleNew a b =>
      mdo x <- get_wrap ρ a; mdo y <- get_wrap ρ b;
      mdo id <- alloc;
      mdo ids <- need_ids [x; y];
      let w := WTuple (DInst x) (DInst y) (Some id) in
      mdo ty <- lift (to_mir w);
      mdo _ <- put id ty (ANew "TupleNew" ids);
      ret w
  | RNTupleNew es =>
      mdo ws <- get_wraps ρ es;
      mdo id <- alloc;
      mdo ids <- need_ids ws;
      let w := WNTuple ws (Some id) in
      mdo ty <- lift (to_mir w);
      mdo _ <- put id ty (ANew "NTupleNew" ids);
      ret w
  | RObjectNew fs =>
      mdo ws <- get_wraps ρ (map snd fs);
      mdo id <- alloc;
      mdo ids <- need_ids ws;
      let w := WObject (combine (map fst fs) ws) (Some id) in
      mdo ty <- lift (to_mir w);
      mdo _ <- put id ty (ANew "ObjectNew" ids);
      ret w
  | RIndex a i =>
      mdo x <- get_wrap ρ a;
      match x with
      | WNTuple vals _ =>
          let n := Z.of_nat (List.length vals) in
          if (i <? 0) || (n <=? i) then fail "IndexError"
          else
            mdo id <- alloc;
            match nth_wrap vals (Z.to_nat i) with
            | Some v => mdo src <- need_id x; generate_accessor v id (ANTupleAcc i src)
            | None => fail "IndexError"
            end
      | _ => fail "TypeError"
      end
  | RField a k =>
      mdo x <- get_wrap ρ a;
      if reserved_attr k then fail "PyMini:shadowed-attribute"
      else match x with
           | WObject vals _ =>
               match assoc k vals with
               | Some v => mdo id <- alloc; mdo src <- need_id x; generate_accessor v id (AObjectAcc k src)
               | None => fail "AttributeError"
               end
           | _ => fail "AttributeError"
           end
  | RMap a f =>
      mdo x <- get_wrap ρ a;
      match x with
      | WArray _ size _ =>
          mdo fr <- get_fun ρ f;
          mdo id <- alloc;
          (* contained_type = nada_function.return_type : a class (possibly not a scalar one) *)
          mdo src <- need_id x;
          match fn_ret fr with
          | IScalar t =>
              let w := WArray (DCls t) size (Some id) in
              mdo ty <- lift (to_mir w);
              mdo _ <- put id ty (AMap src (fn_id fr));
              ret w
          | IArray _ _ => fail "PyMini:array-returning-function"
          end
      | _ => fail "AttributeError"
      end
  | RReduce a f init =>
      mdo x <- get_wrap ρ a;
      match x with
      | WArray _ _ _ =>
          mdo fr <- get_fun ρ f;
          mdo i <- get_wrap ρ init;
          mdo id <- alloc;
          mdo t <- ret_scalar (fn_ret fr);
          mdo src <- need_id x;
          mdo ini <- need_id i;
          emit_scalar t id (AReduce src (fn_id fr) ini)
      | _ => fail "AttributeError"
      end
  | RZip a b =>
      mdo x <- get_wrap ρ a; mdo y <- get_wrap ρ b;
      match x, y with
      | WArray ex sx _, WArray ey sy _ =>
          if negb (size_eqb sx sy) then fail "IncompatibleTypesError"
          else
            mdo id <- alloc;
            mdo l <- need_id x; mdo r <- need_id y;
            let w := WArray (DInst (WTuple ex ey None)) sx (Some id) in
            mdo ty <- lift (to_mir w);
            mdo _ <- put id ty (ABinary "Zip" l r);
            ret w
      | _, _ => fail "AttributeError"
      end
  | RUnzip a =>
      mdo x <- get_wrap ρ a;
      match x with
      | WArray (DInst (WTuple l r _)) size _ =>
          mdo id <- alloc;
          mdo src <- need_id x;
          let w := WTuple (DArrayType l size) (DArrayType r size) (Some id) in
          mdo ty <- lift (to_mir w);
          mdo _ <- put id ty (AUnary "Unzip" src);
          ret w
      | _ => fail "AttributeError"
      end
  | RInner a b =>
      mdo x <- get_wrap ρ a; mdo y <- get_wrap ρ b;
      match x, y with
      | WArray ex sx _, WArray ey sy _ =>
          if negb (size_eqb sx sy) then fail "IncompatibleTypesError"
          else
            (* is_primitive_integer(self.retrieve_inner_type()) and is_primitive_integer(other...) *)
            mdo tx <- lift (inner_mir ex);
            mdo okx <- ret (is_primitive_integer tx);
            mdo oky <- (if okx then mdo ty <- lift (inner_mir ey); ret (is_primitive_integer ty) else ret false);
            if negb (okx && oky) then fail "InvalidTypeError" else
            mdo id <- alloc;
            mdo tl <- lift (elt_class ex);
            mdo tr <- lift (elt_class ey);
            (* the most secret of the two element modes, the receiver's base type *)
            let t := (mode_max (fst tl) (fst tr), snd tl) in
            mdo l <- need_id x; mdo r <- need_id y;
            emit_scalar t id (ABinary "InnerProduct" l r)
      | _, _ => fail "AttributeError"
      end
  | RCall f args kwargs =>
      mdo fr <- get_fun ρ f;
      mdo ws <- get_wraps ρ args;
      mdo ks <- get_wraps ρ (map snd kwargs);
      (* if kwargs: args = inspect.signature(function).bind_partial( *args, **kwargs ).args *)
      mdo all <- (match kwargs with
                  | [] => ret ws
                  | _ => lift (bind_partial (fn_params fr) ws (combine (map fst kwargs) ks))
                  end);
      (* inspect.signature(function).bind(...): every parameter gets exactly one argument *)
      if negb (Nat.eqb (List.length all) (List.length (fn_params fr))) then fail "TypeError" else
      mdo id <- alloc;
      mdo ids <- need_ids all;
      match fn_ret fr with
      | IScalar t =>
          mdo _ <- put id (TyName (mir_name t)) (ACall ids (fn_id fr));
          emit_scalar t id (ACall ids (fn_id fr))
      | IArray _ _ => fail "PyMini:array-returning-function"
      end
  end.

(* ------------------------------------------------------------ statements *)

Fixpoint make_args (fid : Z) (ps : list (string * ity)) : M (list (Z * (string * wrap))) :=
  match ps with
  | [] => ret []
  | (x, t) :: r =>
      mdo tmpl <- template_of t;
      mdo id <- alloc;
      mdo ty <- lift (to_mir tmpl);
      mdo _ <- put id ty (AArg x fid);
      mdo rest <- make_args fid r;
      ret ((id, (x, with_id tmpl id)) :: rest)
  end.

Definition is_const_scalar (t : ity) : bool :=
  match t with IScalar (MConst, _) => true | _ => false end.

Fixpoint exec (fuel : nat) (ρ : env) (ss : list stmt) {struct fuel} : M env :=
  match fuel with
  | O => fun _ => OutOfFuel
  | S n =>
      match ss with
      | [] => ret ρ
      | SLet x r :: rest => mdo w <- eval_rhs ρ r; exec n ((x, BWrap w) :: ρ) rest
      | SDef f params rt body res :: rest =>
          mdo fid <- alloc;
          mdo args <- make_args fid params;
          let ρb := (map (fun a => (fst (snd a), BWrap (snd (snd a)))) (rev args) ++ ρ)%list in
          mdo ρ' <- exec n ρb body;
          mdo child <- get_wrap ρ' res;
          (* NadaFunction.__init__ *)
          match rt with
          | IArray _ _ => fail "TypeError"
          | IScalar t =>
              if mode_eqb (fst t) MConst then fail "NotAllowedException"
              else if forallb (fun p => is_const_scalar (snd p)) params then fail "NotAllowedException"
              else
                mdo cid <- need_id child;
                mdo _ <- put fid (TyName (mir_name t)) (AFunction f (map fst args) cid);
                exec n ((f, BFun {| fn_id := fid; fn_ret := rt; fn_params := map fst params |}) :: ρ) rest
          end
      end
  end.

End WithRules.

Fixpoint stmt_size (s : stmt) : nat :=
  match s with
  | SLet _ _ => 1
  | SDef _ _ _ b _ => S (S ((fix go (l : list stmt) : nat :=
                              match l with [] => O | x :: r => (stmt_size x + go r)%nat end) b))
  end.
Definition stmts_size (ss : list stmt) : nat := S (fold_right (fun s acc => (stmt_size s + acc)%nat) O ss).
