(* Surface language = the language of DSL call sequences in A-normal form.
   A Nada program can use any Python control flow, but (C07) a run performs one fixed
   straight-line sequence of DSL API calls; this is the deep embedding of such sequences.
   "All programs" in a theorem = all terms of [program], of any size and nesting. *)
From Coq Require Import ZArith List String Bool.
From NadaV.Model Require Import Rules.
Import ListNotations.
Open Scope string_scope.

(* declared type of an input / parameter / return annotation *)
Inductive ity :=
| IScalar (t : sty)
| IArray (elt : ity) (size : option Z).

Inductive rhs :=
| RLit (b : base) (v : Z)                              (* Integer(v) / UnsignedInteger(v) / Boolean(v<>0) *)
| RInput (name party doc : string) (t : ity)           (* T(Input(name, party, doc)), Array(T(Input..), size) *)
| RRandom (b : base)                                   (* SecretT.random() *)
| RBin (o : op) (a b : string)
| RNot (a : string)
| RIfElse (c a b : string)
| RToPublic (a : string)
| RRAdd (k : Z) (a : string)                           (* k + a  (sum / reflected add) *)
| RArrayNew (es : list string)
| RTupleNew (a b : string)
| RNTupleNew (es : list string)
| RObjectNew (fs : list (string * string))
| RIndex (a : string) (i : Z)
| RField (a : string) (k : string)
| RMap (a f : string)
| RReduce (a f init : string)
| RZip (a b : string)
| RUnzip (a : string)
| RInner (a b : string)
| RCall (f : string) (args : list string) (kwargs : list (string * string)).

Inductive stmt :=
| SLet (x : string) (r : rhs)
| SDef (f : string) (params : list (string * ity)) (ret : ity) (body : list stmt) (res : string).

Record output := { out_name : string; out_party : string; out_var : string }.
Record program := { p_stmts : list stmt; p_outs : list output }.
