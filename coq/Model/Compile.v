(* Hand-written executable model of compiler_frontend.nada_dsl_to_nada_mir: the
   iterative DFS over AST_OPERATIONS, process_operation, the function worklist and the
   table emission.  Tied to /repo by the MIR correspondence check.  No proofs here. *)
From Coq Require Import ZArith List String Bool.
From NadaV.PyMini Require Import PyMini.
From NadaV.Model Require Import Rules Corr Mir Surface Trace.
Import ListNotations.
Open Scope string_scope.
Open Scope Z_scope.

Definition child_operations (n : ast) : list Z :=
  match n with
  | ABinary _ l r => [l; r]
  | AUnary _ c => [c]
  | AIfElse c t f => [c; t; f]
  | AReduce c _ i => [c; i]
  | AMap c _ => [c]
  | ANew _ es => es
  | ACall args _ => args
  | ANTupleAcc _ s => [s]
  | AObjectAcc _ s => [s]
  | ARandom | AInput _ _ _ | ALiteral _ _ | AArg _ _ | AFunction _ _ _ => []
  end.

Definition ast_to_mop (ty : mty) (n : ast) : mop :=
  match n with
  | ABinary name l r => MBinary name l r
  | AUnary name c => MUnary name c
  | AIfElse c t f => MIfElse c t f
  | ARandom => MRandom
  | AInput name _ _ => MInputRef name
  | ALiteral _ idx => MLiteralRef idx
  | AReduce c fn i => MReduce fn c i
  | AMap c fn => MMap fn c
  | ANew _ es => MNew es
  | ACall args fn => MCall fn args ty
  | AArg name fn => MArgRef fn name
  | AFunction _ _ _ => MEmpty
  | ANTupleAcc i s => MNTupleAcc i s
  | AObjectAcc k s => MObjectAcc k s
  end.

Definition entry_of (r : arec) : mentry :=
  match r_node r with
  | AFunction _ _ _ => {| e_key := r_id r; e_id := -1; e_ty := TyName ""; e_op := MEmpty; e_sref := no_sref |}
  | n => {| e_key := r_id r; e_id := r_id r; e_ty := r_ty r; e_op := ast_to_mop (r_ty r) n; e_sref := no_sref |}
  end.

(* compiler-frontend global tables *)
Record cstate := {
  c_inputs : list (string * list (string * (Z * mty * string)));   (* party -> name -> (op id, type, doc) *)
  c_parties : list string;
  c_literals : list (string * (string * mty));                     (* index -> (value, type) *)
  c_functions : list Z                                             (* FUNCTIONS keys, insertion order *)
}.

Fixpoint sassoc {A} (k : string) (l : list (string * A)) : option A :=
  match l with [] => None | (k', v) :: r => if String.eqb k k' then Some v else sassoc k r end.
Fixpoint supdate {A} (k : string) (v : A) (l : list (string * A)) : list (string * A) :=
  match l with
  | [] => [(k, v)]
  | (k', v') :: r => if String.eqb k k' then (k, v) :: r else (k', v') :: supdate k v r
  end.
Definition sadd (k : string) (l : list string) : list string := if smem k l then l else l ++ [k].
Definition zadd (k : Z) (l : list Z) : list Z := if zmem k l then l else l ++ [k].

(* add_input_to_map: the name must not be registered, under any party, for a different operation *)
Definition add_input (id : Z) (ty : mty) (name party doc : string) (c : cstate) : res cstate :=
  let pin := match sassoc party (c_inputs c) with Some l => l | None => [] end in
  if existsb (fun pl => match sassoc name (snd pl) with
                        | Some (id', _, _) => negb (Z.eqb id' id)
                        | None => false end) (c_inputs c)
  then Err "CompilerException"
  else Ok {| c_inputs := supdate party (supdate name (id, ty, doc) pin) (c_inputs c);
             c_parties := sadd party (c_parties c); c_literals := c_literals c; c_functions := c_functions c |}.

Definition add_literal (idx value : string) (ty : mty) (c : cstate) : cstate :=
  {| c_inputs := c_inputs c; c_parties := c_parties c;
     c_literals := supdate idx (value, ty) (c_literals c); c_functions := c_functions c |}.

(* process_operation: effect of one operation on the discovered functions and global tables *)
Definition step_node (functions : list Z) (r : arec) (extra : list Z) (c : cstate) : res (list Z * cstate) :=
  match r_node r with
  | AInput name party doc => do c' <- add_input (r_id r) (r_ty r) name party doc c; Ok (extra, c')
  | ALiteral v idx => Ok (extra, add_literal idx v (r_ty r) c)
  | AMap _ fn | AReduce _ fn _ | ACall _ fn => Ok (if zmem fn functions then extra else zadd fn extra, c)
  | AFunction _ _ _ => Ok (if zmem (r_id r) functions then extra else zadd (r_id r) extra, c)
  | _ => Ok (extra, c)
  end.

(* traverse_and_process_operations: iterative DFS; returns the new table, the extra
   functions discovered (not yet in [functions]) and the updated global tables.
   stack.extend(children) appends, pop() takes from the end: the head of [stack] is the top. *)
Fixpoint traverse (fuel : nat) (st : list (Z * arec)) (functions : list Z)
         (stack : list Z) (ops : list mentry) (extra : list Z) (c : cstate)
  : res (list mentry * list Z * cstate) :=
  match fuel with
  | O => OutOfFuel
  | S n =>
      match stack with
      | [] => Ok (ops, extra, c)
      | k :: rest =>
          if zmem k (map e_key ops) then traverse n st functions rest ops extra c
          else
            match lookup k st with
            | None => Err "KeyError"
            | Some r =>
                match step_node functions r extra c with
                | Ok (extra', c') =>
                    traverse n st functions (rev (child_operations (r_node r)) ++ rest)
                             (ops ++ [entry_of r]) extra' c'
                | Err e => Err e
                | OutOfFuel => OutOfFuel
                end
            end
      end
  end.

Definition store_fuel (st : list (Z * arec)) : nat :=
  (2 * (List.length st + fold_right (fun kr acc => (List.length (child_operations (r_node (snd kr))) + acc)%nat) O st) + 4)%nat.

(* function.to_mir(operations): argument records are read back from AST_OPERATIONS *)
Fixpoint arg_records (st : list (Z * arec)) (l : list Z) : res (list marg) :=
  match l with
  | [] => Ok []
  | a :: l' =>
      match lookup a st with
      | Some {| r_ty := ty; r_node := AArg an _ |} =>
          do t <- arg_records st l'; Ok ({| a_name := an; a_ty := ty; a_sref := no_sref |} :: t)
      | Some _ => Err "AttributeError"
      | None => Err "KeyError"
      end
  end.

(* to_mir_function_list: LIFO worklist over discovered functions *)
Fixpoint functions_loop (fuel : nat) (st : list (Z * arec)) (functions : list Z) (stack : list Z)
         (acc : list mfun) (c : cstate) : res (list mfun * list Z * cstate) :=
  match fuel with
  | O => OutOfFuel
  | S n =>
      match stack with
      | [] => Ok (acc, functions, c)
      | f :: rest =>
          match lookup f st with
          | Some {| r_id := fid; r_ty := rty; r_node := AFunction name args child |} =>
              do r <- traverse (store_fuel st) st functions [child] [] [] c;
              let '(ops, extra, c') := r in
              (* function.to_mir(operations): argument records are read from AST_OPERATIONS *)
              do margs <- arg_records st args;
              let mf := {| f_id := fid; f_args := margs; f_name := name; f_ret := child;
                           f_ops := ops; f_ret_ty := rty; f_sref := no_sref |} in
              functions_loop n st (functions ++ extra) (rev extra ++ rest) (acc ++ [mf]) c'
          | Some _ => Err "AttributeError"
          | None => Err "KeyError"
          end
      end
  end.

Record cout := { co_name : string; co_party : string; co_id : Z }.

Fixpoint outputs_loop (st : list (Z * arec)) (functions : list Z) (outs : list cout)
         (ops : list mentry) (macc : list moutput) (c : cstate)
  : res (list mentry * list moutput * list Z * cstate) :=
  match outs with
  | [] => Ok (ops, macc, functions, c)
  | o :: rest =>
      do r <- traverse (store_fuel st) st functions [co_id o] ops [] c;
      let '(ops', extra, c') := r in
      match lookup (co_id o) st with
      | Some rec =>
          let c'' := {| c_inputs := c_inputs c'; c_parties := sadd (co_party o) (c_parties c');
                        c_literals := c_literals c'; c_functions := c_functions c' |} in
          outputs_loop st (functions ++ extra) rest ops'
            (macc ++ [{| o_op := co_id o; o_name := co_name o; o_party := co_party o;
                         o_ty := r_ty rec; o_sref := no_sref |}]) c''
      | None => Err "KeyError"
      end
  end.

Definition empty_cstate (functions : list Z) : cstate :=
  {| c_inputs := []; c_parties := []; c_literals := []; c_functions := functions |}.

(* nada_dsl_to_nada_mir(outputs), given the (never cleared) FUNCTIONS table it starts from *)
Definition compile (st : list (Z * arec)) (functions0 : list Z) (outs : list cout) : res (mir * list Z) :=
  do r <- outputs_loop st functions0 outs [] [] (empty_cstate functions0);
  let '(ops, mouts, functions, c) := r in
  (* stack = list(functions.values()); pop() from the end *)
  do r2 <- functions_loop (S (List.length st)) st functions (rev functions) [] c;
  let '(mfuns, functions', c') := r2 in
  Ok ({| m_functions := mfuns;
         m_parties := map (fun p => {| p_name := p; p_sref := no_sref |}) (c_parties c');
         m_inputs := flat_map (fun pl => map (fun nl => let '(n, (id, ty, doc)) := nl in
                                 {| i_name := n; i_ty := ty; i_party := fst pl; i_doc := doc; i_sref := no_sref |})
                                 (snd pl)) (c_inputs c');
         m_literals := map (fun l => {| l_name := fst l; l_value := fst (snd l); l_ty := snd (snd l) |})
                           (c_literals c');
         m_outputs := mouts;
         m_ops := ops |}, functions').

Section Run.
Variable G : genv.

(* Output(child, name, party): child must be a NadaType instance *)
Fixpoint make_outputs (ρ : env) (outs : list output) : res (list cout) :=
  match outs with
  | [] => Ok []
  | o :: rest =>
      match assoc (out_var o) ρ with
      | Some (BWrap w) =>
          do t <- make_outputs ρ rest;
          Ok ({| co_name := out_name o; co_party := out_party o; co_id := match wid w with Some i => i | None => -1 end |} :: t)
      | Some (BFun _) => Err "InvalidTypeError"
      | None => Err "NameError"
      end
  end.

Definition has_no_id (ρ : env) (o : output) : bool :=
  match assoc (out_var o) ρ with Some (BWrap w) => match wid w with None => true | _ => false end | _ => false end.

(* trace nada_main() from a state, then compile *)
Definition run_from (s : tstate) (functions0 : list Z) (p : program) : res (mir * tstate * list Z) :=
  match exec G (stmts_size (p_stmts p)) [] (p_stmts p) s with
  | Ok (ρ, s') =>
      do couts <- make_outputs ρ (p_outs p);
      if existsb (has_no_id ρ) (p_outs p) then Err "AttributeError"
      else
        do r <- compile (store s') functions0 couts;
        Ok (fst r, s', snd r)
  | Err e => Err e
  | OutOfFuel => OutOfFuel
  end.

Definition run (p : program) : res mir :=
  do r <- run_from init_state [] p; Ok (fst (fst r)).

End Run.

(* ------------------------------------------------------------ comparison *)

Fixpoint insert_entry (e : mentry) (l : list mentry) : list mentry :=
  match l with
  | [] => [e]
  | x :: r => if e_key e <=? e_key x then e :: l else x :: insert_entry e r
  end.
Definition sort_entries (l : list mentry) : list mentry := fold_right insert_entry [] l.

Definition entry_eqb (a b : mentry) : bool :=
  Z.eqb (e_key a) (e_key b) && Z.eqb (e_id a) (e_id b) && mty_eqb (e_ty a) (e_ty b) && mop_eqb (e_op a) (e_op b).

Fixpoint list_eqb {A} (f : A -> A -> bool) (a b : list A) : bool :=
  match a, b with
  | [], [] => true
  | x :: a', y :: b' => f x y && list_eqb f a' b'
  | _, _ => false
  end.

Definition table_eqb (a b : list mentry) : bool := list_eqb entry_eqb (sort_entries a) (sort_entries b).

Fixpoint insert_fun (e : mfun) (l : list mfun) : list mfun :=
  match l with
  | [] => [e]
  | x :: r => if f_id e <=? f_id x then e :: l else x :: insert_fun e r
  end.
Definition fun_eqb (a b : mfun) : bool :=
  Z.eqb (f_id a) (f_id b) && String.eqb (f_name a) (f_name b) && Z.eqb (f_ret a) (f_ret b)
  && mty_eqb (f_ret_ty a) (f_ret_ty b)
  && list_eqb (fun x y => String.eqb (a_name x) (a_name y) && mty_eqb (a_ty x) (a_ty y)) (f_args a) (f_args b)
  && table_eqb (f_ops a) (f_ops b).

Fixpoint str_leb (a b : string) : bool :=
  match a, b with
  | EmptyString, _ => true
  | String _ _, EmptyString => false
  | String c a', String d b' =>
      if Nat.ltb (Ascii.nat_of_ascii c) (Ascii.nat_of_ascii d) then true
      else if Nat.ltb (Ascii.nat_of_ascii d) (Ascii.nat_of_ascii c) then false
      else str_leb a' b'
  end.
Fixpoint insert_by {A} (key : A -> string) (e : A) (l : list A) : list A :=
  match l with
  | [] => [e]
  | x :: r => if str_leb (key e) (key x) then e :: l else x :: insert_by key e r
  end.
Definition sort_by {A} (key : A -> string) (l : list A) : list A := fold_right (insert_by key) [] l.

(* equality of two MIRs up to table order, ignoring source references *)
Definition mir_eqb (a b : mir) : bool :=
  table_eqb (m_ops a) (m_ops b)
  && list_eqb fun_eqb (fold_right insert_fun [] (m_functions a)) (fold_right insert_fun [] (m_functions b))
  && list_eqb String.eqb (sort_by (fun x => x) (map p_name (m_parties a))) (sort_by (fun x => x) (map p_name (m_parties b)))
  && list_eqb (fun x y => String.eqb (i_name x) (i_name y) && String.eqb (i_party x) (i_party y)
                          && String.eqb (i_doc x) (i_doc y) && mty_eqb (i_ty x) (i_ty y))
       (sort_by (fun i => i_party i ++ "/" ++ i_name i) (m_inputs a))
       (sort_by (fun i => i_party i ++ "/" ++ i_name i) (m_inputs b))
  && list_eqb (fun x y => String.eqb (l_name x) (l_name y) && String.eqb (l_value x) (l_value y) && mty_eqb (l_ty x) (l_ty y))
       (sort_by l_name (m_literals a)) (sort_by l_name (m_literals b))
  && list_eqb (fun x y => Z.eqb (o_op x) (o_op y) && String.eqb (o_name x) (o_name y)
                          && String.eqb (o_party x) (o_party y) && mty_eqb (o_ty x) (o_ty y))
       (m_outputs a) (m_outputs b).

(* outcome of the implementation on a program, as data *)
Inductive ioutcome := IOk (m : mir) | IRaise (exn : string).

Definition outcome_agrees (r : res mir) (i : ioutcome) : bool :=
  match r, i with
  | Ok m, IOk m' => mir_eqb m m'
  | Err _, IRaise _ => true            (* rejection is compared coarsely *)
  | _, _ => false
  end.

(* ------------------------------------------------------------ histories (C08) *)
Inductive hstep :=
| HComplete (p : program)                 (* traced and compiled (compilation may have raised) *)
| HAbortTrace (prefix : list stmt).       (* nada_main raised after these top-level statements *)

Section History.
Variable G : genv.
(* whether nada_dsl_to_nada_mir clears FUNCTIONS at its start (from GenFrontend.cleared) *)
Variable functions_cleared : bool.

Fixpoint after_history (h : list hstep) (s : tstate) (fns : list Z) : res (tstate * list Z) :=
  match h with
  | [] => Ok (s, fns)
  | HAbortTrace ss :: r =>
      match exec G (stmts_size ss) [] ss s with
      | Ok (_, s') => after_history r s' fns
      | Err e => Err e
      | OutOfFuel => OutOfFuel
      end
  | HComplete p :: r =>
      match exec G (stmts_size (p_stmts p)) [] (p_stmts p) s with
      | Ok (ρ, s') =>
          (* the compilation's effect on FUNCTIONS survives unless it is cleared next time *)
          let fns0 := if functions_cleared then [] else fns in
          let fns' := match make_outputs ρ (p_outs p) with
                      | Ok couts => match compile (store s') fns0 couts with
                                    | Ok (_, f) => f
                                    | _ => fns0
                                    end
                      | _ => fns0
                      end in
          after_history r s' fns'
      | Err e => Err e
      | OutOfFuel => OutOfFuel
      end
  end.

Definition run_after (h : list hstep) (p : program) : res mir :=
  do sf <- after_history h init_state [];
  let '(s, fns) := sf in
  do r <- run_from G s (if functions_cleared then [] else fns) p;
  Ok (fst (fst r)).
End History.
