(* The one unbounded loop of audit/strict.py: the walk down a subscripted assignment target
   (`l[0][1] = v`).  Extracted as a shape by tools/extract.py (Gen/GenAudit.v): whether the loop
   leaves the target unchanged without breaking when the inner value is neither a Name nor a
   Subscript.  Model: one step of the loop on an abstract target. *)
From Coq Require Import List Bool.
Import ListNotations.

Inductive target :=
| TName                         (* ast.Name *)
| TSub (inner : target)         (* ast.Subscript with an integer index *)
| TOther.                       (* Attribute, Call, ... *)

Inductive step_result := Continue (t : target) | Stop | Spin.     (* Spin: the state does not change: divergence *)

(* one iteration of `while isinstance(target_, ast.Subscript): ...` *)
Definition loop_step (breaks_on_other : bool) (t : target) : step_result :=
  match t with
  | TSub inner =>
      match inner with
      | TName | TSub _ => Continue inner
      | TOther => if breaks_on_other then Stop else Spin
      end
  | _ => Stop
  end.

Fixpoint target_size (t : target) : nat := match t with TSub i => S (target_size i) | _ => 1 end.

Fixpoint run_loop (fuel : nat) (breaks_on_other : bool) (t : target) : option bool :=   (* Some true: terminated *)
  match fuel with
  | O => None
  | S n => match loop_step breaks_on_other t with
           | Continue t' => run_loop n breaks_on_other t'
           | Stop => Some true
           | Spin => Some false
           end
  end.
