(* The command-line entry point of nada_dsl.compile (the `if __name__ == "__main__"` block):
   which branch runs and what is printed, as a function of argv and of how the compilation
   ended.  Hand-written from the block whose source is pinned by the table obligation
   src_compile_main; tied by the process-level differential matrix of tools/props/c13.py. *)
From Coq Require Import List String Bool.
Import ListNotations.
Open Scope string_scope.

Inductive ended :=
| Compiled                         (* the entry function returned a CompilerOutput *)
| RaisedException                  (* an instance of Exception was raised (import, trace, compile) *)
| RaisedBaseException.             (* SystemExit / KeyboardInterrupt: not caught by `except Exception` *)

Inductive line := LSuccess | LFailure.

(* argv includes the program name at position 0 *)
Definition cli (argv : list string) (script_result string_result : ended) : list line :=
  let printed (r : ended) := match r with
                             | Compiled => [LSuccess]
                             | RaisedException => [LFailure]
                             | RaisedBaseException => []
                             end in
  match argv with
  | [] | [_] => [LFailure]                       (* MissingProgramArgumentError is raised inside the try *)
  | [_; path] => printed script_result
  | [_; flag; s] => if String.eqb flag "-s" then printed string_result else []
  | _ => []
  end.

Definition invoked_with_program (argv : list string) : bool :=
  match argv with
  | [_; _] => true
  | [_; flag; _] => String.eqb flag "-s"
  | _ => false
  end.

(* timers: the NOP clock and the default clock touch only their own dictionaries *)
Inductive clock := Nop | Default (running finished : list string).
Definition clock_start (c : clock) (n : string) : option clock :=
  match c with
  | Nop => Some Nop
  | Default r f => if existsb (String.eqb n) r then None else Some (Default (n :: r) f)
  end.
Definition clock_stop (c : clock) (n : string) : option clock :=
  match c with
  | Nop => Some Nop
  | Default r f => if existsb (String.eqb n) r
                   then Some (Default (filter (fun x => negb (String.eqb x n)) r) (n :: f)) else None
  end.
