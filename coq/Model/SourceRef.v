(* Source references: the line-offset arithmetic of SourceRef.try_get_line_info and the frame
   selection of SourceRef.back_frame, parametrised by the constants the extractor recognises in
   source_ref.py (Gen/GenSourceRef.v). *)
From Coq Require Import ZArith List String Bool Ascii Lia.
Import ListNotations.
Open Scope string_scope.

Definition nl : string := String (ascii_of_nat 10) EmptyString.

(* the text whose splitlines() are [lines] (without a final newline) *)
Fixpoint join (ls : list string) : string :=
  match ls with
  | [] => ""
  | [l] => l
  | l :: r => l ++ nl ++ join r
  end.

Fixpoint offset_of (plus : nat) (ls : list string) (k : nat) : nat :=
  match k, ls with
  | O, _ => O
  | S k', l :: r => String.length l + plus + offset_of plus r k'
  | S _, [] => O
  end.

(* try_get_line_info, from `lines = src.splitlines()` on *)
Definition line_info (guard_le : bool) (plus range_minus index_minus : Z) (lines : list string) (lineno : Z)
  : Z * Z :=
  let n := Z.of_nat (List.length lines) in
  if (if guard_le then Z.leb lineno n else Z.ltb lineno n) then
    (Z.of_nat (offset_of (Z.to_nat plus) lines (Z.to_nat (lineno - range_minus))),
     Z.of_nat (String.length (nth (Z.to_nat (lineno - index_minus)) lines "")))
  else (0%Z, 0%Z).

(* ---- frame selection *)
Inductive fkind := User | Dsl.
Record frame := { fr_kind : fkind; fr_file : string; fr_line : Z }.

Fixpoint walk (stack : list frame) : option frame :=
  match stack with
  | [] => None
  | [f] => Some f                               (* f_back is None: stop *)
  | f :: rest => match fr_kind f with Dsl => walk rest | User => Some f end
  end.

(* stack: frame 0 is back_frame's own frame, frame 1 its caller, ... *)
Definition select (hops : Z) (walks : bool) (stack : list frame) : option frame :=
  let s := skipn (Z.to_nat hops) stack in
  if walks then walk s else hd_error s.

(* what the check compares on implementation MIRs *)
Definition ref_okb (eol_len : nat) (lines : list string) (file : string) (expected_line : Z)
           (r_file : string) (r_line r_off r_len : Z) : bool :=
  String.eqb r_file file && Z.eqb r_line expected_line
  && Z.leb 1 r_line && Z.leb r_line (Z.of_nat (List.length lines))
  && Z.eqb r_off (Z.of_nat (offset_of eol_len lines (Z.to_nat (r_line - 1))))
  && Z.eqb r_len (Z.of_nat (String.length (nth (Z.to_nat (r_line - 1)) lines ""))).

Record refitem := { ri_label : string; ri_candidates : list Z; ri_file : string; ri_line : Z; ri_off : Z; ri_len : Z }.
Fixpoint bad_items (eol_len : nat) (lines : list string) (file : string) (items : list refitem) (i : Z) : list Z :=
  match items with
  | [] => []
  | it :: r =>
      if existsb (fun c => ref_okb eol_len lines file c (ri_file it) (ri_line it) (ri_off it) (ri_len it)) (ri_candidates it)
      then bad_items eol_len lines file r (i + 1)%Z else i :: bad_items eol_len lines file r (i + 1)%Z
  end.

(* ------------------------------------------------------------------------------------------
   The process-global source tables (USED_SOURCES, _SOURCE_PATHS, REFS / index_map) as a state
   machine.  The three booleans say what the code does (recognised in source_ref.py /
   compiler_frontend.py by the extractor): whether a compilation starts by resetting the reference
   index, whether get_sources() keeps only the files the indexed references point into, whether
   the text cache is validated by path and modification stamp.  Tied to the real functions by tools/props/c08.py. *)
Record sref0 := { s_file : string; s_line : Z; s_off : Z; s_len : Z }.
Definition sref0_eqb (a b : sref0) : bool :=
  String.eqb (s_file a) (s_file b) && Z.eqb (s_line a) (s_line b) && Z.eqb (s_off a) (s_off b) && Z.eqb (s_len a) (s_len b).

Record centry := { c_base : string; c_path : string; c_ver : Z; c_text : string }.     (* c_ver: the file's modification stamp *)
Record stabs := { t_refs : list sref0; t_cache : list centry }.

Inductive sop :=
| OTouch (path base : string) (ver : Z) (disk_text : string)
      (* try_get_line_info on a frame of the file [path], whose modification stamp is [ver] and text on disk [disk_text] *)
| OIndex (r : sref0)                         (* SourceRef.to_index() *)
| OCompileStart.                             (* the first statements of nada_dsl_to_nada_mir *)

Section Tabs.
Variables (resets filtered by_path : bool).

Fixpoint cache_find (b : string) (c : list centry) : option centry :=
  match c with [] => None | e :: r => if String.eqb (c_base e) b then Some e else cache_find b r end.
Fixpoint cache_put (e : centry) (c : list centry) : list centry :=
  match c with
  | [] => [e]
  | x :: r => if String.eqb (c_base x) (c_base e) then e :: r else x :: cache_put e r
  end.

Definition touch (path base : string) (ver : Z) (disk : string) (s : stabs) : stabs :=
  match cache_find base (t_cache s) with
  | Some e =>
      if by_path && negb (String.eqb (c_path e) path && Z.eqb (c_ver e) ver)
      then {| t_refs := t_refs s; t_cache := cache_put {| c_base := base; c_path := path; c_ver := ver; c_text := disk |} (t_cache s) |}
      else s
  | None => {| t_refs := t_refs s; t_cache := cache_put {| c_base := base; c_path := path; c_ver := ver; c_text := disk |} (t_cache s) |}
  end.

Definition index (r : sref0) (s : stabs) : stabs :=
  if existsb (sref0_eqb r) (t_refs s) then s else {| t_refs := t_refs s ++ [r]; t_cache := t_cache s |}.

Definition tstep (s : stabs) (o : sop) : stabs :=
  match o with
  | OTouch p b v d => touch p b v d s
  | OIndex r => index r s
  | OCompileStart => if resets then {| t_refs := []; t_cache := t_cache s |} else s
  end.

(* "source_refs" and "source_files" of the MIR returned at this point *)
Definition emit_refs (s : stabs) : list sref0 := t_refs s.
Definition emit_files (s : stabs) : list (string * string) :=
  map (fun e => (c_base e, c_text e))
      (if filtered then filter (fun e => existsb (fun r => String.eqb (s_file r) (c_base e)) (t_refs s)) (t_cache s)
       else t_cache s).
End Tabs.
