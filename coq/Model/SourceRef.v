(* Source references: the line-offset arithmetic of SourceRef.try_get_line_info and the frame
   selection of SourceRef.back_frame, parametrised by the constants the extractor recognises in
   source_ref.py (Gen/GenSourceRef.v). *)
From Coq Require Import ZArith List String Bool Ascii Lia.
Import ListNotations.
Open Scope string_scope.

Definition nl : string := String (ascii_of_nat 10) EmptyString.

(* the text whose splitlines() are [lines] (without a final newline) *)
Fixpoint join (ls : list string) : string :=
  match ls with
  | [] => ""
  | [l] => l
  | l :: r => l ++ nl ++ join r
  end.

Fixpoint offset_of (plus : nat) (ls : list string) (k : nat) : nat :=
  match k, ls with
  | O, _ => O
  | S k', l :: r => String.length l + plus + offset_of plus r k'
  | S _, [] => O
  end.

(* try_get_line_info, from `lines = src.splitlines()` on *)
Definition line_info (guard_le : bool) (plus range_minus index_minus : Z) (lines : list string) (lineno : Z)
  : Z * Z :=
  let n := Z.of_nat (List.length lines) in
  if (if guard_le then Z.leb lineno n else Z.ltb lineno n) then
    (Z.of_nat (offset_of (Z.to_nat plus) lines (Z.to_nat (lineno - range_minus))),
     Z.of_nat (String.length (nth (Z.to_nat (lineno - index_minus)) lines "")))
  else (0%Z, 0%Z).

(* ---- frame selection *)
Inductive fkind := User | Dsl.
Record frame := { fr_kind : fkind; fr_file : string; fr_line : Z }.

Fixpoint walk (stack : list frame) : option frame :=
  match stack with
  | [] => None
  | [f] => Some f                               (* f_back is None: stop *)
  | f :: rest => match fr_kind f with Dsl => walk rest | User => Some f end
  end.

(* stack: frame 0 is back_frame's own frame, frame 1 its caller, ... *)
Definition select (hops : Z) (walks : bool) (stack : list frame) : option frame :=
  let s := skipn (Z.to_nat hops) stack in
  if walks then walk s else hd_error s.

(* what the check compares on implementation MIRs *)
Definition ref_okb (eol_len : nat) (lines : list string) (file : string) (expected_line : Z)
           (r_file : string) (r_line r_off r_len : Z) : bool :=
  String.eqb r_file file && Z.eqb r_line expected_line
  && Z.leb 1 r_line && Z.leb r_line (Z.of_nat (List.length lines))
  && Z.eqb r_off (Z.of_nat (offset_of eol_len lines (Z.to_nat (r_line - 1))))
  && Z.eqb r_len (Z.of_nat (String.length (nth (Z.to_nat (r_line - 1)) lines ""))).

Record refitem := { ri_label : string; ri_candidates : list Z; ri_file : string; ri_line : Z; ri_off : Z; ri_len : Z }.
Fixpoint bad_items (eol_len : nat) (lines : list string) (file : string) (items : list refitem) (i : Z) : list Z :=
  match items with
  | [] => []
  | it :: r =>
      if existsb (fun c => ref_okb eol_len lines file c (ri_file it) (ri_line it) (ri_off it) (ri_len it)) (ri_candidates it)
      then bad_items eol_len lines file r (i + 1)%Z else i :: bad_items eol_len lines file r (i + 1)%Z
  end.
