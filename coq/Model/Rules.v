(* Scalar operator rules: CPython's operator dispatch protocol (hand model, tied by
   the exhaustive correspondence of tools/c02_impl.py) applied to the GENERATED class
   table and method bodies (Gen/GenScalar.v), evaluated by PyMini. *)
From Coq Require Import ZArith List String Bool.
From NadaV.PyMini Require Import PyMini.
Import ListNotations.
Open Scope string_scope.

Inductive mode := MConst | MPublic | MSecret.
Inductive base := BBool | BInt | BUInt.
Definition sty : Type := (mode * base)%type.

Definition mode_eqb (a b : mode) : bool :=
  match a, b with MConst, MConst | MPublic, MPublic | MSecret, MSecret => true | _, _ => false end.
Definition base_eqb (a b : base) : bool :=
  match a, b with BBool, BBool | BInt, BInt | BUInt, BUInt => true | _, _ => false end.
Definition sty_eqb (a b : sty) : bool := mode_eqb (fst a) (fst b) && base_eqb (snd a) (snd b).

Definition mode_rank (m : mode) : nat := match m with MConst => 1 | MPublic => 2 | MSecret => 3 end.
Definition mode_max (a b : mode) : mode := if Nat.leb (mode_rank a) (mode_rank b) then b else a.

Definition all_modes := [MConst; MPublic; MSecret].
Definition all_bases := [BBool; BInt; BUInt].
Definition all_stys : list sty := list_prod all_modes all_bases.

(* The nine class names are fixed vocabulary of the property text. *)
Definition class_of (t : sty) : string :=
  match t with
  | (MConst, BInt) => "Integer" | (MConst, BUInt) => "UnsignedInteger" | (MConst, BBool) => "Boolean"
  | (MPublic, BInt) => "PublicInteger" | (MPublic, BUInt) => "PublicUnsignedInteger"
  | (MPublic, BBool) => "PublicBoolean"
  | (MSecret, BInt) => "SecretInteger" | (MSecret, BUInt) => "SecretUnsignedInteger"
  | (MSecret, BBool) => "SecretBoolean"
  end.

Definition sty_of_class (c : string) : option sty :=
  find (fun t => String.eqb (class_of t) c) all_stys.

(* operand object number [i] of type [t]; a literal carries the value [v] *)
Definition operand (t : sty) (v : Z) (i : Z) : value :=
  match t with
  | (MConst, BBool) =>
      let b := VBool (negb (Z.eqb v 0)) in
      VObj (class_of t) [("value", b); ("child", VObj "Literal" [("value", b)]); ("__tag__", VInt i)]
  | (MConst, _) =>
      VObj (class_of t) [("value", VInt v); ("child", VObj "Literal" [("value", VInt v)]); ("__tag__", VInt i)]
  | _ => VObj (class_of t) [("child", VObj "Opaque" []); ("__tag__", VInt i)]
  end.

Inductive outcome :=
| Reject (exn : string)
| Fold (t : sty) (v : value)
| Emit (opname : string) (t : sty) (roles : list (string * Z))   (* field of the new operation -> operand tag *)
| Same (i : Z)                                              (* the operand itself is returned *)
| NonNada (what : string)                                   (* a plain Python value came back *)
| Stuck (why : string).                                     (* PyMini internal error / fuel *)

Definition tag_of (v : value) : option Z :=
  match v with
  | VObj _ fs => match assoc "__tag__" fs with Some (VInt i) => Some i | _ => None end
  | _ => None
  end.

Fixpoint roles_of (fs : list (string * value)) : list (string * Z) :=
  match fs with
  | [] => []
  | (k, v) :: r => match tag_of v with Some i => (k, i) :: roles_of r | None => roles_of r end
  end.

Definition is_internal (e : string) : bool := String.prefix "PyMini:" e.

Definition classify (r : res value) : outcome :=
  match r with
  | OutOfFuel => Stuck "fuel"
  | Err e => if is_internal e then Stuck e else Reject e
  | Ok v =>
      match tag_of v with
      | Some i => Same i
      | None =>
          match v with
          | VObj cls fs =>
              match sty_of_class cls with
              | Some t =>
                  match assoc "child" fs with
                  | Some (VObj "Literal" _) =>
                      match assoc "value" fs with
                      | Some x => Fold t x
                      | None => Stuck "literal-without-value"
                      end
                  | Some (VObj opname ofs) => Emit opname t (roles_of ofs)
                  | _ => Stuck "wrapper-without-child"
                  end
              | None => NonNada cls
              end
          | VBool _ => NonNada "bool"
          | VInt _ => NonNada "int"
          | VNone => NonNada "None"
          | _ => NonNada "other"
          end
      end
  end.

(* ---------- CPython binary operator protocol over the generated class table ---- *)

(* __eq__/__ne__ resolution sees the structural __eq__ a bare @dataclass installs *)
Fixpoint find_eq_in_mro (G : genv) (mro : list string) (m : string) : option (option (string * fundef)) :=
  match mro with
  | [] => None
  | c :: r =>
      match find_class (g_classes G) c with
      | Some cd =>
          match assoc m (c_methods cd) with
          | Some fd => Some (Some (c, fd))
          | None => if (String.eqb m "__eq__") && c_dataclass_eq cd then Some None
                    else find_eq_in_mro G r m
          end
      | None => find_eq_in_mro G r m
      end
  end.

Definition call_meth (G : genv) (self : value) (cls m : string) (args : list value) : res value :=
  apply FUEL G (VBound self cls m) args [].

Definition cls_of (v : value) : string := class_name_of v.

Definition is_ni (r : res value) : bool :=
  match r with Ok (VBuiltin "NotImplemented") => true | _ => false end.

(* call a special method; None when the class does not define it or it returns NotImplemented *)
Definition try_meth (G : genv) (a : value) (m : string) (args : list value) : option (res value) :=
  match find_method G (cls_of a) m with
  | Some (c, _) => let r := call_meth G a c m args in if is_ni r then None else Some r
  | None => None
  end.

(* arithmetic / bitwise / shift operators:  a.__op__(b), else (types differ) b.__rop__(a) *)
Definition dispatch_arith (G : genv) (dunder rdunder : string) (a b : value) : res value :=
  match try_meth G a dunder [b] with
  | Some r => r
  | None =>
      if String.eqb (cls_of a) (cls_of b) then Err "TypeError"
      else match try_meth G b rdunder [a] with
           | Some r => r
           | None => Err "TypeError"
           end
  end.

(* ordering comparisons: a.__lt__(b), else the reflected b.__gt__(a), else TypeError *)
Definition dispatch_order (G : genv) (dunder refl : string) (a b : value) : res value :=
  match try_meth G a dunder [b] with
  | Some r => r
  | None =>
      match try_meth G b refl [a] with
      | Some r => r
      | None => Err "TypeError"
      end
  end.

(* one side of == / != : a user-defined method, the dataclass structural one (a Python bool),
   or nothing (object.__eq__ answers NotImplemented for a different object) *)
Definition try_eq1 (G : genv) (dunder : string) (a b : value) : option (res value) :=
  match find_eq_in_mro G (mro_of G (cls_of a)) dunder with
  | Some (Some (c, _)) => let r := call_meth G a c dunder [b] in if is_ni r then None else Some r
  | Some None => Some (Ok (VBool false))
  | None => None
  end.
(* a class without its own __ne__ inherits object.__ne__, which negates the truth of __eq__:
   the value handed on here is the __eq__ result whose truth is then taken *)
Definition try_eq (G : genv) (dunder : string) (a b : value) : option (res value) :=
  if String.eqb dunder "__ne__" then
    match find_eq_in_mro G (mro_of G (cls_of a)) "__ne__" with
    | Some _ => try_eq1 G "__ne__" a b
    | None => try_eq1 G "__eq__" a b
    end
  else try_eq1 G dunder a b.

(* == and != : a's method, then b's (reflected), then identity: a plain Python bool *)
Definition dispatch_eq (G : genv) (dunder : string) (a b : value) : res value :=
  match try_eq G dunder a b with
  | Some r => r
  | None =>
      match try_eq G dunder b a with
      | Some r => r
      | None => Ok (VBool (String.eqb dunder "__ne__"))
      end
  end.

Definition dispatch_method (G : genv) (m : string) (a : value) (args : list value) : res value :=
  match find_method G (cls_of a) m with
  | Some (c, _) => call_meth G a c m args
  | None => Err "AttributeError"
  end.

Inductive op :=
| OAdd | OSub | OMul | ODiv | OMod | OPow | OLShift | ORShift
| OLt | OGt | OLe | OGe | OEq | ONe | OAnd | OOr | OXor
| OPublicEquals | OTruncPr.
Definition all_binops := [OAdd; OSub; OMul; ODiv; OMod; OPow; OLShift; ORShift;
                          OLt; OGt; OLe; OGe; OEq; ONe; OAnd; OOr; OXor; OPublicEquals; OTruncPr].

Definition run_binop (G : genv) (o : op) (a b : value) : res value :=
  match o with
  | OAdd => dispatch_arith G "__add__" "__radd__" a b
  | OSub => dispatch_arith G "__sub__" "__rsub__" a b
  | OMul => dispatch_arith G "__mul__" "__rmul__" a b
  | ODiv => dispatch_arith G "__truediv__" "__rtruediv__" a b
  | OMod => dispatch_arith G "__mod__" "__rmod__" a b
  | OPow => dispatch_arith G "__pow__" "__rpow__" a b
  | OLShift => dispatch_arith G "__lshift__" "__rlshift__" a b
  | ORShift => dispatch_arith G "__rshift__" "__rrshift__" a b
  | OAnd => dispatch_arith G "__and__" "__rand__" a b
  | OOr => dispatch_arith G "__or__" "__ror__" a b
  | OXor => dispatch_arith G "__xor__" "__rxor__" a b
  | OLt => dispatch_order G "__lt__" "__gt__" a b
  | OGt => dispatch_order G "__gt__" "__lt__" a b
  | OLe => dispatch_order G "__le__" "__ge__" a b
  | OGe => dispatch_order G "__ge__" "__le__" a b
  | OEq => dispatch_eq G "__eq__" a b
  | ONe => dispatch_eq G "__ne__" a b
  | OPublicEquals => dispatch_method G "public_equals" a [b]
  | OTruncPr => dispatch_method G "trunc_pr" a [b]
  end.

(* default literal values used when only types matter *)
Definition rule2v (G : genv) (o : op) (t1 t2 : sty) (v1 v2 : Z) : outcome :=
  classify (run_binop G o (operand t1 v1 0) (operand t2 v2 1)).
Definition rule2 (G : genv) (o : op) (t1 t2 : sty) : outcome := rule2v G o t1 t2 7 3.

Definition rule_ifelse (G : genv) (c a b : sty) : outcome :=
  classify (dispatch_method G "if_else" (operand c 1 0) [operand a 7 1; operand b 3 2]).

Inductive unop := UInvert | UToPublic.
Definition rule1 (G : genv) (u : unop) (t : sty) : outcome :=
  classify (dispatch_method G (match u with UInvert => "__invert__" | UToPublic => "to_public" end)
              (operand t 1 0) []).

(* Cls.random() *)
Definition rule_random (G : genv) (t : sty) : outcome :=
  classify (match find_method G (class_of t) "random" with
            | Some (c, _) => apply FUEL G (VBound (VClass (class_of t)) c "random") [] []
            | None => Err "AttributeError"
            end).

(* int + x  (sum([...]) and reflected add): x.__radd__(k) *)
Definition rule_radd_int (G : genv) (k : Z) (t : sty) (v : Z) : outcome :=
  classify (dispatch_method G "__radd__" (operand t v 0) [VInt k]).
