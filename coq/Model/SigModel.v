(* C18: abstract execution (nada_dsl.audit) of a surface program, as far as the signature is
   concerned: the classes the abstract operators give (the bodies regenerated from audit/abstract.py,
   evaluated by AbsRules.arule2 / arule_ifelse) and the three aggregators.  Programs outside the
   common subset of the two libraries give None, as does a program on which the audit classes raise.
   Not modelled (answered None): == / != on two abstract booleans, which the audit classes do not define and
   Python answers by object identity with a plain bool. *)
From Coq Require Import ZArith List String Bool.
From NadaV.PyMini Require Import PyMini.
From NadaV.Model Require Import Rules Surface AbsRules.
From NadaV.Spec Require Import SigSpec.
Import ListNotations.
Open Scope string_scope.
Open Scope list_scope.

Definition aenv := list (string * sty).

Definition common_op (o : op) : bool :=
  match o with OAdd | OSub | OMul | OLt | OLe | OGt | OGe | OEq | ONe => true | _ => false end.

Section WithAbs.
Variable GA : genv.

Definition abs_type (o : aoutcome) : option sty := match o with AValue t _ => Some t | _ => None end.

(* class of the value an abstract statement binds, and the Input it constructs (if any) *)
Definition abs_rhs (ρ : aenv) (r : rhs) : option (sty * list trip) :=
  match r with
  | RLit BInt _ => Some ((MConst, BInt), [])
  | RInput n p d (IScalar (m, BInt)) =>
      match m with
      | MConst => None
      | _ => if String.eqb d "" then Some ((m, BInt), [(n, p, class_of (m, BInt))]) else None
      end
  | RBin o a b =>
      if common_op o then
        match assoc a ρ, assoc b ρ with
        | Some ta, Some tb => option_map (fun t => (t, [])) (abs_type (arule2 GA o ta tb None None))
        | _, _ => None
        end
      else None
  | RIfElse c a b =>
      match assoc c ρ, assoc a ρ, assoc b ρ with
      | Some tc, Some ta, Some tb => option_map (fun t => (t, [])) (abs_type (arule_ifelse GA tc ta tb None None None))
      | _, _, _ => None
      end
  | _ => None
  end.

Fixpoint abs_exec (ss : list stmt) (ρ : aenv) (ins : list trip) : option (aenv * list trip) :=
  match ss with
  | [] => Some (ρ, ins)
  | SLet x r :: rest =>
      match abs_rhs ρ r with
      | Some (t, new) => abs_exec rest ((x, t) :: ρ) (ins ++ new)
      | None => None
      end
  | SDef _ _ _ _ _ :: _ => None
  end.

(* Output(value, name, party): value must be a PublicInteger or a SecretInteger *)
Definition output_class (t : sty) : option string :=
  match t with
  | (MPublic, BInt) | (MSecret, BInt) => Some (class_of t)
  | _ => None
  end.

Fixpoint abs_outputs (ρ : aenv) (outs : list output) : option (list trip) :=
  match outs with
  | [] => Some []
  | o :: rest =>
      match assoc (out_var o) ρ with
      | Some t => match output_class t, abs_outputs ρ rest with
                  | Some c, Some l => Some ((out_name o, out_party o, c) :: l)
                  | _, _ => None
                  end
      | None => None
      end
  end.

(* signature(source) for a program whose nada_main constructs the parties [parties], then runs the
   statements, then constructs and returns the outputs.  An empty output list is rejected. *)
Definition abs_sig (parties : list string) (p : program) : option sigr :=
  match abs_exec (p_stmts p) [] [] with
  | Some (ρ, ins) =>
      match p_outs p, abs_outputs ρ (p_outs p) with
      | [], _ => None
      | _, Some outs => Some {| sg_parties := parties; sg_inputs := ins; sg_outputs := outs |}
      | _, None => None
      end
  | None => None
  end.

End WithAbs.
