(* CPython data-model routes by which a program could make its control flow depend on a
   Nada value: truth-value testing, ordering comparisons used by min/max/sorted and chained
   comparisons, membership by equality, iteration.  Hand-written statement of the protocol,
   evaluated over the GENERATED class table; tied to /repo by tools/impl_coerce.py. *)
From Coq Require Import ZArith List String Bool.
From NadaV.PyMini Require Import PyMini.
From NadaV.Model Require Import Rules.
Import ListNotations.
Open Scope string_scope.

Inductive coerced :=
| Raises (exn : string)
| Silent (what : string)          (* Python obtained a concrete answer: the trace can branch on it *)
| CStuck (why : string).

Definition of_res (r : res value) : coerced :=
  match r with
  | Err e => if is_internal e then CStuck e else Raises e
  | OutOfFuel => CStuck "fuel"
  | Ok (VBool _) => Silent "bool"
  | Ok (VInt _) => Silent "int"
  | Ok _ => Silent "value"
  end.

(* bool(x): type(x).__bool__, else type(x).__len__, else True *)
Definition truth (G : genv) (x : value) : coerced :=
  match find_method G (cls_of x) "__bool__" with
  | Some (c, _) => of_res (call_meth G x c "__bool__" [])
  | None =>
      match find_method G (cls_of x) "__len__" with
      | Some (c, _) => of_res (call_meth G x c "__len__" [])
      | None => Silent "default-true"
      end
  end.

(* the truth value of the result of a comparison / equality *)
Definition truth_of_result (G : genv) (r : res value) : coerced :=
  match r with
  | Err e => if is_internal e then CStuck e else Raises e
  | OutOfFuel => CStuck "fuel"
  | Ok v => match v with
            | VBool _ => Silent "bool"
            | VObj _ _ => truth G v
            | _ => Silent "value"
            end
  end.

Inductive route :=
| RTruth          (* if / while / not / and / or / assert / bool() / any / all / conditional expression *)
| RChained        (* a < b < c : truth of (a < b) *)
| RMinMax         (* min / max / sorted : truth of (b < a), (b > a) *)
| RMember         (* a in [b] with a not identical to b : truth of (b == a) *)
| RIter.          (* for e in x / list(x) *)

Definition iterate (G : genv) (x : value) : coerced :=
  match find_method G (cls_of x) "__iter__" with
  | Some (c, _) => of_res (call_meth G x c "__iter__" [])
  | None =>
      match find_method G (cls_of x) "__getitem__" with
      | Some _ => Silent "sequence-protocol"
      | None => Raises "TypeError"
      end
  end.

(* x and y are two distinct objects of the same class *)
Definition coerce (G : genv) (r : route) (x y : value) : coerced :=
  match r with
  | RTruth => truth G x
  | RChained => truth_of_result G (dispatch_order G "__lt__" "__gt__" x y)
  | RMinMax => match truth_of_result G (dispatch_order G "__lt__" "__gt__" y x) with
               | Raises e => Raises e
               | other => match truth_of_result G (dispatch_order G "__gt__" "__lt__" y x) with
                          | Raises e => other
                          | o2 => match other with Silent _ => other | _ => o2 end
                          end
               end
  | RMember => truth_of_result G (dispatch_eq G "__eq__" y x)
  | RIter => iterate G x
  end.

Definition all_routes := [RTruth; RChained; RMinMax; RMember; RIter].

Definition is_raises (c : coerced) : bool := match c with Raises _ => true | _ => false end.

(* a collection instance: only its class matters for these routes *)
Definition coll_obj (cls : string) (i : Z) : value := VObj cls [("child", VObj "Opaque" []); ("__tag__", VInt i)].
Definition collection_classes := ["Array"; "Tuple"; "NTuple"; "Object"].

(* a plain (non-Nada) Python value as the other operand of a comparison / membership test *)
Definition plain_values : list (string * value) :=
  [("int", VInt 0); ("int1", VInt 1); ("bool", VBool true); ("none", VNone); ("str", VStr "a"); ("float", VQuot 1 2)].

(* x compared with the plain value p, in both operand orders *)
Definition coerce_plain (G : genv) (r : route) (x p : value) : list coerced :=
  match r with
  | RChained | RMinMax =>
      [truth_of_result G (dispatch_order G "__lt__" "__gt__" x p);
       truth_of_result G (dispatch_order G "__lt__" "__gt__" p x);
       truth_of_result G (dispatch_order G "__gt__" "__lt__" x p);
       truth_of_result G (dispatch_order G "__le__" "__ge__" p x)]
  | RMember =>
      [truth_of_result G (dispatch_eq G "__eq__" x p); truth_of_result G (dispatch_eq G "__eq__" p x);
       truth_of_result G (dispatch_eq G "__ne__" x p); truth_of_result G (dispatch_eq G "__ne__" p x)]
  | _ => []
  end.

(* ---- observations of the implementation, as data *)
Definition subject (cls : string) (i : Z) : value :=
  match sty_of_class cls with
  | Some t => operand t 1 i
  | None => coll_obj cls i
  end.

Definition model_raises (G : genv) (cls : string) (r : route) : bool :=
  is_raises (coerce G r (subject cls 0) (subject cls 1)).

Definition model_raises_plain (G : genv) (cls : string) (r : route) (pname : string) : bool :=
  match assoc pname plain_values with
  | Some p => forallb is_raises (coerce_plain G r (subject cls 0) p)
  | None => false
  end.

(* C07 read on an observed cell: every listed route must raise; iteration is only constrained
   for arrays (and scalars, which have no elements) *)
Definition must_raise (cls : string) (r : route) : bool :=
  match r with
  | RIter => negb (String.eqb cls "NTuple" || String.eqb cls "Tuple" || String.eqb cls "Object")
  | _ => true
  end.

Fixpoint indices_where {A} (f : A -> bool) (l : list A) (i : Z) : list Z :=
  match l with [] => [] | x :: r => if f x then i :: indices_where f r (i + 1)%Z else indices_where f r (i + 1)%Z end.

Definition cell := (string * route * list bool)%type.      (* class, route, raised? for each observation *)
Definition coerce_violations (cs : list cell) : list Z :=
  indices_where (fun c : cell => let '(cls, r, obs) := c in must_raise cls r && negb (forallb (fun b => b) obs)) cs 0%Z.
Definition coerce_mismatches (G : genv) (cs : list cell) : list Z :=
  indices_where (fun c : cell => let '(cls, r, obs) := c in
                                 negb (forallb (fun b => Bool.eqb b (model_raises G cls r)) obs)) cs 0%Z.

(* cells against a plain Python operand *)
Definition pcell := (string * route * string * list bool)%type.
Definition pcoerce_violations (cs : list pcell) : list Z :=
  indices_where (fun c : pcell => let '(cls, r, p, obs) := c in negb (forallb (fun b => b) obs)) cs 0%Z.
Definition pcoerce_mismatches (G : genv) (cs : list pcell) : list Z :=
  indices_where (fun c : pcell => let '(cls, r, p, obs) := c in
                                  negb (forallb (fun b => Bool.eqb b (model_raises_plain G cls r p)) obs)) cs 0%Z.
