(* The third-party `richreports` library (report / enrich / render) as an executable model.
   A report is, per line, a list of cells (pres, character, posts) plus an end-of-line cell; enrich
   only ever pushes delimiters onto pres / posts.  Tied to the installed library by
   tools/props/c17.py (random enrich sequences on both sides). *)
From Coq Require Import ZArith List String Bool Ascii Lia.
Import ListNotations.
Open Scope string_scope.
Open Scope Z_scope.
Open Scope list_scope.

Record cell := { pres : list string; ch : option ascii; posts : list string }.   (* ch = None: the '' end cell *)
Definition rline := list cell.
Record report := { r_lines : list string; r_stacks : list rline }.   (* r_stacks excludes the dummy stack 0 *)

(* string.split('\n'): never empty *)
Fixpoint split_nl (s : string) : list string :=
  match s with
  | EmptyString => [EmptyString]
  | String c r =>
      if Ascii.eqb c (ascii_of_nat 10) then EmptyString :: split_nl r
      else match split_nl r with
           | h :: t => String c h :: t
           | [] => [String c EmptyString]
           end
  end.

Fixpoint cells_of (s : string) : rline :=
  match s with
  | EmptyString => [{| pres := []; ch := None; posts := [] |}]
  | String c r => {| pres := []; ch := Some c; posts := [] |} :: cells_of r
  end.

Definition mk_report (src : string) : report :=
  let ls := split_nl src in {| r_lines := ls; r_stacks := map cells_of ls |}.

(* ---- positions: (line, column), line 1-based as in the library (stack 0 is a dummy) *)
(* Python list indexing: negative indices count from the end *)
Definition pynth {A} (l : list A) (i : Z) : option A :=
  let n := Z.of_nat (List.length l) in
  if (0 <=? i) then nth_error l (Z.to_nat i)
  else if (0 <=? n + i) then nth_error l (Z.to_nat (n + i)) else None.
Definition pyidx {A} (l : list A) (i : Z) : Z := if 0 <=? i then i else Z.of_nat (List.length l) + i.

(* self._stacks[line] : stack 0 is the dummy empty stack *)
Definition stack (r : report) (line : Z) : option rline := pynth ([] :: r_stacks r) line.
Definition cell_at (r : report) (line col : Z) : option cell :=
  match stack r line with
  | Some l => pynth l col
  | None => None
  end.
Definition is_blank (c : cell) : bool :=
  match ch c with None => true | Some a => Ascii.eqb a " "%char end.
Definition line_len (r : report) (line : Z) : option Z :=      (* len(self.lines[line - 1]) *)
  option_map (fun s => Z.of_nat (String.length s)) (pynth (r_lines r) (line - 1)).
Definition nstacks (r : report) : Z := Z.of_nat (List.length (r_stacks r)) + 1.    (* len(self._stacks) *)
Definition stack_len (r : report) (line : Z) : option Z := option_map (fun l => Z.of_nat (List.length l)) (stack r line).

Inductive outcome (A : Type) := Done (a : A) | Raised (exn : string) | Fuel.
Arguments Done {A} a. Arguments Raised {A} exn. Arguments Fuel {A}.

(* `while len(self.lines[line - 1]) == 0: line += 1` *)
Fixpoint skip_empty_down (fuel : nat) (r : report) (line : Z) : outcome Z :=
  match fuel with
  | O => Fuel
  | S n => match line_len r line with
           | None => Raised "IndexError"
           | Some 0 => skip_empty_down n r (line + 1)
           | Some _ => Done line
           end
  end.

Fixpoint skip_left (fuel : nat) (r : report) (line col : Z) : outcome (Z * Z) :=
  match fuel with
  | O => Fuel
  | S n =>
      match cell_at r line col with
      | None => Raised "IndexError"
      | Some c =>
          if negb (is_blank c) then Done (line, col)
          else
            let col1 := col + 1 in
            match stack_len r line with
            | None => Raised "IndexError"
            | Some sl =>
                if col1 =? sl - 1 then
                  if line =? nstacks r - 1 then Done (line, col1)
                  else match skip_empty_down n r (line + 1) with
                       | Done l' => skip_left n r l' 0
                       | Raised e => Raised e
                       | Fuel => Fuel
                       end
                else skip_left n r line col1
            end
      end
  end.

Definition skip_whitespace_left (r : report) (line col : Z) : outcome (Z * Z) :=
  let fuel := (2 * (List.length (r_stacks r) + fold_right (fun l a => (List.length l + a)%nat) O (r_stacks r)) + 4)%nat in
  match (if col =? 0 then skip_empty_down fuel r line else Done line) with
  | Done l => skip_left fuel r l col
  | Raised e => Raised e
  | Fuel => Fuel
  end.

Fixpoint skip_right (fuel : nat) (r : report) (line col : Z) : outcome (Z * Z) :=
  match fuel with
  | O => Fuel
  | S n =>
      (* python negative indexing: column -1 never reaches here (handled below) *)
      match cell_at r line col with
      | None => Raised "IndexError"
      | Some c =>
          if negb (is_blank c) then Done (line, col)
          else
            let col1 := col - 1 in
            if col1 =? -1 then
              if line =? 1 then Done (line, 0)
              else match stack_len r (line - 1) with
                   | Some sl => skip_right n r (line - 1) (sl - 1)
                   | None => Raised "IndexError"
                   end
            else skip_right n r line col1
      end
  end.

Definition skip_whitespace_right (r : report) (line col : Z) : outcome (Z * Z) :=
  let fuel := (2 * (List.length (r_stacks r) + fold_right (fun l a => (List.length l + a)%nat) O (r_stacks r)) + 4)%nat in
  skip_right fuel r line col.

(* ---- the only mutations: push a delimiter on the pres / posts of one cell *)
Fixpoint update_nth {A} (n : nat) (f : A -> A) (l : list A) : list A :=
  match l, n with
  | [], _ => []
  | x :: r, O => f x :: r
  | x :: r, S k => x :: update_nth k f r
  end.

Definition upd_cell (r : report) (line col : Z) (f : cell -> cell) : report :=
  let li := pyidx ([] :: r_stacks r) line in        (* index into _stacks, 0 = dummy *)
  match stack r line with
  | Some l => {| r_lines := r_lines r;
                 r_stacks := update_nth (Z.to_nat (li - 1)) (update_nth (Z.to_nat (pyidx l col)) f) (r_stacks r) |}
  | None => r
  end.
Definition push_pre (r : report) (line col : Z) (s : string) : report :=
  upd_cell r line col (fun c => {| pres := pres c ++ [s]; ch := ch c; posts := posts c |}).
Definition push_post (r : report) (line col : Z) (s : string) : report :=
  upd_cell r line col (fun c => {| pres := pres c; ch := ch c; posts := posts c ++ [s] |}).

Definition in_range (r : report) (line col : Z) : bool :=
  match cell_at r line col with Some _ => true | None => false end.

(* self.lines[line - 1].strip() == '' *)
Definition is_ws (a : ascii) : bool :=
  let n := nat_of_ascii a in Nat.eqb n 32 || (Nat.leb 9 n && Nat.leb n 13) || (Nat.leb 28 n && Nat.leb n 31).
Definition is_blank_line (r : report) (line : Z) : bool :=
  match pynth (r_lines r) (line - 1) with
  | Some s => (fix all (s : string) : bool := match s with EmptyString => true | String c t => is_ws c && all t end) s
  | None => true
  end.

(* the intermediate-lines loop of enrich *)
Fixpoint back_nonblank (fuel : nat) (r : report) (line col : Z) (sline scol : Z) : Z :=
  match fuel with
  | O => col
  | S n => match cell_at r line col with
           | Some c => if is_blank c && (0 <? col) && ((sline <? line) || (scol <? col))
                       then back_nonblank n r line (col - 1) sline scol else col
           | None => col
           end
  end.
Fixpoint fwd_nonblank (fuel : nat) (r : report) (line col : Z) (eline ecol : Z) : Z :=
  match fuel with
  | O => col
  | S n => match cell_at r line col, stack_len r line with
           | Some c, Some sl => if is_blank c && (col <? sl - 1) && ((line <? eline) || (col <? ecol))
                                then fwd_nonblank n r line (col + 1) eline ecol else col
           | _, _ => col
           end
  end.

Fixpoint intermediate (fuel : nat) (r : report) (line : Z) (sline scol eline ecol : Z) (left right : string) (skip : bool)
  : report :=
  match fuel with
  | O => r
  | S n =>
      if line <? eline then
        let big := fun (ln : Z) => match stack r ln with Some l => S (S (List.length l)) | None => 2%nat end in
        let r1 := if negb skip || negb (is_blank_line r line) then
                    match stack_len r line with
                    | Some sl => let col := if skip then back_nonblank (big line) r line (sl - 1) sline scol else sl - 1 in
                                 push_post r line col right
                    | None => r
                    end
                  else r in
        let line' := line + 1 in
        let r2 := if negb skip || negb (is_blank_line r1 line') then
                    let col := if skip then fwd_nonblank (big line') r1 line' 0 eline ecol else 0 in
                    push_pre r1 line' col left
                  else r1 in
        intermediate n r2 line' sline scol eline ecol left right skip
      else r
  end.

Definition pos_leb (a b : Z * Z) : bool := (fst a <? fst b) || ((fst a =? fst b) && (snd a <=? snd b)).

Definition lines_fuel (r : report) : nat := S (List.length (r_stacks r)).

(* report.enrich(start, end, left, right, enrich_intermediate_lines, skip_whitespace), base = (1, 0) *)
Definition enrich (r : report) (s e : Z * Z) (left right : string) (inter skip : bool) : outcome report :=
  let adj (p : Z * Z) (f : report -> Z -> Z -> outcome (Z * Z)) :=
    if skip then f r (fst p) (snd p) else Done p in
  match adj s skip_whitespace_left with
  | Raised x => Raised x | Fuel => Fuel
  | Done s' =>
      match adj e skip_whitespace_right with
      | Raised x => Raised x | Fuel => Fuel
      | Done e' =>
          if negb (pos_leb s' e') then Done r
          else if negb (in_range r (fst s') (snd s')) then Raised "IndexError"
          else
            let r1 := push_pre r (fst s') (snd s') left in
            let r2 := if inter then intermediate (lines_fuel r) r1 (fst s') (fst s') (snd s') (fst e') (snd e') left right skip
                      else r1 in
            if negb (in_range r2 (fst e') (snd e')) then Raised "IndexError"
            else Done (push_post r2 (fst e') (snd e') right)
      end
  end.

(* ---- rendering, as a sequence of tokens: source characters and inserted delimiters *)
Inductive token := TSrc (c : ascii) | TNewline | TMark (s : string).

Definition render_cell (c : cell) : list token :=
  map TMark (rev (pres c)) ++ (match ch c with Some a => [TSrc a] | None => [] end) ++ map TMark (posts c).
Definition render_line (l : rline) : list token := flat_map render_cell l.
Fixpoint render_lines (ls : list rline) : list token :=
  match ls with
  | [] => []
  | [l] => render_line l
  | l :: r => render_line l ++ TNewline :: render_lines r
  end.
Definition render (r : report) : list token := render_lines (r_stacks r).

Definition erase (ts : list token) : list token :=
  filter (fun t => match t with TMark _ => false | _ => true end) ts.

(* the character skeleton of a report: what erasure leaves *)
Definition skeleton (r : report) : list (list (option ascii)) := map (map ch) (r_stacks r).
