(* The strict checker's static result-type rules (audit/strict.py), evaluated by PyMini over the
   GENERATED tables: _types_binop_mult_add_sub, _types_compare, typeerror_demote and the if_else rule. *)
From Coq Require Import ZArith List String Bool.
From NadaV.PyMini Require Import PyMini.
From NadaV.Model Require Import Rules.
Import ListNotations.
Open Scope string_scope.

Definition err_class (name : string) (bases : list string) : classdef :=
  {| c_name := name; c_mro := name :: bases; c_methods := []; c_classmethods := [];
     c_ctor := CtorFields [("msg", "msg")]; c_dataclass := false; c_dataclass_eq := false; c_meta := "" |}.

(* the environment the static tables run in: the abstract classes (what the names Integer, ... denote in
   strict.py) plus the two error classes *)
Definition static_genv (abstract_classes : list classdef) (static_funs : list (string * fundef)) : genv :=
  {| g_funs := static_funs;
     g_classes := abstract_classes ++ [err_class "TypeErrorRoot" ["TypeError"]; err_class "TypeError" []];
     g_enums := []; g_enum_methods := []; g_consts := [] |}.

Inductive sres := SType (t : sty) | SError (root : bool) | SOther (what : string).

Definition sclassify (r : res value) : sres :=
  match r with
  | Ok (VClass c) => match sty_of_class c with Some t => SType t | None => SOther c end
  | Ok (VObj "TypeErrorRoot" _) => SError true
  | Ok (VObj "TypeError" _) => SError false
  | Ok _ => SOther "value"
  | Err e => SOther e
  | OutOfFuel => SOther "fuel"
  end.

Definition static_bin (GS : genv) (f : string) (l r : sty) : sres :=
  sclassify (apply FUEL GS (VFunc f) [VClass (class_of l); VClass (class_of r)] []).

(* the if_else rule: the branch of the condition's class, its guard, then the result expression *)
Definition static_ifelse (GS : genv) (rules : list (string * expr * expr)) (c a b : sty) : sres :=
  let ρ := [("t_v", VClass (class_of c)); ("ts", VList [VClass (class_of a); VClass (class_of b)])] in
  match find (fun r => String.eqb (fst (fst r)) (class_of c)) rules with
  | None => SError true                            (* "condition must have a boolean type" *)
  | Some (_, guard, result) =>
      match eval FUEL GS ρ guard with
      | Ok g => match truthy g with
                | Ok true => sclassify (eval FUEL GS ρ result)
                | Ok false => SError true
                | _ => SOther "guard"
                end
      | _ => SOther "guard"
      end
  end.
