(* C08, second sentence, on the model, for EVERY earlier state of the process and EVERY program of the
   surface language: the MIR of a program traced from a state whose counter is lo contains only
   operations, functions, inputs and literals recorded by this trace (keys above lo) — nothing that
   belongs to an earlier program, whatever that program was and wherever it stopped. *)
From Coq Require Import ZArith List String Bool Lia.
From NadaV.PyMini Require Import PyMini.
From NadaV.Model Require Import Rules Corr Mir Surface Trace Compile.
From NadaV.Proofs Require Import ScalarInv TraceMono C11Program C01All CompileProofs C18Proofs.
Import ListNotations.
Open Scope string_scope.
Open Scope Z_scope.
Open Scope list_scope.

Section Own.
Variable lo : Z.
Variable st : list (Z * arec).

(* every record above lo refers only to records above lo *)
Definition new_closed : Prop :=
  forall k r, lo < k -> lookup k st = Some r ->
    Forall (fun c => lo < c) (child_operations (r_node r)) /\ Forall (fun c => lo < c) (extra_refs (r_node r)).

Definition own_inputs (c : cstate) : Prop :=
  forall pl n id ty doc, In pl (c_inputs c) -> In (n, (id, ty, doc)) (snd pl) ->
    lo < id /\ exists r, lookup id st = Some r /\ r_node r = AInput n (fst pl) doc.
Definition own_literals (c : cstate) : Prop :=
  forall idx v ty, In (idx, (v, ty)) (c_literals c) ->
    exists k r, lo < k /\ lookup k st = Some r /\ r_node r = ALiteral v idx.
Definition own_tables (c : cstate) : Prop := own_inputs c /\ own_literals c.

Definition all_new (l : list Z) : Prop := forall k, In k l -> lo < k.

Lemma zadd_new k l : lo < k -> all_new l -> all_new (zadd k l).
Proof.
  intros Hk Hl x Hx. unfold zadd in Hx. destruct (zmem k l); [auto|].
  apply in_app_or in Hx. destruct Hx as [Hx | [<- | []]]; auto.
Qed.

Lemma step_node_own fs k r extra c extra' c' :
  new_closed -> lo < k -> lookup k st = Some r ->
  step_node fs r extra c = Ok (extra', c') ->
  all_new extra -> own_tables c -> all_new extra' /\ own_tables c'.
Proof.
  intros Hcl Hk Hl H He [Hi Hli].
  pose proof (store_ok_all st _ _ Hl) as Hid.
  destruct (Hcl _ _ Hk Hl) as [_ Hx].
  unfold step_node in H. destruct (r_node r) eqn:Hn;
    try (injection H as <- <-; split; [exact He | split; assumption]).
  - (* input *)
    destruct (add_input (r_id r) (r_ty r) name party doc c) as [c1| |] eqn:Ha; cbn [bind] in H; try discriminate.
    injection H as <- <-. split; [exact He|].
    unfold add_input in Ha. destruct (existsb _ (c_inputs c)); [discriminate|]. injection Ha as <-.
    split; [|exact Hli].
    intros pl n id ty d Hpl Hin. simpl in Hpl. apply In_supdate in Hpl. destruct Hpl as [-> | Hpl].
    + simpl in Hin. apply In_supdate in Hin. destruct Hin as [E | Hin].
      * inversion E; subst; clear E. split; [lia|]. exists r. simpl. split; [first [exact Hl | rewrite Hid; exact Hl | congruence] | exact Hn].
      * destruct (sassoc party (c_inputs c)) as [pin|] eqn:Hs; [|destruct Hin].
        apply sassoc_In in Hs. exact (Hi _ _ _ _ _ Hs Hin).
    + exact (Hi _ _ _ _ _ Hpl Hin).
  - (* literal *)
    injection H as <- <-. split; [exact He|]. split; [exact Hi|].
    intros idx0 v ty Hin. simpl in Hin. apply In_supdate in Hin. destruct Hin as [E | Hin]; [|exact (Hli _ _ _ Hin)].
    inversion E; subst; clear E. eexists. exists r. split; [|split; [exact Hl | exact Hn]]. exact Hk.
  - (* reduce *) simpl in Hx. inversion Hx as [|? ? Hfn _]; subst.
    destruct (zmem fn fs); injection H as <- <-; (split; [|split; assumption]); [exact He | apply zadd_new; assumption].
  - (* map *) simpl in Hx. inversion Hx as [|? ? Hfn _]; subst.
    destruct (zmem fn fs); injection H as <- <-; (split; [|split; assumption]); [exact He | apply zadd_new; assumption].
  - (* call *) simpl in Hx. inversion Hx as [|? ? Hfn _]; subst.
    destruct (zmem fn fs); injection H as <- <-; (split; [|split; assumption]); [exact He | apply zadd_new; assumption].
  - (* a function record met as an operand *)
    destruct (zmem (r_id r) fs); injection H as <- <-; (split; [|split; assumption]);
      [exact He | apply zadd_new; [lia | assumption]].
Qed.

Lemma traverse_own :
  forall fuel fs stack ops extra c ops' extra' c',
    traverse fuel st fs stack ops extra c = Ok (ops', extra', c') ->
    new_closed -> all_new stack -> all_new (keys ops) -> all_new extra -> own_tables c ->
    all_new (keys ops') /\ all_new extra' /\ own_tables c'.
Proof.
  induction fuel as [|n IH]; intros fs stack ops extra c ops' extra' c' H Hcl Hs Ho He Hc; simpl in H; [discriminate|].
  destruct stack as [|k rest]; [inversion H; subst; auto|].
  assert (Hrest : all_new rest) by (intros x Hx; apply Hs; right; exact Hx).
  destruct (zmem k (map e_key ops)); [eapply IH; eauto|].
  destruct (lookup k st) as [r|] eqn:Hl; [|discriminate].
  destruct (step_node fs r extra c) as [[extra1 c1]| |] eqn:Hst; try discriminate.
  assert (Hk : lo < k) by (apply Hs; left; reflexivity).
  destruct (step_node_own _ _ _ _ _ _ _ Hcl Hk Hl Hst He Hc) as [He1 Hc1].
  destruct (Hcl _ _ Hk Hl) as [Hch _]. rewrite Forall_forall in Hch.
  eapply IH; [exact H | exact Hcl | | | exact He1 | exact Hc1].
  - intros x Hx. apply in_app_or in Hx. destruct Hx as [Hx | Hx]; [apply Hch; apply in_rev; exact Hx | auto].
  - intros x Hx. rewrite keys_app in Hx. apply in_app_or in Hx. destruct Hx as [Hx | [Hx | []]]; [auto|].
    rewrite key_entry_of in Hx. subst x. rewrite (store_ok_all st _ _ Hl). exact Hk.
Qed.

Lemma outputs_loop_own :
  forall outs fs ops macc c ops' mouts fs' c',
    outputs_loop st fs outs ops macc c = Ok (ops', mouts, fs', c') ->
    new_closed -> all_new (map co_id outs) -> all_new (keys ops) -> all_new fs -> own_tables c ->
    all_new (keys ops') /\ all_new fs' /\ own_tables c'.
Proof.
  induction outs as [|o outs IH]; intros fs ops macc c ops' mouts fs' c' H Hcl Hr Ho Hf Hc; simpl in H.
  - inversion H; subst. auto.
  - destruct (traverse (store_fuel st) st fs [co_id o] ops [] c) as [[[ops1 extra1] c1]| |] eqn:Ht;
      simpl in H; try discriminate.
    destruct (lookup (co_id o) st) as [rec|] eqn:Hl; [|discriminate].
    destruct (traverse_own _ _ _ _ _ _ _ _ _ Ht Hcl) as (A & B & [C1 C2]); auto.
    + intros x [<- | []]. apply Hr. left. reflexivity.
    + intros x [].
    + eapply IH; [exact H | exact Hcl | | exact A | | ].
      * intros x Hx. apply Hr. right. exact Hx.
      * intros x Hx. apply in_app_or in Hx. destruct Hx; auto.
      * split; [exact C1 | exact C2].
Qed.

Definition fun_own (f : mfun) : Prop := lo < f_id f /\ all_new (keys (f_ops f)).

Lemma functions_loop_own :
  forall fuel fs stack acc c mfuns fs' c',
    functions_loop fuel st fs stack acc c = Ok (mfuns, fs', c') ->
    new_closed -> all_new fs -> all_new stack -> Forall fun_own acc -> own_tables c ->
    Forall fun_own mfuns /\ own_tables c'.
Proof.
  induction fuel as [|n IH]; intros fs stack acc c mfuns fs' c' H Hcl Hf Hs Hacc Hc; simpl in H; [discriminate|].
  destruct stack as [|f rest]; [inversion H; subst; auto|].
  destruct (lookup f st) as [[fid rty node]|] eqn:Hl; [|discriminate].
  destruct node; try discriminate.
  destruct (traverse (store_fuel st) st fs [child] [] [] c) as [[[ops1 extra1] c1]| |] eqn:Ht;
    simpl in H; try discriminate.
  destruct (arg_records st args) as [margs| |] eqn:Hm; simpl in H; try discriminate.
  assert (Hfk : lo < f) by (apply Hs; left; reflexivity).
  destruct (Hcl _ _ Hfk Hl) as [_ Hrefs]. simpl in Hrefs. inversion Hrefs as [|? ? Hchild Hargs0]; subst.
  destruct (traverse_own _ _ _ _ _ _ _ _ _ Ht Hcl) as (A & B & C); auto.
  - intros x [<- | []]. assumption.
  - intros x [].
  - intros x [].
  - pose proof (store_ok_all st _ _ Hl) as Hid. simpl in Hid. subst fid.
    eapply IH; [exact H | exact Hcl | | | | exact C].
    + intros x Hx. apply in_app_or in Hx. destruct Hx; auto.
    + intros x Hx. apply in_app_or in Hx. destruct Hx as [Hx | Hx]; [apply B; apply in_rev; exact Hx | apply Hs; right; exact Hx].
    + apply Forall_app. split; [exact Hacc|]. constructor; [|constructor]. split; simpl; assumption.
Qed.

Theorem compile_own : forall outs m fs',
  compile st [] outs = Ok (m, fs') -> new_closed -> all_new (map co_id outs) ->
  all_new (keys (m_ops m))
  /\ Forall fun_own (m_functions m)
  /\ (forall i, In i (m_inputs m) ->
        exists k r, lo < k /\ lookup k st = Some r /\ r_node r = AInput (i_name i) (i_party i) (i_doc i))
  /\ (forall l, In l (m_literals m) ->
        exists k r, lo < k /\ lookup k st = Some r /\ r_node r = ALiteral (l_value l) (l_name l)).
Proof.
  intros outs m fs' H Hcl Hr. unfold compile in H.
  destruct (outputs_loop st [] outs [] [] (empty_cstate [])) as [[[[ops mouts] fs1] c1]| |] eqn:Ho;
    cbn [bind] in H; try discriminate.
  destruct (functions_loop (S (List.length st)) st fs1 (rev fs1) [] c1) as [[[mfuns fs2] c2]| |] eqn:Hf;
    cbn [bind] in H; try discriminate.
  inversion H; subst; clear H. simpl.
  assert (H0 : own_tables (empty_cstate [])).
  { split; intros x; simpl; intros; contradiction. }
  destruct (outputs_loop_own _ _ _ _ _ _ _ _ _ Ho Hcl Hr) as (A & B & C); auto; try (intros x []).
  destruct (functions_loop_own _ _ _ _ _ _ _ _ Hf Hcl B) as (D & [E1 E2]); auto.
  { intros x Hx. apply B. apply in_rev. exact Hx. }
  split; [exact A|]. split; [exact D|]. split.
  - intros i Hin. apply in_flat_map in Hin. destruct Hin as (pl & Hpl & Hin).
    apply in_map_iff in Hin. destruct Hin as ([n [[id ty] doc]] & <- & Hin). simpl.
    destruct (E1 _ _ _ _ _ Hpl Hin) as (Hlt & r & Hl & Hn). exists id, r. auto.
  - intros l Hin. apply in_map_iff in Hin. destruct Hin as ([idx [v ty]] & <- & Hin). simpl.
    exact (E2 _ _ _ Hin).
Qed.

End Own.

(* ---- from the trace to the MIR *)
Lemma new_closed_of_growth lo s0 s' :
  lo = counter s0 -> fresh_store s0 -> grow_acy lo s0 s' -> new_closed lo (store s').
Proof.
  intros -> Hf [_ (new & E & F)] k r Hk Hl. rewrite E in Hl.
  destruct (lookup_app_new _ _ _ _ Hl (fresh_none _ _ Hf Hk)) as (rec & Hin & ->).
  rewrite Forall_forall in F. destruct (F _ Hin) as [_ [A B]]. simpl in *. split; [|exact B].
  eapply Forall_impl; [|exact A]. intros c Hc. simpl in Hc. lia.
Qed.

Lemma make_outputs_new lo ρ c : env_b lo ρ c -> forall outs couts,
  make_outputs ρ outs = Ok couts -> existsb (has_no_id ρ) outs = false -> all_new lo (map co_id couts).
Proof.
  intros Hρ. induction outs as [|o outs IH]; intros couts H Hn; simpl in H.
  - inversion H; subst. intros k [].
  - destruct (assoc (out_var o) ρ) as [[w|f]|] eqn:Ea; try discriminate.
    destruct (make_outputs ρ outs) as [t| |] eqn:Et; cbn [bind] in H; try discriminate.
    inversion H; subst; clear H. simpl in Hn. apply orb_false_iff in Hn. destruct Hn as [Hn1 Hn2].
    intros k [<- | Hk]; [|eapply IH; eauto].
    simpl. unfold has_no_id in Hn1. rewrite Ea in Hn1.
    destruct (wid w) as [i|] eqn:Ew; [|discriminate].
    destruct (wb_wid _ _ _ _ (Hρ _ _ Ea) Ew). assumption.
Qed.

Theorem later_program_owns_its_mir (GG : genv) : forall s0 p m s' fs',
  fresh_store s0 -> ordered s0 ->
  run_from GG s0 [] p = Ok (m, s', fs') ->
  let lo := counter s0 in
  all_new lo (keys (m_ops m))
  /\ Forall (fun_own lo) (m_functions m)
  /\ (forall i, In i (m_inputs m) ->
        exists k r, lo < k /\ lookup k (store s') = Some r /\ r_node r = AInput (i_name i) (i_party i) (i_doc i))
  /\ (forall l, In l (m_literals m) ->
        exists k r, lo < k /\ lookup k (store s') = Some r /\ r_node r = ALiteral (l_value l) (l_name l))
  /\ (forall o, In o (m_outputs m) -> lo < o_op o)
  (* and what the earlier programs recorded is untouched *)
  /\ (forall k, k <= lo -> lookup k (store s') = lookup k (store s0)).
Proof.
  intros s0 p m s' fs' Hf Ho Hr lo. unfold run_from in Hr.
  destruct (exec GG (stmts_size (p_stmts p)) [] (p_stmts p) s0) as [[ρ s1]| |] eqn:Ex; try discriminate Hr.
  destruct (make_outputs ρ (p_outs p)) as [couts| |] eqn:Em; cbn [bind] in Hr; try discriminate Hr.
  destruct (existsb (has_no_id ρ) (p_outs p)) eqn:En; try discriminate Hr.
  destruct (compile (store s1) [] couts) as [[m' fs1]| |] eqn:Hc; cbn [bind fst snd] in Hr; try discriminate Hr.
  inversion Hr; subst m' s1 fs1; clear Hr.
  assert (H0 : InvA lo [] s0).
  { split; [exact Hf|]. split; [exact Ho|]. split; [|split; [|unfold lo; lia]].
    - intros x w Hx. simpl in Hx. discriminate.
    - intros x fr Hx. simpl in Hx. discriminate. }
  destruct (exec_acyclic lo GG _ _ _ _ _ _ H0 Ex) as [(Hf' & Ho' & Hρ & Hρf & _) Hg].
  pose proof (new_closed_of_growth lo s0 s' eq_refl Hf Hg) as Hcl.
  pose proof (make_outputs_new lo ρ _ Hρ _ _ Em En) as Hroots.
  destruct (compile_own lo (store s') couts m fs' Hc Hcl Hroots) as (A & B & C & D).
  split; [exact A|]. split; [exact B|]. split; [exact C|]. split; [exact D|]. split.
  - intros o Hin. destruct (compile_closed _ _ _ _ _ Hc) as (_ & _ & _ & Hout & _).
    apply A. apply Hout. exact Hin.
  - intros k Hk. destruct Hg as [_ (new & E & F)]. rewrite E. apply lookup_app_old.
    intros e He. rewrite Forall_forall in F. specialize (F e He). unfold lo in Hk. lia.
Qed.

(* ---- every state a history can leave behind *)
Lemma exec_keeps_order (GG : genv) fuel ss s ρ s1 :
  fresh_store s -> ordered s -> exec GG fuel [] ss s = Ok (ρ, s1) ->
  fresh_store s1 /\ ordered s1 /\ counter s <= counter s1.
Proof.
  intros Hf Ho Ex.
  assert (H0 : InvA (counter s) [] s).
  { split; [exact Hf|]. split; [exact Ho|]. split; [|split; [|lia]].
    - intros x w Hx. simpl in Hx. discriminate.
    - intros x fr Hx. simpl in Hx. discriminate. }
  destruct (exec_acyclic (counter s) GG _ _ _ _ _ _ H0 Ex) as [(Hf' & Ho' & _) [Hc _]]. auto.
Qed.

Theorem history_states_are_ordered (GG : genv) fc : forall h s fns s1 fns1,
  fresh_store s -> ordered s -> after_history GG fc h s fns = Ok (s1, fns1) ->
  fresh_store s1 /\ ordered s1 /\ counter s <= counter s1.
Proof.
  induction h as [|[p | ss] h IH]; intros s fns s1 fns1 Hf Ho H; cbn [after_history] in H.
  - inversion H; subst. repeat split; auto. lia.
  - destruct (exec GG (stmts_size (p_stmts p)) [] (p_stmts p) s) as [[ρ s']| |] eqn:Ex; try discriminate.
    destruct (exec_keeps_order _ _ _ _ _ _ Hf Ho Ex) as (Hf' & Ho' & Hc).
    destruct (IH _ _ _ _ Hf' Ho' H) as (A & B & C). repeat split; auto. lia.
  - destruct (exec GG (stmts_size ss) [] ss s) as [[ρ s']| |] eqn:Ex; try discriminate.
    destruct (exec_keeps_order _ _ _ _ _ _ Hf Ho Ex) as (Hf' & Ho' & Hc).
    destruct (IH _ _ _ _ Hf' Ho' H) as (A & B & C). repeat split; auto. lia.
Qed.

(* after ANY history (complete programs, programs whose compilation raised, traces aborted after any number of
   statements), the MIR of the next program consists of its own operations, functions, inputs and literals only *)
Theorem after_any_history (GG : genv) : forall h p m,
  run_after GG true h p = Ok m ->
  exists s fns s', after_history GG true h init_state [] = Ok (s, fns) /\
    let lo := counter s in
    all_new lo (keys (m_ops m))
    /\ Forall (fun_own lo) (m_functions m)
    /\ (forall o, In o (m_outputs m) -> lo < o_op o)
    /\ (forall i, In i (m_inputs m) ->
          exists k r, lo < k /\ lookup k (store s') = Some r /\ r_node r = AInput (i_name i) (i_party i) (i_doc i))
    /\ (forall l, In l (m_literals m) ->
          exists k r, lo < k /\ lookup k (store s') = Some r /\ r_node r = ALiteral (l_value l) (l_name l))
    /\ (forall k, k <= lo -> lookup k (store s') = lookup k (store s)).
Proof.
  intros h p m H. unfold run_after in H.
  destruct (after_history GG true h init_state []) as [[s fns]| |] eqn:Eh; cbn [bind] in H; try discriminate.
  destruct (run_from GG s [] p) as [[[m' s'] fs']| |] eqn:Er; cbn [bind fst] in H; try discriminate.
  inversion H; subst m'; clear H. exists s, fns, s'. split; [reflexivity|].
  assert (F0 : fresh_store init_state /\ ordered init_state).
  { split; intros k r; simpl; intros; discriminate. }
  destruct F0 as [F0 O0].
  destruct (history_states_are_ordered GG true h _ _ _ _ F0 O0 Eh) as (Hf & Ho & _).
  destruct (later_program_owns_its_mir GG s p m s' fs' Hf Ho Er) as (A & B & C & D & E & F).
  cbv zeta. repeat split; auto.
Qed.
