(* C05, program level (scalar fragment): the boolean specification C05b (every type complete, every edge
   consistent, outputs typed like their operations, input references typed like the inputs they name) holds of
   the MIR of EVERY program of the scalar fragment.  Two inductions: over the statements (every stored operation
   has a scalar type name and one of the scalar node shapes, with the operator's own MIR name), and over the
   compiler's worklist (what is emitted is what is stored; inputs and literals registered with the stored type). *)
From Coq Require Import ZArith List String Bool Lia.
From NadaV.PyMini Require Import PyMini.
From NadaV.Gen Require GenScalar.
From NadaV.Model Require Import Rules Corr Mir Surface Trace Compile.
From NadaV.Spec Require Import TypingSpec MirSpec.
From NadaV.Proofs Require Import Finite C02Proofs C06Proofs CompileProofs C18Proofs ScalarInv C02Rules C02Program C04Rules
                                 C04Program C01Program.
Import ListNotations.
Open Scope string_scope.
Open Scope Z_scope.
Open Scope list_scope.

(* ---------------------------------------------------------------- what the tracer stores *)
Definition node_fine (n : ast) : Prop :=
  match n with
  | ALiteral _ _ | AInput _ _ _ | ARandom | AIfElse _ _ _ => True
  | ABinary name _ _ => exists o, name = opname o
  | AUnary name _ => name = "Not" \/ name = "Reveal"
  | _ => False
  end.
Definition scalar_rec (r : arec) : Prop := (exists t, r_ty r = TyName (mir_name t)) /\ node_fine (r_node r).
Definition store_scalar (s : tstate) : Prop := forall k r, lookup k (store s) = Some r -> scalar_rec r.

Lemma push_scalar s id rec c1 l1 :
  store_scalar s -> scalar_rec rec -> store_scalar (pushed s id rec c1 l1).
Proof.
  intros Hs Hr k r Hl. simpl in Hl. destruct (Z.eqb k id).
  - inversion Hl; subst. exact Hr.
  - eapply Hs; eauto.
Qed.

Lemma new_literal_scalar b v s w s1 : new_literal b v s = Ok (w, s1) -> store_scalar s -> store_scalar s1.
Proof.
  intros H Hs. destruct (new_literal_shape _ _ _ _ _ H) as (idx & l1 & -> & _).
  apply push_scalar; [exact Hs|]. split; [eexists; reflexivity | exact I].
Qed.

Lemma emit_scalar_inv t n s w s1 :
  (mdo id <- alloc; emit_scalar t id (n id)) s = Ok (w, s1) -> fst t <> MConst -> store_scalar s ->
  (forall id, node_fine (n id)) -> store_scalar s1.
Proof.
  intros H Hc Hs Hn. destruct (emit_shape _ _ _ _ _ H Hc) as [-> _].
  apply push_scalar; [exact Hs|]. split; [eexists; reflexivity | apply Hn].
Qed.

Lemma binop_scalar o ta ida va tb idb vb s w s1 :
  do_binop G o (WScalar ta ida va) (WScalar tb idb vb) s = Ok (w, s1) -> store_scalar s -> store_scalar s1.
Proof.
  intros H Hs.
  pose proof (bin_sim_all o ta tb (value_of (WScalar ta ida va)) (value_of (WScalar tb idb vb))) as Hspec.
  unfold do_binop in H.
  destruct (rule2v G o ta tb (value_of (WScalar ta ida va)) (value_of (WScalar tb idb vb))) as [e | t0 v0 | name t0 roles | k | e | e];
    cbn [bin_sim] in Hspec; try discriminate H; try contradiction.
  - destruct Hspec as (_ & (z & Hz) & _). rewrite Hz in H. eapply new_literal_scalar; eauto.
  - destruct Hspec as (Hr & Hc & Hn & _). subst roles name. rewrite pick_left, pick_right in H.
    destruct (emit2_shape _ (fun l r => ABinary (opname o) l r) _ _ _ _ _ H Hc) as (i & j & _ & _ & -> & _).
    apply push_scalar; [exact Hs|]. split; [eexists; reflexivity | simpl; eauto].
Qed.

Lemma unop_scalar u ta ida va s w s1 :
  do_unop G u (WScalar ta ida va) s = Ok (w, s1) -> store_scalar s -> store_scalar s1.
Proof.
  intros H Hs.
  pose proof (un_sim_all u ta (value_of (WScalar ta ida va))) as Hspec.
  unfold do_unop in H.
  destruct (classify (dispatch_method G (match u with UInvert => "__invert__" | UToPublic => "to_public" end)
                                      (operand ta (value_of (WScalar ta ida va)) 0) [])) as [e | t0 v0 | name t0 roles | k | e | e];
    cbn [un_sim] in Hspec; try discriminate H.
  - destruct Hspec as (_ & (z & Hz) & _). rewrite Hz in H. eapply new_literal_scalar; eauto.
  - destruct Hspec as (Hr & Hc & _ & _ & Hn). subst roles. rewrite pick_child in H.
    destruct (emit1_shape _ (fun c => AUnary name c) _ _ _ _ H Hc) as (i & _ & -> & _).
    apply push_scalar; [exact Hs|]. split; [eexists; reflexivity|]. simpl. destruct u; subst name; auto.
  - unfold ret in H. inversion H; subst. exact Hs.
Qed.

Lemma ifelse_scalar tc idc vc ta ida va tb idb vb s w s1 :
  do_ifelse G (WScalar tc idc vc) (WScalar ta ida va) (WScalar tb idb vb) s = Ok (w, s1) -> store_scalar s -> store_scalar s1.
Proof.
  intros H Hs. pose proof (if_sim_all tc ta tb) as Hspec. unfold do_ifelse in H.
  destruct (rule_ifelse G tc ta tb) as [e | t0 v0 | name t0 roles | k | e | e]; cbn [if_sim] in Hspec; try discriminate H.
  destruct Hspec as (Hr & Hc & _ & _). subst roles. rewrite pick_this, pick_arg0, pick_arg1 in H.
  destruct (emit3_shape _ (fun a b c => AIfElse a b c) _ _ _ _ _ _ H Hc) as (i & j & k & _ & _ & _ & -> & _).
  apply push_scalar; [exact Hs|]. split; [eexists; reflexivity | exact I].
Qed.

Notation env_ok := (ScalarInv.env_ok sty PE).
Notation get_wrap_inv := (ScalarInv.get_wrap_inv sty PE).

Lemma rhs_scalar ρ Γ r s w s1 :
  eval_rhs G ρ r s = Ok (w, s1) -> in_fragment r = true -> env_ok s ρ Γ -> store_scalar s -> store_scalar s1.
Proof.
  intros H Hfr He Hs. destruct r; try discriminate Hfr.
  - cbn [eval_rhs] in H. eapply new_literal_scalar; eauto.
  - destruct t as [[m b0]|]; [|discriminate Hfr].
    cbn [eval_rhs mk_input] in H. destruct m; unfold mbind, alloc, put, ret, fail in H; cbn [counter store lits] in H;
      try discriminate H; inversion H; subst.
    + apply (push_scalar s _ _ _ _ Hs). split; [exists (MPublic, b0); reflexivity | exact I].
    + apply (push_scalar s _ _ _ _ Hs). split; [exists (MSecret, b0); reflexivity | exact I].
  - cbn [eval_rhs] in H. apply (emit_scalar_inv (MSecret, b) (fun _ => ARandom) s w s1 H); [discriminate | exact Hs | intros; exact I].
  - cbn [eval_rhs] in H. unfold mbind in H.
    destruct (get_wrap ρ a s) as [[wa sa]| |] eqn:Ga; try discriminate H.
    destruct (get_wrap_inv _ _ _ _ _ _ He Ga) as (-> & ta & Ea & (ta' & ida & va & -> & _ & _)).
    destruct (get_wrap ρ b s) as [[wb sb]| |] eqn:Gb; try discriminate H.
    destruct (get_wrap_inv _ _ _ _ _ _ He Gb) as (-> & tb & Eb & (tb' & idb & vb & -> & _ & _)).
    eapply binop_scalar; eauto.
  - cbn [eval_rhs] in H. unfold mbind in H.
    destruct (get_wrap ρ a s) as [[wa sa]| |] eqn:Ga; try discriminate H.
    destruct (get_wrap_inv _ _ _ _ _ _ He Ga) as (-> & ta & Ea & (ta' & ida & va & -> & _ & _)).
    eapply unop_scalar; eauto.
  - cbn [eval_rhs] in H. unfold mbind in H.
    destruct (get_wrap ρ c s) as [[wc sc]| |] eqn:Gc; try discriminate H.
    destruct (get_wrap_inv _ _ _ _ _ _ He Gc) as (-> & tc & Ec & (tc' & idc & vc & -> & _ & _)).
    destruct (get_wrap ρ a s) as [[wa sa]| |] eqn:Ga; try discriminate H.
    destruct (get_wrap_inv _ _ _ _ _ _ He Ga) as (-> & ta & Ea & (ta' & ida & va & -> & _ & _)).
    destruct (get_wrap ρ b s) as [[wb sb]| |] eqn:Gb; try discriminate H.
    destruct (get_wrap_inv _ _ _ _ _ _ He Gb) as (-> & tb & Eb & (tb' & idb & vb & -> & _ & _)).
    eapply ifelse_scalar; eauto.
  - cbn [eval_rhs] in H. unfold mbind in H.
    destruct (get_wrap ρ a s) as [[wa sa]| |] eqn:Ga; try discriminate H.
    destruct (get_wrap_inv _ _ _ _ _ _ He Ga) as (-> & ta & Ea & (ta' & ida & va & -> & _ & _)).
    eapply unop_scalar; eauto.
  - cbn [eval_rhs] in H. unfold mbind at 1 in H.
    destruct (get_wrap ρ a s) as [[wa sa]| |] eqn:Ga; try discriminate H.
    destruct (get_wrap_inv _ _ _ _ _ _ He Ga) as (-> & ta & Ea & (ta' & ida & va & -> & _ & _)).
    destruct ta' as [m b1]. destruct (numeric_base b1); [|discriminate H].
    unfold mbind in H. destruct (new_literal b1 k s) as [[l s2]| |] eqn:El; try discriminate H.
    pose proof (new_literal_scalar _ _ _ _ _ El Hs) as Hs2.
    destruct (new_literal_shape _ _ _ _ _ El) as (idx & l1 & _ & ->).
    eapply binop_scalar; eauto.
Qed.

Lemma exec_scalar : forall ss fuel ρ Γ s ρ' s',
  exec G fuel ρ ss s = Ok (ρ', s') -> scalar_fragment ss = true ->
  env_ok s ρ Γ -> fresh_store s -> store_scalar s -> store_scalar s'.
Proof.
  induction ss as [|st ss IH]; intros fuel ρ Γ s ρ' s' H Hfr He Hf Hs.
  - destruct fuel; [discriminate H|]. simpl in H. unfold ret in H. inversion H; subst. exact Hs.
  - destruct fuel; [discriminate H|]. destruct st as [x r | f ps rt body res]; [|discriminate Hfr].
    cbn [scalar_fragment] in Hfr. apply andb_prop in Hfr. destruct Hfr as [Hr Hrest].
    cbn [exec] in H. unfold mbind in H. destruct (eval_rhs G ρ r s) as [[w s1]| |] eqn:Ev; try discriminate H.
    destruct (C02Program.rhs_ok _ _ _ _ _ _ Ev Hr He Hf) as (t & Ht & (Hext & Hf1 & Hw)).
    pose proof (rhs_scalar _ _ _ _ _ _ Ev Hr He Hs) as Hs1.
    eapply (IH fuel _ ((x, t) :: Γ)); [exact H | exact Hrest | | exact Hf1 | exact Hs1].
    constructor; [|eapply (ScalarInv.env_ok_ext sty PE); eauto].
    split; [reflexivity|]. exists w. split; [reflexivity | exact Hw].
Qed.

(* ---------------------------------------------------------------- what the compiler emits for such a store *)
Definition st_scalar (st : list (Z * arec)) : Prop := forall k r, lookup k st = Some r -> scalar_rec r.

Definition nodup_keys {A} (l : list (string * A)) : Prop := NoDup (map fst l).

Lemma sassoc_of_In {A} (l : list (string * A)) k v : nodup_keys l -> In (k, v) l -> sassoc k l = Some v.
Proof.
  unfold nodup_keys. induction l as [|[k' v'] l IH]; simpl; intros Hn Hin; [contradiction|].
  inversion Hn; subst. destruct Hin as [E | Hin].
  - inversion E; subst. rewrite String.eqb_refl. reflexivity.
  - destruct (String.eqb k k') eqn:Ek.
    + apply String.eqb_eq in Ek. subst. exfalso. apply H1. apply in_map_iff. exists (k', v). auto.
    + apply IH; auto.
Qed.

Lemma supdate_keys {A} k (v : A) l : nodup_keys l -> nodup_keys (supdate k v l).
Proof.
  unfold nodup_keys. induction l as [|[k' v'] l IH]; simpl; intros Hn.
  - constructor; [intros [] | constructor].
  - inversion Hn; subst. destruct (String.eqb k k') eqn:Ek; simpl.
    + apply String.eqb_eq in Ek. subst. constructor; auto.
    + constructor; [|apply IH; auto].
      intros Hin. apply in_map_iff in Hin. destruct Hin as ([k2 v2] & Hk & Hin). simpl in Hk. subst k2.
      apply In_supdate in Hin. destruct Hin as [E | Hin].
      * inversion E; subst. rewrite String.eqb_refl in Ek. discriminate.
      * apply H1. apply in_map_iff. exists (k', v2). auto.
Qed.

Record cinv (st : list (Z * arec)) (ops : list mentry) (c : cstate) : Prop := {
  ci_entries : forall e, In e ops -> exists k r, lookup k st = Some r /\ e = entry_of r;
  ci_from : inputs_from st c;
  ci_party_keys : nodup_keys (c_inputs c);
  ci_name_keys : forall pl, In pl (c_inputs c) -> nodup_keys (snd pl);
  ci_unique : forall pl pl' n id id' ty ty' d d', In pl (c_inputs c) -> In (n, (id, ty, d)) (snd pl) ->
                In pl' (c_inputs c) -> In (n, (id', ty', d')) (snd pl') -> id = id';
  ci_registered : forall k r n p d, lookup k st = Some r -> In (entry_of r) ops -> r_node r = AInput n p d ->
                    exists pl ty doc, In pl (c_inputs c) /\ In (n, (r_id r, ty, doc)) (snd pl);
  ci_literals : forall idx v ty, In (idx, (v, ty)) (c_literals c) -> exists t, ty = TyName (mir_name t)
}.

Lemma existsb_false {A} (f : A -> bool) l x : existsb f l = false -> In x l -> f x = false.
Proof.
  intros H Hin. destruct (f x) eqn:E; [|reflexivity].
  assert (existsb f l = true) by (apply existsb_exists; eauto). congruence.
Qed.

Lemma add_input_from st r c c' n p d :
  lookup (r_id r) st = Some r -> r_node r = AInput n p d ->
  add_input (r_id r) (r_ty r) n p d c = Ok c' -> inputs_from st c -> inputs_from st c'.
Proof.
  intros Hl Hn H Hi. unfold add_input in H.
  destruct (existsb _ (c_inputs c)); [discriminate|]. inversion H; subst; clear H.
  intros pl n0 id ty d0 Hpl Hin. simpl in Hpl. apply In_supdate in Hpl. destruct Hpl as [-> | Hpl].
  - simpl in Hin. apply In_supdate in Hin. destruct Hin as [E | Hin].
    + inversion E; subst. exists r. simpl. auto.
    + destruct (sassoc p (c_inputs c)) as [pin|] eqn:Hs; [|destruct Hin].
      apply sassoc_In in Hs. exact (Hi _ _ _ _ _ Hs Hin).
  - exact (Hi _ _ _ _ _ Hpl Hin).
Qed.

Lemma add_input_cinv st ops r c c' n p d :
  lookup (r_id r) st = Some r -> r_node r = AInput n p d ->
  add_input (r_id r) (r_ty r) n p d c = Ok c' -> cinv st ops c -> cinv st (ops ++ [entry_of r]) c'.
Proof.
  intros Hl Hn Ha [He Hf Hpk Hnk Hu Hr Hlit].
  pose proof (add_input_from _ _ _ _ _ _ _ Hl Hn Ha Hf) as Hf'.
  unfold add_input in Ha. destruct (existsb _ (c_inputs c)) eqn:Ex; [discriminate|]. inversion Ha; subst c'; clear Ha.
  set (pin := match sassoc p (c_inputs c) with Some l => l | None => [] end) in *.
  assert (Hpin : nodup_keys pin).
  { unfold pin. destruct (sassoc p (c_inputs c)) eqn:Es; [apply (Hnk (p, l)); apply sassoc_In; exact Es | constructor]. }
  assert (Hchk : forall pl id' ty' d', In pl (c_inputs c) -> In (n, (id', ty', d')) (snd pl) -> id' = r_id r).
  { intros pl id' ty' d' Hpl Hin. pose proof (existsb_false _ _ pl Ex Hpl) as Hx. cbv beta in Hx.
    rewrite (sassoc_of_In _ _ _ (Hnk pl Hpl) Hin) in Hx. apply negb_false_iff in Hx. apply Z.eqb_eq in Hx. exact Hx. }
  constructor; simpl.
  - intros e Hin. apply in_app_or in Hin. destruct Hin as [Hin | [<- | []]]; [auto | eauto].
  - exact Hf'.
  - apply supdate_keys. exact Hpk.
  - intros pl Hpl. apply In_supdate in Hpl. destruct Hpl as [-> | Hpl]; [simpl; apply supdate_keys; exact Hpin | auto].
  - (* uniqueness of the id registered for a name *)
    assert (Hnew : forall pl n0 id0 ty0 d0,
               In pl (supdate p (supdate n (r_id r, r_ty r, d) pin) (c_inputs c)) -> In (n0, (id0, ty0, d0)) (snd pl) ->
               (n0 = n /\ id0 = r_id r) \/ (exists pl0, In pl0 (c_inputs c) /\ In (n0, (id0, ty0, d0)) (snd pl0))).
    { intros pl n0 id0 ty0 d0 Hpl Hin. apply In_supdate in Hpl. destruct Hpl as [-> | Hpl]; [|right; eauto].
      simpl in Hin. apply In_supdate in Hin. destruct Hin as [E | Hin]; [inversion E; auto|].
      right. unfold pin in Hin. destruct (sassoc p (c_inputs c)) eqn:Es; [|destruct Hin].
      exists (p, l). split; [apply sassoc_In; exact Es | exact Hin]. }
    intros pl pl' n0 id id' ty ty' d0 d0' Hpl Hin Hpl' Hin'.
    destruct (Hnew _ _ _ _ _ Hpl Hin) as [[-> ->] | (q & Hq & Hqi)];
      destruct (Hnew _ _ _ _ _ Hpl' Hin') as [[E1 E2] | (q' & Hq' & Hqi')].
    + congruence.
    + symmetry. exact (Hchk _ _ _ _ Hq' Hqi').
    + subst n0 id'. exact (Hchk _ _ _ _ Hq Hqi).
    + exact (Hu _ _ _ _ _ _ _ _ _ Hq Hqi Hq' Hqi').
  - (* every input entry is registered under its own id *)
    intros k r0 n0 p0 d0 Hl0 Hin Hn0. apply in_app_or in Hin. destruct Hin as [Hin | [E | []]].
    + destruct (Hr _ _ _ _ _ Hl0 Hin Hn0) as (pl & ty & doc & Hpl & Hi).
      destruct (In_supdate_keep p (supdate n (r_id r, r_ty r, d) pin) _ _ Hpl) as [Hk | [Hk Hs]].
      * exists pl, ty, doc. auto.
      * exists (p, supdate n (r_id r, r_ty r, d) pin). unfold pin. rewrite Hs.
        destruct (In_supdate_keep n (r_id r, r_ty r, d) _ _ Hi) as [Hk' | [Hk' _]].
        -- exists ty, doc. split; [apply In_supdate_self | exact Hk'].
        -- simpl in Hk'. subst n0.
           assert (r_id r0 = r_id r) by (eapply Hchk; eauto). rewrite H.
           exists (r_ty r), d. split; apply In_supdate_self.
    + (* the new entry itself *)
      assert (Hk0 : r_id r0 = r_id r).
      { pose proof (f_equal e_key E) as Hk. rewrite !key_entry_of in Hk. congruence. }
      pose proof (store_ok_all st _ _ Hl0) as Hid0. pose proof (store_ok_all st _ _ Hl) as Hid.
      assert (r0 = r).
      { rewrite <- Hid0, Hk0 in Hl0. rewrite Hl in Hl0. inversion Hl0. reflexivity. }
      subst r0.
      rewrite Hn in Hn0. inversion Hn0; subst.
      exists (p0, supdate n0 (r_id r, r_ty r, d0) pin), (r_ty r), d0. split; apply In_supdate_self.
  - exact Hlit.
Qed.

Lemma entry_of_inj st k k' r r' : lookup k st = Some r -> lookup k' st = Some r' -> entry_of r = entry_of r' -> r = r'.
Proof.
  intros Hl Hl' E. pose proof (f_equal e_key E) as Hk. rewrite !key_entry_of in Hk.
  pose proof (store_ok_all st _ _ Hl) as Hid. pose proof (store_ok_all st _ _ Hl') as Hid'.
  assert (k = k') by congruence. subst k'. congruence.
Qed.

Lemma cinv_plain st ops c r :
  (exists k, lookup k st = Some r) -> (forall n p d, r_node r <> AInput n p d) -> cinv st ops c -> cinv st (ops ++ [entry_of r]) c.
Proof.
  intros [k Hl] Hni [He Hf Hpk Hnk Hu Hr Hlit]. constructor; auto.
  - intros e Hin. apply in_app_or in Hin. destruct Hin as [Hin | [<- | []]]; [auto | eauto].
  - intros k0 r0 n0 p0 d0 Hl0 Hin Hn0. apply in_app_or in Hin. destruct Hin as [Hin | [E | []]]; [eauto|].
    assert (r = r0) by (eapply entry_of_inj; eauto). subst r0. exfalso. eapply Hni; eauto.
Qed.

Lemma step_cinv st fs k r ops extra c extra' c' :
  lookup k st = Some r -> scalar_rec r -> step_node fs r extra c = Ok (extra', c') -> cinv st ops c ->
  cinv st (ops ++ [entry_of r]) c' /\ extra' = extra.
Proof.
  intros Hl [Ht Hn] H Hc. pose proof (store_ok_all st _ _ Hl) as Hid.
  unfold step_node in H. destruct (r_node r) eqn:En; simpl in Hn; try contradiction.
  - inversion H; subst. split; [|reflexivity]. apply cinv_plain; [eauto | rewrite En; discriminate | exact Hc].
  - inversion H; subst. split; [|reflexivity]. apply cinv_plain; [eauto | rewrite En; discriminate | exact Hc].
  - inversion H; subst. split; [|reflexivity]. apply cinv_plain; [eauto | rewrite En; discriminate | exact Hc].
  - inversion H; subst. split; [|reflexivity]. apply cinv_plain; [eauto | rewrite En; discriminate | exact Hc].
  - (* AInput *)
    destruct (add_input (r_id r) (r_ty r) name party doc c) as [c1| |] eqn:Ha; cbn [bind] in H; try discriminate.
    inversion H; subst. split; [|reflexivity].
    eapply add_input_cinv; eauto.
  - (* ALiteral *)
    inversion H; subst. split; [|reflexivity].
    match goal with |- cinv _ _ (add_literal ?ix ?vv _ _) => assert (Hc' : cinv st ops (add_literal ix vv (r_ty r) c)) end.
    { destruct Hc as [He Hf Hpk Hnk Hu Hr Hlit]. constructor; auto.
      intros i v ty Hin. simpl in Hin. apply In_supdate in Hin. destruct Hin as [E | Hin]; [|eauto].
      inversion E; subst. exact Ht. }
    apply cinv_plain; [eauto | rewrite En; discriminate | exact Hc'].
Qed.

Lemma traverse_cinv :
  forall fuel st fs stack ops c ops' extra' c',
    traverse fuel st fs stack ops [] c = Ok (ops', extra', c') -> st_scalar st -> cinv st ops c ->
    cinv st ops' c' /\ extra' = [].
Proof.
  induction fuel as [|n IH]; intros st fs stack ops c ops' extra' c' H Hst Hc; simpl in H; [discriminate|].
  destruct stack as [|k rest]; [inversion H; subst; auto|].
  destruct (zmem k (map e_key ops)); [eapply IH; eauto|].
  destruct (lookup k st) as [r|] eqn:Hl; [|discriminate].
  destruct (step_node fs r [] c) as [[extra1 c1]| |] eqn:Hs; try discriminate.
  destruct (step_cinv _ _ _ _ _ _ _ _ _ Hl (Hst _ _ Hl) Hs Hc) as [Hc1 ->].
  eapply IH; eauto.
Qed.

Lemma outputs_loop_cinv :
  forall outs st fs ops macc c ops' mouts fs' c',
    outputs_loop st fs outs ops macc c = Ok (ops', mouts, fs', c') -> st_scalar st -> cinv st ops c ->
    cinv st ops' c' /\ fs' = fs.
Proof.
  induction outs as [|o outs IH]; intros st fs ops macc c ops' mouts fs' c' H Hst Hc; simpl in H.
  - inversion H; subst. auto.
  - destruct (traverse (store_fuel st) st fs [co_id o] ops [] c) as [[[ops1 extra1] c1]| |] eqn:Ht;
      simpl in H; try discriminate.
    destruct (lookup (co_id o) st) as [rec|] eqn:Hl; [|discriminate].
    destruct (traverse_cinv _ _ _ _ _ _ _ _ _ Ht Hst Hc) as [Hc1 ->]. rewrite app_nil_r in H.
    eapply IH; [exact H | exact Hst |].
    destruct Hc1 as [He Hf Hpk Hnk Hu Hr Hlit]. constructor; auto.
Qed.

(* ---------------------------------------------------------------- assembling C05b *)
Lemma complete_scalar t : completeb (TyName (mir_name t)) = true.
Proof. destruct t as [[| |] [| |]]; reflexivity. Qed.

Lemma mty_eqb_name s : mty_eqb (TyName s) (TyName s) = true.
Proof. simpl. apply String.eqb_refl. Qed.

Lemma find_input_some n l : (exists i, In i l /\ i_name i = n) -> exists i, find_input n l = Some i /\ In i l /\ i_name i = n.
Proof.
  induction l as [|x l IH]; intros (i & Hin & Hn); [destruct Hin|]. simpl.
  destruct (String.eqb (i_name x) n) eqn:E.
  - apply String.eqb_eq in E. exists x. auto.
  - destruct Hin as [-> | Hin]; [rewrite Hn, String.eqb_refl in E; discriminate|].
    destruct (IH (ex_intro _ i (conj Hin Hn))) as (j & A & B & C). exists j. auto.
Qed.

Lemma find_entry_some k t e : find_entry k t = Some e -> In e t /\ e_key e = k.
Proof.
  induction t as [|x t IH]; simpl; [discriminate|]. destruct (Z.eqb (e_key x) k) eqn:E.
  - intros H. inversion H; subst. apply Z.eqb_eq in E. auto.
  - intros H. destruct (IH H). auto.
Qed.
Lemma find_entry_in k t : In k (keys t) -> exists e, find_entry k t = Some e.
Proof.
  unfold keys. induction t as [|x t IH]; simpl; [intros []|]. intros [E | Hin].
  - rewrite E, Z.eqb_refl. eauto.
  - destruct (Z.eqb (e_key x) k); eauto.
Qed.

Lemma entry_of_scalar r : node_fine (r_node r) -> e_ty (entry_of r) = r_ty r /\ e_op (entry_of r) = ast_to_mop (r_ty r) (r_node r).
Proof. unfold entry_of. destruct (r_node r); simpl; intros H; try contradiction; auto. Qed.

Lemma edge_binary m t e o l r : e_op e = MBinary (opname o) l r -> edge_okb m t e = true.
Proof. intros H. unfold edge_okb. rewrite H. destruct o; reflexivity. Qed.

Lemma Forall2_in_r {A B} (R : A -> B -> Prop) l1 l2 : Forall2 R l1 l2 -> forall y, In y l2 -> exists x, In x l1 /\ R x y.
Proof. intros H. induction H; intros z Hin; [destruct Hin|]. destruct Hin as [<- | Hin]; [eauto using in_eq | destruct (IHForall2 z Hin) as (x0 & A0 & B0); eauto using in_cons]. Qed.

Theorem scalar_programs_satisfy_C05b : forall p m,
  run G p = Ok m -> scalar_fragment (p_stmts p) = true -> C05b m = true.
Proof.
  intros p m Hr Hfr. unfold run, run_from in Hr.
  destruct (exec G (stmts_size (p_stmts p)) [] (p_stmts p) init_state) as [[ρ s']| |] eqn:Ex; cbn [bind] in Hr; try discriminate Hr.
  destruct (make_outputs ρ (p_outs p)) as [couts| |] eqn:Em; cbn [bind] in Hr; try discriminate Hr.
  destruct (existsb (has_no_id ρ) (p_outs p)) eqn:En; cbn [bind] in Hr; try discriminate Hr.
  destruct (compile (store s') [] couts) as [[m' fs']| |] eqn:Hc; cbn [bind fst snd] in Hr; try discriminate Hr.
  inversion Hr; subst m'; clear Hr.
  assert (H0 : ScalarInv.env_ok sty PE init_state [] [] /\ fresh_store init_state /\ store_scalar init_state).
  { split; [constructor|]. split; intros k r; simpl; intros; discriminate. }
  destruct H0 as (E0 & F0 & S0).
  pose proof (exec_scalar _ _ _ _ _ _ _ Ex Hfr E0 F0 S0) as Hst. set (st := store s') in *.
  pose proof (compile_outputs _ _ _ _ _ Hc) as Hrel.
  pose proof (compile_closed _ _ _ _ _ Hc) as (_ & _ & _ & Hkeys & _).
  unfold compile in Hc.
  destruct (outputs_loop st [] couts [] [] (empty_cstate [])) as [[[[ops mouts] fs1] c1]| |] eqn:Hol; cbn [bind] in Hc; try discriminate.
  assert (Hc0 : cinv st [] (empty_cstate [])).
  { constructor; simpl.
    - intros e [].
    - intros pl n id ty doc [].
    - constructor.
    - intros pl [].
    - intros pl pl' n id id' ty ty' d d' [].
    - intros k r n q d _ [].
    - intros idx v ty []. }
  destruct (outputs_loop_cinv _ _ _ _ _ _ _ _ _ _ Hol Hst Hc0) as [Hci ->].
  cbn [rev functions_loop Datatypes.length] in Hc. cbn [bind] in Hc. inversion Hc; subst m; clear Hc.
  destruct Hci as [He Hf Hpk Hnk Hu Hreg Hlit].
  unfold C05b. cbn [m_ops m_functions m_outputs m_inputs m_literals forallb andb].
  set (M := {| m_functions := []; m_parties := _; m_inputs := _; m_literals := _; m_outputs := mouts; m_ops := ops |}) in *.
  assert (Hins : forall i, In i (m_inputs M) -> exists pl id, In pl (c_inputs c1) /\ In (i_name i, (id, i_ty i, i_doc i)) (snd pl)).
  { intros i Hin. cbn [M m_inputs] in Hin. apply in_flat_map in Hin. destruct Hin as (pl & Hpl & Hin).
    apply in_map_iff in Hin. destruct Hin as ([n [[id ty] doc]] & <- & Hin). exists pl, id. auto. }
  repeat (apply andb_true_intro; split).
  - (* every operation *)
    unfold table_typesb. apply forallb_forall. intros e Hin.
    destruct (He e Hin) as (k & r & Hl & ->). destruct (Hst _ _ Hl) as [[t Ht] Hn].
    destruct (entry_of_scalar r Hn) as [Ety Eop]. apply andb_true_intro. split; [rewrite Ety, Ht; apply complete_scalar|].
    destruct (r_node r) eqn:Enode; simpl in Hn; try contradiction.
    + destruct Hn as (o & ->). eapply edge_binary. rewrite Eop. reflexivity.
    + unfold edge_okb. rewrite Eop. cbn [ast_to_mop]. destruct Hn as [-> | ->]; reflexivity.
    + unfold edge_okb. rewrite Eop. reflexivity.
    + unfold edge_okb. rewrite Eop. reflexivity.
    + (* an input reference: typed like the input it names *)
      unfold edge_okb. rewrite Eop. cbn [ast_to_mop].
      destruct (Hreg _ _ _ _ _ Hl Hin Enode) as (pl0 & ty0 & doc0 & Hpl0 & Hi0).
      assert (Hex : exists i, In i (m_inputs M) /\ i_name i = name).
      { eexists {| i_name := name; i_ty := ty0; i_party := fst pl0; i_doc := doc0; i_sref := no_sref |}. split; [|reflexivity].
        cbn [M m_inputs]. apply in_flat_map. exists pl0. split; [exact Hpl0|].
        apply in_map_iff. exists (name, (r_id r, ty0, doc0)). auto. }
      destruct (find_input_some _ _ Hex) as (i & Hfi & Hii & Hni). rewrite Hfi.
      destruct (Hins i Hii) as (pl & id & Hpl & Hi). rewrite Hni in Hi.
      assert (id = r_id r) by exact (Hu _ _ _ _ _ _ _ _ _ Hpl Hi Hpl0 Hi0). subst id.
      destruct (Hf _ _ _ _ _ Hpl Hi) as (r' & Hl' & _ & Hty').
      pose proof (store_ok_all st _ _ Hl) as Hid. rewrite Hid, Hl in Hl'. inversion Hl'; subst r'.
      rewrite <- Hty', Ety, Ht. apply mty_eqb_name.
    + unfold edge_okb. rewrite Eop. reflexivity.
  - (* no functions *) reflexivity.
  - (* outputs *)
    apply forallb_forall. intros o Hin.
    destruct (Forall2_in_r _ _ _ Hrel o Hin) as (co & _ & (_ & _ & Hop & rec & Hlr & Hoty)).
    destruct (Hst _ _ Hlr) as [[t Ht] Hn]. apply andb_true_intro. split; [rewrite Hoty, Ht; apply complete_scalar|].
    destruct (find_entry_in (o_op o) ops (Hkeys o Hin)) as (e & Hfe). unfold ty_of. rewrite Hfe. cbn [option_map opt_ty_eqb].
    destruct (find_entry_some _ _ _ Hfe) as [Hine Hke]. destruct (He e Hine) as (k2 & r2 & Hl2 & ->).
    rewrite key_entry_of in Hke. pose proof (store_ok_all st _ _ Hl2) as Hid2.
    assert (Hk : k2 = co_id co) by congruence. rewrite Hk, Hlr in Hl2. inversion Hl2; subst r2.
    destruct (entry_of_scalar rec Hn) as [Ety _]. rewrite Ety, Hoty, Ht. apply mty_eqb_name.
  - (* inputs *)
    apply forallb_forall. intros i Hin. destruct (Hins i Hin) as (pl & id & Hpl & Hi).
    destruct (Hf _ _ _ _ _ Hpl Hi) as (r' & Hl' & _ & Hty'). destruct (Hst _ _ Hl') as [[t Ht] _].
    rewrite <- Hty', Ht. apply complete_scalar.
  - (* literals *)
    apply forallb_forall. intros l Hin. cbn [M m_literals] in Hin. apply in_map_iff in Hin.
    destruct Hin as ([idx [v ty]] & <- & Hin). simpl. destruct (Hlit _ _ _ Hin) as (t & ->). apply complete_scalar.
Qed.
