(* C03 (rule level): a scalar operation with a secret operand yields a secret-typed
   result unless it is one of the two declassifying operations. *)
From Coq Require Import ZArith List String Bool.
From NadaV.PyMini Require Import PyMini.
From NadaV.Gen Require Import GenScalar.
From NadaV.Model Require Import Rules.
From NadaV.Spec Require Import TypingSpec.
From NadaV.Proofs Require Import Finite.
Import ListNotations.
Open Scope string_scope.

Definition declassifier (opname : string) : bool :=
  String.eqb opname "Reveal" || String.eqb opname "PublicOutputEquality".

Definition nodeclass (ins : list sty) (o : outcome) : bool :=
  match o with
  | Emit name t _ => implb (existsb secret ins && negb (declassifier name)) (secret t)
  | Fold t _ => negb (existsb secret ins)          (* a folded literal never has a secret operand *)
  | Same _ => true                                 (* the operand itself, type unchanged *)
  | Reject _ => true
  | NonNada _ | Stuck _ => false
  end.

Lemma t2 : forall_op (fun o => forall2 (fun l r => nodeclass [l; r] (rule2 G o l r))) = true.
Proof. vm_compute. reflexivity. Qed.
Lemma t3 : forall3 (fun c a b => nodeclass [c; a; b] (rule_ifelse G c a b)) = true.
Proof. vm_compute. reflexivity. Qed.
Lemma t1 : forall1 (fun t => nodeclass [t] (rule1 G UInvert t) && nodeclass [t] (rule1 G UToPublic t)
                             && match rule_random G t with
                                | Emit _ t' _ => secret t' | Reject _ => true | _ => false end
                             && nodeclass [t] (rule_radd_int G 5 t 3)) = true.
Proof. vm_compute. reflexivity. Qed.

Lemma nodeclass_emit ins name t roles :
  nodeclass ins (Emit name t roles) = true -> existsb secret ins = true -> declassifier name = false ->
  secret t = true.
Proof. simpl. intros H Hs Hd. rewrite Hs, Hd in H. exact H. Qed.

Lemma binary_no_declass : forall o l r name t roles,
  rule2 G o l r = Emit name t roles -> secret l = true \/ secret r = true ->
  declassifier name = false -> secret t = true.
Proof.
  intros o l r name t roles He Hs Hd.
  assert (H : nodeclass [l; r] (rule2 G o l r) = true).
  { generalize l r. apply forall2_spec. generalize o. apply forall_op_spec. exact t2. }
  rewrite He in H. eapply nodeclass_emit; eauto. simpl. destruct Hs as [-> | ->]; auto using orb_true_r.
Qed.

Lemma ifelse_no_declass : forall c a b name t roles,
  rule_ifelse G c a b = Emit name t roles -> secret c = true \/ secret a = true \/ secret b = true ->
  secret t = true.
Proof.
  intros c a b name t roles He Hs.
  pose proof (forall3_spec _ t3 c a b) as H. simpl in H. rewrite He in H.
  destruct (declassifier name) eqn:Hd.
  - (* IfElse is not a declassifier: the table says the name is IfElse *)
    assert (N : forall3 (fun c a b => match rule_ifelse G c a b with
                                      | Emit n _ _ => negb (declassifier n) | _ => true end) = true)
      by (vm_compute; reflexivity).
    pose proof (forall3_spec _ N c a b) as H'. simpl in H'. rewrite He in H'. rewrite Hd in H'. discriminate.
  - eapply nodeclass_emit; eauto. simpl.
    destruct Hs as [-> | [-> | ->]]; auto using orb_true_r.
    rewrite orb_true_r. apply orb_true_r.
Qed.

Lemma unary_no_declass : forall t,
  (forall name t' roles, rule1 G UInvert t = Emit name t' roles -> secret t = true -> secret t' = true) /\
  (forall name t' roles, rule1 G UToPublic t = Emit name t' roles -> name = "Reveal") /\
  (forall name t' roles, rule_random G t = Emit name t' roles -> secret t' = true) /\
  (forall k v name t' roles, rule_radd_int G k t v = Emit name t' roles -> secret t = true -> secret t' = true).
Proof.
  intros t. destruct t as [[| |] [| |]]; repeat split; intros; try (vm_compute in H; try discriminate);
    try (injection H as <- <- <-; reflexivity); try reflexivity; try assumption.
  all: try (revert H; lazy -[Z.add]; intros H; inversion H; subst; reflexivity).
Qed.
