(* C11, trace model, for every program of the WHOLE surface language (scalars, collections,
   functions, nested definitions): what tracing writes about functions.
   - the store only grows, under fresh ids (TraceMono);
   - a definition leaves exactly one AFunction record with the definition's name, its parameters as
     AArg records in the written order with the types of the annotations, and is rejected when the
     return type is a literal type or all parameters are;
   - every map / reduce / call site records the id of the function its name is bound to, and
     that record is the one its definition left;
   - every function reference in the store resolves to a function record, every function record's
     arguments to its own argument records. *)
From Coq Require Import ZArith List String Bool Lia.
From NadaV.PyMini Require Import PyMini.
From NadaV.Model Require Import Rules Corr Mir Surface Trace.
From NadaV.Proofs Require Import ScalarInv TraceMono.
Import ListNotations.
Open Scope string_scope.
Open Scope Z_scope.
Open Scope list_scope.

(* what a right-hand side may add to the store: no function or argument records, and function
   references only to ids in F *)
Definition rhs_node (F : Z -> Prop) (n : ast) : Prop :=
  match n with
  | AFunction _ _ _ | AArg _ _ => False
  | AMap _ fn | AReduce _ fn _ | ACall _ fn => F fn
  | _ => True
  end.

Definition bound_fun (ρ : env) (fn : Z) : Prop := exists x fr, assoc x ρ = Some (BFun fr) /\ fn_id fr = fn.

Section WithRules.
Variable GG : genv.

Lemma Gm_bind_get_fun {B} Φ c0 ids ρ f (k : fnrec -> M B) :
  (forall fr, assoc f ρ = Some (BFun fr) -> Gm Φ c0 ids (k fr)) -> Gm Φ c0 ids (mbind (get_fun ρ f) k).
Proof.
  intros Hk s b s1 Hok H. unfold mbind, get_fun in H.
  destruct (assoc f ρ) as [[w|fr]|] eqn:E; try discriminate. unfold ret in H.
  eapply Hk; eauto.
Qed.

Lemma pure_same_go first : forall l,
  pure ((fix go (l : list wrap) : M bool :=
           match l with
           | [] => ret true
           | w :: r =>
               if String.eqb (py_class w) (py_class first) then
                 mdo t <- lift (to_mir w); mdo t0 <- lift (to_mir first);
                 if mty_eqb t t0 then go r else ret false
               else ret false
           end) l).
Proof.
  induction l as [|w r IH]; [apply pure_ret|].
  intros s a s1 H. cbn fix beta iota in H. revert s a s1 H.
  match goal with |- forall s a s1, ?m s = Ok (a, s1) -> s1 = s => change (pure m) end.
  destruct (String.eqb (py_class w) (py_class first)); [|apply pure_ret].
  apply pure_bind; [apply pure_lift|]. intro t. apply pure_bind; [apply pure_lift|]. intro t0.
  destruct (mty_eqb t t0); [exact IH | apply pure_ret].
Qed.

Section Rhs.
Variable ρ : env.
Let Φ := rhs_node (bound_fun ρ).

Lemma Φ_lit : forall v i, Φ (ALiteral v i).  Proof. intros; exact I. Qed.
Hint Resolve Φ_lit : core.

Ltac gmf :=
  cbv zeta;
  repeat first
    [ apply Gm_bind_get_fun; intros ? ?
    | gm_step ].

Lemma Gm_do_binop c0 ids o a b : Gm Φ c0 ids (do_binop GG o a b).
Proof. unfold do_binop. gmf; try exact I; intros; exact I. Qed.
Lemma Gm_do_unop c0 ids u a : Gm Φ c0 ids (do_unop GG u a).
Proof. unfold do_unop. gmf; try exact I; intros; exact I. Qed.
Lemma Gm_do_ifelse c0 ids c a b : Gm Φ c0 ids (do_ifelse GG c a b).
Proof. unfold do_ifelse. gmf; try exact I; intros; exact I. Qed.

Lemma Gm_generate_accessor c0 ids v id n : In id ids -> Φ n -> Gm Φ c0 ids (generate_accessor v id n).
Proof. intros Hin Hn. unfold generate_accessor. gmf; assumption. Qed.

(* an input's wrapper carries an id allocated by this action *)
Lemma mk_input_G c0 name party doc : forall t s w s1,
  c0 <= counter s -> mk_input name party doc t s = Ok (w, s1) ->
  G Φ c0 s s1 /\ exists id, wid w = Some id /\ c0 < id <= counter s1.
Proof.
  induction t as [[m b]|elt IH size]; intros s w s1 Hc H.
  - destruct m; simpl in H; try (unfold mbind, alloc, fail in H; discriminate H);
      unfold mbind, alloc, put, ret in H; cbn [counter store lits] in H; inversion H; subst; clear H;
      (split; [|simpl; eexists; split; [reflexivity | lia]]);
      (split; [simpl; lia|]); eexists [_]; (split; [reflexivity|]); (constructor; [|constructor]); simpl; (split; [lia | exact I]).
  - cbn [mk_input] in H. unfold mbind at 1 in H.
    destruct (mk_input name party doc elt s) as [[inner s']| |] eqn:E; try discriminate.
    destruct (IH _ _ _ Hc E) as [G1 (id & Hw & Hid)].
    unfold mbind at 1 in H. unfold need_id in H. rewrite Hw in H. unfold ret at 1 in H.
    assert (Hk : Gm Φ c0 [id] (mdo ty <- lift (to_mir (WArray (DInst inner) size (Some id)));
                                mdo _ <- put id ty (AInput name party doc);
                                ret (WArray (DInst inner) size (Some id)))).
    { gmf. exact I. }
    assert (Hok : ok c0 [id] s').
    { split; [destruct G1; lia|]. constructor; [exact Hid | constructor]. }
    pose proof (Hk _ _ _ Hok H) as G2. split; [eapply G_trans; eauto|].
    (* the result is the array wrapper with the same id *)
    unfold mbind, lift in H. destruct (to_mir (WArray (DInst inner) size (Some id))) as [ty| |]; try discriminate.
    unfold put, ret in H. inversion H; subst; clear H. simpl. exists id. split; [reflexivity|].
    destruct G1 as [G1 _]. lia.
Qed.

Lemma Gm_mk_input c0 ids name party doc t : Gm Φ c0 ids (mk_input name party doc t).
Proof. intros s w s1 [Hc _] H. eapply mk_input_G; eauto. Qed.

Theorem eval_rhs_grows c0 r : Gm Φ c0 [] (eval_rhs GG ρ r).
Proof.
  destruct r; cbn [eval_rhs].
  - gmf. exact I.
  - apply Gm_mk_input.
  - gmf. exact I.
  - gmf. apply Gm_do_binop.
  - gmf. apply Gm_do_unop.
  - gmf. apply Gm_do_ifelse.
  - gmf. apply Gm_do_unop.
  - gmf; try exact I; apply Gm_do_binop.
  - (* ArrayNew *) apply Gm_bind; [apply Gm_pure, pure_get_wraps|]. intros ws.
    destruct ws as [|first rest]; [apply Gm_fail|].
    apply Gm_bind; [apply Gm_pure, (pure_same_go first (first :: rest))|]. intros same.
    gmf. exact I.
  - gmf. exact I.
  - gmf. exact I.
  - gmf. exact I.
  - gmf; try apply Gm_generate_accessor; try (simpl; tauto); try exact I.
  - gmf; try apply Gm_generate_accessor; try (simpl; tauto); try exact I.
  - (* Map *) gmf. exists f. eexists. split; [eassumption | reflexivity].
  - (* Reduce *) gmf. exists f. eexists. split; [eassumption | reflexivity].
  - gmf. exact I.
  - gmf. exact I.
  - gmf. exact I.
  - (* Call *) gmf; exists f; eexists; (split; [eassumption | reflexivity]).
Qed.

End Rhs.

(* ---- parameters *)
Definition arg_node (n : ast) : Prop := match n with AArg _ _ | ALiteral _ _ => True | _ => False end.

(* the MIR type of a parameter annotated t (array sizes are not part of an annotation's type) *)
Fixpoint param_mir (t : ity) : res mty :=
  match t with
  | IScalar t => Ok (TyName (mir_name t))
  | IArray e _ => do i <- param_mir e; Ok (TyArray i None)
  end.

Lemma template_of_spec c0 : forall t s w s1,
  c0 <= counter s -> template_of t s = Ok (w, s1) -> G arg_node c0 s s1 /\ to_mir w = param_mir t.
Proof.
  induction t as [[m b]|elt IH size]; intros s w s1 Hc H.
  - destruct m; cbn [template_of] in H.
    + unfold mbind at 1 in H. destruct (new_literal b 0 s) as [[w0 s0]| |] eqn:E; try discriminate.
      unfold ret in H. inversion H; subst; clear H. split.
      * eapply (Gm_new_literal arg_node (fun _ _ => I) c0 []); [|exact E]. split; [exact Hc | constructor].
      * unfold new_literal, mbind, alloc, lit_index, put, ret in E. cbn [counter store lits] in E.
        destruct (index_of _ (lits s) 0); inversion E; subst; reflexivity.
    + unfold ret in H. inversion H; subst. split; [apply G_refl | reflexivity].
    + unfold ret in H. inversion H; subst. split; [apply G_refl | reflexivity].
  - cbn [template_of] in H. unfold mbind at 1 in H.
    destruct (template_of elt s) as [[e s0]| |] eqn:E; try discriminate.
    unfold ret in H. inversion H; subst; clear H.
    destruct (IH _ _ _ Hc E) as [G1 Hm]. split; [exact G1|].
    cbn [to_mir inner_mir param_mir]. rewrite Hm. reflexivity.
Qed.

Lemma wid_with_id w i : wid (with_id w i) = Some i.
Proof. destruct w; reflexivity. Qed.

Lemma Forall2_imp {A B} (P Q : A -> B -> Prop) l1 l2 :
  (forall a b, P a b -> Q a b) -> Forall2 P l1 l2 -> Forall2 Q l1 l2.
Proof. intros H F. induction F; constructor; auto. Qed.

Definition is_arg (s : tstate) (fid id : Z) (x : string) : Prop :=
  exists ty, lookup id (store s) = Some {| r_id := id; r_ty := ty; r_node := AArg x fid |}.

Definition arg_made (s1 : tstate) (c0 fid : Z) (a : Z * (string * wrap)) (p : string * ity) : Prop :=
  (fst (snd a) = fst p) /\ (wid (snd (snd a)) = Some (fst a)) /\ (c0 < fst a <= counter s1) /\
  exists ty, param_mir (snd p) = Ok ty /\
             lookup (fst a) (store s1) = Some {| r_id := fst a; r_ty := ty; r_node := AArg (fst p) fid |}.

Lemma make_args_spec fid : forall ps c0 s args s1,
  c0 <= counter s -> make_args fid ps s = Ok (args, s1) ->
  G arg_node c0 s s1 /\ Forall2 (arg_made s1 c0 fid) args ps.
Proof.
  induction ps as [|[x t] ps IH]; intros c0 s args s1 Hc H.
  - simpl in H. unfold ret in H. inversion H; subst. split; [apply G_refl | constructor].
  - cbn [make_args] in H. unfold mbind at 1 in H.
    destruct (template_of t s) as [[tmpl sa]| |] eqn:Et; try discriminate.
    destruct (template_of_spec c0 _ _ _ _ Hc Et) as [Ga Hm].
    unfold mbind at 1 in H. unfold alloc at 1 in H.
    set (id := counter sa + 1) in *.
    set (sb := {| counter := id; store := store sa; lits := lits sa |}) in *.
    unfold mbind at 1 in H. unfold lift at 1 in H.
    destruct (to_mir tmpl) as [ty| |] eqn:Ety; try discriminate.
    unfold mbind at 1 in H. unfold put at 1 in H.
    set (sc := {| counter := counter sb; store := (id, {| r_id := id; r_ty := ty; r_node := AArg x fid |}) :: store sb;
                  lits := lits sb |}) in *.
    unfold mbind at 1 in H.
    destruct (make_args fid ps sc) as [[rest sd]| |] eqn:Er; try discriminate.
    unfold ret in H. inversion H; subst args s1; clear H.
    assert (Hca : counter s <= counter sa) by (destruct Ga; assumption).
    assert (Gc : G arg_node c0 sa sc).
    { split; [simpl; lia|]. exists [(id, {| r_id := id; r_ty := ty; r_node := AArg x fid |})].
      split; [reflexivity|]. constructor; [|constructor]. simpl. split; [lia | exact I]. }
    destruct (IH (counter sc) sc rest sd (Z.le_refl _) Er) as [Gd Hrest].
    assert (Gd0 : G arg_node c0 sc sd) by (eapply G_base; [|exact Gd]; simpl; lia).
    split; [eapply G_trans; [exact Ga|]; eapply G_trans; eauto|].
    constructor.
    + unfold arg_made. cbn [fst snd]. repeat split.
      * apply wid_with_id.
      * lia.
      * destruct Gd as [Gd _]. simpl in Gd. lia.
      * exists ty. split; [first [symmetry; exact Hm | rewrite <- Hm; exact Ety]|].
        rewrite (lookup_G _ _ _ _ id Gd) by (simpl; lia). simpl. rewrite Z.eqb_refl. reflexivity.
    + eapply Forall2_imp; [|exact Hrest]. intros a p (A1 & A2 & A3 & A4). repeat split; auto; simpl in A3; lia.
Qed.

(* ---- what the store says about functions *)
Definition fun_rec (s : tstate) (f : string) (fr : fnrec) : Prop :=
  exists argids cid t,
    lookup (fn_id fr) (store s)
      = Some {| r_id := fn_id fr; r_ty := TyName (mir_name t); r_node := AFunction f argids cid |}
    /\ fn_ret fr = IScalar t /\ fst t <> MConst
    /\ Forall2 (is_arg s (fn_id fr)) argids (fn_params fr).
Definition FInv (ρ : env) (s : tstate) : Prop := forall x fr, assoc x ρ = Some (BFun fr) -> fun_rec s x fr.
Definition is_fun (s : tstate) (fn : Z) : Prop :=
  exists name argids cid ty,
    lookup fn (store s) = Some {| r_id := fn; r_ty := ty; r_node := AFunction name argids cid |}.
Definition node_ok (s : tstate) (k : Z) (n : ast) : Prop :=
  match n with
  | AMap _ fn | AReduce _ fn _ | ACall _ fn => is_fun s fn
  | AFunction _ argids _ => Forall (fun id => exists x, is_arg s k id x) argids
  | _ => True
  end.
Definition WF (s : tstate) : Prop := forall k r, lookup k (store s) = Some r -> node_ok s k (r_node r).
Definition Inv (ρ : env) (s : tstate) : Prop := fresh_store s /\ WF s /\ FInv ρ s.

(* nothing recorded is lost or changed *)
Definition sub (s s1 : tstate) : Prop := forall k r, lookup k (store s) = Some r -> lookup k (store s1) = Some r.
Lemma sub_refl s : sub s s.  Proof. intros k r H; exact H. Qed.
Lemma sub_trans a b c : sub a b -> sub b c -> sub a c.  Proof. intros H1 H2 k r H. auto. Qed.
Lemma G_sub Φ s s1 : fresh_store s -> G Φ (counter s) s s1 -> sub s s1.
Proof. intros Hf Hg k r H. rewrite (lookup_G _ _ _ _ k Hg); [exact H | eapply Hf; eauto]. Qed.

Lemma is_arg_sub s s1 fid id x : sub s s1 -> is_arg s fid id x -> is_arg s1 fid id x.
Proof. intros Hs [ty H]. exists ty. auto. Qed.
Lemma is_fun_sub s s1 fn : sub s s1 -> is_fun s fn -> is_fun s1 fn.
Proof. intros Hs (a & b & c & d & H). exists a, b, c, d. auto. Qed.
Lemma fun_rec_sub s s1 f fr : sub s s1 -> fun_rec s f fr -> fun_rec s1 f fr.
Proof.
  intros Hs (argids & cid & t & H1 & H2 & H3 & H4). exists argids, cid, t. repeat split; auto.
  eapply Forall2_imp; [|exact H4]. intros a b. apply is_arg_sub. exact Hs.
Qed.
Lemma node_ok_sub s s1 k n : sub s s1 -> node_ok s k n -> node_ok s1 k n.
Proof.
  intros Hs H. destruct n; simpl in *; auto; try (eapply is_fun_sub; eauto).
  eapply Forall_impl; [|exact H]. intros id [x Hx]. exists x. eapply is_arg_sub; eauto.
Qed.
Lemma FInv_sub ρ s s1 : sub s s1 -> FInv ρ s -> FInv ρ s1.
Proof. intros Hs H x fr Hx. eapply fun_rec_sub; eauto. Qed.
Lemma fun_rec_is_fun s f fr : fun_rec s f fr -> is_fun s (fn_id fr).
Proof. intros (argids & cid & t & H1 & _). exists f, argids, cid, (TyName (mir_name t)). exact H1. Qed.

Lemma WF_grow Φ s s1 :
  fresh_store s -> WF s -> G Φ (counter s) s s1 -> (forall n k, Φ n -> node_ok s1 k n) -> WF s1.
Proof.
  intros Hf Hw Hg HΦ k r H.
  destruct (Z_le_gt_dec k (counter s)) as [Hk | Hk].
  - rewrite (lookup_G _ _ _ _ k Hg Hk) in H. eapply node_ok_sub; [eapply G_sub; eauto | apply Hw; exact H].
  - apply HΦ. eapply lookup_G_new; eauto. lia.
Qed.

Lemma rhs_node_ok ρ s1 n k : FInv ρ s1 -> rhs_node (bound_fun ρ) n -> node_ok s1 k n.
Proof.
  intros HF H. destruct n; simpl in *; auto; try contradiction;
    destruct H as (x & fr & Hx & <-); eapply fun_rec_is_fun; eauto.
Qed.

Lemma G_top Φ c0 s s1 : G Φ c0 s s1 -> G (fun _ => True) c0 s s1.
Proof.
  intros [H1 (new & E & F)]. split; [exact H1|]. exists new. split; [exact E|].
  eapply Forall_impl; [|exact F]. intros e [A _]. split; [exact A | exact I].
Qed.

Lemma slet_inv ρ x r s w s1 :
  Inv ρ s -> eval_rhs GG ρ r s = Ok (w, s1) ->
  Inv ((x, BWrap w) :: ρ) s1 /\ G (fun _ => True) (counter s) s s1.
Proof.
  intros (Hf & Hw & HF) H.
  assert (Hg : G (rhs_node (bound_fun ρ)) (counter s) s s1).
  { eapply (eval_rhs_grows ρ (counter s) r); [|exact H]. split; [lia | constructor]. }
  pose proof (G_sub _ _ _ Hf Hg) as Hs.
  assert (HF1 : FInv ρ s1) by (eapply FInv_sub; eauto).
  split; [|eapply G_top; eauto].
  split; [eapply fresh_G; eauto|]. split.
  - eapply WF_grow; eauto. intros n k Hn. eapply rhs_node_ok; eauto.
  - intros y fr Hy. simpl in Hy. destruct (String.eqb y x); [discriminate|]. apply HF1. exact Hy.
Qed.

(* ---- a definition, step by step *)
Definition body_env (args : list (Z * (string * wrap))) (ρ : env) : env :=
  map (fun a => (fst (snd a), BWrap (snd (snd a)))) (rev args) ++ ρ.
Definition after_alloc (s : tstate) : tstate := {| counter := counter s + 1; store := store s; lits := lits s |}.
Definition after_put (s : tstate) (id : Z) (ty : mty) (n : ast) : tstate :=
  {| counter := counter s; store := (id, {| r_id := id; r_ty := ty; r_node := n |}) :: store s; lits := lits s |}.

Lemma sdef_inversion n ρ f params rt body res rest s ρ' s' :
  exec GG (S n) ρ (SDef f params rt body res :: rest) s = Ok (ρ', s') ->
  let fid := counter s + 1 in
  exists args s1 ρb s2 child t cid,
    make_args fid params (after_alloc s) = Ok (args, s1)
    /\ exec GG n (body_env args ρ) body s1 = Ok (ρb, s2)
    /\ assoc res ρb = Some (BWrap child) /\ wid child = Some cid
    /\ rt = IScalar t /\ fst t <> MConst /\ forallb (fun p => is_const_scalar (snd p)) params = false
    /\ exec GG n ((f, BFun {| fn_id := fid; fn_ret := rt; fn_params := map fst params |}) :: ρ) rest
            (after_put s2 fid (TyName (mir_name t)) (AFunction f (map fst args) cid)) = Ok (ρ', s').
Proof.
  intros H fid. cbn [exec] in H. unfold mbind at 1 in H. unfold alloc at 1 in H.
  fold (after_alloc s) in H. fold fid in H.
  unfold mbind at 1 in H. destruct (make_args fid params (after_alloc s)) as [[args s1]| |] eqn:Ea; try discriminate.
  unfold mbind at 1 in H. fold (body_env args ρ) in H.
  destruct (exec GG n (body_env args ρ) body s1) as [[ρb s2]| |] eqn:Eb; try discriminate.
  unfold mbind at 1 in H. unfold get_wrap at 1 in H.
  destruct (assoc res ρb) as [[child|fr]|] eqn:Er; try discriminate. unfold ret at 1 in H.
  destruct rt as [t|]; [|discriminate].
  destruct (mode_eqb (fst t) MConst) eqn:Em; [discriminate|].
  destruct (forallb (fun p => is_const_scalar (snd p)) params) eqn:Ef; [discriminate|].
  unfold mbind at 1 in H. unfold need_id at 1 in H.
  destruct (wid child) as [cid|] eqn:Ew; [|discriminate]. unfold ret at 1 in H.
  unfold mbind at 1 in H. unfold put at 1 in H.
  exists args, s1, ρb, s2, child, t, cid. repeat split; auto.
  destruct t as [m b]. simpl in *. destruct m; simpl in Em; congruence.
Qed.

(* definitions whose return type is a literal type, or whose parameters are all literal types, never succeed *)
Theorem literal_return_rejected n ρ f params b body res rest s :
  forall ρ' s', exec GG n ρ (SDef f params (IScalar (MConst, b)) body res :: rest) s <> Ok (ρ', s').
Proof.
  intros ρ' s' H. destruct n as [|n]; [discriminate H|].
  destruct (sdef_inversion _ _ _ _ _ _ _ _ _ _ _ H) as (args & s1 & ρb & s2 & child & t & cid & _ & _ & _ & _ & Ht & Hm & _).
  inversion Ht; subst. apply Hm. reflexivity.
Qed.

Theorem array_return_rejected n ρ f params e sz body res rest s :
  forall ρ' s', exec GG n ρ (SDef f params (IArray e sz) body res :: rest) s <> Ok (ρ', s').
Proof.
  intros ρ' s' H. destruct n as [|n]; [discriminate H|].
  destruct (sdef_inversion _ _ _ _ _ _ _ _ _ _ _ H) as (args & s1 & ρb & s2 & child & t & cid & _ & _ & _ & _ & Ht & _).
  discriminate Ht.
Qed.

Theorem literal_parameters_rejected n ρ f params rt body res rest s :
  forallb (fun p => is_const_scalar (snd p)) params = true ->
  forall ρ' s', exec GG n ρ (SDef f params rt body res :: rest) s <> Ok (ρ', s').
Proof.
  intros Hp ρ' s' H. destruct n as [|n]; [discriminate H|].
  destruct (sdef_inversion _ _ _ _ _ _ _ _ _ _ _ H) as (args & s1 & ρb & s2 & child & t & cid & _ & _ & _ & _ & _ & _ & Hf & _).
  congruence.
Qed.

Lemma Forall2_ex_l {A B} (P : A -> B -> Prop) l1 l2 :
  Forall2 P l1 l2 -> Forall (fun a => exists b, P a b) l1.
Proof. intros F. induction F as [|a b l1 l2 H _ IH]; constructor; eauto. Qed.

Lemma assoc_body_env args ρ x fr : assoc x (body_env args ρ) = Some (BFun fr) -> assoc x ρ = Some (BFun fr).
Proof.
  unfold body_env. induction (rev args) as [|a l IH]; simpl; [auto|].
  destruct (String.eqb x (fst (snd a))); [discriminate | exact IH].
Qed.

Lemma args_recorded s1 s3 c0 fid args params :
  Forall2 (arg_made s1 c0 fid) args params -> sub s1 s3 ->
  Forall2 (is_arg s3 fid) (map fst args) (map fst params).
Proof.
  intros F Hs. induction F as [|a p args params (A1 & A2 & A3 & ty & A4 & A5) F IH]; simpl; constructor; auto.
  exists ty. apply Hs. exact A5.
Qed.

Lemma sub_put s id ty n : lookup id (store s) = None -> sub s (after_put s id ty n).
Proof.
  intros Hn k r H. unfold after_put. simpl. destruct (Z.eqb_spec k id) as [->|]; [congruence | exact H].
Qed.

Definition top : ast -> Prop := fun _ => True.
Definition exec_ok (n : nat) : Prop :=
  forall ρ ss s ρ' s', Inv ρ s -> exec GG n ρ ss s = Ok (ρ', s') -> Inv ρ' s' /\ G top (counter s) s s'.

Lemma sdef_facts n ρ f params rt body s args s1 ρb s2 t cid :
  exec_ok n -> Inv ρ s ->
  let fid := counter s + 1 in
  make_args fid params (after_alloc s) = Ok (args, s1) ->
  exec GG n (body_env args ρ) body s1 = Ok (ρb, s2) ->
  rt = IScalar t -> fst t <> MConst ->
  let s3 := after_put s2 fid (TyName (mir_name t)) (AFunction f (map fst args) cid) in
  Inv ((f, BFun {| fn_id := fid; fn_ret := rt; fn_params := map fst params |}) :: ρ) s3
  /\ G top (counter s) s s3 /\ Forall2 (arg_made s1 fid fid) args params /\ sub s1 s3.
Proof.
  intros IH HI fid Ea Eb Ert Hm s3.
  destruct HI as (Hf & Hw & HF).
  assert (Hf0 : fresh_store (after_alloc s)) by (intros k r0 H0; simpl in *; apply Hf in H0; lia).
  assert (Hw0 : WF (after_alloc s)) by exact Hw.
  destruct (make_args_spec fid params fid (after_alloc s) args s1 (Z.le_refl _) Ea) as [Ga Hargs].
  assert (Ga' : G arg_node (counter (after_alloc s)) (after_alloc s) s1) by exact Ga.
  assert (Hs01 : sub s s1) by (eapply (G_sub _ (after_alloc s)); eauto).
  assert (HI1 : Inv (body_env args ρ) s1).
  { split; [eapply fresh_G; eauto|]. split.
    - eapply WF_grow; eauto. intros n0 k Hn. destruct n0; simpl in *; auto; contradiction.
    - intros y fr Hy. apply assoc_body_env in Hy. eapply fun_rec_sub; eauto. }
  destruct (IH _ _ _ _ _ HI1 Eb) as [(Hf2 & Hw2 & HF2) G2].
  assert (Hs12 : sub s1 s2) by (eapply G_sub; [destruct HI1; assumption | exact G2]).
  assert (Hc1 : fid <= counter s1) by (destruct Ga as [Ga _]; simpl in Ga; exact Ga).
  assert (Hc2 : counter s1 <= counter s2) by (destruct G2; assumption).
  assert (Hnone : lookup fid (store s2) = None).
  { rewrite (lookup_G _ _ _ _ fid G2 Hc1). rewrite (lookup_G _ _ _ _ fid Ga (Z.le_refl _)).
    simpl. apply fresh_none; [exact Hf | unfold fid; lia]. }
  assert (Hs23 : sub s2 s3) by (apply sub_put; exact Hnone).
  assert (Hs03 : sub s s3) by (eapply sub_trans; [exact Hs01|]; eapply sub_trans; eauto).
  assert (Hs13 : sub s1 s3) by (eapply sub_trans; eauto).
  assert (Hargs3 : Forall2 (is_arg s3 fid) (map fst args) (map fst params)).
  { eapply args_recorded; [exact Hargs | exact Hs13]. }
  split; [|split; [|split; [exact Hargs | exact Hs13]]].
  - split; [|split].
    + intros k r0 H0. unfold s3, after_put in H0. simpl in H0. simpl.
      destruct (Z.eqb_spec k fid) as [->|]; [lia | apply Hf2 in H0; exact H0].
    + intros k r0 H0. unfold s3, after_put in H0. simpl in H0.
      destruct (Z.eqb_spec k fid) as [->|Hne].
      * inversion H0; subst r0; clear H0. simpl. apply (Forall2_ex_l _ _ _ Hargs3).
      * eapply node_ok_sub; [exact Hs23 | apply Hw2; exact H0].
    + intros y fr Hy. simpl in Hy. destruct (String.eqb_spec y f) as [->|Hne].
      * inversion Hy; subst fr; clear Hy. exists (map fst args), cid, t. simpl.
        repeat split; auto. unfold s3, after_put. simpl. rewrite Z.eqb_refl. reflexivity.
      * eapply fun_rec_sub; [exact Hs03 | apply HF; exact Hy].
  - apply (G_trans _ _ s (after_alloc s)).
    + split; [simpl; lia|]. exists []. split; [reflexivity | constructor].
    + apply (G_trans _ _ _ s1); [eapply G_base; [|eapply G_top; exact Ga]; unfold fid; lia|].
      apply (G_trans _ _ _ s2); [eapply G_base; [|exact G2]; unfold fid in Hc1; simpl in *; lia|].
      split; [simpl; lia|].
      exists [(fid, {| r_id := fid; r_ty := TyName (mir_name t); r_node := AFunction f (map fst args) cid |})].
      split; [reflexivity|]. constructor; [|constructor]. simpl. split; [unfold fid in *; lia | exact I].
Qed.

Theorem exec_inv : forall fuel, exec_ok fuel.
Proof.
  induction fuel as [|n IH]; intros ρ ss s ρ' s' HI H; [discriminate H|].
  destruct ss as [|[x r | f params rt body res] rest].
  - simpl in H. unfold ret in H. inversion H; subst. split; [exact HI | apply G_refl].
  - cbn [exec] in H. unfold mbind at 1 in H.
    destruct (eval_rhs GG ρ r s) as [[w s1]| |] eqn:E; try discriminate.
    destruct (slet_inv _ x _ _ _ _ HI E) as [HI1 G1].
    destruct (IH _ _ _ _ _ HI1 H) as [HI2 G2]. split; [exact HI2|].
    eapply G_trans; [exact G1|]. eapply G_base; [|exact G2]. destruct G1; assumption.
  - destruct (sdef_inversion _ _ _ _ _ _ _ _ _ _ _ H)
      as (args & s1 & ρb & s2 & child & t & cid & Ea & Eb & Er & Ew & Ert & Hm & Hp & Erest).
    destruct (sdef_facts n ρ f params rt body s args s1 ρb s2 t cid IH HI Ea Eb Ert Hm) as (HI3 & G03 & _ & _).
    destruct (IH _ _ _ _ _ HI3 Erest) as [HI4 G4]. split; [exact HI4|].
    eapply G_trans; [exact G03|]. eapply G_base; [|exact G4]. destruct G03; assumption.
Qed.

(* ---- a definition is recorded as written, and stays *)
Definition def_recorded (s : tstate) (fid : Z) (f : string) (params : list (string * ity)) (t : sty) : Prop :=
  exists argids cid,
    lookup fid (store s) = Some {| r_id := fid; r_ty := TyName (mir_name t); r_node := AFunction f argids cid |}
    /\ Forall2 (fun id p => exists ty, param_mir (snd p) = Ok ty /\
                  lookup id (store s) = Some {| r_id := id; r_ty := ty; r_node := AArg (fst p) fid |}) argids params.

Theorem definition_recorded n ρ f params rt body res rest s ρ' s' :
  Inv ρ s -> exec GG (S n) ρ (SDef f params rt body res :: rest) s = Ok (ρ', s') ->
  let fid := counter s + 1 in
  exists t, rt = IScalar t /\ fst t <> MConst
    /\ forallb (fun p => is_const_scalar (snd p)) params = false
    /\ def_recorded s' fid f params t
    (* the body was traced with each parameter name bound to the value whose id is that parameter's record *)
    /\ exists args s1 ρb s2,
         exec GG n (body_env args ρ) body s1 = Ok (ρb, s2)
         /\ Forall2 (fun a p => fst (snd a) = fst p /\ wid (snd (snd a)) = Some (fst a)
                                /\ is_arg s' fid (fst a) (fst p)) args params.
Proof.
  intros HI H fid.
  destruct (sdef_inversion _ _ _ _ _ _ _ _ _ _ _ H)
    as (args & s1 & ρb & s2 & child & t & cid & Ea & Eb & Er & Ew & Ert & Hm & Hp & Erest).
  destruct (sdef_facts n ρ f params rt body s args s1 ρb s2 t cid (exec_inv n) HI Ea Eb Ert Hm)
    as (HI3 & G03 & Hargs & Hs13).
  destruct (exec_inv n _ _ _ _ _ HI3 Erest) as [HI4 G4].
  set (s3 := after_put s2 (counter s + 1) (TyName (mir_name t)) (AFunction f (map fst args) cid)) in *.
  assert (Hs3' : sub s3 s') by (eapply G_sub; [destruct HI3; assumption | exact G4]).
  assert (Hs1' : sub s1 s') by (eapply sub_trans; eauto).
  exists t. repeat split; auto.
  - exists (map fst args), cid. split.
    + apply Hs3'. unfold s3, after_put. simpl. rewrite Z.eqb_refl. reflexivity.
    + clear - Hargs Hs1'. induction Hargs as [|a p l1 l2 (A1 & A2 & A3 & ty & A4 & A5) _ IHa]; simpl; constructor; auto.
      exists ty. split; [exact A4 | apply Hs1'; exact A5].
  - exists args, s1, ρb, s2. split; [exact Eb|].
    eapply Forall2_imp; [|exact Hargs]. intros a p (A1 & A2 & A3 & ty & A4 & A5). repeat split; auto.
    exists ty. apply Hs1'. exact A5.
Qed.

(* ---- whole programs *)
Lemma Inv_init : Inv [] init_state.
Proof. split; [|split]; intros k r H; simpl in H; discriminate. Qed.

Theorem program_functions_consistent : forall fuel ss ρ' s',
  exec GG fuel [] ss init_state = Ok (ρ', s') -> Inv ρ' s'.
Proof. intros fuel ss ρ' s' H. destruct (exec_inv fuel _ _ _ _ _ Inv_init H) as [HI _]. exact HI. Qed.

(* ---- sites *)
Definition recorded (s : tstate) (id : Z) (n : ast) : Prop :=
  exists ty, lookup id (store s) = Some {| r_id := id; r_ty := ty; r_node := n |}.

Lemma fun_rec_after ρ s s1 f fr :
  Inv ρ s -> G (rhs_node (bound_fun ρ)) (counter s) s s1 -> assoc f ρ = Some (BFun fr) -> fun_rec s1 f fr.
Proof. intros (Hf & _ & HF) Hg Hx. eapply fun_rec_sub; [eapply G_sub; eauto | apply HF; exact Hx]. Qed.

Theorem map_site ρ a f s w s1 :
  Inv ρ s -> eval_rhs GG ρ (RMap a f) s = Ok (w, s1) ->
  exists fr x src id,
    assoc f ρ = Some (BFun fr) /\ assoc a ρ = Some (BWrap x) /\ wid x = Some src /\ wid w = Some id
    /\ recorded s1 id (AMap src (fn_id fr)) /\ fun_rec s1 f fr.
Proof.
  intros HI H.
  assert (Hg : G (rhs_node (bound_fun ρ)) (counter s) s s1).
  { eapply (eval_rhs_grows ρ (counter s) (RMap a f)); [|exact H]. split; [lia | constructor]. }
  cbn [eval_rhs] in H. unfold mbind at 1 in H. unfold get_wrap at 1 in H.
  destruct (assoc a ρ) as [[x|?]|] eqn:Ea; try discriminate. unfold ret at 1 in H.
  destruct x as [| e size xid | | |]; try discriminate.
  unfold mbind at 1 in H. unfold get_fun at 1 in H.
  destruct (assoc f ρ) as [[?|fr]|] eqn:Ef; try discriminate. unfold ret at 1 in H.
  unfold mbind at 1 in H. unfold alloc at 1 in H.
  unfold mbind at 1 in H. unfold need_id at 1 in H. simpl wid in H.
  destruct xid as [src|]; try discriminate. unfold ret at 1 in H.
  destruct (fn_ret fr) as [t|]; try discriminate. cbv zeta in H.
  unfold mbind at 1 in H. unfold lift at 1 in H.
  destruct (to_mir (WArray (DCls t) size (Some (counter s + 1)))) as [ty| |]; try discriminate.
  unfold mbind at 1 in H. unfold put at 1 in H. unfold ret in H. inversion H; subst; clear H.
  exists fr, (WArray e size (Some src)), src, (counter s + 1). repeat split; auto.
  - exists ty. simpl. rewrite Z.eqb_refl. reflexivity.
  - eapply fun_rec_after; eauto.
Qed.

Theorem reduce_site ρ a f init s w s1 :
  Inv ρ s -> eval_rhs GG ρ (RReduce a f init) s = Ok (w, s1) ->
  exists fr x src i ini id,
    assoc f ρ = Some (BFun fr) /\ assoc a ρ = Some (BWrap x) /\ wid x = Some src
    /\ assoc init ρ = Some (BWrap i) /\ wid i = Some ini /\ wid w = Some id
    /\ recorded s1 id (AReduce src (fn_id fr) ini) /\ fun_rec s1 f fr.
Proof.
  intros HI H.
  assert (Hg : G (rhs_node (bound_fun ρ)) (counter s) s s1).
  { eapply (eval_rhs_grows ρ (counter s) (RReduce a f init)); [|exact H]. split; [lia | constructor]. }
  cbn [eval_rhs] in H. unfold mbind at 1 in H. unfold get_wrap at 1 in H.
  destruct (assoc a ρ) as [[x|?]|] eqn:Ea; try discriminate. unfold ret at 1 in H.
  destruct x as [| e size xid | | |]; try discriminate.
  unfold mbind at 1 in H. unfold get_fun at 1 in H.
  destruct (assoc f ρ) as [[?|fr]|] eqn:Ef; try discriminate. unfold ret at 1 in H.
  unfold mbind at 1 in H. unfold get_wrap at 1 in H.
  destruct (assoc init ρ) as [[i|?]|] eqn:Ei; try discriminate. unfold ret at 1 in H.
  unfold mbind at 1 in H. unfold alloc at 1 in H.
  unfold mbind at 1 in H. destruct (fn_ret fr) as [t|]; [|discriminate]. unfold ret_scalar, ret at 1 in H.
  unfold mbind at 1 in H. unfold need_id at 1 in H. simpl wid in H.
  destruct xid as [src|]; try discriminate. unfold ret at 1 in H.
  unfold mbind at 1 in H. unfold need_id at 1 in H.
  destruct (wid i) as [ini|] eqn:Ewi; try discriminate. unfold ret at 1 in H.
  unfold emit_scalar in H.
  assert (Hres : wid w = Some (counter s + 1) /\ recorded s1 (counter s + 1) (AReduce src (fn_id fr) ini)).
  { destruct (fst t); try discriminate; unfold mbind, put, ret in H; inversion H; subst; clear H;
      (split; [reflexivity|]); eexists; simpl; rewrite Z.eqb_refl; reflexivity. }
  destruct Hres as [Hw Hr].
  exists fr, (WArray e size (Some src)), src, i, ini, (counter s + 1). repeat split; auto.
  eapply fun_rec_after; eauto.
Qed.

Definition bound_to (ρ : env) (x : string) (w : wrap) : Prop := assoc x ρ = Some (BWrap w).
Definition has_id (w : wrap) (i : Z) : Prop := wid w = Some i.

Lemma get_wraps_spec ρ : forall xs s ws s1,
  get_wraps ρ xs s = Ok (ws, s1) -> s1 = s /\ Forall2 (bound_to ρ) xs ws.
Proof.
  induction xs as [|x xs IH]; intros s ws s1 H; simpl in H.
  - unfold ret in H. inversion H; subst. split; [reflexivity | constructor].
  - unfold mbind at 1 in H. unfold get_wrap at 1 in H.
    destruct (assoc x ρ) as [[w|?]|] eqn:E; try discriminate. unfold ret at 1 in H.
    unfold mbind at 1 in H. destruct (get_wraps ρ xs s) as [[ws' s']| |] eqn:E'; try discriminate.
    unfold ret in H. inversion H; subst. destruct (IH _ _ _ E') as [-> F]. split; [reflexivity|].
    constructor; [exact E | exact F].
Qed.

Lemma need_ids_spec : forall ws s ids s1,
  need_ids ws s = Ok (ids, s1) -> s1 = s /\ Forall2 has_id ws ids.
Proof.
  induction ws as [|w ws IH]; intros s ids s1 H; simpl in H.
  - unfold ret in H. inversion H; subst. split; [reflexivity | constructor].
  - unfold mbind at 1 in H. unfold need_id at 1 in H.
    destruct (wid w) as [i|] eqn:E; try discriminate. unfold ret at 1 in H.
    unfold mbind at 1 in H. destruct (need_ids ws s) as [[is' s']| |] eqn:E'; try discriminate.
    unfold ret in H. inversion H; subst. destruct (IH _ _ _ E') as [-> F]. split; [reflexivity|].
    constructor; [exact E | exact F].
Qed.

(* the arguments of a call, positional first, then each keyword at the position of the parameter it names *)
Definition call_args (fr : fnrec) (ws : list wrap) (kwnames : list string) (ks : list wrap) (all : list wrap) : Prop :=
  match kwnames with
  | [] => all = ws
  | _ => bind_partial (fn_params fr) ws (combine kwnames ks) = Ok all
  end.

Lemma take_bound_spec kw : forall params,
  Forall2 (fun p w => assoc p kw = Some w) (firstn (List.length (take_bound params kw)) params) (take_bound params kw).
Proof.
  induction params as [|p r IH]; simpl; [constructor|].
  destruct (assoc p kw) as [w|] eqn:E; simpl; constructor; auto.
Qed.

Theorem bind_partial_spec params pos kw all :
  bind_partial params pos kw = Ok all ->
  exists tail, all = pos ++ tail
               /\ Forall2 (fun p w => assoc p kw = Some w)
                          (firstn (List.length tail) (skipn (List.length pos) params)) tail.
Proof.
  unfold bind_partial. intros H.
  destruct (Nat.ltb _ _); [discriminate|].
  destruct (existsb _ kw); [discriminate|].
  destruct (existsb _ kw); [discriminate|].
  inversion H; subst. eexists. split; [reflexivity|]. apply take_bound_spec.
Qed.

Theorem call_site ρ f args kwargs s w s1 :
  Inv ρ s -> eval_rhs GG ρ (RCall f args kwargs) s = Ok (w, s1) ->
  exists fr ws ks all ids id,
    assoc f ρ = Some (BFun fr) /\ Forall2 (bound_to ρ) args ws /\ Forall2 (bound_to ρ) (map snd kwargs) ks
    /\ call_args fr ws (map fst kwargs) ks all
    /\ List.length all = List.length (fn_params fr)       (* one argument per parameter *)
    /\ Forall2 has_id all ids /\ wid w = Some id
    /\ recorded s1 id (ACall ids (fn_id fr)) /\ fun_rec s1 f fr.
Proof.
  intros HI H.
  assert (Hg : G (rhs_node (bound_fun ρ)) (counter s) s s1).
  { eapply (eval_rhs_grows ρ (counter s) (RCall f args kwargs)); [|exact H]. split; [lia | constructor]. }
  cbn [eval_rhs] in H. unfold mbind at 1 in H. unfold get_fun at 1 in H.
  destruct (assoc f ρ) as [[?|fr]|] eqn:Ef; try discriminate. unfold ret at 1 in H.
  unfold mbind at 1 in H. destruct (get_wraps ρ args s) as [[ws sa]| |] eqn:Ea; try discriminate.
  destruct (get_wraps_spec _ _ _ _ _ Ea) as [-> Fa].
  unfold mbind at 1 in H. destruct (get_wraps ρ (map snd kwargs) s) as [[ks sb]| |] eqn:Ek; try discriminate.
  destruct (get_wraps_spec _ _ _ _ _ Ek) as [-> Fk].
  unfold mbind at 1 in H.
  destruct (match kwargs with [] => ret ws | _ :: _ => lift (bind_partial (fn_params fr) ws (combine (map fst kwargs) ks)) end s)
    as [[all sc]| |] eqn:Eall; try discriminate.
  assert (Hall : sc = s /\ call_args fr ws (map fst kwargs) ks all).
  { destruct kwargs as [|k0 kr].
    - unfold ret in Eall. inversion Eall; subst. split; reflexivity.
    - unfold lift in Eall. unfold call_args. cbn [map].
      destruct (bind_partial (fn_params fr) ws (combine (map fst (k0 :: kr)) ks)) as [all'| |] eqn:Eb;
        inversion Eall; subst. split; [reflexivity | exact Eb]. }
  destruct Hall as [-> Hall].
  destruct (Nat.eqb (List.length all) (List.length (fn_params fr))) eqn:Har; [|discriminate H].
  change (negb true) with false in H. cbv iota in H. apply Nat.eqb_eq in Har.
  unfold mbind at 1 in H. unfold alloc at 1 in H.
  unfold mbind at 1 in H.
  match type of H with (match need_ids all ?st with _ => _ end) = _ =>
    destruct (need_ids all st) as [[ids sd]| |] eqn:En; try discriminate end.
  destruct (need_ids_spec _ _ _ _ En) as [-> Fn].
  destruct (fn_ret fr) as [t|]; [|discriminate].
  unfold mbind at 1 in H. unfold put at 1 in H. unfold emit_scalar in H.
  assert (Hres : wid w = Some (counter s + 1) /\ recorded s1 (counter s + 1) (ACall ids (fn_id fr))).
  { destruct (fst t); try discriminate; unfold mbind, put, ret in H; inversion H; subst; clear H;
      (split; [reflexivity|]); eexists; simpl; rewrite Z.eqb_refl; reflexivity. }
  destruct Hres as [Hw Hr].
  exists fr, ws, ks, all, ids, (counter s + 1). repeat split; auto.
  eapply fun_rec_after; eauto.
Qed.

End WithRules.

(* ---- down to the MIR: the function emitted under a definition's id has the definition's name and its
   parameters, in the written order, with the types of the annotations *)
From NadaV.Model Require Import Compile.
From NadaV.Proofs Require Import CompileProofs C11Proofs.

Theorem mir_function_is_the_definition s fid f params t fs0 outs m fs' mf :
  def_recorded s fid f params t ->
  compile (store s) fs0 outs = Ok (m, fs') -> In mf (m_functions m) -> f_id mf = fid ->
  f_name mf = f /\ f_ret_ty mf = TyName (mir_name t)
  /\ Forall2 (fun a p => a_name a = fst p /\ param_mir (snd p) = Ok (a_ty a)) (f_args mf) params.
Proof.
  intros (argids & cid & Hl & Hargs) Hc Hin Hid.
  pose proof (compile_functions_from_records _ _ _ _ _ Hc) as F.
  rewrite Forall_forall in F. destruct (F _ Hin) as (args & Hl' & Hargs'). rewrite Hid in Hl'.
  rewrite Hl in Hl'. inversion Hl'; subst; clear Hl'. repeat split; auto.
  clear - Hargs Hargs'. revert params Hargs.
  induction Hargs' as [|id a l1 l2 [fn Ha] _ IH]; intros params Hargs; inversion Hargs; subst; constructor.
  - match goal with Hx : exists ty, _ |- _ => destruct Hx as (ty & Hp & Hl) end.
    rewrite Hl in Ha. inversion Ha; subst. split; [reflexivity | exact Hp].
  - apply IH. assumption.
Qed.
