From Coq Require Import ZArith List String Bool.
From NadaV.PyMini Require Import PyMini.
From NadaV.Gen Require GenAbstract GenAudit.
From NadaV.Model Require Import Rules StaticRules AbsRules.
From NadaV.Proofs Require Import Finite C15Proofs.
Import ListNotations.
Open Scope string_scope.

Definition GS : genv := static_genv GenAbstract.classes GenAudit.static_funs.
Definition GA := GenAbstract.GA.

(* the shape of the soundness check, over ABSTRACT static / dynamic outcomes:
   static type (if not an error)  =  class of the value abstract execution produces *)
Definition agree_sd (s : sres) (a : aoutcome) : bool :=
  match s with
  | SType t => match a with AValue t' _ => sty_eqb t t' | _ => false end
  | SError _ => true
  | SOther _ => false
  end.
Lemma agree_sd_elim s a t : agree_sd s a = true -> s = SType t -> exists v, a = AValue t v.
Proof.
  intros E ->. simpl in E. destruct a as [e | t' v | w | w]; try discriminate E.
  apply sty_eqb_eq in E. subst. eauto.
Qed.

Definition arith_ops := [OAdd; OSub; OMul].
Definition cmp_ops := [OLt; OLe; OGt; OGe; OEq; ONe].

Lemma arith_table :
  forallb (fun o => forall2 (fun l r => negb (in_shared l && in_shared r)
       || agree_sd (static_bin GS "_types_binop_mult_add_sub" l r) (arule2 GA o l r None None))) arith_ops = true.
Proof. vm_compute. reflexivity. Qed.
Lemma cmp_table :
  forallb (fun o => forall2 (fun l r => negb (in_shared l && in_shared r)
       || agree_sd (static_bin GS "_types_compare" l r) (arule2 GA o l r None None))) cmp_ops = true.
Proof. vm_compute. reflexivity. Qed.
Lemma ifelse_table :
  forall3 (fun c a b => negb (in_shared c && in_shared a && in_shared b)
       || agree_sd (static_ifelse GS GenAudit.ifelse_static_exprs c a b) (arule_ifelse GA c a b None None None)) = true.
Proof. vm_compute. reflexivity. Qed.

Lemma guard2 (a b X : bool) : a = true -> b = true -> negb (a && b) || X = true -> X = true.
Proof. intros -> ->. simpl. auto. Qed.
Lemma guard3 (a b c X : bool) : a = true -> b = true -> c = true -> negb (a && b && c) || X = true -> X = true.
Proof. intros -> -> ->. simpl. auto. Qed.

Theorem static_arith_sound : forall o l r t, In o arith_ops -> in_shared l = true -> in_shared r = true ->
  static_bin GS "_types_binop_mult_add_sub" l r = SType t -> exists v, arule2 GA o l r None None = AValue t v.
Proof.
  intros o l r t Ho Hl Hr Hs. pose proof arith_table as H. rewrite forallb_forall in H. specialize (H o Ho).
  pose proof (forall2_spec _ H l r) as E.
  exact (agree_sd_elim _ _ t (guard2 _ _ _ Hl Hr E) Hs).
Qed.

Theorem static_compare_sound : forall o l r t, In o cmp_ops -> in_shared l = true -> in_shared r = true ->
  static_bin GS "_types_compare" l r = SType t -> exists v, arule2 GA o l r None None = AValue t v.
Proof.
  intros o l r t Ho Hl Hr Hs. pose proof cmp_table as H. rewrite forallb_forall in H. specialize (H o Ho).
  pose proof (forall2_spec _ H l r) as E.
  exact (agree_sd_elim _ _ t (guard2 _ _ _ Hl Hr E) Hs).
Qed.

Theorem static_ifelse_sound : forall c a b t, in_shared c = true -> in_shared a = true -> in_shared b = true ->
  static_ifelse GS GenAudit.ifelse_static_exprs c a b = SType t ->
  exists v, arule_ifelse GA c a b None None None = AValue t v.
Proof.
  intros c a b t Hc Ha Hb Hs. pose proof (forall3_spec _ ifelse_table c a b) as E.
  exact (agree_sd_elim _ _ t (guard3 _ _ _ _ Hc Ha Hb E) Hs).
Qed.
