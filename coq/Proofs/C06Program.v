(* C06, program level: for EVERY program of the scalar fragment that the tracer accepts, every value whose
   defining expression is built from literals only (through any number of intermediate variables) is a literal
   of the ruled base type carrying EXACTLY the value the plain-arithmetic specification (Spec/FoldSpec.exact2,
   plus floor division / modulo with a non-zero divisor, boolean negation and k + x) assigns to that expression.
   Induction over the statements; the per-operator facts are the ∀-value lemmas of C06Proofs.v. *)
From Coq Require Import ZArith List String Bool Lia.
From NadaV.PyMini Require Import PyMini.
From NadaV.Gen Require GenScalar.
From NadaV.Model Require Import Rules Corr Mir Surface Trace Compile.
From NadaV.Spec Require Import TypingSpec FoldSpec.
From NadaV.Proofs Require Import Finite C02Proofs C06Proofs CompileProofs ScalarInv C02Rules C02Program.
Import ListNotations.
Open Scope string_scope.
Open Scope Z_scope.
Open Scope list_scope.

(* ---------------------------------------------------------------- rule facts *)
Lemma num_of b : numeric b = true -> num b.
Proof. destruct b; simpl; intros H; try discriminate H; [left | right]; reflexivity. Qed.
Lemma base_eqb_true a b : base_eqb a b = true -> a = b.
Proof. destruct a, b; simpl; congruence. Qed.

Ltac nm := first [left; reflexivity | right; reflexivity].
Ltac with_num L := eexists; split; [apply L; nm | reflexivity].
Ltac with_num_side L := eexists; split; [apply L; [nm | assumption] | reflexivity].
Ltac with_bool L := eexists; split; [apply L | reflexivity].

(* one operator at a time: the lemma applied is the one for that operator (no search) *)
Ltac prep H Ec :=
  cbn [compat] in Ec;
  try (apply base_eqb_true in Ec; subst);
  try (let En := fresh "En" in let Eu := fresh "Eu" in apply andb_prop in Ec; destruct Ec as [En Eu]; apply base_eqb_true in Eu; subst).

Lemma fold_exact_all : forall o ba bb x y rb v,
  exact_bin o ba bb x y = Some (rb, v) ->
  exists val, rule2v G o (L ba) (L bb) x y = Fold (L rb) val /\ z_of_value val = Some v.
Proof.
  intros o ba bb x y rb v H. unfold exact_bin in H.
  destruct (compat o ba bb) eqn:Ec; [|discriminate H].
  destruct o.
  - (* OAdd *) cbn [compat] in Ec; apply base_eqb_true in Ec; subst bb; destruct ba; cbn [exact2 numeric] in H; try discriminate H; inversion H; subst; with_num fold_add.
  - (* OSub *) cbn [compat] in Ec; apply base_eqb_true in Ec; subst bb; destruct ba; cbn [exact2 numeric] in H; try discriminate H; inversion H; subst; with_num fold_sub.
  - (* OMul *) cbn [compat] in Ec; apply base_eqb_true in Ec; subst bb; destruct ba; cbn [exact2 numeric] in H; try discriminate H; inversion H; subst; with_num fold_mul.
  - (* ODiv *) cbn [compat] in Ec; apply base_eqb_true in Ec; subst bb; destruct ba; cbn [exact2 numeric] in H; try discriminate H;
      (destruct (y =? 0) eqn:Ey0; [discriminate H | apply Z.eqb_neq in Ey0]); inversion H; subst; with_num_side fold_div.
  - (* OMod *) cbn [compat] in Ec; apply base_eqb_true in Ec; subst bb; destruct ba; cbn [exact2 numeric] in H; try discriminate H;
      (destruct (y =? 0) eqn:Ey0; [discriminate H | apply Z.eqb_neq in Ey0]); inversion H; subst; with_num_side fold_mod.
  - (* OPow *) cbn [compat] in Ec; apply base_eqb_true in Ec; subst bb; destruct ba; cbn [exact2 numeric] in H; try discriminate H;
      (destruct (0 <=? y) eqn:Ey; [apply Z.leb_le in Ey | discriminate H]); inversion H; subst; with_num_side fold_pow.
  - (* OLShift *) cbn [compat] in Ec; apply andb_prop in Ec; destruct Ec as [En Eu]; apply base_eqb_true in Eu; subst bb; destruct ba; try discriminate En; cbn [exact2 numeric] in H;
      (destruct (0 <=? y) eqn:Ey; [apply Z.leb_le in Ey | discriminate H]); inversion H; subst; with_num_side fold_lshift.
  - (* ORShift *) cbn [compat] in Ec; apply andb_prop in Ec; destruct Ec as [En Eu]; apply base_eqb_true in Eu; subst bb; destruct ba; try discriminate En; cbn [exact2 numeric] in H;
      (destruct (0 <=? y) eqn:Ey; [apply Z.leb_le in Ey | discriminate H]); inversion H; subst; with_num_side fold_rshift.
  - (* OLt *) cbn [compat] in Ec; apply base_eqb_true in Ec; subst bb; destruct ba; cbn [exact2 numeric] in H; try discriminate H; inversion H; subst; with_num fold_lt.
  - (* OGt *) cbn [compat] in Ec; apply base_eqb_true in Ec; subst bb; destruct ba; cbn [exact2 numeric] in H; try discriminate H; inversion H; subst; with_num fold_gt.
  - (* OLe *) cbn [compat] in Ec; apply base_eqb_true in Ec; subst bb; destruct ba; cbn [exact2 numeric] in H; try discriminate H; inversion H; subst; with_num fold_le.
  - (* OGe *) cbn [compat] in Ec; apply base_eqb_true in Ec; subst bb; destruct ba; cbn [exact2 numeric] in H; try discriminate H; inversion H; subst; with_num fold_ge.
  - (* OEq *) cbn [compat] in Ec; apply base_eqb_true in Ec; subst bb; destruct ba; cbn [exact2 numeric] in H; inversion H; subst; [with_bool fold_beq | with_num fold_eq | with_num fold_eq].
  - (* ONe *) cbn [compat] in Ec; apply base_eqb_true in Ec; subst bb; destruct ba; cbn [exact2 numeric] in H; inversion H; subst; [with_bool fold_bne | with_num fold_ne | with_num fold_ne].
  - (* OAnd *) cbn [compat] in Ec; apply base_eqb_true in Ec; subst bb; destruct ba; cbn [exact2 numeric] in H; try discriminate H; inversion H; subst; with_bool fold_and.
  - (* OOr *) cbn [compat] in Ec; apply base_eqb_true in Ec; subst bb; destruct ba; cbn [exact2 numeric] in H; try discriminate H; inversion H; subst; with_bool fold_or.
  - (* OXor *) cbn [compat] in Ec; apply base_eqb_true in Ec; subst bb; destruct ba; cbn [exact2 numeric] in H; try discriminate H; inversion H; subst; with_bool fold_xor.
  - (* OPublicEquals *) cbn [compat] in Ec; apply base_eqb_true in Ec; subst bb; destruct ba; cbn [exact2 numeric] in H; discriminate H.
  - (* OTruncPr *) cbn [compat] in Ec; apply base_eqb_true in Ec; subst bb; destruct ba; cbn [exact2 numeric] in H; discriminate H.
Qed.

Lemma exact_bin_norm o ba bb x y rb v : exact_bin o ba bb x y = Some (rb, v) -> lit_norm rb v = v.
Proof.
  intros H. destruct rb; try reflexivity.
  (* a boolean result is 0 or 1 *)
  unfold exact_bin in H. destruct (compat o ba bb); [|discriminate H].
  assert (Hb : forall c : bool, lit_norm BBool (b2z c) = b2z c) by (intros []; reflexivity).
  destruct o, ba; cbn [exact2 numeric] in H; try discriminate H;
    try (destruct (0 <=? y); try discriminate H); try (destruct (y =? 0); try discriminate H);
    inversion H; subst; apply Hb.
Qed.

(* ---------------------------------------------------------------- the invariant *)
Definition PL (a : lval) (t : sty) (v : option Z) : Prop :=
  match a with Some (b, z) => t = (MConst, b) /\ v = Some z | None => True end.

Notation val_okL := (ScalarInv.val_ok lval PL).
Notation env_okL := (ScalarInv.env_ok lval PL).
Notation step_okL := (ScalarInv.step_ok lval PL).
Notation env_okE := (ScalarInv.env_ok sty PE).
Notation step_okE := (ScalarInv.step_ok sty PE).

Lemma step_weaken s s1 w t : step_okE s s1 w t -> step_okL s s1 w None.
Proof.
  intros (E & F & (t' & id & v & -> & _ & Hl)). split; [exact E|]. split; [exact F|].
  exists t', id, v. split; [reflexivity|]. split; [exact I | exact Hl].
Qed.

Lemma binop_lit o ba ida x bb idb y rb v s w s1 :
  do_binop G o (WScalar (MConst, ba) ida (Some x)) (WScalar (MConst, bb) idb (Some y)) s = Ok (w, s1) ->
  exact_bin o ba bb x y = Some (rb, v) -> fresh_store s -> step_okL s s1 w (Some (rb, v)).
Proof.
  intros H He Hf. destruct (fold_exact_all _ _ _ _ _ _ _ He) as (val & Hr & Hz).
  unfold do_binop in H. cbn [value_of] in H. unfold L in Hr. rewrite Hr in H. rewrite Hz in H. cbn [snd] in H.
  eapply (ScalarInv.new_literal_ok lval PL); [exact H | | exact Hf].
  simpl. rewrite (exact_bin_norm _ _ _ _ _ _ _ He). auto.
Qed.

(* one statement: both invariants at once (the typing one supplies the wrappers of non-literal operands) *)
Lemma rhs_ok ρ Γ σ r s w s1 :
  eval_rhs G ρ r s = Ok (w, s1) -> in_fragment r = true -> env_okE s ρ Γ -> env_okL s ρ σ -> fresh_store s ->
  step_okL s s1 w (lit_rhs σ r).
Proof.
  intros H Hfr HeE HeL Hf.
  destruct (lit_rhs σ r) as [[rb v]|] eqn:El.
  2: { destruct (C02Program.rhs_ok _ _ _ _ _ _ H Hfr HeE Hf) as (t & _ & Hs). eapply step_weaken; eauto. }
  destruct r; try discriminate El.
  - (* RLit *) cbn [lit_rhs] in El. inversion El; subst. cbn [eval_rhs] in H.
    eapply (ScalarInv.new_literal_ok lval PL); [exact H | simpl; auto | exact Hf].
  - (* RBin *)
    cbn [lit_rhs] in El.
    destruct (assoc a σ) as [[[ba x]|]|] eqn:Ea; try discriminate El.
    destruct (assoc b σ) as [[[bb y]|]|] eqn:Eb; try discriminate El.
    destruct (ScalarInv.get_wrap_ok lval PL _ _ _ _ _ HeL Ea) as (wa & Hga & (ta & ida & va & -> & [-> ->] & _)).
    destruct (ScalarInv.get_wrap_ok lval PL _ _ _ _ _ HeL Eb) as (wb & Hgb & (tb & idb & vb & -> & [-> ->] & _)).
    cbn [eval_rhs] in H. unfold mbind in H. rewrite Hga, Hgb in H.
    eapply binop_lit; eauto.
  - (* RNot *)
    cbn [lit_rhs] in El. destruct (assoc a σ) as [[[ba x]|]|] eqn:Ea; try discriminate El.
    destruct ba; try discriminate El. inversion El; subst.
    destruct (ScalarInv.get_wrap_ok lval PL _ _ _ _ _ HeL Ea) as (wa & Hga & (ta & ida & va & -> & [-> ->] & _)).
    cbn [eval_rhs] in H. unfold mbind in H. rewrite Hga in H.
    unfold do_unop in H. cbn [value_of] in H.
    pose proof (fold_not x) as Hn. unfold L in Hn. unfold G in H.
    change (match UInvert with UInvert => "__invert__" | UToPublic => "to_public" end) with "__invert__" in H.
    rewrite Hn in H. cbn [z_of_value snd] in H.
    eapply (ScalarInv.new_literal_ok lval PL); [exact H | | exact Hf].
    unfold tb. simpl. destruct (x =? 0); simpl; auto.
  - (* RRAdd *)
    cbn [lit_rhs] in El. destruct (assoc a σ) as [[[ba x]|]|] eqn:Ea; try discriminate El.
    destruct (numeric ba) eqn:En; [|discriminate El]. inversion El; subst.
    destruct (ScalarInv.get_wrap_ok lval PL _ _ _ _ _ HeL Ea) as (wa & Hga & (ta & ida & va & -> & [-> ->] & _)).
    cbn [eval_rhs] in H. unfold mbind at 1 in H. rewrite Hga in H.
    assert (En' : numeric_base rb = true) by (destruct rb; simpl in *; congruence). rewrite En' in H.
    unfold mbind in H. destruct (new_literal rb k s) as [[l s2]| |] eqn:Elit; try discriminate H.
    destruct (ScalarInv.new_literal_ok lval PL _ _ _ _ _ (Some (rb, k)) Elit) as (Hext & Hf2 & (tl & idl & vl & -> & [-> ->] & _)).
    { simpl. destruct rb; simpl in *; try discriminate En; auto. }
    { exact Hf. }
    assert (Hb : step_okL s2 s1 w (Some (rb, x + k))).
    { eapply binop_lit; [exact H | | exact Hf2]. unfold exact_bin. cbn [compat]. destruct rb; simpl in *; try discriminate En; reflexivity. }
    destruct Hb as (E2 & F2 & V2). split; [eapply ext_trans; eauto|]. split; assumption.
Qed.

Lemma exec_ok : forall ss fuel ρ Γ σ s ρ' s',
  exec G fuel ρ ss s = Ok (ρ', s') -> scalar_fragment ss = true ->
  env_okE s ρ Γ -> env_okL s ρ σ -> fresh_store s ->
  env_okL s' ρ' (lit_stmts ss σ).
Proof.
  induction ss as [|st ss IH]; intros fuel ρ Γ σ s ρ' s' H Hfr HeE HeL Hf.
  - destruct fuel; [discriminate H|]. simpl in H. unfold ret in H. inversion H; subst. exact HeL.
  - destruct fuel; [discriminate H|]. destruct st as [x r | f ps rt body res]; [|discriminate Hfr].
    cbn [scalar_fragment] in Hfr. apply andb_prop in Hfr. destruct Hfr as [Hr Hrest].
    cbn [exec] in H. unfold mbind in H. destruct (eval_rhs G ρ r s) as [[w s1]| |] eqn:Ev; try discriminate H.
    destruct (C02Program.rhs_ok _ _ _ _ _ _ Ev Hr HeE Hf) as (t & Ht & (HextE & Hf1 & HwE)).
    destruct (rhs_ok _ _ _ _ _ _ _ Ev Hr HeE HeL Hf) as (Hext & _ & HwL).
    cbn [lit_stmts].
    eapply (IH fuel _ ((x, t) :: Γ)); [exact H | exact Hrest | | | exact Hf1].
    + constructor; [|eapply (ScalarInv.env_ok_ext sty PE); eauto]. split; [reflexivity|]. exists w. auto.
    + constructor; [|eapply (ScalarInv.env_ok_ext lval PL); eauto]. split; [reflexivity|]. exists w. auto.
Qed.

(* ---------------------------------------------------------------- the program-level statement *)
Theorem literal_only_values_are_exact : forall ss fuel ρ s,
  exec G fuel [] ss init_state = Ok (ρ, s) -> scalar_fragment ss = true ->
  forall x b z, assoc x (lit_stmts ss []) = Some (Some (b, z)) ->
  exists id, assoc x ρ = Some (BWrap (WScalar (MConst, b) id (Some z)))
             /\ forall i, id = Some i -> exists r, lookup i (store s) = Some r /\ r_ty r = TyName (mir_name (MConst, b)).
Proof.
  intros ss fuel ρ s H Hfr x b z Hx.
  assert (H0 : env_okE init_state [] [] /\ env_okL init_state [] [] /\ fresh_store init_state).
  { split; [constructor|]. split; [constructor|]. intros k r; simpl; intros; discriminate. }
  destruct H0 as (E0 & L0 & F0).
  pose proof (exec_ok _ _ _ _ _ _ _ _ H Hfr E0 L0 F0) as He.
  destruct (ScalarInv.env_ok_assoc lval PL _ _ _ _ _ He Hx) as (w & Hw & (t & id & v & -> & [-> ->] & Hid)).
  exists id. split; [exact Hw|]. intros i Hi. destruct (Hid i Hi) as [_ Hr]. exact Hr.
Qed.
