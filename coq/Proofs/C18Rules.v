(* C18, rule level: for the operators of the common subset, what the real rule (with ANY operand
   values) and the abstract rule give, as needed by the program-level induction. *)
From Coq Require Import ZArith List String Bool Lia.
From NadaV.PyMini Require Import PyMini.
From NadaV.Gen Require GenScalar GenAbstract.
From NadaV.Model Require Import Rules Corr Mir Surface Trace Compile AbsRules SigModel.
From NadaV.Proofs Require Import Finite C06Proofs C15Proofs.
Import ListNotations.
Open Scope string_scope.
Open Scope Z_scope.

Definition G := GenScalar.G.
Definition GA := GenAbstract.GA.

Definition bin_spec (GA : genv) (o : op) (ta tb : sty) (out : outcome) : Prop :=
  match out with
  | Emit name t roles => roles = [("left", 0); ("right", 1)] /\ fst t <> MConst
                         /\ forall t', abs_type (arule2 GA o ta tb None None) = Some t' -> t' = t
  | Fold t v => fst t = MConst /\ (exists z, z_of_value v = Some z)
                /\ forall t', abs_type (arule2 GA o ta tb None None) = Some t' -> t' = t
  | Same _ => False
  | _ => True
  end.

(* every operator of the common subset, every pair of integer classes, ANY operand values *)
Lemma bin_spec_all : forall o ta tb x y,
  common_op o = true -> snd ta = BInt -> snd tb = BInt -> bin_spec GA o ta tb (rule2v G o ta tb x y).
Proof.
  intros o [ma ba] [mb bb] x y Ho Ha Hb; simpl in Ha, Hb; subst.
  destruct o; try discriminate Ho; destruct ma, mb; pm;
    (repeat split; try discriminate; try (eexists; reflexivity); try (intros t' H; inversion H; reflexivity)).
Qed.

(* the abstract operators accept integers only, and answer with one of the six shared classes *)
Definition abs_bin_okb (o : op) (ta tb : sty) : bool :=
  negb (common_op o && in_shared ta && in_shared tb)
  || match abs_type (arule2 GA o ta tb None None) with
     | Some t' => base_eqb (snd ta) BInt && base_eqb (snd tb) BInt && in_shared t'
     | None => true
     end.
Lemma abs_bin_table : forall_op (fun o => forall2 (abs_bin_okb o)) = true.
Proof. vm_compute. reflexivity. Qed.

Lemma base_eqb_eq a b : base_eqb a b = true -> a = b.
Proof. destruct a, b; simpl; congruence. Qed.

Lemma abs_bin_needs_ints : forall o ta tb t',
  common_op o = true -> in_shared ta = true -> in_shared tb = true ->
  abs_type (arule2 GA o ta tb None None) = Some t' ->
  snd ta = BInt /\ snd tb = BInt /\ in_shared t' = true.
Proof.
  intros o ta tb t' Ho Ha Hb H.
  assert (E : abs_bin_okb o ta tb = true).
  { generalize ta tb. apply forall2_spec. generalize o. apply forall_op_spec. exact abs_bin_table. }
  unfold abs_bin_okb in E. rewrite Ho, Ha, Hb, H in E. simpl in E.
  apply andb_prop in E. destruct E as [E E3]. apply andb_prop in E. destruct E as [E1 E2].
  apply base_eqb_eq in E1. apply base_eqb_eq in E2. auto.
Qed.

(* if_else: no operand values are involved *)
Definition roles3 : list (string * Z) := [("this", 0); ("arg_0", 1); ("arg_1", 2)].
Fixpoint roles_eqb (a b : list (string * Z)) : bool :=
  match a, b with
  | [], [] => true
  | (k, i) :: a', (k', i') :: b' => String.eqb k k' && Z.eqb i i' && roles_eqb a' b'
  | _, _ => false
  end.
Lemma roles_eqb_eq a b : roles_eqb a b = true -> a = b.
Proof.
  revert b. induction a as [|[k i] a IH]; destruct b as [|[k' i'] b]; simpl; try discriminate; auto.
  intros H. apply andb_prop in H. destruct H as [H H3]. apply andb_prop in H. destruct H as [H1 H2].
  apply String.eqb_eq in H1. apply Z.eqb_eq in H2. subst. f_equal. auto.
Qed.

Definition ifelse_okb (tc ta tb : sty) : bool :=
  negb (in_shared tc && in_shared ta && in_shared tb)
  || match abs_type (arule_ifelse GA tc ta tb None None None) with
     | None => true
     | Some t' =>
         in_shared t'
         && match rule_ifelse G tc ta tb with
            | Emit name t roles => roles_eqb roles roles3 && negb (mode_eqb (fst t) MConst) && sty_eqb t' t
            | _ => true            (* do_ifelse fails on every other outcome *)
            end
     end.
Lemma ifelse_table : forall3 ifelse_okb = true.
Proof. vm_compute. reflexivity. Qed.

Lemma mode_eqb_false a b : mode_eqb a b = false -> a <> b.
Proof. destruct a, b; simpl; congruence. Qed.

Lemma ifelse_spec : forall tc ta tb t',
  in_shared tc = true -> in_shared ta = true -> in_shared tb = true ->
  abs_type (arule_ifelse GA tc ta tb None None None) = Some t' ->
  in_shared t' = true /\
  forall name t roles, rule_ifelse G tc ta tb = Emit name t roles -> roles = roles3 /\ fst t <> MConst /\ t' = t.
Proof.
  intros tc ta tb t' Hc Ha Hb H.
  pose proof (forall3_spec _ ifelse_table tc ta tb) as E.
  unfold ifelse_okb in E. rewrite Hc, Ha, Hb, H in E. simpl in E.
  apply andb_prop in E. destruct E as [E1 E2]. split; [exact E1|].
  intros name t roles Hr. rewrite Hr in E2.
  apply andb_prop in E2. destruct E2 as [E2 E5]. apply andb_prop in E2. destruct E2 as [E3 E4].
  apply roles_eqb_eq in E3. apply negb_true_iff in E4. apply mode_eqb_false in E4. apply sty_eqb_eq in E5. auto.
Qed.

(* the MIR spells a class: what Spec/SigSpec.mir_spelling says, for the two classes an output / input can have *)
Lemma spelling_public : SigSpec.mir_spelling (class_of (MPublic, BInt)) = mir_name (MPublic, BInt).
Proof. reflexivity. Qed.
Lemma spelling_secret : SigSpec.mir_spelling (class_of (MSecret, BInt)) = mir_name (MSecret, BInt).
Proof. reflexivity. Qed.
