From Coq Require Import ZArith List String Bool.
From NadaV.PyMini Require Import PyMini.
From NadaV.Gen Require Import GenScalar.
From NadaV.Model Require Import Rules.
From NadaV.Spec Require Import TypingSpec.
From NadaV.Proofs Require Import Finite.
Import ListNotations.

Definition ok2 (o : op) (l r : sty) : bool :=
  conforms (spec2 o l r) (literal l && literal r) (rule2 G o l r).
Definition ok3 (c a b : sty) : bool := conforms (spec_ifelse c a b) false (rule_ifelse G c a b).
Definition ok1 (t : sty) : bool :=
  conforms (spec1 UInvert t) (literal t) (rule1 G UInvert t)
  && conforms (spec1 UToPublic t) false (rule1 G UToPublic t)
  && conforms (spec_random t) false (rule_random G t).

Lemma table2_ok : forall_op (fun o => forall2 (ok2 o)) = true.  Proof. vm_compute. reflexivity. Qed.
Lemma table3_ok : forall3 ok3 = true.  Proof. vm_compute. reflexivity. Qed.
Lemma table1_ok : forall1 ok1 = true.  Proof. vm_compute. reflexivity. Qed.

Theorem rules_binary : forall o l r, ok2 o l r = true.
Proof. intros o. apply forall2_spec. revert o. apply forall_op_spec. exact table2_ok. Qed.

Theorem rules_ifelse : forall c a b, ok3 c a b = true.
Proof. apply forall3_spec. exact table3_ok. Qed.

Theorem rules_unary : forall t, ok1 t = true.
Proof. apply forall1_spec. exact table1_ok. Qed.

Lemma rules_unary_split : forall t,
  conforms (spec1 UInvert t) (literal t) (rule1 G UInvert t) = true /\
  conforms (spec1 UToPublic t) false (rule1 G UToPublic t) = true /\
  conforms (spec_random t) false (rule_random G t) = true.
Proof.
  intros t. pose proof (rules_unary t) as H. unfold ok1 in H.
  apply andb_prop in H as [H H3]. apply andb_prop in H as [H1 H2]. auto.
Qed.

(* readable corollaries, each again a sweep of the whole finite domain *)
Definition op_eqb (a b : op) : bool :=
  match a, b with
  | OAdd, OAdd | OSub, OSub | OMul, OMul | ODiv, ODiv | OMod, OMod | OPow, OPow
  | OLShift, OLShift | ORShift, ORShift | OLt, OLt | OGt, OGt | OLe, OLe | OGe, OGe
  | OEq, OEq | ONe, ONe | OAnd, OAnd | OOr, OOr | OXor, OXor
  | OPublicEquals, OPublicEquals | OTruncPr, OTruncPr => true
  | _, _ => false
  end.
Lemma op_eqb_neq a b : a <> b -> op_eqb a b = false.
Proof. destruct a, b; simpl; congruence. Qed.

Definition max_ok (o : op) (l r : sty) : bool :=
  op_eqb o OPublicEquals ||
  match rule2 G o l r with
  | Emit _ t _ => mode_eqb (fst t) (mode_max (fst l) (fst r))
  | _ => true
  end.
Lemma max_table : forall_op (fun o => forall2 (max_ok o)) = true.  Proof. vm_compute. reflexivity. Qed.
Lemma mode_eqb_eq a b : mode_eqb a b = true -> a = b.
Proof. destruct a, b; simpl; congruence. Qed.

Lemma accepted_mode_is_max : forall o l r name t roles,
  o <> OPublicEquals -> rule2 G o l r = Emit name t roles -> fst t = mode_max (fst l) (fst r).
Proof.
  intros o l r name t roles Ho He.
  assert (H : max_ok o l r = true).
  { generalize l r. apply forall2_spec. generalize o. apply forall_op_spec. exact max_table. }
  unfold max_ok in H. rewrite (op_eqb_neq _ _ Ho) in H. simpl in H. rewrite He in H.
  apply mode_eqb_eq. exact H.
Qed.

Definition is_reject (o : outcome) : bool := match o with Reject _ => true | _ => false end.
Lemma is_reject_ex o : is_reject o = true -> exists e, o = Reject e.
Proof. destruct o; simpl; try discriminate. eauto. Qed.

Definition mixed_ok (o : op) (l r : sty) : bool :=
  op_eqb o OLShift || op_eqb o ORShift || op_eqb o OTruncPr || base_eqb (snd l) (snd r)
  || is_reject (rule2 G o l r).
Lemma mixed_table : forall_op (fun o => forall2 (mixed_ok o)) = true.  Proof. vm_compute. reflexivity. Qed.
Lemma base_eqb_neq a b : a <> b -> base_eqb a b = false.
Proof. destruct a, b; simpl; congruence. Qed.

Lemma mixed_bases_rejected : forall o l r,
  o <> OLShift -> o <> ORShift -> o <> OTruncPr -> snd l <> snd r -> exists e, rule2 G o l r = Reject e.
Proof.
  intros o l r H1 H2 H3 Hb.
  assert (H : mixed_ok o l r = true).
  { generalize l r. apply forall2_spec. generalize o. apply forall_op_spec. exact mixed_table. }
  unfold mixed_ok in H.
  rewrite (op_eqb_neq _ _ H1), (op_eqb_neq _ _ H2), (op_eqb_neq _ _ H3), (base_eqb_neq _ _ Hb) in H.
  simpl in H. apply is_reject_ex. exact H.
Qed.

Definition amount_ok (o : op) (l r : sty) : bool :=
  negb (op_eqb o OLShift || op_eqb o ORShift || op_eqb o OTruncPr || op_eqb o OPow)
  || negb (mode_eqb (fst r) MSecret) || is_reject (rule2 G o l r).
Lemma amount_table : forall_op (fun o => forall2 (amount_ok o)) = true.  Proof. vm_compute. reflexivity. Qed.

Lemma secret_amount_rejected : forall o l r,
  (o = OLShift \/ o = ORShift \/ o = OTruncPr \/ o = OPow) -> fst r = MSecret ->
  exists e, rule2 G o l r = Reject e.
Proof.
  intros o l r Ho Hr.
  assert (H : amount_ok o l r = true).
  { generalize l r. apply forall2_spec. generalize o. apply forall_op_spec. exact amount_table. }
  unfold amount_ok in H. rewrite Hr in H.
  destruct Ho as [-> | [-> | [-> | ->]]]; simpl in H; apply is_reject_ex; exact H.
Qed.

Lemma nonvacuous :
  rule2 G OAdd (MSecret, BInt) (MPublic, BInt) = Emit "Addition" (MSecret, BInt) [("left", 0%Z); ("right", 1%Z)]
  /\ rule_ifelse G (MSecret, BBool) (MPublic, BUInt) (MConst, BUInt)
     = Emit "IfElse" (MSecret, BUInt) [("this", 0%Z); ("arg_0", 1%Z); ("arg_1", 2%Z)].
Proof. split; vm_compute; reflexivity. Qed.
