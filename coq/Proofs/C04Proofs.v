From Coq Require Import ZArith List String Bool.
From NadaV.PyMini Require Import PyMini.
From NadaV.Gen Require Import GenScalar.
From NadaV.Model Require Import Rules Corr.
From NadaV.Spec Require Import TypingSpec.
From NadaV.Proofs Require Import Finite.
Import ListNotations.
Open Scope string_scope.

Definition roles2_ok (o : op) (l r : sty) : bool :=
  match rule2 G o l r with
  | Emit name _ roles => String.eqb name (opname o) && roles_eqb roles [("left", 0%Z); ("right", 1%Z)]
  | _ => true
  end.
Lemma roles2_table : forall_op (fun o => forall2 (roles2_ok o)) = true.  Proof. vm_compute. reflexivity. Qed.

Lemma roles_eqb_eq a b : roles_eqb a b = true -> a = b.
Proof.
  revert b. induction a as [|[k i] a IH]; destruct b as [|[k' i'] b]; simpl; try discriminate; auto.
  intros H. apply andb_prop in H. destruct H as [H H3]. apply andb_prop in H. destruct H as [H1 H2].
  apply String.eqb_eq in H1. apply Z.eqb_eq in H2. subst. f_equal. auto.
Qed.

Lemma binary_roles : forall o l r name t roles,
  rule2 G o l r = Emit name t roles -> name = opname o /\ roles = [("left", 0%Z); ("right", 1%Z)].
Proof.
  intros o l r name t roles H.
  assert (E : roles2_ok o l r = true).
  { generalize l r. apply forall2_spec. generalize o. apply forall_op_spec. exact roles2_table. }
  unfold roles2_ok in E. rewrite H in E. apply andb_prop in E. destruct E as [E1 E2].
  split; [apply String.eqb_eq; exact E1 | apply roles_eqb_eq; exact E2].
Qed.

Definition roles3_ok (c a b : sty) : bool :=
  match rule_ifelse G c a b with
  | Emit name _ roles => String.eqb name "IfElse" && roles_eqb roles [("this", 0%Z); ("arg_0", 1%Z); ("arg_1", 2%Z)]
  | _ => true
  end.
Lemma roles3_table : forall3 roles3_ok = true.  Proof. vm_compute. reflexivity. Qed.
Lemma ifelse_roles : forall c a b name t roles,
  rule_ifelse G c a b = Emit name t roles ->
  name = "IfElse" /\ roles = [("this", 0%Z); ("arg_0", 1%Z); ("arg_1", 2%Z)].
Proof.
  intros c a b name t roles H. pose proof (forall3_spec _ roles3_table c a b) as E.
  unfold roles3_ok in E. rewrite H in E. apply andb_prop in E. destruct E as [E1 E2].
  split; [apply String.eqb_eq; exact E1 | apply roles_eqb_eq; exact E2].
Qed.

Definition roles1_ok (t : sty) : bool :=
  (match rule1 G UInvert t with
   | Emit name _ roles => String.eqb name "Not" && roles_eqb roles [("child", 0%Z)] | _ => true end)
  && (match rule1 G UToPublic t with
      | Emit name _ roles => String.eqb name "Reveal" && roles_eqb roles [("child", 0%Z)] | _ => true end).
Lemma roles1_table : forall1 roles1_ok = true.  Proof. vm_compute. reflexivity. Qed.
Lemma unary_roles : forall u t name t' roles,
  rule1 G u t = Emit name t' roles ->
  name = (match u with UInvert => "Not" | UToPublic => "Reveal" end) /\ roles = [("child", 0%Z)].
Proof.
  intros u t name t' roles H. pose proof (forall1_spec _ roles1_table t) as E.
  unfold roles1_ok in E. apply andb_prop in E. destruct E as [Ea Eb].
  destruct u; [rewrite H in Ea; apply andb_prop in Ea; destruct Ea as [E1 E2]
              | rewrite H in Eb; apply andb_prop in Eb; destruct Eb as [E1 E2]];
    (split; [apply String.eqb_eq; exact E1 | apply roles_eqb_eq; exact E2]).
Qed.
