From Coq Require Import ZArith List String Bool.
From NadaV.PyMini Require Import PyMini.
From NadaV.Model Require Import Rules Corr Mir Surface Trace Compile.
Import ListNotations.
Open Scope string_scope.
Open Scope list_scope.

Lemma outputs_in_order : forall outs st fs ops macc c ops' mouts fs' c',
  outputs_loop st fs outs ops macc c = Ok (ops', mouts, fs', c') ->
  map (fun o => (o_name o, o_party o)) mouts
  = map (fun o => (o_name o, o_party o)) macc ++ map (fun o => (co_name o, co_party o)) outs.
Proof.
  induction outs as [|o outs IH]; intros st fs ops macc c ops' mouts fs' c' H; simpl in H.
  - inversion H; subst. simpl. rewrite app_nil_r. reflexivity.
  - destruct (traverse (store_fuel st) st fs [co_id o] ops [] c) as [[[ops1 extra1] c1]| |]; cbn [bind] in H; try discriminate.
    destruct (lookup (co_id o) st) as [rec|]; [|discriminate].
    apply IH in H. rewrite H. rewrite map_app. simpl. rewrite <- app_assoc. reflexivity.
Qed.

(* two different inputs under one name can never both be registered, whoever owns them *)
Lemma sassoc_supdate_same {A} k (v : A) l : sassoc k (supdate k v l) = Some v.
Proof.
  induction l as [|[k' v'] l IH]; simpl.
  - rewrite String.eqb_refl. reflexivity.
  - destruct (String.eqb k k') eqn:E; simpl; [rewrite String.eqb_refl; reflexivity | rewrite E; exact IH].
Qed.

Lemma supdate_in {A} k (v : A) l : In (k, v) (supdate k v l).
Proof.
  induction l as [|[k' v'] l IH]; simpl; [left; reflexivity|].
  destruct (String.eqb k k'); simpl; auto.
Qed.

Lemma duplicate_rejected : forall c id1 id2 ty1 ty2 name p1 p2 d1 d2 c1,
  add_input id1 ty1 name p1 d1 c = Ok c1 -> id1 <> id2 ->
  add_input id2 ty2 name p2 d2 c1 = Err "CompilerException".
Proof.
  intros c id1 id2 ty1 ty2 name p1 p2 d1 d2 c1 H Hne. unfold add_input in H.
  destruct (existsb _ (c_inputs c)); [discriminate|]. inversion H; subst; clear H.
  unfold add_input. cbn [c_inputs].
  match goal with |- (if existsb ?f ?l then _ else _) = _ => assert (E : existsb f l = true) end.
  { apply existsb_exists.
    eexists (p1, _). split; [apply supdate_in|]. cbn [snd].
    rewrite sassoc_supdate_same. apply Bool.negb_true_iff. apply Z.eqb_neq. exact Hne. }
  rewrite E. reflexivity.
Qed.
