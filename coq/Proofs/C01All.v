(* C01 for every program of the WHOLE surface language: every operand reference recorded by the tracer
   points to a strictly smaller key (the operation graph is acyclic), through collections, accessors,
   function bodies and nested definitions.  Built on the growth calculus of TraceMono. *)
From Coq Require Import ZArith List String Bool Lia.
From NadaV.PyMini Require Import PyMini.
From NadaV.Model Require Import Rules Corr Mir Surface Trace Compile.
From NadaV.Proofs Require Import ScalarInv TraceMono C11Program.
Import ListNotations.
Open Scope string_scope.
Open Scope Z_scope.
Open Scope list_scope.

(* every id a wrapper carries — its own and those of the components an accessor can hand out — lies in (lo, c]:
   at most the counter, and above the counter [lo] the trace started from *)
Definition ib (lo c : Z) (i : option Z) : Prop := match i with Some k => lo < k <= c | None => True end.
Fixpoint wb (lo c : Z) (w : wrap) : Prop :=
  match w with
  | WScalar _ i _ | WArray _ _ i | WTuple _ _ i => ib lo c i
  | WNTuple vals i =>
      ib lo c i /\ (fix all (l : list wrap) : Prop := match l with [] => True | v :: r => wb lo c v /\ all r end) vals
  | WObject vals i =>
      ib lo c i /\ (fix all (l : list (string * wrap)) : Prop :=
                   match l with [] => True | kv :: r => wb lo c (snd kv) /\ all r end) vals
  end.

Lemma wb_ntuple lo c vals i : wb lo c (WNTuple vals i) <-> ib lo c i /\ Forall (wb lo c) vals.
Proof.
  simpl. split; intros [H1 H2]; (split; [exact H1|]).
  - induction vals as [|v r IH]; [constructor|]. destruct H2 as [A B]. constructor; auto.
  - induction H2 as [|v r A _ IH]; simpl; auto.
Qed.
Lemma wb_object lo c vals i : wb lo c (WObject vals i) <-> ib lo c i /\ Forall (fun kv => wb lo c (snd kv)) vals.
Proof.
  simpl. split; intros [H1 H2]; (split; [exact H1|]).
  - induction vals as [|v r IH]; [constructor|]. destruct H2 as [A B]. constructor; auto.
  - induction H2 as [|v r A _ IH]; simpl; auto.
Qed.

Lemma ib_mono lo c c' i : c <= c' -> ib lo c i -> ib lo c' i.
Proof. destruct i; simpl; intros; [lia | exact I]. Qed.

Lemma wb_mono lo c c' (Hc : c <= c') : forall w, wb lo c w -> wb lo c' w.
Proof.
  fix IH 1. intros w. destruct w as [t i v | e sz i | l r i | vals i | vals i]; simpl.
  - apply ib_mono; exact Hc.
  - apply ib_mono; exact Hc.
  - apply ib_mono; exact Hc.
  - intros [H1 H2]. split; [eapply ib_mono; eauto|].
    revert H2. induction vals as [|v vals IHv]; simpl; [auto|]. intros [A B]. split; [apply IH; exact A | apply IHv; exact B].
  - intros [H1 H2]. split; [eapply ib_mono; eauto|].
    revert H2. induction vals as [|v vals IHv]; simpl; [auto|]. intros [A B]. split; [apply IH; exact A | apply IHv; exact B].
Qed.

Lemma wb_wid lo c w i : wb lo c w -> wid w = Some i -> lo < i <= c.
Proof. destruct w; simpl; intros H E; subst; simpl in H; try tauto; destruct H; assumption. Qed.

Lemma wb_with_id lo c w i : lo < i <= c -> wb lo c w -> wb lo c (with_id w i).
Proof. destruct w; simpl; intros Hi H; try exact Hi; destruct H as [_ H]; split; auto. Qed.

Section Lower.
Variable lo : Z.        (* the counter the trace started from: every id it creates or uses is above it *)

Definition env_b (ρ : env) (c : Z) : Prop := forall x w, assoc x ρ = Some (BWrap w) -> wb lo c w.
Definition env_f (ρ : env) : Prop := forall x fr, assoc x ρ = Some (BFun fr) -> lo < fn_id fr.

Lemma env_b_mono ρ c c' : c <= c' -> env_b ρ c -> env_b ρ c'.
Proof. intros Hc H x w Hx. eapply wb_mono; [exact Hc | eapply H; eauto]. Qed.

(* ---- growth with acyclic new entries *)
Definition extra_refs (n : ast) : list Z :=
  match n with
  | AMap _ fn | AReduce _ fn _ | ACall _ fn | AArg _ fn => [fn]
  | AFunction _ args c => c :: args
  | _ => []
  end.
(* a new entry refers, as operands, to older entries of this trace only, and to nothing older than the trace *)
Definition acyclic_entry (e : Z * arec) : Prop :=
  Forall (fun c => lo < c < fst e) (child_operations (r_node (snd e)))
  /\ Forall (fun c => lo < c) (extra_refs (r_node (snd e))).
Definition grow_acy (s s1 : tstate) : Prop :=
  counter s <= counter s1 /\
  exists new, store s1 = new ++ store s /\ Forall (fun e => (counter s < fst e <= counter s1) /\ acyclic_entry e) new.

Lemma grow_acy_refl s : grow_acy s s.
Proof. split; [lia|]. exists []. split; [reflexivity | constructor]. Qed.
Lemma grow_acy_trans a b c : grow_acy a b -> grow_acy b c -> grow_acy a c.
Proof.
  intros [A1 (n1 & E1 & F1)] [B1 (n2 & E2 & F2)]. split; [lia|].
  exists (n2 ++ n1). split; [rewrite E2, E1, app_assoc; reflexivity|].
  apply Forall_app. split.
  - eapply Forall_impl; [|exact F2]. intros e [H1 H2]. split; [lia | exact H2].
  - eapply Forall_impl; [|exact F1]. intros e [H1 H2]. split; [lia | exact H2].
Qed.

Definition ordered (s : tstate) : Prop :=
  forall k r, lookup k (store s) = Some r -> forall c, In c (child_operations (r_node r)) -> c < k.

Lemma ordered_grow s s1 : fresh_store s -> ordered s -> grow_acy s s1 -> ordered s1 /\ fresh_store s1.
Proof.
  intros Hf Ho [H1 (new & E & F)]. split.
  - intros k r H c Hc. rewrite E in H.
    destruct (lookup k (store s)) as [r0|] eqn:E0.
    + assert (Hk : k <= counter s) by (eapply Hf; eauto).
      rewrite lookup_app_old in H; [exact (Ho k r H c Hc)|].
      intros e He. rewrite Forall_forall in F. specialize (F e He). lia.
    + destruct (lookup_app_new _ _ _ _ H E0) as (rec & Hin & ->).
      rewrite Forall_forall in F. destruct (F _ Hin) as [_ [Ha _]]. simpl in *.
      rewrite Forall_forall in Ha. apply Ha. exact Hc.
  - intros k r H. rewrite E in H.
    destruct (lookup k (store s)) as [r0|] eqn:E0.
    + apply Hf in E0. lia.
    + destruct (lookup_app_new _ _ _ _ H E0) as (rec & Hin & _).
      rewrite Forall_forall in F. specialize (F _ Hin). simpl in F. lia.
Qed.

Section Calc.
Variable GG : genv.
Variable ρ : env.
Variable b : Z.                       (* every operand taken from the environment carries ids <= b *)
Hypothesis Hρ : env_b ρ b.
Hypothesis Hρf : env_f ρ.
Hypothesis Hlo : lo <= b.
Let Φ : ast -> Prop := fun n => Forall (fun c => lo < c <= b) (child_operations n) /\ Forall (fun c => lo < c) (extra_refs n).

Lemma G_acy s s1 : b <= counter s -> G Φ (counter s) s s1 -> grow_acy s s1.
Proof.
  intros Hb [H1 (new & E & F)]. split; [exact H1|]. exists new. split; [exact E|].
  eapply Forall_impl; [|exact F]. intros e [A [B1 B2]]. split; [exact A|].
  split; [|exact B2]. eapply Forall_impl; [|exact B1]. intros c Hc. simpl in Hc. lia.
Qed.

(* an action returning a wrapper: the store grows by Φ-entries and the wrapper is bounded by the final counter *)
Definition AW (c0 : Z) (ids : list Z) (m : M wrap) : Prop :=
  forall s a s1, ok c0 ids s -> m s = Ok (a, s1) -> G Φ c0 s s1 /\ wb lo (counter s1) a.

Lemma AW_fail c0 ids e : AW c0 ids (fail e).
Proof. intros s a s1 _ H. discriminate H. Qed.

Lemma AW_ret c0 ids w :
  (forall c, c0 <= c -> (forall i, In i ids -> c0 < i <= c) -> wb lo c w) -> AW c0 ids (ret w).
Proof.
  intros Hw s a s1 [H1 H2] H. unfold ret in H. inversion H; subst. split; [apply G_refl|].
  apply Hw; [exact H1|]. intros i Hi. rewrite Forall_forall in H2. specialize (H2 i Hi). lia.
Qed.

Lemma AW_bind_gm {A} c0 ids (m : M A) (k : A -> M wrap) :
  Gm Φ c0 ids m -> (forall a, AW c0 ids (k a)) -> AW c0 ids (mbind m k).
Proof.
  intros Hm Hk s r s1 Hok H. unfold mbind in H. destruct (m s) as [[a s']| |] eqn:E; try discriminate.
  pose proof (Hm _ _ _ Hok E) as G1.
  destruct (Hk a _ _ _ (ok_G _ _ _ _ _ Hok G1) H) as [G2 Hw]. split; [eapply G_trans; eauto | exact Hw].
Qed.

Lemma AW_bind_pure {A} c0 ids (m : M A) (k : A -> M wrap) (Q : A -> Prop) :
  (forall s a s1, m s = Ok (a, s1) -> s1 = s /\ Q a) -> (forall a, Q a -> AW c0 ids (k a)) -> AW c0 ids (mbind m k).
Proof.
  intros Hm Hk s r s1 Hok H. unfold mbind in H. destruct (m s) as [[a s']| |] eqn:E; try discriminate.
  destruct (Hm _ _ _ E) as [-> Hq]. eapply Hk; eauto.
Qed.

Lemma AW_bind_get_wrap c0 ids x (k : wrap -> M wrap) :
  (forall w, wb lo b w -> AW c0 ids (k w)) -> AW c0 ids (mbind (get_wrap ρ x) k).
Proof.
  intros Hk. eapply (AW_bind_pure _ _ _ _ (wb lo b)); [|exact Hk].
  intros s a s1 H. unfold get_wrap in H. destruct (assoc x ρ) as [[w|f]|] eqn:E; try discriminate.
  unfold ret in H. inversion H; subst. split; [reflexivity | eapply Hρ; eauto].
Qed.

Lemma AW_bind_get_wraps c0 ids xs (k : list wrap -> M wrap) :
  (forall ws, Forall (wb lo b) ws -> AW c0 ids (k ws)) -> AW c0 ids (mbind (get_wraps ρ xs) k).
Proof.
  intros Hk. eapply (AW_bind_pure _ _ _ _ (Forall (wb lo b))); [|exact Hk].
  intros s ws s1 H. destruct (get_wraps_spec _ _ _ _ _ H) as [-> F]. split; [reflexivity|].
  clear H. induction F as [|x w xs ws Hx _ IH]; constructor; auto. eapply Hρ; eauto.
Qed.

Lemma AW_bind_need_id c0 ids w (k : Z -> M wrap) :
  (forall i, wid w = Some i -> AW c0 ids (k i)) -> AW c0 ids (mbind (need_id w) k).
Proof.
  intros Hk. eapply (AW_bind_pure _ _ _ _ (fun i => wid w = Some i)); [|exact Hk].
  intros s a s1 H. unfold need_id in H. destruct (wid w); [|discriminate]. unfold ret in H. inversion H; subst. auto.
Qed.

Lemma AW_bind_need_ids c0 ids ws (k : list Z -> M wrap) :
  (forall is_, Forall2 has_id ws is_ -> AW c0 ids (k is_)) -> AW c0 ids (mbind (need_ids ws) k).
Proof.
  intros Hk. eapply (AW_bind_pure _ _ _ _ (Forall2 has_id ws)); [|exact Hk].
  intros s a s1 H. destruct (need_ids_spec _ _ _ _ H) as [-> F]. auto.
Qed.

Lemma AW_bind_pick c0 ids roles f ops (k : Z -> M wrap) :
  (forall i, (exists w, In w ops /\ wid w = Some i) -> AW c0 ids (k i)) -> AW c0 ids (mbind (pick roles f ops) k).
Proof.
  intros Hk. eapply (AW_bind_pure _ _ _ _ (fun i => exists w, In w ops /\ wid w = Some i)); [|exact Hk].
  intros s a s1 H. unfold pick in H. destruct (assoc f roles) as [z|]; [|discriminate].
  destruct (nth_error ops (Z.to_nat z)) as [w|] eqn:En; [|discriminate].
  unfold need_id in H. destruct (wid w) eqn:Ew; [|discriminate]. unfold ret in H. inversion H; subst.
  split; [reflexivity|]. exists w. split; [eapply nth_error_In; eauto | exact Ew].
Qed.

Lemma AW_bind_alloc c0 ids (k : Z -> M wrap) :
  (forall id, AW c0 (id :: ids) (k id)) -> AW c0 ids (mbind alloc k).
Proof.
  intros Hk s r s1 [H1 H2] H. unfold mbind, alloc in H.
  set (s' := {| counter := counter s + 1; store := store s; lits := lits s |}) in *.
  assert (G1 : G Φ c0 s s').
  { split; [simpl; lia|]. exists []. split; [reflexivity | constructor]. }
  destruct (Hk (counter s + 1) s' r s1) as [G2 Hw]; [|exact H|split; [eapply G_trans; eauto | exact Hw]].
  split; [simpl; lia|]. constructor; [simpl; lia|].
  eapply Forall_impl; [|exact H2]. intros i Hi. simpl in *. lia.
Qed.

Lemma AW_emit_scalar c0 ids t id n : lo <= c0 -> In id ids -> Φ n -> AW c0 ids (emit_scalar t id n).
Proof.
  intros Hl Hin Hn. unfold emit_scalar. destruct (fst t); try apply AW_fail;
    (apply AW_bind_gm; [apply Gm_put; assumption|]; intros _; apply AW_ret; intros c Hc Hi; simpl;
     specialize (Hi id Hin); lia).
Qed.

Lemma Φ_literal v i : Φ (ALiteral v i).  Proof. split; constructor. Qed.

Lemma AW_new_literal c0 ids bs v : lo <= c0 -> AW c0 ids (new_literal bs v).
Proof.
  intros Hl. unfold new_literal. cbv zeta. apply AW_bind_alloc. intro id.
  apply AW_bind_gm; [apply Gm_lit_index|]. intro idx.
  apply AW_bind_gm; [apply Gm_put; [left; reflexivity | apply Φ_literal]|]. intros _.
  apply AW_ret. intros c Hc Hi. simpl. specialize (Hi id (or_introl eq_refl)). lia.
Qed.

Lemma AW_bind_get_fun c0 ids f (k : fnrec -> M wrap) :
  (forall fr, lo < fn_id fr -> AW c0 ids (k fr)) -> AW c0 ids (mbind (get_fun ρ f) k).
Proof.
  intros Hk. eapply (AW_bind_pure _ _ _ _ (fun fr => lo < fn_id fr)); [|exact Hk].
  intros s a s1 H. unfold get_fun in H. destruct (assoc f ρ) as [[w|fr]|] eqn:E; try discriminate.
  unfold ret in H. inversion H; subst. split; [reflexivity | eapply Hρf; eauto].
Qed.

Lemma ids_bounded ws ids : Forall (wb lo b) ws -> Forall2 has_id ws ids -> Forall (fun c => lo < c <= b) ids.
Proof.
  intros F H. induction H as [|w i ws ids Hw _ IH]; [constructor|].
  inversion F; subst. constructor; [eapply wb_wid; eauto | apply IH; assumption].
Qed.

Ltac bound :=
  match goal with
  | H : wid ?w = Some ?i, Hw : wb lo b ?w |- lo < ?i <= b => exact (wb_wid _ _ _ _ Hw H)
  | H : exists w, In w _ /\ wid w = Some ?i |- lo < ?i <= b =>
      let w := fresh "w" in let Hin := fresh "Hin" in let Hw := fresh "Hw" in
      destruct H as (w & Hin & Hw); simpl in Hin;
      repeat (destruct Hin as [<- | Hin]; [refine (wb_wid _ _ _ _ _ Hw); assumption|]); contradiction
  end.
Ltac phi :=
  lazymatch goal with
  | |- Φ _ =>
      unfold Φ; simpl child_operations; simpl extra_refs;
      split; [repeat (constructor; [cbv beta; bound|]); try constructor
             | repeat constructor; try assumption ]
  | _ => idtac
  end.

Ltac aw_step :=
  first
    [ apply AW_fail
    | apply AW_bind_get_wrap; intros ? ?
    | apply AW_bind_get_wraps; intros ? ?
    | apply AW_bind_need_id; intros ? ?
    | apply AW_bind_need_ids; intros ? ?
    | apply AW_bind_pick; intros ? ?
    | apply AW_new_literal; lia
    | apply AW_bind_get_fun; intros ? ?
    | apply AW_bind_alloc; intro
    | apply AW_emit_scalar; [lia | simpl; tauto | ]
    | apply AW_bind_gm; [apply Gm_lit_index | intro ]
    | apply AW_bind_gm; [apply Gm_put; [simpl; tauto | ] | intro ]
    | apply AW_bind_gm; [apply Gm_pure; solve [pure_tac] | intro ]
    | match goal with |- AW _ _ (match ?x with _ => _ end) => destruct x end
    | match goal with |- AW _ _ (if ?x then _ else _) => destruct x end ].
Ltac aw := cbv zeta; repeat aw_step.

Lemma AW_do_binop c0 ids o x y : b <= c0 -> wb lo b x -> wb lo b y -> AW c0 ids (do_binop GG o x y).
Proof.
  intros Hbc Hx Hy. unfold do_binop. aw; try phi;
    apply AW_ret; intros c Hc _; (eapply wb_mono; [|eassumption]); lia.
Qed.

Lemma AW_do_unop c0 ids u x : b <= c0 -> wb lo b x -> AW c0 ids (do_unop GG u x).
Proof.
  intros Hbc Hx. unfold do_unop. aw; try phi;
    apply AW_ret; intros c Hc _; (eapply wb_mono; [|eassumption]); lia.
Qed.

Lemma AW_do_ifelse c0 ids x y z : b <= c0 -> wb lo b x -> wb lo b y -> wb lo b z -> AW c0 ids (do_ifelse GG x y z).
Proof. intros Hbc Hx Hy Hz. unfold do_ifelse. aw; try phi. Qed.

Lemma AW_generate_accessor c0 ids v id n :
  b <= c0 -> In id ids -> Φ n -> wb lo b v -> AW c0 ids (generate_accessor v id n).
Proof.
  intros Hbc Hin Hn Hv. unfold generate_accessor. aw; try assumption;
    apply AW_ret; intros c Hc Hi; pose proof (Hi id Hin) as Hid;
    first [ solve [simpl; lia]
          | solve [eapply wb_mono; [|exact Hv]; lia]
          | apply wb_with_id; [lia | eapply wb_mono; [|exact Hv]; lia] ].
Qed.

Lemma mk_input_AW c0 name party doc : lo <= c0 -> forall t s w s1,
  c0 <= counter s -> mk_input name party doc t s = Ok (w, s1) ->
  G Φ c0 s s1 /\ (exists id, wid w = Some id /\ c0 < id <= counter s1) /\ wb lo (counter s1) w.
Proof.
  intros Hl. induction t as [[m bs]|elt IH size]; intros s w s1 Hc H.
  - destruct m; simpl in H; try (unfold mbind, alloc, fail in H; discriminate H);
      unfold mbind, alloc, put, ret in H; cbn [counter store lits] in H; inversion H; subst; clear H;
      (split; [|split; [simpl; eexists; split; [reflexivity | lia] | simpl; lia]]);
      (split; [simpl; lia|]); eexists [_]; (split; [reflexivity|]); (constructor; [|constructor]); simpl;
      (split; [lia | split; constructor]).
  - cbn [mk_input] in H. unfold mbind at 1 in H.
    destruct (mk_input name party doc elt s) as [[inner s']| |] eqn:E; try discriminate.
    destruct (IH _ _ _ Hc E) as (G1 & (id & Hw & Hid) & _).
    unfold mbind at 1 in H. unfold need_id in H. rewrite Hw in H. unfold ret at 1 in H.
    unfold mbind, lift in H. destruct (to_mir (WArray (DInst inner) size (Some id))) as [ty| |]; try discriminate.
    unfold put, ret in H. inversion H; subst; clear H.
    split; [|split; [simpl; exists id; split; [reflexivity | lia] | simpl; lia]].
    eapply G_trans; [exact G1|]. split; [simpl; lia|]. eexists [_]. split; [reflexivity|].
    constructor; [|constructor]. simpl. split; [destruct G1; lia | split; constructor].
Qed.

Lemma nth_wrap_In : forall vals n v, nth_wrap vals n = Some v -> In v vals.
Proof.
  induction vals as [|x vals IH]; intros n v H; destruct n; simpl in H; try discriminate.
  - inversion H; subst. left. reflexivity.
  - right. eapply IH; eauto.
Qed.

Lemma assoc_In {A} k (l : list (string * A)) v : assoc k l = Some v -> In (k, v) l.
Proof.
  induction l as [|[k' v'] l IH]; simpl; [discriminate|].
  destruct (String.eqb_spec k k') as [->|]; intros H; [inversion H; subst; left; reflexivity | right; auto].
Qed.

Lemma Forall_combine_wb c (ks : list string) ws :
  Forall (wb lo c) ws -> Forall (fun kv : string * wrap => wb lo c (snd kv)) (combine ks ws).
Proof.
  intros F. revert ks. induction F as [|w ws Hw _ IH]; intros [|k ks]; simpl; constructor; auto.
Qed.

Lemma Forall_wb_mono c c' ws : c <= c' -> Forall (wb lo c) ws -> Forall (wb lo c') ws.
Proof. intros Hc F. eapply Forall_impl; [|exact F]. intros w. apply wb_mono. exact Hc. Qed.

Lemma bind_partial_wb c params pos names ks all :
  bind_partial params pos (combine names ks) = Ok all -> Forall (wb lo c) pos -> Forall (wb lo c) ks -> Forall (wb lo c) all.
Proof.
  intros H Hp Hk. destruct (bind_partial_spec _ _ _ _ H) as (tail & -> & F).
  apply Forall_app. split; [exact Hp|].
  pose proof (Forall_combine_wb c names ks Hk) as Hkw. rewrite Forall_forall in Hkw.
  clear H. induction F as [|p w l1 l2 Hw _ IH]; constructor; auto.
  apply (Hkw (p, w)). apply assoc_In. exact Hw.
Qed.

(* every right-hand side but k + x (whose literal operand is created on the way) *)
Ltac newid Hi := simpl; match goal with |- lo < ?id <= _ => specialize (Hi id (or_introl eq_refl)); lia end.
Ltac phinew := unfold Φ; simpl child_operations; simpl extra_refs; split; [eapply ids_bounded; eauto | repeat constructor; try assumption].

Lemma eval_rhs_AW c0 r : b <= c0 -> (forall k a, r <> RRAdd k a) -> AW c0 [] (eval_rhs GG ρ r).
Proof.
  intros Hbc Hr. assert (Hl : lo <= c0) by lia. destruct r; cbn [eval_rhs].
  - apply AW_new_literal. exact Hl.
  - intros s w s1 [Hc _] H. destruct (mk_input_AW c0 _ _ _ Hl _ _ _ _ Hc H) as (A & _ & B). auto.
  - aw. split; constructor.
  - aw. apply AW_do_binop; assumption.
  - aw. apply AW_do_unop; assumption.
  - aw. apply AW_do_ifelse; assumption.
  - aw. apply AW_do_unop; assumption.
  - exfalso. eapply Hr. reflexivity.
  - (* ArrayNew *) apply AW_bind_get_wraps. intros ws Hws.
    destruct ws as [|first rest]; [apply AW_fail|].
    apply AW_bind_gm; [apply Gm_pure, (pure_same_go first (first :: rest))|]. intros same.
    destruct same; [|apply AW_fail]. aw.
    + phinew.
    + apply AW_ret. intros c Hc Hi. newid Hi.
  - (* TupleNew *) aw.
    + unfold Φ. simpl child_operations. simpl extra_refs. split; [|constructor].
      eapply ids_bounded; [|eassumption]. repeat constructor; assumption.
    + apply AW_ret. intros c Hc Hi. newid Hi.
  - (* NTupleNew *) aw.
    + phinew.
    + apply AW_ret. intros c Hc Hi. apply wb_ntuple. split; [newid Hi|].
      eapply Forall_wb_mono; [|eassumption]. lia.
  - (* ObjectNew *) aw.
    + phinew.
    + apply AW_ret. intros c Hc Hi. apply wb_object. split; [newid Hi|].
      apply Forall_combine_wb. eapply Forall_wb_mono; [|eassumption]. lia.
  - (* Index *) apply AW_bind_get_wrap. intros x Hx. destruct x as [| | |vals it|]; try apply AW_fail.
    cbv zeta. destruct ((i <? 0) || (Z.of_nat (List.length vals) <=? i)); [apply AW_fail|].
    apply AW_bind_alloc. intro id. destruct (nth_wrap vals (Z.to_nat i)) as [v|] eqn:En; [|apply AW_fail].
    apply AW_bind_need_id. intros src Hsrc.
    apply AW_generate_accessor; [exact Hbc | left; reflexivity | phi |].
    apply wb_ntuple in Hx. destruct Hx as [_ Hx]. rewrite Forall_forall in Hx. apply Hx. eapply nth_wrap_In; eauto.
  - (* Field *) apply AW_bind_get_wrap. intros x Hx. destruct (reserved_attr k); [apply AW_fail|].
    destruct x as [| | | |vals it]; try apply AW_fail.
    destruct (assoc k vals) as [v|] eqn:Ek; [|apply AW_fail].
    apply AW_bind_alloc. intro id. apply AW_bind_need_id. intros src Hsrc.
    apply AW_generate_accessor; [exact Hbc | left; reflexivity | phi |].
    apply wb_object in Hx. destruct Hx as [_ Hx]. rewrite Forall_forall in Hx.
    apply (Hx (k, v)). apply assoc_In. exact Ek.
  - (* Map *) aw; try phi. apply AW_ret. intros c Hc Hi. newid Hi.
  - (* Reduce *) aw; try phi.
  - (* Zip *) aw; try phi. apply AW_ret. intros c Hc Hi. newid Hi.
  - (* Unzip *) aw; try phi. apply AW_ret. intros c Hc Hi. newid Hi.
  - (* Inner *) aw; try phi.
  - (* Call *) apply AW_bind_get_fun. intros fr Hfr.
    apply AW_bind_get_wraps. intros ws Hws. apply AW_bind_get_wraps. intros ks Hks.
    apply (AW_bind_pure _ _ _ _ (Forall (wb lo b))).
    + intros s all s1 H. destruct kwargs as [|k0 kr].
      * unfold ret in H. inversion H; subst. auto.
      * unfold lift in H.
        destruct (bind_partial (fn_params fr) ws (combine (map fst (k0 :: kr)) ks)) as [all'| |] eqn:Eb; inversion H; subst.
        split; [reflexivity|]. eapply bind_partial_wb; eauto.
    + intros all Hall. aw; phinew.
Qed.

End Calc.

(* ---- statements and programs *)
Definition InvA (ρ : env) (s : tstate) : Prop :=
  fresh_store s /\ ordered s /\ env_b ρ (counter s) /\ env_f ρ /\ lo <= counter s.

Section Programs.
Variable GG : genv.

Lemma ok_nil c s : c <= counter s -> ok c [] s.
Proof. intros H. split; [exact H | constructor]. Qed.

Lemma rhs_acy ρ r s w s1 :
  env_b ρ (counter s) -> env_f ρ -> lo <= counter s ->
  eval_rhs GG ρ r s = Ok (w, s1) -> grow_acy s s1 /\ wb lo (counter s1) w.
Proof.
  intros Hρ Hρf Hlo H.
  assert (Hcases : (forall k a, r <> RRAdd k a) \/ exists k a, r = RRAdd k a).
  { destruct r; try (left; intros k0 a0; discriminate). right. eexists. eexists. reflexivity. }
  destruct Hcases as [Hr | (k & a & ->)].
  - destruct (eval_rhs_AW GG ρ (counter s) Hρ Hρf Hlo (counter s) r (Z.le_refl _) Hr s w s1 (ok_nil _ _ (Z.le_refl _)) H) as [Hg Hw].
    split; [eapply G_acy; [|exact Hg]; lia | exact Hw].
  - cbn [eval_rhs] in H. unfold mbind at 1 in H. unfold get_wrap at 1 in H.
    destruct (assoc a ρ) as [[x|?]|] eqn:Ea; try discriminate H. unfold ret at 1 in H.
    assert (Hx : wb lo (counter s) x) by (eapply Hρ; eauto).
    destruct x as [[m bs] xi xv| | | |]; try discriminate H.
    destruct (numeric_base bs); [|discriminate H].
    unfold mbind at 1 in H. destruct (new_literal bs k s) as [[l s']| |] eqn:El; try discriminate H.
    destruct (AW_new_literal (counter s) (counter s) [] bs k Hlo s l s' (ok_nil _ _ (Z.le_refl _)) El) as [G1 Hl].
    assert (Hc : counter s <= counter s') by (destruct G1; assumption).
    assert (Hlo' : lo <= counter s') by lia.
    destruct (AW_do_binop GG (counter s') Hlo' (counter s') [] OAdd _ l (Z.le_refl _)
                (wb_mono _ _ _ Hc _ Hx) Hl s' w s1 (ok_nil _ _ (Z.le_refl _)) H) as [G2 Hw].
    split; [|exact Hw].
    eapply grow_acy_trans; [eapply G_acy; [|exact G1]; lia | eapply G_acy; [|exact G2]; lia].
Qed.

Lemma template_of_wb : forall t s w s1, lo <= counter s -> template_of t s = Ok (w, s1) -> wb lo (counter s1) w.
Proof.
  induction t as [[m bs]|elt IH size]; intros s w s1 Hlo H.
  - destruct m; cbn [template_of] in H.
    + unfold mbind at 1 in H. destruct (new_literal bs 0 s) as [[w0 s0]| |] eqn:E; try discriminate.
      unfold ret in H. inversion H; subst.
      destruct (AW_new_literal (counter s) (counter s) [] bs 0 Hlo s w s1 (ok_nil _ _ (Z.le_refl _)) E) as [_ Hw]. exact Hw.
    + unfold ret in H. inversion H; subst. exact I.
    + unfold ret in H. inversion H; subst. exact I.
  - cbn [template_of] in H. unfold mbind at 1 in H.
    destruct (template_of elt s) as [[e s0]| |]; try discriminate. unfold ret in H. inversion H; subst. exact I.
Qed.

Lemma template_of_counter : forall t s w s1, template_of t s = Ok (w, s1) -> counter s <= counter s1.
Proof.
  intros t s w s1 H. destruct (template_of_spec (counter s) t s w s1 (Z.le_refl _) H) as [[Hc _] _]. exact Hc.
Qed.

(* parameters: argument records have no operands and refer to the function being defined *)
Definition arg_node_of (fid : Z) (n : ast) : Prop :=
  match n with AArg _ f => f = fid | ALiteral _ _ => True | _ => False end.

Lemma Gm_template_of fid c0 ids : forall t, Gm (arg_node_of fid) c0 ids (template_of t).
Proof.
  induction t as [[m bs]|elt IH size]; cbn [template_of].
  - destruct m.
    + apply Gm_bind; [apply Gm_new_literal; intros; exact I | intro; apply Gm_ret].
    + apply Gm_ret.
    + apply Gm_ret.
  - apply Gm_bind; [exact IH | intro; apply Gm_ret].
Qed.

Lemma Gm_make_args fid c0 : forall ps ids, Gm (arg_node_of fid) c0 ids (make_args fid ps).
Proof.
  induction ps as [|[x t] ps IH]; intros ids; cbn [make_args]; [apply Gm_ret|].
  apply Gm_bind; [apply Gm_template_of|]. intro tmpl.
  apply Gm_alloc_bind. intro id.
  apply Gm_bind; [apply Gm_pure, pure_lift|]. intro ty.
  apply Gm_bind; [apply Gm_put; [left; reflexivity | reflexivity]|]. intros _.
  apply Gm_bind; [apply IH|]. intro rest. apply Gm_ret.
Qed.

Lemma arg_node_acy fid s s1 : lo < fid -> G (arg_node_of fid) (counter s) s s1 -> grow_acy s s1.
Proof.
  intros Hfid [H1 (new & E & F)]. split; [exact H1|]. exists new. split; [exact E|].
  eapply Forall_impl; [|exact F]. intros e [A B]. split; [exact A|].
  unfold acyclic_entry. destruct (r_node (snd e)); simpl in B; try contradiction; split; try constructor.
  - subst. exact Hfid.
  - constructor.
Qed.

Lemma make_args_wb fid : forall ps s args s1,
  lo <= counter s -> make_args fid ps s = Ok (args, s1) -> Forall (fun a => wb lo (counter s1) (snd (snd a))) args.
Proof.
  induction ps as [|[x t] ps IH]; intros s args s1 Hlo H.
  - simpl in H. unfold ret in H. inversion H; subst. constructor.
  - cbn [make_args] in H. unfold mbind at 1 in H.
    destruct (template_of t s) as [[tmpl sa]| |] eqn:Et; try discriminate.
    pose proof (template_of_wb _ _ _ _ Hlo Et) as Ht.
    pose proof (template_of_counter _ _ _ _ Et) as Hca.
    unfold mbind at 1 in H. unfold alloc at 1 in H.
    unfold mbind at 1 in H. unfold lift at 1 in H. destruct (to_mir tmpl) as [ty| |]; try discriminate.
    unfold mbind at 1 in H. unfold put at 1 in H. unfold mbind at 1 in H.
    match type of H with (match make_args fid ps ?st with _ => _ end) = _ =>
      destruct (make_args fid ps st) as [[rest sd]| |] eqn:Er; try discriminate end.
    unfold ret in H. inversion H; subst; clear H.
    assert (Hc : counter sa + 1 <= counter s1).
    { match type of Er with make_args _ _ ?st = _ =>
        destruct (make_args_spec fid ps (counter sa + 1) st rest s1 (Z.le_refl (counter sa + 1)) Er) as [[Hc _] _] end.
      exact Hc. }
    constructor; [|eapply IH; [|exact Er]; simpl; lia]. cbn [snd].
    apply wb_with_id; [lia | eapply wb_mono; [|exact Ht]; lia].
Qed.

Lemma env_b_body args ρ c :
  Forall (fun a => wb lo c (snd (snd a))) args -> env_b ρ c -> env_b (body_env args ρ) c.
Proof.
  intros Fa Hρ x w Hx. unfold body_env in Hx.
  assert (Fr : Forall (fun a : Z * (string * wrap) => wb lo c (snd (snd a))) (rev args)).
  { apply Forall_forall. intros a Ha. rewrite Forall_forall in Fa. apply Fa. apply in_rev. exact Ha. }
  induction Fr as [|a l Ha _ IH]; simpl in Hx; [eapply Hρ; eauto|].
  destruct (String.eqb x (fst (snd a))); [inversion Hx; subst; exact Ha | apply IH; exact Hx].
Qed.

Lemma env_f_body args ρ : env_f ρ -> env_f (body_env args ρ).
Proof. intros H x fr Hx. apply assoc_body_env in Hx. eapply H; eauto. Qed.

Theorem exec_acyclic : forall fuel ρ ss s ρ' s',
  InvA ρ s -> exec GG fuel ρ ss s = Ok (ρ', s') -> InvA ρ' s' /\ grow_acy s s'.
Proof.
  induction fuel as [|n IH]; intros ρ ss s ρ' s' HI H; [discriminate H|].
  destruct ss as [|[x r | f params rt body res] rest].
  - simpl in H. unfold ret in H. inversion H; subst. split; [exact HI | apply grow_acy_refl].
  - cbn [exec] in H. unfold mbind at 1 in H.
    destruct (eval_rhs GG ρ r s) as [[w s1]| |] eqn:E; try discriminate.
    destruct HI as (Hf & Ho & Hρ & Hρf & Hlo).
    destruct (rhs_acy _ _ _ _ _ Hρ Hρf Hlo E) as [G1 Hw].
    destruct (ordered_grow _ _ Hf Ho G1) as [Ho1 Hf1].
    assert (Hc1 : counter s <= counter s1) by (destruct G1; assumption).
    assert (HI1 : InvA ((x, BWrap w) :: ρ) s1).
    { split; [exact Hf1|]. split; [exact Ho1|]. split; [|split; [|lia]].
      - intros y wy Hy. simpl in Hy.
        destruct (String.eqb y x); [inversion Hy; subst; exact Hw|].
        eapply wb_mono; [|eapply Hρ; eauto]. exact Hc1.
      - intros y fr Hy. simpl in Hy. destruct (String.eqb y x); [discriminate Hy | eapply Hρf; eauto]. }
    destruct (IH _ _ _ _ _ HI1 H) as [HI2 G2]. split; [exact HI2 | eapply grow_acy_trans; eauto].
  - destruct (sdef_inversion _ _ _ _ _ _ _ _ _ _ _ _ H)
      as (args & s1 & ρb & s2 & child & t & cid & Ea & Eb & Er & Ew & Ert & Hm & Hp & Erest).
    clear H. destruct HI as (Hf & Ho & Hρ & Hρf & Hlo).
    set (fid := counter s + 1) in *.
    assert (Hfid : lo < fid) by (unfold fid; lia).
    (* the id of the function, then the parameters *)
    assert (G0 : grow_acy s (after_alloc s)).
    { split; [simpl; lia|]. exists []. split; [reflexivity | constructor]. }
    assert (Ga : G (arg_node_of fid) fid (after_alloc s) s1).
    { eapply (Gm_make_args fid fid params []); [|exact Ea]. split; [simpl; unfold fid; lia | constructor]. }
    assert (G1 : grow_acy (after_alloc s) s1) by (eapply arg_node_acy; [exact Hfid | exact Ga]).
    assert (G01 : grow_acy s s1) by (eapply grow_acy_trans; eauto).
    destruct (ordered_grow _ _ Hf Ho G01) as [Ho1 Hf1].
    assert (Hc01 : counter s <= counter s1) by (destruct G01; assumption).
    assert (HI1 : InvA (body_env args ρ) s1).
    { split; [exact Hf1|]. split; [exact Ho1|]. split; [|split; [apply env_f_body; exact Hρf | lia]].
      apply env_b_body; [eapply make_args_wb; [|exact Ea]; simpl; lia | eapply env_b_mono; eauto]. }
    destruct (IH _ _ _ _ _ HI1 Eb) as [(Hf2 & Ho2 & Hρ2 & Hρf2 & Hlo2) G2].
    assert (Hc12 : counter s1 <= counter s2) by (destruct G2; assumption).
    assert (Hc1 : fid <= counter s1) by (destruct G1 as [G1 _]; simpl in G1; exact G1).
    (* the function record: no operands; it refers to its return operation and its argument records *)
    set (s3 := after_put s2 fid (TyName (mir_name t)) (AFunction f (map fst args) cid)) in *.
    assert (Ho3 : ordered s3).
    { intros k r0 H0 c Hc. unfold s3, after_put in H0. simpl in H0.
      destruct (Z.eqb_spec k fid) as [->|Hne].
      - inversion H0; subst r0. simpl in Hc. contradiction.
      - eapply Ho2; eauto. }
    assert (Hf3 : fresh_store s3).
    { intros k r0 H0. unfold s3, after_put in H0. simpl in H0. simpl.
      destruct (Z.eqb_spec k fid) as [->|Hne]; [lia | apply Hf2 in H0; exact H0]. }
    assert (HI3 : InvA ((f, BFun {| fn_id := fid; fn_ret := rt; fn_params := map fst params |}) :: ρ) s3).
    { split; [exact Hf3|]. split; [exact Ho3|]. split; [|split; [|simpl; lia]].
      - intros y wy Hy. simpl in Hy.
        destruct (String.eqb y f); [discriminate Hy|]. eapply wb_mono; [|eapply Hρ; eauto]. simpl. lia.
      - intros y fr Hy. simpl in Hy. destruct (String.eqb y f); [inversion Hy; subst; simpl; exact Hfid | eapply Hρf; eauto]. }
    destruct (IH _ _ _ _ _ HI3 Erest) as [HI4 G4]. split; [exact HI4|].
    (* what the function record refers to is new *)
    assert (Hcid : lo < cid).
    { assert (Hb : wb lo (counter s2) child) by (eapply Hρ2; eauto). destruct (wb_wid _ _ _ _ Hb Ew). assumption. }
    assert (Hargids : Forall (fun c => lo < c) (map fst args)).
    { destruct (make_args_spec fid params fid (after_alloc s) args s1 (Z.le_refl _) Ea) as [_ Hargs].
      clear - Hargs Hfid. induction Hargs as [|a p l1 l2 (A1 & A2 & A3 & _) _ IHa]; simpl; constructor; auto. lia. }
    (* growth from s to s3: the entries of the parameters and the body, then the function record *)
    assert (G03 : grow_acy s s3).
    { destruct G01 as [A1 (n1 & E1 & F1)]. destruct G2 as [A2 (n2 & E2 & F2)].
      split; [simpl; lia|].
      exists ((fid, {| r_id := fid; r_ty := TyName (mir_name t); r_node := AFunction f (map fst args) cid |}) :: n2 ++ n1).
      split; [unfold s3, after_put; simpl; rewrite E2, E1, app_assoc; reflexivity|].
      constructor; [simpl; split; [unfold fid; lia | split; [constructor | constructor; assumption]]|].
      apply Forall_app. split.
      - eapply Forall_impl; [|exact F2]. intros e [B1 B2]. split; [simpl; lia | exact B2].
      - eapply Forall_impl; [|exact F1]. intros e [B1 B2]. split; [simpl; lia | exact B2]. }
    eapply grow_acy_trans; eauto.
Qed.

End Programs.
End Lower.

(* ---- down to the MIR *)
From NadaV.Proofs Require Import CompileProofs C01Program.

Definition from_store (st : list (Z * arec)) (ops : list mentry) : Prop :=
  forall e, In e ops -> exists k r, lookup k st = Some r /\ e = entry_of r.

Lemma functions_loop_entries :
  forall fuel st fs stack acc c mfuns fs' c',
    functions_loop fuel st fs stack acc c = Ok (mfuns, fs', c') ->
    Forall (fun f => from_store st (f_ops f)) acc -> Forall (fun f => from_store st (f_ops f)) mfuns.
Proof.
  induction fuel as [|n IH]; intros st fs stack acc c mfuns fs' c' H Hacc; simpl in H; [discriminate|].
  destruct stack as [|f rest]; [inversion H; subst; exact Hacc|].
  destruct (lookup f st) as [[fid rty node]|] eqn:Hl; [|discriminate].
  destruct node; try discriminate.
  destruct (traverse (store_fuel st) st fs [child] [] [] c) as [[[ops1 extra1] c1]| |] eqn:Ht;
    simpl in H; try discriminate.
  destruct (arg_records st args) as [margs| |] eqn:Hm; simpl in H; try discriminate.
  eapply IH; [exact H|].
  apply Forall_app. split; [exact Hacc|]. constructor; [|constructor]. simpl.
  intros e He. destruct (traverse_entries _ _ _ _ _ _ _ _ _ _ Ht e He) as [[] | Hex]. exact Hex.
Qed.

Theorem all_programs_are_acyclic (GG : genv) : forall p m,
  run GG p = Ok m ->
  (forall e, In e (m_ops m) -> forall o, In o (operands (e_op e)) -> o < e_key e)
  /\ (forall f, In f (m_functions m) -> forall e, In e (f_ops f) -> forall o, In o (operands (e_op e)) -> o < e_key e).
Proof.
  intros p m Hr. unfold run, run_from in Hr.
  destruct (exec GG (stmts_size (p_stmts p)) [] (p_stmts p) init_state) as [[ρ s']| |] eqn:Ex; cbn [bind] in Hr; try discriminate Hr.
  destruct (make_outputs ρ (p_outs p)) as [couts| |] eqn:Em; cbn [bind] in Hr; try discriminate Hr.
  destruct (existsb (has_no_id ρ) (p_outs p)) eqn:En; cbn [bind] in Hr; try discriminate Hr.
  destruct (compile (store s') [] couts) as [[m' fs']| |] eqn:Hc; cbn [bind fst snd] in Hr; try discriminate Hr.
  inversion Hr; subst m'; clear Hr.
  assert (H0 : InvA 0 [] init_state).
  { split; [|split; [|split; [|split]]];
      [intros k r; simpl; intros; discriminate | intros k r; simpl; intros; discriminate
       | intros x w Hx; simpl in Hx; discriminate | intros x fr Hx; simpl in Hx; discriminate | simpl; lia]. }
  destruct (exec_acyclic 0 GG _ _ _ _ _ _ H0 Ex) as [(_ & Ho & _) _].
  assert (Hent : forall k r, lookup k (store s') = Some r ->
                   forall o, In o (operands (e_op (entry_of r))) -> o < e_key (entry_of r)).
  { intros k r Hl o Hin. rewrite operands_entry_of in Hin. rewrite key_entry_of.
    pose proof (store_ok_all _ _ _ Hl) as Hid. rewrite Hid. eapply Ho; eauto. }
  unfold compile in Hc.
  destruct (outputs_loop (store s') [] couts [] [] (empty_cstate [])) as [[[[ops mouts] fs1] c1]| |] eqn:Hol;
    cbn [bind] in Hc; try discriminate.
  destruct (functions_loop (S (List.length (store s'))) (store s') fs1 (rev fs1) [] c1) as [[[mfuns fs2] c2]| |] eqn:Hfl;
    cbn [bind] in Hc; try discriminate.
  inversion Hc; subst; clear Hc. simpl. split.
  - intros e He o Hin.
    destruct (outputs_loop_entries _ _ _ _ _ _ _ _ _ _ Hol e He) as [[] | (k & r & Hl & ->)]. eapply Hent; eauto.
  - intros f Hf e He o Hin.
    pose proof (functions_loop_entries _ _ _ _ _ _ _ _ _ Hfl (Forall_nil _)) as F.
    rewrite Forall_forall in F. destruct (F f Hf e He) as (k & r & Hl & ->). eapply Hent; eauto.
Qed.
