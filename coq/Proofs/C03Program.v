(* C03, program level: for EVERY program of the scalar fragment (literals, inputs, random values, all
   twenty binary operators, ~, to_public, if_else, k + x) the tracer types a value secret whenever a
   secret input or a random value flows into it through anything but the two declassifiers, and the
   MIR records that type for it.  Induction over the statements; the rule facts are in C03Rules.v. *)
From Coq Require Import ZArith List String Bool Lia.
From NadaV.PyMini Require Import PyMini.
From NadaV.Gen Require GenScalar.
From NadaV.Model Require Import Rules Corr Mir Surface Trace Compile.
From NadaV.Proofs Require Import Finite C02Proofs C06Proofs CompileProofs C18Proofs C03Rules ScalarInv.
Import ListNotations.
Open Scope string_scope.
Open Scope Z_scope.
Open Scope list_scope.

(* ---------------------------------------------------------------- taint of a surface program *)
Definition tenv := list (string * bool).

Definition taint_rhs (τ : tenv) (r : rhs) : option bool :=
  match r with
  | RLit _ _ => Some false
  | RInput _ _ _ (IScalar (m, _)) => Some (mode_eqb m MSecret)
  | RRandom _ => Some true
  | RBin o a b =>
      match assoc a τ, assoc b τ with
      | Some x, Some y => Some (if op_eqb o OPublicEquals then false else x || y)
      | _, _ => None
      end
  | RNot a => assoc a τ
  | RToPublic a => option_map (fun _ => false) (assoc a τ)          (* declassifier *)
  | RIfElse c a b =>
      match assoc c τ, assoc a τ, assoc b τ with
      | Some x, Some y, Some z => Some (x || y || z)
      | _, _, _ => None
      end
  | RRAdd _ a => assoc a τ
  | _ => None                                                         (* outside the scalar fragment *)
  end.

Fixpoint taint_stmts (ss : list stmt) (τ : tenv) : option tenv :=
  match ss with
  | [] => Some τ
  | SLet x r :: rest => match taint_rhs τ r with Some b => taint_stmts rest ((x, b) :: τ) | None => None end
  | SDef _ _ _ _ _ :: _ => None
  end.

(* ---------------------------------------------------------------- the invariant: a tainted value is typed secret *)
Definition PT (b : bool) (t : sty) (_ : option Z) : Prop := b = true -> fst t = MSecret.
Notation val_ok := (ScalarInv.val_ok bool PT).
Notation env_ok := (ScalarInv.env_ok bool PT).
Notation step_ok := (ScalarInv.step_ok bool PT).
Notation get_wrap_ok := (ScalarInv.get_wrap_ok bool PT).
Notation env_ok_assoc := (ScalarInv.env_ok_assoc bool PT).
Notation env_ok_ext := (ScalarInv.env_ok_ext bool PT).
Notation new_literal_ok := (ScalarInv.new_literal_ok bool PT).
Notation pushed_step := (ScalarInv.pushed_step bool PT).
Notation emit_ok := (ScalarInv.emit_ok bool PT).
Notation emit1_ok := (ScalarInv.emit1_ok bool PT).
Notation emit2_ok := (ScalarInv.emit2_ok bool PT).
Notation emit3_ok := (ScalarInv.emit3_ok bool PT).

Lemma sec_true t : sec t = true -> fst t = MSecret.
Proof. unfold sec. destruct (fst t); simpl; congruence. Qed.
Lemma sec_of_taint (b : bool) t : (b = true -> fst t = MSecret) -> sec t = false -> b = false.
Proof. intros H Hs. destruct b; [|reflexivity]. unfold sec in Hs. rewrite (H eq_refl) in Hs. discriminate. Qed.

(* a binary operator on two scalars *)
Lemma binop_ok o ta ida va tb idb vb (x y : bool) s w s1 :
  do_binop G o (WScalar ta ida va) (WScalar tb idb vb) s = Ok (w, s1) ->
  (x = true -> fst ta = MSecret) -> (y = true -> fst tb = MSecret) -> fresh_store s ->
  step_ok s s1 w (if op_eqb o OPublicEquals then false else x || y).
Proof.
  intros H Hx Hy Hf.
  pose proof (bin_taint_all o ta tb (value_of (WScalar ta ida va)) (value_of (WScalar tb idb vb))) as Hspec.
  unfold do_binop in H.
  destruct (rule2v G o ta tb (value_of (WScalar ta ida va)) (value_of (WScalar tb idb vb))) as [e | t0 v0 | name t0 roles | k | e | e];
    cbn [bin_taint] in Hspec; try discriminate H; try contradiction.
  - destruct Hspec as (Hc & (z & Hz) & Hs). rewrite Hz in H.
    apply orb_false_iff in Hs. destruct Hs as [Hs1 Hs2].
    rewrite (sec_of_taint _ _ Hx Hs1), (sec_of_taint _ _ Hy Hs2). simpl. destruct (op_eqb o OPublicEquals); (eapply new_literal_ok; [exact H | intros E; discriminate E | exact Hf]).
  - destruct Hspec as (Hr & Hc & Ht). subst roles. rewrite pick_left, pick_right in H.
    apply (emit2_ok t0 (fun l r => ABinary name l r) _ _ s w s1 _ H); auto.
    destruct (op_eqb o OPublicEquals) eqn:Eo; [discriminate|]. intros Hb. apply Ht; [reflexivity|].
    apply orb_true_iff in Hb. apply orb_true_iff. destruct Hb as [-> | ->]; [left | right]; unfold sec.
    + rewrite (Hx eq_refl). reflexivity.
    + rewrite (Hy eq_refl). reflexivity.
Qed.

(* a unary method on a scalar: UInvert keeps the taint, UToPublic is a declassifier *)
Lemma unop_ok u ta ida va (x : bool) s w s1 :
  do_unop G u (WScalar ta ida va) s = Ok (w, s1) ->
  (x = true -> fst ta = MSecret) -> idlink s ida ta -> fresh_store s ->
  step_ok s s1 w (match u with UInvert => x | UToPublic => false end).
Proof.
  intros H Hx Hl Hf.
  pose proof (un_taint_all u ta (value_of (WScalar ta ida va))) as Hspec.
  unfold do_unop in H.
  destruct (classify (dispatch_method G (match u with UInvert => "__invert__" | UToPublic => "to_public" end)
                                      (operand ta (value_of (WScalar ta ida va)) 0) [])) as [e | t0 v0 | name t0 roles | k | e | e];
    cbn [un_taint] in Hspec; try discriminate H.
  - destruct Hspec as (Hc & (z & Hz) & Hs). rewrite Hz in H.
    rewrite (sec_of_taint _ _ Hx Hs). destruct u; (eapply new_literal_ok; [exact H | intros E; discriminate E | exact Hf]).
  - destruct Hspec as (Hr & Hc & Ht). subst roles. rewrite pick_child in H.
    apply (emit1_ok t0 (fun c => AUnary name c) _ s w s1 _ H); auto.
    destruct u; [|discriminate]. intros Hb. apply Ht; [reflexivity|]. unfold sec. rewrite (Hx Hb). reflexivity.
  - (* the operand itself is returned *)
    unfold ret in H. inversion H; subst. split; [apply ext_refl|]. split; [exact Hf|].
    exists ta, ida, va. split; [reflexivity|]. split; [|exact Hl]. destruct u; [exact Hx | discriminate].
Qed.

Lemma ifelse_ok tc idc vc ta ida va tb idb vb (x y z : bool) s w s1 :
  do_ifelse G (WScalar tc idc vc) (WScalar ta ida va) (WScalar tb idb vb) s = Ok (w, s1) ->
  (x = true -> fst tc = MSecret) -> (y = true -> fst ta = MSecret) -> (z = true -> fst tb = MSecret) ->
  fresh_store s -> step_ok s s1 w (x || y || z).
Proof.
  intros H Hx Hy Hz Hf. pose proof (if_taint_all tc ta tb) as Hspec. unfold do_ifelse in H.
  destruct (rule_ifelse G tc ta tb) as [e | t0 v0 | name t0 roles | k | e | e]; cbn [if_taint] in Hspec; try discriminate H.
  destruct Hspec as (Hr & Hc & Ht). subst roles. rewrite pick_this, pick_arg0, pick_arg1 in H.
  apply (emit3_ok t0 (fun a b c => AIfElse a b c) _ _ _ s w s1 _ H); auto.
  intros Hb. apply Ht. unfold sec.
  destruct x; [rewrite (Hx eq_refl); reflexivity|]. destruct y; [rewrite (Hy eq_refl); apply orb_true_iff; left; apply orb_true_r|].
  destruct z; [rewrite (Hz eq_refl); apply orb_true_r | discriminate Hb].
Qed.

Lemma val_ok_inv s w b : val_ok s w b ->
  exists t id v, w = WScalar t id v /\ (b = true -> fst t = MSecret) /\ idlink s id t.
Proof. auto. Qed.

Lemma mode_eqb_true m : mode_eqb m MSecret = true -> m = MSecret.
Proof. destruct m; simpl; congruence. Qed.

(* one statement of the scalar fragment *)
Lemma rhs_ok ρ τ r s w s1 b :
  eval_rhs G ρ r s = Ok (w, s1) -> taint_rhs τ r = Some b -> env_ok s ρ τ -> fresh_store s -> step_ok s s1 w b.
Proof.
  intros H Ht He Hf. destruct r; try discriminate Ht.
  - (* RLit *) cbn [taint_rhs] in Ht. inversion Ht; subst. cbn [eval_rhs] in H.
    eapply new_literal_ok; [exact H | intros E; discriminate E | exact Hf].
  - (* RInput *)
    cbn [taint_rhs] in Ht. destruct t as [[m b0]|]; try discriminate Ht. inversion Ht; subst.
    cbn [eval_rhs mk_input] in H. destruct m; unfold mbind, alloc, put, ret, fail in H; cbn [counter store lits] in H;
      try discriminate H; inversion H; subst; (apply pushed_step; [assumption | lia | lia | reflexivity | ]);
      unfold PT; simpl; intros E; try discriminate E; reflexivity.
  - (* RRandom *)
    cbn [taint_rhs] in Ht. inversion Ht; subst. cbn [eval_rhs] in H.
    apply (emit_ok (MSecret, b0) (fun _ => ARandom) s w s1 true H); [intros _; reflexivity | exact Hf].
  - (* RBin *)
    cbn [taint_rhs] in Ht.
    destruct (assoc a τ) as [x|] eqn:Ea; [|discriminate Ht]. destruct (assoc b0 τ) as [y|] eqn:Eb; [|discriminate Ht].
    inversion Ht; subst.
    destruct (get_wrap_ok _ _ _ _ _ He Ea) as (wa & Hga & Hwa). destruct (get_wrap_ok _ _ _ _ _ He Eb) as (wb & Hgb & Hwb).
    cbn [eval_rhs] in H. unfold mbind in H. rewrite Hga, Hgb in H.
    destruct Hwa as (ta & ida & va & -> & Hx & _). destruct Hwb as (tb & idb & vb & -> & Hy & _).
    eapply binop_ok; eauto.
  - (* RNot *)
    cbn [taint_rhs] in Ht. destruct (get_wrap_ok _ _ _ _ _ He Ht) as (wa & Hga & Hwa).
    cbn [eval_rhs] in H. unfold mbind in H. rewrite Hga in H.
    destruct Hwa as (ta & ida & va & -> & Hx & Hl). apply (unop_ok UInvert ta ida va b s w s1 H Hx Hl Hf).
  - (* RIfElse *)
    cbn [taint_rhs] in Ht.
    destruct (assoc c τ) as [x|] eqn:Ec; [|discriminate Ht]. destruct (assoc a τ) as [y|] eqn:Ea; [|discriminate Ht].
    destruct (assoc b0 τ) as [z|] eqn:Eb; [|discriminate Ht]. inversion Ht; subst.
    destruct (get_wrap_ok _ _ _ _ _ He Ec) as (wc & Hgc & Hwc). destruct (get_wrap_ok _ _ _ _ _ He Ea) as (wa & Hga & Hwa).
    destruct (get_wrap_ok _ _ _ _ _ He Eb) as (wb & Hgb & Hwb).
    cbn [eval_rhs] in H. unfold mbind in H. rewrite Hgc, Hga, Hgb in H.
    destruct Hwc as (tc & idc & vc & -> & Hx & _). destruct Hwa as (ta & ida & va & -> & Hy & _).
    destruct Hwb as (tb & idb & vb & -> & Hz & _).
    eapply ifelse_ok; eauto.
  - (* RToPublic *)
    cbn [taint_rhs] in Ht. destruct (assoc a τ) as [x|] eqn:Ea; [|discriminate Ht]. inversion Ht; subst.
    destruct (get_wrap_ok _ _ _ _ _ He Ea) as (wa & Hga & Hwa).
    cbn [eval_rhs] in H. unfold mbind in H. rewrite Hga in H.
    destruct Hwa as (ta & ida & va & -> & Hx & Hl). apply (unop_ok UToPublic ta ida va x s w s1 H Hx Hl Hf).
  - (* RRAdd: k + x *)
    cbn [taint_rhs] in Ht. destruct (get_wrap_ok _ _ _ _ _ He Ht) as (wa & Hga & Hwa).
    cbn [eval_rhs] in H. unfold mbind at 1 in H. rewrite Hga in H.
    destruct Hwa as (ta & ida & va & -> & Hx & Hl). destruct ta as [m b1].
    destruct (numeric_base b1); [|discriminate H].
    unfold mbind in H. destruct (new_literal b1 k s) as [[l s2]| |] eqn:El; try discriminate H.
    destruct (new_literal_ok _ _ _ _ _ false El ltac:(intros E; discriminate E) Hf) as (Hext & Hf2 & (tl & idl & vl & -> & _ & _)).
    assert (Hb : step_ok s2 s1 w (if op_eqb OAdd OPublicEquals then false else b || false)).
    { eapply binop_ok; eauto. discriminate. }
    simpl in Hb. rewrite orb_false_r in Hb. destruct Hb as (E2 & F2 & V2).
    split; [eapply ext_trans; eauto|]. split; assumption.
Qed.

Lemma exec_ok : forall ss fuel ρ τ s ρ' s' τ',
  exec G fuel ρ ss s = Ok (ρ', s') -> taint_stmts ss τ = Some τ' ->
  env_ok s ρ τ -> fresh_store s -> env_ok s' ρ' τ' /\ fresh_store s'.
Proof.
  induction ss as [|st ss IH]; intros fuel ρ τ s ρ' s' τ' H Ht He Hf.
  - destruct fuel; [discriminate H|]. simpl in H. unfold ret in H. inversion H; subst.
    simpl in Ht. inversion Ht; subst. auto.
  - destruct fuel; [discriminate H|]. destruct st as [x r | f ps rt body res]; [|discriminate Ht].
    cbn [exec] in H. cbn [taint_stmts] in Ht.
    destruct (taint_rhs τ r) as [b|] eqn:Er; [|discriminate Ht].
    unfold mbind in H. destruct (eval_rhs G ρ r s) as [[w s1]| |] eqn:Ev; try discriminate H.
    destruct (rhs_ok _ _ _ _ _ _ _ Ev Er He Hf) as (Hext & Hf1 & Hw).
    eapply IH; [exact H | exact Ht | | exact Hf1].
    constructor; [|eapply env_ok_ext; eauto].
    split; [reflexivity|]. exists w. split; [reflexivity | exact Hw].
Qed.

(* ---------------------------------------------------------------- the program-level statement *)
Definition secret_ty (t : mty) : bool :=
  match t with TyName s => existsb (String.eqb s) ["SecretInteger"; "SecretUnsignedInteger"; "SecretBoolean"] | _ => false end.

Lemma secret_mir_name t : fst t = MSecret -> secret_ty (TyName (mir_name t)) = true.
Proof. destruct t as [m b]. simpl. intros ->. destruct b; reflexivity. Qed.

Theorem tainted_outputs_are_secret : forall p m τ,
  run G p = Ok m -> taint_stmts (p_stmts p) [] = Some τ ->
  Forall2 (fun o mo => o_name mo = out_name o /\ o_party mo = out_party o
                       /\ (assoc (out_var o) τ = Some true -> secret_ty (o_ty mo) = true))
          (p_outs p) (m_outputs m).
Proof.
  intros p m τ Hr Ht. unfold run, run_from in Hr.
  destruct (exec G (stmts_size (p_stmts p)) [] (p_stmts p) init_state) as [[ρ s']| |] eqn:Ex; cbn [bind] in Hr; try discriminate Hr.
  destruct (make_outputs ρ (p_outs p)) as [couts| |] eqn:Em; cbn [bind] in Hr; try discriminate Hr.
  destruct (existsb (has_no_id ρ) (p_outs p)) eqn:En; cbn [bind] in Hr; try discriminate Hr.
  destruct (compile (store s') [] couts) as [[m' fs']| |] eqn:Hc; cbn [bind fst snd] in Hr; try discriminate Hr.
  inversion Hr; subst m'; clear Hr.
  assert (H0 : env_ok init_state [] [] /\ fresh_store init_state).
  { split; [constructor|]. intros k r; simpl; intros; discriminate. }
  destruct H0 as (E0 & F0).
  destruct (exec_ok _ _ _ _ _ _ _ _ Ex Ht E0 F0) as (He & Hf).
  pose proof (compile_outputs _ _ _ _ _ Hc) as Hrel.
  clear Hc Ex. revert couts Em En Hrel. generalize (m_outputs m).
  induction (p_outs p) as [|o outs IH]; intros mouts couts Em En Hrel.
  - simpl in Em. inversion Em; subst. inversion Hrel; subst. constructor.
  - cbn [make_outputs] in Em.
    destruct (assoc (out_var o) ρ) as [[w|f]|] eqn:Ea; try discriminate Em.
    destruct (make_outputs ρ outs) as [ct| |] eqn:Em2; cbn [bind] in Em; try discriminate Em.
    inversion Em; subst; clear Em.
    cbn [existsb] in En. apply orb_false_iff in En. destruct En as [En1 En2].
    inversion Hrel as [|co mo cs ms Hr1 Hr2]; subst.
    constructor; [|eapply IH; eauto].
    destruct Hr1 as (N & P & _ & rec & Hl & Hty). cbn [co_name co_party co_id] in N, P, Hl.
    repeat split; auto. intros Hta.
    destruct (env_ok_assoc _ _ _ _ _ He Hta) as (w' & Hw' & (t & id & v & -> & Hs & Hid)).
    rewrite Ea in Hw'. inversion Hw'; subst w.
    unfold has_no_id in En1. rewrite Ea in En1. cbn [wid] in En1, Hl.
    destruct id as [i|]; [|discriminate En1].
    destruct (Hid i eq_refl) as [_ (r & Hl2 & Hr)]. rewrite Hl in Hl2. inversion Hl2; subst r.
    rewrite Hty, Hr. apply secret_mir_name. apply Hs. reflexivity.
Qed.

(* every value the program binds, not only the outputs *)
Theorem tainted_values_are_secret : forall ss fuel ρ s τ,
  exec G fuel [] ss init_state = Ok (ρ, s) -> taint_stmts ss [] = Some τ ->
  forall x, assoc x τ = Some true ->
  exists t id v, assoc x ρ = Some (BWrap (WScalar t id v)) /\ fst t = MSecret
                 /\ forall i, id = Some i -> exists r, lookup i (store s) = Some r /\ secret_ty (r_ty r) = true.
Proof.
  intros ss fuel ρ s τ Hx Ht x Hta.
  assert (H0 : env_ok init_state [] [] /\ fresh_store init_state).
  { split; [constructor|]. intros k r; simpl; intros; discriminate. }
  destruct H0 as (E0 & F0).
  destruct (exec_ok _ _ _ _ _ _ _ _ Hx Ht E0 F0) as (He & Hf).
  destruct (env_ok_assoc _ _ _ _ _ He Hta) as (w & Hw & (t & id & v & -> & Hs & Hid)).
  exists t, id, v. split; [exact Hw|]. split; [apply Hs; reflexivity|].
  intros i Hi. destruct (Hid i Hi) as [_ (r & Hl & Hr)]. exists r. split; [exact Hl|].
  rewrite Hr. apply secret_mir_name. apply Hs. reflexivity.
Qed.
