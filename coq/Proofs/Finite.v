(* Lifting kernel computation over the finite type domains to universally quantified
   statements.  The bound of each sweep is the whole domain. *)
From Coq Require Import List Bool.
From NadaV.Model Require Import Rules.
Import ListNotations.

Lemma in_all_modes m : In m all_modes.  Proof. destruct m; simpl; auto. Qed.
Lemma in_all_bases b : In b all_bases.  Proof. destruct b; simpl; auto. Qed.
Lemma in_all_stys t : In t all_stys.
Proof. destruct t as [m b]. apply in_prod; [apply in_all_modes | apply in_all_bases]. Qed.
Lemma in_all_binops o : In o all_binops.  Proof. destruct o; simpl; tauto. Qed.

Definition forall1 (f : sty -> bool) : bool := forallb f all_stys.
Definition forall2 (f : sty -> sty -> bool) : bool :=
  forallb (fun l => forallb (fun r => f l r) all_stys) all_stys.
Definition forall3 (f : sty -> sty -> sty -> bool) : bool :=
  forallb (fun c => forall2 (f c)) all_stys.
Definition forall_op (f : op -> bool) : bool := forallb f all_binops.

Lemma forall1_spec f : forall1 f = true -> forall t, f t = true.
Proof. unfold forall1. rewrite forallb_forall. intros H t. apply H, in_all_stys. Qed.
Lemma forall2_spec f : forall2 f = true -> forall l r, f l r = true.
Proof.
  unfold forall2. rewrite forallb_forall. intros H l r.
  specialize (H l (in_all_stys l)). rewrite forallb_forall in H. apply H, in_all_stys.
Qed.
Lemma forall3_spec f : forall3 f = true -> forall c a b, f c a b = true.
Proof.
  unfold forall3. rewrite forallb_forall. intros H c a b.
  apply forall2_spec. apply H, in_all_stys.
Qed.
Lemma forall_op_spec f : forall_op f = true -> forall o, f o = true.
Proof. unfold forall_op. rewrite forallb_forall. intros H o. apply H, in_all_binops. Qed.
