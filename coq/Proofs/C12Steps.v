(* C12, step level: what each collection operation of the trace model does for ANY environment, ANY state
   and ANY operand wrappers — every size (unbounded Z, or none), every element type (scalar, tuple, n-tuple,
   object, nested array), every index, every field name.  Rejections are exact error values; acceptances
   say which wrapper comes back and which operation, of which type, is recorded. *)
From Coq Require Import ZArith List String Bool Lia.
From NadaV.PyMini Require Import PyMini.
From NadaV.Model Require Import Rules Corr Mir Surface Trace.
From NadaV.Proofs Require Import ScalarInv TraceMono C11Program.
Import ListNotations.
Open Scope string_scope.
Open Scope Z_scope.
Open Scope list_scope.

Definition recorded_as (s : tstate) (id : Z) (ty : mty) (n : ast) : Prop :=
  lookup id (store s) = Some {| r_id := id; r_ty := ty; r_node := n |}.

Lemma mbind_inv {A B} (m : M A) (k : A -> M B) s r :
  mbind m k s = Ok r -> exists a s', m s = Ok (a, s') /\ k a s' = Ok r.
Proof. unfold mbind. destruct (m s) as [[a s']| |]; try discriminate. intros H. exists a, s'. auto. Qed.

Section Steps.
Variable GG : genv.
Variable ρ : env.

(* ---- zip *)
Theorem zip_size_mismatch a b ex sx ia ey sy ib s :
  bound_to ρ a (WArray ex sx ia) -> bound_to ρ b (WArray ey sy ib) -> size_eqb sx sy = false ->
  eval_rhs GG ρ (RZip a b) s = Err "IncompatibleTypesError".
Proof.
  intros Ha Hb Hs. cbn [eval_rhs]. unfold mbind, get_wrap. rewrite Ha, Hb. unfold ret. rewrite Hs. reflexivity.
Qed.

Theorem zip_accepted a b ex sx ia ey sy ib s w s1 :
  bound_to ρ a (WArray ex sx ia) -> bound_to ρ b (WArray ey sy ib) ->
  eval_rhs GG ρ (RZip a b) s = Ok (w, s1) ->
  size_eqb sx sy = true /\
  exists id l r tx ty,
    ia = Some l /\ ib = Some r
    /\ w = WArray (DInst (WTuple ex ey None)) sx (Some id)
    /\ side_mir ex = Ok tx /\ side_mir ey = Ok ty
    /\ recorded_as s1 id (TyArray (TyTuple tx ty) sx) (ABinary "Zip" l r).
Proof.
  intros Ha Hb H. cbn [eval_rhs] in H. unfold mbind at 1 2 in H. unfold get_wrap in H. rewrite Ha, Hb in H.
  unfold ret at 1 2 in H.
  destruct (size_eqb sx sy) eqn:Hs; [|discriminate H]. split; [reflexivity|]. simpl negb in H. cbv iota in H.
  unfold mbind at 1 in H. unfold alloc at 1 in H.
  unfold mbind at 1 in H. unfold need_id at 1 in H. simpl wid in H. destruct ia as [l|]; [|discriminate H].
  unfold ret at 1 in H. unfold mbind at 1 in H. unfold need_id at 1 in H. simpl wid in H.
  destruct ib as [r|]; [|discriminate H]. unfold ret at 1 in H. cbv zeta in H.
  unfold mbind at 1 in H. unfold lift at 1 in H.
  cbn [to_mir inner_mir] in H.
  destruct (side_mir ex) as [tx| |] eqn:Ex; cbn [bind] in H; try discriminate H.
  destruct (side_mir ey) as [ty| |] eqn:Ey; cbn [bind] in H; try discriminate H.
  unfold mbind, put, ret in H. inversion H; subst; clear H.
  exists (counter s + 1), l, r, tx, ty. repeat split; auto.
  unfold recorded_as. simpl. rewrite Z.eqb_refl. reflexivity.
Qed.

(* ---- unzip: the halves come back in the same order, each with the array's size *)
Theorem unzip_accepted a l r it size ia s w s1 :
  bound_to ρ a (WArray (DInst (WTuple l r it)) size ia) ->
  eval_rhs GG ρ (RUnzip a) s = Ok (w, s1) ->
  exists id src tl tr,
    ia = Some src
    /\ w = WTuple (DArrayType l size) (DArrayType r size) (Some id)
    /\ marker_mir l = Ok tl /\ marker_mir r = Ok tr
    /\ recorded_as s1 id (TyTuple (TyArray tl size) (TyArray tr size)) (AUnary "Unzip" src).
Proof.
  intros Ha H. cbn [eval_rhs] in H. unfold mbind at 1 in H. unfold get_wrap in H. rewrite Ha in H.
  unfold ret at 1 in H. unfold mbind at 1 in H. unfold alloc at 1 in H.
  unfold mbind at 1 in H. unfold need_id at 1 in H. simpl wid in H. destruct ia as [src|]; [|discriminate H].
  unfold ret at 1 in H. cbv zeta in H. unfold mbind at 1 in H. unfold lift at 1 in H.
  cbn [to_mir side_mir] in H.
  destruct (marker_mir l) as [tl| |] eqn:El; cbn [bind] in H; try discriminate H.
  destruct (marker_mir r) as [tr| |] eqn:Er; cbn [bind] in H; try discriminate H.
  unfold mbind, put, ret in H. inversion H; subst; clear H.
  exists (counter s + 1), src, tl, tr. repeat split; auto.
  unfold recorded_as. simpl. rewrite Z.eqb_refl. reflexivity.
Qed.

Theorem unzip_of_a_non_pair_array_rejected a e size ia s :
  bound_to ρ a (WArray e size ia) -> (forall l r it, e <> DInst (WTuple l r it)) ->
  eval_rhs GG ρ (RUnzip a) s = Err "AttributeError".
Proof.
  intros Ha Hn. cbn [eval_rhs]. unfold mbind, get_wrap. rewrite Ha. unfold ret.
  destruct e as [t|w|e' sz|]; try reflexivity. destruct w; try reflexivity. exfalso. eapply Hn. reflexivity.
Qed.

(* ---- map keeps the size; the element type is the function's return type *)
Theorem map_accepted a f e size ia fr s w s1 :
  bound_to ρ a (WArray e size ia) -> assoc f ρ = Some (BFun fr) ->
  eval_rhs GG ρ (RMap a f) s = Ok (w, s1) ->
  exists id src t,
    ia = Some src /\ fn_ret fr = IScalar t
    /\ w = WArray (DCls t) size (Some id)
    /\ recorded_as s1 id (TyArray (TyName (mir_name t)) size) (AMap src (fn_id fr)).
Proof.
  intros Ha Hf H. cbn [eval_rhs] in H. unfold mbind at 1 in H. unfold get_wrap in H. rewrite Ha in H.
  unfold ret at 1 in H. unfold mbind at 1 in H. unfold get_fun in H. rewrite Hf in H. unfold ret at 1 in H.
  unfold mbind at 1 in H. unfold alloc at 1 in H.
  unfold mbind at 1 in H. unfold need_id at 1 in H. simpl wid in H. destruct ia as [src|]; [|discriminate H].
  unfold ret at 1 in H. destruct (fn_ret fr) as [t|]; [|discriminate H]. cbv zeta in H.
  unfold mbind at 1 in H. unfold lift at 1 in H. cbn [to_mir inner_mir bind] in H.
  unfold mbind, put, ret in H. inversion H; subst; clear H.
  exists (counter s + 1), src, t. repeat split; auto.
  unfold recorded_as. simpl. rewrite Z.eqb_refl. reflexivity.
Qed.

(* ---- inner product *)
Theorem inner_size_mismatch a b ex sx ia ey sy ib s :
  bound_to ρ a (WArray ex sx ia) -> bound_to ρ b (WArray ey sy ib) -> size_eqb sx sy = false ->
  eval_rhs GG ρ (RInner a b) s = Err "IncompatibleTypesError".
Proof.
  intros Ha Hb Hs. cbn [eval_rhs]. unfold mbind, get_wrap. rewrite Ha, Hb. unfold ret. rewrite Hs. reflexivity.
Qed.

Theorem inner_non_integer a b ex sx ia ey sy ib tx ty s :
  bound_to ρ a (WArray ex sx ia) -> bound_to ρ b (WArray ey sy ib) -> size_eqb sx sy = true ->
  inner_mir ex = Ok tx -> inner_mir ey = Ok ty ->
  is_primitive_integer tx = false \/ is_primitive_integer ty = false ->
  eval_rhs GG ρ (RInner a b) s = Err "InvalidTypeError".
Proof.
  intros Ha Hb Hs Hx Hy Hn. cbn [eval_rhs]. unfold mbind at 1 2. unfold get_wrap. rewrite Ha, Hb. unfold ret at 1 2.
  rewrite Hs. simpl negb. cbv iota. unfold mbind at 1. unfold lift at 1. rewrite Hx.
  unfold mbind at 1. unfold ret at 1.
  destruct (is_primitive_integer tx) eqn:Ex.
  - unfold mbind at 1. unfold mbind at 1. unfold lift at 1. rewrite Hy. unfold ret at 1.
    destruct Hn as [Hn | Hn]; [discriminate Hn|]. rewrite Hn. reflexivity.
  - unfold mbind at 1. unfold ret at 1. reflexivity.
Qed.

Theorem inner_accepted a b ex sx ia ey sy ib s w s1 :
  bound_to ρ a (WArray ex sx ia) -> bound_to ρ b (WArray ey sy ib) ->
  eval_rhs GG ρ (RInner a b) s = Ok (w, s1) ->
  size_eqb sx sy = true /\
  exists id l r tx ty tl tr,
    ia = Some l /\ ib = Some r
    /\ inner_mir ex = Ok tx /\ is_primitive_integer tx = true
    /\ inner_mir ey = Ok ty /\ is_primitive_integer ty = true
    /\ elt_class ex = Ok tl /\ elt_class ey = Ok tr
    /\ w = WScalar (mode_max (fst tl) (fst tr), snd tl) (Some id) None
    /\ recorded_as s1 id (TyName (mir_name (mode_max (fst tl) (fst tr), snd tl))) (ABinary "InnerProduct" l r).
Proof.
  intros Ha Hb H. cbn [eval_rhs] in H. unfold mbind at 1 2 in H. unfold get_wrap in H. rewrite Ha, Hb in H.
  unfold ret at 1 2 in H.
  destruct (size_eqb sx sy) eqn:Hs; [|discriminate H]. split; [reflexivity|]. simpl negb in H. cbv iota in H.
  unfold mbind at 1 in H. unfold lift at 1 in H.
  destruct (inner_mir ex) as [tx| |] eqn:Ex; try discriminate H.
  unfold mbind at 1 in H. unfold ret at 1 in H.
  destruct (is_primitive_integer tx) eqn:Px.
  - unfold mbind at 1 in H. unfold mbind at 1 in H. unfold lift at 1 in H.
    destruct (inner_mir ey) as [ty| |] eqn:Ey; try discriminate H. unfold ret at 1 in H.
    destruct (is_primitive_integer ty) eqn:Py; [|discriminate H]. simpl negb in H. cbv iota in H.
    unfold mbind at 1 in H. unfold alloc at 1 in H.
    unfold mbind at 1 in H. unfold lift at 1 in H. destruct (elt_class ex) as [tl| |] eqn:Cl; try discriminate H.
    unfold mbind at 1 in H. unfold lift at 1 in H. destruct (elt_class ey) as [tr| |] eqn:Cr; try discriminate H.
    cbv zeta in H.
    unfold mbind at 1 in H. unfold need_id at 1 in H. simpl wid in H. destruct ia as [l|]; [|discriminate H].
    unfold ret at 1 in H. unfold mbind at 1 in H. unfold need_id at 1 in H. simpl wid in H.
    destruct ib as [r|]; [|discriminate H]. unfold ret at 1 in H.
    unfold emit_scalar in H. cbn [fst] in H.
    exists (counter s + 1), l, r, tx, ty, tl, tr.
    destruct (mode_max (fst tl) (fst tr)) eqn:Em; try discriminate H;
      unfold mbind, put, ret in H; inversion H; subst; clear H; repeat split; auto;
      unfold recorded_as; simpl; rewrite Z.eqb_refl; reflexivity.
  - unfold mbind at 1 in H. unfold ret at 1 in H. discriminate H.
Qed.

(* ---- n-tuple index *)
Theorem index_out_of_range a vals it i s :
  bound_to ρ a (WNTuple vals it) -> i < 0 \/ Z.of_nat (List.length vals) <= i ->
  eval_rhs GG ρ (RIndex a i) s = Err "IndexError".
Proof.
  intros Ha Hi. cbn [eval_rhs]. unfold mbind, get_wrap. rewrite Ha. unfold ret. cbv zeta.
  destruct ((i <? 0) || (Z.of_nat (List.length vals) <=? i)) eqn:E; [reflexivity|].
  apply orb_false_iff in E. destruct E as [E1 E2]. apply Z.ltb_ge in E1. apply Z.leb_gt in E2. lia.
Qed.

Lemma nth_wrap_some : forall vals n, (n < List.length vals)%nat -> exists v, nth_wrap vals n = Some v /\ In v vals.
Proof.
  induction vals as [|x vals IH]; intros n Hn; simpl in Hn; [lia|].
  destruct n as [|n]; simpl; [exists x; auto|].
  destruct (IH n) as (v & Hv & Hin); [lia|]. exists v. auto.
Qed.

Theorem index_accepted a vals it i s w s1 :
  bound_to ρ a (WNTuple vals it) ->
  eval_rhs GG ρ (RIndex a i) s = Ok (w, s1) ->
  0 <= i < Z.of_nat (List.length vals) /\
  exists v src, nth_wrap vals (Z.to_nat i) = Some v /\ it = Some src /\
    ((* a literal component is returned itself, nothing is recorded *)
     (exists b li lv, v = WScalar (MConst, b) li lv /\ w = v)
     \/ (* otherwise the accessor is recorded with the position *)
     (exists ty, wid w = Some (counter s + 1) /\ recorded_as s1 (counter s + 1) ty (ANTupleAcc i src))).
Proof.
  intros Ha H. cbn [eval_rhs] in H. unfold mbind at 1 in H. unfold get_wrap in H. rewrite Ha in H.
  unfold ret at 1 in H. cbv zeta in H.
  destruct ((i <? 0) || (Z.of_nat (List.length vals) <=? i)) eqn:E; [discriminate H|].
  apply orb_false_iff in E. destruct E as [E1 E2]. apply Z.ltb_ge in E1. apply Z.leb_gt in E2.
  split; [lia|].
  unfold mbind at 1 in H. unfold alloc at 1 in H.
  destruct (nth_wrap vals (Z.to_nat i)) as [v|] eqn:En; [|discriminate H].
  unfold mbind at 1 in H. unfold need_id at 1 in H. simpl wid in H. destruct it as [src|]; [|discriminate H].
  unfold ret at 1 in H. exists v, src. repeat split; auto.
  unfold generate_accessor in H.
  destruct v as [[m b] li lv | e sz ai | l r ti | vs ni | fs oi].
  - destruct m.
    + left. unfold ret in H. inversion H; subst. exists b, li, lv. split; reflexivity.
    + right. unfold mbind, put, ret in H. inversion H; subst; clear H. eexists. split; [reflexivity|].
      unfold recorded_as. simpl. rewrite Z.eqb_refl. reflexivity.
    + right. unfold mbind, put, ret in H. inversion H; subst; clear H. eexists. split; [reflexivity|].
      unfold recorded_as. simpl. rewrite Z.eqb_refl. reflexivity.
  - right. cbv zeta in H. unfold mbind at 1 in H. unfold lift at 1 in H.
    destruct (to_mir (with_id (WArray e sz ai) (counter s + 1))) as [ty| |]; try discriminate H.
    unfold mbind, put, ret in H. inversion H; subst; clear H. exists ty. split; [reflexivity|].
    unfold recorded_as. simpl. rewrite Z.eqb_refl. reflexivity.
  - discriminate H.
  - right. cbv zeta in H. unfold mbind at 1 in H. unfold lift at 1 in H.
    destruct (to_mir (with_id (WNTuple vs ni) (counter s + 1))) as [ty| |]; try discriminate H.
    unfold mbind, put, ret in H. inversion H; subst; clear H. exists ty. split; [reflexivity|].
    unfold recorded_as. simpl. rewrite Z.eqb_refl. reflexivity.
  - right. cbv zeta in H. unfold mbind at 1 in H. unfold lift at 1 in H.
    destruct (to_mir (with_id (WObject fs oi) (counter s + 1))) as [ty| |]; try discriminate H.
    unfold mbind, put, ret in H. inversion H; subst; clear H. exists ty. split; [reflexivity|].
    unfold recorded_as. simpl. rewrite Z.eqb_refl. reflexivity.
Qed.

(* ---- object field *)
Theorem undeclared_field_rejected a vals it k s :
  bound_to ρ a (WObject vals it) -> reserved_attr k = false -> assoc k vals = None ->
  eval_rhs GG ρ (RField a k) s = Err "AttributeError".
Proof.
  intros Ha Hr Hk. cbn [eval_rhs]. unfold mbind, get_wrap. rewrite Ha. unfold ret. rewrite Hr, Hk. reflexivity.
Qed.

(* ---- Array.new *)
Theorem array_new_empty_rejected_anywhere s : eval_rhs GG ρ (RArrayNew []) s = Err "ValueError".
Proof. reflexivity. Qed.

Definition same_as (first w : wrap) : Prop :=
  py_class w = py_class first /\ exists t, to_mir w = Ok t /\ exists t0, to_mir first = Ok t0 /\ mty_eqb t t0 = true.

Lemma same_go_true first : forall l s s',
  (fix go (l : list wrap) : M bool :=
     match l with
     | [] => ret true
     | w :: r =>
         if String.eqb (py_class w) (py_class first) then
           mdo t <- lift (to_mir w); mdo t0 <- lift (to_mir first);
           if mty_eqb t t0 then go r else ret false
         else ret false
     end) l s = Ok (true, s') -> Forall (same_as first) l.
Proof.
  induction l as [|w r IH]; intros s s' H; [constructor|].
  cbn fix beta iota in H.
  destruct (String.eqb_spec (py_class w) (py_class first)) as [Hc|]; [|unfold ret in H; discriminate H].
  unfold mbind at 1 in H. unfold lift at 1 in H. destruct (to_mir w) as [t| |] eqn:Et; try discriminate H.
  unfold mbind at 1 in H. unfold lift at 1 in H. destruct (to_mir first) as [t0| |] eqn:E0; try discriminate H.
  destruct (mty_eqb t t0) eqn:Em; [|unfold ret in H; discriminate H].
  constructor; [|eapply IH; exact H].
  split; [exact Hc|]. exists t. split; [exact Et|]. exists t0. split; [exact E0 | exact Em].
Qed.

Theorem array_new_accepted es s w s1 :
  eval_rhs GG ρ (RArrayNew es) s = Ok (w, s1) ->
  exists ws first ids t0,
    Forall2 (bound_to ρ) es ws /\ hd_error ws = Some first
    /\ Forall (same_as first) ws                       (* all of one class and one type *)
    /\ Forall2 has_id ws ids
    /\ to_mir first = Ok t0
    /\ w = WArray (DInst first) (Some (Z.of_nat (List.length ws))) (Some (counter s + 1))     (* new counts its elements *)
    /\ recorded_as s1 (counter s + 1) (TyArray t0 (Some (Z.of_nat (List.length ws)))) (ANew "ArrayNew" ids).
Proof.
  intros H. cbn [eval_rhs] in H. unfold mbind at 1 in H.
  destruct (get_wraps ρ es s) as [[ws sa]| |] eqn:Ea; try discriminate H.
  destruct (get_wraps_spec _ _ _ _ _ Ea) as [-> Fa].
  destruct ws as [|first rest]; [discriminate H|].
  apply mbind_inv in H. destruct H as (same & sb & Eg & H).
  pose proof (pure_same_go first (first :: rest) _ _ _ Eg) as ->.
  destruct same; [|discriminate H].
  pose proof (same_go_true first (first :: rest) s s Eg) as Hsame.
  unfold mbind at 1 in H. unfold alloc at 1 in H.
  unfold mbind at 1 in H.
  match type of H with (match need_ids ?l ?st with _ => _ end) = _ =>
    destruct (need_ids l st) as [[ids sd]| |] eqn:En; try discriminate H end.
  destruct (need_ids_spec _ _ _ _ En) as [-> Fn].
  cbv zeta in H. unfold mbind at 1 in H. unfold lift at 1 in H.
  cbn [to_mir inner_mir] in H.
  destruct (to_mir first) as [t0| |] eqn:E0; cbn [bind] in H; try discriminate H.
  unfold mbind, put, ret in H. inversion H; subst; clear H.
  exists (first :: rest), first, ids, t0. repeat split; auto.
  unfold recorded_as. simpl. rewrite Z.eqb_refl. reflexivity.
Qed.

End Steps.
