(* C04, rule facts for the program-level simulation (C04Program.v), for ANY operand values: an emitted binary
   operation carries the operator's own MIR name and its operands in written order, is never emitted for two
   literal operands, and a folded one only for two literal operands. *)
From Coq Require Import ZArith List String Bool Lia.
From NadaV.PyMini Require Import PyMini.
From NadaV.Gen Require GenScalar.
From NadaV.Model Require Import Rules Corr Mir Surface Trace Compile.
From NadaV.Spec Require Import TypingSpec.
From NadaV.Proofs Require Import Finite C02Proofs C06Proofs ScalarInv C02Rules.
Import ListNotations.
Open Scope string_scope.
Open Scope Z_scope.

Definition lit (t : sty) : bool := mode_eqb (fst t) MConst.

Definition bin_sim (o : op) (ta tb : sty) (out : outcome) : Prop :=
  match out with
  | Emit name t roles => roles = [("left", 0); ("right", 1)] /\ fst t <> MConst /\ name = opname o
                         /\ principal (spec2 o ta tb) = Some t /\ lit ta && lit tb = false
  | Fold t v => fst t = MConst /\ (exists z, z_of_value v = Some z) /\ principal (spec2 o ta tb) = Some t
                /\ lit ta && lit tb = true
  | Same _ => False
  | _ => True
  end.

Lemma bin_sim_all : forall o ta tb x y, bin_sim o ta tb (rule2v G o ta tb x y).
Proof.
  intros o [ma ba] [mb bb] x y.
  destruct o; destruct ma, ba, mb, bb; pm; try (fin; fail).
  all: try (destruct y; pm; fin; fail).
  all: try (destruct x; pm; fin; fail).
Qed.

Definition un_sim (u : unop) (ta : sty) (out : outcome) : Prop :=
  match out with
  | Emit name t roles => roles = [("child", 0)] /\ fst t <> MConst /\ spec1 u ta = MustAccept t /\ lit ta = false
                         /\ name = (match u with UInvert => "Not" | UToPublic => "Reveal" end)
  | Fold t v => fst t = MConst /\ (exists z, z_of_value v = Some z) /\ spec1 u ta = MustAccept t /\ lit ta = true
  | Same k => spec1 u ta = MustSame
  | _ => True
  end.
Lemma un_sim_all : forall u ta x,
  un_sim u ta (classify (dispatch_method G (match u with UInvert => "__invert__" | UToPublic => "to_public" end)
                                         (operand ta x 0) [])).
Proof.
  intros u [ma ba] x. destruct u; destruct ma, ba; pm; try (fin; fail).
  all: try (destruct x; pm; fin; fail).
Qed.

Definition if_sim (tc ta tb : sty) (out : outcome) : Prop :=
  match out with
  | Emit name t roles => roles = roles3 /\ fst t <> MConst /\ spec_ifelse tc ta tb = MustAccept t /\ name = "IfElse"
  | _ => True
  end.
Lemma if_sim_all : forall tc ta tb, if_sim tc ta tb (rule_ifelse G tc ta tb).
Proof.
  intros [mc bc] [ma ba] [mb bb].
  destruct mc, bc, ma, ba, mb, bb; vm_compute; fin.
Qed.
