(* C10, for every program of the whole surface language and every earlier state of the process:
   every input the tracer records was declared by an Input statement of THIS program (anywhere in it:
   top level, function bodies, nested definitions) with exactly that name, party and documentation
   string; hence every input of the MIR is a declared input of the program. *)
From Coq Require Import ZArith List String Bool Lia.
From NadaV.PyMini Require Import PyMini.
From NadaV.Model Require Import Rules Corr Mir Surface Trace Compile.
From NadaV.Proofs Require Import ScalarInv TraceMono C11Program C01All CompileProofs C08Program.
Import ListNotations.
Open Scope string_scope.
Open Scope Z_scope.
Open Scope list_scope.

Definition idecl : Type := (string * string * string)%type.

(* the Input statements of a program, through function bodies *)
Fixpoint decl_stmt (s : stmt) : list idecl :=
  match s with
  | SLet _ (RInput nm pt dc _) => [(nm, pt, dc)]
  | SLet _ _ => []
  | SDef _ _ _ body _ =>
      (fix go (l : list stmt) : list idecl := match l with [] => [] | x :: r => decl_stmt x ++ go r end) body
  end.
Fixpoint decls (ss : list stmt) : list idecl :=
  match ss with [] => [] | s :: r => decl_stmt s ++ decls r end.

Lemma decl_stmt_def f ps rt body res : decl_stmt (SDef f ps rt body res) = decls body.
Proof. simpl. induction body as [|x r IH]; simpl; [reflexivity | rewrite IH; reflexivity]. Qed.

Definition declared (D : list idecl) (n : ast) : Prop :=
  match n with AInput nm pt dc => In (nm, pt, dc) D | _ => True end.

Lemma G_declared_incl D D' c0 s s1 : incl D D' -> G (declared D) c0 s s1 -> G (declared D') c0 s s1.
Proof.
  intros Hi [H1 (new & E & F)]. split; [exact H1|]. exists new. split; [exact E|].
  eapply Forall_impl; [|exact F]. intros e [A B]. split; [exact A|].
  destruct (r_node (snd e)); simpl in *; auto.
Qed.

Section Rhs.
Variable GG : genv.
Variable ρ : env.
Variable D : list idecl.
Let Φ := declared D.

Ltac other := solve [exact I | simpl; exact I | intros; exact I].
Ltac gmd :=
  cbv zeta;
  repeat first
    [ apply Gm_put; [simpl; tauto | other]
    | apply Gm_emit_scalar; [simpl; tauto | other]
    | apply Gm_new_literal; other
    | gm_step ].

Lemma Gd_do_binop c0 ids o a b : Gm Φ c0 ids (do_binop GG o a b).
Proof. unfold do_binop. gmd. Qed.
Lemma Gd_do_unop c0 ids u a : Gm Φ c0 ids (do_unop GG u a).
Proof. unfold do_unop. gmd. Qed.
Lemma Gd_do_ifelse c0 ids c a b : Gm Φ c0 ids (do_ifelse GG c a b).
Proof. unfold do_ifelse. gmd. Qed.
Lemma Gd_generate_accessor c0 ids v id n : In id ids -> Φ n -> Gm Φ c0 ids (generate_accessor v id n).
Proof. intros Hin Hn. unfold generate_accessor. cbv zeta. repeat first [apply Gm_put; [assumption | assumption] | gm_step]. Qed.

Lemma Gd_mk_input c0 name party doc : In (name, party, doc) D -> forall t s w s1,
  c0 <= counter s -> mk_input name party doc t s = Ok (w, s1) ->
  G Φ c0 s s1 /\ exists id, wid w = Some id /\ c0 < id <= counter s1.
Proof.
  intros HD. induction t as [[m b]|elt IH size]; intros s w s1 Hc H.
  - destruct m; simpl in H; try (unfold mbind, alloc, fail in H; discriminate H);
      unfold mbind, alloc, put, ret in H; cbn [counter store lits] in H; inversion H; subst; clear H;
      (split; [|simpl; eexists; split; [reflexivity | lia]]);
      (split; [simpl; lia|]); eexists [_]; (split; [reflexivity|]); (constructor; [|constructor]); simpl; (split; [lia | exact HD]).
  - cbn [mk_input] in H. unfold mbind at 1 in H.
    destruct (mk_input name party doc elt s) as [[inner s']| |] eqn:E; try discriminate.
    destruct (IH _ _ _ Hc E) as [G1 (id & Hw & Hid)].
    unfold mbind at 1 in H. unfold need_id in H. rewrite Hw in H. unfold ret at 1 in H.
    unfold mbind, lift in H. destruct (to_mir (WArray (DInst inner) size (Some id))) as [ty| |]; try discriminate.
    unfold put, ret in H. inversion H; subst; clear H.
    split; [|simpl; exists id; split; [reflexivity | destruct G1; lia]].
    eapply G_trans; [exact G1|]. split; [simpl; lia|]. eexists [_]. split; [reflexivity|].
    constructor; [|constructor]. simpl. split; [destruct G1; lia | exact HD].
Qed.

Theorem eval_rhs_declared c0 r :
  (forall nm pt dc t, r = RInput nm pt dc t -> In (nm, pt, dc) D) -> Gm Φ c0 [] (eval_rhs GG ρ r).
Proof.
  intros Hr. destruct r; cbn [eval_rhs].
  - gmd.
  - intros s w s1 [Hc _] H. eapply Gd_mk_input; eauto.
  - gmd.
  - gmd. apply Gd_do_binop.
  - gmd. apply Gd_do_unop.
  - gmd. apply Gd_do_ifelse.
  - gmd. apply Gd_do_unop.
  - gmd; try other; apply Gd_do_binop.
  - apply Gm_bind; [apply Gm_pure, pure_get_wraps|]. intros ws.
    destruct ws as [|first rest]; [apply Gm_fail|].
    apply Gm_bind; [apply Gm_pure, (pure_same_go first (first :: rest))|]. intros same.
    gmd.
  - gmd.
  - gmd.
  - gmd.
  - gmd; try apply Gd_generate_accessor; try (simpl; tauto); try other.
  - gmd; try apply Gd_generate_accessor; try (simpl; tauto); try other.
  - gmd.
  - gmd.
  - gmd.
  - gmd.
  - gmd.
  - gmd.
Qed.
End Rhs.

Lemma G_weaken (Φ Φ' : ast -> Prop) c0 s s1 : (forall n, Φ n -> Φ' n) -> G Φ c0 s s1 -> G Φ' c0 s s1.
Proof.
  intros Hi [H1 (new & E & F)]. split; [exact H1|]. exists new. split; [exact E|].
  eapply Forall_impl; [|exact F]. intros e [A B]. split; [exact A | apply Hi; exact B].
Qed.

Theorem exec_declared (GG : genv) : forall fuel ρ ss s ρ' s',
  exec GG fuel ρ ss s = Ok (ρ', s') -> G (declared (decls ss)) (counter s) s s'.
Proof.
  induction fuel as [|n IH]; intros ρ ss s ρ' s' H; [discriminate H|].
  destruct ss as [|[x r | f params rt body res] rest].
  - simpl in H. unfold ret in H. inversion H; subst. apply G_refl.
  - cbn [exec] in H. unfold mbind at 1 in H.
    destruct (eval_rhs GG ρ r s) as [[w s1]| |] eqn:E; try discriminate.
    assert (G1 : G (declared (decls (SLet x r :: rest))) (counter s) s s1).
    { eapply (eval_rhs_declared GG ρ (decls (SLet x r :: rest)) (counter s) r); [| |exact E].
      - intros nm pt dc t ->. simpl. left. reflexivity.
      - split; [lia | constructor]. }
    pose proof (IH _ _ _ _ _ H) as G2.
    eapply G_trans; [exact G1|]. eapply G_base; [destruct G1; eassumption|].
    eapply G_declared_incl; [|exact G2]. intros d Hd. simpl. apply in_or_app. right. exact Hd.
  - destruct (sdef_inversion _ _ _ _ _ _ _ _ _ _ _ _ H)
      as (args & s1 & ρb & s2 & child & t & cid & Ea & Eb & Er & Ew & Ert & Hm & Hp & Erest).
    clear H. set (fid := counter s + 1) in *.
    set (DD := decls (SDef f params rt body res :: rest)).
    assert (G0 : G (declared DD) (counter s) s (after_alloc s)).
    { split; [simpl; lia|]. exists []. split; [reflexivity | constructor]. }
    assert (Ga : G (declared DD) (counter s) (after_alloc s) s1).
    { eapply G_base; [|eapply (G_weaken (arg_node_of fid)); [|eapply (Gm_make_args fid fid params []); [|exact Ea]]].
      - unfold fid. lia.
      - intros n0 Hn. destruct n0; simpl in *; auto; contradiction.
      - split; [simpl; unfold fid; lia | constructor]. }
    assert (Hc1 : counter s <= counter s1) by (destruct Ga as [Ga _]; simpl in Ga; lia).
    assert (Gb : G (declared DD) (counter s) s1 s2).
    { eapply G_base; [exact Hc1|]. eapply G_declared_incl; [|exact (IH _ _ _ _ _ Eb)].
      intros d Hd. unfold DD. cbn [decls]. rewrite decl_stmt_def. apply in_or_app. left. exact Hd. }
    assert (Hc2 : counter s1 <= counter s2) by (destruct Gb; assumption).
    set (s3 := after_put s2 fid (TyName (mir_name t)) (AFunction f (map fst args) cid)) in *.
    assert (Gp : G (declared DD) (counter s) s2 s3).
    { split; [simpl; lia|]. eexists [_]. split; [reflexivity|]. constructor; [|constructor]. simpl.
      split; [unfold fid in *; destruct Ga as [Ga _]; simpl in Ga; lia | exact I]. }
    assert (Gr : G (declared DD) (counter s) s3 s').
    { eapply G_base; [|eapply G_declared_incl; [|exact (IH _ _ _ _ _ Erest)]].
      - simpl. lia.
      - intros d Hd. unfold DD. cbn [decls]. apply in_or_app. right. exact Hd. }
    eapply G_trans; [exact G0|]. eapply G_trans; [exact Ga|]. eapply G_trans; [exact Gb|]. eapply G_trans; eauto.
Qed.

(* ---- down to the MIR: after any earlier state, every input of the MIR is a declared input of the program *)
Theorem mir_inputs_are_declared (GG : genv) : forall s0 p m s' fs',
  fresh_store s0 -> ordered s0 ->
  run_from GG s0 [] p = Ok (m, s', fs') ->
  forall i, In i (m_inputs m) -> In (i_name i, i_party i, i_doc i) (decls (p_stmts p)).
Proof.
  intros s0 p m s' fs' Hf Ho Hr i Hi.
  destruct (later_program_owns_its_mir GG s0 p m s' fs' Hf Ho Hr) as (_ & _ & C & _).
  destruct (C i Hi) as (k & r & Hk & Hl & Hn).
  unfold run_from in Hr.
  destruct (exec GG (stmts_size (p_stmts p)) [] (p_stmts p) s0) as [[ρ s1]| |] eqn:Ex; try discriminate Hr.
  destruct (make_outputs ρ (p_outs p)) as [couts| |]; cbn [bind] in Hr; try discriminate Hr.
  destruct (existsb (has_no_id ρ) (p_outs p)); try discriminate Hr.
  destruct (compile (store s1) [] couts) as [[m' fs1]| |]; cbn [bind fst snd] in Hr; try discriminate Hr.
  inversion Hr; subst m' s1 fs1; clear Hr.
  pose proof (exec_declared GG _ _ _ _ _ _ Ex) as Hg.
  destruct (lookup_G_new _ _ _ _ _ _ Hf Hg Hk Hl) as [Hd _]. rewrite Hn in Hd. exact Hd.
Qed.

(* ---- outputs: one MIR output per returned Output, in the returned order, with its name and party, naming the
   operation bound to the returned variable and carrying that operation's recorded type *)
From NadaV.Proofs Require Import C18Proofs.

Definition out_of (ρ : env) (st : list (Z * arec)) (o : output) (mo : moutput) : Prop :=
  o_name mo = out_name o /\ o_party mo = out_party o
  /\ exists w rec, assoc (out_var o) ρ = Some (BWrap w) /\ wid w = Some (o_op mo)
                   /\ lookup (o_op mo) st = Some rec /\ o_ty mo = r_ty rec.

Lemma make_outputs_rel ρ : forall outs couts,
  make_outputs ρ outs = Ok couts -> existsb (has_no_id ρ) outs = false ->
  Forall2 (fun o co => co_name co = out_name o /\ co_party co = out_party o
                       /\ exists w, assoc (out_var o) ρ = Some (BWrap w) /\ wid w = Some (co_id co)) outs couts.
Proof.
  induction outs as [|o outs IH]; intros couts H Hn; simpl in H.
  - inversion H; subst. constructor.
  - destruct (assoc (out_var o) ρ) as [[w|f]|] eqn:Ea; try discriminate.
    destruct (make_outputs ρ outs) as [t| |] eqn:Et; cbn [bind] in H; try discriminate.
    inversion H; subst; clear H. simpl in Hn. apply orb_false_iff in Hn. destruct Hn as [Hn1 Hn2].
    constructor; [|apply IH; auto]. simpl. repeat split; auto.
    unfold has_no_id in Hn1. rewrite Ea in Hn1. destruct (wid w) as [i|] eqn:Ew; [|discriminate].
    exists w. auto.
Qed.

Theorem mir_outputs_are_the_returned_ones (GG : genv) : forall s0 p m s' fs',
  run_from GG s0 [] p = Ok (m, s', fs') ->
  exists ρ, exec GG (stmts_size (p_stmts p)) [] (p_stmts p) s0 = Ok (ρ, s')
            /\ Forall2 (out_of ρ (store s')) (p_outs p) (m_outputs m).
Proof.
  intros s0 p m s' fs' Hr. unfold run_from in Hr.
  destruct (exec GG (stmts_size (p_stmts p)) [] (p_stmts p) s0) as [[ρ s1]| |] eqn:Ex; try discriminate Hr.
  destruct (make_outputs ρ (p_outs p)) as [couts| |] eqn:Em; cbn [bind] in Hr; try discriminate Hr.
  destruct (existsb (has_no_id ρ) (p_outs p)) eqn:En; try discriminate Hr.
  destruct (compile (store s1) [] couts) as [[m' fs1]| |] eqn:Hc; cbn [bind fst snd] in Hr; try discriminate Hr.
  inversion Hr; subst m' s1 fs1; clear Hr. exists ρ. split; [reflexivity|].
  pose proof (make_outputs_rel ρ _ _ Em En) as F1.
  pose proof (compile_outputs _ _ _ _ _ Hc) as F2.
  clear - F1 F2. revert F2. generalize (m_outputs m). induction F1 as [|o co outs couts (A1 & A2 & w & A3 & A4) _ IH];
    intros mouts F2; inversion F2 as [|? mo ? mouts' (B1 & B2 & B3 & rec & B4 & B5) F2']; subst; constructor; [|apply IH; exact F2'].
  unfold out_of. rewrite B1, B2, A1, A2. repeat split; auto. exists w, rec. rewrite B3. auto.
Qed.
