(* C06: folding of literal-only operations, for ALL integer values (no bound).
   The fold lambdas and helper bodies come from Gen/GenScalar.v; PyMini is reduced with
   the data arithmetic kept symbolic. *)
From Coq Require Import ZArith List String Bool Lia.
From NadaV.PyMini Require Import PyMini.
From NadaV.Gen Require Import GenScalar.
From NadaV.Model Require Import Rules.
From NadaV.Spec Require Import TypingSpec.
From NadaV.Proofs Require Import Finite.
Import ListNotations.
Open Scope Z_scope.

Ltac pm := lazy -[Z.add Z.sub Z.mul Z.div Z.modulo Z.pow Z.shiftl Z.shiftr Z.ltb Z.leb Z.gtb Z.geb
                   Z.eqb Z.land Z.lor Z.lxor Z.opp truediv_trunc].

Definition num (b : base) : Prop := b = BInt \/ b = BUInt.
Definition L (b : base) : sty := (MConst, b).

Ltac numcases H := destruct H as [-> | ->].

Lemma fold_add b x y : num b -> rule2v G OAdd (L b) (L b) x y = Fold (L b) (VInt (x + y)).
Proof. intros H; numcases H; pm; reflexivity. Qed.
Lemma fold_sub b x y : num b -> rule2v G OSub (L b) (L b) x y = Fold (L b) (VInt (x - y)).
Proof. intros H; numcases H; pm; reflexivity. Qed.
Lemma fold_mul b x y : num b -> rule2v G OMul (L b) (L b) x y = Fold (L b) (VInt (x * y)).
Proof. intros H; numcases H; pm; reflexivity. Qed.

Lemma fold_pow b x e : num b -> 0 <= e -> rule2v G OPow (L b) (L b) x e = Fold (L b) (VInt (x ^ e)).
Proof. intros H He; numcases H; destruct e; try lia; pm; reflexivity. Qed.

Lemma fold_lshift b x k : num b -> 0 <= k ->
  rule2v G OLShift (L b) (L BUInt) x k = Fold (L b) (VInt (x * 2 ^ k)).
Proof.
  intros H Hk; numcases H; (destruct k; try lia; pm; rewrite Z.shiftl_mul_pow2 by lia; reflexivity).
Qed.
Lemma fold_rshift b x k : num b -> 0 <= k ->
  rule2v G ORShift (L b) (L BUInt) x k = Fold (L b) (VInt (x / 2 ^ k)).
Proof.
  intros H Hk; numcases H; (destruct k; try lia; pm; rewrite Z.shiftr_div_pow2 by lia; reflexivity).
Qed.

Lemma fold_lt b x y : num b -> rule2v G OLt (L b) (L b) x y = Fold (L BBool) (VBool (x <? y)).
Proof. intros H; numcases H; pm; reflexivity. Qed.
Lemma fold_gt b x y : num b -> rule2v G OGt (L b) (L b) x y = Fold (L BBool) (VBool (x >? y)).
Proof. intros H; numcases H; pm; reflexivity. Qed.
Lemma fold_le b x y : num b -> rule2v G OLe (L b) (L b) x y = Fold (L BBool) (VBool (x <=? y)).
Proof. intros H; numcases H; pm; reflexivity. Qed.
Lemma fold_ge b x y : num b -> rule2v G OGe (L b) (L b) x y = Fold (L BBool) (VBool (x >=? y)).
Proof. intros H; numcases H; pm; reflexivity. Qed.
Lemma fold_eq b x y : num b -> rule2v G OEq (L b) (L b) x y = Fold (L BBool) (VBool (x =? y)).
Proof. intros H; numcases H; pm; reflexivity. Qed.
Lemma fold_ne b x y : num b -> rule2v G ONe (L b) (L b) x y = Fold (L BBool) (VBool (negb (x =? y))).
Proof. intros H; numcases H; pm; reflexivity. Qed.

(* boolean literals: the operand value v stands for the boolean (v <> 0) *)
Definition tb (v : Z) : bool := negb (v =? 0).
Lemma fold_and x y : rule2v G OAnd (L BBool) (L BBool) x y = Fold (L BBool) (VBool (tb x && tb y)).
Proof. unfold tb. pm. reflexivity. Qed.
Lemma fold_or x y : rule2v G OOr (L BBool) (L BBool) x y = Fold (L BBool) (VBool (tb x || tb y)).
Proof. unfold tb. pm. reflexivity. Qed.
Lemma fold_xor x y : rule2v G OXor (L BBool) (L BBool) x y = Fold (L BBool) (VBool (xorb (tb x) (tb y))).
Proof. unfold tb. pm. reflexivity. Qed.
Lemma fold_beq x y : rule2v G OEq (L BBool) (L BBool) x y = Fold (L BBool) (VBool (Bool.eqb (tb x) (tb y))).
Proof. unfold tb. pm. reflexivity. Qed.
Lemma fold_bne x y : rule2v G ONe (L BBool) (L BBool) x y = Fold (L BBool) (VBool (negb (Bool.eqb (tb x) (tb y)))).
Proof. unfold tb. pm. reflexivity. Qed.
Lemma fold_not x :
  classify (dispatch_method G "__invert__" (operand (L BBool) x 0) []) = Fold (L BBool) (VBool (negb (tb x))).
Proof. unfold tb. pm. reflexivity. Qed.

(* int + literal  (sum() / reflected add) *)
Lemma fold_radd b k v : num b -> rule_radd_int G k (L b) v = Fold (L b) (VInt (v + k)).
Proof. intros H; numcases H; pm; reflexivity. Qed.

(* quotient and remainder *)
Lemma fold_mod b x y : num b -> y <> 0 -> rule2v G OMod (L b) (L b) x y = Fold (L b) (VInt (x mod y)).
Proof. intros H Hy; numcases H; (destruct y; try congruence; pm; reflexivity). Qed.

Lemma fold_div b x y : num b -> y <> 0 -> rule2v G ODiv (L b) (L b) x y = Fold (L b) (VInt (x / y)).
Proof. intros H Hy; numcases H; (destruct y; try congruence; pm; reflexivity). Qed.

Lemma divmod_exact b x y : num b -> y <> 0 ->
  exists q r, rule2v G ODiv (L b) (L b) x y = Fold (L b) (VInt q)
           /\ rule2v G OMod (L b) (L b) x y = Fold (L b) (VInt r)
           /\ x = q * y + r /\ Z.abs r < Z.abs y.
Proof.
  intros H Hy. exists (x / y), (x mod y).
  rewrite fold_div, fold_mod by assumption. repeat split.
  - rewrite Z.mul_comm. apply Z.div_mod. exact Hy.
  - destruct (Z.lt_trichotomy y 0) as [Hn | [He | Hp]]; [| congruence |].
    + pose proof (Z.mod_neg_bound x y Hn). lia.
    + pose proof (Z.mod_pos_bound x y Hp). lia.
Qed.

Lemma div_by_zero_rejected b x : num b ->
  (exists e, rule2v G ODiv (L b) (L b) x 0 = Reject e) /\ (exists e, rule2v G OMod (L b) (L b) x 0 = Reject e).
Proof. intros H; numcases H; split; eexists; pm; reflexivity. Qed.

(* never folded unless every operand is a literal (table over all type pairs) *)
Definition is_fold (o : outcome) : bool := match o with Fold _ _ => true | _ => false end.
Definition only_lit2 (o : op) (l r : sty) : bool :=
  implb (is_fold (rule2 G o l r)) (literal l && literal r).
Lemma only_lit2_table : forall_op (fun o => forall2 (only_lit2 o)) = true.  Proof. vm_compute. reflexivity. Qed.
Lemma only_literals_fold : forall o l r t v, rule2 G o l r = Fold t v -> literal l = true /\ literal r = true.
Proof.
  intros o l r t v H.
  assert (E : only_lit2 o l r = true).
  { generalize l r. apply forall2_spec. generalize o. apply forall_op_spec. exact only_lit2_table. }
  unfold only_lit2 in E. rewrite H in E. simpl in E. apply andb_prop in E. exact E.
Qed.
Definition only_lit3 (c a b : sty) : bool := negb (is_fold (rule_ifelse G c a b)).
Lemma only_lit3_table : forall3 only_lit3 = true.  Proof. vm_compute. reflexivity. Qed.
Lemma ifelse_never_folded : forall c a b t v, rule_ifelse G c a b <> Fold t v.
Proof.
  intros c a b t v H. pose proof (forall3_spec _ only_lit3_table c a b) as E.
  unfold only_lit3 in E. rewrite H in E. discriminate.
Qed.
