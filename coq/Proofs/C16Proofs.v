From Coq Require Import List Bool Lia.
From NadaV.Model Require Import AuditLoop.
Import ListNotations.

(* with the `else: break`, the walk terminates for EVERY target, within its size *)
Theorem loop_terminates : forall t fuel, target_size t < fuel -> run_loop fuel true t = Some true.
Proof.
  induction t as [| inner IH |]; intros fuel H; destruct fuel as [|n]; try lia; simpl; try reflexivity.
  destruct inner as [| inner2 |]; simpl in *.
  - destruct n; [lia | reflexivity].
  - apply IH. simpl. lia.
  - reflexivity.
Qed.

(* without it, one attribute or call under the subscript makes the loop spin *)
Lemma loop_spins_without_break : forall n, run_loop (S n) false (TSub TOther) = Some false.
Proof. reflexivity. Qed.
