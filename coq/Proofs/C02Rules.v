(* C02, rule facts for the program-level induction (C02Program.v): for ANY operand values the outcome of
   every operator conforms to the written rule (Spec/TypingSpec.v) — an accepted operation has the ruled
   type, folded exactly when ... it is folded, and an operation the rules prohibit is rejected. *)
From Coq Require Import ZArith List String Bool Lia.
From NadaV.PyMini Require Import PyMini.
From NadaV.Gen Require GenScalar.
From NadaV.Model Require Import Rules Corr Mir Surface Trace Compile.
From NadaV.Spec Require Import TypingSpec.
From NadaV.Proofs Require Import Finite C02Proofs C06Proofs ScalarInv.
Import ListNotations.
Open Scope string_scope.
Open Scope Z_scope.

Definition G := GenScalar.G.

Definition principal (v : verdict) : option sty := match v with MustAccept t | Free t => Some t | _ => None end.

Definition bin_conf (o : op) (ta tb : sty) (out : outcome) : Prop :=
  match out with
  | Emit name t roles => roles = [("left", 0); ("right", 1)] /\ fst t <> MConst /\ principal (spec2 o ta tb) = Some t
  | Fold t v => fst t = MConst /\ (exists z, z_of_value v = Some z) /\ principal (spec2 o ta tb) = Some t
  | Same _ => False
  | _ => True
  end.

Ltac fin := repeat split; try discriminate; try (eexists; reflexivity); try reflexivity;
            try (intros; reflexivity); try (intros; discriminate).

Lemma bin_conf_all : forall o ta tb x y, bin_conf o ta tb (rule2v G o ta tb x y).
Proof.
  intros o [ma ba] [mb bb] x y.
  destruct o; destruct ma, ba, mb, bb; pm; try (fin; fail).
  all: try (destruct y; pm; fin; fail).
  all: try (destruct x; pm; fin; fail).
Qed.

(* an operation the rules prohibit is rejected whatever the operand values *)
Definition bin_rej (o : op) (ta tb : sty) (out : outcome) : Prop :=
  spec2 o ta tb = MustReject -> match out with Reject _ => True | _ => False end.
Lemma bin_rej_all : forall o ta tb x y, bin_rej o ta tb (rule2v G o ta tb x y).
Proof.
  intros o [ma ba] [mb bb] x y.
  destruct o; destruct ma, ba, mb, bb; unfold bin_rej; cbn [spec2 mode_max base_eqb numeric mode_eqb negb andb orb];
    try (intros E; discriminate E); intros _; pm; try exact I.
  all: try (destruct y; pm; exact I).
  all: try (destruct x; pm; exact I).
Qed.

Definition un_conf (u : unop) (ta : sty) (out : outcome) : Prop :=
  match out with
  | Emit name t roles => roles = [("child", 0)] /\ fst t <> MConst /\ spec1 u ta = MustAccept t
  | Fold t v => fst t = MConst /\ (exists z, z_of_value v = Some z) /\ spec1 u ta = MustAccept t
  | Same k => spec1 u ta = MustSame
  | _ => True
  end.
Lemma un_conf_all : forall u ta x,
  un_conf u ta (classify (dispatch_method G (match u with UInvert => "__invert__" | UToPublic => "to_public" end)
                                          (operand ta x 0) [])).
Proof.
  intros u [ma ba] x. destruct u; destruct ma, ba; pm; try (fin; fail).
  all: try (destruct x; pm; fin; fail).
Qed.

Definition if_conf (tc ta tb : sty) (out : outcome) : Prop :=
  match out with
  | Emit name t roles => roles = roles3 /\ fst t <> MConst /\ spec_ifelse tc ta tb = MustAccept t
  | Reject _ => True
  | _ => True
  end.
Lemma if_conf_all : forall tc ta tb, if_conf tc ta tb (rule_ifelse G tc ta tb).
Proof.
  intros [mc bc] [ma ba] [mb bb].
  destruct mc, bc, ma, ba, mb, bb; vm_compute; fin.
Qed.
