(* C04, program level (scalar fragment): the tracer's operation store is a faithful image of the store-free
   denotation (Spec/Denote.v) of the program.  For EVERY program of the scalar fragment on which both the tracer and
   the denotation succeed there is an injective map from evaluation events to operation ids under which every
   event is recorded as the operation of the same kind (MIR name), with its operands in the written order, every
   literal operand as a Literal operation holding exactly its value, and every variable bound to the image of its
   denotation.  Simulation proved by induction over the statements; rule facts in C04Rules.v / C06Program.v. *)
From Coq Require Import ZArith List String Bool Lia.
From NadaV.PyMini Require Import PyMini.
From NadaV.Gen Require GenScalar.
From NadaV.Model Require Import Rules Corr Mir Surface Trace Compile.
From NadaV.Spec Require Import TypingSpec FoldSpec Denote.
From NadaV.Proofs Require Import Finite C02Proofs C06Proofs CompileProofs ScalarInv C02Rules C04Rules C06Program.
Import ListNotations.
Open Scope string_scope.
Open Scope Z_scope.
Open Scope list_scope.

Definition emap := list (Z * Z).       (* evaluation event -> operation id *)

Definition lit_rec (s : tstate) (c : Z) (b : base) (v : Z) : Prop :=
  c <= counter s /\ exists r idx, lookup c (store s) = Some r /\ r_node r = ALiteral (lit_value_string b v) idx
                                  /\ r_ty r = TyName (mir_name (MConst, b)).

Definition arg_rel (φ : emap) (s : tstate) (a : dref) (c : Z) : Prop :=
  match a with DN l => zassoc l φ = Some c | DL b v => lit_rec s c b v end.

Definition node_rel (φ : emap) (s : tstate) (nd : dnode) (r : arec) : Prop :=
  match dn_kind nd, dn_args nd, r_node r with
  | KInput n, [], AInput n' _ _ => n = n'
  | KRandom, [], ARandom => True
  | KOp name, [a1; a2], ABinary name' c1 c2 => name = name' /\ arg_rel φ s a1 c1 /\ arg_rel φ s a2 c2
  | KOp name, [a1], AUnary name' c1 => name = name' /\ arg_rel φ s a1 c1
  | KIfElse, [a1; a2; a3], AIfElse c1 c2 c3 => arg_rel φ s a1 c1 /\ arg_rel φ s a2 c2 /\ arg_rel φ s a3 c3
  | _, _, _ => False
  end.

Record sim (φ : emap) (ds : dstate) (s : tstate) : Prop := {
  sim_nodes : forall l nd, nassoc l (ds_nodes ds) = Some nd ->
                exists id r, zassoc l φ = Some id /\ lookup id (store s) = Some r /\ node_rel φ s nd r;
  sim_inj : forall l l' id, zassoc l φ = Some id -> zassoc l' φ = Some id -> l = l';
  sim_dom : forall l id, zassoc l φ = Some id -> l < ds_next ds /\ id <= counter s;
  sim_fresh : forall k r, lookup k (store s) = Some r -> k <= counter s
}.

(* the value a variable is bound to: an event's image, or a literal operation holding the exact value *)
Definition vrel (φ : emap) (s : tstate) (r : dref) (t : dty) (w : wrap) : Prop :=
  match r, t with
  | DN l, TS ty => fst ty <> MConst /\ exists id, w = WScalar ty (Some id) None /\ zassoc l φ = Some id
  | DL b v, TS ty => ty = (MConst, b) /\ exists id, w = WScalar (MConst, b) (Some id) (Some v) /\ lit_rec s id b v
  | _, _ => False
  end.

Definition env_rel (φ : emap) (s : tstate) (ρ : env) (dρ : denv) : Prop :=
  Forall2 (fun x a => fst x = fst a /\ exists w r t, snd x = BWrap w /\ snd a = BV r t /\ vrel φ s r t w) ρ dρ.

(* growth: the store only gains records under fresh ids, the map only gains fresh events *)
Definition grows (φ φ1 : emap) : Prop :=
  forall l id, zassoc l φ = Some id -> zassoc l φ1 = Some id.

Lemma lit_rec_ext s s1 c b v : ScalarInv.ext s s1 -> lit_rec s c b v -> lit_rec s1 c b v.
Proof.
  intros [E1 E2] [Hc (r & idx & Hl & Hn & Ht)]. split; [lia|]. exists r, idx. rewrite E2 by exact Hc. auto.
Qed.
Lemma arg_rel_ext φ φ1 s s1 a c : grows φ φ1 -> ScalarInv.ext s s1 -> arg_rel φ s a c -> arg_rel φ1 s1 a c.
Proof. intros Hg He. destruct a; simpl; [apply Hg | apply lit_rec_ext; exact He]. Qed.
Lemma node_rel_ext φ φ1 s s1 nd r : grows φ φ1 -> ScalarInv.ext s s1 -> node_rel φ s nd r -> node_rel φ1 s1 nd r.
Proof.
  intros Hg He. unfold node_rel.
  destruct (dn_kind nd); try tauto; destruct (dn_args nd) as [|a1 [|a2 [|a3 [|a4 l]]]]; try tauto;
    destruct (r_node r); try tauto; intros H; decompose [and] H; repeat split; eauto using arg_rel_ext.
Qed.
Lemma vrel_ext φ φ1 s s1 r t w : grows φ φ1 -> ScalarInv.ext s s1 -> vrel φ s r t w -> vrel φ1 s1 r t w.
Proof.
  intros Hg He. unfold vrel. destruct r, t; try tauto.
  - intros (Hc & id & -> & Hz). split; [exact Hc|]. exists id. split; [reflexivity | apply Hg; exact Hz].
  - intros (-> & id & -> & Hl). split; [reflexivity|]. exists id. split; [reflexivity | eapply lit_rec_ext; eauto].
Qed.
Lemma env_rel_ext φ φ1 s s1 ρ dρ : grows φ φ1 -> ScalarInv.ext s s1 -> env_rel φ s ρ dρ -> env_rel φ1 s1 ρ dρ.
Proof.
  intros Hg He H. unfold env_rel in *. induction H as [|x a r ar Hxa Hrest IH]; constructor; auto.
  destruct Hxa as [Hk (w & dr & t & Hw & Ha & Hv)]. split; [exact Hk|]. exists w, dr, t. repeat split; auto.
  eapply vrel_ext; eauto.
Qed.

Lemma env_rel_get φ s ρ dρ x r t : env_rel φ s ρ dρ -> assoc x dρ = Some (BV r t) ->
  exists w, assoc x ρ = Some (BWrap w) /\ vrel φ s r t w.
Proof.
  intros H. unfold env_rel in H. induction H as [|[k bd] [k' a] rr ar Hxa Hrest IH]; simpl; [discriminate|].
  destruct Hxa as [Hk (w & dr & dt & Hw & Ha & Hv)]. simpl in Hk, Hw, Ha. subst k'. destruct (String.eqb x k).
  - intros E. inversion E; subst. inversion H0; subst. exists w. auto.
  - exact IH.
Qed.

(* ---------------------------------------------------------------- the two kinds of step *)
Definition pushed (s : tstate) (id : Z) (rec : arec) (c1 : Z) (l1 : list string) : tstate :=
  {| counter := c1; store := (id, rec) :: store s; lits := l1 |}.

Lemma pushed_ext s id rec c1 l1 : counter s < id -> id <= c1 -> ScalarInv.ext s (pushed s id rec c1 l1).
Proof.
  intros H1 H2. split; simpl; [lia|]. intros i Hi.
  destruct (Z.eqb i id) eqn:E; [apply Z.eqb_eq in E; lia | reflexivity].
Qed.
Lemma pushed_lookup s id rec c1 l1 :
  lookup id (store (pushed s id rec c1 l1)) = Some {| r_id := id; r_ty := r_ty rec; r_node := r_node rec |}.
Proof. simpl. rewrite Z.eqb_refl. reflexivity. Qed.

Lemma grows_refl φ : grows φ φ.  Proof. intros l id H; exact H. Qed.

(* (A) a record pushed without a new event (a literal) *)
Lemma sim_push_plain φ ds s id rec c1 l1 :
  sim φ ds s -> counter s < id -> id <= c1 -> sim φ ds (pushed s id rec c1 l1).
Proof.
  intros [Hn Hi Hd Hf] H1 H2. pose proof (pushed_ext s id rec c1 l1 H1 H2) as He. constructor.
  - intros l nd Hl. destruct (Hn l nd Hl) as (i & r & Hz & Hlk & Hr). exists i, r. split; [exact Hz|].
    destruct (Hd l i Hz) as [_ Hb]. split; [destruct He as [_ E2]; rewrite E2 by exact Hb; exact Hlk|].
    eapply node_rel_ext; [apply grows_refl | exact He | exact Hr].
  - exact Hi.
  - intros l i Hz. destruct (Hd l i Hz). simpl. split; lia.
  - intros k r Hl. simpl in Hl |- *. destruct (Z.eqb k id) eqn:E; [apply Z.eqb_eq in E; lia | apply Hf in Hl; lia].
Qed.

(* (B) a record pushed for a new event *)
Definition add_event (ds : dstate) (k : dkind) (args : list dref) : dstate :=
  {| ds_next := ds_next ds + 1; ds_nodes := (ds_next ds, {| dn_kind := k; dn_args := args |}) :: ds_nodes ds;
     ds_funs := ds_funs ds |}.

Lemma node_run k args ds : node k args ds = Some (DN (ds_next ds), add_event ds k args).
Proof. reflexivity. Qed.

Lemma grows_cons φ ds id : (forall l i, zassoc l φ = Some i -> l < ds_next ds) -> grows φ ((ds_next ds, id) :: φ).
Proof.
  intros Hd l i Hz. simpl. destruct (Z.eqb l (ds_next ds)) eqn:E; [|exact Hz].
  apply Z.eqb_eq in E. specialize (Hd l i Hz). lia.
Qed.

Lemma sim_push_event φ ds s id rec c1 l1 k args :
  sim φ ds s -> counter s < id -> id <= c1 ->
  node_rel ((ds_next ds, id) :: φ) (pushed s id rec c1 l1) {| dn_kind := k; dn_args := args |}
           {| r_id := id; r_ty := r_ty rec; r_node := r_node rec |} ->
  (forall l nd, nassoc l (ds_nodes ds) = Some nd -> l < ds_next ds) ->
  sim ((ds_next ds, id) :: φ) (add_event ds k args) (pushed s id rec c1 l1).
Proof.
  intros [Hn Hi Hd Hf] H1 H2 Hnew Hlab. pose proof (pushed_ext s id rec c1 l1 H1 H2) as He.
  assert (Hg : grows φ ((ds_next ds, id) :: φ)) by (apply grows_cons; intros l i Hz; apply (Hd l i Hz)).
  constructor.
  - intros l nd Hl. cbn [add_event ds_nodes nassoc] in Hl. destruct (Z.eqb l (ds_next ds)) eqn:E.
    + apply Z.eqb_eq in E. subst l. inversion Hl; subst nd. exists id, {| r_id := id; r_ty := r_ty rec; r_node := r_node rec |}.
      split; [simpl; rewrite Z.eqb_refl; reflexivity|]. split; [apply pushed_lookup | exact Hnew].
    + destruct (Hn l nd Hl) as (i & r & Hz & Hlk & Hr). exists i, r. split; [apply Hg; exact Hz|].
      destruct (Hd l i Hz) as [_ Hb]. split; [destruct He as [_ E2]; rewrite E2 by exact Hb; exact Hlk|].
      eapply node_rel_ext; eauto.
  - intros l l' i Hz Hz'. simpl in Hz, Hz'.
    destruct (Z.eqb l (ds_next ds)) eqn:E; destruct (Z.eqb l' (ds_next ds)) eqn:E'.
    + apply Z.eqb_eq in E, E'. lia.
    + inversion Hz; subst i. destruct (Hd l' id Hz'). lia.
    + inversion Hz'; subst i. destruct (Hd l id Hz). lia.
    + eapply Hi; eauto.
  - intros l i Hz. simpl in Hz |- *. destruct (Z.eqb l (ds_next ds)) eqn:E.
    + apply Z.eqb_eq in E. inversion Hz; subst. lia.
    + destruct (Hd l i Hz). lia.
  - intros k0 r Hl. simpl in Hl |- *. destruct (Z.eqb k0 id) eqn:E; [apply Z.eqb_eq in E; lia | apply Hf in Hl; lia].
Qed.

(* labels of recorded events are below the next label *)
Definition labels_ok (ds : dstate) : Prop := forall l nd, nassoc l (ds_nodes ds) = Some nd -> l < ds_next ds.
Lemma labels_add ds k args : labels_ok ds -> labels_ok (add_event ds k args).
Proof.
  intros H l nd Hl. cbn [add_event ds_nodes ds_next nassoc] in Hl |- *. destruct (Z.eqb l (ds_next ds)) eqn:E.
  - apply Z.eqb_eq in E. lia.
  - specialize (H l nd Hl). lia.
Qed.

Lemma new_literal_shape b v s w s1 :
  new_literal b v s = Ok (w, s1) ->
  exists idx l1,
    s1 = pushed s (counter s + 1)
                {| r_id := counter s + 1; r_ty := TyName (mir_name (MConst, b));
                   r_node := ALiteral (lit_value_string b (lit_norm b v)) idx |} (counter s + 1) l1
    /\ w = WScalar (MConst, b) (Some (counter s + 1)) (Some (lit_norm b v)).
Proof.
  intros H. unfold new_literal, mbind, alloc, lit_index, put, ret in H. cbn [counter store lits] in H.
  match type of H with context [index_of ?k ?l 0] => destruct (index_of k l 0) end;
    inversion H; subst; clear H; eexists; eexists; split; reflexivity.
Qed.

Lemma lit_rec_pushed s b v idx l1 :
  lit_rec (pushed s (counter s + 1) {| r_id := counter s + 1; r_ty := TyName (mir_name (MConst, b));
                                       r_node := ALiteral (lit_value_string b v) idx |} (counter s + 1) l1)
          (counter s + 1) b v.
Proof.
  split; [simpl; lia|].
  exists {| r_id := counter s + 1; r_ty := TyName (mir_name (MConst, b)); r_node := ALiteral (lit_value_string b v) idx |}, idx.
  split; [apply pushed_lookup|]. split; reflexivity.
Qed.
