(* C04, program level (scalar fragment): the tracer's operation store is a faithful image of the store-free
   denotation (Spec/Denote.v) of the program.  For EVERY program of the scalar fragment on which both the tracer and
   the denotation succeed there is an injective map from evaluation events to operation ids under which every
   event is recorded as the operation of the same kind (MIR name), with its operands in the written order, every
   literal operand as a Literal operation holding exactly its value, and every variable bound to the image of its
   denotation.  Simulation proved by induction over the statements; rule facts in C04Rules.v / C06Program.v. *)
From Coq Require Import ZArith List String Bool Lia.
From NadaV.PyMini Require Import PyMini.
From NadaV.Gen Require GenScalar.
From NadaV.Model Require Import Rules Corr Mir Surface Trace Compile.
From NadaV.Spec Require Import TypingSpec FoldSpec Denote.
From NadaV.Proofs Require Import Finite C02Proofs C06Proofs CompileProofs ScalarInv C02Rules C02Program C04Rules C06Program.
Import ListNotations.
Open Scope string_scope.
Open Scope Z_scope.
Open Scope list_scope.

Definition emap := list (Z * Z).       (* evaluation event -> operation id *)

Definition lit_rec (s : tstate) (c : Z) (b : base) (v : Z) : Prop :=
  c <= counter s /\ exists r idx, lookup c (store s) = Some r /\ r_node r = ALiteral (lit_value_string b v) idx
                                  /\ r_ty r = TyName (mir_name (MConst, b)).

Definition arg_rel (φ : emap) (s : tstate) (a : dref) (c : Z) : Prop :=
  match a with DN l => zassoc l φ = Some c | DL b v => lit_rec s c b v end.

Definition node_rel (φ : emap) (s : tstate) (nd : dnode) (r : arec) : Prop :=
  match dn_kind nd, dn_args nd, r_node r with
  | KInput n, [], AInput n' _ _ => n = n'
  | KRandom, [], ARandom => True
  | KOp name, [a1; a2], ABinary name' c1 c2 => name = name' /\ arg_rel φ s a1 c1 /\ arg_rel φ s a2 c2
  | KOp name, [a1], AUnary name' c1 => name = name' /\ arg_rel φ s a1 c1
  | KIfElse, [a1; a2; a3], AIfElse c1 c2 c3 => arg_rel φ s a1 c1 /\ arg_rel φ s a2 c2 /\ arg_rel φ s a3 c3
  | _, _, _ => False
  end.

Record sim (φ : emap) (ds : dstate) (s : tstate) : Prop := {
  sim_nodes : forall l nd, nassoc l (ds_nodes ds) = Some nd ->
                exists id r, zassoc l φ = Some id /\ lookup id (store s) = Some r /\ node_rel φ s nd r;
  sim_inj : forall l l' id, zassoc l φ = Some id -> zassoc l' φ = Some id -> l = l';
  sim_dom : forall l id, zassoc l φ = Some id -> l < ds_next ds /\ id <= counter s;
  sim_fresh : forall k r, lookup k (store s) = Some r -> k <= counter s
}.

(* the value a variable is bound to: an event's image, or a literal operation holding the exact value *)
Definition vrel (φ : emap) (s : tstate) (r : dref) (t : dty) (w : wrap) : Prop :=
  match r, t with
  | DN l, TS ty => fst ty <> MConst /\ exists id, w = WScalar ty (Some id) None /\ zassoc l φ = Some id
  | DL b v, TS ty => ty = (MConst, b) /\ exists id, w = WScalar (MConst, b) (Some id) (Some v) /\ lit_rec s id b v
  | _, _ => False
  end.

Definition env_rel (φ : emap) (s : tstate) (ρ : env) (dρ : denv) : Prop :=
  Forall2 (fun x a => fst x = fst a /\ exists w r t, snd x = BWrap w /\ snd a = BV r t /\ vrel φ s r t w) ρ dρ.

(* growth: the store only gains records under fresh ids, the map only gains fresh events *)
Definition grows (φ φ1 : emap) : Prop :=
  forall l id, zassoc l φ = Some id -> zassoc l φ1 = Some id.

Lemma lit_rec_ext s s1 c b v : ScalarInv.ext s s1 -> lit_rec s c b v -> lit_rec s1 c b v.
Proof.
  intros [E1 E2] [Hc (r & idx & Hl & Hn & Ht)]. split; [lia|]. exists r, idx. rewrite E2 by exact Hc. auto.
Qed.
Lemma arg_rel_ext φ φ1 s s1 a c : grows φ φ1 -> ScalarInv.ext s s1 -> arg_rel φ s a c -> arg_rel φ1 s1 a c.
Proof. intros Hg He. destruct a; simpl; [apply Hg | apply lit_rec_ext; exact He]. Qed.
Lemma node_rel_ext φ φ1 s s1 nd r : grows φ φ1 -> ScalarInv.ext s s1 -> node_rel φ s nd r -> node_rel φ1 s1 nd r.
Proof.
  intros Hg He. unfold node_rel.
  destruct (dn_kind nd); try tauto; destruct (dn_args nd) as [|a1 [|a2 [|a3 [|a4 l]]]]; try tauto;
    destruct (r_node r); try tauto; intros H; decompose [and] H; repeat split; eauto using arg_rel_ext.
Qed.
Lemma vrel_ext φ φ1 s s1 r t w : grows φ φ1 -> ScalarInv.ext s s1 -> vrel φ s r t w -> vrel φ1 s1 r t w.
Proof.
  intros Hg He. unfold vrel. destruct r, t; try tauto.
  - intros (Hc & id & -> & Hz). split; [exact Hc|]. exists id. split; [reflexivity | apply Hg; exact Hz].
  - intros (-> & id & -> & Hl). split; [reflexivity|]. exists id. split; [reflexivity | eapply lit_rec_ext; eauto].
Qed.
Lemma env_rel_ext φ φ1 s s1 ρ dρ : grows φ φ1 -> ScalarInv.ext s s1 -> env_rel φ s ρ dρ -> env_rel φ1 s1 ρ dρ.
Proof.
  intros Hg He H. unfold env_rel in *. induction H as [|x a r ar Hxa Hrest IH]; constructor; auto.
  destruct Hxa as [Hk (w & dr & t & Hw & Ha & Hv)]. split; [exact Hk|]. exists w, dr, t. repeat split; auto.
  eapply vrel_ext; eauto.
Qed.

Lemma env_rel_get φ s ρ dρ x r t : env_rel φ s ρ dρ -> assoc x dρ = Some (BV r t) ->
  exists w, assoc x ρ = Some (BWrap w) /\ vrel φ s r t w.
Proof.
  intros H. unfold env_rel in H. induction H as [|[k bd] [k' a] rr ar Hxa Hrest IH]; simpl; [discriminate|].
  destruct Hxa as [Hk (w & dr & dt & Hw & Ha & Hv)]. simpl in Hk, Hw, Ha. subst k'. destruct (String.eqb x k).
  - intros E. inversion E; subst. inversion H0; subst. exists w. auto.
  - exact IH.
Qed.

(* ---------------------------------------------------------------- the two kinds of step *)
Definition pushed (s : tstate) (id : Z) (rec : arec) (c1 : Z) (l1 : list string) : tstate :=
  {| counter := c1; store := (id, rec) :: store s; lits := l1 |}.

Lemma pushed_ext s id rec c1 l1 : counter s < id -> id <= c1 -> ScalarInv.ext s (pushed s id rec c1 l1).
Proof.
  intros H1 H2. split; simpl; [lia|]. intros i Hi.
  destruct (Z.eqb i id) eqn:E; [apply Z.eqb_eq in E; lia | reflexivity].
Qed.
Lemma pushed_lookup s id rec c1 l1 :
  lookup id (store (pushed s id rec c1 l1)) = Some {| r_id := id; r_ty := r_ty rec; r_node := r_node rec |}.
Proof. simpl. rewrite Z.eqb_refl. reflexivity. Qed.

Lemma grows_refl φ : grows φ φ.  Proof. intros l id H; exact H. Qed.

(* (A) a record pushed without a new event (a literal) *)
Lemma sim_push_plain φ ds s id rec c1 l1 :
  sim φ ds s -> counter s < id -> id <= c1 -> sim φ ds (pushed s id rec c1 l1).
Proof.
  intros [Hn Hi Hd Hf] H1 H2. pose proof (pushed_ext s id rec c1 l1 H1 H2) as He. constructor.
  - intros l nd Hl. destruct (Hn l nd Hl) as (i & r & Hz & Hlk & Hr). exists i, r. split; [exact Hz|].
    destruct (Hd l i Hz) as [_ Hb]. split; [destruct He as [_ E2]; rewrite E2 by exact Hb; exact Hlk|].
    eapply node_rel_ext; [apply grows_refl | exact He | exact Hr].
  - exact Hi.
  - intros l i Hz. destruct (Hd l i Hz). simpl. split; lia.
  - intros k r Hl. simpl in Hl |- *. destruct (Z.eqb k id) eqn:E; [apply Z.eqb_eq in E; lia | apply Hf in Hl; lia].
Qed.

(* (B) a record pushed for a new event *)
Definition add_event (ds : dstate) (k : dkind) (args : list dref) : dstate :=
  {| ds_next := ds_next ds + 1; ds_nodes := (ds_next ds, {| dn_kind := k; dn_args := args |}) :: ds_nodes ds;
     ds_funs := ds_funs ds |}.

Lemma node_run k args ds : node k args ds = Some (DN (ds_next ds), add_event ds k args).
Proof. reflexivity. Qed.

Lemma grows_cons φ ds id : (forall l i, zassoc l φ = Some i -> l < ds_next ds) -> grows φ ((ds_next ds, id) :: φ).
Proof.
  intros Hd l i Hz. simpl. destruct (Z.eqb l (ds_next ds)) eqn:E; [|exact Hz].
  apply Z.eqb_eq in E. specialize (Hd l i Hz). lia.
Qed.

Lemma sim_push_event φ ds s id rec c1 l1 k args :
  sim φ ds s -> counter s < id -> id <= c1 ->
  node_rel ((ds_next ds, id) :: φ) (pushed s id rec c1 l1) {| dn_kind := k; dn_args := args |}
           {| r_id := id; r_ty := r_ty rec; r_node := r_node rec |} ->
  (forall l nd, nassoc l (ds_nodes ds) = Some nd -> l < ds_next ds) ->
  sim ((ds_next ds, id) :: φ) (add_event ds k args) (pushed s id rec c1 l1).
Proof.
  intros [Hn Hi Hd Hf] H1 H2 Hnew Hlab. pose proof (pushed_ext s id rec c1 l1 H1 H2) as He.
  assert (Hg : grows φ ((ds_next ds, id) :: φ)) by (apply grows_cons; intros l i Hz; apply (Hd l i Hz)).
  constructor.
  - intros l nd Hl. cbn [add_event ds_nodes nassoc] in Hl. destruct (Z.eqb l (ds_next ds)) eqn:E.
    + apply Z.eqb_eq in E. subst l. inversion Hl; subst nd. exists id, {| r_id := id; r_ty := r_ty rec; r_node := r_node rec |}.
      split; [simpl; rewrite Z.eqb_refl; reflexivity|]. split; [apply pushed_lookup | exact Hnew].
    + destruct (Hn l nd Hl) as (i & r & Hz & Hlk & Hr). exists i, r. split; [apply Hg; exact Hz|].
      destruct (Hd l i Hz) as [_ Hb]. split; [destruct He as [_ E2]; rewrite E2 by exact Hb; exact Hlk|].
      eapply node_rel_ext; eauto.
  - intros l l' i Hz Hz'. simpl in Hz, Hz'.
    destruct (Z.eqb l (ds_next ds)) eqn:E; destruct (Z.eqb l' (ds_next ds)) eqn:E'.
    + apply Z.eqb_eq in E, E'. lia.
    + inversion Hz; subst i. destruct (Hd l' id Hz'). lia.
    + inversion Hz'; subst i. destruct (Hd l id Hz). lia.
    + eapply Hi; eauto.
  - intros l i Hz. simpl in Hz |- *. destruct (Z.eqb l (ds_next ds)) eqn:E.
    + apply Z.eqb_eq in E. inversion Hz; subst. lia.
    + destruct (Hd l i Hz). lia.
  - intros k0 r Hl. simpl in Hl |- *. destruct (Z.eqb k0 id) eqn:E; [apply Z.eqb_eq in E; lia | apply Hf in Hl; lia].
Qed.

(* labels of recorded events are below the next label *)
Definition labels_ok (ds : dstate) : Prop := forall l nd, nassoc l (ds_nodes ds) = Some nd -> l < ds_next ds.
Lemma labels_add ds k args : labels_ok ds -> labels_ok (add_event ds k args).
Proof.
  intros H l nd Hl. cbn [add_event ds_nodes ds_next nassoc] in Hl |- *. destruct (Z.eqb l (ds_next ds)) eqn:E.
  - apply Z.eqb_eq in E. lia.
  - specialize (H l nd Hl). lia.
Qed.

Lemma new_literal_shape b v s w s1 :
  new_literal b v s = Ok (w, s1) ->
  exists idx l1,
    s1 = pushed s (counter s + 1)
                {| r_id := counter s + 1; r_ty := TyName (mir_name (MConst, b));
                   r_node := ALiteral (lit_value_string b (lit_norm b v)) idx |} (counter s + 1) l1
    /\ w = WScalar (MConst, b) (Some (counter s + 1)) (Some (lit_norm b v)).
Proof.
  intros H. unfold new_literal, mbind, alloc, lit_index, put, ret in H. cbn [counter store lits] in H.
  match type of H with context [index_of ?k ?l 0] => destruct (index_of k l 0) end;
    inversion H; subst; clear H; eexists; eexists; split; reflexivity.
Qed.

Lemma lit_rec_pushed s b v idx l1 :
  lit_rec (pushed s (counter s + 1) {| r_id := counter s + 1; r_ty := TyName (mir_name (MConst, b));
                                       r_node := ALiteral (lit_value_string b v) idx |} (counter s + 1) l1)
          (counter s + 1) b v.
Proof.
  split; [simpl; lia|].
  exists {| r_id := counter s + 1; r_ty := TyName (mir_name (MConst, b)); r_node := ALiteral (lit_value_string b v) idx |}, idx.
  split; [apply pushed_lookup|]. split; reflexivity.
Qed.

(* ---------------------------------------------------------------- shapes of the emitting paths *)
Lemma emit_shape t n s w s1 :
  (mdo id <- alloc; emit_scalar t id (n id)) s = Ok (w, s1) -> fst t <> MConst ->
  s1 = pushed s (counter s + 1) {| r_id := counter s + 1; r_ty := TyName (mir_name t); r_node := n (counter s + 1) |}
              (counter s + 1) (lits s)
  /\ w = WScalar t (Some (counter s + 1)) None.
Proof.
  intros H Hc. unfold mbind, alloc, emit_scalar, put, ret, fail in H. cbn [counter store lits] in H.
  destruct t as [m b]. destruct m; cbn [fst] in H, Hc; try congruence; inversion H; subst; split; reflexivity.
Qed.

Lemma emit2_shape t n x y s w s1 :
  (mdo id <- alloc; mdo l <- need_id x; mdo r <- need_id y; emit_scalar t id (n l r)) s = Ok (w, s1) -> fst t <> MConst ->
  exists i j, wid x = Some i /\ wid y = Some j
    /\ s1 = pushed s (counter s + 1) {| r_id := counter s + 1; r_ty := TyName (mir_name t); r_node := n i j |}
                   (counter s + 1) (lits s)
    /\ w = WScalar t (Some (counter s + 1)) None.
Proof.
  intros H Hc. destruct (wid x) as [i|] eqn:Ex; [destruct (wid y) as [j|] eqn:Ey|].
  - exists i, j. split; [reflexivity|]. split; [reflexivity|].
    apply (emit_shape t (fun _ => n i j) s w s1); [|exact Hc].
    unfold mbind in *. unfold alloc in *. rewrite !need_id_run, Ex in H. rewrite need_id_run, Ey in H. exact H.
  - unfold mbind, alloc in H. rewrite !need_id_run, Ex in H. rewrite need_id_run, Ey in H. discriminate H.
  - unfold mbind, alloc in H. rewrite need_id_run, Ex in H. discriminate H.
Qed.
Lemma emit1_shape t n x s w s1 :
  (mdo id <- alloc; mdo c <- need_id x; emit_scalar t id (n c)) s = Ok (w, s1) -> fst t <> MConst ->
  exists i, wid x = Some i
    /\ s1 = pushed s (counter s + 1) {| r_id := counter s + 1; r_ty := TyName (mir_name t); r_node := n i |}
                   (counter s + 1) (lits s)
    /\ w = WScalar t (Some (counter s + 1)) None.
Proof.
  intros H Hc. destruct (wid x) as [i|] eqn:Ex.
  - exists i. split; [reflexivity|]. apply (emit_shape t (fun _ => n i) s w s1); [|exact Hc].
    unfold mbind in *. unfold alloc in *. rewrite need_id_run, Ex in H. exact H.
  - unfold mbind, alloc in H. rewrite need_id_run, Ex in H. discriminate H.
Qed.
Lemma emit3_shape t n x y z s w s1 :
  (mdo id <- alloc; mdo a <- need_id x; mdo b' <- need_id y; mdo c <- need_id z; emit_scalar t id (n a b' c)) s = Ok (w, s1) ->
  fst t <> MConst ->
  exists i j k, wid x = Some i /\ wid y = Some j /\ wid z = Some k
    /\ s1 = pushed s (counter s + 1) {| r_id := counter s + 1; r_ty := TyName (mir_name t); r_node := n i j k |}
                   (counter s + 1) (lits s)
    /\ w = WScalar t (Some (counter s + 1)) None.
Proof.
  intros H Hc.
  destruct (wid x) as [i|] eqn:Ex; [destruct (wid y) as [j|] eqn:Ey; [destruct (wid z) as [k|] eqn:Ez|]|].
  - exists i, j, k. repeat (split; [reflexivity|]).
    apply (emit_shape t (fun _ => n i j k) s w s1); [|exact Hc].
    unfold mbind in *. unfold alloc in *. rewrite !need_id_run, Ex in H. rewrite !need_id_run, Ey in H. rewrite need_id_run, Ez in H. exact H.
  - unfold mbind, alloc in H. rewrite !need_id_run, Ex in H. rewrite !need_id_run, Ey in H. rewrite need_id_run, Ez in H. discriminate H.
  - unfold mbind, alloc in H. rewrite !need_id_run, Ex in H. rewrite need_id_run, Ey in H. discriminate H.
  - unfold mbind, alloc in H. rewrite need_id_run, Ex in H. discriminate H.
Qed.

(* the wrapper of a related value always has an id, below the counter *)
Lemma vrel_id φ ds s r t w : sim φ ds s -> vrel φ s r t w ->
  exists ty id v, t = TS ty /\ w = WScalar ty (Some id) v /\ id <= counter s /\ arg_rel φ s r id
                  /\ (match r with DN _ => fst ty <> MConst /\ v = None | DL b x => ty = (MConst, b) /\ v = Some x end).
Proof.
  intros Hs H. unfold vrel in H. destruct r, t; try contradiction.
  - destruct H as (Hc & id & -> & Hz). exists t, id, None.
    split; [reflexivity|]. split; [reflexivity|]. split; [destruct (sim_dom _ _ _ Hs _ _ Hz); lia|].
    split; [exact Hz|]. split; [exact Hc | reflexivity].
  - destruct H as (-> & id & -> & Hl). exists (MConst, b), id, (Some v).
    split; [reflexivity|]. split; [reflexivity|]. split; [destruct Hl; lia|].
    split; [exact Hl|]. split; reflexivity.
Qed.

Lemma principal_eq v : C02Rules.principal v = Denote.principal v.  Proof. reflexivity. Qed.

(* the literal part of Denote.dbin is the plain-arithmetic specification *)
Definition dlit (o : op) (ba : base) (x y : Z) : option (base * Z) :=
  match exact2 o ba x y with
  | Some r => Some r
  | None => match o with
            | ODiv => if y =? 0 then None else Some (ba, x / y)
            | OMod => if y =? 0 then None else Some (ba, x mod y)
            | _ => None
            end
  end.

Lemma dlit_exact_bin o ba bb x y t r :
  Denote.principal (spec2 o (MConst, ba) (MConst, bb)) = Some t -> dlit o ba x y = Some r -> exact_bin o ba bb x y = Some r.
Proof.
  intros Hp Hd. unfold exact_bin, dlit in *.
  destruct o, ba, bb; cbn [spec2 mode_max base_eqb numeric mode_eqb negb andb orb Denote.principal compat] in *;
    try discriminate Hp; try exact Hd; try discriminate Hd.
Qed.

(* ---------------------------------------------------------------- one simulation step *)
Definition step_sim (φ : emap) (s : tstate) (ds1 : dstate) (s1 : tstate) (r : dref) (t : dty) (w : wrap) : Prop :=
  exists φ1, grows φ φ1 /\ ScalarInv.ext s s1 /\ sim φ1 ds1 s1 /\ labels_ok ds1 /\ vrel φ1 s1 r t w.

(* a new event recorded as a new operation *)
Lemma event_step φ ds s k args nd t w s1 :
  sim φ ds s -> labels_ok ds -> fst t <> MConst ->
  s1 = pushed s (counter s + 1) {| r_id := counter s + 1; r_ty := TyName (mir_name t); r_node := nd |} (counter s + 1) (lits s) ->
  w = WScalar t (Some (counter s + 1)) None ->
  (forall φ1 s', grows φ φ1 -> ScalarInv.ext s s' ->
     node_rel φ1 s' {| dn_kind := k; dn_args := args |} {| r_id := counter s + 1; r_ty := TyName (mir_name t); r_node := nd |}) ->
  step_sim φ s (add_event ds k args) s1 (DN (ds_next ds)) (TS t) w.
Proof.
  intros Hs Hl Hc -> -> Hn.
  set (rec := {| r_id := counter s + 1; r_ty := TyName (mir_name t); r_node := nd |}).
  assert (Hg : grows φ ((ds_next ds, counter s + 1) :: φ)).
  { apply grows_cons. intros l i Hz. apply (sim_dom _ _ _ Hs l i Hz). }
  assert (He : ScalarInv.ext s (pushed s (counter s + 1) rec (counter s + 1) (lits s))) by (apply pushed_ext; lia).
  exists ((ds_next ds, counter s + 1) :: φ). split; [exact Hg|]. split; [exact He|]. split.
  - apply sim_push_event; [exact Hs | lia | lia | apply Hn; assumption | exact Hl].
  - split; [apply labels_add; exact Hl|].
    simpl. split; [exact Hc|]. exists (counter s + 1). split; [reflexivity|]. rewrite Z.eqb_refl. reflexivity.
Qed.

(* a literal result recorded as a new Literal operation *)
Lemma literal_step φ ds s b v z w s1 t :
  sim φ ds s -> labels_ok ds -> new_literal b z s = Ok (w, s1) -> lit_norm b z = v -> t = (MConst, b) ->
  step_sim φ s ds s1 (DL b v) (TS t) w.
Proof.
  intros Hs Hl H Hv ->. destruct (new_literal_shape _ _ _ _ _ H) as (idx & l1 & -> & ->). rewrite Hv.
  exists φ. split; [apply grows_refl|]. split; [apply pushed_ext; lia|]. split; [apply sim_push_plain; [exact Hs | lia | lia]|].
  split; [exact Hl|]. simpl. split; [reflexivity|]. exists (counter s + 1). split; [reflexivity|]. apply lit_rec_pushed.
Qed.

Lemma dbin_lit_inv o ba x bb y t ds res ds1 :
  dbin o (DL ba x, TS (MConst, ba)) (DL bb y, TS (MConst, bb)) ds = Some (res, ds1) ->
  Denote.principal (spec2 o (MConst, ba) (MConst, bb)) = Some t ->
  exists rb v, dlit o ba x y = Some (rb, v) /\ res = (DL rb v, TS t) /\ ds1 = ds.
Proof.
  intros H Hp. unfold dbin in H. cbn [snd fst] in H. rewrite Hp in H. unfold dlit.
  destruct (exact2 o ba x y) as [[rb v]|] eqn:Ee.
  - unfold dret in H. inversion H; subst. eauto.
  - destruct o; try discriminate H; (destruct (y =? 0); [discriminate H|]); unfold dret in H; inversion H; subst; eauto.
Qed.

Lemma lit_true b : lit (MConst, b) = true.  Proof. reflexivity. Qed.
Lemma lit_false t : fst t <> MConst -> lit t = false.
Proof. unfold lit. destruct (fst t); simpl; congruence. Qed.

Lemma dbin_sim φ ds s o ra ta rb tb wa wb w s1 res ds1 :
  sim φ ds s -> labels_ok ds -> vrel φ s ra ta wa -> vrel φ s rb tb wb ->
  do_binop G o wa wb s = Ok (w, s1) -> dbin o (ra, ta) (rb, tb) ds = Some (res, ds1) ->
  step_sim φ s ds1 s1 (fst res) (snd res) w.
Proof.
  intros Hs Hl Ha Hb H Hd.
  destruct (vrel_id _ _ _ _ _ _ Hs Ha) as (tya & ida & va & -> & -> & Hia & Haa & Hka).
  destruct (vrel_id _ _ _ _ _ _ Hs Hb) as (tyb & idb & vb & -> & -> & Hib & Hab & Hkb).
  assert (Hp : exists t, Denote.principal (spec2 o tya tyb) = Some t).
  { unfold dbin in Hd. cbn [snd fst] in Hd. destruct (Denote.principal (spec2 o tya tyb)); [eauto | discriminate Hd]. }
  destruct Hp as (t & Hp).
  pose proof (bin_sim_all o tya tyb (value_of (WScalar tya (Some ida) va)) (value_of (WScalar tyb (Some idb) vb))) as Hspec.
  assert (Hnode : lit tya && lit tyb = false ->
                  step_sim φ s (add_event ds (KOp (opname o)) [ra; rb]) s1 (DN (ds_next ds)) (TS t) w).
  { intros Hlit. unfold do_binop in H.
    destruct (rule2v G o tya tyb (value_of (WScalar tya (Some ida) va)) (value_of (WScalar tyb (Some idb) vb)))
      as [e | t0 v0 | name t0 roles | k | e | e]; cbn [bin_sim] in Hspec; try discriminate H; try contradiction.
    - destruct Hspec as (_ & _ & _ & Hl2). rewrite Hlit in Hl2. discriminate Hl2.
    - destruct Hspec as (Hr & Hc & Hn & Hp2 & _). subst roles name. rewrite principal_eq, Hp in Hp2. inversion Hp2; subst t0.
      rewrite pick_left, pick_right in H.
      destruct (emit2_shape _ (fun l r => ABinary (opname o) l r) _ _ _ _ _ H Hc) as (i & j & Ei & Ej & Es1 & Ew).
      cbn [wid] in Ei, Ej. inversion Ei; inversion Ej; subst i j.
      eapply event_step; [exact Hs | exact Hl | exact Hc | exact Es1 | exact Ew |].
      intros φ1 s' Hg He. simpl. split; [reflexivity|]. split; eapply arg_rel_ext; eauto. }
  destruct ra as [la | ba x]; destruct rb as [lb | bb y].
  - destruct Hka as [Hca _]. unfold dbin in Hd. cbn [snd fst] in Hd. rewrite Hp in Hd. unfold dbind_ in Hd. rewrite node_run in Hd.
    unfold dret in Hd. inversion Hd; subst res ds1. apply Hnode. rewrite (lit_false _ Hca). reflexivity.
  - destruct Hka as [Hca _]. unfold dbin in Hd. cbn [snd fst] in Hd. rewrite Hp in Hd. unfold dbind_ in Hd. rewrite node_run in Hd.
    unfold dret in Hd. inversion Hd; subst res ds1. apply Hnode. rewrite (lit_false _ Hca). reflexivity.
  - destruct Hkb as [Hcb _]. unfold dbin in Hd. cbn [snd fst] in Hd. rewrite Hp in Hd. unfold dbind_ in Hd. rewrite node_run in Hd.
    unfold dret in Hd. inversion Hd; subst res ds1. apply Hnode. rewrite (lit_false _ Hcb). apply andb_false_r.
  - (* both literal *)
    destruct Hka as [-> ->]. destruct Hkb as [-> ->].
    destruct (dbin_lit_inv _ _ _ _ _ _ _ _ _ Hd Hp) as (rb0 & v & Hdl & -> & ->).
    pose proof (dlit_exact_bin _ _ _ _ _ _ _ Hp Hdl) as He.
    destruct (fold_exact_all _ _ _ _ _ _ _ He) as (val & Hr & Hz).
    unfold do_binop in H. cbn [value_of] in H, Hspec. unfold L in Hr. rewrite Hr in H, Hspec. cbn [bin_sim] in Hspec.
    destruct Hspec as (_ & _ & Hp2 & _). rewrite principal_eq, Hp in Hp2. inversion Hp2; subst t.
    rewrite Hz in H. cbn [snd fst] in H |- *.
    eapply literal_step; [exact Hs | exact Hl | exact H | eapply exact_bin_norm; eauto | reflexivity].
Qed.

Lemma getv_inv (dρ : denv) x ds res ds1 : getv dρ x ds = Some (res, ds1) -> ds1 = ds /\ assoc x dρ = Some (BV (fst res) (snd res)).
Proof.
  unfold getv. destruct (assoc x dρ) as [[r t | l rt]|]; try discriminate.
  unfold dret. intros H. inversion H; subst. auto.
Qed.

Lemma get_both φ s ρ dρ x ds res ds1 :
  env_rel φ s ρ dρ -> getv dρ x ds = Some (res, ds1) ->
  ds1 = ds /\ exists w, get_wrap ρ x s = Ok (w, s) /\ vrel φ s (fst res) (snd res) w.
Proof.
  intros He H. destruct (getv_inv _ _ _ _ _ H) as [-> Ha]. split; [reflexivity|].
  destruct (env_rel_get _ _ _ _ _ _ _ He Ha) as (w & Hw & Hv). exists w. split; [|exact Hv].
  unfold get_wrap. rewrite Hw. reflexivity.
Qed.

Lemma step_sim_same φ ds s r t w : sim φ ds s -> labels_ok ds -> vrel φ s r t w -> step_sim φ s ds s r t w.
Proof. intros Hs Hl Hv. exists φ. split; [apply grows_refl|]. split; [apply ScalarInv.ext_refl|]. auto. Qed.

(* one statement of the scalar fragment *)
Lemma rhs_sim φ ds s ρ dρ r w s1 res ds1 :
  eval_rhs G ρ r s = Ok (w, s1) -> drhs dρ r ds = Some (res, ds1) -> in_fragment r = true ->
  sim φ ds s -> labels_ok ds -> env_rel φ s ρ dρ ->
  step_sim φ s ds1 s1 (fst res) (snd res) w.
Proof.
  intros H Hd Hfr Hs Hl He. destruct r; try discriminate Hfr.
  - (* RLit *)
    cbn [drhs] in Hd. unfold dret in Hd. inversion Hd; subst. cbn [eval_rhs fst snd] in H |- *.
    eapply literal_step; [exact Hs | exact Hl | exact H | reflexivity | reflexivity].
  - (* RInput *)
    destruct t as [[m b0]|elt sz]; [|discriminate Hfr].
    cbn [drhs] in Hd. unfold dbind_ in Hd. rewrite node_run in Hd. unfold dret in Hd. inversion Hd; subst. cbn [fst snd dty_of_ity].
    cbn [eval_rhs mk_input] in H. destruct m; unfold mbind, alloc, put, ret, fail in H; cbn [counter store lits] in H;
      try discriminate H; inversion H; subst;
      (eapply (event_step φ ds s (KInput name) [] (AInput name party doc) (_, b0)); [exact Hs | exact Hl | discriminate | reflexivity | reflexivity |]);
      intros φ1 s' _ _; reflexivity.
  - (* RRandom *)
    cbn [drhs] in Hd. unfold dbind_ in Hd. rewrite node_run in Hd. unfold dret in Hd. inversion Hd; subst. cbn [fst snd].
    cbn [eval_rhs] in H.
    destruct (emit_shape (MSecret, b) (fun _ => ARandom) s w s1 H) as [Es Ew]; [discriminate|].
    eapply (event_step φ ds s KRandom [] ARandom (MSecret, b)); [exact Hs | exact Hl | discriminate | exact Es | exact Ew |].
    intros φ1 s' _ _. exact I.
  - (* RBin *)
    cbn [drhs] in Hd. unfold dbind_ in Hd.
    destruct (getv dρ a ds) as [[xa dsa]|] eqn:Ga; [|discriminate Hd].
    destruct (get_both _ _ _ _ _ _ _ _ He Ga) as (-> & wa & Hga & Hva).
    destruct (getv dρ b ds) as [[xb dsb]|] eqn:Gb; [|discriminate Hd].
    destruct (get_both _ _ _ _ _ _ _ _ He Gb) as (-> & wb & Hgb & Hvb).
    cbn [eval_rhs] in H. unfold mbind in H. rewrite Hga, Hgb in H.
    destruct xa as [ra ta]. destruct xb as [rb tb]. cbn [fst snd] in Hva, Hvb.
    exact (dbin_sim φ ds s o ra ta rb tb wa wb w s1 res ds1 Hs Hl Hva Hvb H Hd).
  - (* RNot *)
    cbn [drhs] in Hd. unfold dbind_ in Hd.
    destruct (getv dρ a ds) as [[xa dsa]|] eqn:Ga; [|discriminate Hd].
    destruct (get_both _ _ _ _ _ _ _ _ He Ga) as (-> & wa & Hga & Hva).
    cbn [eval_rhs] in H. unfold mbind in H. rewrite Hga in H.
    destruct xa as [ra ta]. cbn [fst snd] in Hva.
    destruct (vrel_id _ _ _ _ _ _ Hs Hva) as (tya & ida & va & -> & -> & Hia & Haa & Hka).
    pose proof (un_sim_all UInvert tya (value_of (WScalar tya (Some ida) va))) as Hspec.
    unfold do_unop in H.
    destruct ra as [la | ba x].
    + (* an event: a Not operation *)
      destruct Hka as [Hca ->]. cbn [fst snd] in Hd. rewrite node_run in Hd. unfold dret in Hd. inversion Hd; subst. cbn [fst snd].
      destruct (classify (dispatch_method G "__invert__" (operand tya (value_of (WScalar tya (Some ida) None)) 0) []))
        as [e | t0 v0 | name t0 roles | k | e | e]; cbn [un_sim] in Hspec; try discriminate H.
      * destruct Hspec as (_ & _ & _ & Hl2). rewrite (lit_false _ Hca) in Hl2. discriminate Hl2.
      * destruct Hspec as (Hr & Hc & Hp & _ & Hn). subst roles name. rewrite pick_child in H.
        destruct (emit1_shape _ (fun c => AUnary "Not" c) _ _ _ _ H Hc) as (i & Ei & Es1 & Ew). cbn [wid] in Ei. inversion Ei; subst i.
        assert (t0 = tya). { unfold spec1 in Hp. destruct (base_eqb (snd tya) BBool); inversion Hp; reflexivity. } subst t0.
        eapply event_step; [exact Hs | exact Hl | exact Hc | exact Es1 | exact Ew |].
        intros φ1 s' Hg He'. simpl. split; [reflexivity|]. eapply arg_rel_ext; eauto.
      * exfalso. unfold spec1 in Hspec. destruct (base_eqb (snd tya) BBool); discriminate Hspec.
    + (* a literal: folded *)
      destruct Hka as [-> ->]. cbn [value_of] in H, Hspec.
      destruct ba.
      * (* boolean literal *)
        cbn [fst snd] in Hd. unfold dret in Hd. inversion Hd; subst. cbn [fst snd].
        pose proof (fold_not x) as Hn. unfold L in Hn. unfold G in H. rewrite Hn in H. cbn [z_of_value snd] in H.
        eapply literal_step; [exact Hs | exact Hl | exact H | | reflexivity].
        unfold tb. simpl. destruct (x =? 0); reflexivity.
      * (* ~ on an integer literal: the denotation makes an event, the tracer rejects or folds; excluded by the rules *)
        cbn [fst snd] in Hd. rewrite node_run in Hd. unfold dret in Hd. inversion Hd; subst.
        destruct (classify (dispatch_method G "__invert__" (operand (MConst, BInt) x 0) [])) as [e | t0 v0 | name t0 roles | k | e | e];
          cbn [un_sim] in Hspec; try discriminate H.
        -- destruct Hspec as (_ & _ & Hp & _). discriminate Hp.
        -- destruct Hspec as (_ & _ & Hp & _). discriminate Hp.
        -- discriminate Hspec.
      * cbn [fst snd] in Hd. rewrite node_run in Hd. unfold dret in Hd. inversion Hd; subst.
        destruct (classify (dispatch_method G "__invert__" (operand (MConst, BUInt) x 0) [])) as [e | t0 v0 | name t0 roles | k | e | e];
          cbn [un_sim] in Hspec; try discriminate H.
        -- destruct Hspec as (_ & _ & Hp & _). discriminate Hp.
        -- destruct Hspec as (_ & _ & Hp & _). discriminate Hp.
        -- discriminate Hspec.
  - (* RIfElse *)
    cbn [drhs] in Hd. unfold dbind_ in Hd.
    destruct (getv dρ c ds) as [[xc dsc]|] eqn:Gc; [|discriminate Hd].
    destruct (get_both _ _ _ _ _ _ _ _ He Gc) as (-> & wc & Hgc & Hvc).
    destruct (getv dρ a ds) as [[xa dsa]|] eqn:Ga; [|discriminate Hd].
    destruct (get_both _ _ _ _ _ _ _ _ He Ga) as (-> & wa & Hga & Hva).
    destruct (getv dρ b ds) as [[xb dsb]|] eqn:Gb; [|discriminate Hd].
    destruct (get_both _ _ _ _ _ _ _ _ He Gb) as (-> & wb & Hgb & Hvb).
    cbn [eval_rhs] in H. unfold mbind in H. rewrite Hgc, Hga, Hgb in H.
    destruct xc as [rc tc]. destruct xa as [ra ta]. destruct xb as [rb tb]. cbn [fst snd] in Hvc, Hva, Hvb.
    destruct (vrel_id _ _ _ _ _ _ Hs Hvc) as (tyc & idc & vc & -> & -> & Hic & Hac & Hkc).
    destruct (vrel_id _ _ _ _ _ _ Hs Hva) as (tya & ida & va & -> & -> & Hia & Haa & Hka).
    destruct (vrel_id _ _ _ _ _ _ Hs Hvb) as (tyb & idb & vb & -> & -> & Hib & Hab & Hkb).
    cbn [fst snd] in Hd. destruct (Denote.principal (spec_ifelse tyc tya tyb)) as [t|] eqn:Hp; [|discriminate Hd].
    rewrite node_run in Hd. unfold dret in Hd. inversion Hd; subst. cbn [fst snd].
    pose proof (if_sim_all tyc tya tyb) as Hspec. unfold do_ifelse in H.
    destruct (rule_ifelse G tyc tya tyb) as [e | t0 v0 | name t0 roles | k | e | e]; cbn [if_sim] in Hspec; try discriminate H.
    destruct Hspec as (Hr & Hc & Hp2 & Hn). subst roles name. rewrite Hp2 in Hp. inversion Hp; subst t0.
    rewrite pick_this, pick_arg0, pick_arg1 in H.
    destruct (emit3_shape _ (fun a b c => AIfElse a b c) _ _ _ _ _ _ H Hc) as (i & j & k & Ei & Ej & Ek & Es1 & Ew).
    cbn [wid] in Ei, Ej, Ek. inversion Ei; inversion Ej; inversion Ek; subst i j k.
    eapply event_step; [exact Hs | exact Hl | exact Hc | exact Es1 | exact Ew |].
    intros φ1 s' Hg He'. simpl. repeat split; eapply arg_rel_ext; eauto.
  - (* RToPublic *)
    cbn [drhs] in Hd. unfold dbind_ in Hd.
    destruct (getv dρ a ds) as [[xa dsa]|] eqn:Ga; [|discriminate Hd].
    destruct (get_both _ _ _ _ _ _ _ _ He Ga) as (-> & wa & Hga & Hva).
    cbn [eval_rhs] in H. unfold mbind in H. rewrite Hga in H.
    destruct xa as [ra ta]. cbn [fst snd] in Hva.
    destruct (vrel_id _ _ _ _ _ _ Hs Hva) as (tya & ida & va & -> & -> & Hia & Haa & Hka).
    pose proof (un_sim_all UToPublic tya (value_of (WScalar tya (Some ida) va))) as Hspec.
    unfold do_unop in H.
    destruct tya as [m b0]. destruct m.
    + (* a literal: to_public answers the value itself *)
      cbn [fst snd] in Hd. unfold dret in Hd. inversion Hd; subst. cbn [fst snd].
      destruct (classify (dispatch_method G "to_public" (operand (MConst, b0) (value_of (WScalar (MConst, b0) (Some ida) va)) 0) []))
        as [e | t0 v0 | name t0 roles | k | e | e]; cbn [un_sim] in Hspec; try discriminate H.
      * destruct Hspec as (_ & _ & Hp & _). discriminate Hp.
      * destruct Hspec as (_ & _ & Hp & _). discriminate Hp.
      * unfold ret in H. inversion H; subst. apply step_sim_same; assumption.
    + cbn [fst snd] in Hd. unfold dret in Hd. inversion Hd; subst. cbn [fst snd].
      destruct (classify (dispatch_method G "to_public" (operand (MPublic, b0) (value_of (WScalar (MPublic, b0) (Some ida) va)) 0) []))
        as [e | t0 v0 | name t0 roles | k | e | e]; cbn [un_sim] in Hspec; try discriminate H.
      * destruct Hspec as (_ & _ & Hp & _). discriminate Hp.
      * destruct Hspec as (_ & _ & Hp & _). discriminate Hp.
      * unfold ret in H. inversion H; subst. apply step_sim_same; assumption.
    + (* secret: a Reveal operation *)
      cbn [fst snd] in Hd. rewrite node_run in Hd. unfold dret in Hd. inversion Hd; subst. cbn [fst snd].
      destruct (classify (dispatch_method G "to_public" (operand (MSecret, b0) (value_of (WScalar (MSecret, b0) (Some ida) va)) 0) []))
        as [e | t0 v0 | name t0 roles | k | e | e]; cbn [un_sim] in Hspec; try discriminate H.
      * destruct Hspec as (Hc & _ & _ & Hl2). discriminate Hl2.
      * destruct Hspec as (Hr & Hc & Hp & _ & Hn). subst roles name. rewrite pick_child in H.
        destruct (emit1_shape _ (fun c => AUnary "Reveal" c) _ _ _ _ H Hc) as (i & Ei & Es1 & Ew). cbn [wid] in Ei. inversion Ei; subst i.
        assert (t0 = (MPublic, b0)) by (cbn in Hp; inversion Hp; reflexivity). subst t0.
        eapply event_step; [exact Hs | exact Hl | exact Hc | exact Es1 | exact Ew |].
        intros φ1 s' Hg He'. simpl. split; [reflexivity|]. eapply arg_rel_ext; eauto.
      * discriminate Hspec.
  - (* RRAdd *)
    cbn [drhs] in Hd. unfold dbind_ in Hd.
    destruct (getv dρ a ds) as [[xa dsa]|] eqn:Ga; [|discriminate Hd].
    destruct (get_both _ _ _ _ _ _ _ _ He Ga) as (-> & wa & Hga & Hva).
    cbn [eval_rhs] in H. unfold mbind at 1 in H. rewrite Hga in H.
    destruct xa as [ra ta]. cbn [fst snd] in Hva.
    destruct (vrel_id _ _ _ _ _ _ Hs Hva) as (tya & ida & va & -> & -> & Hia & Haa & Hka).
    cbn [fst snd] in Hd. destruct tya as [m b0].
    destruct (numeric_base b0) eqn:En; [|discriminate H].
    unfold mbind in H. destruct (new_literal b0 k s) as [[l s2]| |] eqn:El; try discriminate H.
    assert (Hn : lit_norm b0 k = k) by (destruct b0; simpl in *; try discriminate En; reflexivity).
    destruct (literal_step φ ds s b0 k k l s2 (MConst, b0) Hs Hl El Hn eq_refl) as (φ2 & Hg2 & He2 & Hs2 & Hl2 & Hvl).
    assert (Hva2 : vrel φ2 s2 ra (TS (m, b0)) (WScalar (m, b0) (Some ida) va)) by (eapply vrel_ext; eauto).
    destruct (dbin_sim φ2 ds s2 OAdd ra (TS (m, b0)) (DL b0 k) (TS (MConst, b0)) _ _ w s1 res ds1 Hs2 Hl2 Hva2 Hvl H Hd)
      as (φ3 & Hg3 & He3 & Hs3 & Hl3 & Hv3).
    exists φ3. split; [intros l0 i Hz; apply Hg3, Hg2, Hz|]. split; [eapply ScalarInv.ext_trans; eauto|]. auto.
Qed.

(* all statements *)
Lemma exec_sim : forall ss f1 f2 ρ dρ s ds φ ρ' s' dρ' ds',
  exec G f1 ρ ss s = Ok (ρ', s') -> dexec f2 dρ ss ds = Some (dρ', ds') -> scalar_fragment ss = true ->
  sim φ ds s -> labels_ok ds -> env_rel φ s ρ dρ ->
  exists φ', grows φ φ' /\ sim φ' ds' s' /\ labels_ok ds' /\ env_rel φ' s' ρ' dρ'.
Proof.
  induction ss as [|st ss IH]; intros f1 f2 ρ dρ s ds φ ρ' s' dρ' ds' H Hd Hfr Hs Hl He.
  - destruct f1; [discriminate H|]. destruct f2; [discriminate Hd|]. simpl in H, Hd.
    unfold ret in H. unfold dret in Hd. inversion H; inversion Hd; subst. exists φ. split; [apply grows_refl | auto].
  - destruct f1; [discriminate H|]. destruct f2; [discriminate Hd|].
    destruct st as [x r | f ps rt body res]; [|discriminate Hfr].
    cbn [scalar_fragment] in Hfr. apply andb_prop in Hfr. destruct Hfr as [Hr Hrest].
    cbn [exec] in H. unfold mbind in H. destruct (eval_rhs G ρ r s) as [[w s1]| |] eqn:Ev; try discriminate H.
    cbn [dexec] in Hd. unfold dbind_ in Hd. destruct (drhs dρ r ds) as [[v ds1]|] eqn:Dv; [|discriminate Hd].
    destruct (rhs_sim _ _ _ _ _ _ _ _ _ _ Ev Dv Hr Hs Hl He) as (φ1 & Hg1 & He1 & Hs1 & Hl1 & Hv1).
    assert (He' : env_rel φ1 s1 ((x, BWrap w) :: ρ) ((x, BV (fst v) (snd v)) :: dρ)).
    { constructor; [|eapply env_rel_ext; eauto]. split; [reflexivity|]. exists w, (fst v), (snd v). auto. }
    destruct (IH _ _ _ _ _ _ _ _ _ _ _ H Hd Hrest Hs1 Hl1 He') as (φ2 & Hg2 & Hs2 & Hl2 & He2).
    exists φ2. split; [intros l i Hz; apply Hg2, Hg1, Hz | auto].
Qed.

(* ---------------------------------------------------------------- the program-level statement *)
Definition ds0 : dstate := {| ds_next := 1; ds_nodes := []; ds_funs := [] |}.

Theorem store_is_a_faithful_image : forall ss f1 f2 ρ s dρ ds,
  exec G f1 [] ss init_state = Ok (ρ, s) -> dexec f2 [] ss ds0 = Some (dρ, ds) -> scalar_fragment ss = true ->
  exists φ, sim φ ds s /\ env_rel φ s ρ dρ.
Proof.
  intros ss f1 f2 ρ s dρ ds H Hd Hfr.
  assert (Hs0 : sim [] ds0 init_state).
  { constructor; simpl; intros; try discriminate. }
  assert (Hl0 : labels_ok ds0) by (intros l nd Hl; simpl in Hl; discriminate Hl).
  assert (He0 : env_rel [] init_state [] []) by constructor.
  destruct (exec_sim _ _ _ _ _ _ _ _ _ _ _ _ H Hd Hfr Hs0 Hl0 He0) as (φ & _ & Hs & _ & He). eauto.
Qed.
