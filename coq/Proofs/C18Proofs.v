(* C18: what the compile model puts in the MIR's interface tables, for every store and output list:
   outputs are emitted one for one and in order with the type recorded for their operation; every
   input and party listed comes from an Input operation in the store or from an output. *)
From Coq Require Import ZArith List String Bool Lia.
From NadaV.PyMini Require Import PyMini.
From NadaV.Model Require Import Rules Corr Mir Surface Trace Compile.
From NadaV.Proofs Require Import CompileProofs.
Import ListNotations.
Open Scope Z_scope.
Open Scope list_scope.

(* ---------------------------------------------------------------- outputs *)
Definition out_rel (st : list (Z * arec)) (co : cout) (mo : moutput) : Prop :=
  o_name mo = co_name co /\ o_party mo = co_party co /\ o_op mo = co_id co
  /\ exists rec, lookup (co_id co) st = Some rec /\ o_ty mo = r_ty rec.

Lemma outputs_loop_outs :
  forall outs st fs ops macc c ops' mouts fs' c',
    outputs_loop st fs outs ops macc c = Ok (ops', mouts, fs', c') ->
    exists l, mouts = macc ++ l /\ Forall2 (out_rel st) outs l.
Proof.
  induction outs as [|o outs IH]; intros st fs ops macc c ops' mouts fs' c' H; simpl in H.
  - inversion H; subst. exists []. split; [symmetry; apply app_nil_r | constructor].
  - destruct (traverse (store_fuel st) st fs [co_id o] ops [] c) as [[[ops1 extra1] c1]| |] eqn:Ht;
      simpl in H; try discriminate.
    destruct (lookup (co_id o) st) as [rec|] eqn:Hl; [|discriminate].
    destruct (IH _ _ _ _ _ _ _ _ _ H) as (l & -> & HF).
    eexists. split; [rewrite <- app_assoc; reflexivity|].
    constructor; [|exact HF].
    unfold out_rel; simpl. repeat split; auto. exists rec. auto.
Qed.

Theorem compile_outputs : forall st fs0 outs m fs',
  compile st fs0 outs = Ok (m, fs') -> Forall2 (out_rel st) outs (m_outputs m).
Proof.
  intros st fs0 outs m fs' H. unfold compile in H.
  destruct (outputs_loop st fs0 outs [] [] (empty_cstate fs0)) as [[[[ops mouts] fs1] c1]| |] eqn:Ho;
    cbn [bind] in H; try discriminate.
  destruct (functions_loop (S (List.length st)) st fs1 (rev fs1) [] c1) as [[[mfuns fs2] c2]| |] eqn:Hf;
    cbn [bind] in H; try discriminate.
  inversion H; subst; clear H. simpl.
  destruct (outputs_loop_outs _ _ _ _ _ _ _ _ _ _ Ho) as (l & -> & HF). exact HF.
Qed.

(* ---------------------------------------------------------------- inputs and parties *)
(* every registered input is an Input operation of the store, with the type recorded there *)
Definition inputs_from (st : list (Z * arec)) (c : cstate) : Prop :=
  forall pl n id ty doc, In pl (c_inputs c) -> In (n, (id, ty, doc)) (snd pl) ->
    exists r, lookup id st = Some r /\ r_node r = AInput n (fst pl) doc /\ r_ty r = ty.

(* every registered party owns an Input operation of the store or is one of [ps] (output parties) *)
Definition parties_from (st : list (Z * arec)) (ps : list string) (c : cstate) : Prop :=
  forall p, In p (c_parties c) ->
    In p ps \/ exists k r n doc, lookup k st = Some r /\ r_node r = AInput n p doc.

Lemma In_supdate {A} k (v : A) l x : In x (supdate k v l) -> x = (k, v) \/ In x l.
Proof.
  induction l as [|[k' v'] l IH]; simpl; intros H.
  - destruct H as [<- | []]. auto.
  - destruct (String.eqb k k').
    + destruct H as [<- | H]; auto.
    + destruct H as [<- | H]; auto. destruct (IH H); auto.
Qed.

Lemma sassoc_In {A} k (l : list (string * A)) v : sassoc k l = Some v -> In (k, v) l.
Proof.
  induction l as [|[k' v'] l IH]; simpl; intros H; [discriminate|].
  destruct (String.eqb k k') eqn:E.
  - apply String.eqb_eq in E. inversion H; subst. auto.
  - auto.
Qed.

Lemma In_sadd k l x : In x (sadd k l) -> x = k \/ In x l.
Proof.
  unfold sadd. destruct (smem k l); auto. intros H. apply in_app_or in H. destruct H as [H | [<- | []]]; auto.
Qed.

Lemma add_input_inv st ps r c c' :
  lookup (r_id r) st = Some r ->
  forall name party doc, r_node r = AInput name party doc ->
  add_input (r_id r) (r_ty r) name party doc c = Ok c' ->
  inputs_from st c -> parties_from st ps c -> inputs_from st c' /\ parties_from st ps c'.
Proof.
  intros Hl name party doc Hn H Hi Hp. unfold add_input in H.
  destruct (existsb _ (c_inputs c)); [discriminate|]. inversion H; subst; clear H. split.
  - intros pl n id ty d Hpl Hin. simpl in Hpl. apply In_supdate in Hpl. destruct Hpl as [-> | Hpl].
    + simpl in Hin. apply In_supdate in Hin. destruct Hin as [E | Hin].
      * inversion E; subst. exists r. simpl. auto.
      * destruct (sassoc party (c_inputs c)) as [pin|] eqn:Hs; [|destruct Hin].
        apply sassoc_In in Hs. exact (Hi _ _ _ _ _ Hs Hin).
    + exact (Hi _ _ _ _ _ Hpl Hin).
  - intros p Hin. simpl in Hin. apply In_sadd in Hin. destruct Hin as [-> | Hin]; [|auto].
    right. exists (r_id r), r, name, doc. auto.
Qed.

Lemma step_node_inv st ps fs k r extra c extra' c' :
  lookup k st = Some r ->
  step_node fs r extra c = Ok (extra', c') ->
  inputs_from st c -> parties_from st ps c -> inputs_from st c' /\ parties_from st ps c'.
Proof.
  intros Hl H Hi Hp. pose proof (store_ok_all st _ _ Hl) as Hid. subst k.
  unfold step_node in H. destruct (r_node r) eqn:Hn; try (inversion H; subst; auto; fail).
  destruct (add_input (r_id r) (r_ty r) name party doc c) as [c1| |] eqn:Ha; cbn [bind] in H; try discriminate.
  inversion H; subst. eapply add_input_inv; eauto.
Qed.

Lemma traverse_inv :
  forall fuel st ps fs stack ops extra c ops' extra' c',
    traverse fuel st fs stack ops extra c = Ok (ops', extra', c') ->
    inputs_from st c -> parties_from st ps c -> inputs_from st c' /\ parties_from st ps c'.
Proof.
  induction fuel as [|n IH]; intros st ps fs stack ops extra c ops' extra' c' H Hi Hp; simpl in H; [discriminate|].
  destruct stack as [|k rest]; [inversion H; subst; auto|].
  destruct (zmem k (map e_key ops)); [eapply IH; eauto|].
  destruct (lookup k st) as [r|] eqn:Hl; [|discriminate].
  destruct (step_node fs r extra c) as [[extra1 c1]| |] eqn:Hs; try discriminate.
  destruct (step_node_inv _ ps _ _ _ _ _ _ _ Hl Hs Hi Hp) as [Hi1 Hp1].
  eapply IH; eauto.
Qed.

Lemma outputs_loop_inv :
  forall outs st ps fs ops macc c ops' mouts fs' c',
    outputs_loop st fs outs ops macc c = Ok (ops', mouts, fs', c') ->
    incl (map co_party outs) ps ->
    inputs_from st c -> parties_from st ps c -> inputs_from st c' /\ parties_from st ps c'.
Proof.
  induction outs as [|o outs IH]; intros st ps fs ops macc c ops' mouts fs' c' H Hinc Hi Hp; simpl in H.
  - inversion H; subst. auto.
  - destruct (traverse (store_fuel st) st fs [co_id o] ops [] c) as [[[ops1 extra1] c1]| |] eqn:Ht;
      simpl in H; try discriminate.
    destruct (lookup (co_id o) st) as [rec|] eqn:Hl; [|discriminate].
    destruct (traverse_inv _ _ ps _ _ _ _ _ _ _ _ Ht Hi Hp) as [Hi1 Hp1].
    eapply IH; [exact H | | |].
    + intros x Hx. apply Hinc. right. exact Hx.
    + exact Hi1.
    + intros p Hin. simpl in Hin. apply In_sadd in Hin. destruct Hin as [-> | Hin]; [|auto].
      left. apply Hinc. left. reflexivity.
Qed.

Lemma functions_loop_inv :
  forall fuel st ps fs stack acc c mfuns fs' c',
    functions_loop fuel st fs stack acc c = Ok (mfuns, fs', c') ->
    inputs_from st c -> parties_from st ps c -> inputs_from st c' /\ parties_from st ps c'.
Proof.
  induction fuel as [|n IH]; intros st ps fs stack acc c mfuns fs' c' H Hi Hp; simpl in H; [discriminate|].
  destruct stack as [|f rest]; [inversion H; subst; auto|].
  destruct (lookup f st) as [[fid rty node]|] eqn:Hl; [|discriminate].
  destruct node; try discriminate.
  destruct (traverse (store_fuel st) st fs [child] [] [] c) as [[[ops1 extra1] c1]| |] eqn:Ht;
    simpl in H; try discriminate.
  destruct (arg_records st args) as [margs| |] eqn:Hm; simpl in H; try discriminate.
  destruct (traverse_inv _ _ ps _ _ _ _ _ _ _ _ Ht Hi Hp) as [Hi1 Hp1].
  eapply IH; eauto.
Qed.

(* the interface tables of a compiled MIR *)
Theorem compile_inputs_parties : forall st fs0 outs m fs',
  compile st fs0 outs = Ok (m, fs') ->
  (forall i, In i (m_inputs m) ->
     exists k r, lookup k st = Some r /\ r_node r = AInput (i_name i) (i_party i) (i_doc i) /\ r_ty r = i_ty i)
  /\ (forall p, In p (m_parties m) ->
        In (p_name p) (map co_party outs)
        \/ exists k r n doc, lookup k st = Some r /\ r_node r = AInput n (p_name p) doc).
Proof.
  intros st fs0 outs m fs' H. unfold compile in H.
  destruct (outputs_loop st fs0 outs [] [] (empty_cstate fs0)) as [[[[ops mouts] fs1] c1]| |] eqn:Ho;
    cbn [bind] in H; try discriminate.
  destruct (functions_loop (S (List.length st)) st fs1 (rev fs1) [] c1) as [[[mfuns fs2] c2]| |] eqn:Hf;
    cbn [bind] in H; try discriminate.
  inversion H; subst; clear H. simpl.
  assert (H0 : inputs_from st (empty_cstate fs0) /\ parties_from st (map co_party outs) (empty_cstate fs0)).
  { split; intros x; simpl; intros; contradiction. }
  destruct H0 as [Hi0 Hp0].
  destruct (outputs_loop_inv _ _ (map co_party outs) _ _ _ _ _ _ _ _ Ho (incl_refl _) Hi0 Hp0) as [Hi1 Hp1].
  destruct (functions_loop_inv _ _ (map co_party outs) _ _ _ _ _ _ _ Hf Hi1 Hp1) as [Hi2 Hp2].
  split.
  - intros i Hin. apply in_flat_map in Hin. destruct Hin as (pl & Hpl & Hin).
    apply in_map_iff in Hin. destruct Hin as ([n [[id ty] doc]] & <- & Hin). simpl.
    destruct (Hi2 _ _ _ _ _ Hpl Hin) as (r & A & B & C). exists id, r. auto.
  - intros p Hin. apply in_map_iff in Hin. destruct Hin as (q & <- & Hin). simpl. exact (Hp2 _ Hin).
Qed.

(* ---------------------------------------------------------------- completeness of the input table:
   every input reference among the emitted operations is registered in the MIR's input list, so an
   input the MIR does not list is referenced by no operation of the program *)
Definition registered (n : string) (c : cstate) : Prop :=
  exists pl v, In pl (c_inputs c) /\ In (n, v) (snd pl).

Lemma In_supdate_self {A} k (v : A) l : In (k, v) (supdate k v l).
Proof.
  induction l as [|[k' v'] l IH]; simpl; auto.
  destruct (String.eqb k k'); simpl; auto.
Qed.

Lemma In_supdate_keep {A} k (v : A) l x :
  In x l -> In x (supdate k v l) \/ (fst x = k /\ sassoc k l = Some (snd x)).
Proof.
  induction l as [|[k' v'] l IH]; simpl; [tauto|].
  intros [<- | H].
  - destruct (String.eqb k k') eqn:E; simpl; auto.
    apply String.eqb_eq in E. subst. right. auto.
  - destruct (String.eqb k k') eqn:E; simpl; auto.
    destruct (IH H) as [H1 | [H1 H2]]; auto.
Qed.

Lemma add_input_registers id ty name party doc c c' :
  add_input id ty name party doc c = Ok c' ->
  registered name c' /\ (forall n, registered n c -> registered n c').
Proof.
  intros H. unfold add_input in H. destruct (existsb _ (c_inputs c)); [discriminate|]. inversion H; subst; clear H.
  set (pin := match sassoc party (c_inputs c) with Some l => l | None => [] end).
  split.
  - exists (party, supdate name (id, ty, doc) pin), (id, ty, doc). simpl. split; apply In_supdate_self.
  - intros n (pl & v & Hpl & Hv). unfold registered. simpl.
    destruct (In_supdate_keep party (supdate name (id, ty, doc) pin) _ _ Hpl) as [Hk | [Hk Hs]].
    + exists pl, v. auto.
    + (* pl is the entry of [party] that was replaced *)
      exists (party, supdate name (id, ty, doc) pin). unfold pin. rewrite Hs.
      destruct (In_supdate_keep name (id, ty, doc) _ _ Hv) as [Hk' | [Hk' _]].
      * exists v. split; [apply In_supdate_self | exact Hk'].
      * simpl in Hk'. subst n. exists (id, ty, doc). split; apply In_supdate_self.
Qed.

Definition refs_registered (ops : list mentry) (c : cstate) : Prop :=
  forall e n, In e ops -> e_op e = MInputRef n -> registered n c.

Lemma step_node_registers fs r extra c extra' c' :
  step_node fs r extra c = Ok (extra', c') ->
  (forall n, registered n c -> registered n c')
  /\ (forall n, e_op (entry_of r) = MInputRef n -> registered n c').
Proof.
  intros H. unfold step_node in H. unfold entry_of.
  destruct (r_node r) eqn:Hn; simpl; try (inversion H; subst; split; [auto | intros; discriminate]; fail).
  - destruct (add_input (r_id r) (r_ty r) name party doc c) as [c1| |] eqn:Ha; cbn [bind] in H; try discriminate.
    inversion H; subst. destruct (add_input_registers _ _ _ _ _ _ _ Ha) as [A B].
    split; [exact B|]. intros n E. inversion E; subst. exact A.
Qed.

Lemma traverse_registers :
  forall fuel st fs stack ops extra c ops' extra' c',
    traverse fuel st fs stack ops extra c = Ok (ops', extra', c') ->
    refs_registered ops c ->
    refs_registered ops' c' /\ (forall n, registered n c -> registered n c').
Proof.
  induction fuel as [|n IH]; intros st fs stack ops extra c ops' extra' c' H Hr; simpl in H; [discriminate|].
  destruct stack as [|k rest]; [inversion H; subst; auto|].
  destruct (zmem k (map e_key ops)); [eapply IH; eauto|].
  destruct (lookup k st) as [r|] eqn:Hl; [|discriminate].
  destruct (step_node fs r extra c) as [[extra1 c1]| |] eqn:Hs; try discriminate.
  destruct (step_node_registers _ _ _ _ _ _ Hs) as [Hmono Hnew].
  assert (Hr1 : refs_registered (ops ++ [entry_of r]) c1).
  { intros e m He Hm. apply in_app_or in He. destruct He as [He | [<- | []]].
    - apply Hmono. eapply Hr; eauto.
    - apply Hnew. exact Hm. }
  destruct (IH _ _ _ _ _ _ _ _ _ H Hr1) as [A B]. split; [exact A|]. intros m Hm. apply B, Hmono, Hm.
Qed.

Lemma outputs_loop_registers :
  forall outs st fs ops macc c ops' mouts fs' c',
    outputs_loop st fs outs ops macc c = Ok (ops', mouts, fs', c') ->
    refs_registered ops c -> refs_registered ops' c'.
Proof.
  induction outs as [|o outs IH]; intros st fs ops macc c ops' mouts fs' c' H Hr; simpl in H.
  - inversion H; subst. exact Hr.
  - destruct (traverse (store_fuel st) st fs [co_id o] ops [] c) as [[[ops1 extra1] c1]| |] eqn:Ht;
      simpl in H; try discriminate.
    destruct (lookup (co_id o) st) as [rec|] eqn:Hl; [|discriminate].
    destruct (traverse_registers _ _ _ _ _ _ _ _ _ _ Ht Hr) as [A _].
    eapply IH; [exact H|]. intros e n He Hn. destruct (A e n He Hn) as (pl & v & P & Q). exists pl, v. auto.
Qed.

Lemma functions_loop_mono :
  forall fuel st fs stack acc c mfuns fs' c',
    functions_loop fuel st fs stack acc c = Ok (mfuns, fs', c') ->
    forall n, registered n c -> registered n c'.
Proof.
  induction fuel as [|k IH]; intros st fs stack acc c mfuns fs' c' H n Hn; simpl in H; [discriminate|].
  destruct stack as [|f rest]; [inversion H; subst; exact Hn|].
  destruct (lookup f st) as [[fid rty node]|] eqn:Hl; [|discriminate].
  destruct node; try discriminate.
  destruct (traverse (store_fuel st) st fs [child] [] [] c) as [[[ops1 extra1] c1]| |] eqn:Ht;
    simpl in H; try discriminate.
  destruct (arg_records st args) as [margs| |] eqn:Hm; simpl in H; try discriminate.
  assert (R0 : refs_registered [] c) by (intros e m []).
  destruct (traverse_registers _ _ _ _ _ _ _ _ _ _ Ht R0) as [_ B].
  eapply IH; [exact H|]. apply B. exact Hn.
Qed.

Theorem compile_inputs_complete : forall st fs0 outs m fs',
  compile st fs0 outs = Ok (m, fs') ->
  forall e n, In e (m_ops m) -> e_op e = MInputRef n -> In n (map i_name (m_inputs m)).
Proof.
  intros st fs0 outs m fs' H. unfold compile in H.
  destruct (outputs_loop st fs0 outs [] [] (empty_cstate fs0)) as [[[[ops mouts] fs1] c1]| |] eqn:Ho;
    cbn [bind] in H; try discriminate.
  destruct (functions_loop (S (List.length st)) st fs1 (rev fs1) [] c1) as [[[mfuns fs2] c2]| |] eqn:Hf;
    cbn [bind] in H; try discriminate.
  inversion H; subst; clear H. simpl.
  assert (R0 : refs_registered [] (empty_cstate fs0)) by (intros e m []).
  pose proof (outputs_loop_registers _ _ _ _ _ _ _ _ _ _ Ho R0) as R1.
  intros e n He Hn. pose proof (functions_loop_mono _ _ _ _ _ _ _ _ _ Hf n (R1 e n He Hn)) as (pl & v & P & Q).
  apply in_map_iff.
  exists (let '(n0, (id, ty, doc)) := (n, v) in {| i_name := n0; i_ty := ty; i_party := fst pl; i_doc := doc; i_sref := no_sref |}).
  destruct v as [[id ty] doc]. split; [reflexivity|].
  apply in_flat_map. exists pl. split; [exact P|].
  apply in_map_iff. exists (n, (id, ty, doc)). split; [reflexivity | exact Q].
Qed.

Theorem run_inputs_complete : forall G p m, run G p = Ok m ->
  forall e n, In e (m_ops m) -> e_op e = MInputRef n -> In n (map i_name (m_inputs m)).
Proof.
  intros G p m H. unfold run, run_from in H.
  destruct (exec G (stmts_size (p_stmts p)) [] (p_stmts p) init_state) as [[rho s']| |];
    cbn [bind] in H; try discriminate.
  destruct (make_outputs rho (p_outs p)) as [couts| |]; cbn [bind] in H; try discriminate.
  destruct (existsb (has_no_id rho) (p_outs p)); cbn [bind] in H; try discriminate.
  destruct (compile (store s') [] couts) as [[m' fs']| |] eqn:Hc; cbn [bind fst snd] in H; try discriminate.
  inversion H; subst. eapply compile_inputs_complete; eauto.
Qed.
