(* C12 on the model tracer, for ALL sizes / indices (symbolic Z) *)
From Coq Require Import ZArith List String Bool Lia.
From NadaV.PyMini Require Import PyMini.
From NadaV.Gen Require Import GenScalar.
From NadaV.Model Require Import Rules Corr Mir Surface Trace Compile.
Import ListNotations.
Open Scope string_scope.
Open Scope Z_scope.

Definition arr_in (x name : string) (t : sty) (n : Z) : stmt :=
  SLet x (RInput name "P" "" (IArray (IScalar t) (Some n))).
Definition out1 (v : string) : list output := [{| out_name := "o"; out_party := "P"; out_var := v |}].

Definition zip_prog (ta tb : sty) (n m : Z) : program :=
  {| p_stmts := [arr_in "a" "a" ta n; arr_in "b" "b" tb m; SLet "r" (RZip "a" "b")]; p_outs := out1 "r" |}.
Definition inner_prog (ta tb : sty) (n m : Z) : program :=
  {| p_stmts := [arr_in "a" "a" ta n; arr_in "b" "b" tb m; SLet "r" (RInner "a" "b")]; p_outs := out1 "r" |}.

Ltac pm := lazy -[Z.add Z.sub Z.mul Z.eqb Z.ltb Z.leb Z.of_nat].

Definition nonconst (t : sty) : Prop := fst t <> MConst.

Lemma zip_size_mismatch_rejected ta tb n m :
  nonconst ta -> nonconst tb -> n <> m ->
  run G (zip_prog ta tb n m) = Err "IncompatibleTypesError".
Proof.
  intros Ha Hb Hnm. apply Z.eqb_neq in Hnm.
  destruct ta as [[| |] [| |]]; try (exfalso; apply Ha; reflexivity);
  destruct tb as [[| |] [| |]]; try (exfalso; apply Hb; reflexivity);
  pm; rewrite Hnm; reflexivity.
Qed.

Lemma inner_size_mismatch_rejected ta tb n m :
  nonconst ta -> nonconst tb -> n <> m ->
  run G (inner_prog ta tb n m) = Err "IncompatibleTypesError".
Proof.
  intros Ha Hb Hnm. apply Z.eqb_neq in Hnm.
  destruct ta as [[| |] [| |]]; try (exfalso; apply Ha; reflexivity);
  destruct tb as [[| |] [| |]]; try (exfalso; apply Hb; reflexivity);
  pm; rewrite Hnm; reflexivity.
Qed.

Lemma inner_non_integer_rejected ta tb n :
  nonconst ta -> nonconst tb -> snd ta = BBool \/ snd tb = BBool ->
  run G (inner_prog ta tb n n) = Err "InvalidTypeError".
Proof.
  intros Ha Hb Hbool.
  destruct ta as [[| |] [| |]]; try (exfalso; apply Ha; reflexivity);
  destruct tb as [[| |] [| |]]; try (exfalso; apply Hb; reflexivity);
  simpl in Hbool; destruct Hbool as [H | H]; try discriminate;
  pm; rewrite Z.eqb_refl; reflexivity.
Qed.

(* n-tuple of k scalar inputs, indexed at i *)
Fixpoint nt_inputs (k : nat) : list stmt * list string :=
  match k with
  | O => ([], [])
  | S k' => let '(ss, vs) := nt_inputs k' in
            let v := String (Ascii.ascii_of_nat (97 + k')) "" in
            (ss ++ [SLet v (RInput v "P" "" (IScalar (MSecret, BInt)))], vs ++ [v])%list
  end.
Definition index_prog (k : nat) (i : Z) : program :=
  let '(ss, vs) := nt_inputs k in
  {| p_stmts := (ss ++ [SLet "t" (RNTupleNew vs); SLet "r" (RIndex "t" i)])%list; p_outs := out1 "r" |}.

Lemma index_out_of_range_rejected_3 i :
  i < 0 \/ 3 <= i -> run G (index_prog 3 i) = Err "IndexError".
Proof.
  intros H. pm.
  destruct (i <? 0) eqn:E1; simpl; [reflexivity|].
  destruct (3 <=? i) eqn:E2; simpl; [reflexivity|].
  apply Z.ltb_ge in E1. apply Z.leb_gt in E2. lia.
Qed.

Lemma array_new_empty_rejected :
  run G {| p_stmts := [SLet "r" (RArrayNew [])]; p_outs := out1 "r" |} = Err "ValueError".
Proof. vm_compute. reflexivity. Qed.

Lemma missing_field_rejected :
  run G {| p_stmts := [SLet "x" (RInput "x" "P" "" (IScalar (MSecret, BInt)));
                       SLet "o" (RObjectNew [("a", "x")]); SLet "r" (RField "o" "zz")];
           p_outs := out1 "r" |} = Err "AttributeError".
Proof. vm_compute. reflexivity. Qed.
