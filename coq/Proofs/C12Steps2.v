(* C12, step level, the remaining constructors and the field accessor: for ANY environment and tracer state, what
   Tuple.new / NTuple.new / Object.new return and record (the components are the argument values themselves, in
   written order; the recorded type is the type of the value returned), and what reading a declared field does. *)
From Coq Require Import ZArith List String Bool Lia.
From NadaV.PyMini Require Import PyMini.
From NadaV.Model Require Import Rules Corr Mir Surface Trace.
From NadaV.Proofs Require Import ScalarInv TraceMono C11Program C12Steps WrapTypes C05Edges.
Import ListNotations.
Open Scope string_scope.
Open Scope Z_scope.
Open Scope list_scope.

Section Steps.
Variable GG : genv.
Variable ρ : env.

Theorem tuple_new_accepted a b s w s1 :
  eval_rhs GG ρ (RTupleNew a b) s = Ok (w, s1) ->
  exists x y i1 i2 ty,
    bound_to ρ a x /\ bound_to ρ b y /\ wid x = Some i1 /\ wid y = Some i2
    /\ w = WTuple (DInst x) (DInst y) (Some (counter s + 1)) /\ to_mir w = Ok ty
    /\ recorded_as s1 (counter s + 1) ty (ANew "TupleNew" [i1; i2]).
Proof.
  intros H. cbn [eval_rhs] in H.
  apply get_wrap_inv in H. destruct H as (x & Hx & H). apply get_wrap_inv in H. destruct H as (y & Hy & H).
  unfold mbind at 1 in H. unfold alloc at 1 in H.
  unfold mbind at 1 in H. cbn [need_ids] in H. unfold mbind at 1 in H. unfold need_id at 1 in H.
  destruct (wid x) as [i1|] eqn:E1; [|discriminate H]. unfold ret at 1 in H.
  unfold mbind at 1 in H. unfold mbind at 1 in H. unfold need_id at 1 in H.
  destruct (wid y) as [i2|] eqn:E2; [|discriminate H]. unfold ret at 1 in H.
  unfold mbind at 1 in H. unfold ret at 1 2 in H. cbv zeta in H.
  unfold mbind at 1 in H. unfold lift at 1 in H.
  destruct (to_mir (WTuple (DInst x) (DInst y) (Some (counter s + 1)))) as [ty| |] eqn:Ety; try discriminate H.
  unfold mbind, put, ret in H. inversion H; subst; clear H.
  exists x, y, i1, i2, ty. repeat split; auto.
  unfold recorded_as. simpl. rewrite Z.eqb_refl. reflexivity.
Qed.

Theorem ntuple_new_accepted es s w s1 :
  eval_rhs GG ρ (RNTupleNew es) s = Ok (w, s1) ->
  exists ws ids ty,
    Forall2 (bound_to ρ) es ws /\ Forall2 has_id ws ids
    /\ w = WNTuple ws (Some (counter s + 1)) /\ to_mir w = Ok ty        (* one component per argument, in written order *)
    /\ recorded_as s1 (counter s + 1) ty (ANew "NTupleNew" ids).
Proof.
  intros H. cbn [eval_rhs] in H. apply mbind_inv in H. destruct H as (ws & sa & Ea & H).
  destruct (get_wraps_spec _ _ _ _ _ Ea) as [-> Fb].
  unfold mbind at 1 in H. unfold alloc at 1 in H.
  apply mbind_inv in H. destruct H as (ids & sb & En & H).
  destruct (need_ids_spec _ _ _ _ En) as [-> Fid].
  cbv zeta in H. unfold mbind at 1 in H. unfold lift at 1 in H.
  destruct (to_mir (WNTuple ws (Some (counter s + 1)))) as [ty| |] eqn:Ety; try discriminate H.
  unfold mbind, put, ret in H. inversion H; subst; clear H.
  exists ws, ids, ty. repeat split; auto.
  unfold recorded_as. simpl. rewrite Z.eqb_refl. reflexivity.
Qed.

Theorem object_new_accepted fs s w s1 :
  eval_rhs GG ρ (RObjectNew fs) s = Ok (w, s1) ->
  exists ws ids ty,
    Forall2 (bound_to ρ) (map snd fs) ws /\ Forall2 has_id ws ids
    /\ w = WObject (combine (map fst fs) ws) (Some (counter s + 1)) /\ to_mir w = Ok ty   (* field k holds the value written for k *)
    /\ recorded_as s1 (counter s + 1) ty (ANew "ObjectNew" ids).
Proof.
  intros H. cbn [eval_rhs] in H. apply mbind_inv in H. destruct H as (ws & sa & Ea & H).
  destruct (get_wraps_spec _ _ _ _ _ Ea) as [-> Fb].
  unfold mbind at 1 in H. unfold alloc at 1 in H.
  apply mbind_inv in H. destruct H as (ids & sb & En & H).
  destruct (need_ids_spec _ _ _ _ En) as [-> Fid].
  cbv zeta in H. unfold mbind at 1 in H. unfold lift at 1 in H.
  destruct (to_mir (WObject (combine (map fst fs) ws) (Some (counter s + 1)))) as [ty| |] eqn:Ety; try discriminate H.
  unfold mbind, put, ret in H. inversion H; subst; clear H.
  exists ws, ids, ty. repeat split; auto.
  unfold recorded_as. simpl. rewrite Z.eqb_refl. reflexivity.
Qed.

(* reading a declared field: the value of that field; a literal is handed back as it is, anything else is recorded as
   an accessor of the written key with the field value's own type *)
Theorem field_accepted a vals it k s w s1 :
  bound_to ρ a (WObject vals it) ->
  eval_rhs GG ρ (RField a k) s = Ok (w, s1) ->
  reserved_attr k = false /\
  exists v src, assoc k vals = Some v /\ it = Some src /\
    ((exists b li lv, v = WScalar (MConst, b) li lv /\ w = v /\ store s1 = store s)
     \/ (exists ty, to_mir v = Ok ty /\ to_mir w = Ok ty /\ wid w = Some (counter s + 1)
                    /\ recorded_as s1 (counter s + 1) ty (AObjectAcc k src))).
Proof.
  intros Ha H. cbn [eval_rhs] in H. unfold mbind at 1 in H. unfold get_wrap in H. rewrite Ha in H. unfold ret at 1 in H.
  destruct (reserved_attr k); [discriminate H|]. split; [reflexivity|].
  destruct (assoc k vals) as [v|] eqn:Ek; [|discriminate H].
  unfold mbind at 1 in H. unfold alloc at 1 in H.
  unfold mbind at 1 in H. unfold need_id at 1 in H. simpl wid in H. destruct it as [src|]; [|discriminate H].
  unfold ret at 1 in H. exists v, src. split; [reflexivity|]. split; [reflexivity|].
  pose proof H as H0.
  destruct (generate_accessor_spec _ _ _ _ _ _ H) as [(b & li & lv & -> & -> & ->) | (ty & Hty & Hw & Hst)].
  - left. exists b, li, lv. repeat split.
  - right. exists ty. split; [exact Hty|]. split; [|split; [exact Hw|]].
    + unfold generate_accessor in H0. destruct v as [[m bb] li lv | e sz ai | l r ti | vs ni | fs oi].
      * destruct m; unfold ret, mbind, put in H0; inversion H0; subst; first [exact Hty | cbn [to_mir] in *; exact Hty].
      * cbv zeta in H0. unfold mbind at 1 in H0. unfold lift at 1 in H0.
        destruct (to_mir (with_id (WArray e sz ai) (counter s + 1))) as [t'| |] eqn:E; try discriminate H0.
        unfold mbind, put, ret in H0. injection H0 as Hw0 _. rewrite <- Hw0. cbn [with_id]. cbn [to_mir] in Hty |- *. exact Hty.
      * discriminate H0.
      * cbv zeta in H0. unfold mbind at 1 in H0. unfold lift at 1 in H0.
        destruct (to_mir (with_id (WNTuple vs ni) (counter s + 1))) as [t'| |] eqn:E; try discriminate H0.
        unfold mbind, put, ret in H0. injection H0 as Hw0 _. rewrite <- Hw0. cbn [with_id]. rewrite to_mir_ntuple in Hty |- *. exact Hty.
      * cbv zeta in H0. unfold mbind at 1 in H0. unfold lift at 1 in H0.
        destruct (to_mir (with_id (WObject fs oi) (counter s + 1))) as [t'| |] eqn:E; try discriminate H0.
        unfold mbind, put, ret in H0. injection H0 as Hw0 _. rewrite <- Hw0. cbn [with_id]. rewrite to_mir_object in Hty |- *. exact Hty.
    + unfold recorded_as. rewrite Hst. simpl. rewrite Z.eqb_refl. reflexivity.
Qed.

End Steps.
