(* C18, program level: for EVERY surface program on which abstract execution (Model/SigModel.abs_sig)
   yields a signature and the trace + compile model yields a MIR, the two agree on the outputs (in
   order, with type), and every input of the MIR is listed in the signature with its owner and type.
   Induction over the statements with an invariant relating the tracer's environment and store to the
   abstract environment and the list of constructed inputs.  The facts about the two rule sets that
   the induction uses are hypotheses of the section, discharged in Properties/C18.v by the lemmas of
   C18Rules.v for the libraries regenerated from /repo. *)
From Coq Require Import ZArith List String Bool Lia.
From NadaV.PyMini Require Import PyMini.
From NadaV.Model Require Import Rules Corr Mir Surface Trace Compile AbsRules SigModel.
From NadaV.Spec Require Import SigSpec.
From NadaV.Proofs Require Import CompileProofs C15Proofs C18Proofs C18Rules.
Import ListNotations.
Open Scope string_scope.
Open Scope Z_scope.
Open Scope list_scope.

Section Program.
Variables G GA : genv.
Hypothesis H_bin : forall o ta tb x y,
  common_op o = true -> snd ta = BInt -> snd tb = BInt -> bin_spec GA o ta tb (rule2v G o ta tb x y).
Hypothesis H_absbin : forall o ta tb t',
  common_op o = true -> in_shared ta = true -> in_shared tb = true ->
  abs_type (arule2 GA o ta tb None None) = Some t' -> snd ta = BInt /\ snd tb = BInt /\ in_shared t' = true.
Hypothesis H_if : forall tc ta tb t',
  in_shared tc = true -> in_shared ta = true -> in_shared tb = true ->
  abs_type (arule_ifelse GA tc ta tb None None None) = Some t' ->
  in_shared t' = true /\
  forall name t roles, rule_ifelse G tc ta tb = Emit name t roles -> roles = roles3 /\ fst t <> MConst /\ t' = t.

(* ---------------------------------------------------------------- invariants *)
Definition fresh_store (s : tstate) : Prop := forall k r, lookup k (store s) = Some r -> k <= counter s.

Definition inputs_ok (s : tstate) (ins : list trip) : Prop :=
  forall k r n p d, lookup k (store s) = Some r -> r_node r = AInput n p d ->
    exists m, (m = MPublic \/ m = MSecret) /\ r_ty r = TyName (mir_name (m, BInt)) /\ In (n, p, class_of (m, BInt)) ins.

Definition wrap_ok (s : tstate) (w : wrap) (t : sty) : Prop :=
  exists id v, w = WScalar t id v /\ in_shared t = true /\
    forall i, id = Some i -> i <= counter s /\ exists r, lookup i (store s) = Some r /\ r_ty r = TyName (mir_name t).

Definition env_ok (s : tstate) (ρ : env) (aρ : aenv) : Prop :=
  Forall2 (fun b a => fst b = fst a /\ exists w, snd b = BWrap w /\ wrap_ok s w (snd a)) ρ aρ.

Definition ext (s s1 : tstate) : Prop :=
  counter s <= counter s1 /\ forall i, i <= counter s -> lookup i (store s1) = lookup i (store s).

Lemma ext_refl s : ext s s.
Proof. split; [lia | auto]. Qed.
Lemma ext_trans a b c : ext a b -> ext b c -> ext a c.
Proof. intros [A1 A2] [B1 B2]. split; [lia|]. intros i Hi. rewrite B2 by lia. apply A2. exact Hi. Qed.

Lemma wrap_ok_ext s s1 w t : ext s s1 -> wrap_ok s w t -> wrap_ok s1 w t.
Proof.
  intros [E1 E2] (id & v & -> & Hs & H). exists id, v. repeat split; auto.
  - destruct (H i H0) as [Hi _]. lia.
  - destruct (H i H0) as [Hi (r & Hl & Ht)]. exists r. rewrite E2 by exact Hi. auto.
Qed.

Lemma env_ok_ext s s1 ρ aρ : ext s s1 -> env_ok s ρ aρ -> env_ok s1 ρ aρ.
Proof.
  intros He H. unfold env_ok in *. induction H as [|b a r ar Hba Hrest IH]; constructor; auto.
  destruct Hba as [Hk (w & Hw & Hok)].
  split; [exact Hk|]. exists w. split; [exact Hw | eapply wrap_ok_ext; eauto].
Qed.

Lemma env_ok_assoc s ρ aρ x t : env_ok s ρ aρ -> assoc x aρ = Some t ->
  exists w, assoc x ρ = Some (BWrap w) /\ wrap_ok s w t.
Proof.
  intros H. unfold env_ok in H. induction H as [|[k b] [k' a] r ar Hba Hrest IH]; simpl; [discriminate|].
  destruct Hba as [Hk (w & Hw & Hok)].
  simpl in Hk, Hw. subst k'. destruct (String.eqb x k).
  - intros E. inversion E; subst. exists w. auto.
  - exact IH.
Qed.

(* pushing a record under a fresh id *)
Definition pushed (s : tstate) (id : Z) (rec : arec) (c1 : Z) (l1 : list string) : tstate :=
  {| counter := c1; store := (id, rec) :: store s; lits := l1 |}.

Lemma pushed_ext s id rec c1 l1 : counter s < id -> id <= c1 -> ext s (pushed s id rec c1 l1).
Proof.
  intros H1 H2. split; simpl; [lia|]. intros i Hi.
  destruct (Z.eqb i id) eqn:E; [apply Z.eqb_eq in E; lia | reflexivity].
Qed.

Lemma pushed_fresh s id rec c1 l1 : fresh_store s -> counter s < id -> id <= c1 -> fresh_store (pushed s id rec c1 l1).
Proof.
  intros Hf H1 H2 k r Hl. simpl in Hl. destruct (Z.eqb k id) eqn:E.
  - apply Z.eqb_eq in E. simpl. lia.
  - apply Hf in Hl. simpl. lia.
Qed.

Lemma pushed_lookup s id rec c1 l1 :
  lookup id (store (pushed s id rec c1 l1)) = Some {| r_id := id; r_ty := r_ty rec; r_node := r_node rec |}.
Proof. simpl. rewrite Z.eqb_refl. reflexivity. Qed.

Lemma pushed_inputs_other s id rec c1 l1 ins :
  inputs_ok s ins -> (forall n p d, r_node rec <> AInput n p d) -> inputs_ok (pushed s id rec c1 l1) ins.
Proof.
  intros Hi Hn k r n p d Hl Hr. simpl in Hl. destruct (Z.eqb k id).
  - inversion Hl; subst. simpl in Hr. exfalso. eapply Hn; eauto.
  - eapply Hi; eauto.
Qed.

Lemma inputs_ok_more s ins new : inputs_ok s ins -> inputs_ok s (ins ++ new).
Proof.
  intros H k r n p d Hl Hr. destruct (H _ _ _ _ _ Hl Hr) as (m & A & B & C).
  exists m. repeat split; auto. apply in_or_app. auto.
Qed.

(* ---------------------------------------------------------------- primitives *)
Definition step_ok (s s1 : tstate) (w : wrap) (t : sty) (ins ins1 : list trip) : Prop :=
  ext s s1 /\ fresh_store s1 /\ wrap_ok s1 w t /\ inputs_ok s1 ins1.

Lemma pushed_step s id rec c1 l1 t v ins :
  fresh_store s -> inputs_ok s ins -> counter s < id -> id <= c1 -> in_shared t = true ->
  r_ty rec = TyName (mir_name t) -> (forall n p d, r_node rec <> AInput n p d) ->
  step_ok s {| counter := c1; store := (id, rec) :: store s; lits := l1 |} (WScalar t (Some id) v) t ins ins.
Proof.
  intros Hf Hi H1 H2 Hs Ht Hn. change {| counter := c1; store := (id, rec) :: store s; lits := l1 |} with (pushed s id rec c1 l1).
  split; [apply pushed_ext; assumption|]. split; [apply pushed_fresh; assumption|]. split.
  - exists (Some id), v. repeat split; auto.
    + inversion H; subst. simpl. exact H2.
    + inversion H; subst. eexists. split; [apply pushed_lookup | simpl; exact Ht].
  - apply pushed_inputs_other; assumption.
Qed.

Lemma pushed_step_input s id c1 l1 m n p ins :
  fresh_store s -> inputs_ok s ins -> counter s < id -> id <= c1 -> (m = MPublic \/ m = MSecret) ->
  step_ok s {| counter := c1; store := (id, {| r_id := id; r_ty := TyName (mir_name (m, BInt)); r_node := AInput n p "" |}) :: store s; lits := l1 |}
          (WScalar (m, BInt) (Some id) None) (m, BInt) ins (ins ++ [(n, p, class_of (m, BInt))]).
Proof.
  intros Hf Hi H1 H2 Hm.
  set (rec := {| r_id := id; r_ty := TyName (mir_name (m, BInt)); r_node := AInput n p "" |}).
  change {| counter := c1; store := (id, rec) :: store s; lits := l1 |} with (pushed s id rec c1 l1).
  split; [apply pushed_ext; assumption|]. split; [apply pushed_fresh; assumption|]. split.
  - exists (Some id), None. repeat split; auto.
    + destruct Hm as [-> | ->]; reflexivity.
    + inversion H; subst. simpl. exact H2.
    + inversion H; subst. eexists. split; [apply pushed_lookup | reflexivity].
  - intros k r n' p' d Hl Hr. simpl in Hl. destruct (Z.eqb k id).
    + inversion Hl; subst. simpl in Hr. inversion Hr; subst. exists m. repeat split; auto.
      apply in_or_app. right. left. reflexivity.
    + destruct (Hi _ _ _ _ _ Hl Hr) as (m' & A & B & C). exists m'. repeat split; auto. apply in_or_app. auto.
Qed.

Lemma new_literal_ok b v s w s1 ins :
  new_literal b v s = Ok (w, s1) -> in_shared (MConst, b) = true -> fresh_store s -> inputs_ok s ins ->
  step_ok s s1 w (MConst, b) ins ins.
Proof.
  intros H Hs Hf Hi. unfold new_literal, mbind, alloc, lit_index, put, ret in H. cbn [counter store lits] in H.
  match type of H with context [index_of ?k ?l 0] => destruct (index_of k l 0) end;
    inversion H; subst; clear H; (apply pushed_step; [assumption | assumption | lia | lia | assumption | reflexivity | discriminate]).
Qed.

(* an operation emitted under a fresh id *)
Lemma emit_ok t n s w s1 ins :
  (mdo id <- alloc; emit_scalar t id (n id)) s = Ok (w, s1) ->
  (forall id a b c, n id <> AInput a b c) ->
  in_shared t = true -> fresh_store s -> inputs_ok s ins ->
  step_ok s s1 w t ins ins.
Proof.
  intros H Hn Hs Hf Hi. unfold mbind, alloc, emit_scalar, put, ret, fail in H. cbn [counter store lits] in H.
  destruct t as [m b]. destruct m; cbn [fst] in H; try discriminate H;
    inversion H; subst; clear H; (apply pushed_step; [assumption | assumption | lia | lia | assumption | reflexivity | apply Hn]).
Qed.

Lemma get_wrap_ok s ρ aρ x t : env_ok s ρ aρ -> assoc x aρ = Some t ->
  exists w, get_wrap ρ x s = Ok (w, s) /\ wrap_ok s w t.
Proof.
  intros He Ha. destruct (env_ok_assoc _ _ _ _ _ He Ha) as (w & Hw & Hok).
  exists w. split; [|exact Hok]. unfold get_wrap. rewrite Hw. reflexivity.
Qed.

Lemma need_id_run w s : need_id w s = match wid w with Some i => Ok (i, s) | None => Err "AttributeError" end.
Proof. unfold need_id. destruct (wid w); reflexivity. Qed.

(* alloc, read the operand ids, emit *)
Lemma emit2_ok t n x y s w s1 ins :
  (mdo id <- alloc; mdo l <- need_id x; mdo r <- need_id y; emit_scalar t id (n l r)) s = Ok (w, s1) ->
  (forall l r a b c, n l r <> AInput a b c) ->
  in_shared t = true -> fresh_store s -> inputs_ok s ins -> step_ok s s1 w t ins ins.
Proof.
  intros H Hn Hs Hf Hi.
  destruct (wid x) as [i|] eqn:Ex; [destruct (wid y) as [j|] eqn:Ey|].
  - apply (emit_ok t (fun _ => n i j) s w s1 ins); auto.
    unfold mbind in *. unfold alloc in *. rewrite !need_id_run, Ex in H. rewrite need_id_run, Ey in H. exact H.
  - unfold mbind, alloc in H. rewrite !need_id_run, Ex in H. rewrite need_id_run, Ey in H. discriminate H.
  - unfold mbind, alloc in H. rewrite need_id_run, Ex in H. discriminate H.
Qed.

Lemma emit3_ok t n x y z s w s1 ins :
  (mdo id <- alloc; mdo a <- need_id x; mdo b <- need_id y; mdo c <- need_id z; emit_scalar t id (n a b c)) s = Ok (w, s1) ->
  (forall a b c a' b' c', n a b c <> AInput a' b' c') ->
  in_shared t = true -> fresh_store s -> inputs_ok s ins -> step_ok s s1 w t ins ins.
Proof.
  intros H Hn Hs Hf Hi.
  destruct (wid x) as [i|] eqn:Ex; [destruct (wid y) as [j|] eqn:Ey; [destruct (wid z) as [k|] eqn:Ez|]|].
  - apply (emit_ok t (fun _ => n i j k) s w s1 ins); auto.
    unfold mbind in *. unfold alloc in *. rewrite !need_id_run, Ex in H. rewrite !need_id_run, Ey in H. rewrite need_id_run, Ez in H. exact H.
  - unfold mbind, alloc in H. rewrite !need_id_run, Ex in H. rewrite !need_id_run, Ey in H. rewrite need_id_run, Ez in H. discriminate H.
  - unfold mbind, alloc in H. rewrite !need_id_run, Ex in H. rewrite need_id_run, Ey in H. discriminate H.
  - unfold mbind, alloc in H. rewrite need_id_run, Ex in H. discriminate H.
Qed.

Lemma pick_left x y : pick [("left", 0); ("right", 1)] "left" [x; y] = need_id x.
Proof. reflexivity. Qed.
Lemma pick_right x y : pick [("left", 0); ("right", 1)] "right" [x; y] = need_id y.
Proof. reflexivity. Qed.
Lemma pick_this x y z : pick roles3 "this" [x; y; z] = need_id x.  Proof. reflexivity. Qed.
Lemma pick_arg0 x y z : pick roles3 "arg_0" [x; y; z] = need_id y.  Proof. reflexivity. Qed.
Lemma pick_arg1 x y z : pick roles3 "arg_1" [x; y; z] = need_id z.  Proof. reflexivity. Qed.

Lemma sty_eta (t : sty) : t = (fst t, snd t).  Proof. destruct t; reflexivity. Qed.

Lemma binop_ok o ta ida va tb idb vb t s w s1 ins :
  do_binop G o (WScalar ta ida va) (WScalar tb idb vb) s = Ok (w, s1) ->
  common_op o = true -> in_shared ta = true -> in_shared tb = true ->
  abs_type (arule2 GA o ta tb None None) = Some t ->
  fresh_store s -> inputs_ok s ins -> step_ok s s1 w t ins ins.
Proof.
  intros H Ho Ha Hb Habs Hf Hi.
  destruct (H_absbin _ _ _ _ Ho Ha Hb Habs) as (Ia & Ib & Hst).
  pose proof (H_bin o ta tb (value_of (WScalar ta ida va)) (value_of (WScalar tb idb vb)) Ho Ia Ib) as Hspec.
  unfold do_binop in H.
  destruct (rule2v G o ta tb (value_of (WScalar ta ida va)) (value_of (WScalar tb idb vb))) as [e | t0 v0 | name t0 roles | k | e | e];
    cbn [bin_spec] in Hspec.
  - discriminate H.
  - destruct Hspec as (Hc & (z & Hz) & Ht). rewrite Hz in H. specialize (Ht _ Habs). subst t0.
    rewrite (sty_eta t) in Hst |- *. rewrite Hc in Hst |- *.
    eapply new_literal_ok; eauto.
  - destruct Hspec as (Hr & Hc & Ht). specialize (Ht _ Habs). subst t0 roles.
    rewrite pick_left, pick_right in H.
    apply (emit2_ok t (fun l r => ABinary name l r) _ _ s w s1 ins H); auto. discriminate.
  - contradiction.
  - discriminate H.
  - discriminate H.
Qed.

Lemma ifelse_ok tc idc vc ta ida va tb idb vb t s w s1 ins :
  do_ifelse G (WScalar tc idc vc) (WScalar ta ida va) (WScalar tb idb vb) s = Ok (w, s1) ->
  in_shared tc = true -> in_shared ta = true -> in_shared tb = true ->
  abs_type (arule_ifelse GA tc ta tb None None None) = Some t ->
  fresh_store s -> inputs_ok s ins -> step_ok s s1 w t ins ins.
Proof.
  intros H Hc Ha Hb Habs Hf Hi.
  destruct (H_if _ _ _ _ Hc Ha Hb Habs) as (Hst & Hspec).
  unfold do_ifelse in H.
  destruct (rule_ifelse G tc ta tb) as [e | t0 v0 | name t0 roles | k | e | e]; try discriminate H.
  destruct (Hspec _ _ _ eq_refl) as (Hr & Hm & Ht). subst t0 roles.
  rewrite pick_this, pick_arg0, pick_arg1 in H.
  apply (emit3_ok t (fun a b c => AIfElse a b c) _ _ _ s w s1 ins H); auto. discriminate.
Qed.

Lemma wrap_ok_scalar s w t : wrap_ok s w t -> exists id v, w = WScalar t id v /\ in_shared t = true.
Proof. intros (id & v & -> & Hs & _). eauto. Qed.

(* one statement *)
Lemma rhs_ok ρ aρ r s w s1 t new ins :
  eval_rhs G ρ r s = Ok (w, s1) -> abs_rhs GA aρ r = Some (t, new) ->
  env_ok s ρ aρ -> fresh_store s -> inputs_ok s ins ->
  step_ok s s1 w t ins (ins ++ new).
Proof.
  intros H Ha He Hf Hi. destruct r; try discriminate Ha.
  - (* RLit *)
    cbn [abs_rhs] in Ha. destruct b; try discriminate Ha. inversion Ha; subst. rewrite app_nil_r.
    cbn [eval_rhs] in H. eapply new_literal_ok; eauto.
  - (* RInput *)
    cbn [abs_rhs] in Ha. destruct t0 as [[m b]|]; try discriminate Ha. destruct b; try discriminate Ha.
    destruct m; try discriminate Ha; (destruct (String.eqb doc "") eqn:Ed; [|discriminate Ha]);
      apply String.eqb_eq in Ed; subst doc; inversion Ha; subst;
      cbn [eval_rhs mk_input] in H; unfold mbind, alloc, put, ret in H; cbn [counter store lits] in H;
      inversion H; subst;
      match goal with |- step_ok _ _ (WScalar (?m, _) _ _) _ _ _ =>
        apply (pushed_step_input s (counter s + 1) (counter s + 1) (lits s) m name party ins); [assumption | assumption | lia | lia | auto] end.
  - (* RBin *)
    cbn [abs_rhs] in Ha. destruct (common_op o) eqn:Ho; [|discriminate Ha].
    destruct (assoc a aρ) as [ta|] eqn:Eа; [|discriminate Ha].
    destruct (assoc b aρ) as [tb|] eqn:Eb; [|discriminate Ha].
    destruct (abs_type (arule2 GA o ta tb None None)) as [t'|] eqn:Et; [|discriminate Ha].
    cbn [option_map] in Ha. inversion Ha; subst. rewrite app_nil_r.
    destruct (get_wrap_ok _ _ _ _ _ He Eа) as (wa & Hga & Hwa).
    destruct (get_wrap_ok _ _ _ _ _ He Eb) as (wb & Hgb & Hwb).
    cbn [eval_rhs] in H. unfold mbind in H. rewrite Hga, Hgb in H.
    destruct (wrap_ok_scalar _ _ _ Hwa) as (ida & va & -> & Hsa).
    destruct (wrap_ok_scalar _ _ _ Hwb) as (idb & vb & -> & Hsb).
    eapply binop_ok; eauto.
  - (* RIfElse *)
    cbn [abs_rhs] in Ha.
    destruct (assoc c aρ) as [tc|] eqn:Ec; [|discriminate Ha].
    destruct (assoc a aρ) as [ta|] eqn:Eа; [|discriminate Ha].
    destruct (assoc b aρ) as [tb|] eqn:Eb; [|discriminate Ha].
    destruct (abs_type (arule_ifelse GA tc ta tb None None None)) as [t'|] eqn:Et; [|discriminate Ha].
    cbn [option_map] in Ha. inversion Ha; subst. rewrite app_nil_r.
    destruct (get_wrap_ok _ _ _ _ _ He Ec) as (wc & Hgc & Hwc).
    destruct (get_wrap_ok _ _ _ _ _ He Eа) as (wa & Hga & Hwa).
    destruct (get_wrap_ok _ _ _ _ _ He Eb) as (wb & Hgb & Hwb).
    cbn [eval_rhs] in H. unfold mbind in H. rewrite Hgc, Hga, Hgb in H.
    destruct (wrap_ok_scalar _ _ _ Hwc) as (idc & vc & -> & Hsc).
    destruct (wrap_ok_scalar _ _ _ Hwa) as (ida & va & -> & Hsa).
    destruct (wrap_ok_scalar _ _ _ Hwb) as (idb & vb & -> & Hsb).
    eapply ifelse_ok; eauto.
Qed.

(* all statements *)
Lemma exec_ok : forall ss fuel ρ aρ s ins ρ' s' aρ' ins',
  exec G fuel ρ ss s = Ok (ρ', s') ->
  abs_exec GA ss aρ ins = Some (aρ', ins') ->
  env_ok s ρ aρ -> fresh_store s -> inputs_ok s ins ->
  env_ok s' ρ' aρ' /\ fresh_store s' /\ inputs_ok s' ins'.
Proof.
  induction ss as [|st ss IH]; intros fuel ρ aρ s ins ρ' s' aρ' ins' H Ha He Hf Hi.
  - destruct fuel; [discriminate H|]. simpl in H. unfold ret in H. inversion H; subst.
    simpl in Ha. inversion Ha; subst. auto.
  - destruct fuel; [discriminate H|]. destruct st as [x r | f ps rt body res]; [|discriminate Ha].
    cbn [exec] in H. cbn [abs_exec] in Ha.
    destruct (abs_rhs GA aρ r) as [[t new]|] eqn:Er; [|discriminate Ha].
    unfold mbind in H. destruct (eval_rhs G ρ r s) as [[w s1]| |] eqn:Ev; try discriminate H.
    destruct (rhs_ok _ _ _ _ _ _ _ _ _ Ev Er He Hf Hi) as (Hext & Hf1 & Hw & Hi1).
    eapply IH; [exact H | exact Ha | | exact Hf1 | exact Hi1].
    constructor; [|eapply env_ok_ext; eauto].
    split; [reflexivity|]. exists w. split; [reflexivity | exact Hw].
Qed.

(* ---------------------------------------------------------------- outputs *)
Definition out_pair (s : tstate) (co : cout) (a : trip) : Prop :=
  co_name co = t_name a /\ co_party co = t_party a /\
  exists t r, output_class t = Some (snd a) /\ lookup (co_id co) (store s) = Some r /\ r_ty r = TyName (mir_name t).

Lemma outputs_pair s ρ aρ : env_ok s ρ aρ -> forall outs couts aouts,
  make_outputs ρ outs = Ok couts -> existsb (has_no_id ρ) outs = false -> abs_outputs aρ outs = Some aouts ->
  Forall2 (out_pair s) couts aouts /\ map co_party couts = map out_party outs.
Proof.
  intros He. induction outs as [|o outs IH]; intros couts aouts Hm Hn Ha.
  - simpl in Hm, Ha. inversion Hm; inversion Ha; subst. split; [constructor | reflexivity].
  - cbn [abs_outputs] in Ha. destruct (assoc (out_var o) aρ) as [t|] eqn:Et; [|discriminate Ha].
    destruct (output_class t) as [c|] eqn:Ec; [|discriminate Ha].
    destruct (abs_outputs aρ outs) as [l|] eqn:El; [|discriminate Ha]. inversion Ha; subst; clear Ha.
    destruct (env_ok_assoc _ _ _ _ _ He Et) as (w & Hw & (id & v & -> & Hs & Hid)).
    cbn [make_outputs] in Hm. rewrite Hw in Hm.
    destruct (make_outputs ρ outs) as [ct| |] eqn:Em; cbn [bind] in Hm; try discriminate Hm.
    inversion Hm; subst; clear Hm.
    cbn [existsb] in Hn. apply orb_false_iff in Hn. destruct Hn as [Hn1 Hn2].
    unfold has_no_id in Hn1. rewrite Hw in Hn1. cbn [wid] in Hn1 |- *.
    destruct id as [i|]; [|discriminate Hn1].
    destruct (IH _ _ eq_refl Hn2 eq_refl) as [IH1 IH2].
    split; [|simpl; rewrite IH2; reflexivity].
    constructor; [|exact IH1].
    unfold out_pair; cbn [co_name co_party co_id t_name t_party fst snd].
    repeat split. destruct (Hid i eq_refl) as [_ (r & Hl & Hr)]. exists t, r. auto.
Qed.

Lemma output_class_spell t c : output_class t = Some c -> mir_spelling c = mir_name t.
Proof. destruct t as [[| |] [| |]]; simpl; intros H; inversion H; reflexivity. Qed.

Lemma outputs_equal st s : store s = st -> forall couts aouts mouts,
  Forall2 (out_pair s) couts aouts -> Forall2 (out_rel st) couts mouts ->
  map spell aouts = map (fun o => (o_name o, o_party o, ty_name (o_ty o))) mouts.
Proof.
  intros Hst couts aouts mouts H1. revert mouts. induction H1 as [|co a couts aouts Hp _ IH]; intros mouts H2.
  - inversion H2; subst. reflexivity.
  - inversion H2 as [|co' mo couts' mouts' Hr Hrest]; subst. simpl. f_equal; [|apply IH; exact Hrest].
    destruct Hp as (N & P & t & r & Hc & Hl & Ht). destruct Hr as (N' & P' & _ & rec & Hl' & Ht').
    rewrite Hl in Hl'. inversion Hl'; subst rec.
    unfold spell. destruct a as [[n p] c]. cbn [t_name t_party fst snd] in *.
    rewrite N', P', Ht', Ht, <- N, <- P. cbn [ty_name]. rewrite (output_class_spell _ _ Hc). reflexivity.
Qed.

Lemma class_spell_int m : m = MPublic \/ m = MSecret -> mir_spelling (class_of (m, BInt)) = mir_name (m, BInt).
Proof. intros [-> | ->]; reflexivity. Qed.

(* ---------------------------------------------------------------- the program-level statement *)
Theorem program_agrees : forall parties p m sg,
  run G p = Ok m -> abs_sig GA parties p = Some sg ->
  map spell (sg_outputs sg) = map (fun o => (o_name o, o_party o, ty_name (o_ty o))) (m_outputs m)
  /\ (forall i, In i (m_inputs m) -> In (i_name i, i_party i, ty_name (i_ty i)) (map spell (sg_inputs sg)))
  /\ (forall q, In q (m_parties m) ->
        In (p_name q) (map out_party (p_outs p)) \/ In (p_name q) (map t_party (sg_inputs sg))).
Proof.
  intros parties p m sg Hr Hs. unfold run, run_from in Hr.
  destruct (exec G (stmts_size (p_stmts p)) [] (p_stmts p) init_state) as [[ρ s']| |] eqn:Ex; cbn [bind] in Hr; try discriminate Hr.
  destruct (make_outputs ρ (p_outs p)) as [couts| |] eqn:Em; cbn [bind] in Hr; try discriminate Hr.
  destruct (existsb (has_no_id ρ) (p_outs p)) eqn:En; cbn [bind] in Hr; try discriminate Hr.
  destruct (compile (store s') [] couts) as [[m' fs']| |] eqn:Hc; cbn [bind fst snd] in Hr; try discriminate Hr.
  inversion Hr; subst m'; clear Hr.
  unfold abs_sig in Hs. destruct (abs_exec GA (p_stmts p) [] []) as [[aρ ins]|] eqn:Ea; [|discriminate Hs].
  destruct (abs_outputs aρ (p_outs p)) as [aouts|] eqn:Eao; [|destruct (p_outs p); discriminate Hs].
  assert (Hsg : sg = {| sg_parties := parties; sg_inputs := ins; sg_outputs := aouts |}).
  { destruct (p_outs p); [discriminate Hs | inversion Hs; reflexivity]. }
  subst sg; clear Hs. cbn [sg_outputs sg_inputs].
  assert (H0 : env_ok init_state [] [] /\ fresh_store init_state /\ inputs_ok init_state []).
  { split; [constructor|]. split; intros k r; simpl; intros; discriminate. }
  destruct H0 as (E0 & F0 & I0).
  destruct (exec_ok _ _ _ _ _ _ _ _ _ _ Ex Ea E0 F0 I0) as (He & Hf & Hi).
  destruct (outputs_pair _ _ _ He _ _ _ Em En Eao) as [Hpair Hparties].
  pose proof (compile_outputs _ _ _ _ _ Hc) as Hrel.
  destruct (compile_inputs_parties _ _ _ _ _ Hc) as [Hin Hpa].
  split; [eapply outputs_equal; eauto|]. split.
  - intros i Hi'. destruct (Hin i Hi') as (k & r & Hl & Hn & Ht).
    destruct (Hi _ _ _ _ _ Hl Hn) as (md & Hm & Hty & Hmem).
    apply in_map_iff. exists (i_name i, i_party i, class_of (md, BInt)). split; [|exact Hmem].
    unfold spell. cbn [fst snd]. rewrite <- Ht, Hty. cbn [ty_name]. rewrite (class_spell_int _ Hm). reflexivity.
  - intros q Hq. destruct (Hpa q Hq) as [H1 | (k & r & n & doc & Hl & Hn)].
    + left. rewrite <- Hparties. exact H1.
    + right. destruct (Hi _ _ _ _ _ Hl Hn) as (md & Hm & Hty & Hmem).
      apply in_map_iff. exists (n, p_name q, class_of (md, BInt)). split; [reflexivity | exact Hmem].
Qed.
End Program.
