From Coq Require Import ZArith List String Bool Lia.
From NadaV.PyMini Require Import PyMini.
From NadaV.Gen Require GenScalar.
From NadaV.Gen Require Import GenAbstract.
From NadaV.Model Require Import Rules AbsRules.
From NadaV.Proofs Require Import Finite.
Import ListNotations.
Open Scope string_scope.

Definition accepted_type (o : outcome) : option sty :=
  match o with Emit _ t _ | Fold t _ => Some t | _ => None end.

(* whenever the real DSL accepts, the abstract interpreter accepts and gives the same class *)
Definition types_ok2 (o : op) (l r : sty) : bool :=
  match accepted_type (rule2 GenScalar.G o l r) with
  | Some t => match arule2 GA o l r None None with
              | AValue t' _ => sty_eqb t t'
              | _ => false end
  | None => true
  end.
Definition in_shared (t : sty) : bool := existsb (sty_eqb t) shared_stys.
(* == and != are modelled on integers only (the abstract booleans have no __eq__) *)
Definition modelled (o : op) (l r : sty) : bool :=
  match o with OEq | ONe => negb (base_eqb (snd l) BBool && base_eqb (snd r) BBool) | _ => true end.
Lemma types2_table :
  forallb (fun o => forall2 (fun l r => negb (in_shared l && in_shared r && modelled o l r) || types_ok2 o l r)) abs_ops = true.
Proof. vm_compute. reflexivity. Qed.

Definition types_ok3 (c a b : sty) : bool :=
  match accepted_type (rule_ifelse GenScalar.G c a b) with
  | Some t => match arule_ifelse GA c a b None None None with
              | AValue t' _ => sty_eqb t t'
              | _ => false end
  | None => true
  end.
Lemma types3_table : forall3 (fun c a b => negb (in_shared c && in_shared a && in_shared b) || types_ok3 c a b) = true.
Proof. vm_compute. reflexivity. Qed.

Lemma sty_eqb_eq a b : sty_eqb a b = true -> a = b.
Proof. destruct a as [[| |] [| |]], b as [[| |] [| |]]; simpl; intros H; try discriminate H; reflexivity. Qed.

Theorem types_agree_binary : forall o l r t,
  In o abs_ops -> in_shared l = true -> in_shared r = true -> modelled o l r = true ->
  accepted_type (rule2 GenScalar.G o l r) = Some t ->
  exists v, arule2 GA o l r None None = AValue t v.
Proof.
  intros o l r t Ho Hl Hr Hm Ha. pose proof types2_table as H. rewrite forallb_forall in H.
  specialize (H o Ho). pose proof (forall2_spec _ H l r) as E. cbv beta in E.
  rewrite Hl, Hr, Hm in E. cbn [andb negb orb] in E. unfold types_ok2 in E. rewrite Ha in E.
  destruct (arule2 GA o l r None None); try discriminate E. apply sty_eqb_eq in E. subst. eauto.
Qed.

Theorem types_agree_ifelse : forall c a b t,
  in_shared c = true -> in_shared a = true -> in_shared b = true ->
  accepted_type (rule_ifelse GenScalar.G c a b) = Some t ->
  exists v, arule_ifelse GA c a b None None None = AValue t v.
Proof.
  intros c a b t Hc Ha Hb Hacc. pose proof (forall3_spec _ types3_table c a b) as E. cbv beta in E.
  rewrite Hc, Ha, Hb in E. cbn [andb negb orb] in E. unfold types_ok3 in E. rewrite Hacc in E.
  destruct (arule_ifelse GA c a b None None None); try discriminate E. apply sty_eqb_eq in E. subst. eauto.
Qed.

(* ---- values: for ALL integers *)
Ltac pm := lazy -[Z.add Z.sub Z.mul Z.ltb Z.leb Z.gtb Z.geb Z.eqb Z.opp].

Definition int_sty (t : sty) : Prop := snd t = BInt.

Lemma abs_bin_exact : forall o ta tb x y,
  In o abs_ops -> int_sty ta -> int_sty tb ->
  exists t, arule2 GA o ta tb (Some x) (Some y) = AValue t (exact_bin o x y).
Proof.
  intros o ta tb x y Ho Ha Hb.
  destruct ta as [ma ba], tb as [mb bb]. unfold int_sty in *. simpl in Ha, Hb. subst.
  simpl in Ho.
  repeat (destruct Ho as [<- | Ho]); try contradiction;
    destruct ma, mb; eexists; pm; reflexivity.
Qed.

Lemma abs_ifelse_exact : forall tc ta tb c x y,
  snd tc = BBool -> int_sty ta -> int_sty tb ->
  exists t, arule_ifelse GA tc ta tb (Some c) (Some x) (Some y)
            = AValue t (Some (VInt (if negb (Z.eqb c 0) then x else y))).
Proof.
  intros tc ta tb c x y Hc Ha Hb.
  destruct tc as [mc bc], ta as [ma ba], tb as [mb bb]. unfold int_sty in *. simpl in Hc, Ha, Hb. subst.
  destruct mc, ma, mb; eexists; pm; destruct (Z.eqb c 0); reflexivity.
Qed.

(* ---- the result class of an accepted abstract operation, and rejection of ill-typed operands *)
Definition res_base (o : op) : base := match o with OAdd | OSub | OMul => BInt | _ => BBool end.

Lemma abs_bin_exact_typed : forall o ta tb x y,
  In o abs_ops -> int_sty ta -> int_sty tb ->
  exists m, arule2 GA o ta tb (Some x) (Some y) = AValue (m, res_base o) (exact_bin o x y).
Proof.
  intros o ta tb x y Ho Ha Hb.
  destruct ta as [ma ba], tb as [mb bb]. unfold int_sty in *. simpl in Ha, Hb. subst.
  simpl in Ho.
  repeat (destruct Ho as [<- | Ho]); try contradiction;
    destruct ma, mb; eexists; pm; reflexivity.
Qed.

Definition shared (t : sty) : Prop := snd t = BInt \/ snd t = BBool.

Lemma abs_bin_needs_ints : forall o ta tb x y t w,
  In o abs_ops -> shared ta -> shared tb ->
  arule2 GA o ta tb (Some x) (Some y) = AValue t w -> int_sty ta /\ int_sty tb.
Proof.
  intros o ta tb x y t w Ho Ha Hb H.
  destruct ta as [ma ba], tb as [mb bb]. unfold shared, int_sty in *. simpl in *.
  destruct Ha as [-> | ->], Hb as [-> | ->]; auto; exfalso;
    repeat (destruct Ho as [<- | Ho]); try contradiction;
    destruct ma, mb; revert H; pm; discriminate.
Qed.

Lemma abs_ifelse_exact_typed : forall tc ta tb c x y,
  snd tc = BBool -> int_sty ta -> int_sty tb ->
  exists m, arule_ifelse GA tc ta tb (Some c) (Some x) (Some y)
            = AValue (m, BInt) (Some (VInt (if negb (Z.eqb c 0) then x else y))).
Proof.
  intros tc ta tb c x y Hc Ha Hb.
  destruct tc as [mc bc], ta as [ma ba], tb as [mb bb]. unfold int_sty in *. simpl in Hc, Ha, Hb. subst.
  destruct mc, ma, mb; eexists; pm; destruct (Z.eqb c 0); reflexivity.
Qed.

Lemma abs_ifelse_needs_types : forall tc ta tb c x y t w,
  shared tc -> shared ta -> shared tb ->
  arule_ifelse GA tc ta tb (Some c) (Some x) (Some y) = AValue t w ->
  snd tc = BBool /\ int_sty ta /\ int_sty tb.
Proof.
  intros tc ta tb c x y t w Hc Ha Hb H.
  destruct tc as [mc bc], ta as [ma ba], tb as [mb bb]. unfold shared, int_sty in *. simpl in *.
  destruct Hc as [-> | ->], Ha as [-> | ->], Hb as [-> | ->]; auto; exfalso;
    destruct mc, ma, mb; revert H; pm; discriminate.
Qed.

(* ---- for ALL expressions over the modelled operators and ALL integer valuations *)
Fixpoint wf (e : aexpr) : Prop :=
  match e with
  | AIn t _ => shared t
  | ALit _ => True
  | ABin o a b => In o abs_ops /\ wf a /\ wf b
  | AIf c a b => wf c /\ wf a /\ wf b
  end.

Definition val_ok (t : sty) (v : value) : Prop :=
  shared t /\ match snd t with
              | BInt => exists z, v = VInt z
              | BBool => exists b, v = VBool b
              | BUInt => False
              end.

Lemma exact_bin_kind o x y v : In o abs_ops -> exact_bin o x y = Some v ->
  match res_base o with BInt => exists z, v = VInt z | BBool => exists b, v = VBool b | BUInt => False end.
Proof.
  intros Ho H. simpl in Ho.
  repeat (destruct Ho as [<- | Ho]); try contradiction; simpl in *; inversion H; eauto.
Qed.

Theorem abs_eval_exact : forall ρ e t v, wf e ->
  abs_eval GA ρ e = AValue t (Some v) -> exact_eval ρ e = Some v /\ val_ok t v.
Proof.
  intros ρ e. induction e as [t0 i | z | o a IHa b IHb | c IHc a IHa b IHb]; intros t v Hwf H.
  - simpl in *. destruct t0 as [m bt]. simpl in *. unfold val_ok. simpl.
    destruct Hwf as [Hs | Hs]; simpl in Hs; subst; simpl in *; inversion H; subst; simpl;
      (split; [reflexivity|]); (split; [unfold shared; simpl; auto | eauto]).
  - simpl in *. inversion H; subst. split; [reflexivity|]. split; [left; reflexivity | simpl; eauto].
  - simpl in Hwf. destruct Hwf as (Ho & Wa & Wb). simpl in H.
    destruct (abs_eval GA ρ a) as [ea | ta [va|] | wa | sa] eqn:Ea; try discriminate;
      try (destruct (abs_eval GA ρ b) as [eb | tb [vb|] | wb | sb]; discriminate).
    destruct (abs_eval GA ρ b) as [eb | tb [vb|] | wb | sb] eqn:Eb; try discriminate.
    destruct (IHa _ _ Wa eq_refl) as (Xa & Sa & Ka). destruct (IHb _ _ Wb eq_refl) as (Xb & Sb & Kb).
    destruct (zval va) as [x|] eqn:Zx; [|discriminate]. destruct (zval vb) as [y|] eqn:Zy; [|discriminate].
    destruct (abs_bin_needs_ints _ _ _ _ _ _ _ Ho Sa Sb H) as (Ia & Ib).
    unfold int_sty in Ia, Ib. rewrite Ia in Ka. rewrite Ib in Kb.
    destruct Ka as [xa ->]. destruct Kb as [yb ->]. simpl in Zx, Zy. inversion Zx; inversion Zy; subst.
    destruct (abs_bin_exact_typed o ta tb x y Ho Ia Ib) as (m & E). rewrite E in H. inversion H; subst.
    simpl. rewrite Xa, Xb. split; [first [reflexivity | assumption | symmetry; assumption]|].
    split; [unfold shared; simpl; destruct o; simpl; auto|]. simpl.
    exact (exact_bin_kind o x y v Ho H2).
  - simpl in Hwf. destruct Hwf as (Wc & Wa & Wb). simpl in H.
    destruct (abs_eval GA ρ c) as [ec | tc [vc|] | wc | sc] eqn:Ec; try discriminate;
      try (destruct (abs_eval GA ρ a) as [ea | ta [va|] | wa | sa];
           destruct (abs_eval GA ρ b) as [eb | tb [vb|] | wb | sb]; discriminate).
    destruct (abs_eval GA ρ a) as [ea | ta [va|] | wa | sa] eqn:Ea; try discriminate;
      try (destruct (abs_eval GA ρ b) as [eb | tb [vb|] | wb | sb]; discriminate).
    destruct (abs_eval GA ρ b) as [eb | tb [vb|] | wb | sb] eqn:Eb; try discriminate.
    destruct (IHc _ _ Wc eq_refl) as (Xc & Sc & Kc). destruct (IHa _ _ Wa eq_refl) as (Xa & Sa & Ka).
    destruct (IHb _ _ Wb eq_refl) as (Xb & Sb & Kb).
    destruct (zval vc) as [x|] eqn:Zc; [|discriminate]. destruct (zval va) as [y|] eqn:Za; [|discriminate].
    destruct (zval vb) as [z|] eqn:Zb; [|discriminate].
    destruct (abs_ifelse_needs_types _ _ _ _ _ _ _ _ Sc Sa Sb H) as (Bc & Ia & Ib).
    unfold int_sty in Ia, Ib. rewrite Bc in Kc. rewrite Ia in Ka. rewrite Ib in Kb.
    destruct Kc as [bc ->]. destruct Ka as [ya ->]. destruct Kb as [zb ->].
    simpl in Zc, Za, Zb. inversion Za; inversion Zb; subst.
    destruct (abs_ifelse_exact_typed tc ta tb x y z Bc Ia Ib) as (m & E). rewrite E in H. inversion H; subst.
    simpl. rewrite Xc, Xa, Xb. split.
    + f_equal. f_equal. inversion Zc. destruct bc; reflexivity.
    + split; [left; reflexivity | simpl; eauto].
Qed.
