(* C14 for whole EXPRESSIONS: whenever the checker's rules (regenerated from audit/strict.py), applied bottom-up to an
   expression over inputs of the shared classes, literals, + - *, the six comparisons and if_else, give a type,
   abstract execution (the operator bodies regenerated from audit/abstract.py) of that expression under ANY valuation
   of the inputs yields a value of exactly that class, which moreover is the exact integer / boolean result. *)
From Coq Require Import ZArith List String Bool.
From NadaV.PyMini Require Import PyMini.
From NadaV.Gen Require GenAbstract GenAudit.
From NadaV.Model Require Import Rules StaticRules AbsRules.
From NadaV.Proofs Require Import Finite C15Proofs C14Proofs.
Import ListNotations.
Open Scope string_scope.

Definition is_arith (o : op) : bool := match o with OAdd | OSub | OMul => true | _ => false end.
Definition rule_of (o : op) : string := if is_arith o then "_types_binop_mult_add_sub" else "_types_compare".

(* the checker's types(), bottom-up, on the expression fragment *)
Fixpoint sty_of (e : aexpr) : sres :=
  match e with
  | AIn t _ => SType t
  | ALit _ => SType (MConst, BInt)
  | ABin o a b =>
      match sty_of a, sty_of b with
      | SType l, SType r => static_bin GS (rule_of o) l r
      | SError x, _ => SError false
      | _, SError x => SError false
      | _, _ => SOther "operand"
      end
  | AIf c a b =>
      match sty_of c, sty_of a, sty_of b with
      | SType tc, SType ta, SType tb => static_ifelse GS GenAudit.ifelse_static_exprs tc ta tb
      | _, _, _ => SError false
      end
  end.

Definition is_int (t : sty) : bool := match snd t with BInt => true | _ => false end.
Definition is_bool (t : sty) : bool := match snd t with BBool => true | _ => false end.

(* the static rules only type operations on integers (and boolean conditions) *)
Lemma static_bin_ints_table : forallb (fun f =>
  forall2 (fun l r => negb (in_shared l && in_shared r)
     || match static_bin GS f l r with SType t => is_int l && is_int r && in_shared t | _ => true end))
  ["_types_binop_mult_add_sub"; "_types_compare"] = true.
Proof. vm_compute. reflexivity. Qed.

Lemma static_ifelse_types_table :
  forall3 (fun c a b => negb (in_shared c && in_shared a && in_shared b)
     || match static_ifelse GS GenAudit.ifelse_static_exprs c a b with
        | SType t => is_bool c && is_int a && is_int b && in_shared t | _ => true end) = true.
Proof. vm_compute. reflexivity. Qed.

Lemma in_shared_shared t : in_shared t = true -> shared t.
Proof. destruct t as [m b]. destruct m, b; vm_compute; intros H; try discriminate H; auto. Qed.
Lemma shared_in_shared t : shared t -> in_shared t = true.
Proof. destruct t as [m b]. intros [H | H]; simpl in H; subst; destruct m; reflexivity. Qed.

(* the class of an abstract result does not depend on the values *)
Lemma arule2_same_type : forall o ta tb t v x y,
  In o abs_ops -> int_sty ta -> int_sty tb ->
  arule2 GA o ta tb None None = AValue t v -> arule2 GA o ta tb (Some x) (Some y) = AValue t (exact_bin o x y).
Proof.
  intros o ta tb t v x y Ho Ha Hb.
  destruct ta as [ma ba], tb as [mb bb]. unfold int_sty in *. simpl in Ha, Hb. subst. simpl in Ho.
  repeat (destruct Ho as [<- | Ho]); try contradiction;
    destruct ma, mb; pm; intros H; inversion H; reflexivity.
Qed.

Lemma arule_ifelse_same_type : forall tc ta tb t v c x y,
  snd tc = BBool -> int_sty ta -> int_sty tb ->
  arule_ifelse GA tc ta tb None None None = AValue t v ->
  arule_ifelse GA tc ta tb (Some c) (Some x) (Some y) = AValue t (Some (VInt (if negb (Z.eqb c 0) then x else y))).
Proof.
  intros tc ta tb t v c x y Hc Ha Hb.
  destruct tc as [mc bc], ta as [ma ba], tb as [mb bb]. unfold int_sty in *. simpl in Hc, Ha, Hb. subst.
  destruct mc, ma, mb; pm; intros H; inversion H; destruct (Z.eqb c 0); reflexivity.
Qed.

Lemma is_int_sty t : is_int t = true -> int_sty t.
Proof. unfold is_int, int_sty. destruct (snd t); intros H; try discriminate; reflexivity. Qed.
Lemma is_bool_sty t : is_bool t = true -> snd t = BBool.
Proof. unfold is_bool. destruct (snd t); intros H; try discriminate; reflexivity. Qed.

Lemma in_ops o : In o abs_ops -> In o (if is_arith o then arith_ops else cmp_ops).
Proof. simpl. intros H. repeat (destruct H as [<- | H]); simpl; auto 10. contradiction. Qed.

Definition value_kind (t : sty) (v : value) : Prop :=
  match snd t with BInt => exists z, v = VInt z | BBool => exists b, v = VBool b | BUInt => False end.

Theorem checker_sound_on_expressions : forall ρ e t, wf e -> sty_of e = SType t ->
  in_shared t = true /\ exists v, abs_eval GA ρ e = AValue t (Some v) /\ value_kind t v.
Proof.
  intros ρ e. induction e as [t0 i | z | o a IHa b IHb | c IHc a IHa b IHb]; intros t Hwf Hs.
  - simpl in *. inversion Hs; subst. split; [apply shared_in_shared; exact Hwf|].
    destruct t as [m bt]. unfold value_kind. simpl in *.
    destruct Hwf as [Hb | Hb]; simpl in Hb; subst; simpl; eexists; (split; [reflexivity | eauto]).
  - simpl in *. inversion Hs; subst. split; [reflexivity|]. eexists. split; [reflexivity | unfold value_kind; simpl; eauto].
  - simpl in Hwf. destruct Hwf as (Ho & Wa & Wb). simpl in Hs.
    destruct (sty_of a) as [l| |] eqn:Sa; try discriminate; [|destruct (sty_of b); discriminate].
    destruct (sty_of b) as [r| |] eqn:Sb; try discriminate.
    destruct (IHa l Wa eq_refl) as (Hl & va & Ea & Ka). destruct (IHb r Wb eq_refl) as (Hr & vb & Eb & Kb).
    (* the rule types integers only *)
    pose proof static_bin_ints_table as T. rewrite forallb_forall in T.
    assert (Hrule : In (rule_of o) ["_types_binop_mult_add_sub"; "_types_compare"]).
    { unfold rule_of. destruct (is_arith o); simpl; auto. }
    pose proof (forall2_spec _ (T _ Hrule) l r) as E. cbv beta in E. rewrite Hl, Hr, Hs in E. simpl in E.
    apply andb_prop in E. destruct E as [E Ht]. apply andb_prop in E. destruct E as [Il Ir].
    apply is_int_sty in Il. apply is_int_sty in Ir.
    split; [exact Ht|].
    (* the abstract operator gives that class without values ... *)
    assert (Hnone : exists v, arule2 GA o l r None None = AValue t v).
    { pose proof (in_ops o Ho) as Hin. unfold rule_of in Hs. destruct (is_arith o).
      - eapply static_arith_sound; eauto.
      - eapply static_compare_sound; eauto. }
    destruct Hnone as [v0 Hnone].
    (* ... hence with any values *)
    unfold value_kind in Ka, Kb. unfold int_sty in Il, Ir. rewrite Il in Ka. rewrite Ir in Kb.
    destruct Ka as [x ->]. destruct Kb as [y ->].
    pose proof (arule2_same_type o l r t v0 x y Ho Il Ir Hnone) as Hv.
    simpl. rewrite Ea, Eb. simpl. rewrite Hv.
    assert (Hex : exists w, exact_bin o x y = Some w).
    { simpl in Ho. repeat (destruct Ho as [<- | Ho]); try contradiction; simpl; eauto. }
    destruct Hex as [w Hw]. rewrite Hw. exists w. split; [reflexivity|].
    (* the value has the kind of the class *)
    destruct (abs_bin_exact_typed o l r x y Ho Il Ir) as (m & Et).
    unfold GA in Hv. assert (Htm : t = (m, res_base o)) by congruence. subst t.
    unfold value_kind. simpl. exact (exact_bin_kind o x y w Ho Hw).
  - simpl in Hwf. destruct Hwf as (Wc & Wa & Wb). simpl in Hs.
    destruct (sty_of c) as [tc| |] eqn:Sc; try discriminate.
    destruct (sty_of a) as [ta| |] eqn:Sa; try discriminate.
    destruct (sty_of b) as [tb| |] eqn:Sb; try discriminate.
    destruct (IHc tc Wc eq_refl) as (Hc & vc & Ec & Kc). destruct (IHa ta Wa eq_refl) as (Ha & va & Ea & Ka).
    destruct (IHb tb Wb eq_refl) as (Hb & vb & Eb & Kb).
    pose proof (forall3_spec _ static_ifelse_types_table tc ta tb) as E. cbv beta in E. rewrite Hc, Ha, Hb, Hs in E. simpl in E.
    apply andb_prop in E. destruct E as [E Ht]. apply andb_prop in E. destruct E as [E Ib].
    apply andb_prop in E. destruct E as [Bc Ia].
    apply is_bool_sty in Bc. apply is_int_sty in Ia. apply is_int_sty in Ib.
    split; [exact Ht|].
    destruct (static_ifelse_sound tc ta tb t Hc Ha Hb Hs) as [v0 Hnone].
    unfold value_kind in Kc, Ka, Kb. unfold int_sty in Ia, Ib. rewrite Bc in Kc. rewrite Ia in Ka. rewrite Ib in Kb.
    destruct Kc as [bc ->]. destruct Ka as [x ->]. destruct Kb as [y ->].
    pose proof (arule_ifelse_same_type tc ta tb t v0 (if bc then 1 else 0)%Z x y Bc Ia Ib Hnone) as Hv.
    simpl. rewrite Ec, Ea, Eb. simpl. rewrite Hv. eexists. split; [reflexivity|].
    destruct (abs_ifelse_exact_typed tc ta tb (if bc then 1 else 0)%Z x y Bc Ia Ib) as (m & Et).
    unfold GA in Hv. assert (Htm : t = (m, BInt)) by congruence. subst t. unfold value_kind. simpl. eauto.
Qed.

(* ... and that value is the exact one (with C15's induction) *)
Corollary checker_sound_and_exact : forall ρ e t, wf e -> sty_of e = SType t ->
  exists v, abs_eval GA ρ e = AValue t (Some v) /\ exact_eval ρ e = Some v.
Proof.
  intros ρ e t Hwf Hs. destruct (checker_sound_on_expressions ρ e t Hwf Hs) as (_ & v & Ev & _).
  exists v. split; [exact Ev|]. destruct (abs_eval_exact ρ e t v Hwf Ev) as [Hx _]. exact Hx.
Qed.
