(* Partial correctness of the model's DFS worklist (traverse_and_process_operations):
   whenever it returns, the table it built is closed under operand references, contains
   every root, files every operation under its own id and has no duplicate keys.
   Fuel exhaustion is a distinct outcome, excluded by the statements. *)
From Coq Require Import ZArith List String Bool Lia.
From NadaV.PyMini Require Import PyMini.
From NadaV.Model Require Import Rules Corr Mir Surface Trace Compile.
From NadaV.Spec Require MirSpec.
Import ListNotations.
Open Scope Z_scope.
Open Scope list_scope.

Lemma zmem_In x l : zmem x l = true <-> In x l.
Proof.
  induction l as [|y l IH]; simpl; [split; [discriminate | tauto]|].
  rewrite orb_true_iff, IH, Z.eqb_eq. split; intros [H | H]; auto.
Qed.
Lemma zmem_notIn x l : zmem x l = false <-> ~ In x l.
Proof. rewrite <- zmem_In. destruct (zmem x l); split; congruence. Qed.

Definition keys (ops : list mentry) : list Z := map e_key ops.

(* every stored record is filed under its own id *)
Definition store_ok (st : list (Z * arec)) : Prop := forall k r, lookup k st = Some r -> r_id r = k.

Definition closed_upto (ops : list mentry) (stack : list Z) : Prop :=
  forall e, In e ops -> forall o, In o (operands (e_op e)) -> In o (keys ops) \/ In o stack.

Definition own_id (ops : list mentry) : Prop :=
  forall e, In e ops -> e_key e = e_id e \/ e_op e = MEmpty.

Lemma operands_entry_of r : operands (e_op (entry_of r)) = child_operations (r_node r).
Proof. unfold entry_of. destruct (r_node r); reflexivity. Qed.

Lemma key_entry_of r : e_key (entry_of r) = r_id r.
Proof. unfold entry_of. destruct (r_node r); reflexivity. Qed.

Lemma own_entry_of r : e_key (entry_of r) = e_id (entry_of r) \/ e_op (entry_of r) = MEmpty.
Proof. unfold entry_of. destruct (r_node r); simpl; auto. Qed.

Lemma keys_app a b : keys (a ++ b) = keys a ++ keys b.
Proof. unfold keys. apply map_app. Qed.

Lemma NoDup_snoc (l : list Z) x : NoDup l -> ~ In x l -> NoDup (l ++ [x]).
Proof.
  induction l as [|y l IH]; simpl; intros Hn Hx.
  - constructor; [intros [] | constructor].
  - inversion Hn; subst. constructor.
    + intros Hin. apply in_app_or in Hin. destruct Hin as [Hin | [Heq | []]]; [contradiction|].
      subst. apply Hx. left. reflexivity.
    + apply IH; auto.
Qed.

Theorem traverse_sound :
  forall fuel st fs stack ops extra c ops' extra' c',
    traverse fuel st fs stack ops extra c = Ok (ops', extra', c') ->
    store_ok st ->
    closed_upto ops stack -> own_id ops -> NoDup (keys ops) ->
    closed_upto ops' [] /\ own_id ops' /\ NoDup (keys ops')
    /\ incl (keys ops) (keys ops') /\ (forall k, In k stack -> In k (keys ops'))
    /\ (forall k, In k (keys ops') -> In k (keys ops) \/ exists r, lookup k st = Some r).
Proof.
  induction fuel as [|n IH]; intros st fs stack ops extra c ops' extra' c' H Hst Hcl Hown Hnd;
    simpl in H; [discriminate|].
  destruct stack as [|k rest].
  - inversion H; subst. repeat split; auto.
    + apply incl_refl.
    + intros k [].
  - destruct (zmem k (map e_key ops)) eqn:Hm.
    + apply zmem_In in Hm.
      assert (Hcl' : closed_upto ops rest).
      { intros e He o Ho. destruct (Hcl e He o Ho) as [Hin | [Heq | Hin]]; auto. subst. left. exact Hm. }
      destruct (IH _ _ _ _ _ _ _ _ _ H Hst Hcl' Hown Hnd) as (A & B & C & D & E & F).
      repeat split; auto.
      intros k' [<- | Hk']; auto.
    + apply zmem_notIn in Hm.
      destruct (lookup k st) as [r|] eqn:Hl; [|discriminate].
      destruct (step_node fs r extra c) as [[extra1 c1]| |] eqn:Hs; try discriminate.
      pose proof (Hst _ _ Hl) as Hid.
      assert (Hcl' : closed_upto (ops ++ [entry_of r]) (rev (child_operations (r_node r)) ++ rest)).
      { intros e He o Ho. rewrite keys_app. apply in_app_or in He. destruct He as [He | [<- | []]].
        - destruct (Hcl e He o Ho) as [Hin | [Heq | Hin]].
          + left. apply in_or_app. auto.
          + left. apply in_or_app. right. simpl. left. rewrite key_entry_of. congruence.
          + right. apply in_or_app. auto.
        - right. apply in_or_app. left. rewrite operands_entry_of in Ho. apply in_rev in Ho. exact Ho. }
      assert (Hown' : own_id (ops ++ [entry_of r])).
      { intros e He. apply in_app_or in He. destruct He as [He | [<- | []]]; auto. apply own_entry_of. }
      assert (Hnd' : NoDup (keys (ops ++ [entry_of r]))).
      { rewrite keys_app. simpl. rewrite key_entry_of, Hid. apply NoDup_snoc; auto. }
      destruct (IH _ _ _ _ _ _ _ _ _ H Hst Hcl' Hown' Hnd') as (A & B & C & D & E & F).
      repeat split; auto.
      * intros x Hx. apply D. rewrite keys_app. apply in_or_app. auto.
      * intros k' [<- | Hk'].
        -- apply D. rewrite keys_app. apply in_or_app. right. simpl. left. rewrite key_entry_of. exact Hid.
        -- apply E. apply in_or_app. auto.
      * intros k' Hk'. destruct (F k' Hk') as [Hin | Hex]; auto.
        rewrite keys_app in Hin. apply in_app_or in Hin. destruct Hin as [Hin | [Heq | []]]; auto.
        right. exists r. rewrite key_entry_of in Heq. congruence.
Qed.

(* closed tables: every operand of every entry is a key of the same table *)
Definition closed (ops : list mentry) : Prop :=
  forall e, In e ops -> forall o, In o (operands (e_op e)) -> In o (keys ops).

Corollary traverse_closed :
  forall fuel st fs root ops' extra' c' c,
    traverse fuel st fs [root] [] [] c = Ok (ops', extra', c') -> store_ok st ->
    closed ops' /\ own_id ops' /\ NoDup (keys ops') /\ In root (keys ops').
Proof.
  intros fuel st fs root ops' extra' c' c H Hst.
  destruct (traverse_sound _ _ _ _ _ _ _ _ _ _ H Hst) as (A & B & C & D & E & F).
  - intros e [].
  - intros e [].
  - constructor.
  - repeat split; auto.
    + intros e He o Ho. destruct (A e He o Ho) as [Hin | []]. exact Hin.
    + apply E. left. reflexivity.
Qed.

Lemma store_ok_all st : store_ok st.
Proof.
  induction st as [|[k' r'] st IH]; intros k r H; simpl in H; [discriminate|].
  destruct (Z.eqb k k'); [inversion H; reflexivity | apply IH; exact H].
Qed.

Lemma closed_closed_upto ops stack : closed ops -> closed_upto ops stack.
Proof. intros H e He o Ho. left. eapply H; eauto. Qed.

(* ---- the output loop: one shared program table *)
Definition outs_in (outs : list moutput) (ops : list mentry) : Prop :=
  forall o, In o outs -> In (o_op o) (keys ops).

Lemma outputs_loop_sound :
  forall outs st fs ops macc c ops' mouts fs' c',
    outputs_loop st fs outs ops macc c = Ok (ops', mouts, fs', c') ->
    closed ops -> own_id ops -> NoDup (keys ops) -> outs_in macc ops ->
    closed ops' /\ own_id ops' /\ NoDup (keys ops') /\ outs_in mouts ops' /\ incl (keys ops) (keys ops').
Proof.
  induction outs as [|o outs IH]; intros st fs ops macc c ops' mouts fs' c' H Hc Ho Hn Hm; simpl in H.
  - inversion H; subst. repeat split; auto. apply incl_refl.
  - destruct (traverse (store_fuel st) st fs [co_id o] ops [] c) as [[[ops1 extra1] c1]| |] eqn:Ht;
      simpl in H; try discriminate.
    destruct (lookup (co_id o) st) as [rec|] eqn:Hl; [|discriminate].
    destruct (traverse_sound _ _ _ _ _ _ _ _ _ _ Ht (store_ok_all st) (closed_closed_upto _ _ Hc) Ho Hn)
      as (A & B & C & D & E & F).
    assert (Hc1 : closed ops1).
    { intros e He x Hx. destruct (A e He x Hx) as [Hin | []]. exact Hin. }
    assert (Hm1 : outs_in (macc ++ [{| o_op := co_id o; o_name := co_name o; o_party := co_party o;
                                       o_ty := r_ty rec; o_sref := no_sref |}]) ops1).
    { intros x Hx. apply in_app_or in Hx. destruct Hx as [Hx | [<- | []]].
      - apply D. apply Hm. exact Hx.
      - simpl. apply E. left. reflexivity. }
    destruct (IH _ _ _ _ _ _ _ _ _ H Hc1 B C Hm1) as (A' & B' & C' & D' & E').
    repeat split; auto. intros x Hx. apply E'. apply D. exact Hx.
Qed.

(* ---- the function worklist *)
Definition fun_ok (f : mfun) : Prop :=
  closed (f_ops f) /\ own_id (f_ops f) /\ NoDup (keys (f_ops f)) /\ In (f_ret f) (keys (f_ops f)).

Lemma functions_loop_sound :
  forall fuel st fs stack acc c mfuns fs' c',
    functions_loop fuel st fs stack acc c = Ok (mfuns, fs', c') ->
    Forall fun_ok acc -> Forall fun_ok mfuns.
Proof.
  induction fuel as [|n IH]; intros st fs stack acc c mfuns fs' c' H Hacc; simpl in H; [discriminate|].
  destruct stack as [|f rest]; [inversion H; subst; exact Hacc|].
  destruct (lookup f st) as [[fid rty node]|] eqn:Hl; [|discriminate].
  destruct node; try discriminate.
  destruct (traverse (store_fuel st) st fs [child] [] [] c) as [[[ops1 extra1] c1]| |] eqn:Ht;
    simpl in H; try discriminate.
  destruct (arg_records st args) as [margs| |] eqn:Hm; simpl in H; try discriminate.
  eapply IH; [exact H|].
  apply Forall_app. split; [exact Hacc|]. constructor; [|constructor].
  destruct (traverse_closed _ _ _ _ _ _ _ _ Ht (store_ok_all st)) as (A & B & C & D).
  unfold fun_ok. simpl. auto.
Qed.

(* ---- the emitted MIR *)
Definition mir_closed (m : mir) : Prop :=
  closed (m_ops m) /\ own_id (m_ops m) /\ NoDup (keys (m_ops m))
  /\ (forall o, In o (m_outputs m) -> In (o_op o) (keys (m_ops m)))
  /\ Forall fun_ok (m_functions m).

Theorem compile_closed : forall st fs0 outs m fs',
  compile st fs0 outs = Ok (m, fs') -> mir_closed m.
Proof.
  intros st fs0 outs m fs' H. unfold compile in H.
  destruct (outputs_loop st fs0 outs [] [] (empty_cstate fs0)) as [[[[ops mouts] fs1] c1]| |] eqn:Ho;
    cbn [bind] in H; try discriminate.
  destruct (functions_loop (S (List.length st)) st fs1 (rev fs1) [] c1) as [[[mfuns fs2] c2]| |] eqn:Hf;
    cbn [bind] in H; try discriminate.
  inversion H; subst; clear H.
  destruct (outputs_loop_sound _ _ _ _ _ _ _ _ _ _ Ho) as (A & B & C & D & E).
  - intros e [].
  - intros e [].
  - constructor.
  - intros o [].
  - unfold mir_closed. simpl. repeat split; auto.
    eapply functions_loop_sound; [exact Hf | constructor].
Qed.

Theorem run_closed : forall G p m, run G p = Ok m -> mir_closed m.
Proof.
  intros G p m H. unfold run, run_from in H.
  destruct (exec G (stmts_size (p_stmts p)) [] (p_stmts p) init_state) as [[rho s']| |];
    cbn [bind] in H; try discriminate.
  destruct (make_outputs rho (p_outs p)) as [couts| |]; cbn [bind] in H; try discriminate.
  destruct (existsb (has_no_id rho) (p_outs p)); cbn [bind] in H; try discriminate.
  destruct (compile (store s') [] couts) as [[m' fs']| |] eqn:Hc; cbn [bind fst snd] in H; try discriminate.
  inversion H; subst. eapply compile_closed; eauto.
Qed.

(* ---- soundness of the boolean checker used on implementation MIRs (closedness part) *)
Lemma count_key_pos k t : (0 < count_key k t)%nat -> In k (keys t).
Proof.
  unfold count_key, keys. induction t as [|e t IH]; simpl; [lia|].
  destruct (Z.eqb (e_key e) k) eqn:E; simpl; intros H.
  - left. apply Z.eqb_eq. exact E.
  - right. apply IH. exact H.
Qed.

Lemma table_closedb_closed m own t : NadaV.Spec.MirSpec.table_closedb m own t = true -> closed t.
Proof.
  unfold NadaV.Spec.MirSpec.table_closedb. rewrite forallb_forall. intros H e He o Ho.
  specialize (H e He). unfold NadaV.Spec.MirSpec.entry_closedb in H.
  apply andb_prop in H. destruct H as [H _]. apply andb_prop in H. destruct H as [H _].
  apply andb_prop in H. destruct H as [_ Hf].
  rewrite forallb_forall in Hf. specialize (Hf o Ho).
  apply count_key_pos. apply Nat.eqb_eq in Hf. rewrite Hf. constructor.
Qed.
