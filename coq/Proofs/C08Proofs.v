(* C08, source tables: whatever the process did before (ANY earlier state), a compilation that starts
   with the reset emits only references indexed since then, and only files — with the text read —
   touched since then, provided each reference is indexed after its file was touched (back_frame
   reads the line information before the reference exists). *)
From Coq Require Import ZArith List String Bool Lia.
From NadaV.Model Require Import SourceRef.
Import ListNotations.
Open Scope string_scope.
Open Scope list_scope.

Definition run (resets filtered by_path : bool) (s : stabs) (ops : list sop) : stabs :=
  fold_left (tstep resets by_path) ops s.

Lemma sref0_eqb_eq a b : sref0_eqb a b = true -> a = b.
Proof.
  destruct a, b; unfold sref0_eqb; simpl; intros H.
  repeat (apply andb_prop in H; destruct H as [H ?]).
  apply String.eqb_eq in H. repeat match goal with E : Z.eqb _ _ = true |- _ => apply Z.eqb_eq in E end.
  subst. reflexivity.
Qed.

(* ---- references *)
Lemma index_refs r s x : In x (t_refs (index r s)) -> In x (t_refs s) \/ x = r.
Proof.
  unfold index. destruct (existsb (sref0_eqb r) (t_refs s)); simpl; auto.
  intros H. apply in_app_or in H. destruct H as [H | [<- | []]]; auto.
Qed.

Lemma refs_since (by_path : bool) ops : forall s x,
  ~ In OCompileStart ops ->
  In x (t_refs (fold_left (tstep true by_path) ops s)) -> In x (t_refs s) \/ In (OIndex x) ops.
Proof.
  induction ops as [|o ops IH]; simpl; intros s x Hn H; auto.
  assert (Hn' : ~ In OCompileStart ops) by (intros C; apply Hn; auto).
  destruct (IH _ _ Hn' H) as [H1 | H1]; [|auto].
  destruct o as [p b ver d | r |]; simpl in H1.
  - left. unfold touch in H1. destruct (cache_find b (t_cache s)) as [e|]; [destruct (by_path && negb ((c_path e =? p)%string && Z.eqb (c_ver e) ver))|]; exact H1.
  - destruct (index_refs _ _ _ H1) as [H2 | ->]; auto.
  - exfalso. apply Hn. auto.
Qed.

Theorem refs_fresh : forall by_path s0 ops x,
  ~ In OCompileStart ops ->
  In x (emit_refs (fold_left (tstep true by_path) ops (tstep true by_path s0 OCompileStart))) -> In (OIndex x) ops.
Proof.
  intros by_path s0 ops x Hn H. unfold emit_refs in H.
  destruct (refs_since by_path ops _ x Hn H) as [H1 | H1]; [|exact H1]. simpl in H1. contradiction.
Qed.

(* ---- files: what the cache holds for a base name, step by step *)
Lemma cache_find_put_same e c : cache_find (c_base e) (cache_put e c) = Some e.
Proof.
  induction c as [|x c IH]; simpl.
  - rewrite String.eqb_refl. reflexivity.
  - destruct (String.eqb (c_base x) (c_base e)) eqn:E; simpl.
    + rewrite String.eqb_refl. reflexivity.
    + rewrite E. exact IH.
Qed.
Lemma cache_find_put_other e c b : String.eqb (c_base e) b = false -> cache_find b (cache_put e c) = cache_find b c.
Proof.
  intros Hb. induction c as [|x c IH]; simpl.
  - rewrite Hb. reflexivity.
  - destruct (String.eqb (c_base x) (c_base e)) eqn:E; simpl.
    + apply String.eqb_eq in E. rewrite E, Hb. reflexivity.
    + destruct (String.eqb (c_base x) b); auto.
Qed.

(* the state of one base name: path, modification stamp and text held for it *)
Definition held (s : stabs) (base : string) : option (string * Z * string) :=
  option_map (fun e => (c_path e, c_ver e, c_text e)) (cache_find base (t_cache s)).

Definition upd (acc : option (string * Z * string)) (o : sop) (base : string) : option (string * Z * string) :=
  match o with
  | OTouch p b v d => if String.eqb b base then
                        match acc with
                        | Some (p0, v0, d0) => if String.eqb p0 p && Z.eqb v0 v then Some (p0, v0, d0) else Some (p, v, d)
                        | None => Some (p, v, d)
                        end
                      else acc
  | _ => acc
  end.

Lemma held_step resets s o base : held (tstep resets true s o) base = upd (held s base) o base.
Proof.
  destruct o as [p b v d | r |]; simpl.
  - unfold touch, held. destruct (String.eqb b base) eqn:Eb.
    + apply String.eqb_eq in Eb. subst b.
      destruct (cache_find base (t_cache s)) as [e|] eqn:Ef; simpl.
      * destruct (String.eqb (c_path e) p && Z.eqb (c_ver e) v) eqn:Ep; simpl.
        -- rewrite Ef. simpl. reflexivity.
        -- pose proof (cache_find_put_same {| c_base := base; c_path := p; c_ver := v; c_text := d |} (t_cache s)) as H. simpl in H.
           rewrite H. reflexivity.
      * pose proof (cache_find_put_same {| c_base := base; c_path := p; c_ver := v; c_text := d |} (t_cache s)) as H. simpl in H.
        rewrite H. reflexivity.
    + destruct (cache_find b (t_cache s)) as [e|] eqn:Ef; simpl.
      * destruct (negb (String.eqb (c_path e) p && Z.eqb (c_ver e) v)); simpl; [|reflexivity].
        rewrite cache_find_put_other by exact Eb. reflexivity.
      * rewrite cache_find_put_other by exact Eb. reflexivity.
  - unfold index, held. destruct (existsb (sref0_eqb r) (t_refs s)); reflexivity.
  - destruct resets; reflexivity.
Qed.

Lemma held_run resets ops : forall s base,
  held (fold_left (tstep resets true) ops s) base = fold_left (fun acc o => upd acc o base) ops (held s base).
Proof.
  induction ops as [|o ops IH]; simpl; intros s base; [reflexivity|].
  rewrite IH, held_step. reflexivity.
Qed.

(* what is held for [base] after a run is either what one of the run's touches read, or the earlier
   entry — and then every touch of [base] in the run was of that very path with that very stamp (the file unchanged) *)
Lemma fold_upd_origin ops base : forall acc p v d,
  fold_left (fun a o => upd a o base) ops acc = Some (p, v, d) ->
  In (OTouch p base v d) ops
  \/ (acc = Some (p, v, d) /\ forall p1 v1 d1, In (OTouch p1 base v1 d1) ops -> p1 = p /\ v1 = v).
Proof.
  induction ops as [|o ops IH]; simpl; intros acc p v d H.
  - right. split; [exact H | intros ? ? ? []].
  - destruct (IH _ _ _ _ H) as [H1 | [H1 H2]]; [auto|].
    destruct o as [p1 b1 v1 d1 | r |]; simpl in H1.
    + destruct (String.eqb b1 base) eqn:Eb.
      * apply String.eqb_eq in Eb. subst b1.
        destruct acc as [[[p0 v0] d0]|].
        -- destruct (String.eqb p0 p1 && Z.eqb v0 v1) eqn:Ep.
           ++ apply andb_prop in Ep. destruct Ep as [Ep Ev]. apply String.eqb_eq in Ep. apply Z.eqb_eq in Ev. subst p1 v1.
              inversion H1; subst.
              right. split; [reflexivity|]. intros p2 v2 d2 [E | Hin]; [inversion E; auto | eauto].
           ++ inversion H1; subst. auto.
        -- inversion H1; subst. auto.
      * right. split; [exact H1|]. intros p2 v2 d2 [E | Hin]; [|eauto].
        inversion E; subst. rewrite String.eqb_refl in Eb. discriminate.
    + right. split; [exact H1|]. intros p2 v2 d2 [E | Hin]; [discriminate | eauto].
    + right. split; [exact H1|]. intros p2 v2 d2 [E | Hin]; [discriminate | eauto].
Qed.

Theorem files_fresh : forall resets s0 ops base p v d,
  held (fold_left (tstep resets true) ops s0) base = Some (p, v, d) ->
  In (OTouch p base v d) ops
  \/ (held s0 base = Some (p, v, d) /\ forall p1 v1 d1, In (OTouch p1 base v1 d1) ops -> p1 = p /\ v1 = v).
Proof.
  intros resets s0 ops base p v d H. rewrite held_run in H. exact (fold_upd_origin _ _ _ _ _ _ H).
Qed.

(* every emitted file is held in the cache and, when get_sources filters, some emitted reference points into it *)
Lemma emit_files_held s base text :
  In (base, text) (emit_files true (s)) ->
  (exists r, In r (t_refs s) /\ s_file r = base) /\ exists e, In e (t_cache s) /\ c_base e = base /\ c_text e = text.
Proof.
  unfold emit_files. intros H. apply in_map_iff in H. destruct H as (e & E & Hin).
  apply filter_In in Hin. destruct Hin as [Hin Hex]. inversion E; subst.
  apply existsb_exists in Hex. destruct Hex as (r & Hr & Heq). apply String.eqb_eq in Heq.
  split; [exists r; auto | exists e; auto].
Qed.

(* without the reset, or without validation by path, the statements fail: concrete histories *)
Definition r1 : sref0 := {| s_file := "a.py"; s_line := 1; s_off := 0; s_len := 5 |}.
Definition r2 : sref0 := {| s_file := "b.py"; s_line := 2; s_off := 6; s_len := 3 |}.
Example stale_refs_without_reset :
  let s := fold_left (tstep false true) [OTouch "/x/a.py" "a.py" 1 "AAAAA"; OIndex r1; OCompileStart;
                                          OTouch "/y/b.py" "b.py" 1 "B"; OIndex r2] {| t_refs := []; t_cache := [] |} in
  emit_refs (fold_left (tstep false true) [OCompileStart; OTouch "/y/b.py" "b.py" 1 "B"; OIndex r2] s) = [r1; r2].
Proof. vm_compute. reflexivity. Qed.
Example stale_text_without_path_validation :
  let s := fold_left (tstep true false) [OTouch "/x/prog.py" "prog.py" 1 "FIRST"; OIndex r1] {| t_refs := []; t_cache := [] |} in
  emit_files true (fold_left (tstep true false) [OCompileStart; OTouch "/y/prog.py" "prog.py" 1 "SECOND";
                                                    OIndex {| s_file := "prog.py"; s_line := 1; s_off := 0; s_len := 6 |}] s)
  = [("prog.py", "FIRST")].
Proof. vm_compute. reflexivity. Qed.
