(* C05, end to end for the WHOLE surface language: in the MIR of every program, each output carries the type of the
   VALUE the program returned for it (the type [to_mir] of the value bound to the returned variable), and that is the
   type recorded for the operation the output names. *)
From Coq Require Import ZArith List String Bool Lia.
From NadaV.PyMini Require Import PyMini.
From NadaV.Model Require Import Rules Corr Mir Surface Trace Compile.
From NadaV.Proofs Require Import ScalarInv TraceMono C11Program C12Steps WrapTypes C05Edges C10Program.
Import ListNotations.
Open Scope string_scope.
Open Scope Z_scope.
Open Scope list_scope.

Definition typed_like_the_value (ρ : env) (st : list (Z * arec)) (o : output) (mo : moutput) : Prop :=
  exists w rec, assoc (out_var o) ρ = Some (BWrap w) /\ wid w = Some (o_op mo)
                /\ lookup (o_op mo) st = Some rec /\ r_ty rec = o_ty mo /\ to_mir w = Ok (o_ty mo).

Theorem outputs_have_the_type_of_the_returned_value (GG : genv) : forall p m,
  run GG p = Ok m ->
  exists ρ s', exec GG (stmts_size (p_stmts p)) [] (p_stmts p) init_state = Ok (ρ, s')
              /\ Forall2 (typed_like_the_value ρ (store s')) (p_outs p) (m_outputs m).
Proof.
  intros p m Hr. unfold run in Hr.
  destruct (run_from GG init_state [] p) as [[[m' s'] fs']| |] eqn:Hf; cbn [bind fst] in Hr; try discriminate Hr.
  inversion Hr; subst m'; clear Hr.
  destruct (mir_outputs_are_the_returned_ones GG _ _ _ _ _ Hf) as (ρ & Hex & F).
  exists ρ, s'. split; [exact Hex|].
  assert (HE : InvE ρ s').
  { eapply (exec_coherent GG); [apply Inv_init | intros x w H; discriminate H | exact Hex]. }
  eapply Forall2_imp; [|exact F]. intros o mo (_ & _ & w & rec & Hw & Hid & Hl & Ht).
  exists w, rec. repeat split; auto.
  destruct (cohd_coh _ _ (HE _ _ Hw) _ Hid) as (t & Hm & (r & Hl' & Hrt)).
  rewrite Hl in Hl'. inversion Hl'; subst r. rewrite Hm. f_equal. congruence.
Qed.
