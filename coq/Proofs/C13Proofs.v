From Coq Require Import List String Bool.
From NadaV.Model Require Import Cli.
Import ListNotations.
Open Scope string_scope.

Lemma one_json : forall argv rs rstr,
  invoked_with_program argv = true ->
  rs <> RaisedBaseException -> rstr <> RaisedBaseException ->
  exists l, cli argv rs rstr = [l] /\
    (match argv with
     | [_; _] => (rs = Compiled -> l = LSuccess) /\ (rs = RaisedException -> l = LFailure)
     | _ => (rstr = Compiled -> l = LSuccess) /\ (rstr = RaisedException -> l = LFailure)
     end).
Proof.
  intros argv rs rstr Hinv Hs Hstr.
  destruct argv as [|a0 argv]; [discriminate|].
  destruct argv as [|a1 argv]; [discriminate|].
  destruct argv as [|a2 argv].
  - destruct rs; try congruence; eexists; (split; [reflexivity|]); split; congruence.
  - destruct argv as [|a3 argv]; [|discriminate].
    simpl in Hinv. unfold cli. rewrite Hinv.
    destruct rstr; try congruence; eexists; (split; [reflexivity|]); split; congruence.
Qed.

Lemma timer_restart : forall n r f,
  ~ In n r -> exists c, clock_start (Default r f) n = Some c /\
                        exists c', clock_stop c n = Some c' /\ exists c'', clock_start c' n = Some c''.
Proof.
  intros n r f Hn. simpl.
  assert (E : existsb (String.eqb n) r = false).
  { apply Bool.not_true_is_false. intros H. apply existsb_exists in H. destruct H as [x [Hx He]].
    apply String.eqb_eq in He. subst. contradiction. }
  rewrite E. eexists. split; [reflexivity|].
  cbn [clock_stop existsb]. rewrite String.eqb_refl. cbn [orb].
  eexists. split; [reflexivity|].
  cbn [clock_start filter]. rewrite String.eqb_refl. cbn [negb].
  assert (E2 : existsb (String.eqb n) (filter (fun x => negb (String.eqb x n)) r) = false).
  { apply Bool.not_true_is_false. intros H. apply existsb_exists in H. destruct H as [x [Hx He]].
    apply filter_In in Hx. destruct Hx as [_ Hx]. apply String.eqb_eq in He. subst.
    rewrite String.eqb_refl in Hx. discriminate. }
  rewrite E2. eexists. reflexivity.
Qed.
