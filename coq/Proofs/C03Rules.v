(* C03, rule facts for the program-level induction (see C03Program.v): for EVERY program of the scalar fragment (literals, inputs, random values, all
   twenty binary operators, ~, to_public, if_else, k + x) the tracer types a value secret whenever a
   secret input or a random value flows into it through anything but the two declassifiers, and the
   MIR records that type for it.  Induction over the statements; the facts about the operator rules
   hold for ANY operand values (symbolic evaluation of the code regenerated from scalar_types.py). *)
From Coq Require Import ZArith List String Bool Lia.
From NadaV.PyMini Require Import PyMini.
From NadaV.Gen Require GenScalar.
From NadaV.Model Require Import Rules Corr Mir Surface Trace Compile.
From NadaV.Proofs Require Import Finite C02Proofs C06Proofs CompileProofs C18Proofs ScalarInv.
Import ListNotations.
Open Scope string_scope.
Open Scope Z_scope.
Open Scope list_scope.

Definition G := GenScalar.G.
Definition sec (t : sty) : bool := mode_eqb (fst t) MSecret.

(* ---------------------------------------------------------------- rule facts, any operand values *)
Definition bin_taint (o : op) (ta tb : sty) (out : outcome) : Prop :=
  match out with
  | Emit name t roles => roles = [("left", 0); ("right", 1)] /\ fst t <> MConst
                         /\ (op_eqb o OPublicEquals = false -> sec ta || sec tb = true -> fst t = MSecret)
  | Fold t v => fst t = MConst /\ (exists z, z_of_value v = Some z) /\ sec ta || sec tb = false
  | Same _ => False
  | _ => True
  end.

Ltac fin := repeat split; try discriminate; try (eexists; reflexivity); try reflexivity;
            try (intros; reflexivity); try (intros; discriminate).

Lemma bin_taint_all : forall o ta tb x y, bin_taint o ta tb (rule2v G o ta tb x y).
Proof.
  intros o [ma ba] [mb bb] x y.
  destruct o; destruct ma, ba, mb, bb; pm; try (fin; fail).
  all: try (destruct y; pm; fin; fail).
  all: try (destruct x; pm; fin; fail).
Qed.

Definition un_taint (u : unop) (ta : sty) (out : outcome) : Prop :=
  match out with
  | Emit name t roles => roles = [("child", 0)] /\ fst t <> MConst
                         /\ (u = UInvert -> sec ta = true -> fst t = MSecret)
  | Fold t v => fst t = MConst /\ (exists z, z_of_value v = Some z) /\ sec ta = false
  | _ => True
  end.

Lemma un_taint_all : forall u ta x,
  un_taint u ta (classify (dispatch_method G (match u with UInvert => "__invert__" | UToPublic => "to_public" end)
                                           (operand ta x 0) [])).
Proof.
  intros u [ma ba] x. destruct u; destruct ma, ba; pm; try (fin; fail).
  all: try (destruct x; pm; fin; fail).
Qed.

Definition if_taint (tc ta tb : sty) (out : outcome) : Prop :=
  match out with
  | Emit name t roles => roles = roles3 /\ fst t <> MConst /\ (sec tc || sec ta || sec tb = true -> fst t = MSecret)
  | _ => True
  end.
Lemma if_taint_all : forall tc ta tb, if_taint tc ta tb (rule_ifelse G tc ta tb).
Proof.
  intros [mc bc] [ma ba] [mb bb].
  destruct mc, bc, ma, ba, mb, bb; vm_compute; fin.
Qed.

