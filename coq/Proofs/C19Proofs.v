From Coq Require Import ZArith List String Bool Ascii Lia.
From NadaV.Model Require Import SourceRef.
Import ListNotations.
Open Scope string_scope.

Lemma substring_app_l a b : substring 0 (String.length a) (a ++ b) = a.
Proof. induction a as [|c a IH]; simpl; [destruct b; reflexivity | rewrite IH; reflexivity]. Qed.

Lemma substring_app_r a b m n : substring (String.length a + m) n (a ++ b) = substring m n b.
Proof. induction a as [|c a IH]; simpl; auto. Qed.

Lemma length_app a b : String.length (a ++ b) = String.length a + String.length b.
Proof. induction a as [|c a IH]; simpl; auto. Qed.

Lemma substring_all a : substring 0 (String.length a) a = a.
Proof. induction a as [|c a IH]; simpl; [reflexivity | rewrite IH; reflexivity]. Qed.

(* the k-th line is exactly the slice [offset_of k, offset_of k + len) of the joined text *)
Theorem slice_is_line : forall ls k, k < List.length ls ->
  substring (offset_of 1 ls k) (String.length (nth k ls "")) (join ls) = nth k ls "".
Proof.
  induction ls as [|l r IH]; intros k Hk; simpl in Hk; [lia|].
  destruct k as [|k'].
  - simpl. destruct r as [|l2 r']; [apply substring_all | apply substring_app_l].
  - destruct r as [|l2 r']; [simpl in Hk; lia|].
    change (join (l :: l2 :: r')) with (l ++ nl ++ join (l2 :: r')).
    change (offset_of 1 (l :: l2 :: r') (S k')) with (String.length l + 1 + offset_of 1 (l2 :: r') k').
    change (nth (S k') (l :: l2 :: r') "") with (nth k' (l2 :: r') "").
    rewrite <- Nat.add_assoc. rewrite substring_app_r.
    change (nl ++ join (l2 :: r')) with (String (ascii_of_nat 10) (join (l2 :: r'))).
    simpl substring at 1. apply IH. simpl in Hk. simpl. lia.
Qed.

(* the slice is delimited by newlines (or the ends of the text) *)
Theorem slice_end_delimited : forall ls k, k < List.length ls ->
  let e := offset_of 1 ls k + String.length (nth k ls "") in
  e = String.length (join ls) \/ get e (join ls) = Some (ascii_of_nat 10).
Proof.
  induction ls as [|l r IH]; intros k Hk; simpl in Hk; [lia|].
  destruct k as [|k'].
  - simpl. destruct r as [|l2 r']; [left; reflexivity|].
    right. change (join (l :: l2 :: r')) with (l ++ nl ++ join (l2 :: r')).
    clear. induction l as [|c l IHl]; simpl; auto.
  - destruct r as [|l2 r']; [simpl in Hk; lia|].
    change (join (l :: l2 :: r')) with (l ++ nl ++ join (l2 :: r')).
    change (offset_of 1 (l :: l2 :: r') (S k')) with (String.length l + 1 + offset_of 1 (l2 :: r') k').
    change (nth (S k') (l :: l2 :: r') "") with (nth k' (l2 :: r') "").
    assert (Hk' : k' < List.length (l2 :: r')) by (simpl in *; lia).
    destruct (IH k' Hk') as [He | Hg]; cbv zeta in *.
    + left. rewrite length_app. change (String.length (nl ++ join (l2 :: r'))) with (S (String.length (join (l2 :: r')))). lia.
    + right.
      assert (G : forall a b i, get (String.length a + i) (a ++ b) = get i b).
      { clear. induction a as [|c a IHa]; simpl; auto. }
      replace (String.length l + 1 + offset_of 1 (l2 :: r') k' + String.length (nth k' (l2 :: r') ""))
        with (String.length l + S (offset_of 1 (l2 :: r') k' + String.length (nth k' (l2 :: r') ""))) by lia.
      rewrite G. change (nl ++ join (l2 :: r')) with (String (ascii_of_nat 10) (join (l2 :: r'))).
      simpl get. exact Hg.
Qed.

(* try_get_line_info with the recognised constants (<=, +1, -1, -1) returns that slice *)
Theorem line_info_exact : forall lines n,
  (1 <= n <= Z.of_nat (List.length lines))%Z ->
  let '(off, len) := line_info true 1 1 1 lines n in
  substring (Z.to_nat off) (Z.to_nat len) (join lines) = nth (Z.to_nat (n - 1)) lines "".
Proof.
  intros lines n Hn. unfold line_info.
  assert (E : (n <=? Z.of_nat (List.length lines))%Z = true) by (apply Z.leb_le; lia).
  rewrite E. rewrite !Nat2Z.id. change (Z.to_nat 1) with 1.
  apply slice_is_line. lia.
Qed.

(* with the strict guard the last line gets (0, 0): the statement is then false *)
Lemma line_info_strict_guard_loses_last_line :
  line_info false 1 1 1 ["ab"; "cd"] 2 = (0%Z, 0%Z).
Proof. reflexivity. Qed.

Open Scope list_scope.
(* frame selection: any number of DSL frames between back_frame's caller and the user's frame *)
Theorem walk_finds_user : forall dsl u rest,
  Forall (fun f => fr_kind f = Dsl) dsl -> fr_kind u = User ->
  walk (dsl ++ u :: rest) = Some u.
Proof.
  induction dsl as [|d dsl IH]; intros u rest Hd Hu; simpl.
  - destruct rest; [reflexivity | rewrite Hu; reflexivity].
  - inversion Hd; subst. destruct (dsl ++ u :: rest) eqn:E.
    + destruct dsl; discriminate.
    + rewrite H1. rewrite <- E. apply IH; auto.
Qed.

Theorem select_finds_user : forall bf site dsl u rest,
  Forall (fun f => fr_kind f = Dsl) dsl -> fr_kind u = User ->
  select 2 true (bf :: site :: dsl ++ u :: rest) = Some u.
Proof. intros. unfold select. simpl skipn. apply walk_finds_user; assumption. Qed.

(* without the walk, one DSL helper frame between the operator method and back_frame's caller
   already yields a DSL frame *)
Lemma fixed_hops_selects_dsl_frame : forall bf site d u rest,
  fr_kind d = Dsl -> select 2 false (bf :: site :: d :: u :: rest) = Some d.
Proof. reflexivity. Qed.


(* ---- text.split('\n'): never empty, and join is its inverse *)
Fixpoint split_lines (s : string) : list string :=
  match s with
  | EmptyString => [EmptyString]
  | String c r =>
      if Ascii.eqb c (ascii_of_nat 10) then EmptyString :: split_lines r
      else match split_lines r with
           | h :: t => String c h :: t
           | [] => [String c EmptyString]
           end
  end.

Lemma split_lines_nonempty s : split_lines s <> [].
Proof.
  destruct s as [|c r]; simpl; [discriminate|].
  destruct (Ascii.eqb c (ascii_of_nat 10)); [discriminate|]. destruct (split_lines r); discriminate.
Qed.

Lemma join_cons_nonempty h x t : join (h :: x :: t) = (h ++ nl ++ join (x :: t))%string.
Proof. reflexivity. Qed.

Theorem join_split_lines : forall s, join (split_lines s) = s.
Proof.
  induction s as [|c r IH]; [reflexivity|]. simpl.
  destruct (Ascii.eqb c (ascii_of_nat 10)) eqn:E.
  - apply Ascii.eqb_eq in E. subst c.
    destruct (split_lines r) as [|x t] eqn:Er; [exfalso; eapply split_lines_nonempty; eauto|].
    rewrite join_cons_nonempty, IH. reflexivity.
  - destruct (split_lines r) as [|h t] eqn:Er; [exfalso; eapply split_lines_nonempty; eauto|].
    destruct t as [|x t'].
    + simpl in IH |- *. rewrite IH. reflexivity.
    + rewrite join_cons_nonempty in IH. rewrite join_cons_nonempty.
      change ((String c h ++ nl ++ join (x :: t'))%string) with (String c (h ++ nl ++ join (x :: t'))%string).
      rewrite IH. reflexivity.
Qed.
