(* C02, program level: for EVERY program of the scalar fragment that the tracer accepts, every value it binds
   has exactly the type the written rules (Spec/TypingSpec.v) give to its defining expression, whatever the
   provenance of the operands (inputs, literals, folded literals, results of earlier operations): the static
   typing of the program by the written rules succeeds and agrees with the tracer on every variable.
   Induction over the statements; rule facts (for ANY operand values) in C02Rules.v. *)
From Coq Require Import ZArith List String Bool Lia.
From NadaV.PyMini Require Import PyMini.
From NadaV.Gen Require GenScalar.
From NadaV.Model Require Import Rules Corr Mir Surface Trace Compile.
From NadaV.Spec Require Import TypingSpec.
From NadaV.Proofs Require Import Finite C02Proofs C06Proofs CompileProofs C18Proofs ScalarInv C02Rules.
Import ListNotations.
Open Scope string_scope.
Open Scope Z_scope.
Open Scope list_scope.

(* ---------------------------------------------------------------- static typing by the written rules *)
Definition tyenv := list (string * sty).

Definition type_rhs (Γ : tyenv) (r : rhs) : option sty :=
  match r with
  | RLit b _ => Some (MConst, b)
  | RInput _ _ _ (IScalar t) => if mode_eqb (fst t) MConst then None else Some t
  | RRandom b => Some (MSecret, b)
  | RBin o a b => match assoc a Γ, assoc b Γ with Some ta, Some tb => principal (spec2 o ta tb) | _, _ => None end
  | RNot a => match assoc a Γ with Some ta => principal (spec1 UInvert ta) | None => None end
  | RToPublic a =>
      match assoc a Γ with
      | Some ta => match spec1 UToPublic ta with MustAccept t => Some t | MustSame => Some ta | _ => None end
      | None => None
      end
  | RIfElse c a b =>
      match assoc c Γ, assoc a Γ, assoc b Γ with
      | Some tc, Some ta, Some tb => principal (spec_ifelse tc ta tb)
      | _, _, _ => None
      end
  | RRAdd _ a =>
      match assoc a Γ with
      | Some ta => if numeric (snd ta) then principal (spec2 OAdd ta (MConst, snd ta)) else None
      | None => None
      end
  | _ => None
  end.

Definition in_fragment (r : rhs) : bool :=
  match r with
  | RLit _ _ | RRandom _ | RBin _ _ _ | RNot _ | RToPublic _ | RIfElse _ _ _ | RRAdd _ _ => true
  | RInput _ _ _ (IScalar _) => true
  | _ => false
  end.

Fixpoint type_stmts (ss : list stmt) (Γ : tyenv) : option tyenv :=
  match ss with
  | [] => Some Γ
  | SLet x r :: rest => match type_rhs Γ r with Some t => type_stmts rest ((x, t) :: Γ) | None => None end
  | SDef _ _ _ _ _ :: _ => None
  end.
Fixpoint scalar_fragment (ss : list stmt) : bool :=
  match ss with
  | [] => true
  | SLet _ r :: rest => in_fragment r && scalar_fragment rest
  | SDef _ _ _ _ _ :: _ => false
  end.

(* ---------------------------------------------------------------- the invariant: the static type IS the type *)
Definition PE (t0 t : sty) (_ : option Z) : Prop := t0 = t.
Notation val_ok := (ScalarInv.val_ok sty PE).
Notation env_ok := (ScalarInv.env_ok sty PE).
Notation step_ok := (ScalarInv.step_ok sty PE).
Notation get_wrap_inv := (ScalarInv.get_wrap_inv sty PE).
Notation env_ok_ext := (ScalarInv.env_ok_ext sty PE).
Notation new_literal_ok := (ScalarInv.new_literal_ok sty PE).
Notation pushed_step := (ScalarInv.pushed_step sty PE).
Notation emit_ok := (ScalarInv.emit_ok sty PE).
Notation emit1_ok := (ScalarInv.emit1_ok sty PE).
Notation emit2_ok := (ScalarInv.emit2_ok sty PE).
Notation emit3_ok := (ScalarInv.emit3_ok sty PE).

Lemma sty_eta (t : sty) : t = (fst t, snd t).  Proof. destruct t; reflexivity. Qed.

Lemma binop_ok o ta ida va tb idb vb s w s1 :
  do_binop G o (WScalar ta ida va) (WScalar tb idb vb) s = Ok (w, s1) -> fresh_store s ->
  exists t, principal (spec2 o ta tb) = Some t /\ step_ok s s1 w t.
Proof.
  intros H Hf.
  pose proof (bin_conf_all o ta tb (value_of (WScalar ta ida va)) (value_of (WScalar tb idb vb))) as Hspec.
  unfold do_binop in H.
  destruct (rule2v G o ta tb (value_of (WScalar ta ida va)) (value_of (WScalar tb idb vb))) as [e | t0 v0 | name t0 roles | k | e | e];
    cbn [bin_conf] in Hspec; try discriminate H; try contradiction.
  - destruct Hspec as (Hc & (z & Hz) & Hp). rewrite Hz in H. exists t0. split; [exact Hp|].
    eapply new_literal_ok; [exact H | | exact Hf]. unfold PE. rewrite (sty_eta t0) at 1. rewrite Hc. reflexivity.
  - destruct Hspec as (Hr & Hc & Hp). subst roles. rewrite pick_left, pick_right in H. exists t0. split; [exact Hp|].
    apply (emit2_ok t0 (fun l r => ABinary name l r) _ _ s w s1 _ H); [reflexivity | exact Hf].
Qed.

Lemma unop_ok u ta ida va s w s1 :
  do_unop G u (WScalar ta ida va) s = Ok (w, s1) -> idlink s ida ta -> fresh_store s ->
  exists t, match spec1 u ta with MustAccept t' => Some t' | MustSame => Some ta | _ => None end = Some t /\ step_ok s s1 w t.
Proof.
  intros H Hl Hf.
  pose proof (un_conf_all u ta (value_of (WScalar ta ida va))) as Hspec.
  unfold do_unop in H.
  destruct (classify (dispatch_method G (match u with UInvert => "__invert__" | UToPublic => "to_public" end)
                                      (operand ta (value_of (WScalar ta ida va)) 0) [])) as [e | t0 v0 | name t0 roles | k | e | e];
    cbn [un_conf] in Hspec; try discriminate H.
  - destruct Hspec as (Hc & (z & Hz) & Hp). rewrite Hz in H. exists t0. rewrite Hp. split; [reflexivity|].
    eapply new_literal_ok; [exact H | | exact Hf]. unfold PE. rewrite (sty_eta t0) at 1. rewrite Hc. reflexivity.
  - destruct Hspec as (Hr & Hc & Hp). subst roles. rewrite pick_child in H. exists t0. rewrite Hp. split; [reflexivity|].
    apply (emit1_ok t0 (fun c => AUnary name c) _ s w s1 _ H); [reflexivity | exact Hf].
  - rewrite Hspec. exists ta. split; [reflexivity|].
    unfold ret in H. inversion H; subst. split; [apply ext_refl|]. split; [exact Hf|].
    exists ta, ida, va. split; [reflexivity|]. split; [reflexivity | exact Hl].
Qed.

Lemma ifelse_ok tc idc vc ta ida va tb idb vb s w s1 :
  do_ifelse G (WScalar tc idc vc) (WScalar ta ida va) (WScalar tb idb vb) s = Ok (w, s1) -> fresh_store s ->
  exists t, principal (spec_ifelse tc ta tb) = Some t /\ step_ok s s1 w t.
Proof.
  intros H Hf. pose proof (if_conf_all tc ta tb) as Hspec. unfold do_ifelse in H.
  destruct (rule_ifelse G tc ta tb) as [e | t0 v0 | name t0 roles | k | e | e]; cbn [if_conf] in Hspec; try discriminate H.
  destruct Hspec as (Hr & Hc & Hp). subst roles. rewrite pick_this, pick_arg0, pick_arg1 in H.
  exists t0. rewrite Hp. split; [reflexivity|].
  apply (emit3_ok t0 (fun a b c => AIfElse a b c) _ _ _ s w s1 _ H); [reflexivity | exact Hf].
Qed.

Ltac use_wrap He H x :=
  let w := fresh "w" in let s' := fresh "s'" in let E := fresh "E" in
  destruct (get_wrap G) eqn:E.

(* one statement *)
Lemma rhs_ok ρ Γ r s w s1 :
  eval_rhs G ρ r s = Ok (w, s1) -> in_fragment r = true -> env_ok s ρ Γ -> fresh_store s ->
  exists t, type_rhs Γ r = Some t /\ step_ok s s1 w t.
Proof.
  intros H Hfr He Hf. destruct r; try discriminate Hfr.
  - (* RLit *) exists (MConst, b). split; [reflexivity|]. cbn [eval_rhs] in H.
    eapply new_literal_ok; [exact H | reflexivity | exact Hf].
  - (* RInput *)
    destruct t as [[m b0]|]; [|discriminate Hfr]. cbn [type_rhs fst].
    cbn [eval_rhs mk_input] in H. destruct m; unfold mbind, alloc, put, ret, fail in H; cbn [counter store lits] in H;
      try discriminate H; cbn [mode_eqb]; (eexists; split; [reflexivity|]);
      inversion H; subst; (apply pushed_step; [assumption | lia | lia | reflexivity | reflexivity]).
  - (* RRandom *)
    exists (MSecret, b). split; [reflexivity|]. cbn [eval_rhs] in H.
    apply (emit_ok (MSecret, b) (fun _ => ARandom) s w s1 _ H); [reflexivity | exact Hf].
  - (* RBin *)
    cbn [eval_rhs] in H. unfold mbind in H.
    destruct (get_wrap ρ a s) as [[wa sa]| |] eqn:Ga; try discriminate H.
    destruct (get_wrap_inv _ _ _ _ _ _ He Ga) as (-> & ta & Ea & (ta' & ida & va & -> & HPE1 & _)). unfold PE in HPE1; subst ta'.
    destruct (get_wrap ρ b s) as [[wb sb]| |] eqn:Gb; try discriminate H.
    destruct (get_wrap_inv _ _ _ _ _ _ He Gb) as (-> & tb & Eb & (tb' & idb & vb & -> & HPE2 & _)). unfold PE in HPE2; subst tb'.
    destruct (binop_ok _ _ _ _ _ _ _ _ _ _ H Hf) as (t & Hp & Hs).
    exists t. split; [|exact Hs]. cbn [type_rhs]. rewrite Ea, Eb. exact Hp.
  - (* RNot *)
    cbn [eval_rhs] in H. unfold mbind in H.
    destruct (get_wrap ρ a s) as [[wa sa]| |] eqn:Ga; try discriminate H.
    destruct (get_wrap_inv _ _ _ _ _ _ He Ga) as (-> & ta & Ea & (ta' & ida & va & -> & HPE3 & Hl)). unfold PE in HPE3; subst ta'.
    destruct (unop_ok UInvert _ _ _ _ _ _ H Hl Hf) as (t & Hp & Hs).
    exists t. split; [|exact Hs]. cbn [type_rhs]. rewrite Ea.
    destruct (spec1 UInvert ta) eqn:E1; try discriminate Hp; try exact Hp.
    (* spec1 UInvert never says MustSame *)
    exfalso. unfold spec1 in E1. destruct (base_eqb (snd ta) BBool); discriminate E1.
  - (* RIfElse *)
    cbn [eval_rhs] in H. unfold mbind in H.
    destruct (get_wrap ρ c s) as [[wc sc]| |] eqn:Gc; try discriminate H.
    destruct (get_wrap_inv _ _ _ _ _ _ He Gc) as (-> & tc & Ec & (tc' & idc & vc & -> & HPE4 & _)). unfold PE in HPE4; subst tc'.
    destruct (get_wrap ρ a s) as [[wa sa]| |] eqn:Ga; try discriminate H.
    destruct (get_wrap_inv _ _ _ _ _ _ He Ga) as (-> & ta & Ea & (ta' & ida & va & -> & HPE5 & _)). unfold PE in HPE5; subst ta'.
    destruct (get_wrap ρ b s) as [[wb sb]| |] eqn:Gb; try discriminate H.
    destruct (get_wrap_inv _ _ _ _ _ _ He Gb) as (-> & tb & Eb & (tb' & idb & vb & -> & HPE6 & _)). unfold PE in HPE6; subst tb'.
    destruct (ifelse_ok _ _ _ _ _ _ _ _ _ _ _ _ H Hf) as (t & Hp & Hs).
    exists t. split; [|exact Hs]. cbn [type_rhs]. rewrite Ec, Ea, Eb. exact Hp.
  - (* RToPublic *)
    cbn [eval_rhs] in H. unfold mbind in H.
    destruct (get_wrap ρ a s) as [[wa sa]| |] eqn:Ga; try discriminate H.
    destruct (get_wrap_inv _ _ _ _ _ _ He Ga) as (-> & ta & Ea & (ta' & ida & va & -> & HPE7 & Hl)). unfold PE in HPE7; subst ta'.
    destruct (unop_ok UToPublic _ _ _ _ _ _ H Hl Hf) as (t & Hp & Hs).
    exists t. split; [|exact Hs]. cbn [type_rhs]. rewrite Ea. exact Hp.
  - (* RRAdd *)
    cbn [eval_rhs] in H. unfold mbind at 1 in H.
    destruct (get_wrap ρ a s) as [[wa sa]| |] eqn:Ga; try discriminate H.
    destruct (get_wrap_inv _ _ _ _ _ _ He Ga) as (-> & ta & Ea & (ta' & ida & va & -> & HPE8 & Hl)). unfold PE in HPE8; subst ta'.
    destruct ta as [m b1]. cbn [type_rhs]. rewrite Ea. cbn [snd].
    destruct (numeric_base b1) eqn:En; [|discriminate H].
    assert (En' : numeric b1 = true) by (destruct b1; simpl in *; congruence). rewrite En'.
    unfold mbind in H. destruct (new_literal b1 k s) as [[l s2]| |] eqn:El; try discriminate H.
    destruct (new_literal_ok _ _ _ _ _ (MConst, b1) El eq_refl Hf) as (Hext & Hf2 & (tl & idl & vl & -> & HPE9 & _)). unfold PE in HPE9; subst tl.
    destruct (binop_ok _ _ _ _ _ _ _ _ _ _ H Hf2) as (t & Hp & (E2 & F2 & V2)).
    exists t. split; [exact Hp|]. split; [eapply ext_trans; eauto|]. split; assumption.
Qed.

Lemma exec_ok : forall ss fuel ρ Γ s ρ' s',
  exec G fuel ρ ss s = Ok (ρ', s') -> scalar_fragment ss = true ->
  env_ok s ρ Γ -> fresh_store s ->
  exists Γ', type_stmts ss Γ = Some Γ' /\ env_ok s' ρ' Γ' /\ fresh_store s'.
Proof.
  induction ss as [|st ss IH]; intros fuel ρ Γ s ρ' s' H Hfr He Hf.
  - destruct fuel; [discriminate H|]. simpl in H. unfold ret in H. inversion H; subst. exists Γ. auto.
  - destruct fuel; [discriminate H|]. destruct st as [x r | f ps rt body res]; [|discriminate Hfr].
    cbn [scalar_fragment] in Hfr. apply andb_prop in Hfr. destruct Hfr as [Hr Hrest].
    cbn [exec] in H. unfold mbind in H. destruct (eval_rhs G ρ r s) as [[w s1]| |] eqn:Ev; try discriminate H.
    destruct (rhs_ok _ _ _ _ _ _ Ev Hr He Hf) as (t & Ht & (Hext & Hf1 & Hw)).
    cbn [type_stmts]. rewrite Ht.
    eapply IH; [exact H | exact Hrest | | exact Hf1].
    constructor; [|eapply env_ok_ext; eauto].
    split; [reflexivity|]. exists w. split; [reflexivity | exact Hw].
Qed.

Lemma Forall2_weaken {A B} (R1 R2 : A -> B -> Prop) :
  (forall a b, R1 a b -> R2 a b) -> forall l1 l2, Forall2 R1 l1 l2 -> Forall2 R2 l1 l2.
Proof. intros H l1 l2 HF. induction HF; constructor; auto. Qed.

(* ---------------------------------------------------------------- the program-level statement *)
Theorem accepted_programs_are_typed_by_the_rules : forall ss fuel ρ s,
  exec G fuel [] ss init_state = Ok (ρ, s) -> scalar_fragment ss = true ->
  exists Γ, type_stmts ss [] = Some Γ
    /\ Forall2 (fun b a => fst b = fst a /\ exists id v, snd b = BWrap (WScalar (snd a) id v)
                           /\ forall i, id = Some i -> exists r, lookup i (store s) = Some r /\ r_ty r = TyName (mir_name (snd a)))
               ρ Γ.
Proof.
  intros ss fuel ρ s H Hfr.
  assert (H0 : env_ok init_state [] [] /\ fresh_store init_state).
  { split; [constructor|]. intros k r; simpl; intros; discriminate. }
  destruct H0 as (E0 & F0).
  destruct (exec_ok _ _ _ _ _ _ _ H Hfr E0 F0) as (Γ & Ht & He & Hf).
  exists Γ. split; [exact Ht|].
  unfold ScalarInv.env_ok in He. eapply Forall2_weaken; [|exact He].
  intros b a Hba. destruct Hba as [Hk (w & Hw & (t & id & v & -> & HPE & Hid))]. unfold PE in HPE. subst t.
  split; [exact Hk|]. exists id, v. split; [exact Hw|]. intros i Hi. destruct (Hid i Hi) as [_ Hx]. exact Hx.
Qed.

(* a statement the written rules prohibit makes the tracer reject the program *)
Theorem prohibited_operations_are_rejected : forall o ta ida va tb idb vb s,
  spec2 o ta tb = MustReject ->
  match do_binop G o (WScalar ta ida va) (WScalar tb idb vb) s with Ok _ => False | _ => True end.
Proof.
  intros o ta ida va tb idb vb s Hs.
  pose proof (bin_rej_all o ta tb (value_of (WScalar ta ida va)) (value_of (WScalar tb idb vb)) Hs) as Hr.
  unfold do_binop.
  destruct (rule2v G o ta tb (value_of (WScalar ta ida va)) (value_of (WScalar tb idb vb))); try contradiction.
  exact I.
Qed.
