(* C04 for the collection operations of the WHOLE surface language, site level: for ANY environment and tracer state,
   an accepted collection operation is recorded under its own operation name with, as operands, the ids of the
   values its arguments are bound to, IN WRITTEN ORDER (left / right for zip and inner product, element order for
   the constructors, field order for objects), and an accessor records the index / key that was written.
   (map, reduce and calls: C11_map_bound / C11_reduce_bound / C11_call_bound.)  No property theorems in this file. *)
From Coq Require Import ZArith List String Bool Lia.
From NadaV.PyMini Require Import PyMini.
From NadaV.Model Require Import Rules Corr Mir Surface Trace.
From NadaV.Proofs Require Import ScalarInv TraceMono C11Program C12Steps WrapTypes C05Edges.
Import ListNotations.
Open Scope string_scope.
Open Scope Z_scope.
Open Scope list_scope.

Definition named_id (ρ : env) (x : string) (i : Z) : Prop := exists w, bound_to ρ x w /\ wid w = Some i.

Lemma named_ids ρ : forall es ws ids, Forall2 (bound_to ρ) es ws -> Forall2 has_id ws ids -> Forall2 (named_id ρ) es ids.
Proof.
  intros es ws ids F. revert ids. induction F as [|e w l1 l2 He _ IH]; intros ids Fi; inversion Fi; subst; constructor.
  - exists w. split; assumption.
  - apply IH. assumption.
Qed.

Section Sites.
Variable GG : genv.
Variable ρ : env.

Theorem zip_site a b s w s1 :
  eval_rhs GG ρ (RZip a b) s = Ok (w, s1) ->
  exists l r id ty, named_id ρ a l /\ named_id ρ b r /\ wid w = Some id /\ recorded_as s1 id ty (ABinary "Zip" l r).
Proof.
  intros H. pose proof H as H0. cbn [eval_rhs] in H0.
  apply get_wrap_inv in H0. destruct H0 as (x & Hx & H0). apply get_wrap_inv in H0. destruct H0 as (y & Hy & H0).
  destruct x as [|ex sx ia| | |]; try discriminate H0. destruct y as [|ey sy ib| | |]; try discriminate H0. clear H0.
  destruct (zip_accepted GG ρ _ _ _ _ _ _ _ _ _ _ _ Hx Hy H) as (_ & id & l & r & tx & ty & -> & -> & -> & _ & _ & Hrec).
  exists l, r, id, (TyArray (TyTuple tx ty) sx). repeat split; auto; eexists; split; eauto.
Qed.

Theorem inner_product_site a b s w s1 :
  eval_rhs GG ρ (RInner a b) s = Ok (w, s1) ->
  exists l r id ty, named_id ρ a l /\ named_id ρ b r /\ wid w = Some id /\ recorded_as s1 id ty (ABinary "InnerProduct" l r).
Proof.
  intros H. pose proof H as H0. cbn [eval_rhs] in H0.
  apply get_wrap_inv in H0. destruct H0 as (x & Hx & H0). apply get_wrap_inv in H0. destruct H0 as (y & Hy & H0).
  destruct x as [|ex sx ia| | |]; try discriminate H0. destruct y as [|ey sy ib| | |]; try discriminate H0. clear H0.
  destruct (inner_accepted GG ρ _ _ _ _ _ _ _ _ _ _ _ Hx Hy H)
    as (_ & id & l & r & tx & ty & tl & tr & -> & -> & _ & _ & _ & _ & _ & _ & -> & Hrec).
  exists l, r, id, (TyName (mir_name (mode_max (fst tl) (fst tr), snd tl))). repeat split; auto; eexists; split; eauto.
Qed.

Theorem unzip_site a s w s1 :
  eval_rhs GG ρ (RUnzip a) s = Ok (w, s1) ->
  exists src id ty, named_id ρ a src /\ wid w = Some id /\ recorded_as s1 id ty (AUnary "Unzip" src).
Proof.
  intros H. pose proof H as H0. cbn [eval_rhs] in H0.
  apply get_wrap_inv in H0. destruct H0 as (x & Hx & H0).
  destruct x as [|e size ia| | |]; try discriminate H0.
  destruct e as [|[| |l r it| |]| |]; try discriminate H0. clear H0.
  destruct (unzip_accepted GG ρ _ _ _ _ _ _ _ _ _ Hx H) as (id & src & tl & tr & -> & -> & _ & _ & Hrec).
  exists src, id, (TyTuple (TyArray tl size) (TyArray tr size)). repeat split; auto. eexists; split; eauto.
Qed.

Theorem array_new_site es s w s1 :
  eval_rhs GG ρ (RArrayNew es) s = Ok (w, s1) ->
  exists ids id ty, Forall2 (named_id ρ) es ids /\ wid w = Some id /\ recorded_as s1 id ty (ANew "ArrayNew" ids).
Proof.
  intros H. destruct (array_new_accepted GG ρ _ _ _ _ H) as (ws & first & ids & t0 & Fb & _ & _ & Fid & _ & -> & Hrec).
  exists ids, (counter s + 1). eexists. split; [eapply named_ids; eauto|]. split; [reflexivity | exact Hrec].
Qed.

Theorem tuple_new_site a b s w s1 :
  eval_rhs GG ρ (RTupleNew a b) s = Ok (w, s1) ->
  exists i1 i2 id ty, named_id ρ a i1 /\ named_id ρ b i2 /\ wid w = Some id /\ recorded_as s1 id ty (ANew "TupleNew" [i1; i2]).
Proof.
  intros H. cbn [eval_rhs] in H.
  apply get_wrap_inv in H. destruct H as (x & Hx & H). apply get_wrap_inv in H. destruct H as (y & Hy & H).
  unfold mbind at 1 in H. unfold alloc at 1 in H.
  unfold mbind at 1 in H. cbn [need_ids] in H. unfold mbind at 1 in H. unfold need_id at 1 in H.
  destruct (wid x) as [i1|] eqn:E1; [|discriminate H]. unfold ret at 1 in H.
  unfold mbind at 1 in H. unfold mbind at 1 in H. unfold need_id at 1 in H.
  destruct (wid y) as [i2|] eqn:E2; [|discriminate H]. unfold ret at 1 in H.
  unfold mbind at 1 in H. unfold ret at 1 2 in H. cbv zeta in H.
  unfold mbind at 1 in H. unfold lift at 1 in H.
  destruct (to_mir (WTuple (DInst x) (DInst y) (Some (counter s + 1)))) as [ty| |]; try discriminate H.
  unfold mbind, put, ret in H. inversion H; subst; clear H.
  exists i1, i2, (counter s + 1), ty. repeat split; auto; try (eexists; split; eauto).
  unfold recorded_as. simpl. rewrite Z.eqb_refl. reflexivity.
Qed.

Theorem ntuple_new_site es s w s1 :
  eval_rhs GG ρ (RNTupleNew es) s = Ok (w, s1) ->
  exists ids id ty, Forall2 (named_id ρ) es ids /\ wid w = Some id /\ recorded_as s1 id ty (ANew "NTupleNew" ids).
Proof.
  intros H. cbn [eval_rhs] in H. apply mbind_inv in H. destruct H as (ws & sa & Ea & H).
  destruct (get_wraps_spec _ _ _ _ _ Ea) as [-> Fb].
  unfold mbind at 1 in H. unfold alloc at 1 in H.
  apply mbind_inv in H. destruct H as (ids & sb & En & H).
  destruct (need_ids_spec _ _ _ _ En) as [-> Fid].
  cbv zeta in H. unfold mbind at 1 in H. unfold lift at 1 in H.
  destruct (to_mir (WNTuple ws (Some (counter s + 1)))) as [ty| |]; try discriminate H.
  unfold mbind, put, ret in H. inversion H; subst; clear H.
  exists ids, (counter s + 1), ty. split; [eapply named_ids; eauto|]. split; [reflexivity|].
  unfold recorded_as. simpl. rewrite Z.eqb_refl. reflexivity.
Qed.

(* the elements are the values of the fields in the order the fields are written *)
Theorem object_new_site fs s w s1 :
  eval_rhs GG ρ (RObjectNew fs) s = Ok (w, s1) ->
  exists ids id ty, Forall2 (named_id ρ) (map snd fs) ids /\ wid w = Some id /\ recorded_as s1 id ty (ANew "ObjectNew" ids).
Proof.
  intros H. cbn [eval_rhs] in H. apply mbind_inv in H. destruct H as (ws & sa & Ea & H).
  destruct (get_wraps_spec _ _ _ _ _ Ea) as [-> Fb].
  unfold mbind at 1 in H. unfold alloc at 1 in H.
  apply mbind_inv in H. destruct H as (ids & sb & En & H).
  destruct (need_ids_spec _ _ _ _ En) as [-> Fid].
  cbv zeta in H. unfold mbind at 1 in H. unfold lift at 1 in H.
  destruct (to_mir (WObject (combine (map fst fs) ws) (Some (counter s + 1)))) as [ty| |]; try discriminate H.
  unfold mbind, put, ret in H. inversion H; subst; clear H.
  exists ids, (counter s + 1), ty. split; [eapply named_ids; eauto|]. split; [reflexivity|].
  unfold recorded_as. simpl. rewrite Z.eqb_refl. reflexivity.
Qed.

(* accessors record the position / key that was written and the container it was applied to; a literal component
   is handed back as it is and nothing is recorded *)
Theorem index_site a i s w s1 :
  eval_rhs GG ρ (RIndex a i) s = Ok (w, s1) ->
  exists src, named_id ρ a src
    /\ (store s1 = store s \/ exists ty, wid w = Some (counter s + 1) /\ recorded_as s1 (counter s + 1) ty (ANTupleAcc i src)).
Proof.
  intros H. cbn [eval_rhs] in H. apply get_wrap_inv in H. destruct H as (x & Hx & H).
  destruct x as [| | |vals it|]; try discriminate H. cbv zeta in H.
  destruct ((i <? 0) || (Z.of_nat (List.length vals) <=? i)); [discriminate H|].
  unfold mbind at 1 in H. unfold alloc at 1 in H.
  destruct (nth_wrap vals (Z.to_nat i)) as [v|]; [|discriminate H].
  unfold mbind at 1 in H. unfold need_id at 1 in H. simpl wid in H. destruct it as [src|]; [|discriminate H].
  unfold ret at 1 in H. exists src. split; [eexists; split; [exact Hx | reflexivity]|].
  destruct (generate_accessor_spec _ _ _ _ _ _ H) as [(b & li & lv & _ & _ & ->) | (ty & _ & Hw & Hst)].
  - left. reflexivity.
  - right. exists ty. split; [exact Hw|]. unfold recorded_as. rewrite Hst. simpl. rewrite Z.eqb_refl. reflexivity.
Qed.

Theorem field_site a k s w s1 :
  eval_rhs GG ρ (RField a k) s = Ok (w, s1) ->
  exists src, named_id ρ a src
    /\ (store s1 = store s \/ exists ty, wid w = Some (counter s + 1) /\ recorded_as s1 (counter s + 1) ty (AObjectAcc k src)).
Proof.
  intros H. cbn [eval_rhs] in H. apply get_wrap_inv in H. destruct H as (x & Hx & H).
  destruct (reserved_attr k); [discriminate H|].
  destruct x as [| | | |vals it]; try discriminate H.
  destruct (assoc k vals) as [v|]; [|discriminate H].
  unfold mbind at 1 in H. unfold alloc at 1 in H.
  unfold mbind at 1 in H. unfold need_id at 1 in H. simpl wid in H. destruct it as [src|]; [|discriminate H].
  unfold ret at 1 in H. exists src. split; [eexists; split; [exact Hx | reflexivity]|].
  destruct (generate_accessor_spec _ _ _ _ _ _ H) as [(b & li & lv & _ & _ & ->) | (ty & _ & Hw & Hst)].
  - left. reflexivity.
  - right. exists ty. split; [exact Hw|]. unfold recorded_as. rewrite Hst. simpl. rewrite Z.eqb_refl. reflexivity.
Qed.

End Sites.
