(* C09, literals, for every program of the whole surface language and every earlier state of the process:
   every Literal operation the tracer records carries as its name the position of its key — the printed value
   followed by the type name — in the process-wide literal table; positions never change once given.  Hence two
   literal entries of a MIR have the same name exactly when they have the same (value, type) key. *)
From Coq Require Import ZArith List String Bool Lia DecimalPos DecimalZ DecimalString.
From NadaV.PyMini Require Import PyMini.
From NadaV.Model Require Import Rules Corr Mir Surface Trace Compile.
From NadaV.Proofs Require Import ScalarInv TraceMono C11Program.
Import ListNotations.
Open Scope string_scope.
Open Scope Z_scope.
Open Scope list_scope.

(* ---- the literal table *)
Lemma index_of_app k x : forall l i a, index_of k l i = Some a -> index_of k (l ++ [x]) i = Some a.
Proof.
  induction l as [|y l IH]; intros i a H; simpl in *; [discriminate|].
  destruct (String.eqb k y); [exact H | apply IH; exact H].
Qed.
Lemma index_of_new k : forall l i, index_of k l i = None -> index_of k (l ++ [k]) i = Some (i + Z.of_nat (List.length l)).
Proof.
  induction l as [|y l IH]; intros i H; simpl in *.
  - rewrite String.eqb_refl. f_equal. lia.
  - destruct (String.eqb k y); [discriminate|]. rewrite IH by exact H. f_equal. lia.
Qed.
Lemma index_of_ge : forall l i k a, index_of k l i = Some a -> i <= a.
Proof.
  induction l as [|z l IH]; intros i k b H; simpl in H; [discriminate|].
  destruct (String.eqb k z); [inversion H; lia | apply IH in H; lia].
Qed.
Lemma index_of_inj : forall l i k1 k2 a, index_of k1 l i = Some a -> index_of k2 l i = Some a -> k1 = k2.
Proof.
  induction l as [|y l IH]; intros i k1 k2 a H1 H2; simpl in *; [discriminate|].
  destruct (String.eqb_spec k1 y) as [->|N1], (String.eqb_spec k2 y) as [->|N2].
  - reflexivity.
  - inversion H1; subst. apply index_of_ge in H2. lia.
  - inversion H2; subst. apply index_of_ge in H1. lia.
  - eapply IH; eauto.
Qed.

(* a Literal record is named after the position of its key *)
Definition lit_named (l : list string) (r : arec) : Prop :=
  match r_node r with
  | ALiteral vs idx => exists ty i, r_ty r = TyName ty /\ index_of (vs ++ ty) l 0 = Some i /\ idx = z_to_string i
  | _ => True
  end.
Definition LInv (s : tstate) : Prop := forall k r, lookup k (store s) = Some r -> lit_named (lits s) r.
Definition not_lit (n : ast) : Prop := match n with ALiteral _ _ => False | _ => True end.

(* ---- actions that preserve an invariant of the state *)
Definition Pres {A} (m : M A) : Prop := forall s a s1, LInv s -> m s = Ok (a, s1) -> LInv s1.

Lemma Pres_ret {A} (a : A) : Pres (ret a).
Proof. intros s b s1 HI H. unfold ret in H. inversion H; subst; exact HI. Qed.
Lemma Pres_fail {A} e : Pres (@fail A e).
Proof. intros s b s1 _ H. discriminate H. Qed.
Lemma Pres_pure {A} (m : M A) : pure m -> Pres m.
Proof. intros Hp s a s1 HI H. apply Hp in H. subst. exact HI. Qed.
Lemma Pres_bind {A B} (m : M A) (k : A -> M B) : Pres m -> (forall a, Pres (k a)) -> Pres (mbind m k).
Proof.
  intros Hm Hk s b s1 HI H. unfold mbind in H. destruct (m s) as [[a s']| |] eqn:E; try discriminate.
  eapply Hk; [eapply Hm; eauto | exact H].
Qed.
Lemma Pres_alloc : Pres alloc.
Proof. intros s a s1 HI H. unfold alloc in H. inversion H; subst. exact HI. Qed.
Lemma Pres_put id ty n : not_lit n -> Pres (put id ty n).
Proof.
  intros Hn s a s1 HI H. unfold put in H. inversion H; subst; clear H. intros k r Hl. simpl in Hl. simpl.
  destruct (Z.eqb k id); [inversion Hl; subst; unfold lit_named; simpl; destruct n; simpl in *; auto; contradiction|].
  exact (HI _ _ Hl).
Qed.

Lemma lit_named_app l x r : lit_named l r -> lit_named (l ++ [x]) r.
Proof.
  unfold lit_named. destruct (r_node r); auto. intros (ty & i & A & B & C). exists ty, i. repeat split; auto.
  apply index_of_app. exact B.
Qed.

Lemma Pres_new_literal b v : Pres (new_literal b v).
Proof.
  intros s w s1 HI H. unfold new_literal, mbind, alloc, lit_index, put, ret in H. cbn [counter store lits] in H.
  match type of H with context [index_of ?key (lits s) 0] =>
    destruct (index_of key (lits s) 0) as [i|] eqn:Ei end; inversion H; subst; clear H; intros k r Hl; simpl in Hl; simpl.
  - destruct (Z.eqb k (counter s + 1)).
    + inversion Hl; subst. unfold lit_named. simpl. exists (mir_name (MConst, b)), i. auto.
    + exact (HI _ _ Hl).
  - destruct (Z.eqb k (counter s + 1)).
    + inversion Hl; subst. unfold lit_named. simpl. exists (mir_name (MConst, b)), (0 + Z.of_nat (List.length (lits s))).
      repeat split; auto. apply index_of_new. exact Ei.
    + apply lit_named_app. exact (HI _ _ Hl).
Qed.

Lemma Pres_emit_scalar t id n : not_lit n -> Pres (emit_scalar t id n).
Proof.
  intros Hn. unfold emit_scalar. destruct (fst t); try apply Pres_fail;
    (apply Pres_bind; [apply Pres_put; exact Hn | intros _; apply Pres_ret]).
Qed.

Ltac pres_step :=
  first
    [ apply Pres_fail | apply Pres_ret
    | apply Pres_new_literal
    | apply Pres_put; exact I
    | apply Pres_emit_scalar; exact I
    | apply Pres_alloc
    | apply Pres_pure; solve [pure_tac]
    | apply Pres_bind; [ | intro ]
    | match goal with |- Pres (match ?x with _ => _ end) => destruct x end
    | match goal with |- Pres (if ?x then _ else _) => destruct x end ].
Ltac pres := cbv zeta; repeat pres_step.

Section Rhs.
Variable GG : genv.

Lemma Pres_do_binop o a b : Pres (do_binop GG o a b).
Proof. unfold do_binop. pres. Qed.
Lemma Pres_do_unop u a : Pres (do_unop GG u a).
Proof. unfold do_unop. pres. Qed.
Lemma Pres_do_ifelse c a b : Pres (do_ifelse GG c a b).
Proof. unfold do_ifelse. pres. Qed.
Lemma Pres_generate_accessor v id n : not_lit n -> Pres (generate_accessor v id n).
Proof.
  intros Hn. unfold generate_accessor. cbv zeta.
  repeat first [apply Pres_put; exact Hn | pres_step].
Qed.
Lemma Pres_mk_input name party doc : forall t, Pres (mk_input name party doc t).
Proof.
  induction t as [[m b]|elt IH size]; cbn [mk_input].
  - destruct m; pres.
  - apply Pres_bind; [exact IH|]. intro inner. pres.
Qed.
Lemma Pres_template_of : forall t, Pres (template_of t).
Proof.
  induction t as [[m b]|elt IH size]; cbn [template_of].
  - destruct m; pres.
  - apply Pres_bind; [exact IH|]. intro. apply Pres_ret.
Qed.
Lemma Pres_make_args fid : forall ps, Pres (make_args fid ps).
Proof.
  induction ps as [|[x t] ps IH]; cbn [make_args]; [apply Pres_ret|].
  apply Pres_bind; [apply Pres_template_of|]. intro tmpl.
  apply Pres_bind; [apply Pres_alloc|]. intro id.
  apply Pres_bind; [apply Pres_pure, pure_lift|]. intro ty.
  apply Pres_bind; [apply Pres_put; exact I|]. intros _.
  apply Pres_bind; [exact IH|]. intro. apply Pres_ret.
Qed.

Theorem Pres_eval_rhs ρ r : Pres (eval_rhs GG ρ r).
Proof.
  destruct r; cbn [eval_rhs].
  - apply Pres_new_literal.
  - apply Pres_mk_input.
  - pres.
  - pres. apply Pres_do_binop.
  - pres. apply Pres_do_unop.
  - pres. apply Pres_do_ifelse.
  - pres. apply Pres_do_unop.
  - pres. apply Pres_do_binop.
  - apply Pres_bind; [apply Pres_pure, pure_get_wraps|]. intros ws.
    destruct ws as [|first rest]; [apply Pres_fail|].
    apply Pres_bind; [apply Pres_pure, (pure_same_go first (first :: rest))|]. intros same. pres.
  - pres.
  - pres.
  - pres.
  - pres; apply Pres_generate_accessor; exact I.
  - pres; apply Pres_generate_accessor; exact I.
  - pres.
  - pres.
  - pres.
  - pres.
  - pres.
  - pres.
Qed.

Theorem exec_LInv : forall fuel ρ ss s ρ' s', LInv s -> exec GG fuel ρ ss s = Ok (ρ', s') -> LInv s'.
Proof.
  induction fuel as [|n IH]; intros ρ ss s ρ' s' HI H; [discriminate H|].
  destruct ss as [|[x r | f params rt body res] rest].
  - simpl in H. unfold ret in H. inversion H; subst. exact HI.
  - cbn [exec] in H. unfold mbind at 1 in H.
    destruct (eval_rhs GG ρ r s) as [[w s1]| |] eqn:E; try discriminate.
    eapply IH; [|exact H]. eapply Pres_eval_rhs; eauto.
  - destruct (sdef_inversion _ _ _ _ _ _ _ _ _ _ _ _ H)
      as (args & s1 & ρb & s2 & child & t & cid & Ea & Eb & Er & Ew & Ert & Hm & Hp & Erest).
    assert (H0 : LInv (after_alloc s)) by exact HI.
    pose proof (Pres_make_args _ _ _ _ _ H0 Ea) as H1.
    pose proof (IH _ _ _ _ _ H1 Eb) as H2.
    eapply IH; [|exact Erest].
    intros k r0 Hl. unfold after_put in Hl. simpl in Hl. simpl.
    destruct (Z.eqb k (counter s + 1)); [inversion Hl; subst; exact I | exact (H2 _ _ Hl)].
Qed.
End Rhs.

(* ---- the literal table of the MIR comes from Literal records, with their recorded type *)
From NadaV.Proofs Require Import CompileProofs C18Proofs.

Definition lits_from (st : list (Z * arec)) (c : cstate) : Prop :=
  forall idx v ty, In (idx, (v, ty)) (c_literals c) ->
    exists k r, lookup k st = Some r /\ r_node r = ALiteral v idx /\ r_ty r = ty.

Lemma step_node_lits st fs k r extra c extra' c' :
  lookup k st = Some r -> step_node fs r extra c = Ok (extra', c') -> lits_from st c -> lits_from st c'.
Proof.
  intros Hl H Hc. unfold step_node in H.
  destruct (r_node r) eqn:Hn; try (injection H as <- <-; exact Hc);
    try (destruct (zmem _ fs); injection H as <- <-; exact Hc).
  - destruct (add_input (r_id r) (r_ty r) name party doc c) as [c1| |] eqn:Ha; cbn [bind] in H; try discriminate.
    injection H as <- <-. unfold add_input in Ha. destruct (existsb _ (c_inputs c)); [discriminate|]. injection Ha as <-. exact Hc.
  - injection H as <- <-. intros idx v ty Hin. simpl in Hin. apply In_supdate in Hin.
    destruct Hin as [E | Hin]; [|exact (Hc _ _ _ Hin)]. inversion E; subst; clear E. exists k, r. auto.
Qed.

Lemma traverse_lits : forall fuel st fs stack ops extra c ops' extra' c',
  traverse fuel st fs stack ops extra c = Ok (ops', extra', c') -> lits_from st c -> lits_from st c'.
Proof.
  induction fuel as [|n IH]; intros st fs stack ops extra c ops' extra' c' H Hc; simpl in H; [discriminate|].
  destruct stack as [|k rest]; [inversion H; subst; exact Hc|].
  destruct (zmem k (map e_key ops)); [eapply IH; eauto|].
  destruct (lookup k st) as [r|] eqn:Hl; [|discriminate].
  destruct (step_node fs r extra c) as [[extra1 c1]| |] eqn:Hs; try discriminate.
  eapply IH; [exact H|]. eapply step_node_lits; eauto.
Qed.

Lemma outputs_loop_lits : forall outs st fs ops macc c ops' mouts fs' c',
  outputs_loop st fs outs ops macc c = Ok (ops', mouts, fs', c') -> lits_from st c -> lits_from st c'.
Proof.
  induction outs as [|o outs IH]; intros st fs ops macc c ops' mouts fs' c' H Hc; simpl in H.
  - inversion H; subst. exact Hc.
  - destruct (traverse (store_fuel st) st fs [co_id o] ops [] c) as [[[ops1 extra1] c1]| |] eqn:Ht;
      simpl in H; try discriminate.
    destruct (lookup (co_id o) st) as [rec|]; [|discriminate].
    eapply IH; [exact H|]. pose proof (traverse_lits _ _ _ _ _ _ _ _ _ _ Ht Hc) as H1.
    intros idx v ty Hin. exact (H1 _ _ _ Hin).
Qed.

Lemma functions_loop_lits : forall fuel st fs stack acc c mfuns fs' c',
  functions_loop fuel st fs stack acc c = Ok (mfuns, fs', c') -> lits_from st c -> lits_from st c'.
Proof.
  induction fuel as [|n IH]; intros st fs stack acc c mfuns fs' c' H Hc; simpl in H; [discriminate|].
  destruct stack as [|f rest]; [inversion H; subst; exact Hc|].
  destruct (lookup f st) as [[fid rty node]|]; [|discriminate].
  destruct node; try discriminate.
  destruct (traverse (store_fuel st) st fs [child] [] [] c) as [[[ops1 extra1] c1]| |] eqn:Ht;
    simpl in H; try discriminate.
  destruct (arg_records st args) as [margs| |]; simpl in H; try discriminate.
  eapply IH; [exact H|]. eapply traverse_lits; eauto.
Qed.

Lemma NoDup_supdate {A} k (v : A) l : NoDup (map fst l) -> NoDup (map fst (supdate k v l)).
Proof.
  induction l as [|[k' v'] l IH]; simpl; intros Hn; [constructor; [intros [] | constructor]|].
  destruct (String.eqb_spec k k') as [->|Hne]; simpl; [exact Hn|].
  inversion Hn; subst. constructor; [|apply IH; assumption].
  intros Hin. apply in_map_iff in Hin. destruct Hin as ([k2 v2] & Hk & Hin). simpl in Hk. subst k2.
  apply In_supdate in Hin. destruct Hin as [E | Hin]; [inversion E; subst; contradiction|].
  apply H1. apply in_map_iff. exists (k', v2). auto.
Qed.

Theorem compile_literals : forall st fs0 outs m fs',
  compile st fs0 outs = Ok (m, fs') ->
  forall l, In l (m_literals m) ->
    exists k r, lookup k st = Some r /\ r_node r = ALiteral (l_value l) (l_name l) /\ r_ty r = l_ty l.
Proof.
  intros st fs0 outs m fs' H. unfold compile in H.
  destruct (outputs_loop st fs0 outs [] [] (empty_cstate fs0)) as [[[[ops mouts] fs1] c1]| |] eqn:Ho;
    cbn [bind] in H; try discriminate.
  destruct (functions_loop (S (List.length st)) st fs1 (rev fs1) [] c1) as [[[mfuns fs2] c2]| |] eqn:Hf;
    cbn [bind] in H; try discriminate.
  inversion H; subst; clear H. simpl.
  assert (H0 : lits_from st (empty_cstate fs0)) by (intros idx v ty []).
  pose proof (outputs_loop_lits _ _ _ _ _ _ _ _ _ _ Ho H0) as H1.
  pose proof (functions_loop_lits _ _ _ _ _ _ _ _ _ Hf H1) as H2.
  intros l Hin. apply in_map_iff in Hin. destruct Hin as ([idx [v ty]] & <- & Hin). simpl. exact (H2 _ _ _ Hin).
Qed.

(* printing an integer is injective *)
Lemma to_int_not_nil z : Z.to_int z <> Decimal.Pos Decimal.Nil /\ Z.to_int z <> Decimal.Neg Decimal.Nil.
Proof.
  destruct z; simpl; split; try discriminate; intros H; inversion H as [Hp];
    exact (DecimalPos.Unsigned.to_uint_nonnil _ Hp).
Qed.
Lemma z_to_string_inj a b : z_to_string a = z_to_string b -> a = b.
Proof.
  unfold z_to_string. intros H. apply (f_equal DecimalString.NilZero.int_of_string) in H.
  destruct (to_int_not_nil a) as [A1 A2]. destruct (to_int_not_nil b) as [B1 B2].
  rewrite !DecimalString.NilZero.isi in H by assumption. inversion H as [Hz].
  apply DecimalZ.to_int_inj. exact Hz.
Qed.

(* ---- the theorem: names and keys of the literal entries of a MIR determine each other *)
Definition lit_key (l : mliteral) (key : string) : Prop := exists ty, l_ty l = TyName ty /\ key = (l_value l ++ ty)%string.

Theorem mir_literal_names_are_keys (GG : genv) : forall s0 p m s' fs',
  LInv s0 -> run_from GG s0 [] p = Ok (m, s', fs') ->
  (forall l, In l (m_literals m) -> exists key, lit_key l key) /\
  forall l1 l2 k1 k2, In l1 (m_literals m) -> In l2 (m_literals m) -> lit_key l1 k1 -> lit_key l2 k2 ->
    (l_name l1 = l_name l2 <-> k1 = k2).
Proof.
  intros s0 p m s' fs' HI Hr. unfold run_from in Hr.
  destruct (exec GG (stmts_size (p_stmts p)) [] (p_stmts p) s0) as [[ρ s1]| |] eqn:Ex; try discriminate Hr.
  destruct (make_outputs ρ (p_outs p)) as [couts| |]; cbn [bind] in Hr; try discriminate Hr.
  destruct (existsb (has_no_id ρ) (p_outs p)); try discriminate Hr.
  destruct (compile (store s1) [] couts) as [[m' fs1]| |] eqn:Hc; cbn [bind fst snd] in Hr; try discriminate Hr.
  inversion Hr; subst m' s1 fs1; clear Hr.
  pose proof (exec_LInv GG _ _ _ _ _ _ HI Ex) as HI'.
  assert (Hnamed : forall l, In l (m_literals m) ->
            exists ty i, l_ty l = TyName ty /\ index_of (l_value l ++ ty)%string (lits s') 0 = Some i /\ l_name l = z_to_string i).
  { intros l Hl. destruct (compile_literals _ _ _ _ _ Hc l Hl) as (k & r & Hk & Hn & Ht).
    pose proof (HI' _ _ Hk) as Hnm. unfold lit_named in Hnm. rewrite Hn in Hnm.
    destruct Hnm as (ty & i & A & B & C). exists ty, i. rewrite <- Ht. auto. }
  split.
  - intros l Hl. destruct (Hnamed l Hl) as (ty & i & A & _). exists (l_value l ++ ty)%string, ty. auto.
  - intros l1 l2 k1 k2 H1 H2 (t1 & T1 & ->) (t2 & T2 & ->).
    destruct (Hnamed l1 H1) as (ty1 & i1 & A1 & B1 & C1). destruct (Hnamed l2 H2) as (ty2 & i2 & A2 & B2 & C2).
    rewrite T1 in A1. rewrite T2 in A2. inversion A1; inversion A2; subst ty1 ty2. split.
    + intros Hn. rewrite C1, C2 in Hn.
      assert (Hi : i1 = i2) by (apply z_to_string_inj; exact Hn).
      subst i2. eapply index_of_inj; eauto.
    + intros Hk. rewrite Hk in B1. rewrite B1 in B2. inversion B2; subst. rewrite C1, C2. reflexivity.
Qed.

Theorem history_LInv (GG : genv) fc : forall h s fns s1 fns1,
  LInv s -> after_history GG fc h s fns = Ok (s1, fns1) -> LInv s1.
Proof.
  induction h as [|[p | ss] h IH]; intros s fns s1 fns1 HI H; cbn [after_history] in H.
  - inversion H; subst. exact HI.
  - destruct (exec GG (stmts_size (p_stmts p)) [] (p_stmts p) s) as [[ρ s']| |] eqn:Ex; try discriminate.
    eapply IH; [|exact H]. eapply exec_LInv; eauto.
  - destruct (exec GG (stmts_size ss) [] ss s) as [[ρ s']| |] eqn:Ex; try discriminate.
    eapply IH; [|exact H]. eapply exec_LInv; eauto.
Qed.

Theorem literal_names_after_any_history (GG : genv) : forall h p m,
  run_after GG true h p = Ok m ->
  (forall l, In l (m_literals m) -> exists key, lit_key l key) /\
  forall l1 l2 k1 k2, In l1 (m_literals m) -> In l2 (m_literals m) -> lit_key l1 k1 -> lit_key l2 k2 ->
    (l_name l1 = l_name l2 <-> k1 = k2).
Proof.
  intros h p m H. unfold run_after in H.
  destruct (after_history GG true h init_state []) as [[s fns]| |] eqn:Eh; cbn [bind] in H; try discriminate.
  destruct (run_from GG s [] p) as [[[m' s'] fs']| |] eqn:Er; cbn [bind fst] in H; try discriminate.
  inversion H; subst m'; clear H.
  assert (H0 : LInv init_state) by (intros k r Hl; simpl in Hl; discriminate).
  eapply mir_literal_names_are_keys; [eapply history_LInv; eauto | exact Er].
Qed.
