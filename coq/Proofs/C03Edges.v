(* C03 for the collection operations of the WHOLE surface language, step level: the taint that the information-flow
   specification (Spec/Taint.v, the one evaluated on the implementation's MIRs) computes for an accepted collection
   operation FROM THE TYPES RECORDED FOR ITS OPERANDS (every secret leaf of an operand counted as tainted) is
   within the type recorded for the result: no collection operation turns a secret component into a public one.
   Built on the C05 edge theorems (Proofs/C05Edges.v).  No property theorems in this file. *)
From Coq Require Import ZArith List String Bool Lia.
From NadaV.PyMini Require Import PyMini.
From NadaV.Model Require Import Rules Corr Mir Surface Trace.
From NadaV.Spec Require Import MirSpec Taint.
From NadaV.Proofs Require Import ScalarInv TraceMono C11Program C12Steps WrapTypes C05Edges.
Import ListNotations.
Open Scope string_scope.
Open Scope Z_scope.
Open Scope list_scope.

(* every secret leaf tainted *)
Definition tvs (t : mty) : tv := tv_of_type secret_name t.

Lemma tv_ok_self : forall t, tv_ok (tvs t) t = true.
Proof.
  unfold tvs. fix IH 1. intros t. destruct t as [x|i sz|l r|ts|fs]; cbn [tv_of_type tv_ok].
  - destruct (secret_name x); reflexivity.
  - apply IH.
  - rewrite (IH l), (IH r). reflexivity.
  - induction ts as [|x xs IHl]; [reflexivity|]. cbn [map]. rewrite (IH x). exact IHl.
  - induction fs as [|[k x] xs IHl]; [reflexivity|]. cbn [map fst snd]. rewrite (IH x). exact IHl.
Qed.

Lemma tvs_ntuple ts : tvs (TyNTuple ts) = TNTT (map tvs ts).
Proof. reflexivity. Qed.
Lemma tvs_object fs : tvs (TyObject fs) = TObjT (combine (map fst fs) (map tvs (map snd fs))).
Proof.
  unfold tvs. cbn [tv_of_type]. f_equal. induction fs as [|[k x] xs IH]; [reflexivity|]. cbn [map combine fst snd]. rewrite IH. reflexivity.
Qed.

Lemma nth_tvs : forall ts n t, nth_error ts n = Some t -> forall d, nth n (map tvs ts) d = tvs t.
Proof.
  induction ts as [|x xs IH]; intros n t H d; destruct n; simpl in H; try discriminate.
  - inversion H; subst. reflexivity.
  - simpl. apply IH. exact H.
Qed.

Lemma find_tvs : forall (kts : list (string * mty)) k t, assoc k kts = Some t ->
  exists k', find (fun kv : string * tv => String.eqb (fst kv) k) (combine (map fst kts) (map tvs (map snd kts))) = Some (k', tvs t).
Proof.
  induction kts as [|[k1 x] xs IH]; intros k t H; simpl in H; [discriminate|].
  cbn [map combine find fst snd]. rewrite String.eqb_sym. destruct (String.eqb k k1).
  - inversion H; subst. eauto.
  - apply IH. exact H.
Qed.

Lemma inner_product_mode tl tr :
  implb (secret_name (mir_name tl) || secret_name (mir_name tr))
        (secret_name (mir_name (mode_max (fst tl) (fst tr), snd tl))) = true.
Proof. destruct tl as [[] []], tr as [[] []]; reflexivity. Qed.

Section Steps.
Variable GG : genv.
Variable ρ : env.
Variable s : tstate.
Hypothesis HI : Inv ρ s.
Hypothesis HE : InvE ρ s.

Theorem zip_keeps_secrecy a b w s1 :
  eval_rhs GG ρ (RZip a b) s = Ok (w, s1) ->
  exists l r id tl tr T,
    recorded_as s1 id T (ABinary "Zip" l r) /\ ty_at s1 l tl /\ ty_at s1 r tr
    /\ tv_ok (TArrT (TTupT (elt_of (tvs tl)) (elt_of (tvs tr)))) T = true.
Proof.
  intros H. destruct (zip_edge GG ρ s HI HE _ _ _ _ H) as (l & r & id & tx & ty & sz & _ & Hrec & Hl & Hr).
  exists l, r, id, (TyArray tx sz), (TyArray ty sz), (TyArray (TyTuple tx ty) sz). repeat split; auto.
  unfold tvs. cbn [tv_of_type elt_of tv_ok]. fold (tvs tx). fold (tvs ty). rewrite !tv_ok_self. reflexivity.
Qed.

Theorem unzip_keeps_secrecy a w s1 :
  eval_rhs GG ρ (RUnzip a) s = Ok (w, s1) ->
  exists src id ts T,
    recorded_as s1 id T (AUnary "Unzip" src) /\ ty_at s1 src ts
    /\ tv_ok (match elt_of (tvs ts) with TTupT x y => TTupT (TArrT x) (TArrT y) | other => TTupT (TArrT other) (TArrT other) end) T = true.
Proof.
  intros H. destruct (unzip_edge GG ρ s HI HE _ _ _ H) as (src & id & tl & tr & sz & _ & Hrec & Hs).
  exists src, id, (TyArray (TyTuple tl tr) sz), (TyTuple (TyArray tl sz) (TyArray tr sz)). repeat split; auto.
  unfold tvs. cbn [tv_of_type elt_of tv_ok]. fold (tvs tl). fold (tvs tr). rewrite !tv_ok_self. reflexivity.
Qed.

Theorem tuple_new_keeps_secrecy a b w s1 :
  eval_rhs GG ρ (RTupleNew a b) s = Ok (w, s1) ->
  exists i1 i2 id t1 t2 T,
    recorded_as s1 id T (ANew "TupleNew" [i1; i2]) /\ ty_at s1 i1 t1 /\ ty_at s1 i2 t2
    /\ tv_ok (TTupT (tvs t1) (tvs t2)) T = true.
Proof.
  intros H. destruct (tuple_new_edge GG ρ s HI HE _ _ _ _ H) as (i1 & i2 & id & t1 & t2 & _ & Hrec & H1 & H2).
  exists i1, i2, id, t1, t2, (TyTuple t1 t2). repeat split; auto. cbn [tv_ok]. rewrite !tv_ok_self. reflexivity.
Qed.

Theorem ntuple_new_keeps_secrecy es w s1 :
  eval_rhs GG ρ (RNTupleNew es) s = Ok (w, s1) ->
  exists ids id ts T,
    recorded_as s1 id T (ANew "NTupleNew" ids) /\ Forall2 (ty_at s1) ids ts /\ tv_ok (TNTT (map tvs ts)) T = true.
Proof.
  intros H. destruct (ntuple_new_edge GG ρ s HI HE _ _ _ H) as (ids & id & ts & _ & Hrec & F).
  exists ids, id, ts, (TyNTuple ts). repeat split; auto. rewrite <- tvs_ntuple. apply tv_ok_self.
Qed.

Theorem object_new_keeps_secrecy fs w s1 :
  eval_rhs GG ρ (RObjectNew fs) s = Ok (w, s1) ->
  exists ids id kts T,
    recorded_as s1 id T (ANew "ObjectNew" ids) /\ Forall2 (fun i kt => ty_at s1 i (snd kt)) ids kts
    /\ map fst kts = map fst fs
    /\ tv_ok (TObjT (combine (map fst kts) (map tvs (map snd kts)))) T = true.
Proof.
  intros H. destruct (object_new_edge GG ρ s HI HE _ _ _ H) as (ids & id & kts & _ & Hrec & Hk & F).
  exists ids, id, kts, (TyObject kts). repeat split; auto. rewrite <- tvs_object. apply tv_ok_self.
Qed.

Theorem index_keeps_secrecy a i w s1 :
  eval_rhs GG ρ (RIndex a i) s = Ok (w, s1) ->
  exists src ts t,
    ty_at s1 src (TyNTuple ts)
    /\ tv_ok (match tvs (TyNTuple ts) with TNTT cs => nth (Z.to_nat i) cs (TLeaf (existsb any_taint cs)) | other => TLeaf (any_taint other) end) t = true
    /\ ((store s1 = store s /\ to_mir w = Ok t) \/ recorded_as s1 (counter s + 1) t (ANTupleAcc i src)).
Proof.
  intros H. destruct (index_edge GG ρ s HI HE _ _ _ _ H) as (src & ts & t & Hs & Hn & _ & Hc).
  exists src, ts, t. split; [exact Hs|]. split.
  - rewrite tvs_ntuple. rewrite (nth_tvs _ _ _ Hn). apply tv_ok_self.
  - destruct Hc as [Hc | [_ Hc]]; [left; exact Hc | right; exact Hc].
Qed.

Theorem field_keeps_secrecy a k w s1 :
  eval_rhs GG ρ (RField a k) s = Ok (w, s1) ->
  exists src kts t,
    ty_at s1 src (TyObject kts)
    /\ tv_ok (match tvs (TyObject kts) with
              | TObjT cs => match find (fun kv => String.eqb (fst kv) k) cs with
                            | Some kv => snd kv
                            | None => TLeaf (existsb (fun kv => any_taint (snd kv)) cs) end
              | other => TLeaf (any_taint other) end) t = true
    /\ ((store s1 = store s /\ to_mir w = Ok t) \/ recorded_as s1 (counter s + 1) t (AObjectAcc k src)).
Proof.
  intros H. destruct (field_edge GG ρ s HI HE _ _ _ _ H) as (src & kts & t & Hs & Hk & Hc).
  exists src, kts, t. split; [exact Hs|]. split.
  - rewrite tvs_object. destruct (find_tvs _ _ _ Hk) as (k' & ->). cbn [snd]. apply tv_ok_self.
  - destruct Hc as [Hc | [_ Hc]]; [left; exact Hc | right; exact Hc].
Qed.

Theorem inner_product_keeps_secrecy a b w s1 :
  eval_rhs GG ρ (RInner a b) s = Ok (w, s1) ->
  exists l r id tl tr T,
    recorded_as s1 id T (ABinary "InnerProduct" l r) /\ ty_at s1 l tl /\ ty_at s1 r tr
    /\ tv_ok (TLeaf (any_taint (tvs tl) || any_taint (tvs tr))) T = true.
Proof.
  intros H. destruct (inner_product_edge GG ρ s HI HE _ _ _ _ H) as (l & r & id & tl & tr & sz & _ & Hrec & Hl & Hr).
  exists l, r, id, (TyArray (TyName (mir_name tl)) sz), (TyArray (TyName (mir_name tr)) sz),
    (TyName (mir_name (mode_max (fst tl) (fst tr), snd tl))). repeat split; auto.
  unfold tvs. cbn [tv_of_type any_taint tv_ok]. apply inner_product_mode.
Qed.


(* Array.new: the join of the element taints (each element has the one recorded type t0) over the untainted value
   of that type is the all-secret-leaves taint of t0 *)
Definition clean (t : mty) : tv := tv_of_type (fun _ => false) t.

Lemma any_taint_clean : forall t, any_taint (clean t) = false.
Proof.
  unfold clean. fix IH 1. intros t. destruct t as [x|i sz|l r|ts|fs]; cbn [tv_of_type any_taint].
  - reflexivity.
  - apply IH.
  - rewrite (IH l), (IH r). reflexivity.
  - induction ts as [|x xs IHl]; [reflexivity|]. cbn [map existsb]. rewrite (IH x). exact IHl.
  - induction fs as [|[k x] xs IHl]; [reflexivity|]. cbn [map existsb fst snd]. rewrite (IH x). exact IHl.
Qed.

Lemma tv_join_clean : forall t, tv_join (tvs t) (clean t) = tvs t.
Proof.
  unfold tvs, clean. fix IH 1. intros t. destruct t as [x|i sz|l r|ts|fs]; cbn [tv_of_type tv_join].
  - rewrite orb_false_r. reflexivity.
  - rewrite IH. reflexivity.
  - rewrite (IH l), (IH r). reflexivity.
  - f_equal. induction ts as [|x xs IHl]; [reflexivity|]. cbn [map]. rewrite (IH x), IHl. reflexivity.
  - f_equal. induction fs as [|[k x] xs IHl]; [reflexivity|]. cbn [map fst snd]. rewrite (IH x), IHl. reflexivity.
Qed.

Lemma tv_join_self : forall t, tv_join (tvs t) (tvs t) = tvs t.
Proof.
  unfold tvs. fix IH 1. intros t. destruct t as [x|i sz|l r|ts|fs]; cbn [tv_of_type tv_join].
  - rewrite orb_diag. reflexivity.
  - rewrite IH. reflexivity.
  - rewrite (IH l), (IH r). reflexivity.
  - f_equal. induction ts as [|x xs IHl]; [reflexivity|]. cbn [map]. rewrite (IH x), IHl. reflexivity.
  - f_equal. induction fs as [|[k x] xs IHl]; [reflexivity|]. cbn [map fst snd]. rewrite (IH x), IHl. reflexivity.
Qed.

Lemma join_of_equal_elements t0 : forall n, fold_right (fun v acc => tv_join v acc) (clean t0) (repeat (tvs t0) (S n)) = tvs t0.
Proof.
  induction n as [|n IH].
  - cbn [repeat fold_right]. apply tv_join_clean.
  - change (repeat (tvs t0) (S (S n))) with (tvs t0 :: repeat (tvs t0) (S n)). cbn [fold_right]. rewrite IH. apply tv_join_self.
Qed.

Lemma array_new_edge_nonempty es w s1 :
  eval_rhs GG ρ (RArrayNew es) s = Ok (w, s1) ->
  exists ids id t0 n,
    recorded_as s1 id (TyArray t0 (Some (Z.of_nat (List.length ids)))) (ANew "ArrayNew" ids)
    /\ Forall (fun i => ty_at s1 i t0) ids /\ List.length ids = S n.
Proof.
  intros H. destruct (eval_rhs_coherent GG _ _ _ _ _ HI HE H) as (_ & _ & Hs).
  destruct (array_new_accepted GG ρ _ _ _ _ H) as (ws & first & ids & t0 & Fb & Hhd & Fsame & Fid & H0 & -> & Hrec).
  assert (Hlen : List.length ws = List.length ids) by (clear - Fid; induction Fid; simpl; congruence).
  rewrite Hlen in Hrec.
  destruct ws as [|w0 ws']; [discriminate Hhd|]. destruct ids as [|i0 ids']; [discriminate Hlen|].
  exists (i0 :: ids'), (counter s + 1), t0, (List.length ids'). split; [exact Hrec|]. split; [|reflexivity].
  eapply Forall_impl; [intros i Hi; eapply ty_at_sub; [exact Hs | exact Hi]|].
  eapply ids_typed_same; [exact Fid|]. intros w Hin. split; [apply cohd_coh; eapply bound_all; eauto|].
  rewrite Forall_forall in Fsame. destruct (Fsame w Hin) as (_ & t & Ht & t0' & H0' & Heq).
  apply mty_eqb_eq in Heq. congruence.
Qed.

Theorem array_new_keeps_secrecy es w s1 :
  eval_rhs GG ρ (RArrayNew es) s = Ok (w, s1) ->
  exists ids id t0 T,
    recorded_as s1 id T (ANew "ArrayNew" ids) /\ Forall (fun i => ty_at s1 i t0) ids /\ ids <> []
    /\ tv_ok (TArrT (fold_right (fun v acc => tv_join v acc) (clean t0) (repeat (tvs t0) (List.length ids)))) T = true.
Proof.
  intros H. destruct (array_new_edge_nonempty _ _ _ H) as (ids & id & t0 & n & Hrec & F & Hn).
  exists ids, id, t0, (TyArray t0 (Some (Z.of_nat (List.length ids)))). repeat split; auto.
  - intros ->. discriminate Hn.
  - rewrite Hn. rewrite join_of_equal_elements. cbn [tv_ok]. apply tv_ok_self.
Qed.

End Steps.
