(* C17: whatever sequence of enrich operations is applied to the report of a source text,
   erasing the inserted delimiters from the rendered report gives back the source. *)
From Coq Require Import ZArith List String Bool Ascii Lia.
From NadaV.Model Require Import RichReports.
Import ListNotations.
Open Scope list_scope.

Lemma map_update_nth {A B} (g : A -> B) (f : A -> A) n l :
  (forall x, g (f x) = g x) -> map g (update_nth n f l) = map g l.
Proof. intros H. revert n. induction l as [|x l IH]; intros [|n]; simpl; auto; rewrite ?H, ?IH; reflexivity. Qed.

Lemma skeleton_upd_cell r line col f : (forall c, ch (f c) = ch c) -> skeleton (upd_cell r line col f) = skeleton r.
Proof.
  intros H. unfold upd_cell. destruct (stack r line) as [l|]; [|reflexivity].
  unfold skeleton. simpl. apply map_update_nth. intros x. apply map_update_nth. exact H.
Qed.

Lemma skeleton_push_pre r l c s : skeleton (push_pre r l c s) = skeleton r.
Proof. apply skeleton_upd_cell. reflexivity. Qed.
Lemma skeleton_push_post r l c s : skeleton (push_post r l c s) = skeleton r.
Proof. apply skeleton_upd_cell. reflexivity. Qed.

Lemma skeleton_intermediate : forall fuel r line sl sc el ec left right skip,
  skeleton (intermediate fuel r line sl sc el ec left right skip) = skeleton r.
Proof.
  induction fuel as [|n IH]; intros; simpl; [reflexivity|].
  destruct (line <? el)%Z; [|reflexivity].
  rewrite IH.
  repeat match goal with
         | |- context [if ?b then _ else _] => destruct b
         | |- context [match ?x with Some _ => _ | None => _ end] => destruct x
         end; rewrite ?skeleton_push_pre, ?skeleton_push_post; reflexivity.
Qed.

Lemma skeleton_r2 (r1 : report) (inter : bool) fuel line sl sc el ec left right skip :
  skeleton (if inter then intermediate fuel r1 line sl sc el ec left right skip else r1) = skeleton r1.
Proof. destruct inter; [apply skeleton_intermediate | reflexivity]. Qed.

Theorem enrich_skeleton : forall r s e left right inter skip r',
  enrich r s e left right inter skip = Done r' -> skeleton r' = skeleton r.
Proof.
  intros r s e left right inter skip r' H. unfold enrich in H.
  destruct (if skip then skip_whitespace_left r (fst s) (snd s) else Done s) as [s'| |]; try discriminate.
  destruct (if skip then skip_whitespace_right r (fst e) (snd e) else Done e) as [e'| |]; try discriminate.
  destruct (negb (pos_leb s' e')); [injection H as H; rewrite <- H; reflexivity|].
  destruct (negb (in_range r (fst s') (snd s'))); [discriminate|].
  match type of H with
  | context [push_post ?r2 _ _ _] =>
      assert (S2 : skeleton r2 = skeleton r) by (rewrite skeleton_r2; apply skeleton_push_pre);
      remember r2 as R eqn:HR
  end.
  destruct (negb (in_range R (fst e') (snd e'))); [discriminate|].
  injection H as H. rewrite <- H. rewrite skeleton_push_post. exact S2.
Qed.

(* erasure only sees the skeleton *)
Lemma erase_marks l : erase (map TMark l) = [].
Proof. induction l; simpl; auto. Qed.

Definition cell_tokens (c : option ascii) : list token := match c with Some a => [TSrc a] | None => [] end.

Lemma erase_app a b : erase (a ++ b) = erase a ++ erase b.
Proof. unfold erase. apply filter_app. Qed.

Lemma erase_render_cell c : erase (render_cell c) = cell_tokens (ch c).
Proof.
  unfold render_cell. rewrite !erase_app, !erase_marks. simpl. rewrite app_nil_r.
  destruct (ch c); reflexivity.
Qed.

Lemma erase_render_line l : erase (render_line l) = flat_map cell_tokens (map ch l).
Proof.
  induction l as [|c l IH]; simpl; [reflexivity|].
  unfold render_line in *. simpl. rewrite erase_app, erase_render_cell, IH. reflexivity.
Qed.

Fixpoint skel_tokens (sk : list (list (option ascii))) : list token :=
  match sk with
  | [] => []
  | [l] => flat_map cell_tokens l
  | l :: r => flat_map cell_tokens l ++ TNewline :: skel_tokens r
  end.

Lemma erase_render_lines ls : erase (render_lines ls) = skel_tokens (map (map ch) ls).
Proof.
  induction ls as [|l ls IH]; [reflexivity|].
  destruct ls as [|l2 ls'].
  - simpl. apply erase_render_line.
  - change (render_lines (l :: l2 :: ls')) with (render_line l ++ TNewline :: render_lines (l2 :: ls')).
    change (skel_tokens (map (map ch) (l :: l2 :: ls')))
      with (flat_map cell_tokens (map ch l) ++ TNewline :: skel_tokens (map (map ch) (l2 :: ls'))).
    rewrite erase_app, erase_render_line. f_equal.
    change (erase (TNewline :: render_lines (l2 :: ls'))) with (TNewline :: erase (render_lines (l2 :: ls'))).
    rewrite IH. reflexivity.
Qed.

Lemma erase_render r : erase (render r) = skel_tokens (skeleton r).
Proof. apply erase_render_lines. Qed.

(* the report of a source text erases to the source itself *)
Fixpoint src_tokens (s : string) : list token :=
  match s with
  | EmptyString => []
  | String c r => (if Ascii.eqb c (ascii_of_nat 10) then TNewline else TSrc c) :: src_tokens r
  end.

Lemma cells_tokens s : flat_map cell_tokens (map ch (cells_of s)) = map TSrc (list_ascii_of_string s).
Proof. induction s as [|c s IH]; simpl; [reflexivity | rewrite IH; reflexivity]. Qed.

Lemma split_nl_nonempty s : split_nl s <> [].
Proof. destruct s as [|c s]; simpl; [discriminate|]. destruct (Ascii.eqb c _); [discriminate|]. destruct (split_nl s); discriminate. Qed.

Lemma mk_report_tokens src : skel_tokens (skeleton (mk_report src)) = src_tokens src.
Proof.
  unfold mk_report, skeleton. simpl r_stacks. rewrite map_map.
  induction src as [|c s IH]; [reflexivity|].
  simpl split_nl. simpl src_tokens. destruct (Ascii.eqb c (ascii_of_nat 10)) eqn:E.
  - pose proof (split_nl_nonempty s) as N. destruct (split_nl s) as [|h t] eqn:Es; [contradiction|].
    change (map (fun x => map ch (cells_of x)) (EmptyString :: h :: t))
      with (map ch (cells_of EmptyString) :: map (fun x => map ch (cells_of x)) (h :: t)).
    change (skel_tokens (map ch (cells_of EmptyString) :: map (fun x => map ch (cells_of x)) (h :: t)))
      with (flat_map cell_tokens (map ch (cells_of EmptyString)) ++ TNewline :: skel_tokens (map (fun x => map ch (cells_of x)) (h :: t))).
    rewrite IH. reflexivity.
  - pose proof (split_nl_nonempty s) as N. destruct (split_nl s) as [|h t] eqn:Es; [contradiction|].
    destruct t as [|h2 t'].
    + simpl in *. rewrite <- IH. reflexivity.
    + change (map (fun x => map ch (cells_of x)) (String c h :: h2 :: t'))
        with (map ch (cells_of (String c h)) :: map (fun x => map ch (cells_of x)) (h2 :: t')).
      change (map (fun x => map ch (cells_of x)) (h :: h2 :: t'))
        with (map ch (cells_of h) :: map (fun x => map ch (cells_of x)) (h2 :: t')) in IH.
      change (skel_tokens (?a :: map ?f (h2 :: t'))) with (flat_map cell_tokens a ++ TNewline :: skel_tokens (map f (h2 :: t'))).
      simpl. simpl in IH. rewrite <- IH. reflexivity.
Qed.

(* a whole auditing session: any list of enrich calls *)
Record ecall := { e_start : Z * Z; e_end : Z * Z; e_left : string; e_right : string; e_inter : bool; e_skip : bool }.

Fixpoint run_calls (r : report) (cs : list ecall) : outcome report :=
  match cs with
  | [] => Done r
  | c :: rest =>
      match enrich r (e_start c) (e_end c) (e_left c) (e_right c) (e_inter c) (e_skip c) with
      | Done r' => run_calls r' rest
      | Raised x => Raised x
      | Fuel => Fuel
      end
  end.

Theorem run_calls_skeleton : forall cs r r', run_calls r cs = Done r' -> skeleton r' = skeleton r.
Proof.
  induction cs as [|c cs IH]; intros r r' H; simpl in H; [inversion H; reflexivity|].
  destruct (enrich r (e_start c) (e_end c) (e_left c) (e_right c) (e_inter c) (e_skip c)) as [r1| |] eqn:E; try discriminate.
  rewrite (IH _ _ H). eapply enrich_skeleton; eauto.
Qed.

Theorem source_reproduced : forall src cs r',
  run_calls (mk_report src) cs = Done r' -> erase (render r') = erase (render (mk_report src)).
Proof.
  intros src cs r' H. rewrite !erase_render. f_equal. eapply run_calls_skeleton; eauto.
Qed.

Theorem source_reproduced_exactly : forall src cs r',
  run_calls (mk_report src) cs = Done r' -> erase (render r') = src_tokens src.
Proof.
  intros src cs r' H. rewrite (source_reproduced _ _ _ H). rewrite erase_render. apply mk_report_tokens.
Qed.
