(* Types of wrappers: small facts about [to_mir] and its three variants shared by the C05 proofs. *)
From Coq Require Import ZArith List String Bool Lia.
From NadaV.PyMini Require Import PyMini.
From NadaV.Model Require Import Rules Corr Mir Surface Trace.
Import ListNotations.
Open Scope string_scope.
Open Scope Z_scope.
Open Scope list_scope.

Lemma to_mir_with_id w i : to_mir (with_id w i) = to_mir w.
Proof. destruct w; reflexivity. Qed.

Lemma side_marker d t t' : side_mir d = Ok t -> marker_mir d = Ok t' -> t' = t.
Proof.
  destruct d as [c|w|e sz|]; cbn [side_mir marker_mir]; intros H H'; try congruence; discriminate.
Qed.

Lemma inner_side_agree d t t' : inner_mir d = Ok t -> side_mir d = Ok t' -> t' = t.
Proof.
  destruct d as [c|w|e sz|]; cbn [inner_mir side_mir]; intros H H'; try congruence; discriminate.
Qed.

Fixpoint mir_list (l : list wrap) : res (list mty) :=
  match l with [] => Ok [] | v :: r => do t <- to_mir v; do ts <- mir_list r; Ok (t :: ts) end.
Fixpoint mir_fields (l : list (string * wrap)) : res (list (string * mty)) :=
  match l with [] => Ok [] | (k, v) :: r => do t <- to_mir v; do ts <- mir_fields r; Ok ((k, t) :: ts) end.

Lemma to_mir_ntuple vals i : to_mir (WNTuple vals i) = do ts <- mir_list vals; Ok (TyNTuple ts).
Proof.
  cbn [to_mir].
  match goal with |- bind (?f vals) _ = _ => assert (E : forall l, f l = mir_list l) end.
  { induction l as [|v r IH]; [reflexivity|]. cbn fix beta iota. cbn [mir_list]. rewrite IH. reflexivity. }
  rewrite E. reflexivity.
Qed.
Lemma to_mir_object vals i : to_mir (WObject vals i) = do ts <- mir_fields vals; Ok (TyObject ts).
Proof.
  cbn [to_mir].
  match goal with |- bind (?f vals) _ = _ => assert (E : forall l, f l = mir_fields l) end.
  { induction l as [|[k v] r IH]; [reflexivity|]. cbn fix beta iota. cbn [mir_fields]. rewrite IH. reflexivity. }
  rewrite E. reflexivity.
Qed.

Lemma mir_list_spec : forall vals ts, mir_list vals = Ok ts -> Forall2 (fun v t => to_mir v = Ok t) vals ts.
Proof.
  induction vals as [|v r IH]; intros ts H; cbn [mir_list] in H.
  - inversion H. constructor.
  - destruct (to_mir v) as [t| |] eqn:Ev; cbn [bind] in H; try discriminate.
    destruct (mir_list r) as [ts'| |] eqn:Er; cbn [bind] in H; try discriminate.
    inversion H; subst. constructor; auto.
Qed.
Lemma mir_fields_spec : forall vals ts, mir_fields vals = Ok ts ->
  Forall2 (fun kv kt => fst kv = fst kt /\ to_mir (snd kv) = Ok (snd kt)) vals ts.
Proof.
  induction vals as [|[k v] r IH]; intros ts H; cbn [mir_fields] in H.
  - inversion H. constructor.
  - destruct (to_mir v) as [t| |] eqn:Ev; cbn [bind] in H; try discriminate.
    destruct (mir_fields r) as [ts'| |] eqn:Er; cbn [bind] in H; try discriminate.
    inversion H; subst. constructor; [simpl; auto | auto].
Qed.

Lemma mty_eqb_eq : forall a b, mty_eqb a b = true -> a = b.
Proof.
  fix IH 1. intros a b. destruct a as [x|i s|l r|ts|fs], b as [y|i' s'|l' r'|ts'|fs']; simpl; try discriminate.
  - intros H. apply String.eqb_eq in H. subst. reflexivity.
  - intros H. apply andb_prop in H. destruct H as [H1 H2]. apply IH in H1. subst i'.
    destruct s as [x|], s' as [y|]; try discriminate; [apply Z.eqb_eq in H2; subst|]; reflexivity.
  - intros H. apply andb_prop in H. destruct H as [H1 H2]. apply IH in H1. apply IH in H2. subst. reflexivity.
  - intros H. f_equal. revert ts' H. induction ts as [|x xs IHl]; intros [|y ys] H; try discriminate; [reflexivity|].
    apply andb_prop in H. destruct H as [H1 H2]. apply IH in H1. subst y. f_equal. apply IHl. exact H2.
  - intros H. f_equal. revert fs' H. induction fs as [|[k x] xs IHl]; intros [|[k' y] ys] H; try discriminate; [reflexivity|].
    apply andb_prop in H. destruct H as [H12 H3]. apply andb_prop in H12. destruct H12 as [H1 H2].
    apply String.eqb_eq in H1. apply IH in H2. subst. f_equal. apply IHl. exact H3.
Qed.

Lemma size_eqb_eq a b : size_eqb a b = true -> a = b.
Proof. destruct a, b; simpl; intros H; try discriminate; [apply Z.eqb_eq in H; subst|]; reflexivity. Qed.
