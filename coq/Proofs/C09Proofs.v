(* C09: nothing is emitted that the outputs do not need.  Every key of the table the DFS worklist builds is
   reachable from a root through operand references of the operation store (for ANY store and roots). *)
From Coq Require Import ZArith List String Bool Lia.
From NadaV.PyMini Require Import PyMini.
From NadaV.Model Require Import Rules Corr Mir Surface Trace Compile.
From NadaV.Proofs Require Import CompileProofs.
Import ListNotations.
Open Scope Z_scope.
Open Scope list_scope.

Inductive needed (st : list (Z * arec)) (roots : list Z) : Z -> Prop :=
| needed_root k : In k roots -> needed st roots k
| needed_child k' r k : needed st roots k' -> lookup k' st = Some r -> In k (child_operations (r_node r)) ->
                        needed st roots k.

Lemma needed_more st roots roots' k : incl roots roots' -> needed st roots k -> needed st roots' k.
Proof. intros Hi H. induction H; [apply needed_root; auto | eapply needed_child; eauto]. Qed.

Theorem traverse_needed :
  forall fuel st roots fs stack ops extra c ops' extra' c',
    traverse fuel st fs stack ops extra c = Ok (ops', extra', c') ->
    (forall k, In k (keys ops) -> needed st roots k) -> (forall k, In k stack -> needed st roots k) ->
    forall k, In k (keys ops') -> needed st roots k.
Proof.
  induction fuel as [|n IH]; intros st roots fs stack ops extra c ops' extra' c' H Ho Hs; simpl in H; [discriminate|].
  destruct stack as [|k0 rest]; [inversion H; subst; exact Ho|].
  destruct (zmem k0 (map e_key ops)).
  - eapply IH; [exact H | exact Ho | intros k Hk; apply Hs; right; exact Hk].
  - destruct (lookup k0 st) as [r|] eqn:Hl; [|discriminate].
    destruct (step_node fs r extra c) as [[extra1 c1]| |] eqn:Hst; try discriminate.
    pose proof (store_ok_all st _ _ Hl) as Hid.
    eapply IH; [exact H | |].
    + intros k Hk. rewrite keys_app in Hk. apply in_app_or in Hk. destruct Hk as [Hk | [Hk | []]]; [auto|].
      rewrite key_entry_of in Hk. subst k. rewrite Hid. apply Hs. left. reflexivity.
    + intros k Hk. apply in_app_or in Hk. destruct Hk as [Hk | Hk].
      * apply in_rev in Hk. eapply needed_child; [apply Hs; left; reflexivity | exact Hl | exact Hk].
      * apply Hs. right. exact Hk.
Qed.

Lemma outputs_loop_needed :
  forall outs st roots fs ops macc c ops' mouts fs' c',
    outputs_loop st fs outs ops macc c = Ok (ops', mouts, fs', c') ->
    incl (map co_id outs) roots -> (forall k, In k (keys ops) -> needed st roots k) ->
    forall k, In k (keys ops') -> needed st roots k.
Proof.
  induction outs as [|o outs IH]; intros st roots fs ops macc c ops' mouts fs' c' H Hi Ho; simpl in H.
  - inversion H; subst. exact Ho.
  - destruct (traverse (store_fuel st) st fs [co_id o] ops [] c) as [[[ops1 extra1] c1]| |] eqn:Ht;
      simpl in H; try discriminate.
    destruct (lookup (co_id o) st) as [rec|] eqn:Hl; [|discriminate].
    eapply IH; [exact H | intros x Hx; apply Hi; right; exact Hx |].
    eapply traverse_needed; [exact Ht | exact Ho |].
    intros k [<- | []]. apply needed_root. apply Hi. left. reflexivity.
Qed.

(* the program table of a compiled MIR: every operation is needed by some output *)
Theorem compile_nothing_unneeded : forall st fs0 outs m fs',
  compile st fs0 outs = Ok (m, fs') ->
  forall k, In k (keys (m_ops m)) -> needed st (map co_id outs) k.
Proof.
  intros st fs0 outs m fs' H. unfold compile in H.
  destruct (outputs_loop st fs0 outs [] [] (empty_cstate fs0)) as [[[[ops mouts] fs1] c1]| |] eqn:Ho;
    cbn [bind] in H; try discriminate.
  destruct (functions_loop (S (List.length st)) st fs1 (rev fs1) [] c1) as [[[mfuns fs2] c2]| |] eqn:Hf;
    cbn [bind] in H; try discriminate.
  inversion H; subst; clear H. simpl.
  eapply outputs_loop_needed; [exact Ho | apply incl_refl | intros k []].
Qed.

(* ... and so is every operation of every function table, from that function's return operation *)
Lemma functions_loop_needed :
  forall fuel st fs stack acc c mfuns fs' c',
    functions_loop fuel st fs stack acc c = Ok (mfuns, fs', c') ->
    Forall (fun f => forall k, In k (keys (f_ops f)) -> needed st [f_ret f] k) acc ->
    Forall (fun f => forall k, In k (keys (f_ops f)) -> needed st [f_ret f] k) mfuns.
Proof.
  induction fuel as [|n IH]; intros st fs stack acc c mfuns fs' c' H Hacc; simpl in H; [discriminate|].
  destruct stack as [|f rest]; [inversion H; subst; exact Hacc|].
  destruct (lookup f st) as [[fid rty node]|] eqn:Hl; [|discriminate].
  destruct node; try discriminate.
  destruct (traverse (store_fuel st) st fs [child] [] [] c) as [[[ops1 extra1] c1]| |] eqn:Ht;
    simpl in H; try discriminate.
  destruct (arg_records st args) as [margs| |] eqn:Hm; simpl in H; try discriminate.
  eapply IH; [exact H|].
  apply Forall_app. split; [exact Hacc|]. constructor; [|constructor]. simpl.
  eapply traverse_needed; [exact Ht | intros k [] |]. intros k [<- | []]. apply needed_root. left. reflexivity.
Qed.

Theorem compile_functions_nothing_unneeded : forall st fs0 outs m fs',
  compile st fs0 outs = Ok (m, fs') ->
  Forall (fun f => forall k, In k (keys (f_ops f)) -> needed st [f_ret f] k) (m_functions m).
Proof.
  intros st fs0 outs m fs' H. unfold compile in H.
  destruct (outputs_loop st fs0 outs [] [] (empty_cstate fs0)) as [[[[ops mouts] fs1] c1]| |] eqn:Ho;
    cbn [bind] in H; try discriminate.
  destruct (functions_loop (S (List.length st)) st fs1 (rev fs1) [] c1) as [[[mfuns fs2] c2]| |] eqn:Hf;
    cbn [bind] in H; try discriminate.
  inversion H; subst; clear H. simpl.
  eapply functions_loop_needed; [exact Hf | constructor].
Qed.
