(* C01, program level (scalar fragment): the tracer only ever files an operation under an id larger than the
   ids of its operands, so every table the compiler emits for such a program is acyclic — each operand reference
   points to a strictly smaller key (and, by C01_closed, to a key of the same table).  For EVERY program of the
   scalar fragment; induction over the statements, using the typing invariant of C02Program for the operand ids. *)
From Coq Require Import ZArith List String Bool Lia.
From NadaV.PyMini Require Import PyMini.
From NadaV.Gen Require GenScalar.
From NadaV.Model Require Import Rules Corr Mir Surface Trace Compile.
From NadaV.Spec Require Import TypingSpec.
From NadaV.Proofs Require Import Finite C02Proofs C06Proofs CompileProofs C18Proofs ScalarInv C02Rules C02Program.
Import ListNotations.
Open Scope string_scope.
Open Scope Z_scope.
Open Scope list_scope.

Definition ordered (s : tstate) : Prop :=
  forall k r, lookup k (store s) = Some r -> forall c, In c (child_operations (r_node r)) -> c < k.

Definition below (s : tstate) (id : option Z) : Prop := forall i, id = Some i -> i <= counter s.

Lemma push_ordered s id rec c1 l1 :
  ordered s -> counter s < id -> (forall c, In c (child_operations (r_node rec)) -> c <= counter s) ->
  ordered {| counter := c1; store := (id, rec) :: store s; lits := l1 |}.
Proof.
  intros Ho Hid Hc k r Hl c Hin. simpl in Hl. destruct (Z.eqb k id) eqn:E.
  - apply Z.eqb_eq in E. subst k. inversion Hl; subst. simpl in Hin. specialize (Hc c Hin). lia.
  - eapply Ho; eauto.
Qed.

Lemma new_literal_ordered b v s w s1 : new_literal b v s = Ok (w, s1) -> ordered s -> ordered s1.
Proof.
  intros H Ho. unfold new_literal, mbind, alloc, lit_index, put, ret in H. cbn [counter store lits] in H.
  match type of H with context [index_of ?k ?l 0] => destruct (index_of k l 0) end;
    inversion H; subst; clear H; (apply push_ordered; [assumption | lia | simpl; intros c []]).
Qed.

Lemma emit_ordered t n s w s1 :
  (mdo id <- alloc; emit_scalar t id (n id)) s = Ok (w, s1) -> ordered s ->
  (forall id c, In c (child_operations (n id)) -> c <= counter s) -> ordered s1.
Proof.
  intros H Ho Hc. unfold mbind, alloc, emit_scalar, put, ret, fail in H. cbn [counter store lits] in H.
  destruct t as [m b]. destruct m; cbn [fst] in H; try discriminate H;
    inversion H; subst; clear H; (apply push_ordered; [assumption | lia | apply Hc]).
Qed.

Lemma emit1_ordered t n x s w s1 :
  (mdo id <- alloc; mdo c <- need_id x; emit_scalar t id (n c)) s = Ok (w, s1) -> ordered s -> below s (wid x) ->
  (forall i c, In c (child_operations (n i)) -> c = i) -> ordered s1.
Proof.
  intros H Ho Hx Hn. destruct (wid x) as [i|] eqn:Ex.
  - apply (emit_ordered t (fun _ => n i) s w s1); auto.
    + unfold mbind in *. unfold alloc in *. rewrite need_id_run, Ex in H. exact H.
    + intros _ c Hin. rewrite (Hn i c Hin). apply Hx. reflexivity.
  - unfold mbind, alloc in H. rewrite need_id_run, Ex in H. discriminate H.
Qed.
Lemma emit2_ordered t n x y s w s1 :
  (mdo id <- alloc; mdo l <- need_id x; mdo r <- need_id y; emit_scalar t id (n l r)) s = Ok (w, s1) ->
  ordered s -> below s (wid x) -> below s (wid y) ->
  (forall i j c, In c (child_operations (n i j)) -> c = i \/ c = j) -> ordered s1.
Proof.
  intros H Ho Hx Hy Hn. destruct (wid x) as [i|] eqn:Ex; [destruct (wid y) as [j|] eqn:Ey|].
  - apply (emit_ordered t (fun _ => n i j) s w s1); auto.
    + unfold mbind in *. unfold alloc in *. rewrite !need_id_run, Ex in H. rewrite need_id_run, Ey in H. exact H.
    + intros _ c Hin. destruct (Hn i j c Hin) as [-> | ->]; [apply Hx | apply Hy]; reflexivity.
  - unfold mbind, alloc in H. rewrite !need_id_run, Ex in H. rewrite need_id_run, Ey in H. discriminate H.
  - unfold mbind, alloc in H. rewrite need_id_run, Ex in H. discriminate H.
Qed.
Lemma emit3_ordered t n x y z s w s1 :
  (mdo id <- alloc; mdo a <- need_id x; mdo b' <- need_id y; mdo c <- need_id z; emit_scalar t id (n a b' c)) s = Ok (w, s1) ->
  ordered s -> below s (wid x) -> below s (wid y) -> below s (wid z) ->
  (forall i j k c, In c (child_operations (n i j k)) -> c = i \/ c = j \/ c = k) -> ordered s1.
Proof.
  intros H Ho Hx Hy Hz Hn.
  destruct (wid x) as [i|] eqn:Ex; [destruct (wid y) as [j|] eqn:Ey; [destruct (wid z) as [k|] eqn:Ez|]|].
  - apply (emit_ordered t (fun _ => n i j k) s w s1); auto.
    + unfold mbind in *. unfold alloc in *. rewrite !need_id_run, Ex in H. rewrite !need_id_run, Ey in H. rewrite need_id_run, Ez in H. exact H.
    + intros _ c Hin. destruct (Hn i j k c Hin) as [-> | [-> | ->]]; [apply Hx | apply Hy | apply Hz]; reflexivity.
  - unfold mbind, alloc in H. rewrite !need_id_run, Ex in H. rewrite !need_id_run, Ey in H. rewrite need_id_run, Ez in H. discriminate H.
  - unfold mbind, alloc in H. rewrite !need_id_run, Ex in H. rewrite need_id_run, Ey in H. discriminate H.
  - unfold mbind, alloc in H. rewrite need_id_run, Ex in H. discriminate H.
Qed.

Lemma binop_ordered o ta ida va tb idb vb s w s1 :
  do_binop G o (WScalar ta ida va) (WScalar tb idb vb) s = Ok (w, s1) ->
  ordered s -> below s ida -> below s idb -> ordered s1.
Proof.
  intros H Ho Ha Hb.
  pose proof (bin_conf_all o ta tb (value_of (WScalar ta ida va)) (value_of (WScalar tb idb vb))) as Hspec.
  unfold do_binop in H.
  destruct (rule2v G o ta tb (value_of (WScalar ta ida va)) (value_of (WScalar tb idb vb))) as [e | t0 v0 | name t0 roles | k | e | e];
    cbn [bin_conf] in Hspec; try discriminate H; try contradiction.
  - destruct Hspec as (_ & (z & Hz) & _). rewrite Hz in H. eapply new_literal_ordered; eauto.
  - destruct Hspec as (Hr & _ & _). subst roles. rewrite pick_left, pick_right in H.
    apply (emit2_ordered t0 (fun l r => ABinary name l r) _ _ s w s1 H); auto.
    simpl. intros i j c [<- | [<- | []]]; auto.
Qed.

Lemma unop_ordered u ta ida va s w s1 :
  do_unop G u (WScalar ta ida va) s = Ok (w, s1) -> ordered s -> below s ida -> ordered s1.
Proof.
  intros H Ho Ha.
  pose proof (un_conf_all u ta (value_of (WScalar ta ida va))) as Hspec.
  unfold do_unop in H.
  destruct (classify (dispatch_method G (match u with UInvert => "__invert__" | UToPublic => "to_public" end)
                                      (operand ta (value_of (WScalar ta ida va)) 0) [])) as [e | t0 v0 | name t0 roles | k | e | e];
    cbn [un_conf] in Hspec; try discriminate H.
  - destruct Hspec as (_ & (z & Hz) & _). rewrite Hz in H. eapply new_literal_ordered; eauto.
  - destruct Hspec as (Hr & _ & _). subst roles. rewrite pick_child in H.
    apply (emit1_ordered t0 (fun c => AUnary name c) _ s w s1 H); auto.
    simpl. intros i c [<- | []]; auto.
  - unfold ret in H. inversion H; subst. exact Ho.
Qed.

Lemma ifelse_ordered tc idc vc ta ida va tb idb vb s w s1 :
  do_ifelse G (WScalar tc idc vc) (WScalar ta ida va) (WScalar tb idb vb) s = Ok (w, s1) ->
  ordered s -> below s idc -> below s ida -> below s idb -> ordered s1.
Proof.
  intros H Ho Hc Ha Hb. pose proof (if_conf_all tc ta tb) as Hspec. unfold do_ifelse in H.
  destruct (rule_ifelse G tc ta tb) as [e | t0 v0 | name t0 roles | k | e | e]; cbn [if_conf] in Hspec; try discriminate H.
  destruct Hspec as (Hr & _ & _). subst roles. rewrite pick_this, pick_arg0, pick_arg1 in H.
  apply (emit3_ordered t0 (fun a b c => AIfElse a b c) _ _ _ s w s1 H); auto.
  simpl. intros i j k c [<- | [<- | [<- | []]]]; auto.
Qed.

Notation env_ok := (ScalarInv.env_ok sty PE).
Notation get_wrap_inv := (ScalarInv.get_wrap_inv sty PE).

Lemma below_of_idlink s id t : idlink s id t -> below s id.
Proof. intros H i Hi. destruct (H i Hi) as [Hc _]. exact Hc. Qed.

Lemma rhs_ordered ρ Γ r s w s1 :
  eval_rhs G ρ r s = Ok (w, s1) -> in_fragment r = true -> env_ok s ρ Γ -> fresh_store s -> ordered s -> ordered s1.
Proof.
  intros H Hfr He Hf Ho. destruct r; try discriminate Hfr.
  - cbn [eval_rhs] in H. eapply new_literal_ordered; eauto.
  - destruct t as [[m b0]|]; [|discriminate Hfr].
    cbn [eval_rhs mk_input] in H. destruct m; unfold mbind, alloc, put, ret, fail in H; cbn [counter store lits] in H;
      try discriminate H; inversion H; subst; (apply push_ordered; [assumption | lia | simpl; intros c []]).
  - cbn [eval_rhs] in H. apply (emit_ordered (MSecret, b) (fun _ => ARandom) s w s1 H Ho). simpl. intros _ c [].
  - cbn [eval_rhs] in H. unfold mbind in H.
    destruct (get_wrap ρ a s) as [[wa sa]| |] eqn:Ga; try discriminate H.
    destruct (get_wrap_inv _ _ _ _ _ _ He Ga) as (-> & ta & Ea & (ta' & ida & va & -> & _ & La)).
    destruct (get_wrap ρ b s) as [[wb sb]| |] eqn:Gb; try discriminate H.
    destruct (get_wrap_inv _ _ _ _ _ _ He Gb) as (-> & tb & Eb & (tb' & idb & vb & -> & _ & Lb)).
    eapply binop_ordered; eauto using below_of_idlink.
  - cbn [eval_rhs] in H. unfold mbind in H.
    destruct (get_wrap ρ a s) as [[wa sa]| |] eqn:Ga; try discriminate H.
    destruct (get_wrap_inv _ _ _ _ _ _ He Ga) as (-> & ta & Ea & (ta' & ida & va & -> & _ & La)).
    eapply unop_ordered; eauto using below_of_idlink.
  - cbn [eval_rhs] in H. unfold mbind in H.
    destruct (get_wrap ρ c s) as [[wc sc]| |] eqn:Gc; try discriminate H.
    destruct (get_wrap_inv _ _ _ _ _ _ He Gc) as (-> & tc & Ec & (tc' & idc & vc & -> & _ & Lc)).
    destruct (get_wrap ρ a s) as [[wa sa]| |] eqn:Ga; try discriminate H.
    destruct (get_wrap_inv _ _ _ _ _ _ He Ga) as (-> & ta & Ea & (ta' & ida & va & -> & _ & La)).
    destruct (get_wrap ρ b s) as [[wb sb]| |] eqn:Gb; try discriminate H.
    destruct (get_wrap_inv _ _ _ _ _ _ He Gb) as (-> & tb & Eb & (tb' & idb & vb & -> & _ & Lb)).
    eapply ifelse_ordered; eauto using below_of_idlink.
  - cbn [eval_rhs] in H. unfold mbind in H.
    destruct (get_wrap ρ a s) as [[wa sa]| |] eqn:Ga; try discriminate H.
    destruct (get_wrap_inv _ _ _ _ _ _ He Ga) as (-> & ta & Ea & (ta' & ida & va & -> & _ & La)).
    eapply unop_ordered; eauto using below_of_idlink.
  - cbn [eval_rhs] in H. unfold mbind at 1 in H.
    destruct (get_wrap ρ a s) as [[wa sa]| |] eqn:Ga; try discriminate H.
    destruct (get_wrap_inv _ _ _ _ _ _ He Ga) as (-> & ta & Ea & (ta' & ida & va & -> & _ & La)).
    destruct ta' as [m b1]. destruct (numeric_base b1); [|discriminate H].
    unfold mbind in H. destruct (new_literal b1 k s) as [[l s2]| |] eqn:El; try discriminate H.
    pose proof (new_literal_ordered _ _ _ _ _ El Ho) as Ho2.
    destruct (ScalarInv.new_literal_ok sty PE _ _ _ _ _ (MConst, b1) El eq_refl Hf) as (Hext & Hf2 & (tl & idl & vl & -> & _ & Ll)).
    eapply binop_ordered; [exact H | exact Ho2 | | eapply below_of_idlink; eauto].
    eapply below_of_idlink. eapply idlink_ext; eauto.
Qed.

Lemma exec_ordered : forall ss fuel ρ Γ s ρ' s',
  exec G fuel ρ ss s = Ok (ρ', s') -> scalar_fragment ss = true ->
  env_ok s ρ Γ -> fresh_store s -> ordered s -> ordered s'.
Proof.
  induction ss as [|st ss IH]; intros fuel ρ Γ s ρ' s' H Hfr He Hf Ho.
  - destruct fuel; [discriminate H|]. simpl in H. unfold ret in H. inversion H; subst. exact Ho.
  - destruct fuel; [discriminate H|]. destruct st as [x r | f ps rt body res]; [|discriminate Hfr].
    cbn [scalar_fragment] in Hfr. apply andb_prop in Hfr. destruct Hfr as [Hr Hrest].
    cbn [exec] in H. unfold mbind in H. destruct (eval_rhs G ρ r s) as [[w s1]| |] eqn:Ev; try discriminate H.
    destruct (C02Program.rhs_ok _ _ _ _ _ _ Ev Hr He Hf) as (t & Ht & (Hext & Hf1 & Hw)).
    pose proof (rhs_ordered _ _ _ _ _ _ Ev Hr He Hf Ho) as Ho1.
    eapply (IH fuel _ ((x, t) :: Γ)); [exact H | exact Hrest | | exact Hf1 | exact Ho1].
    constructor; [|eapply (ScalarInv.env_ok_ext sty PE); eauto].
    split; [reflexivity|]. exists w. split; [reflexivity | exact Hw].
Qed.

(* ---- the emitted table: every entry comes from a stored record *)
Lemma traverse_entries :
  forall fuel st fs stack ops extra c ops' extra' c',
    traverse fuel st fs stack ops extra c = Ok (ops', extra', c') ->
    forall e, In e ops' -> In e ops \/ exists k r, lookup k st = Some r /\ e = entry_of r.
Proof.
  induction fuel as [|n IH]; intros st fs stack ops extra c ops' extra' c' H e He; simpl in H; [discriminate|].
  destruct stack as [|k rest]; [inversion H; subst; auto|].
  destruct (zmem k (map e_key ops)); [eapply IH; eauto|].
  destruct (lookup k st) as [r|] eqn:Hl; [|discriminate].
  destruct (step_node fs r extra c) as [[extra1 c1]| |] eqn:Hs; try discriminate.
  destruct (IH _ _ _ _ _ _ _ _ _ H e He) as [Hin | Hex]; [|auto].
  apply in_app_or in Hin. destruct Hin as [Hin | [<- | []]]; [auto|]. right. exists k, r. auto.
Qed.

Lemma outputs_loop_entries :
  forall outs st fs ops macc c ops' mouts fs' c',
    outputs_loop st fs outs ops macc c = Ok (ops', mouts, fs', c') ->
    forall e, In e ops' -> In e ops \/ exists k r, lookup k st = Some r /\ e = entry_of r.
Proof.
  induction outs as [|o outs IH]; intros st fs ops macc c ops' mouts fs' c' H e He; simpl in H.
  - inversion H; subst. auto.
  - destruct (traverse (store_fuel st) st fs [co_id o] ops [] c) as [[[ops1 extra1] c1]| |] eqn:Ht;
      simpl in H; try discriminate.
    destruct (lookup (co_id o) st) as [rec|] eqn:Hl; [|discriminate].
    destruct (IH _ _ _ _ _ _ _ _ _ H e He) as [Hin | Hex]; [|auto].
    eapply traverse_entries; eauto.
Qed.

Theorem scalar_programs_are_acyclic : forall p m,
  run G p = Ok m -> scalar_fragment (p_stmts p) = true ->
  forall e, In e (m_ops m) -> forall o, In o (operands (e_op e)) -> o < e_key e.
Proof.
  intros p m Hr Hfr. unfold run, run_from in Hr.
  destruct (exec G (stmts_size (p_stmts p)) [] (p_stmts p) init_state) as [[ρ s']| |] eqn:Ex; cbn [bind] in Hr; try discriminate Hr.
  destruct (make_outputs ρ (p_outs p)) as [couts| |] eqn:Em; cbn [bind] in Hr; try discriminate Hr.
  destruct (existsb (has_no_id ρ) (p_outs p)) eqn:En; cbn [bind] in Hr; try discriminate Hr.
  destruct (compile (store s') [] couts) as [[m' fs']| |] eqn:Hc; cbn [bind fst snd] in Hr; try discriminate Hr.
  inversion Hr; subst m'; clear Hr.
  assert (H0 : env_ok init_state [] [] /\ fresh_store init_state /\ ordered init_state).
  { split; [constructor|]. split; intros k r; simpl; intros; discriminate. }
  destruct H0 as (E0 & F0 & O0).
  pose proof (exec_ordered _ _ _ _ _ _ _ Ex Hfr E0 F0 O0) as Ho.
  unfold compile in Hc.
  destruct (outputs_loop (store s') [] couts [] [] (empty_cstate [])) as [[[[ops mouts] fs1] c1]| |] eqn:Hol;
    cbn [bind] in Hc; try discriminate.
  destruct (functions_loop (S (List.length (store s'))) (store s') fs1 (rev fs1) [] c1) as [[[mfuns fs2] c2]| |] eqn:Hfl;
    cbn [bind] in Hc; try discriminate.
  inversion Hc; subst; clear Hc. simpl.
  intros e He o Hin.
  destruct (outputs_loop_entries _ _ _ _ _ _ _ _ _ _ Hol e He) as [[] | (k & r & Hl & ->)].
  rewrite operands_entry_of in Hin. rewrite key_entry_of.
  pose proof (store_ok_all _ _ _ Hl) as Hid. rewrite Hid. eapply Ho; eauto.
Qed.
