(* Invariants of the tracer on the scalar fragment, generic in what is tracked about each bound value:
   [P a t v] relates an abstract datum [a] (a taint bit, a static type, an exact value, ...) to the type [t] and
   the literal value [v] of the scalar
   wrapper the tracer binds.  Shared by the program-level theorems of C02 and C03. *)
From Coq Require Import ZArith List String Bool Lia.
From NadaV.PyMini Require Import PyMini.
From NadaV.Model Require Import Rules Corr Mir Surface Trace Compile.
From NadaV.Spec Require Import FoldSpec.
Import ListNotations.
Open Scope string_scope.
Open Scope Z_scope.
Open Scope list_scope.

Definition roles3 : list (string * Z) := [("this", 0); ("arg_0", 1); ("arg_1", 2)].

Definition fresh_store (s : tstate) : Prop := forall k r, lookup k (store s) = Some r -> k <= counter s.
Definition idlink (s : tstate) (id : option Z) (t : sty) : Prop :=
  forall i, id = Some i -> i <= counter s /\ exists r, lookup i (store s) = Some r /\ r_ty r = TyName (mir_name t).
Definition ext (s s1 : tstate) : Prop :=
  counter s <= counter s1 /\ forall i, i <= counter s -> lookup i (store s1) = lookup i (store s).

Lemma ext_refl s : ext s s.  Proof. split; [lia | auto]. Qed.
Lemma ext_trans a b c : ext a b -> ext b c -> ext a c.
Proof. intros [A1 A2] [B1 B2]. split; [lia|]. intros i Hi. rewrite B2 by lia. apply A2. exact Hi. Qed.
Lemma idlink_ext s s1 id t : ext s s1 -> idlink s id t -> idlink s1 id t.
Proof.
  intros [E1 E2] H i Hi. destruct (H i Hi) as [Hc (r & Hl & Ht)]. split; [lia|].
  exists r. rewrite E2 by exact Hc. auto.
Qed.
Lemma need_id_run w s : need_id w s = match wid w with Some i => Ok (i, s) | None => Err "AttributeError" end.
Proof. unfold need_id. destruct (wid w); reflexivity. Qed.
Lemma pick_left x y : pick [("left", 0); ("right", 1)] "left" [x; y] = need_id x.  Proof. reflexivity. Qed.
Lemma pick_right x y : pick [("left", 0); ("right", 1)] "right" [x; y] = need_id y.  Proof. reflexivity. Qed.
Lemma pick_child x : pick [("child", 0)] "child" [x] = need_id x.  Proof. reflexivity. Qed.
Lemma pick_this x y z : pick roles3 "this" [x; y; z] = need_id x.  Proof. reflexivity. Qed.
Lemma pick_arg0 x y z : pick roles3 "arg_0" [x; y; z] = need_id y.  Proof. reflexivity. Qed.
Lemma pick_arg1 x y z : pick roles3 "arg_1" [x; y; z] = need_id z.  Proof. reflexivity. Qed.

Section Inv.
Variable A : Type.
Variable P : A -> sty -> option Z -> Prop.
Definition val_ok (s : tstate) (w : wrap) (a : A) : Prop :=
  exists t id v, w = WScalar t id v /\ P a t v /\ idlink s id t.
Definition env_ok (s : tstate) (ρ : env) (τ : list (string * A)) : Prop :=
  Forall2 (fun x a => fst x = fst a /\ exists w, snd x = BWrap w /\ val_ok s w (snd a)) ρ τ.


Lemma val_ok_ext s s1 w (b : A) : ext s s1 -> val_ok s w b -> val_ok s1 w b.
Proof.
  intros He (t & id & v & -> & Hb & Hl). exists t, id, v.
  split; [reflexivity|]. split; [exact Hb|]. eapply idlink_ext; eauto.
Qed.
Lemma env_ok_ext s s1 ρ (τ : list (string * A)) : ext s s1 -> env_ok s ρ τ -> env_ok s1 ρ τ.
Proof.
  intros He H. unfold env_ok in *. induction H as [|x a r ar Hxa Hrest IH]; constructor; auto.
  destruct Hxa as [Hk (w & Hw & Hok)]. split; [exact Hk|]. exists w. split; [exact Hw | eapply val_ok_ext; eauto].
Qed.
Lemma env_ok_assoc s ρ (τ : list (string * A)) x b : env_ok s ρ τ -> assoc x τ = Some b ->
  exists w, assoc x ρ = Some (BWrap w) /\ val_ok s w b.
Proof.
  intros H. unfold env_ok in H. induction H as [|[k bd] [k' a] r ar Hxa Hrest IH]; simpl; [discriminate|].
  destruct Hxa as [Hk (w & Hw & Hok)]. simpl in Hk, Hw. subst k'. destruct (String.eqb x k).
  - intros E. inversion E; subst. exists w. auto.
  - exact IH.
Qed.
Lemma get_wrap_ok s ρ (τ : list (string * A)) x b : env_ok s ρ τ -> assoc x τ = Some b ->
  exists w, get_wrap ρ x s = Ok (w, s) /\ val_ok s w b.
Proof.
  intros He Ha. destruct (env_ok_assoc _ _ _ _ _ He Ha) as (w & Hw & Hok).
  exists w. split; [|exact Hok]. unfold get_wrap. rewrite Hw. reflexivity.
Qed.

Definition step_ok (s s1 : tstate) (w : wrap) (a : A) : Prop :=
  ext s s1 /\ fresh_store s1 /\ val_ok s1 w a.

(* a record pushed under a fresh id *)
Lemma pushed_step s id rec c1 l1 t v b :
  fresh_store s -> counter s < id -> id <= c1 -> r_ty rec = TyName (mir_name t) -> P b t v ->
  step_ok s {| counter := c1; store := (id, rec) :: store s; lits := l1 |} (WScalar t (Some id) v) b.
Proof.
  intros Hf H1 H2 Ht Hb. split; [|split].
  - split; simpl; [lia|]. intros i Hi. destruct (Z.eqb i id) eqn:E; [apply Z.eqb_eq in E; lia | reflexivity].
  - intros k r Hl. simpl in Hl |- *. destruct (Z.eqb k id) eqn:E; [apply Z.eqb_eq in E; lia | apply Hf in Hl; lia].
  - exists t, (Some id), v. repeat split; auto.
    + inversion H; subst. simpl. exact H2.
    + inversion H; subst. simpl. rewrite Z.eqb_refl. eexists. split; [reflexivity | simpl; exact Ht].
Qed.

Lemma new_literal_ok b0 v s w s1 a :
  new_literal b0 v s = Ok (w, s1) -> P a (MConst, b0) (Some (lit_norm b0 v)) -> fresh_store s -> step_ok s s1 w a.
Proof.
  intros H Hp Hf. unfold new_literal, mbind, alloc, lit_index, put, ret in H. cbn [counter store lits] in H.
  match type of H with context [index_of ?k ?l 0] => destruct (index_of k l 0) end;
    inversion H; subst; clear H; (apply pushed_step; [assumption | lia | lia | reflexivity | exact Hp]).
Qed.

Lemma emit_ok t n s w s1 b :
  (mdo id <- alloc; emit_scalar t id (n id)) s = Ok (w, s1) ->
  P b t None -> fresh_store s -> step_ok s s1 w b.
Proof.
  intros H Hb Hf. unfold mbind, alloc, emit_scalar, put, ret, fail in H. cbn [counter store lits] in H.
  destruct t as [m b0]. destruct m; cbn [fst] in H; try discriminate H;
    inversion H; subst; clear H; (apply pushed_step; [assumption | lia | lia | reflexivity | exact Hb]).
Qed.


Lemma emit1_ok t n x s w s1 b :
  (mdo id <- alloc; mdo c <- need_id x; emit_scalar t id (n c)) s = Ok (w, s1) ->
  P b t None -> fresh_store s -> step_ok s s1 w b.
Proof.
  intros H Hb Hf. destruct (wid x) as [i|] eqn:Ex.
  - apply (emit_ok t (fun _ => n i) s w s1 b); auto.
    unfold mbind in *. unfold alloc in *. rewrite need_id_run, Ex in H. exact H.
  - unfold mbind, alloc in H. rewrite need_id_run, Ex in H. discriminate H.
Qed.
Lemma emit2_ok t n x y s w s1 b :
  (mdo id <- alloc; mdo l <- need_id x; mdo r <- need_id y; emit_scalar t id (n l r)) s = Ok (w, s1) ->
  P b t None -> fresh_store s -> step_ok s s1 w b.
Proof.
  intros H Hb Hf. destruct (wid x) as [i|] eqn:Ex; [destruct (wid y) as [j|] eqn:Ey|].
  - apply (emit_ok t (fun _ => n i j) s w s1 b); auto.
    unfold mbind in *. unfold alloc in *. rewrite !need_id_run, Ex in H. rewrite need_id_run, Ey in H. exact H.
  - unfold mbind, alloc in H. rewrite !need_id_run, Ex in H. rewrite need_id_run, Ey in H. discriminate H.
  - unfold mbind, alloc in H. rewrite need_id_run, Ex in H. discriminate H.
Qed.
Lemma emit3_ok t n x y z s w s1 b :
  (mdo id <- alloc; mdo a <- need_id x; mdo b' <- need_id y; mdo c <- need_id z; emit_scalar t id (n a b' c)) s = Ok (w, s1) ->
  P b t None -> fresh_store s -> step_ok s s1 w b.
Proof.
  intros H Hb Hf.
  destruct (wid x) as [i|] eqn:Ex; [destruct (wid y) as [j|] eqn:Ey; [destruct (wid z) as [k|] eqn:Ez|]|].
  - apply (emit_ok t (fun _ => n i j k) s w s1 b); auto.
    unfold mbind in *. unfold alloc in *. rewrite !need_id_run, Ex in H. rewrite !need_id_run, Ey in H. rewrite need_id_run, Ez in H. exact H.
  - unfold mbind, alloc in H. rewrite !need_id_run, Ex in H. rewrite !need_id_run, Ey in H. rewrite need_id_run, Ez in H. discriminate H.
  - unfold mbind, alloc in H. rewrite !need_id_run, Ex in H. rewrite need_id_run, Ey in H. discriminate H.
  - unfold mbind, alloc in H. rewrite need_id_run, Ex in H. discriminate H.
Qed.



Lemma env_ok_assoc_rev s ρ (τ : list (string * A)) x bd : env_ok s ρ τ -> assoc x ρ = Some bd ->
  exists a w, assoc x τ = Some a /\ bd = BWrap w /\ val_ok s w a.
Proof.
  intros H. unfold env_ok in H. induction H as [|[k b0] [k' a] r ar Hxa Hrest IH]; simpl; [discriminate|].
  destruct Hxa as [Hk (w & Hw & Hok)]. simpl in Hk, Hw. subst k'. destruct (String.eqb x k).
  - intros E. inversion E; subst. exists a, w. auto.
  - exact IH.
Qed.

Lemma get_wrap_inv s ρ (τ : list (string * A)) x w s' : env_ok s ρ τ -> get_wrap ρ x s = Ok (w, s') ->
  s' = s /\ exists a, assoc x τ = Some a /\ val_ok s w a.
Proof.
  intros He H. unfold get_wrap in H. destruct (assoc x ρ) as [[w0|f]|] eqn:Ea; try discriminate H.
  unfold ret in H. inversion H; subst. split; [reflexivity|].
  destruct (env_ok_assoc_rev _ _ _ _ _ He Ea) as (a & w1 & Ha & Hw & Hok). inversion Hw; subst. eauto.
Qed.
End Inv.
