(* The tracer only ever ADDS operations, under fresh ids — for the whole surface language
   (scalars, collections, functions).  [G Φ c0 s s1]: from s to s1 the counter did not decrease and
   the store grew by entries whose keys lie in (c0, counter s1] and whose nodes satisfy Φ.
   A small Hoare-style calculus ([Gm]) over the trace monad lets each right-hand side be checked
   by stepping through its definition.  No property theorems in this file. *)
From Coq Require Import ZArith List String Bool Lia.
From NadaV.PyMini Require Import PyMini.
From NadaV.Model Require Import Rules Corr Mir Surface Trace.
From NadaV.Proofs Require Import ScalarInv.
Import ListNotations.
Open Scope string_scope.
Open Scope Z_scope.
Open Scope list_scope.

(* ---- state-preserving actions *)
Definition pure {A} (m : M A) : Prop := forall s a s1, m s = Ok (a, s1) -> s1 = s.

Lemma pure_ret {A} (a : A) : pure (ret a).
Proof. intros s b s1 H. inversion H; reflexivity. Qed.
Lemma pure_fail {A} e : pure (@fail A e).
Proof. intros s b s1 H. discriminate H. Qed.
Lemma pure_lift {A} (r : res A) : pure (lift r).
Proof. intros s b s1 H. unfold lift in H. destruct r; inversion H; reflexivity. Qed.
Lemma pure_bind {A B} (m : M A) (k : A -> M B) : pure m -> (forall a, pure (k a)) -> pure (mbind m k).
Proof.
  intros Hm Hk s b s1 H. unfold mbind in H. destruct (m s) as [[a s']| |] eqn:E; try discriminate.
  apply Hm in E. subst s'. eapply Hk; eauto.
Qed.
Lemma pure_need_id w : pure (need_id w).
Proof. unfold need_id. destruct (wid w); [apply pure_ret | apply pure_fail]. Qed.
Lemma pure_get_wrap ρ x : pure (get_wrap ρ x).
Proof. unfold get_wrap. destruct (assoc x ρ) as [[w|f]|]; [apply pure_ret | apply pure_fail | apply pure_fail]. Qed.
Lemma pure_get_fun ρ x : pure (get_fun ρ x).
Proof. unfold get_fun. destruct (assoc x ρ) as [[w|f]|]; [apply pure_fail | apply pure_ret | apply pure_fail]. Qed.
Lemma pure_get_wraps ρ xs : pure (get_wraps ρ xs).
Proof.
  induction xs as [|x xs IH]; simpl; [apply pure_ret|].
  apply pure_bind; [apply pure_get_wrap|]. intro w. apply pure_bind; [exact IH|]. intro ws. apply pure_ret.
Qed.
Lemma pure_need_ids ws : pure (need_ids ws).
Proof.
  induction ws as [|w ws IH]; simpl; [apply pure_ret|].
  apply pure_bind; [apply pure_need_id|]. intro i. apply pure_bind; [exact IH|]. intro is_. apply pure_ret.
Qed.
Lemma pure_pick roles f ops : pure (pick roles f ops).
Proof.
  unfold pick. destruct (assoc f roles); [|apply pure_fail].
  destruct (nth_error ops (Z.to_nat z)); [apply pure_need_id | apply pure_fail].
Qed.
Lemma pure_ret_scalar t : pure (ret_scalar t).
Proof. destruct t; simpl; [apply pure_ret | apply pure_fail]. Qed.

Ltac pure_tac :=
  repeat first
    [ apply pure_ret | apply pure_fail | apply pure_lift | apply pure_need_id | apply pure_get_wrap
    | apply pure_get_fun | apply pure_get_wraps | apply pure_need_ids | apply pure_pick | apply pure_ret_scalar
    | apply pure_bind; [ | intro ]
    | match goal with |- pure (match ?x with _ => _ end) => destruct x end
    | match goal with |- pure (if ?x then _ else _) => destruct x end ].

(* ---- lookups in a store that grew *)
Lemma lookup_app_old new old k :
  (forall e, In e new -> k < fst e) -> lookup k (new ++ old) = lookup k old.
Proof.
  induction new as [|[k' r'] new IH]; intros H; simpl; [reflexivity|].
  destruct (Z.eqb_spec k k') as [->|Hne].
  - specialize (H (k', r') (or_introl eq_refl)). simpl in H. lia.
  - apply IH. intros e He. apply H. right. exact He.
Qed.

Lemma lookup_app_new new old k r :
  lookup k (new ++ old) = Some r -> lookup k old = None ->
  exists rec, In (k, rec) new /\ r = {| r_id := k; r_ty := r_ty rec; r_node := r_node rec |}.
Proof.
  induction new as [|[k' r'] new IH]; intros H Hn; simpl in H; [congruence|].
  destruct (Z.eqb_spec k k') as [->|Hne].
  - inversion H; subst. exists r'. split; [left; reflexivity | reflexivity].
  - destruct (IH H Hn) as (rec & Hin & Hr). exists rec. split; [right; exact Hin | exact Hr].
Qed.

Lemma fresh_none s k : fresh_store s -> counter s < k -> lookup k (store s) = None.
Proof.
  intros Hf Hk. destruct (lookup k (store s)) as [r|] eqn:E; [|reflexivity].
  apply Hf in E. lia.
Qed.

Section Mono.
Variable Φ : ast -> Prop.

Definition G (c0 : Z) (s s1 : tstate) : Prop :=
  counter s <= counter s1 /\
  exists new, store s1 = new ++ store s
              /\ Forall (fun e => (c0 < fst e <= counter s1) /\ Φ (r_node (snd e))) new.

Lemma G_refl c0 s : G c0 s s.
Proof. split; [lia|]. exists []. split; [reflexivity | constructor]. Qed.

Lemma G_trans c0 a b c : G c0 a b -> G c0 b c -> G c0 a c.
Proof.
  intros [A1 (n1 & E1 & F1)] [B1 (n2 & E2 & F2)]. split; [lia|].
  exists (n2 ++ n1). split; [rewrite E2, E1, app_assoc; reflexivity|].
  apply Forall_app. split; [exact F2|].
  eapply Forall_impl; [|exact F1]. intros e [H1 H2]. split; [lia | exact H2].
Qed.

Lemma G_base c0 c0' s s1 : c0 <= c0' -> G c0' s s1 -> G c0 s s1.
Proof.
  intros Hc [A1 (n1 & E1 & F1)]. split; [exact A1|]. exists n1. split; [exact E1|].
  eapply Forall_impl; [|exact F1]. intros e [H1 H2]. split; [lia | exact H2].
Qed.

Lemma lookup_G c0 s s1 k : G c0 s s1 -> k <= c0 -> lookup k (store s1) = lookup k (store s).
Proof.
  intros [_ (new & E & F)] Hk. rewrite E. apply lookup_app_old.
  intros e He. rewrite Forall_forall in F. specialize (F e He). lia.
Qed.

Lemma fresh_G c0 s s1 : fresh_store s -> G c0 s s1 -> fresh_store s1.
Proof.
  intros Hf [A1 (new & E & F)] k r H. rewrite E in H.
  destruct (lookup k (store s)) as [r0|] eqn:E0.
  - apply Hf in E0. lia.
  - destruct (lookup_app_new _ _ _ _ H E0) as (rec & Hin & _).
    rewrite Forall_forall in F. specialize (F _ Hin). simpl in F. lia.
Qed.

(* a new key's record comes from a new entry *)
Lemma lookup_G_new c0 s s1 k r :
  fresh_store s -> G c0 s s1 -> counter s < k -> lookup k (store s1) = Some r ->
  Φ (r_node r) /\ c0 < k.
Proof.
  intros Hf [A1 (new & E & F)] Hk H. rewrite E in H.
  destruct (lookup_app_new _ _ _ _ H (fresh_none _ _ Hf Hk)) as (rec & Hin & ->).
  rewrite Forall_forall in F. specialize (F _ Hin). simpl in *. split; [tauto | lia].
Qed.

Definition ok (c0 : Z) (ids : list Z) (s : tstate) : Prop :=
  c0 <= counter s /\ Forall (fun i => c0 < i <= counter s) ids.

Lemma ok_G c0 ids s s1 : ok c0 ids s -> G c0 s s1 -> ok c0 ids s1.
Proof.
  intros [H1 H2] [A1 _]. split; [lia|]. eapply Forall_impl; [|exact H2]. intros i Hi. simpl in Hi. lia.
Qed.

Definition Gm {A} (c0 : Z) (ids : list Z) (m : M A) : Prop :=
  forall s a s1, ok c0 ids s -> m s = Ok (a, s1) -> G c0 s s1.

Lemma Gm_pure {A} c0 ids (m : M A) : pure m -> Gm c0 ids m.
Proof. intros Hp s a s1 _ H. apply Hp in H. subst. apply G_refl. Qed.
Lemma Gm_ret {A} c0 ids (a : A) : Gm c0 ids (ret a).
Proof. apply Gm_pure, pure_ret. Qed.
Lemma Gm_fail {A} c0 ids e : Gm c0 ids (@fail A e).
Proof. apply Gm_pure, pure_fail. Qed.

Lemma Gm_bind {A B} c0 ids (m : M A) (k : A -> M B) :
  Gm c0 ids m -> (forall a, Gm c0 ids (k a)) -> Gm c0 ids (mbind m k).
Proof.
  intros Hm Hk s b s1 Hok H. unfold mbind in H. destruct (m s) as [[a s']| |] eqn:E; try discriminate.
  pose proof (Hm _ _ _ Hok E) as G1. eapply G_trans; [exact G1|].
  eapply Hk; [eapply ok_G; eauto | exact H].
Qed.

Lemma Gm_alloc_bind {B} c0 ids (k : Z -> M B) :
  (forall id, Gm c0 (id :: ids) (k id)) -> Gm c0 ids (mbind alloc k).
Proof.
  intros Hk s b s1 [H1 H2] H. unfold mbind, alloc in H.
  set (s' := {| counter := counter s + 1; store := store s; lits := lits s |}) in *.
  assert (G1 : G c0 s s').
  { split; [simpl; lia|]. exists []. split; [reflexivity | constructor]. }
  eapply G_trans; [exact G1|]. eapply (Hk (counter s + 1)); [|exact H].
  split; [simpl; lia|]. constructor; [simpl; lia|].
  eapply Forall_impl; [|exact H2]. intros i Hi. simpl in *. lia.
Qed.

Lemma Gm_put c0 ids id ty n : In id ids -> Φ n -> Gm c0 ids (put id ty n).
Proof.
  intros Hin Hn s a s1 [H1 H2] H. unfold put in H. inversion H; subst; clear H.
  split; [simpl; lia|]. exists [(id, {| r_id := id; r_ty := ty; r_node := n |})].
  split; [reflexivity|]. constructor; [|constructor]. simpl.
  rewrite Forall_forall in H2. specialize (H2 _ Hin). split; [lia | exact Hn].
Qed.

Lemma Gm_lit_index c0 ids k : Gm c0 ids (lit_index k).
Proof.
  intros s a s1 _ H. unfold lit_index in H.
  destruct (index_of k (lits s) 0); inversion H; subst; clear H.
  - apply G_refl.
  - split; [simpl; lia|]. exists []. split; [reflexivity | constructor].
Qed.

Hypothesis Φ_literal : forall v i, Φ (ALiteral v i).

Lemma Gm_new_literal c0 ids b v : Gm c0 ids (new_literal b v).
Proof.
  unfold new_literal. cbv zeta. apply Gm_alloc_bind. intro id.
  apply Gm_bind; [apply Gm_lit_index|]. intro idx.
  apply Gm_bind; [apply Gm_put; [left; reflexivity | apply Φ_literal]|]. intros _. apply Gm_ret.
Qed.

Lemma Gm_emit_scalar c0 ids t id n : In id ids -> Φ n -> Gm c0 ids (emit_scalar t id n).
Proof.
  intros Hin Hn. unfold emit_scalar. destruct (fst t); try apply Gm_fail;
    (apply Gm_bind; [apply Gm_put; assumption | intros _; apply Gm_ret]).
Qed.

(* a literal's wrapper carries an id allocated by this action *)
Lemma new_literal_wid c0 b v s w s1 :
  c0 <= counter s -> new_literal b v s = Ok (w, s1) -> exists id, wid w = Some id /\ c0 < id <= counter s1.
Proof.
  intros Hc H. unfold new_literal, mbind, alloc, lit_index, put, ret in H. cbn [counter store lits] in H.
  destruct (index_of _ (lits s) 0); inversion H; subst; clear H; simpl; eexists; (split; [reflexivity | lia]).
Qed.

End Mono.

Ltac gm_step :=
  first
    [ apply Gm_fail | apply Gm_ret
    | apply Gm_alloc_bind; intro
    | apply Gm_put; [simpl; tauto | ]
    | apply Gm_emit_scalar; [simpl; tauto | ]
    | apply Gm_new_literal
    | apply Gm_lit_index
    | apply Gm_pure; solve [pure_tac]
    | apply Gm_bind; [ | intro ]
    | match goal with |- Gm _ _ _ (match ?x with _ => _ end) => destruct x end
    | match goal with |- Gm _ _ _ (if ?x then _ else _) => destruct x end ].
Ltac gm := cbv zeta; repeat gm_step.
