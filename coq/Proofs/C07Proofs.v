From Coq Require Import ZArith List String Bool.
From NadaV.PyMini Require Import PyMini.
From NadaV.Gen Require Import GenClasses.
From NadaV.Model Require Import Rules PyProtocol.
From NadaV.Spec Require Import TypingSpec.
From NadaV.Proofs Require Import Finite.
Import ListNotations.
Open Scope string_scope.

Definition scalar_ok (t : sty) : bool :=
  literal t || forallb (fun r => is_raises (coerce G r (operand t 1 0) (operand t 1 1))) all_routes.
Lemma scalar_table : forall1 scalar_ok = true.  Proof. vm_compute. reflexivity. Qed.

Lemma in_all_routes r : In r all_routes.  Proof. destruct r; simpl; tauto. Qed.

Theorem scalars_oblivious : forall t r, literal t = false ->
  exists e, coerce G r (operand t 1 0) (operand t 1 1) = Raises e.
Proof.
  intros t r Hl. pose proof (forall1_spec _ scalar_table t) as H. unfold scalar_ok in H.
  rewrite Hl in H. cbn [orb] in H. rewrite forallb_forall in H. specialize (H r (in_all_routes r)).
  destruct (coerce G r (operand t 1 0) (operand t 1 1)); simpl in H; try discriminate. eauto.
Qed.

(* mixed operand types on the comparison routes (the other operand of any scalar type) *)
Definition scalar_mixed_ok (t u : sty) : bool :=
  literal t ||
  forallb (fun r => is_raises (coerce G r (operand t 1 0) (operand u 1 1))
                    && is_raises (coerce G r (operand u 1 0) (operand t 1 1)) || (match r with RTruth | RIter => literal u | _ => false end))
          [RChained; RMinMax; RMember].
Lemma scalar_mixed_table : forall2 scalar_mixed_ok = true.  Proof. vm_compute. reflexivity. Qed.

Definition coll_truth_ok (cls : string) : bool :=
  is_raises (coerce G RTruth (coll_obj cls 0) (coll_obj cls 1))
  && is_raises (coerce G RChained (coll_obj cls 0) (coll_obj cls 1))
  && is_raises (coerce G RMinMax (coll_obj cls 0) (coll_obj cls 1))
  && is_raises (coerce G RMember (coll_obj cls 0) (coll_obj cls 1)).
Lemma coll_table : forallb coll_truth_ok collection_classes = true.  Proof. vm_compute. reflexivity. Qed.

Theorem collections_oblivious : forall cls r, In cls collection_classes -> r <> RIter ->
  exists e, coerce G r (coll_obj cls 0) (coll_obj cls 1) = Raises e.
Proof.
  intros cls r Hin Hr. pose proof coll_table as H. rewrite forallb_forall in H. specialize (H cls Hin).
  unfold coll_truth_ok in H. repeat (apply andb_prop in H; destruct H as [H ?]).
  destruct r; try congruence;
    match goal with
    | Hx : is_raises (coerce G ?R _ _) = true |- exists e, coerce G ?R _ _ = _ =>
        destruct (coerce G R (coll_obj cls 0) (coll_obj cls 1)); simpl in Hx; try discriminate; eauto
    end.
Qed.

Theorem array_iteration_raises : exists e, coerce G RIter (coll_obj "Array" 0) (coll_obj "Array" 1) = Raises e.
Proof. eexists. vm_compute. reflexivity. Qed.

(* comparisons / membership against a plain Python value, both operand orders *)
Definition plain_ok (t : sty) : bool :=
  literal t ||
  forallb (fun pv : string * value =>
             forallb (fun r => forallb is_raises (coerce_plain G r (operand t 1 0) (snd pv)))
                     [RChained; RMinMax; RMember]) plain_values.
Lemma plain_table : forall1 plain_ok = true.  Proof. vm_compute. reflexivity. Qed.

Definition coll_plain_ok (cls : string) : bool :=
  forallb (fun pv : string * value =>
             forallb (fun r => forallb is_raises (coerce_plain G r (coll_obj cls 0) (snd pv)))
                     [RChained; RMinMax; RMember]) plain_values.
Lemma coll_plain_table : forallb coll_plain_ok collection_classes = true.  Proof. vm_compute. reflexivity. Qed.

Theorem scalars_vs_plain_values : forall t pname p r c, literal t = false ->
  In (pname, p) plain_values -> In r [RChained; RMinMax; RMember] ->
  In c (coerce_plain G r (operand t 1 0) p) -> exists e, c = Raises e.
Proof.
  intros t pname p r c Hl Hp Hr Hc. pose proof (forall1_spec _ plain_table t) as H. unfold plain_ok in H.
  rewrite Hl in H. cbn [orb] in H. rewrite forallb_forall in H. specialize (H _ Hp). cbn [snd] in H.
  rewrite forallb_forall in H. specialize (H _ Hr). rewrite forallb_forall in H. specialize (H _ Hc).
  destruct c; simpl in H; try discriminate. eauto.
Qed.

Theorem collections_vs_plain_values : forall cls pname p r c, In cls collection_classes ->
  In (pname, p) plain_values -> In r [RChained; RMinMax; RMember] ->
  In c (coerce_plain G r (coll_obj cls 0) p) -> exists e, c = Raises e.
Proof.
  intros cls pname p r c Hcls Hp Hr Hc. pose proof coll_plain_table as H. rewrite forallb_forall in H.
  specialize (H _ Hcls). unfold coll_plain_ok in H. rewrite forallb_forall in H. specialize (H _ Hp). cbn [snd] in H.
  rewrite forallb_forall in H. specialize (H _ Hr). rewrite forallb_forall in H. specialize (H _ Hc).
  destruct c; simpl in H; try discriminate. eauto.
Qed.
