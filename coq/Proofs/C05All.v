(* C05, first clause, for every well-formed program of the WHOLE surface language: every type the tracer records —
   hence every type in the MIR (operations of the main and of every function table, outputs, inputs, literals,
   function return types and parameters) — is a complete Nada type: a scalar type name, or an array with a size,
   tuple, n-tuple or object whose components are complete.
   Well-formed: declared array inputs have a size >= 0, object field names are distinct, function parameters are
   scalars (array parameters carry no size: the open finding C05/incomplete:array-param-without-size). *)
From Coq Require Import ZArith List String Bool Lia.
From NadaV.PyMini Require Import PyMini.
From NadaV.Model Require Import Rules Corr Mir Surface Trace Compile.
From NadaV.Spec Require Import MirSpec.
From NadaV.Proofs Require Import ScalarInv TraceMono C11Program WrapTypes.
Import ListNotations.
Open Scope string_scope.
Open Scope Z_scope.
Open Scope list_scope.

(* ---- types of wrappers *)
Lemma mir_name_complete t : smem (mir_name t) scalar_names = true.
Proof. destruct t as [m b]; destruct m, b; reflexivity. Qed.

Lemma inner_side d t : inner_mir d = Ok t -> completeb t = true -> side_mir d = Ok t.
Proof.
  destruct d as [c|w|e sz|]; cbn [inner_mir side_mir]; intros H Hc; try exact H.
  inversion H; subst. discriminate Hc.
Qed.

Definition cw (w : wrap) : Prop := exists ty, to_mir w = Ok ty /\ completeb ty = true.

(* components of complete collections are complete *)
Lemma cw_ntuple_component vals i n v : cw (WNTuple vals i) -> nth_wrap vals n = Some v -> cw v.
Proof.
  intros (ty & Hm & Hc) Hn. rewrite to_mir_ntuple in Hm.
  destruct (mir_list vals) as [ts| |] eqn:El; cbn [bind] in Hm; try discriminate. inversion Hm; subst. simpl in Hc.
  pose proof (mir_list_spec _ _ El) as F. clear El Hm. revert n Hn Hc.
  induction F as [|x t l1 l2 Hx _ IH]; intros n Hn Hc; destruct n; simpl in Hn; try discriminate.
  - inversion Hn; subst. simpl in Hc. apply andb_prop in Hc. exists t. tauto.
  - simpl in Hc. apply andb_prop in Hc. eapply IH; [exact Hn | tauto].
Qed.
Lemma cw_object_field vals i k v : cw (WObject vals i) -> assoc k vals = Some v -> cw v.
Proof.
  intros (ty & Hm & Hc) Hk. rewrite to_mir_object in Hm.
  destruct (mir_fields vals) as [ts| |] eqn:El; cbn [bind] in Hm; try discriminate. inversion Hm; subst. simpl in Hc.
  apply andb_prop in Hc. destruct Hc as [Hc _].
  pose proof (mir_fields_spec _ _ El) as F. clear El Hm. revert Hk Hc.
  induction F as [|[k1 x] [k2 t] l1 l2 [Hk12 Hx] _ IH]; intros Hk Hc; simpl in Hk; [discriminate|].
  simpl in *. apply andb_prop in Hc. destruct (String.eqb k k1).
  - inversion Hk; subst. exists t. tauto.
  - apply IH; tauto.
Qed.

(* ---- the invariant and a small calculus for it *)
Definition CInv (s : tstate) : Prop := forall k r, lookup k (store s) = Some r -> completeb (r_ty r) = true.
Definition cenv (ρ : env) : Prop := forall x w, assoc x ρ = Some (BWrap w) -> cw w.
Definition CP {A} (m : M A) : Prop := forall s a s1, CInv s -> m s = Ok (a, s1) -> CInv s1.
Definition CW (m : M wrap) : Prop := forall s a s1, CInv s -> m s = Ok (a, s1) -> CInv s1 /\ cw a.

Lemma CP_pure {A} (m : M A) : pure m -> CP m.
Proof. intros Hp s a s1 HI H. apply Hp in H. subst. exact HI. Qed.
Lemma CP_alloc : CP alloc.
Proof. intros s a s1 HI H. unfold alloc in H. inversion H; subst. exact HI. Qed.
Lemma CP_lit_index k : CP (lit_index k).
Proof. intros s a s1 HI H. unfold lit_index in H. destruct (index_of k (lits s) 0); inversion H; subst; exact HI. Qed.
Lemma CP_put id ty n : completeb ty = true -> CP (put id ty n).
Proof.
  intros Hc s a s1 HI H. unfold put in H. inversion H; subst; clear H. intros k r Hl. simpl in Hl.
  destruct (Z.eqb k id); [inversion Hl; subst; exact Hc | exact (HI _ _ Hl)].
Qed.

Lemma CW_fail e : CW (fail e).
Proof. intros s a s1 _ H. discriminate H. Qed.
Lemma CW_ret w : cw w -> CW (ret w).
Proof. intros Hw s a s1 HI H. unfold ret in H. inversion H; subst. auto. Qed.
Lemma CW_bind_cp {A} (m : M A) (k : A -> M wrap) : CP m -> (forall a, CW (k a)) -> CW (mbind m k).
Proof.
  intros Hm Hk s r s1 HI H. unfold mbind in H. destruct (m s) as [[a s']| |] eqn:E; try discriminate.
  eapply Hk; [eapply Hm; eauto | exact H].
Qed.
Lemma CW_bind_q {A} (m : M A) (k : A -> M wrap) (Q : A -> Prop) :
  (forall s a s1, m s = Ok (a, s1) -> s1 = s /\ Q a) -> (forall a, Q a -> CW (k a)) -> CW (mbind m k).
Proof.
  intros Hm Hk s r s1 HI H. unfold mbind in H. destruct (m s) as [[a s']| |] eqn:E; try discriminate.
  destruct (Hm _ _ _ E) as [-> Hq]. eapply Hk; eauto.
Qed.
Lemma CW_bind_lift (r : res mty) (k : mty -> M wrap) : (forall ty, r = Ok ty -> CW (k ty)) -> CW (mbind (lift r) k).
Proof.
  intros Hk. eapply (CW_bind_q _ _ (fun ty => r = Ok ty)); [|exact Hk].
  intros s a s1 H. unfold lift in H. destruct r; inversion H; subst. auto.
Qed.

Lemma cw_scalar t id v : cw (WScalar t id v).
Proof. exists (TyName (mir_name t)). split; [reflexivity | apply mir_name_complete]. Qed.

Lemma CW_new_literal b v : CW (new_literal b v).
Proof.
  unfold new_literal. cbv zeta. apply CW_bind_cp; [apply CP_alloc|]. intro id.
  apply CW_bind_cp; [apply CP_lit_index|]. intro idx.
  apply CW_bind_cp; [apply CP_put; apply mir_name_complete|]. intros _. apply CW_ret. apply cw_scalar.
Qed.
Lemma CW_emit_scalar t id n : CW (emit_scalar t id n).
Proof.
  unfold emit_scalar. destruct (fst t); try apply CW_fail;
    (apply CW_bind_cp; [apply CP_put; apply mir_name_complete | intros _; apply CW_ret; apply cw_scalar]).
Qed.

Section Rhs.
Variable GG : genv.
Variable ρ : env.
Hypothesis Hρ : cenv ρ.

Lemma CW_bind_get_wrap x (k : wrap -> M wrap) : (forall w, cw w -> CW (k w)) -> CW (mbind (get_wrap ρ x) k).
Proof.
  intros Hk. eapply (CW_bind_q _ _ cw); [|exact Hk].
  intros s a s1 H. unfold get_wrap in H. destruct (assoc x ρ) as [[w|f]|] eqn:E; try discriminate.
  unfold ret in H. inversion H; subst. split; [reflexivity | eapply Hρ; eauto].
Qed.
Lemma CW_bind_get_wraps xs (k : list wrap -> M wrap) :
  (forall ws, Forall cw ws -> List.length ws = List.length xs -> CW (k ws)) -> CW (mbind (get_wraps ρ xs) k).
Proof.
  intros Hk. eapply (CW_bind_q _ _ (fun ws => Forall cw ws /\ List.length ws = List.length xs)); [|intros ws [A B]; apply Hk; assumption].
  intros s ws s1 H. destruct (get_wraps_spec _ _ _ _ _ H) as [-> F]. split; [reflexivity|].
  clear H Hk. induction F as [|x w xs ws Hx _ [IH1 IH2]]; [split; [apply Forall_nil | reflexivity]|].
  split; [apply Forall_cons; [eapply Hρ; eauto | exact IH1] | simpl; rewrite IH2; reflexivity].
Qed.

Ltac cw_step :=
  first
    [ apply CW_fail
    | apply CW_bind_get_wrap; intros ? ?
    | apply CW_bind_get_wraps; intros ? ? ?
    | apply CW_new_literal
    | apply CW_emit_scalar
    | apply CW_bind_lift; intros ? ?
    | apply CW_bind_cp; [apply CP_alloc | intro ]
    | apply CW_bind_cp; [apply CP_pure; solve [pure_tac] | intro ]
    | match goal with |- CW (match ?x with _ => _ end) => destruct x end
    | match goal with |- CW (if ?x then _ else _) => destruct x eqn:? end ].
Ltac cws := cbv zeta; repeat cw_step.

Lemma CW_do_binop o a b : CW (do_binop GG o a b).
Proof. unfold do_binop. cws; apply CW_ret; assumption || apply cw_scalar. Qed.
Lemma CW_do_unop u a : CW (do_unop GG u a).
Proof. unfold do_unop. cws; apply CW_ret; assumption || apply cw_scalar. Qed.
Lemma CW_do_ifelse c a b : CW (do_ifelse GG c a b).
Proof. unfold do_ifelse. cws. Qed.

Lemma CW_generate_accessor v id n : cw v -> CW (generate_accessor v id n).
Proof.
  intros Hv. unfold generate_accessor. destruct v as [[m b] vi vv | e sz ai | l r ti | vs ni | fs oi].
  - destruct m.
    + apply CW_ret. exact Hv.
    + apply CW_bind_cp; [apply CP_put; apply mir_name_complete|]. intros _. apply CW_ret. apply cw_scalar.
    + apply CW_bind_cp; [apply CP_put; apply mir_name_complete|]. intros _. apply CW_ret. apply cw_scalar.
  - cbv zeta. apply CW_bind_lift. intros ty Hty. rewrite to_mir_with_id in Hty.
    destruct Hv as (ty' & Hm & Hc). rewrite Hm in Hty. inversion Hty; subst ty'.
    apply CW_bind_cp; [apply CP_put; exact Hc|]. intros _. apply CW_ret. exists ty. rewrite to_mir_with_id. auto.
  - apply CW_fail.
  - cbv zeta. apply CW_bind_lift. intros ty Hty. rewrite to_mir_with_id in Hty.
    destruct Hv as (ty' & Hm & Hc). rewrite Hm in Hty. inversion Hty; subst ty'.
    apply CW_bind_cp; [apply CP_put; exact Hc|]. intros _. apply CW_ret. exists ty. rewrite to_mir_with_id. auto.
  - cbv zeta. apply CW_bind_lift. intros ty Hty. rewrite to_mir_with_id in Hty.
    destruct Hv as (ty' & Hm & Hc). rewrite Hm in Hty. inversion Hty; subst ty'.
    apply CW_bind_cp; [apply CP_put; exact Hc|]. intros _. apply CW_ret. exists ty. rewrite to_mir_with_id. auto.
Qed.

(* declared types: array sizes present and non-negative *)
Fixpoint ity_ok (t : ity) : bool :=
  match t with
  | IScalar _ => true
  | IArray e (Some n) => ity_ok e && (0 <=? n)
  | IArray _ None => false
  end.

Lemma CW_mk_input name party doc : forall t, ity_ok t = true -> CW (mk_input name party doc t).
Proof.
  induction t as [[m b]|elt IH size]; intros Hok; cbn [mk_input].
  - destruct m.
    + apply CW_bind_cp; [apply CP_alloc|]. intro. apply CW_fail.
    + apply CW_bind_cp; [apply CP_alloc|]. intro id.
      apply CW_bind_cp; [apply CP_put; apply mir_name_complete|]. intros _. apply CW_ret. apply cw_scalar.
    + apply CW_bind_cp; [apply CP_alloc|]. intro id.
      apply CW_bind_cp; [apply CP_put; apply mir_name_complete|]. intros _. apply CW_ret. apply cw_scalar.
  - simpl in Hok. destruct size as [n|]; [|discriminate]. apply andb_prop in Hok. destruct Hok as [He Hn].
    intros s a s1 HI H. unfold mbind at 1 in H.
    destruct (mk_input name party doc elt s) as [[inner s']| |] eqn:E; try discriminate.
    destruct (IH He _ _ _ HI E) as [HI' (ti & Hti & Hci)].
    revert H. generalize s' HI'. clear E HI HI' s. intros s HI H.
    assert (Hk : CW (mdo id <- need_id inner;
                     mdo ty <- lift (to_mir (WArray (DInst inner) (Some n) (Some id)));
                     mdo _ <- put id ty (AInput name party doc);
                     ret (WArray (DInst inner) (Some n) (Some id)))).
    { apply CW_bind_cp; [apply CP_pure, pure_need_id|]. intro id.
      apply CW_bind_lift. intros ty Hty. cbn [to_mir inner_mir] in Hty. rewrite Hti in Hty. cbn [bind] in Hty.
      inversion Hty; subst ty.
      assert (Hc : completeb (TyArray ti (truthy_size (Some n))) = true) by (simpl; rewrite Hci, Hn; reflexivity).
      apply CW_bind_cp; [apply CP_put; exact Hc|]. intros _. apply CW_ret.
      exists (TyArray ti (truthy_size (Some n))). split; [cbn [to_mir inner_mir]; rewrite Hti; reflexivity | exact Hc]. }
    exact (Hk _ _ _ HI H).
Qed.

End Rhs.

(* ---- complete types of constructed collections *)
Lemma cw_array_inv e size i : cw (WArray e size i) ->
  exists t n, inner_mir e = Ok t /\ completeb t = true /\ size = Some n /\ (0 <=? n) = true.
Proof.
  intros (ty & Hm & Hc). cbn [to_mir] in Hm. destruct (inner_mir e) as [t| |]; cbn [bind] in Hm; try discriminate.
  inversion Hm; subst. unfold truthy_size in Hc. destruct size as [n|]; simpl in Hc; [|discriminate].
  apply andb_prop in Hc. exists t, n. tauto.
Qed.

Lemma mir_list_complete : forall ws, Forall cw ws -> exists ts, mir_list ws = Ok ts /\ forallb completeb ts = true.
Proof.
  induction ws as [|w ws IH]; intros F; [exists []; auto|].
  inversion F as [|? ? (t & Hm & Hc) F']; subst. destruct (IH F') as (ts & Hl & Hcs).
  exists (t :: ts). cbn [mir_list]. rewrite Hm, Hl. simpl. rewrite Hc, Hcs. auto.
Qed.

Lemma mir_fields_complete : forall ks ws, Forall cw ws -> List.length ks = List.length ws ->
  exists ts, mir_fields (combine ks ws) = Ok ts /\ forallb (fun kv => completeb (snd kv)) ts = true /\ map fst ts = ks.
Proof.
  induction ks as [|k ks IH]; intros ws F Hl; destruct ws as [|w ws]; simpl in Hl; try discriminate.
  - exists []. auto.
  - inversion F as [|? ? (t & Hm & Hc) F']; subst. destruct (IH ws F') as (ts & Hf & Hcs & Hk); [lia|].
    exists ((k, t) :: ts). cbn [combine mir_fields]. rewrite Hm, Hf. simpl. rewrite Hc, Hcs, Hk. auto.
Qed.

Definition wf_rhs (r : rhs) : bool :=
  match r with
  | RInput _ _ _ t => ity_ok t
  | RObjectNew fs => snodup (map fst fs)
  | _ => true
  end.

Section Rhs2.
Variable GG : genv.
Variable ρ : env.
Hypothesis Hρ : cenv ρ.

Ltac cw_step :=
  first
    [ apply CW_fail
    | apply (CW_bind_get_wrap ρ Hρ); intros ? ?
    | apply (CW_bind_get_wraps ρ Hρ); intros ? ? ?
    | apply CW_new_literal
    | apply CW_emit_scalar
    | apply CW_bind_lift; intros ? ?
    | apply CW_bind_cp; [apply CP_alloc | intro ]
    | apply CW_bind_cp; [apply CP_pure; solve [pure_tac] | intro ]
    | match goal with |- CW (match ?x with _ => _ end) => destruct x eqn:? end
    | match goal with |- CW (if ?x then _ else _) => destruct x eqn:? end ].
Ltac cws := cbv zeta; repeat cw_step.
Ltac fin ty Hc := apply CW_bind_cp; [apply CP_put; exact Hc|]; intros _; apply CW_ret; exists ty; split; [assumption || reflexivity | exact Hc].

Lemma CW_bind_cw (m : M wrap) (k : wrap -> M wrap) : CW m -> (forall a, cw a -> CW (k a)) -> CW (mbind m k).
Proof.
  intros Hm Hk s r s1 HI H. unfold mbind in H. destruct (m s) as [[a s']| |] eqn:E; try discriminate.
  destruct (Hm _ _ _ HI E) as [HI' Ha]. eapply Hk; eauto.
Qed.

Lemma Forall2_length_eq {A B} (P : A -> B -> Prop) l1 l2 : Forall2 P l1 l2 -> List.length l1 = List.length l2.
Proof. intros F. induction F; simpl; auto. Qed.

Theorem CW_eval_rhs r : wf_rhs r = true -> CW (eval_rhs GG ρ r).
Proof.
  intros Hwf. destruct r; cbn [eval_rhs].
  - apply CW_new_literal.
  - apply CW_mk_input. exact Hwf.
  - cws.
  - cws. apply CW_do_binop.
  - cws. apply CW_do_unop.
  - cws. apply CW_do_ifelse.
  - cws. apply CW_do_unop.
  - (* k + x *) cws. apply CW_bind_cw; [apply CW_new_literal|]. intros l Hl. apply CW_do_binop.
  - (* ArrayNew *) apply (CW_bind_get_wraps ρ Hρ). intros ws Hws _.
    destruct ws as [|first rest]; [apply CW_fail|].
    apply CW_bind_cp; [apply CP_pure, (pure_same_go first (first :: rest))|]. intros same.
    destruct same; [|apply CW_fail].
    apply CW_bind_cp; [apply CP_alloc|]. intro id. apply CW_bind_cp; [apply CP_pure, pure_need_ids|]. intro ids.
    cbv zeta. apply CW_bind_lift. intros ty Hty.
    inversion Hws as [|? ? (t0 & Hm0 & Hc0) _]; subst.
    cbn [to_mir inner_mir] in Hty. rewrite Hm0 in Hty. cbn [bind] in Hty. inversion Hty; subst ty.
    assert (Hc : completeb (TyArray t0 (truthy_size (Some (Z.of_nat (List.length (first :: rest)))))) = true).
    { simpl. rewrite Hc0. simpl. apply Z.leb_le. lia. }
    apply CW_bind_cp; [apply CP_put; exact Hc|]. intros _. apply CW_ret.
    eexists. split; [cbn [to_mir inner_mir]; rewrite Hm0; reflexivity | exact Hc].
  - (* TupleNew *) cws.
    match goal with Hx : cw ?x, Hy : cw ?y |- _ => destruct Hx as (tx & Hmx & Hcx); destruct Hy as (ty' & Hmy & Hcy) end.
    match goal with H : to_mir (WTuple _ _ _) = Ok ?t |- _ => cbn [to_mir side_mir] in H; rewrite Hmx, Hmy in H; cbn [bind] in H; inversion H; subst end.
    assert (Hc : completeb (TyTuple tx ty') = true) by (simpl; rewrite Hcx, Hcy; reflexivity).
    apply CW_bind_cp; [apply CP_put; exact Hc|]. intros _. apply CW_ret.
    eexists. split; [cbn [to_mir side_mir]; rewrite Hmx, Hmy; reflexivity | exact Hc].
  - (* NTupleNew *) cws.
    match goal with Hws : Forall cw ?ws |- _ => destruct (mir_list_complete _ Hws) as (ts & Hl & Hcs) end.
    match goal with H : to_mir (WNTuple _ _) = Ok ?t |- _ => rewrite to_mir_ntuple, Hl in H; cbn [bind] in H; inversion H; subst end.
    assert (Hc : completeb (TyNTuple ts) = true) by exact Hcs.
    apply CW_bind_cp; [apply CP_put; exact Hc|]. intros _. apply CW_ret.
    eexists. split; [rewrite to_mir_ntuple, Hl; reflexivity | exact Hc].
  - (* ObjectNew *) apply (CW_bind_get_wraps ρ Hρ). intros ws Hws Hlen0.
    apply CW_bind_cp; [apply CP_alloc|]. intro id. apply CW_bind_cp; [apply CP_pure, pure_need_ids|]. intro ids.
    cbv zeta. apply CW_bind_lift. intros ty Hty.
    assert (Hlen : List.length (map fst fs) = List.length ws) by (rewrite Hlen0, !map_length; reflexivity).
    destruct (mir_fields_complete _ _ Hws Hlen) as (ts & Hf & Hcs & Hk).
    rewrite to_mir_object, Hf in Hty. cbn [bind] in Hty. inversion Hty; subst ty.
    assert (Hc : completeb (TyObject ts) = true) by (simpl; rewrite Hcs, Hk; exact Hwf).
    apply CW_bind_cp; [apply CP_put; exact Hc|]. intros _. apply CW_ret.
    eexists. split; [rewrite to_mir_object, Hf; reflexivity | exact Hc].
  - (* Index *) apply (CW_bind_get_wrap ρ Hρ). intros x Hx. destruct x as [| | |vals it|]; try apply CW_fail.
    cbv zeta. destruct ((i <? 0) || (Z.of_nat (List.length vals) <=? i)); [apply CW_fail|].
    apply CW_bind_cp; [apply CP_alloc|]. intro id. destruct (nth_wrap vals (Z.to_nat i)) as [v|] eqn:En; [|apply CW_fail].
    apply CW_bind_cp; [apply CP_pure, pure_need_id|]. intro src.
    apply CW_generate_accessor. eapply cw_ntuple_component; eauto.
  - (* Field *) apply (CW_bind_get_wrap ρ Hρ). intros x Hx. destruct (reserved_attr k); [apply CW_fail|].
    destruct x as [| | | |vals it]; try apply CW_fail.
    destruct (assoc k vals) as [v|] eqn:Ek; [|apply CW_fail].
    apply CW_bind_cp; [apply CP_alloc|]. intro id. apply CW_bind_cp; [apply CP_pure, pure_need_id|]. intro src.
    apply CW_generate_accessor. eapply cw_object_field; eauto.
  - (* Map *) apply (CW_bind_get_wrap ρ Hρ). intros x Hx. destruct x as [|e size ia| | |]; try apply CW_fail.
    destruct (cw_array_inv _ _ _ Hx) as (t & n & _ & _ & -> & Hn).
    apply CW_bind_cp; [apply CP_pure, pure_get_fun|]. intro fr.
    apply CW_bind_cp; [apply CP_alloc|]. intro id. apply CW_bind_cp; [apply CP_pure, pure_need_id|]. intro src.
    destruct (fn_ret fr) as [rt|]; [|apply CW_fail]. cbv zeta. apply CW_bind_lift. intros ty Hty.
    cbn [to_mir inner_mir bind] in Hty. inversion Hty; subst ty.
    assert (Hc : completeb (TyArray (TyName (mir_name rt)) (truthy_size (Some n))) = true)
      by (unfold truthy_size; cbn [completeb]; rewrite mir_name_complete, Hn; reflexivity).
    apply CW_bind_cp; [apply CP_put; exact Hc|]. intros _. apply CW_ret. eexists. split; [reflexivity | exact Hc].
  - (* Reduce *) cws.
  - (* Zip *) apply (CW_bind_get_wrap ρ Hρ). intros x Hx. apply (CW_bind_get_wrap ρ Hρ). intros y Hy.
    destruct x as [|ex sx ia| | |]; try apply CW_fail. destruct y as [|ey sy ib| | |]; try apply CW_fail.
    destruct (negb (size_eqb sx sy)); [apply CW_fail|].
    destruct (cw_array_inv _ _ _ Hx) as (tx & n & Hix & Hcx & -> & Hn).
    destruct (cw_array_inv _ _ _ Hy) as (ty' & n' & Hiy & Hcy & _ & _).
    apply CW_bind_cp; [apply CP_alloc|]. intro id. apply CW_bind_cp; [apply CP_pure, pure_need_id|]. intro l.
    apply CW_bind_cp; [apply CP_pure, pure_need_id|]. intro r. cbv zeta. apply CW_bind_lift. intros ty Hty.
    pose proof (inner_side _ _ Hix Hcx) as Sx. pose proof (inner_side _ _ Hiy Hcy) as Sy.
    cbn [to_mir inner_mir] in Hty. rewrite Sx, Sy in Hty. cbn [bind] in Hty. inversion Hty; subst ty.
    assert (Hc : completeb (TyArray (TyTuple tx ty') (truthy_size (Some n))) = true)
      by (simpl; rewrite Hcx, Hcy, Hn; reflexivity).
    apply CW_bind_cp; [apply CP_put; exact Hc|]. intros _. apply CW_ret.
    eexists. split; [cbn [to_mir inner_mir]; rewrite Sx, Sy; reflexivity | exact Hc].
  - (* Unzip *) apply (CW_bind_get_wrap ρ Hρ). intros x Hx.
    destruct x as [|e size ia| | |]; try apply CW_fail. destruct e as [|w| |]; try apply CW_fail.
    destruct w as [| |l r ti| |]; try apply CW_fail.
    destruct (cw_array_inv _ _ _ Hx) as (tt & n & Hi & Hct & -> & Hn).
    cbn [inner_mir to_mir] in Hi.
    destruct (side_mir l) as [tl| |] eqn:Sl; cbn [bind] in Hi; try discriminate.
    destruct (side_mir r) as [tr| |] eqn:Sr; cbn [bind] in Hi; try discriminate.
    inversion Hi; subst tt. simpl in Hct. apply andb_prop in Hct. destruct Hct as [Hcl Hcr].
    apply CW_bind_cp; [apply CP_alloc|]. intro id. apply CW_bind_cp; [apply CP_pure, pure_need_id|]. intro src.
    cbv zeta. apply CW_bind_lift. intros ty Hty. cbn [to_mir side_mir] in Hty.
    destruct (marker_mir l) as [ml| |] eqn:Ml; cbn [bind] in Hty; try discriminate.
    destruct (marker_mir r) as [mr| |] eqn:Mr; cbn [bind] in Hty; try discriminate.
    inversion Hty; subst ty.
    pose proof (side_marker _ _ _ Sl Ml) as ->. pose proof (side_marker _ _ _ Sr Mr) as ->.
    assert (Hc : completeb (TyTuple (TyArray tl (Some n)) (TyArray tr (Some n))) = true)
      by (simpl; rewrite Hcl, Hcr, Hn; reflexivity).
    apply CW_bind_cp; [apply CP_put; exact Hc|]. intros _. apply CW_ret.
    eexists. split; [cbn [to_mir side_mir]; rewrite Ml, Mr; reflexivity | exact Hc].
  - (* Inner *) cws.
  - (* Call *) cws; (apply CW_bind_cp; [apply CP_put; apply mir_name_complete|]; intros _; apply CW_emit_scalar).
Qed.
End Rhs2.

(* ---- statements *)
Definition scalar_ity (t : ity) : bool := match t with IScalar _ => true | IArray _ _ => false end.
Fixpoint wf_stmt (s : stmt) : bool :=
  match s with
  | SLet _ r => wf_rhs r
  | SDef _ params _ body _ =>
      forallb (fun p => scalar_ity (snd p)) params
      && (fix go (l : list stmt) : bool := match l with [] => true | x :: r => wf_stmt x && go r end) body
  end.
Fixpoint wf_stmts (ss : list stmt) : bool := match ss with [] => true | s :: r => wf_stmt s && wf_stmts r end.
Lemma wf_def f ps rt body res : wf_stmt (SDef f ps rt body res) = forallb (fun p => scalar_ity (snd p)) ps && wf_stmts body.
Proof. reflexivity. Qed.

Section Stmts.
Variable GG : genv.

Lemma template_scalar t s w s1 : scalar_ity t = true -> CInv s -> template_of t s = Ok (w, s1) -> CInv s1 /\ cw w.
Proof.
  destruct t as [[m b]|]; [|discriminate]. intros _ HI H. destruct m; cbn [template_of] in H.
  - unfold mbind at 1 in H. destruct (new_literal b 0 s) as [[w0 s0]| |] eqn:E; try discriminate.
    unfold ret in H. inversion H; subst. exact (CW_new_literal b 0 _ _ _ HI E).
  - unfold ret in H. inversion H; subst. split; [exact HI | apply cw_scalar].
  - unfold ret in H. inversion H; subst. split; [exact HI | apply cw_scalar].
Qed.

Lemma make_args_complete fid : forall ps s args s1,
  forallb (fun p => scalar_ity (snd p)) ps = true -> CInv s -> make_args fid ps s = Ok (args, s1) ->
  CInv s1 /\ Forall (fun a => cw (snd (snd a))) args.
Proof.
  induction ps as [|[x t] ps IH]; intros s args s1 Hw HI H.
  - simpl in H. unfold ret in H. inversion H; subst. split; [exact HI | constructor].
  - simpl in Hw. apply andb_prop in Hw. destruct Hw as [Ht Hps].
    cbn [make_args] in H. unfold mbind at 1 in H.
    destruct (template_of t s) as [[tmpl sa]| |] eqn:Et; try discriminate.
    destruct (template_scalar _ _ _ _ Ht HI Et) as [HIa (ty & Hm & Hc)].
    unfold mbind at 1 in H. unfold alloc at 1 in H.
    unfold mbind at 1 in H. unfold lift at 1 in H. rewrite Hm in H.
    unfold mbind at 1 in H. unfold put at 1 in H. unfold mbind at 1 in H.
    match type of H with (match make_args fid ps ?st with _ => _ end) = _ =>
      destruct (make_args fid ps st) as [[rest sd]| |] eqn:Er; try discriminate;
      assert (HIc : CInv st) end.
    { intros k r Hl. simpl in Hl. destruct (Z.eqb k (counter sa + 1)); [inversion Hl; subst; exact Hc | exact (HIa _ _ Hl)]. }
    unfold ret in H. inversion H; subst; clear H.
    destruct (IH _ _ _ Hps HIc Er) as [HId Frest]. split; [exact HId|].
    constructor; [|exact Frest]. cbn [snd]. exists ty. rewrite to_mir_with_id. auto.
Qed.

Lemma cenv_body args ρ : Forall (fun a => cw (snd (snd a))) args -> cenv ρ -> cenv (body_env args ρ).
Proof.
  intros Fa Hρ x w Hx. unfold body_env in Hx.
  assert (Fr : Forall (fun a : Z * (string * wrap) => cw (snd (snd a))) (rev args)).
  { apply Forall_forall. intros a Ha. rewrite Forall_forall in Fa. apply Fa. apply in_rev. exact Ha. }
  induction Fr as [|a l Ha _ IH]; simpl in Hx; [eapply Hρ; eauto|].
  destruct (String.eqb x (fst (snd a))); [inversion Hx; subst; exact Ha | apply IH; exact Hx].
Qed.

Theorem exec_complete : forall fuel ρ ss s ρ' s',
  wf_stmts ss = true -> cenv ρ -> CInv s -> exec GG fuel ρ ss s = Ok (ρ', s') -> CInv s' /\ cenv ρ'.
Proof.
  induction fuel as [|n IH]; intros ρ ss s ρ' s' Hw Hρ HI H; [discriminate H|].
  destruct ss as [|[x r | f params rt body res] rest].
  - simpl in H. unfold ret in H. inversion H; subst. auto.
  - cbn [wf_stmts wf_stmt] in Hw. apply andb_prop in Hw. destruct Hw as [Hr Hrest].
    cbn [exec] in H. unfold mbind at 1 in H.
    destruct (eval_rhs GG ρ r s) as [[w s1]| |] eqn:E; try discriminate.
    destruct (CW_eval_rhs GG ρ Hρ r Hr _ _ _ HI E) as [HI1 Hw1].
    eapply IH; [exact Hrest | | exact HI1 | exact H].
    intros y wy Hy. simpl in Hy. destruct (String.eqb y x); [inversion Hy; subst; exact Hw1 | eapply Hρ; eauto].
  - cbn [wf_stmts] in Hw. apply andb_prop in Hw. destruct Hw as [Hd Hrest]. rewrite wf_def in Hd.
    apply andb_prop in Hd. destruct Hd as [Hps Hbody].
    destruct (sdef_inversion _ _ _ _ _ _ _ _ _ _ _ _ H)
      as (args & s1 & ρb & s2 & child & t & cid & Ea & Eb & Er & Ew & Ert & Hm & Hp & Erest).
    assert (H0 : CInv (after_alloc s)) by exact HI.
    destruct (make_args_complete _ _ _ _ _ Hps H0 Ea) as [HI1 Fargs].
    destruct (IH _ _ _ _ _ Hbody (cenv_body _ _ Fargs Hρ) HI1 Eb) as [HI2 _].
    eapply IH; [exact Hrest | | | exact Erest].
    + intros y wy Hy. simpl in Hy. destruct (String.eqb y f); [discriminate Hy | eapply Hρ; eauto].
    + intros k r0 Hl. unfold after_put in Hl. simpl in Hl.
      destruct (Z.eqb k (counter s + 1)); [inversion Hl; subst; apply mir_name_complete | exact (HI2 _ _ Hl)].
Qed.
End Stmts.

(* ---- down to the MIR *)
From NadaV.Proofs Require Import CompileProofs C01Program C01All C11Proofs C18Proofs C09Program.

Definition entry_complete (e : mentry) : Prop := e_op e = MEmpty \/ completeb (e_ty e) = true.

Lemma entry_of_complete st k r : (forall k r, lookup k st = Some r -> completeb (r_ty r) = true) ->
  lookup k st = Some r -> entry_complete (entry_of r).
Proof.
  intros HI Hl. unfold entry_complete, entry_of. destruct (r_node r); simpl; try (right; eapply HI; eauto). left. reflexivity.
Qed.

Definition mir_types_complete (m : mir) : Prop :=
  (forall e, In e (m_ops m) -> entry_complete e)
  /\ (forall f, In f (m_functions m) ->
        completeb (f_ret_ty f) = true /\ (forall a, In a (f_args f) -> completeb (a_ty a) = true)
        /\ forall e, In e (f_ops f) -> entry_complete e)
  /\ (forall o, In o (m_outputs m) -> completeb (o_ty o) = true)
  /\ (forall i, In i (m_inputs m) -> completeb (i_ty i) = true)
  /\ (forall l, In l (m_literals m) -> completeb (l_ty l) = true).

Theorem well_formed_programs_have_complete_types (GG : genv) : forall p m,
  wf_stmts (p_stmts p) = true -> run GG p = Ok m -> mir_types_complete m.
Proof.
  intros p m Hwf Hr. unfold run, run_from in Hr.
  destruct (exec GG (stmts_size (p_stmts p)) [] (p_stmts p) init_state) as [[ρ s']| |] eqn:Ex; cbn [bind] in Hr; try discriminate Hr.
  destruct (make_outputs ρ (p_outs p)) as [couts| |] eqn:Em; cbn [bind] in Hr; try discriminate Hr.
  destruct (existsb (has_no_id ρ) (p_outs p)) eqn:En; cbn [bind] in Hr; try discriminate Hr.
  destruct (compile (store s') [] couts) as [[m' fs']| |] eqn:Hc; cbn [bind fst snd] in Hr; try discriminate Hr.
  inversion Hr; subst m'; clear Hr.
  assert (H0 : CInv init_state) by (intros k r Hl; simpl in Hl; discriminate).
  assert (Hρ0 : cenv []) by (intros x w Hx; simpl in Hx; discriminate).
  destruct (exec_complete GG _ _ _ _ _ _ Hwf Hρ0 H0 Ex) as [HI _].
  pose proof (compile_functions_from_records _ _ _ _ _ Hc) as Ffun.
  pose proof (compile_outputs _ _ _ _ _ Hc) as Fout.
  destruct (compile_inputs_parties _ _ _ _ _ Hc) as [Fin _].
  pose proof (compile_literals _ _ _ _ _ Hc) as Flit.
  pose proof Hc as Hc'. unfold compile in Hc.
  destruct (outputs_loop (store s') [] couts [] [] (empty_cstate [])) as [[[[ops mouts] fs1] c1]| |] eqn:Hol;
    cbn [bind] in Hc; try discriminate.
  destruct (functions_loop (S (List.length (store s'))) (store s') fs1 (rev fs1) [] c1) as [[[mfuns fs2] c2]| |] eqn:Hfl;
    cbn [bind] in Hc; try discriminate.
  inversion Hc; subst; clear Hc. simpl in Ffun, Fout, Fin, Flit |- *.
  split; [|split; [|split; [|split]]].
  - intros e He. destruct (outputs_loop_entries _ _ _ _ _ _ _ _ _ _ Hol e He) as [[] | (k & r & Hl & ->)].
    eapply entry_of_complete; eauto.
  - intros f Hf. rewrite Forall_forall in Ffun. destruct (Ffun f Hf) as (args & Hl & Hargs).
    split; [|split].
    + pose proof (HI _ _ Hl) as Hc. exact Hc.
    + intros a Ha. clear - Hargs Ha HI. induction Hargs as [|id a0 l1 l2 [fn Hrec] _ IH]; [destruct Ha|].
      destruct Ha as [<- | Ha]; [exact (HI _ _ Hrec) | apply IH; exact Ha].
    + pose proof (functions_loop_entries _ _ _ _ _ _ _ _ _ Hfl (Forall_nil _)) as F.
      rewrite Forall_forall in F. intros e He. destruct (F f Hf e He) as (k & r & Hl' & ->).
      eapply entry_of_complete; eauto.
  - intros o Ho. clear - Fout Ho HI. induction Fout as [|co mo l1 l2 (A & B & C & rec & Hl & Ht) _ IH]; [destruct Ho|].
    destruct Ho as [<- | Ho]; [rewrite Ht; exact (HI _ _ Hl) | apply IH; exact Ho].
  - intros i Hi. destruct (Fin i Hi) as (k & r & Hl & _ & Ht). rewrite <- Ht. exact (HI _ _ Hl).
  - intros l Hl. destruct (Flit l Hl) as (k & r & Hk & _ & Ht). rewrite <- Ht. exact (HI _ _ Hk).
Qed.

(* ---- the MIR carries the recorded types: every entry of the main table and of every function's table is the
   image [entry_of] of a stored record (its type is the recorded type), every output has the type recorded for the
   operation it names, every input entry the type recorded for its input operation *)
Definition mir_carries_recorded_types (st : list (Z * arec)) (couts : list cout) (m : mir) : Prop :=
  from_store st (m_ops m)
  /\ (forall f, In f (m_functions m) -> from_store st (f_ops f))
  /\ Forall2 (out_rel st) couts (m_outputs m)
  /\ (forall i, In i (m_inputs m) ->
        exists k r, lookup k st = Some r /\ r_node r = AInput (i_name i) (i_party i) (i_doc i) /\ r_ty r = i_ty i).

Theorem compile_carries_recorded_types : forall st couts m fs',
  compile st [] couts = Ok (m, fs') -> mir_carries_recorded_types st couts m.
Proof.
  intros st couts m fs' Hc.
  pose proof (compile_outputs _ _ _ _ _ Hc) as Fout.
  destruct (compile_inputs_parties _ _ _ _ _ Hc) as [Fin _].
  unfold compile in Hc.
  destruct (outputs_loop st [] couts [] [] (empty_cstate [])) as [[[[ops mouts] fs1] c1]| |] eqn:Hol;
    cbn [bind] in Hc; try discriminate.
  destruct (functions_loop (S (List.length st)) st fs1 (rev fs1) [] c1) as [[[mfuns fs2] c2]| |] eqn:Hfl;
    cbn [bind] in Hc; try discriminate.
  inversion Hc; subst; clear Hc. simpl in Fout, Fin |- *.
  split; [|split; [|split; [exact Fout | exact Fin]]].
  - intros e He. destruct (outputs_loop_entries _ _ _ _ _ _ _ _ _ _ Hol e He) as [[] | Hex]. exact Hex.
  - pose proof (functions_loop_entries _ _ _ _ _ _ _ _ _ Hfl (Forall_nil _)) as F.
    rewrite Forall_forall in F. exact F.
Qed.
