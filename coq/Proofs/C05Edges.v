(* C05, second clause, for the WHOLE surface language.
   Part A — coherence: at every point of every program, every value bound to a name (and every component of a
   bound n-tuple / object) that carries an operation id is recorded in the store under that id WITH ITS OWN TYPE:
   the type recorded for an operation is the type of the value the program holds for it.
   Part B — edges: under that invariant, each collection operation, map, reduce and call that is accepted records
   a type determined by the types RECORDED for its operands (element type and size for zip, unzip, map, new and
   the accessors; the applied function's recorded return type for map, reduce and calls).
   No property theorems in this file. *)
From Coq Require Import ZArith List String Bool Lia.
From NadaV.PyMini Require Import PyMini.
From NadaV.Model Require Import Rules Corr Mir Surface Trace.
From NadaV.Proofs Require Import ScalarInv TraceMono C11Program C12Steps WrapTypes.
Import ListNotations.
Open Scope string_scope.
Open Scope Z_scope.
Open Scope list_scope.

(* ---- the type recorded under an id *)
Definition ty_at (s : tstate) (id : Z) (t : mty) : Prop :=
  exists r, lookup id (store s) = Some r /\ r_ty r = t.

Lemma ty_at_sub s s1 id t : sub s s1 -> ty_at s id t -> ty_at s1 id t.
Proof. intros Hs (r & Hl & Ht). exists r. split; [apply Hs; exact Hl | exact Ht]. Qed.

Lemma ty_at_fun s id t t' : ty_at s id t -> ty_at s id t' -> t = t'.
Proof. intros (r & Hl & Ht) (r' & Hl' & Ht'). rewrite Hl in Hl'. inversion Hl'; subst. reflexivity. Qed.

Lemma recorded_ty_at s id ty n : recorded_as s id ty n -> ty_at s id ty.
Proof. intros H. eexists. split; [exact H | reflexivity]. Qed.

(* ---- coherence of a wrapper with the store *)
Definition coh (s : tstate) (w : wrap) : Prop :=
  forall id, wid w = Some id -> exists t, to_mir w = Ok t /\ ty_at s id t.

(* a wrapper and, for n-tuples and objects, the wrappers of its components, recursively *)
Fixpoint subs (w : wrap) : list wrap :=
  w :: match w with
       | WNTuple vals _ =>
           (fix go (l : list wrap) : list wrap := match l with [] => [] | v :: r => subs v ++ go r end) vals
       | WObject vals _ =>
           (fix go (l : list (string * wrap)) : list wrap :=
              match l with [] => [] | kv :: r => subs (snd kv) ++ go r end) vals
       | _ => []
       end.
Definition comps (w : wrap) : list wrap := tl (subs w).

Lemma subs_eq w : subs w = w :: comps w.
Proof. destruct w; reflexivity. Qed.
Lemma comps_with_id w i : comps (with_id w i) = comps w.
Proof. destruct w; reflexivity. Qed.
Lemma comps_ntuple vals i : comps (WNTuple vals i) = flat_map subs vals.
Proof.
  unfold comps. cbn [subs tl]. induction vals as [|v r IH]; [reflexivity|]. cbn [flat_map]. rewrite <- IH. reflexivity.
Qed.
Lemma comps_object vals i : comps (WObject vals i) = flat_map (fun kv => subs (snd kv)) vals.
Proof.
  unfold comps. cbn [subs tl]. induction vals as [|v r IH]; [reflexivity|]. cbn [flat_map]. rewrite <- IH. reflexivity.
Qed.
Lemma self_in_subs w : In w (subs w).
Proof. rewrite subs_eq. left. reflexivity. Qed.

Definition cohd (s : tstate) (w : wrap) : Prop := forall u, In u (subs w) -> coh s u.

Lemma coh_sub s s1 w : sub s s1 -> coh s w -> coh s1 w.
Proof. intros Hs H id Hid. destruct (H id Hid) as (t & Ht & Ha). exists t. split; [exact Ht | eapply ty_at_sub; eauto]. Qed.
Lemma cohd_sub s s1 w : sub s s1 -> cohd s w -> cohd s1 w.
Proof. intros Hs H u Hu. eapply coh_sub; eauto. Qed.
Lemma cohd_coh s w : cohd s w -> coh s w.
Proof. intros H. apply H. apply self_in_subs. Qed.

Lemma cohd_intro s w : coh s w -> (forall u, In u (comps w) -> coh s u) -> cohd s w.
Proof. intros H1 H2 u Hu. rewrite subs_eq in Hu. destruct Hu as [<- | Hu]; auto. Qed.

Lemma nth_wrap_in : forall vals n v, nth_wrap vals n = Some v -> In v vals.
Proof.
  induction vals as [|x vals IH]; intros n v H; destruct n; simpl in H; try discriminate.
  - inversion H; subst. left. reflexivity.
  - right. eapply IH; eauto.
Qed.
Lemma assoc_in {A} : forall (vals : list (string * A)) k v, assoc k vals = Some v -> In (k, v) vals.
Proof.
  induction vals as [|[k1 x] vals IH]; intros k v H; simpl in H; [discriminate|].
  destruct (String.eqb_spec k k1) as [->|Hne].
  - inversion H; subst. left. reflexivity.
  - right. apply IH. exact H.
Qed.

Lemma cohd_component s vals i v : cohd s (WNTuple vals i) -> In v vals -> cohd s v.
Proof.
  intros H Hin u Hu. apply H. rewrite subs_eq. right. rewrite comps_ntuple. apply in_flat_map. exists v. auto.
Qed.
Lemma cohd_field s vals i k v : cohd s (WObject vals i) -> In (k, v) vals -> cohd s v.
Proof.
  intros H Hin u Hu. apply H. rewrite subs_eq. right. rewrite comps_object. apply in_flat_map. exists (k, v). auto.
Qed.

Definition InvE (ρ : env) (s : tstate) : Prop := forall x w, bound_to ρ x w -> cohd s w.

Lemma InvE_sub ρ s s1 : sub s s1 -> InvE ρ s -> InvE ρ s1.
Proof. intros Hs H x w Hx. eapply cohd_sub; eauto. Qed.

(* ---- what an action returns: a value that was coherent before, or one it has just recorded *)
Section KW.
Variable GG : genv.
Variable s0 : tstate.

Definition fresh_res (s1 : tstate) (a : wrap) : Prop :=
  exists id ty n rest, wid a = Some id /\ to_mir a = Ok ty
    /\ store s1 = (id, {| r_id := id; r_ty := ty; r_node := n |}) :: rest
    /\ (forall u, In u (comps a) -> coh s0 u).
Definition res_ok (s1 : tstate) (a : wrap) : Prop := cohd s0 a \/ fresh_res s1 a.
Definition KW (m : M wrap) : Prop := forall s a s1, m s = Ok (a, s1) -> res_ok s1 a.

Lemma res_ok_final s1 a : sub s0 s1 -> res_ok s1 a -> cohd s1 a.
Proof.
  intros Hs [H | (id & ty & n & rest & Hid & Hty & Hst & Hc)]; [eapply cohd_sub; eauto|].
  apply cohd_intro.
  - intros id' Hid'. rewrite Hid in Hid'. inversion Hid'; subst id'. exists ty. split; [exact Hty|].
    eexists. rewrite Hst. simpl. rewrite Z.eqb_refl. split; reflexivity.
  - intros u Hu. eapply coh_sub; eauto.
Qed.

Lemma KW_fail e : KW (fail e).
Proof. intros s a s1 H. discriminate H. Qed.
Lemma KW_ret w : cohd s0 w -> KW (ret w).
Proof. intros Hw s a s1 H. unfold ret in H. inversion H; subst. left. exact Hw. Qed.
Lemma KW_bind {A} (m : M A) (k : A -> M wrap) : (forall a, KW (k a)) -> KW (mbind m k).
Proof.
  intros Hk s b s1 H. unfold mbind in H. destruct (m s) as [[a s']| |]; try discriminate. eapply Hk; eauto.
Qed.
Lemma KW_put_ret id ty n w :
  wid w = Some id -> to_mir w = Ok ty -> (forall u, In u (comps w) -> coh s0 u) ->
  KW (mbind (put id ty n) (fun _ => ret w)).
Proof.
  intros Hid Hty Hc s a s1 H. unfold mbind, put, ret in H. inversion H; subst; clear H.
  right. exists id, ty, n, (store s). repeat split; auto.
Qed.
Lemma KW_lift_put_ret id n w :
  wid w = Some id -> (forall u, In u (comps w) -> coh s0 u) ->
  KW (mbind (lift (to_mir w)) (fun ty => mbind (put id ty n) (fun _ => ret w))).
Proof.
  intros Hid Hc s a s1 H. unfold mbind at 1 in H. unfold lift at 1 in H.
  destruct (to_mir w) as [ty| |] eqn:E; try discriminate. eapply KW_put_ret; eauto.
Qed.
Lemma no_comps_scalar t i v u : In u (comps (WScalar t i v)) -> coh s0 u.
Proof. intros []. Qed.
Lemma KW_emit_scalar t id n : KW (emit_scalar t id n).
Proof.
  unfold emit_scalar. destruct (fst t); try apply KW_fail;
    (apply KW_put_ret; [reflexivity | reflexivity | apply no_comps_scalar]).
Qed.
Lemma KW_new_literal b v : KW (new_literal b v).
Proof.
  unfold new_literal. cbv zeta. apply KW_bind. intro id. apply KW_bind. intro idx.
  apply KW_put_ret; [reflexivity | reflexivity | apply no_comps_scalar].
Qed.

Ltac kw_step :=
  first
    [ apply KW_fail | apply KW_emit_scalar | apply KW_new_literal
    | apply KW_ret; assumption
    | apply KW_put_ret; [reflexivity | reflexivity | intros ? []]
    | apply KW_lift_put_ret; [reflexivity | intros ? []]
    | apply KW_bind; intro
    | match goal with |- KW (match ?x with _ => _ end) => destruct x end
    | match goal with |- KW (if ?x then _ else _) => destruct x end ].
Ltac kw := cbv zeta; repeat kw_step.

(* a binary operation whose right operand may be a literal recorded a moment ago (k + x) *)
Lemma do_binop_res o a b s r s1 :
  cohd s0 a -> res_ok s b -> do_binop GG o a b s = Ok (r, s1) -> res_ok s1 r.
Proof.
  intros Ha Hb H. unfold do_binop in H.
  destruct a as [ta ia va| | | |]; try discriminate H.
  destruct b as [tb ib vb| | | |]; try discriminate H.
  destruct (rule2v GG o ta tb (value_of (WScalar ta ia va)) (value_of (WScalar tb ib vb))) as [e|t v|name t roles|i|w|w];
    try discriminate H.
  - destruct (z_of_value v); [|discriminate H]. eapply KW_new_literal; eauto.
  - revert H. match goal with |- ?m s = _ -> _ => assert (K : KW m) by kw; apply K end.
  - destruct i; unfold ret in H; inversion H; subst; first [exact Hb | left; exact Ha].
Qed.
Lemma KW_do_binop o a b : cohd s0 a -> cohd s0 b -> KW (do_binop GG o a b).
Proof. intros Ha Hb s r s1 H. eapply do_binop_res; [exact Ha | left; exact Hb | exact H]. Qed.
Lemma KW_do_unop u a : cohd s0 a -> KW (do_unop GG u a).
Proof. intros Ha. unfold do_unop. kw. Qed.
Lemma KW_do_ifelse c a b : KW (do_ifelse GG c a b).
Proof. unfold do_ifelse. kw. Qed.

Lemma KW_generate_accessor v id n : cohd s0 v -> KW (generate_accessor v id n).
Proof.
  intros Hv. unfold generate_accessor.
  assert (Hc : forall u, In u (comps (with_id v id)) -> coh s0 u).
  { intros u Hu. rewrite comps_with_id in Hu. apply Hv. rewrite subs_eq. right. exact Hu. }
  destruct v as [[m b] li lv | e sz ai | l r ti | vs ni | fs oi].
  - destruct m; [apply KW_ret; exact Hv | |]; (apply KW_put_ret; [reflexivity | reflexivity | apply no_comps_scalar]).
  - cbv zeta. apply KW_lift_put_ret; [reflexivity | exact Hc].
  - apply KW_fail.
  - cbv zeta. apply KW_lift_put_ret; [reflexivity | exact Hc].
  - cbv zeta. apply KW_lift_put_ret; [reflexivity | exact Hc].
Qed.

Lemma KW_mk_input name party doc t : KW (mk_input name party doc t).
Proof. destruct t as [[m b]|elt size]; cbn [mk_input]; [destruct m|]; kw. Qed.

Section Rhs.
Variable ρ : env.
Hypothesis Hρ : InvE ρ s0.

Lemma KW_bind_get_wrap x (k : wrap -> M wrap) : (forall w, cohd s0 w -> KW (k w)) -> KW (mbind (get_wrap ρ x) k).
Proof.
  intros Hk s a s1 H. unfold mbind, get_wrap in H. destruct (assoc x ρ) as [[w|f]|] eqn:E; try discriminate.
  unfold ret in H. eapply Hk; [eapply Hρ; exact E | exact H].
Qed.
Lemma KW_bind_get_wraps xs (k : list wrap -> M wrap) :
  (forall ws, Forall (cohd s0) ws -> KW (k ws)) -> KW (mbind (get_wraps ρ xs) k).
Proof.
  intros Hk s a s1 H. unfold mbind in H. destruct (get_wraps ρ xs s) as [[ws s']| |] eqn:E; try discriminate.
  destruct (get_wraps_spec _ _ _ _ _ E) as [-> F]. eapply Hk; [|exact H].
  clear - F Hρ. induction F as [|x w l1 l2 Hx _ IH]; constructor; [eapply Hρ; exact Hx | exact IH].
Qed.

Ltac kwr :=
  cbv zeta;
  repeat first
    [ apply KW_bind_get_wrap; intros ? ?
    | apply KW_bind_get_wraps; intros ? ?
    | kw_step ].

Theorem eval_rhs_KW r : KW (eval_rhs GG ρ r).
Proof.
  destruct r; cbn [eval_rhs].
  - (* RLit *) apply KW_new_literal.
  - (* RInput *) apply KW_mk_input.
  - (* RRandom *) kw.
  - (* RBin *) apply KW_bind_get_wrap; intros x Hx. apply KW_bind_get_wrap; intros y Hy. apply KW_do_binop; assumption.
  - (* RNot *) apply KW_bind_get_wrap; intros x Hx. apply KW_do_unop; assumption.
  - (* RIfElse *) apply KW_bind; intro x. apply KW_bind; intro y. apply KW_bind; intro z. apply KW_do_ifelse.
  - (* RToPublic *) apply KW_bind_get_wrap; intros x Hx. apply KW_do_unop; assumption.
  - (* RRAdd *) apply KW_bind_get_wrap; intros x Hx.
    destruct x as [[m b] xi xv| | | |]; try apply KW_fail.
    destruct (numeric_base b); [|apply KW_fail].
    intros s r s1 H. unfold mbind in H.
    destruct (new_literal b k s) as [[l s']| |] eqn:El; try discriminate.
    eapply do_binop_res; [exact Hx | eapply KW_new_literal; exact El | exact H].
  - (* RArrayNew *) apply KW_bind_get_wraps; intros ws Hws.
    destruct ws as [|first rest]; [apply KW_fail|]. apply KW_bind; intro same. destruct same; [|apply KW_fail].
    kw.
  - (* RTupleNew *) kwr.
  - (* RNTupleNew *) apply KW_bind_get_wraps; intros ws Hws. apply KW_bind; intro id. apply KW_bind; intro ids.
    cbv zeta. apply KW_lift_put_ret; [reflexivity|].
    intros u Hu. rewrite comps_ntuple in Hu. apply in_flat_map in Hu. destruct Hu as (v & Hv & Hu).
    rewrite Forall_forall in Hws. exact (Hws v Hv u Hu).
  - (* RObjectNew *) apply KW_bind_get_wraps; intros ws Hws. apply KW_bind; intro id. apply KW_bind; intro ids.
    cbv zeta. apply KW_lift_put_ret; [reflexivity|].
    intros u Hu. rewrite comps_object in Hu. apply in_flat_map in Hu. destruct Hu as ([k v] & Hv & Hu).
    apply in_combine_r in Hv. rewrite Forall_forall in Hws. exact (Hws v Hv u Hu).
  - (* RIndex *) apply KW_bind_get_wrap; intros x Hx.
    destruct x as [| | |vals xi|]; try apply KW_fail. cbv zeta.
    destruct ((i <? 0) || (Z.of_nat (List.length vals) <=? i)); [apply KW_fail|].
    apply KW_bind; intro id.
    destruct (nth_wrap vals (Z.to_nat i)) as [v|] eqn:En; [|apply KW_fail].
    apply KW_bind; intro src. apply KW_generate_accessor.
    eapply cohd_component; [exact Hx | eapply nth_wrap_in; exact En].
  - (* RField *) apply KW_bind_get_wrap; intros x Hx.
    destruct (reserved_attr k); [apply KW_fail|].
    destruct x as [| | | |vals xi]; try apply KW_fail.
    destruct (assoc k vals) as [v|] eqn:Ek; [|apply KW_fail].
    apply KW_bind; intro id. apply KW_bind; intro src. apply KW_generate_accessor.
    eapply cohd_field; [exact Hx | eapply assoc_in; exact Ek].
  - (* RMap *) kwr.
  - (* RReduce *) kwr.
  - (* RZip *) kwr.
  - (* RUnzip *) kwr.
  - (* RInner *) kwr.
  - (* RCall *) kwr.
Qed.

End Rhs.
End KW.

(* ---- coherence holds at every point of every program *)
Section Program.
Variable GG : genv.

Theorem eval_rhs_coherent ρ r s w s1 :
  Inv ρ s -> InvE ρ s -> eval_rhs GG ρ r s = Ok (w, s1) -> cohd s1 w /\ InvE ρ s1 /\ sub s s1.
Proof.
  intros HI HE H.
  destruct (slet_inv GG ρ "x" r s w s1 HI H) as [_ Hg].
  assert (Hs : sub s s1) by (eapply G_sub; [destruct HI; assumption | exact Hg]).
  split; [|split; [eapply InvE_sub; eauto | exact Hs]].
  eapply res_ok_final; [exact Hs|]. eapply (eval_rhs_KW GG s ρ HE r); exact H.
Qed.

Lemma template_comps : forall t s w s1, template_of t s = Ok (w, s1) -> comps w = [].
Proof.
  destruct t as [[m b]|elt size]; intros s w s1 H; cbn [template_of] in H.
  - destruct m.
    + unfold mbind at 1 in H. destruct (new_literal b 0 s) as [[w0 s0]| |] eqn:E; try discriminate.
      unfold ret in H. inversion H; subst; clear H.
      unfold new_literal, mbind, alloc, lit_index, put, ret in E. cbn [counter store lits] in E.
      destruct (index_of _ (lits s) 0); inversion E; subst; reflexivity.
    + unfold ret in H. inversion H; subst. reflexivity.
    + unfold ret in H. inversion H; subst. reflexivity.
  - unfold mbind at 1 in H. destruct (template_of elt s) as [[e s0]| |]; try discriminate.
    unfold ret in H. inversion H; subst. reflexivity.
Qed.

Lemma make_args_wraps fid : forall ps s args s1,
  make_args fid ps s = Ok (args, s1) ->
  Forall2 (fun a p => to_mir (snd (snd a)) = param_mir (snd p) /\ comps (snd (snd a)) = []) args ps.
Proof.
  induction ps as [|[x t] ps IH]; intros s args s1 H.
  - simpl in H. unfold ret in H. inversion H; subst. constructor.
  - cbn [make_args] in H. unfold mbind at 1 in H.
    destruct (template_of t s) as [[tmpl sa]| |] eqn:Et; try discriminate.
    destruct (template_of_spec (counter s) _ _ _ _ (Z.le_refl _) Et) as [_ Hm].
    pose proof (template_comps _ _ _ _ Et) as Hc.
    unfold mbind at 1 in H. unfold alloc at 1 in H.
    unfold mbind at 1 in H. unfold lift at 1 in H.
    destruct (to_mir tmpl) as [ty| |] eqn:Ety; try discriminate.
    unfold mbind at 1 in H. unfold put at 1 in H. unfold mbind at 1 in H.
    match type of H with (match make_args fid ps ?st with _ => _ end) = _ =>
      destruct (make_args fid ps st) as [[rest sd]| |] eqn:Er; try discriminate end.
    unfold ret in H. inversion H; subst; clear H.
    constructor; [|eapply IH; exact Er]. cbn [snd]. rewrite to_mir_with_id, comps_with_id. split; [congruence | exact Hc].
Qed.

Lemma args_coherent s1 c0 fid args params :
  Forall2 (arg_made s1 c0 fid) args params ->
  Forall2 (fun a p => to_mir (snd (snd a)) = param_mir (snd p) /\ comps (snd (snd a)) = []) args params ->
  Forall (fun a => cohd s1 (snd (snd a))) args.
Proof.
  intros F. induction F as [|a p args params (A1 & A2 & A3 & ty & A4 & A5) F IH]; intros F2; inversion F2; subst; constructor; auto.
  destruct H2 as [Hm Hc]. apply cohd_intro.
  - intros id Hid. rewrite A2 in Hid. inversion Hid; subst id. exists ty. split; [congruence|].
    eexists. split; [exact A5 | reflexivity].
  - rewrite Hc. intros u [].
Qed.

Lemma InvE_body args ρ s1 : Forall (fun a => cohd s1 (snd (snd a))) args -> InvE ρ s1 -> InvE (body_env args ρ) s1.
Proof.
  intros Fa Hρ x w Hx. unfold bound_to, body_env in Hx.
  assert (Fr : Forall (fun a : Z * (string * wrap) => cohd s1 (snd (snd a))) (rev args)).
  { apply Forall_forall. intros a Ha. rewrite Forall_forall in Fa. apply Fa. apply in_rev. exact Ha. }
  induction Fr as [|a l Ha _ IH]; simpl in Hx; [eapply Hρ; exact Hx|].
  destruct (String.eqb x (fst (snd a))); [inversion Hx; subst; exact Ha | apply IH; exact Hx].
Qed.

(* the body of a definition starts in a coherent state too: every parameter is recorded with the type of the
   value its name is bound to *)
Theorem body_starts_coherent ρ s params args s1 :
  Inv ρ s -> InvE ρ s -> make_args (counter s + 1) params (after_alloc s) = Ok (args, s1) ->
  Inv (body_env args ρ) s1 /\ InvE (body_env args ρ) s1.
Proof.
  intros HI HE Ea. destruct HI as (Hf & Hw & HF). set (fid := counter s + 1) in *.
  assert (Hf0 : fresh_store (after_alloc s)) by (intros k r0 H0; simpl in *; apply Hf in H0; lia).
  destruct (make_args_spec fid params fid (after_alloc s) args s1 (Z.le_refl _) Ea) as [Ga Hargs].
  assert (Ga' : G arg_node (counter (after_alloc s)) (after_alloc s) s1) by exact Ga.
  assert (Hs01 : sub s s1) by (eapply (G_sub _ (after_alloc s)); eauto).
  split.
  - split; [eapply fresh_G; eauto|]. split.
    + eapply WF_grow; eauto. intros n0 k Hn. destruct n0; simpl in *; auto; contradiction.
    + intros y fr Hy. apply assoc_body_env in Hy. eapply fun_rec_sub; eauto.
  - apply InvE_body; [|eapply InvE_sub; eauto].
    eapply args_coherent; [exact Hargs | eapply make_args_wraps; exact Ea].
Qed.

Theorem exec_coherent : forall fuel ρ ss s ρ' s',
  Inv ρ s -> InvE ρ s -> exec GG fuel ρ ss s = Ok (ρ', s') -> InvE ρ' s'.
Proof.
  induction fuel as [|n IH]; intros ρ ss s ρ' s' HI HE H; [discriminate H|].
  destruct ss as [|[x r | f params rt body res] rest].
  - simpl in H. unfold ret in H. inversion H; subst. exact HE.
  - cbn [exec] in H. unfold mbind at 1 in H.
    destruct (eval_rhs GG ρ r s) as [[w s1]| |] eqn:E; try discriminate.
    destruct (slet_inv GG _ x _ _ _ _ HI E) as [HI1 _].
    destruct (eval_rhs_coherent _ _ _ _ _ HI HE E) as (Hw & HE1 & _).
    eapply IH; [exact HI1 | | exact H].
    intros y wy Hy. unfold bound_to in Hy. simpl in Hy.
    destruct (String.eqb y x); [inversion Hy; subst; exact Hw | eapply HE1; exact Hy].
  - destruct (sdef_inversion GG _ _ _ _ _ _ _ _ _ _ _ H)
      as (args & s1 & ρb & s2 & child & t & cid & Ea & Eb & Er & Ew & Ert & Hm & Hp & Erest).
    destruct (sdef_facts GG n ρ f params rt body s args s1 ρb s2 t cid (exec_inv GG n) HI Ea Eb Ert Hm) as (HI3 & G03 & _ & _).
    eapply IH; [exact HI3 | | exact Erest].
    assert (Hs : sub s (after_put s2 (counter s + 1) (TyName (mir_name t)) (AFunction f (map fst args) cid))).
    { eapply G_sub; [destruct HI; assumption | exact G03]. }
    intros y wy Hy. unfold bound_to in Hy. simpl in Hy.
    destruct (String.eqb y f); [discriminate Hy|]. eapply cohd_sub; [exact Hs | eapply HE; exact Hy].
Qed.

End Program.

(* ---- Part B: the type recorded for an accepted operation is determined by the types recorded for its operands *)
Section Edges.
Variable GG : genv.
Variable ρ : env.
Variable s : tstate.
Hypothesis HI : Inv ρ s.
Hypothesis HE : InvE ρ s.

Lemma operand_ty x w id : bound_to ρ x w -> wid w = Some id -> exists t, to_mir w = Ok t /\ ty_at s id t.
Proof. intros Hb Hid. exact (cohd_coh _ _ (HE _ _ Hb) id Hid). Qed.

Lemma get_wrap_inv x (k : wrap -> M wrap) st r :
  mbind (get_wrap ρ x) k st = Ok r -> exists w, bound_to ρ x w /\ k w st = Ok r.
Proof.
  unfold mbind, get_wrap, bound_to. destruct (assoc x ρ) as [[w|f]|]; try discriminate. unfold ret. eauto.
Qed.
Lemma get_fun_inv f (k : fnrec -> M wrap) st r :
  mbind (get_fun ρ f) k st = Ok r -> exists fr, assoc f ρ = Some (BFun fr) /\ k fr st = Ok r.
Proof.
  unfold mbind, get_fun. destruct (assoc f ρ) as [[w|fr]|]; try discriminate. unfold ret. eauto.
Qed.

Lemma fun_ty f fr t : assoc f ρ = Some (BFun fr) -> fn_ret fr = IScalar t -> ty_at s (fn_id fr) (TyName (mir_name t)).
Proof.
  intros Hf Ht. destruct HI as (_ & _ & HF). destruct (HF _ _ Hf) as (argids & cid & t' & Hl & Hr & _).
  rewrite Ht in Hr. inversion Hr; subst t'. eexists. split; [exact Hl | reflexivity].
Qed.

(* zip: both operands are recorded as arrays of one size; the result is the array of pairs of their element types,
   in operand order, of that size *)
Theorem zip_edge a b w s1 :
  eval_rhs GG ρ (RZip a b) s = Ok (w, s1) ->
  exists l r id tx ty sz,
    wid w = Some id /\ recorded_as s1 id (TyArray (TyTuple tx ty) sz) (ABinary "Zip" l r)
    /\ ty_at s1 l (TyArray tx sz) /\ ty_at s1 r (TyArray ty sz).
Proof.
  intros H. destruct (eval_rhs_coherent GG _ _ _ _ _ HI HE H) as (_ & _ & Hs).
  pose proof H as H0. cbn [eval_rhs] in H0.
  apply get_wrap_inv in H0. destruct H0 as (x & Hx & H0). apply get_wrap_inv in H0. destruct H0 as (y & Hy & H0).
  destruct x as [|ex sx ia| | |]; try discriminate H0. destruct y as [|ey sy ib| | |]; try discriminate H0. clear H0.
  destruct (zip_accepted GG ρ _ _ _ _ _ _ _ _ _ _ _ Hx Hy H) as (Hsz & id & l & r & tx & ty & -> & -> & -> & Ex & Ey & Hrec).
  apply size_eqb_eq in Hsz. subst sy.
  destruct (operand_ty _ _ l Hx eq_refl) as (t1 & Ht1 & Ha1).
  destruct (operand_ty _ _ r Hy eq_refl) as (t2 & Ht2 & Ha2).
  cbn [to_mir] in Ht1, Ht2.
  destruct (inner_mir ex) as [i1| |] eqn:E1; cbn [bind] in Ht1; try discriminate Ht1.
  destruct (inner_mir ey) as [i2| |] eqn:E2; cbn [bind] in Ht2; try discriminate Ht2.
  inversion Ht1; subst t1. inversion Ht2; subst t2.
  rewrite (inner_side_agree _ _ _ E1 Ex) in *. rewrite (inner_side_agree _ _ _ E2 Ey) in *.
  exists l, r, id, i1, i2, sx. unfold truthy_size in *. repeat split; auto; eapply ty_at_sub; eauto.
Qed.

(* unzip: the operand is recorded as an array of pairs; the result is the pair of arrays of the two halves, in the
   same order, each of the operand's size *)
Theorem unzip_edge a w s1 :
  eval_rhs GG ρ (RUnzip a) s = Ok (w, s1) ->
  exists src id tl tr sz,
    wid w = Some id /\ recorded_as s1 id (TyTuple (TyArray tl sz) (TyArray tr sz)) (AUnary "Unzip" src)
    /\ ty_at s1 src (TyArray (TyTuple tl tr) sz).
Proof.
  intros H. destruct (eval_rhs_coherent GG _ _ _ _ _ HI HE H) as (_ & _ & Hs).
  pose proof H as H0. cbn [eval_rhs] in H0.
  apply get_wrap_inv in H0. destruct H0 as (x & Hx & H0).
  destruct x as [|e size ia| | |]; try discriminate H0.
  destruct e as [|[| |l r it| |]| |]; try discriminate H0. clear H0.
  destruct (unzip_accepted GG ρ _ _ _ _ _ _ _ _ _ Hx H) as (id & src & tl & tr & -> & -> & El & Er & Hrec).
  destruct (operand_ty _ _ src Hx eq_refl) as (t1 & Ht1 & Ha1).
  cbn [to_mir inner_mir] in Ht1.
  destruct (side_mir l) as [a1| |] eqn:E1; cbn [bind] in Ht1; try discriminate Ht1.
  destruct (side_mir r) as [a2| |] eqn:E2; cbn [bind] in Ht1; try discriminate Ht1.
  inversion Ht1; subst t1.
  rewrite (side_marker _ _ _ E1 El) in *. rewrite (side_marker _ _ _ E2 Er) in *.
  exists src, id, a1, a2, size. unfold truthy_size in *. repeat split; auto. eapply ty_at_sub; eauto.
Qed.

(* map: the result is an array of the operand's size whose element type is the type recorded for the function *)
Theorem map_edge a f w s1 :
  eval_rhs GG ρ (RMap a f) s = Ok (w, s1) ->
  exists src fn id te tr sz,
    wid w = Some id /\ recorded_as s1 id (TyArray tr sz) (AMap src fn)
    /\ ty_at s1 src (TyArray te sz) /\ ty_at s1 fn tr.
Proof.
  intros H. destruct (eval_rhs_coherent GG _ _ _ _ _ HI HE H) as (_ & _ & Hs).
  pose proof H as H0. cbn [eval_rhs] in H0.
  apply get_wrap_inv in H0. destruct H0 as (x & Hx & H0).
  destruct x as [|e size ia| | |]; try discriminate H0.
  apply get_fun_inv in H0. destruct H0 as (fr & Hf & _).
  destruct (map_accepted GG ρ _ _ _ _ _ _ _ _ _ Hx Hf H) as (id & src & t & -> & Hr & -> & Hrec).
  destruct (operand_ty _ _ src Hx eq_refl) as (t1 & Ht1 & Ha1).
  cbn [to_mir] in Ht1. destruct (inner_mir e) as [i1| |] eqn:E1; cbn [bind] in Ht1; try discriminate Ht1.
  inversion Ht1; subst t1.
  exists src, (fn_id fr), id, i1, (TyName (mir_name t)), size. unfold truthy_size in *. repeat split; auto.
  - eapply ty_at_sub; eauto.
  - eapply ty_at_sub; [exact Hs | eapply fun_ty; eauto].
Qed.

(* reduce and calls: the result has the type recorded for the function *)
Theorem reduce_edge a f init w s1 :
  eval_rhs GG ρ (RReduce a f init) s = Ok (w, s1) ->
  exists src fn ini id tr,
    wid w = Some id /\ recorded_as s1 id tr (AReduce src fn ini) /\ ty_at s1 fn tr.
Proof.
  intros H. destruct (eval_rhs_coherent GG _ _ _ _ _ HI HE H) as (_ & _ & Hs).
  cbn [eval_rhs] in H.
  apply get_wrap_inv in H. destruct H as (x & Hx & H).
  destruct x as [|e size ia| | |]; try discriminate H.
  apply get_fun_inv in H. destruct H as (fr & Hf & H).
  apply get_wrap_inv in H. destruct H as (i & Hi & H).
  unfold mbind at 1 in H. unfold alloc at 1 in H.
  unfold mbind at 1 in H. destruct (fn_ret fr) as [t|] eqn:Er; [|discriminate H]. unfold ret_scalar, ret at 1 in H.
  unfold mbind at 1 in H. unfold need_id at 1 in H. simpl wid in H.
  destruct ia as [src|]; try discriminate H. unfold ret at 1 in H.
  unfold mbind at 1 in H. unfold need_id at 1 in H.
  destruct (wid i) as [ini|] eqn:Ewi; try discriminate H. unfold ret at 1 in H.
  unfold emit_scalar in H.
  exists src, (fn_id fr), ini, (counter s + 1), (TyName (mir_name t)).
  assert (Hres : wid w = Some (counter s + 1)
                 /\ recorded_as s1 (counter s + 1) (TyName (mir_name t)) (AReduce src (fn_id fr) ini)).
  { destruct (fst t); try discriminate H; unfold mbind, put, ret in H; inversion H; subst; clear H;
      (split; [reflexivity|]); unfold recorded_as; simpl; rewrite Z.eqb_refl; reflexivity. }
  destruct Hres as [Hw Hr]. repeat split; auto.
  eapply ty_at_sub; [exact Hs | eapply fun_ty; eauto].
Qed.

Theorem call_edge f args kwargs w s1 :
  eval_rhs GG ρ (RCall f args kwargs) s = Ok (w, s1) ->
  exists ids fn id tr,
    wid w = Some id /\ recorded_as s1 id tr (ACall ids fn) /\ ty_at s1 fn tr.
Proof.
  intros H. destruct (eval_rhs_coherent GG _ _ _ _ _ HI HE H) as (Hw & _ & Hs).
  destruct (call_site GG ρ _ _ _ _ _ _ HI H) as (fr & ws & ks & all & ids & id & Hf & _ & _ & _ & _ & _ & Hid & (ty & Hrec) & _).
  (* the value returned is a scalar of the function's return type, and it is coherent with the store *)
  assert (Ht : exists t, fn_ret fr = IScalar t /\ to_mir w = Ok (TyName (mir_name t))).
  { cbn [eval_rhs] in H. apply get_fun_inv in H. destruct H as (fr' & Hf' & H).
    rewrite Hf in Hf'. inversion Hf'; subst fr'; clear Hf'.
    repeat (apply mbind_inv in H; destruct H as (? & ? & _ & H)).
    destruct (negb _); [discriminate H|].
    repeat (apply mbind_inv in H; destruct H as (? & ? & _ & H)).
    destruct (fn_ret fr) as [t|]; [|discriminate H]. exists t. split; [reflexivity|].
    apply mbind_inv in H. destruct H as (? & ? & _ & H). unfold emit_scalar in H.
    destruct (fst t); try discriminate H; unfold mbind, put, ret in H; inversion H; subst; reflexivity. }
  destruct Ht as (t & Er & Hm).
  destruct (cohd_coh _ _ Hw id Hid) as (tw & Htw & Hat).
  rewrite Hm in Htw. inversion Htw; subst tw.
  assert (Hty : ty_at s1 id ty) by (eexists; split; [exact Hrec | reflexivity]).
  pose proof (ty_at_fun _ _ _ _ Hty Hat) as ->.
  exists ids, (fn_id fr), id, (TyName (mir_name t)). repeat split; auto.
  eapply ty_at_sub; [exact Hs | eapply fun_ty; eauto].
Qed.


Lemma bound_all es ws : Forall2 (bound_to ρ) es ws -> forall w, In w ws -> cohd s w.
Proof.
  intros F. induction F as [|e w0 l1 l2 He _ IH]; intros w Hin; [destruct Hin|].
  destruct Hin as [<- | Hin]; [eapply HE; exact He | apply IH; exact Hin].
Qed.

Lemma ids_typed_same t0 : forall ws ids, Forall2 has_id ws ids ->
  (forall w, In w ws -> coh s w /\ to_mir w = Ok t0) -> Forall (fun i => ty_at s i t0) ids.
Proof.
  intros ws ids F. induction F as [|w i l1 l2 Hw _ IH]; intros Hall; constructor.
  - destruct (Hall w (or_introl eq_refl)) as [Hc Hm]. destruct (Hc i Hw) as (t & Ht & Ha). congruence.
  - apply IH. intros w' Hin. apply Hall. right. exact Hin.
Qed.

Lemma ids_typed_each : forall ws ids ts, Forall2 has_id ws ids -> (forall w, In w ws -> coh s w) ->
  Forall2 (fun v t => to_mir v = Ok t) ws ts -> Forall2 (ty_at s) ids ts.
Proof.
  intros ws ids ts F. revert ts. induction F as [|w i l1 l2 Hw _ IH]; intros ts Hall Ft; inversion Ft; subst; constructor.
  - destruct (Hall w (or_introl eq_refl) i Hw) as (t & Ht & Ha). congruence.
  - apply IH; [|assumption]. intros w' Hin. apply Hall. right. exact Hin.
Qed.

(* Array.new: every element is recorded with one and the same type, which is the result's element type; the size
   recorded is the number of elements *)
Theorem array_new_edge es w s1 :
  eval_rhs GG ρ (RArrayNew es) s = Ok (w, s1) ->
  exists ids id t0,
    wid w = Some id /\ recorded_as s1 id (TyArray t0 (Some (Z.of_nat (List.length ids)))) (ANew "ArrayNew" ids)
    /\ Forall (fun i => ty_at s1 i t0) ids.
Proof.
  intros H. destruct (eval_rhs_coherent GG _ _ _ _ _ HI HE H) as (_ & _ & Hs).
  destruct (array_new_accepted GG ρ _ _ _ _ H) as (ws & first & ids & t0 & Fb & Hhd & Fsame & Fid & H0 & -> & Hrec).
  assert (Hlen : List.length ws = List.length ids).
  { clear - Fid. induction Fid; simpl; congruence. }
  rewrite Hlen in Hrec. exists ids, (counter s + 1), t0. repeat split; auto.
  eapply Forall_impl; [intros i Hi; eapply ty_at_sub; [exact Hs | exact Hi]|].
  eapply ids_typed_same; [exact Fid|]. intros w Hin. split; [apply cohd_coh; eapply bound_all; eauto|].
  rewrite Forall_forall in Fsame. destruct (Fsame w Hin) as (_ & t & Ht & t0' & H0' & Heq).
  apply mty_eqb_eq in Heq. congruence.
Qed.

(* Tuple.new / NTuple.new / Object.new: each component of the recorded type is the type recorded for the element
   at that position (under that key) *)
Theorem tuple_new_edge a b w s1 :
  eval_rhs GG ρ (RTupleNew a b) s = Ok (w, s1) ->
  exists i1 i2 id t1 t2,
    wid w = Some id /\ recorded_as s1 id (TyTuple t1 t2) (ANew "TupleNew" [i1; i2])
    /\ ty_at s1 i1 t1 /\ ty_at s1 i2 t2.
Proof.
  intros H. destruct (eval_rhs_coherent GG _ _ _ _ _ HI HE H) as (_ & _ & Hs).
  cbn [eval_rhs] in H.
  apply get_wrap_inv in H. destruct H as (x & Hx & H). apply get_wrap_inv in H. destruct H as (y & Hy & H).
  unfold mbind at 1 in H. unfold alloc at 1 in H.
  unfold mbind at 1 in H. cbn [need_ids] in H. unfold mbind at 1 in H. unfold need_id at 1 in H.
  destruct (wid x) as [i1|] eqn:E1; [|discriminate H]. unfold ret at 1 in H.
  unfold mbind at 1 in H. unfold mbind at 1 in H. unfold need_id at 1 in H.
  destruct (wid y) as [i2|] eqn:E2; [|discriminate H]. unfold ret at 1 in H.
  unfold mbind at 1 in H. unfold ret at 1 2 in H. cbv zeta in H.
  unfold mbind at 1 in H. unfold lift at 1 in H. cbn [to_mir side_mir] in H.
  destruct (operand_ty _ _ i1 Hx E1) as (t1 & Ht1 & Ha1).
  destruct (operand_ty _ _ i2 Hy E2) as (t2 & Ht2 & Ha2).
  rewrite Ht1, Ht2 in H. cbn [bind] in H.
  unfold mbind, put, ret in H. inversion H; subst; clear H.
  exists i1, i2, (counter s + 1), t1, t2. repeat split; auto.
  - unfold recorded_as. simpl. rewrite Z.eqb_refl. reflexivity.
  - eapply ty_at_sub; eauto.
  - eapply ty_at_sub; eauto.
Qed.

Lemma Forall2_ty_at_sub s1 ids ts : sub s s1 -> Forall2 (ty_at s) ids ts -> Forall2 (ty_at s1) ids ts.
Proof. intros Hs F. eapply Forall2_imp; [|exact F]. intros i t. apply ty_at_sub. exact Hs. Qed.

Theorem ntuple_new_edge es w s1 :
  eval_rhs GG ρ (RNTupleNew es) s = Ok (w, s1) ->
  exists ids id ts,
    wid w = Some id /\ recorded_as s1 id (TyNTuple ts) (ANew "NTupleNew" ids) /\ Forall2 (ty_at s1) ids ts.
Proof.
  intros H. destruct (eval_rhs_coherent GG _ _ _ _ _ HI HE H) as (_ & _ & Hs).
  cbn [eval_rhs] in H. apply mbind_inv in H. destruct H as (ws & sa & Ea & H).
  destruct (get_wraps_spec _ _ _ _ _ Ea) as [-> Fb].
  unfold mbind at 1 in H. unfold alloc at 1 in H.
  apply mbind_inv in H. destruct H as (ids & sb & En & H).
  destruct (need_ids_spec _ _ _ _ En) as [-> Fid].
  cbv zeta in H. unfold mbind at 1 in H. unfold lift at 1 in H. rewrite to_mir_ntuple in H.
  destruct (mir_list ws) as [ts| |] eqn:El; cbn [bind] in H; try discriminate H.
  unfold mbind, put, ret in H. inversion H; subst; clear H.
  exists ids, (counter s + 1), ts. repeat split; auto.
  - unfold recorded_as. simpl. rewrite Z.eqb_refl. reflexivity.
  - eapply Forall2_ty_at_sub; [exact Hs|]. eapply ids_typed_each; [exact Fid | | apply mir_list_spec; exact El].
    intros w Hin. apply cohd_coh. eapply bound_all; eauto.
Qed.

Lemma ids_typed_fields : forall (ks : list string) ws ids (kts : list (string * mty)), Forall2 has_id ws ids -> (forall w, In w ws -> coh s w) ->
  List.length ks = List.length ws ->
  Forall2 (fun kv kt => fst kv = fst kt /\ to_mir (snd kv) = Ok (snd kt)) (combine ks ws) kts ->
  Forall2 (fun i kt => ty_at s i (snd kt)) ids kts /\ map fst kts = ks.
Proof.
  intros ks ws ids kts F. revert ks kts.
  induction F as [|w i l1 l2 Hw _ IH]; intros ks kts Hall Hlen Ft; destruct ks as [|k ks]; simpl in Hlen; try discriminate;
    simpl in Ft; inversion Ft; subst.
  - split; constructor.
  - destruct H1 as [Hk Hm]. simpl in Hk, Hm.
    destruct (IH ks l' (fun w' Hin => Hall w' (or_intror Hin)) (eq_add_S _ _ Hlen) H3) as [F1 F2].
    split; [constructor; [|exact F1] | simpl; congruence].
    destruct (Hall w (or_introl eq_refl) i Hw) as (t & Ht & Ha). congruence.
Qed.

Theorem object_new_edge fs w s1 :
  eval_rhs GG ρ (RObjectNew fs) s = Ok (w, s1) ->
  exists ids id kts,
    wid w = Some id /\ recorded_as s1 id (TyObject kts) (ANew "ObjectNew" ids)
    /\ map fst kts = map fst fs /\ Forall2 (fun i kt => ty_at s1 i (snd kt)) ids kts.
Proof.
  intros H. destruct (eval_rhs_coherent GG _ _ _ _ _ HI HE H) as (_ & _ & Hs).
  cbn [eval_rhs] in H. apply mbind_inv in H. destruct H as (ws & sa & Ea & H).
  destruct (get_wraps_spec _ _ _ _ _ Ea) as [-> Fb].
  unfold mbind at 1 in H. unfold alloc at 1 in H.
  apply mbind_inv in H. destruct H as (ids & sb & En & H).
  destruct (need_ids_spec _ _ _ _ En) as [-> Fid].
  cbv zeta in H. unfold mbind at 1 in H. unfold lift at 1 in H. rewrite to_mir_object in H.
  destruct (mir_fields (combine (map fst fs) ws)) as [kts| |] eqn:El; cbn [bind] in H; try discriminate H.
  unfold mbind, put, ret in H. inversion H; subst; clear H.
  assert (Hlen : List.length (map fst fs) = List.length ws).
  { rewrite map_length. rewrite <- (map_length snd fs). clear - Fb. induction Fb; simpl; congruence. }
  destruct (ids_typed_fields _ _ _ _ Fid (fun w Hin => cohd_coh _ _ (bound_all _ _ Fb w Hin)) Hlen (mir_fields_spec _ _ El)) as [F1 F2].
  exists ids, (counter s + 1), kts. repeat split; auto.
  - unfold recorded_as. simpl. rewrite Z.eqb_refl. reflexivity.
  - eapply Forall2_imp; [|exact F1]. intros i kt. apply ty_at_sub. exact Hs.
Qed.

(* accessors: what is recorded for t[i] / o.k is the component of the type recorded for the container *)
Lemma generate_accessor_spec v id n st w s1 :
  generate_accessor v id n st = Ok (w, s1) ->
  (exists b li lv, v = WScalar (MConst, b) li lv /\ w = v /\ s1 = st)
  \/ (exists ty, to_mir v = Ok ty /\ wid w = Some id /\ store s1 = (id, {| r_id := id; r_ty := ty; r_node := n |}) :: store st).
Proof.
  intros H. unfold generate_accessor in H.
  destruct v as [[m b] li lv | e sz ai | l r ti | vs ni | fs oi].
  - destruct m.
    + left. unfold ret in H. inversion H; subst. exists b, li, lv. split; [reflexivity|]. split; reflexivity.
    + right. unfold mbind, put, ret in H. inversion H; subst; clear H. eexists. split; [reflexivity|]. split; reflexivity.
    + right. unfold mbind, put, ret in H. inversion H; subst; clear H. eexists. split; [reflexivity|]. split; reflexivity.
  - right. cbv zeta in H. unfold mbind at 1 in H. unfold lift at 1 in H. rewrite to_mir_with_id in H.
    destruct (to_mir (WArray e sz ai)) as [ty| |]; try discriminate H.
    unfold mbind, put, ret in H. inversion H; subst; clear H. exists ty. repeat split.
  - discriminate H.
  - right. cbv zeta in H. unfold mbind at 1 in H. unfold lift at 1 in H. rewrite to_mir_with_id in H.
    destruct (to_mir (WNTuple vs ni)) as [ty| |]; try discriminate H.
    unfold mbind, put, ret in H. inversion H; subst; clear H. exists ty. repeat split.
  - right. cbv zeta in H. unfold mbind at 1 in H. unfold lift at 1 in H. rewrite to_mir_with_id in H.
    destruct (to_mir (WObject fs oi)) as [ty| |]; try discriminate H.
    unfold mbind, put, ret in H. inversion H; subst; clear H. exists ty. repeat split.
Qed.

Lemma nth_wrap_ty : forall vals ts n v, Forall2 (fun v t => to_mir v = Ok t) vals ts -> nth_wrap vals n = Some v ->
  exists t, nth_error ts n = Some t /\ to_mir v = Ok t.
Proof.
  intros vals ts n v F. revert n. induction F as [|x t l1 l2 Hx _ IH]; intros n Hn; destruct n; simpl in Hn; try discriminate.
  - inversion Hn; subst. exists t. split; [reflexivity | exact Hx].
  - simpl. apply IH. exact Hn.
Qed.

Theorem index_edge a i w s1 :
  eval_rhs GG ρ (RIndex a i) s = Ok (w, s1) ->
  exists src ts t,
    ty_at s1 src (TyNTuple ts) /\ nth_error ts (Z.to_nat i) = Some t /\ 0 <= i < Z.of_nat (List.length ts)
    /\ ((* a literal component is handed back as it is: nothing is recorded *) (store s1 = store s /\ to_mir w = Ok t)
        \/ (wid w = Some (counter s + 1) /\ recorded_as s1 (counter s + 1) t (ANTupleAcc i src))).
Proof.
  intros H. destruct (eval_rhs_coherent GG _ _ _ _ _ HI HE H) as (_ & _ & Hs).
  cbn [eval_rhs] in H. apply get_wrap_inv in H. destruct H as (x & Hx & H).
  destruct x as [| | |vals it|]; try discriminate H. cbv zeta in H.
  destruct ((i <? 0) || (Z.of_nat (List.length vals) <=? i)) eqn:E; [discriminate H|].
  apply orb_false_iff in E. destruct E as [E1 E2]. apply Z.ltb_ge in E1. apply Z.leb_gt in E2.
  unfold mbind at 1 in H. unfold alloc at 1 in H.
  destruct (nth_wrap vals (Z.to_nat i)) as [v|] eqn:En; [|discriminate H].
  unfold mbind at 1 in H. unfold need_id at 1 in H. simpl wid in H. destruct it as [src|]; [|discriminate H].
  unfold ret at 1 in H.
  destruct (operand_ty _ _ src Hx eq_refl) as (tx & Htx & Hax). rewrite to_mir_ntuple in Htx.
  destruct (mir_list vals) as [ts| |] eqn:El; cbn [bind] in Htx; try discriminate Htx. inversion Htx; subst tx.
  pose proof (mir_list_spec _ _ El) as F.
  destruct (nth_wrap_ty _ _ _ _ F En) as (t & Hnth & Hvt).
  assert (Hlen : List.length vals = List.length ts) by (clear - F; induction F; simpl; congruence).
  exists src, ts, t. split; [eapply ty_at_sub; eauto|]. split; [exact Hnth|]. split; [lia|].
  destruct (generate_accessor_spec _ _ _ _ _ _ H) as [(b & li & lv & -> & -> & Hst) | (ty & Hty & Hw & Hst)].
  - left. split; [subst s1; reflexivity | exact Hvt].
  - right. split; [exact Hw|]. rewrite Hvt in Hty. inversion Hty; subst ty.
    unfold recorded_as. rewrite Hst. simpl. rewrite Z.eqb_refl. reflexivity.
Qed.

Lemma assoc_ty_of : forall (vals : list (string * wrap)) kts k v,
  Forall2 (fun kv kt => fst kv = fst kt /\ to_mir (snd kv) = Ok (snd kt)) vals kts -> assoc k vals = Some v ->
  exists t, assoc k kts = Some t /\ to_mir v = Ok t.
Proof.
  intros vals kts k v F. induction F as [|[k1 x] [k2 t] l1 l2 [Hk Hx] _ IH]; intros Hk0; simpl in Hk0; [discriminate|].
  simpl in Hk, Hx. subst k2. simpl. destruct (String.eqb k k1).
  - inversion Hk0; subst. exists t. split; [reflexivity | exact Hx].
  - apply IH. exact Hk0.
Qed.

Theorem field_edge a k w s1 :
  eval_rhs GG ρ (RField a k) s = Ok (w, s1) ->
  exists src kts t,
    ty_at s1 src (TyObject kts) /\ assoc k kts = Some t
    /\ ((store s1 = store s /\ to_mir w = Ok t)
        \/ (wid w = Some (counter s + 1) /\ recorded_as s1 (counter s + 1) t (AObjectAcc k src))).
Proof.
  intros H. destruct (eval_rhs_coherent GG _ _ _ _ _ HI HE H) as (_ & _ & Hs).
  cbn [eval_rhs] in H. apply get_wrap_inv in H. destruct H as (x & Hx & H).
  destruct (reserved_attr k); [discriminate H|].
  destruct x as [| | | |vals it]; try discriminate H.
  destruct (assoc k vals) as [v|] eqn:Ek; [|discriminate H].
  unfold mbind at 1 in H. unfold alloc at 1 in H.
  unfold mbind at 1 in H. unfold need_id at 1 in H. simpl wid in H. destruct it as [src|]; [|discriminate H].
  unfold ret at 1 in H.
  destruct (operand_ty _ _ src Hx eq_refl) as (tx & Htx & Hax). rewrite to_mir_object in Htx.
  destruct (mir_fields vals) as [kts| |] eqn:El; cbn [bind] in Htx; try discriminate Htx. inversion Htx; subst tx.
  destruct (assoc_ty_of _ _ _ _ (mir_fields_spec _ _ El) Ek) as (t & Hkt & Hvt).
  exists src, kts, t. split; [eapply ty_at_sub; eauto|]. split; [exact Hkt|].
  destruct (generate_accessor_spec _ _ _ _ _ _ H) as [(b & li & lv & -> & -> & Hst) | (ty & Hty & Hw & Hst)].
  - left. split; [subst s1; reflexivity | exact Hvt].
  - right. split; [exact Hw|]. rewrite Hvt in Hty. inversion Hty; subst ty.
    unfold recorded_as. rewrite Hst. simpl. rewrite Z.eqb_refl. reflexivity.
Qed.

(* inner product: both operands are recorded as arrays of scalars of one size; the result is the scalar with the
   receiver's base type and the more secret of the two element modes *)
Lemma elt_class_inner d t : elt_class d = Ok t -> inner_mir d = Ok (TyName (mir_name t)).
Proof.
  destruct d as [c|[t' i v| | | |]|e sz|]; simpl; intros H; try discriminate; inversion H; subst; reflexivity.
Qed.

Theorem inner_product_edge a b w s1 :
  eval_rhs GG ρ (RInner a b) s = Ok (w, s1) ->
  exists l r id tl tr sz,
    wid w = Some id
    /\ recorded_as s1 id (TyName (mir_name (mode_max (fst tl) (fst tr), snd tl))) (ABinary "InnerProduct" l r)
    /\ ty_at s1 l (TyArray (TyName (mir_name tl)) sz) /\ ty_at s1 r (TyArray (TyName (mir_name tr)) sz).
Proof.
  intros H. destruct (eval_rhs_coherent GG _ _ _ _ _ HI HE H) as (_ & _ & Hs).
  pose proof H as H0. cbn [eval_rhs] in H0.
  apply get_wrap_inv in H0. destruct H0 as (x & Hx & H0). apply get_wrap_inv in H0. destruct H0 as (y & Hy & H0).
  destruct x as [|ex sx ia| | |]; try discriminate H0. destruct y as [|ey sy ib| | |]; try discriminate H0. clear H0.
  destruct (inner_accepted GG ρ _ _ _ _ _ _ _ _ _ _ _ Hx Hy H)
    as (Hsz & id & l & r & tx & ty & tl & tr & -> & -> & Ex & Px & Ey & Py & Cl & Cr & -> & Hrec).
  apply size_eqb_eq in Hsz. subst sy.
  destruct (operand_ty _ _ l Hx eq_refl) as (t1 & Ht1 & Ha1).
  destruct (operand_ty _ _ r Hy eq_refl) as (t2 & Ht2 & Ha2).
  cbn [to_mir] in Ht1, Ht2.
  rewrite (elt_class_inner _ _ Cl) in Ht1. rewrite (elt_class_inner _ _ Cr) in Ht2. cbn [bind] in Ht1, Ht2.
  inversion Ht1; subst t1. inversion Ht2; subst t2.
  exists l, r, id, tl, tr, sx. unfold truthy_size in *. repeat split; auto; eapply ty_at_sub; eauto.
Qed.

End Edges.
