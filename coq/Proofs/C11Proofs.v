(* C11, compile model (any store, any outputs): every function of the emitted MIR is the AFunction
   record stored under its id — name, return operation, return type, and its argument list read
   back from the AArg records in the recorded order — and no function is emitted twice. *)
From Coq Require Import ZArith List String Bool Lia Permutation.
From NadaV.PyMini Require Import PyMini.
From NadaV.Model Require Import Rules Corr Mir Surface Trace Compile.
From NadaV.Proofs Require Import CompileProofs.
Import ListNotations.
Open Scope Z_scope.
Open Scope list_scope.

(* ---- argument records *)
Definition arg_of_record (st : list (Z * arec)) (id : Z) (a : marg) : Prop :=
  exists fn, lookup id st = Some {| r_id := id; r_ty := a_ty a; r_node := AArg (a_name a) fn |}.

Lemma lookup_id k st r : lookup k st = Some r -> r_id r = k.
Proof. apply store_ok_all. Qed.

Lemma arg_records_spec st : forall args margs,
  arg_records st args = Ok margs -> Forall2 (arg_of_record st) args margs.
Proof.
  induction args as [|a args IH]; intros margs H; simpl in H.
  - inversion H. constructor.
  - destruct (lookup a st) as [[rid rty node]|] eqn:Hl; [|discriminate].
    destruct node; try discriminate.
    destruct (arg_records st args) as [t| |] eqn:Ht; cbn [bind] in H; try discriminate.
    inversion H; subst; clear H. constructor; [|apply IH; reflexivity].
    exists fn. simpl. pose proof (lookup_id _ _ _ Hl) as Hid. simpl in Hid. subst rid. exact Hl.
Qed.

(* ---- a MIR function is the stored record *)
Definition fun_from_store (st : list (Z * arec)) (mf : mfun) : Prop :=
  exists args,
    lookup (f_id mf) st = Some {| r_id := f_id mf; r_ty := f_ret_ty mf;
                                   r_node := AFunction (f_name mf) args (f_ret mf) |}
    /\ Forall2 (arg_of_record st) args (f_args mf).

Lemma functions_loop_records :
  forall fuel st fs stack acc c mfuns fs' c',
    functions_loop fuel st fs stack acc c = Ok (mfuns, fs', c') ->
    Forall (fun_from_store st) acc -> Forall (fun_from_store st) mfuns.
Proof.
  induction fuel as [|n IH]; intros st fs stack acc c mfuns fs' c' H Hacc; simpl in H; [discriminate|].
  destruct stack as [|f rest]; [inversion H; subst; exact Hacc|].
  destruct (lookup f st) as [[fid rty node]|] eqn:Hl; [|discriminate].
  destruct node; try discriminate.
  destruct (traverse (store_fuel st) st fs [child] [] [] c) as [[[ops1 extra1] c1]| |] eqn:Ht;
    simpl in H; try discriminate.
  destruct (arg_records st args) as [margs| |] eqn:Hm; simpl in H; try discriminate.
  eapply IH; [exact H|].
  apply Forall_app. split; [exact Hacc|]. constructor; [|constructor].
  exists args. simpl. split; [|apply arg_records_spec; exact Hm].
  pose proof (lookup_id _ _ _ Hl) as Hid. simpl in Hid. subst fid. exact Hl.
Qed.

Theorem compile_functions_from_records : forall st fs0 outs m fs',
  compile st fs0 outs = Ok (m, fs') -> Forall (fun_from_store st) (m_functions m).
Proof.
  intros st fs0 outs m fs' H. unfold compile in H.
  destruct (outputs_loop st fs0 outs [] [] (empty_cstate fs0)) as [[[[ops mouts] fs1] c1]| |] eqn:Ho;
    cbn [bind] in H; try discriminate.
  destruct (functions_loop (S (List.length st)) st fs1 (rev fs1) [] c1) as [[[mfuns fs2] c2]| |] eqn:Hf;
    cbn [bind] in H; try discriminate.
  inversion H; subst; clear H. simpl.
  eapply functions_loop_records; [exact Hf | constructor].
Qed.

(* ---- each function once *)
Definition fresh_extra (fs extra : list Z) : Prop := NoDup extra /\ forall x, In x extra -> ~ In x fs.

Lemma zadd_fresh fs extra k : fresh_extra fs extra -> ~ In k fs -> fresh_extra fs (zadd k extra).
Proof.
  intros [Hn Hd] Hk. unfold zadd. destruct (zmem k extra) eqn:Hz; [split; assumption|].
  apply zmem_notIn in Hz. split.
  - apply NoDup_snoc; assumption.
  - intros x Hx. apply in_app_or in Hx. destruct Hx as [Hx | [<- | []]]; [apply Hd; exact Hx | exact Hk].
Qed.

Lemma step_node_fresh fs r extra c extra' c' :
  step_node fs r extra c = Ok (extra', c') -> fresh_extra fs extra -> fresh_extra fs extra'.
Proof.
  unfold step_node. intros H Hf.
  destruct (r_node r); try (inversion H; subst; exact Hf).
  - destruct (add_input _ _ _ _ _ c) as [c1| |]; cbn [bind] in H; try discriminate.
    inversion H; subst; exact Hf.
  - destruct (zmem fn fs) eqn:Hz; inversion H; subst; [exact Hf|].
    apply zadd_fresh; [exact Hf | apply zmem_notIn; exact Hz].
  - destruct (zmem fn fs) eqn:Hz; inversion H; subst; [exact Hf|].
    apply zadd_fresh; [exact Hf | apply zmem_notIn; exact Hz].
  - destruct (zmem fn fs) eqn:Hz; inversion H; subst; [exact Hf|].
    apply zadd_fresh; [exact Hf | apply zmem_notIn; exact Hz].
  - destruct (zmem (r_id r) fs) eqn:Hz; inversion H; subst; [exact Hf|].
    apply zadd_fresh; [exact Hf | apply zmem_notIn; exact Hz].
Qed.

Lemma traverse_fresh : forall fuel st fs stack ops extra c ops' extra' c',
  traverse fuel st fs stack ops extra c = Ok (ops', extra', c') ->
  fresh_extra fs extra -> fresh_extra fs extra'.
Proof.
  induction fuel as [|n IH]; intros st fs stack ops extra c ops' extra' c' H Hf; simpl in H; [discriminate|].
  destruct stack as [|k rest]; [inversion H; subst; exact Hf|].
  destruct (zmem k (map e_key ops)); [eapply IH; eauto|].
  destruct (lookup k st) as [r|]; [|discriminate].
  destruct (step_node fs r extra c) as [[extra1 c1]| |] eqn:Hs; try discriminate.
  eapply IH; [exact H|]. eapply step_node_fresh; eauto.
Qed.

Lemma fresh_nil fs : fresh_extra fs [].
Proof. split; [constructor | intros x []]. Qed.

Lemma NoDup_app_fresh fs extra : NoDup fs -> fresh_extra fs extra -> NoDup (fs ++ extra).
Proof.
  intros Hn [He Hd]. induction fs as [|x fs IH]; simpl; [exact He|].
  inversion Hn; subst. constructor.
  - intros Hin. apply in_app_or in Hin. destruct Hin as [Hin | Hin]; [contradiction|].
    apply (Hd x Hin). left. reflexivity.
  - apply IH; [assumption|]. intros y Hy Hin. apply (Hd y Hy). right. exact Hin.
Qed.

Lemma outputs_loop_nodup : forall outs st fs ops macc c ops' mouts fs' c',
  outputs_loop st fs outs ops macc c = Ok (ops', mouts, fs', c') -> NoDup fs -> NoDup fs'.
Proof.
  induction outs as [|o outs IH]; intros st fs ops macc c ops' mouts fs' c' H Hn; simpl in H.
  - inversion H; subst; exact Hn.
  - destruct (traverse (store_fuel st) st fs [co_id o] ops [] c) as [[[ops1 extra1] c1]| |] eqn:Ht;
      simpl in H; try discriminate.
    destruct (lookup (co_id o) st) as [rec|]; [|discriminate].
    eapply IH; [exact H|]. apply NoDup_app_fresh; [exact Hn|].
    eapply traverse_fresh; [exact Ht | apply fresh_nil].
Qed.

Lemma functions_loop_once :
  forall fuel st fs stack acc c mfuns fs' c',
    functions_loop fuel st fs stack acc c = Ok (mfuns, fs', c') ->
    NoDup fs -> Permutation fs (map f_id acc ++ stack) ->
    NoDup fs' /\ Permutation fs' (map f_id mfuns).
Proof.
  induction fuel as [|n IH]; intros st fs stack acc c mfuns fs' c' H Hn Hp; simpl in H; [discriminate|].
  destruct stack as [|f rest].
  - inversion H; subst. split; [exact Hn|]. rewrite app_nil_r in Hp. exact Hp.
  - destruct (lookup f st) as [[fid rty node]|] eqn:Hl; [|discriminate].
    destruct node; try discriminate.
    destruct (traverse (store_fuel st) st fs [child] [] [] c) as [[[ops1 extra1] c1]| |] eqn:Ht;
      simpl in H; try discriminate.
    destruct (arg_records st args) as [margs| |] eqn:Hm; simpl in H; try discriminate.
    pose proof (lookup_id _ _ _ Hl) as Hid. simpl in Hid. subst fid.
    pose proof (traverse_fresh _ _ _ _ _ _ _ _ _ _ Ht (fresh_nil fs)) as Hfr.
    eapply IH; [exact H | apply NoDup_app_fresh; assumption |].
    rewrite map_app. simpl. rewrite <- app_assoc. simpl.
    (* fs ++ extra1  ~  ids acc ++ f :: rev extra1 ++ rest *)
    eapply Permutation_trans; [apply Permutation_app_tail; exact Hp|].
    rewrite <- app_assoc. apply Permutation_app_head. simpl.
    apply perm_skip.
    eapply Permutation_trans; [apply Permutation_app_comm|].
    apply Permutation_app_tail. apply Permutation_rev.
Qed.

Theorem compile_functions_once : forall st fs0 outs m fs',
  compile st fs0 outs = Ok (m, fs') -> NoDup fs0 -> NoDup (map f_id (m_functions m)).
Proof.
  intros st fs0 outs m fs' H Hn0. unfold compile in H.
  destruct (outputs_loop st fs0 outs [] [] (empty_cstate fs0)) as [[[[ops mouts] fs1] c1]| |] eqn:Ho;
    cbn [bind] in H; try discriminate.
  destruct (functions_loop (S (List.length st)) st fs1 (rev fs1) [] c1) as [[[mfuns fs2] c2]| |] eqn:Hf;
    cbn [bind] in H; try discriminate.
  inversion H; subst; clear H. simpl.
  pose proof (outputs_loop_nodup _ _ _ _ _ _ _ _ _ _ Ho Hn0) as Hn1.
  destruct (functions_loop_once _ _ _ _ _ _ _ _ _ Hf Hn1) as [Hn2 Hp2].
  - simpl. apply Permutation_rev.
  - eapply Permutation_NoDup; [exact Hp2 | exact Hn2].
Qed.

(* every function some site refers to is emitted: the discovered ids are exactly the emitted ones *)
Theorem compile_functions_are_the_discovered : forall st fs0 outs m fs',
  compile st fs0 outs = Ok (m, fs') -> NoDup fs0 -> Permutation fs' (map f_id (m_functions m)).
Proof.
  intros st fs0 outs m fs' H Hn0. unfold compile in H.
  destruct (outputs_loop st fs0 outs [] [] (empty_cstate fs0)) as [[[[ops mouts] fs1] c1]| |] eqn:Ho;
    cbn [bind] in H; try discriminate.
  destruct (functions_loop (S (List.length st)) st fs1 (rev fs1) [] c1) as [[[mfuns fs2] c2]| |] eqn:Hf;
    cbn [bind] in H; try discriminate.
  inversion H; subst; clear H. simpl.
  pose proof (outputs_loop_nodup _ _ _ _ _ _ _ _ _ _ Ho Hn0) as Hn1.
  destruct (functions_loop_once _ _ _ _ _ _ _ _ _ Hf Hn1) as [Hn2 Hp2]; [simpl; apply Permutation_rev | exact Hp2].
Qed.
