#!/bin/sh
# Offline setup: regenerate Gen/ from /repo and build the whole Coq development.
set -e
cd "$(dirname "$0")"
/venv/bin/python tools/extract.py "${VERIF_REPO:-/repo}" coq/Gen | grep -v "WARNING conda" || true
cd coq
FILES=$(find PyMini Gen Model Spec Proofs Properties -name '*.v' | sort)
coq_makefile -f _CoqProject $FILES -o Makefile >/dev/null
echo "$FILES" | sed '/^$/d' > .filelist.tmp; python3 - <<'PY'
import os
fs=sorted(l.strip() for l in open('.filelist.tmp') if l.strip())
open('.filelist','w').write("\n".join(fs)); os.remove('.filelist.tmp')
PY
timeout 3000 make -j16 >/dev/null
echo setup ok
