#!/bin/bash
# usage: try_seed.sh <patch.diff> <prop> [tier]   -- applies the patch to /repo, runs the check, reverts
set -u
patch=$1; prop=$2; tier=${3:-quick}
cd /repo && git apply "$patch" || { echo "PATCH DOES NOT APPLY"; exit 9; }
cd /verif && VERIF_NO_EVIDENCE=1 ./check "$prop" --tier "$tier" 2>&1 | grep -v "WARNING conda" | tail -${4:-8}
rc=${PIPESTATUS[0]}
git -C /repo checkout -- .
/venv/bin/python /verif/tools/extract.py /repo /verif/coq/Gen >/dev/null 2>&1
echo "check exit=$rc; repo clean: $(git -C /repo status --short | wc -l)"
