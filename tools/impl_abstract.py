"""C15: the real DSL and the audit (abstract) classes on the same type tuples and expressions.
stdin: JSON {"exprs": [expr...], "valuations": [[ints]...]}; expr = ["in", mode, base, i] | ["lit", v] | ["bin", op, a, b] | ["if", c, a, b]
stdout: JSON {"table": [...], "exprs": [{"real": cls|null, "abs": [cls, value]|{"exc":..}}]}"""
import json
import operator
import sys

import nada_dsl as real
import nada_dsl.audit.abstract as ab

MODES = {"Const": "", "Public": "Public", "Secret": "Secret"}
BASE = {"Int": "Integer", "Bool": "Boolean"}
OPS = {"OAdd": lambda a, b: a + b, "OSub": lambda a, b: a - b, "OMul": lambda a, b: a * b,
       "OLt": lambda a, b: a < b, "OLe": lambda a, b: a <= b, "OGt": lambda a, b: a > b, "OGe": lambda a, b: a >= b,
       "OEq": lambda a, b: a == b, "ONe": lambda a, b: a != b}
party = real.Party("P")
n = [0]


def real_val(mode, base):
    cls = getattr(real, MODES[mode] + BASE[base])
    if mode == "Const":
        return cls(1 if base == "Int" else True)
    n[0] += 1
    return cls(real.Input(name=f"i{n[0]}", party=party))


def abs_val(mode, base, value=None):
    cls = getattr(ab, MODES[mode] + BASE[base])
    v = value if base == "Int" or value is None else bool(value)
    return cls(value=v)


def outcome_real(fn):
    try:
        r = fn()
    except Exception as e:   # noqa
        return None
    return type(r).__name__ if isinstance(r, real.NadaType) else "non-nada:" + type(r).__name__


def outcome_abs(fn):
    try:
        r = fn()
    except Exception as e:   # noqa
        return {"exc": type(e).__name__}
    if isinstance(r, ab.Abstract):
        v = r.value
        return [type(r).__name__, (None if v is None else int(v))]
    return {"non_abstract": type(r).__name__}


def ev(e, mk, val):
    k = e[0]
    if k == "in":
        return mk(e[1], e[2], val[e[3]] if val is not None else None)
    if k == "lit":
        return mk("Const", "Int", e[1]) if val is not None else real.Integer(e[1])
    if k == "bin":
        return OPS[e[1]](ev(e[2], mk, val), ev(e[3], mk, val))
    if k == "if":
        return ev(e[1], mk, val).if_else(ev(e[2], mk, val), ev(e[3], mk, val))
    raise ValueError(k)


IOPS = {"OAdd": operator.iadd, "OSub": operator.isub, "OMul": operator.imul}


def ev_shared(e, mk, val, memo):
    """the same expression written the way programs are: one object per input however often it is used, and
    +, -, * through augmented assignment (t = a; t += b), which must not change a"""
    k = e[0]
    if k == "in":
        key = (e[1], e[2], e[3])
        if key not in memo:
            memo[key] = mk(e[1], e[2], val[e[3]] if val is not None else None)
        return memo[key]
    if k == "lit":
        return mk("Const", "Int", e[1]) if val is not None else real.Integer(e[1])
    if k == "bin":
        a, b = ev_shared(e[2], mk, val, memo), ev_shared(e[3], mk, val, memo)
        if e[1] in IOPS:
            t = a
            t = IOPS[e[1]](t, b)
            return t
        return OPS[e[1]](a, b)
    if k == "if":
        return ev_shared(e[1], mk, val, memo).if_else(ev_shared(e[2], mk, val, memo), ev_shared(e[3], mk, val, memo))
    raise ValueError(k)


def main():
    spec = json.load(sys.stdin)
    ab.Abstract.initialize()      # as nada_dsl.audit.abstract.signature() does before running nada_main
    types = [(m, b) for b in ("Int", "Bool") for m in ("Const", "Public", "Secret")]
    table = []
    for op, fn in OPS.items():
        for l in types:
            for r in types:
                table.append([op, l, r, outcome_real(lambda: fn(real_val(*l), real_val(*r))),
                              outcome_abs(lambda: fn(abs_val(*l), abs_val(*r)))])
    for c in types:
        for a in types:
            for b in types:
                table.append(["IfElse", c, a, b, outcome_real(lambda: real_val(*c).if_else(real_val(*a), real_val(*b))),
                              outcome_abs(lambda: abs_val(*c).if_else(abs_val(*a), abs_val(*b)))])
    out = []

    kept_inputs = {}      # Input objects that outlive one evaluation (declared at module level, the program run again)

    def abs_from_context(e, val, keep=False):
        """the way a user supplies concrete values: Abstract.initialize(context) and typed Inputs that look their value up;
        keep: the Input objects are created once per process and wrapped again under every new context"""
        ab.Abstract.initialize(context={f"v{j}": v for j, v in enumerate(val)})
        pty = ab.Party("P")

        def mk(mode, base, value):
            if mode == "Const" or base != "Int":
                return abs_val(mode, base, value)
            name = f"v{mk.idx}"
            if keep:
                if name not in kept_inputs:
                    kept_inputs[name] = ab.Input(name, pty)
                return getattr(ab, MODES[mode] + BASE[base])(kept_inputs[name])
            return getattr(ab, MODES[mode] + BASE[base])(ab.Input(name, pty))

        def go(x):
            k = x[0]
            if k == "in":
                mk.idx = x[3]
                return mk(x[1], x[2], val[x[3]])
            if k == "lit":
                return ab.Integer(x[1])
            if k == "bin":
                return OPS[x[1]](go(x[2]), go(x[3]))
            return go(x[1]).if_else(go(x[2]), go(x[3]))
        return go(e)
    for k, (e, val) in enumerate(zip(spec["exprs"], spec["valuations"])):
        via_context = (k % 2 == 0)
        if k % 3 == 2:
            out.append({"real": outcome_real(lambda: ev_shared(e, lambda m, b, v: real_val(m, b), None, {})),
                        "abs": outcome_abs(lambda: ev_shared(e, abs_val, val, {}))})
            continue
        out.append({"real": outcome_real(lambda: ev(e, lambda m, b, v: real_val(m, b), None)),
                    "abs": outcome_abs((lambda: abs_from_context(e, val, keep=(k % 4 == 0))) if via_context else (lambda: ev(e, abs_val, val)))})
    ab.Abstract.initialize()
    json.dump({"table": table, "exprs": out}, sys.stdout)


main()
