"""Run the REAL strict auditor on source texts, instrumented from the outside:
 - a SIGALRM guard per text (termination),
 - an interpreter audit hook recording `exec` events (execution of audited code),
 - richreports.report.enrich wrapped so that every inserted delimiter carries private-use sentinels
   (erasure and nesting can then be checked exactly) and every call is logged (model correspondence),
stdin: JSON list of source texts;  stdout: JSON list of result records."""
import ast
import json
import os
import signal
import sys
import traceback

import richreports
from nada_dsl.audit.strict import strict
from nada_dsl.audit.report import html

def show_type(t):
    """the harness's own spelling of an inferred type (independent of the report's type_to_str):
    classes by name, list[T] recursively, type errors by their message"""
    import types as _types
    if isinstance(t, TypeError):
        return "TypeError: " + str(t)
    if isinstance(t, _types.GenericAlias) and t.__origin__ is list:
        return "list[" + show_type(t.__args__[0]) + "]"
    if isinstance(t, type):
        return t.__name__
    import typing as _typing, collections.abc as _abc
    if _typing.get_origin(t) is _abc.Callable:
        return "Callable"      # the type given to a defined function's name
    return "TypeError: type cannot be determined"


from nada_dsl.audit.common import SyntaxRestriction, RuleInAncestor, TypeInParent, TypeErrorRoot

L0, L1, R0, R1 = "", "", "", ""
calls = []
execs = []
active = [False]
orig_enrich = richreports.report.enrich


def enrich(self, start, end, left, right, enrich_intermediate_lines=False, skip_whitespace=False):
    k = len(calls)
    calls.append([list(start), list(end), left, right, bool(enrich_intermediate_lines), bool(skip_whitespace)])
    return orig_enrich(self, start, end, f"{L0}{k}:{left}{L1}", f"{R0}{k}:{right}{R1}", enrich_intermediate_lines, skip_whitespace)


richreports.report.enrich = enrich


def hook(event, args):
    if active[0] and event == "exec":
        code = args[0]
        # eval()/exec() of a string compile it under the file name "<string>": audited text being run
        # (abstract.signature compiles the audited tree under the empty file name; anything that is not a file on disk)
        fn = getattr(code, "co_filename", "?")
        if fn in ("<string>", "", "<unknown>", "<ast>") or (not fn.startswith("<frozen") and not os.path.exists(fn)):
            execs.append(getattr(code, "co_name", "?"))


sys.addaudithook(hook)


class Timeout(BaseException):     # not an Exception: audited-library code that swallows `Exception` must not hide a hang
    pass


def on_alarm(signum, frame):
    raise Timeout()


signal.signal(signal.SIGALRM, on_alarm)


def site_of(tb):
    """innermost frame inside the audit package or richreports / parsial"""
    best = None
    for fr in traceback.extract_tb(tb):
        f = fr.filename
        if "nada_dsl/audit" in f or "richreports" in f or "parsial" in f or "asttokens" in f:
            best = f"{os.path.basename(f)}:{fr.name}:{(fr.line or '').strip()[:60]}"
    return best or "?"


def analyse(src, report, rendered):
    """C17 facts about a rendered report (with sentinels)"""
    out, stack, balanced, i = [], [], True, 0
    marks = []
    left_of = {}
    crossing = None
    n = len(rendered)
    while i < n:
        c = rendered[i]
        if c in (L0, R0):
            end = rendered.index(L1 if c == L0 else R1, i)
            body = rendered[i + 1:end]
            k, _, text = body.partition(":")
            marks.append((c == L0, int(k), text))
            if c == L0:
                stack.append(int(k))
                left_of.setdefault(int(k), text)
            else:
                if not stack or stack[-1] != int(k):
                    if balanced:
                        crossing = [left_of.get(stack[-1], "?") if stack else "<none>", left_of.get(int(k), "?")]
                    balanced = False
                    if int(k) in stack:
                        stack.remove(int(k))
                else:
                    stack.pop()
            i = end + 1
        else:
            out.append(c)
            i += 1
    if stack:
        balanced = False
    return "".join(out), balanced, marks, crossing


def tokens_of(rendered):
    """the rendered report as a token list: source characters and 'L<k>' / 'R<k>' marks"""
    toks, i, n = [], 0, len(rendered)
    while i < n:
        c = rendered[i]
        if c in (L0, R0):
            end = rendered.index(L1 if c == L0 else R1, i)
            k = rendered[i + 1:end].partition(":")[0]
            toks.append(("L" if c == L0 else "R") + k)
            i = end + 1
        else:
            toks.append(c)
            i += 1
    return toks


LAST_ROOT = [None]
_strict_mod = sys.modules["nada_dsl.audit.strict"]
_orig_efa = _strict_mod.enrich_fromaudits


def _capture(report_, atok):
    LAST_ROOT[0] = atok.tree
    return _orig_efa(report_, atok)


_strict_mod.enrich_fromaudits = _capture


def node_facts_of(src):
    root = LAST_ROOT[0]
    return node_facts(root) if root is not None else None


def node_facts(root):
    """what the checker inferred, per node: (kind, rule?, type string)"""
    facts = []
    for a in ast.walk(root):
        au = getattr(a, "_audits", {})
        r, t = au.get("rules"), au.get("types")
        facts.append([type(a).__name__, getattr(a, "lineno", 0), getattr(a, "col_offset", 0),
                      "restriction" if isinstance(r, SyntaxRestriction) else ("ancestor" if isinstance(r, RuleInAncestor) else None),
                      None if t is None else ("inparent" if isinstance(t, TypeInParent) else show_type(t)),
                      isinstance(t, TypeErrorRoot),
                      # how many operators the node is written with: each one is shown with the node's type
                      (len(a.values) - 1) if isinstance(a, ast.BoolOp) else 1])
    return facts


def run_one(src):
    del calls[:]
    del execs[:]
    LAST_ROOT[0] = None
    rec = {"outcome": "ok"}
    active[0] = True
    signal.alarm(5)
    try:
        report = strict(src)
        page = html(report)
        rendered = report.render()
        signal.alarm(0)
        active[0] = False
        erased, balanced, marks, crossing = analyse(src, report, rendered)
        rec["crossing"] = crossing
        rec["tokens"] = tokens_of(rendered)
        rec["facts"] = node_facts_of(src)
        rec.update(erased_equals_source=(erased == src.strip()), balanced=balanced, nmarks=len(marks),
                   html_len=len(page), lines=len(report.lines),
                   details=[m[2] for m in marks if m[0] and "data-detail" in m[2]],
                   classes=[m[2] for m in marks if m[0] and "class=" in m[2] and "data-detail" not in m[2]])
        if erased != src.strip():
            rec["erased"] = erased[:2000]
    except Timeout:
        rec["outcome"] = "timeout"
        tb = sys.exc_info()[2]
        rec["site"] = site_of(tb)
    except BaseException as e:    # noqa
        signal.alarm(0)
        rec["outcome"] = "raise"
        rec["exc"] = type(e).__name__
        rec["msg"] = str(e)[:200]
        rec["site"] = site_of(sys.exc_info()[2])
    finally:
        signal.alarm(0)
        active[0] = False
    rec["calls"] = [c for c in calls][:6000]      # (a cap of 400 once hid the enrichments of long lines: a false alarm of the harness)
    rec["execs"] = list(execs)
    return rec


def main():
    texts = json.load(sys.stdin)
    out = []
    for t in texts:
        out.append(run_one(t))
    json.dump(out, sys.stdout)


main()
