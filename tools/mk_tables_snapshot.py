#!/usr/bin/env python3
"""Deliberate act: copy the CURRENT generated structure tables (coq/Gen/GenAst.v, GenFrontend.v)
into coq/Spec/Tables.v as the tables the hand-written model was reviewed against.
Run only after reviewing Model/Trace.v, Model/Compile.v against the code."""
import os
import re
here = os.path.dirname(os.path.dirname(os.path.abspath(__file__)))
out = ["(* SNAPSHOT of the structure tables the hand-written model (Model/Trace.v, Model/Compile.v)",
       "   was written and reviewed against.  Written by tools/mk_tables_snapshot.py; the obligations",
       "   Gen.<table> = Tables.<table> are proved in Proofs/TableObligations.v on every run. *)",
       "From Coq Require Import ZArith List String.", "Import ListNotations.", "Open Scope string_scope.", ""]
names = []
for f in ("GenAst.v", "GenFrontend.v", "GenSourceRef.v"):
    txt = open(os.path.join(here, "coq", "Gen", f)).read()
    for m in re.finditer(r"Definition (\w+) : ([^=]+?) :=\n?(.*?)\.\n\n", txt + "\n", re.S):
        names.append((f[:-2], m.group(1)))
        out.append(f"Definition {m.group(1)} : {m.group(2)} :={m.group(3) if m.group(3).startswith(' ') else chr(10) + m.group(3)}.\n")
open(os.path.join(here, "coq", "Spec", "Tables.v"), "w").write("\n".join(out))
ob = ["(* Table obligations: the code the hand-written model mirrors still has the shape the model was",
      "   written against (regenerated Gen/ tables = reviewed snapshot). *)",
      "From Coq Require Import List String.", "From NadaV.Gen Require GenAst GenFrontend GenSourceRef.", "From NadaV.Spec Require Tables.", ""]
for mod, n in names:
    ob.append(f"Lemma tbl_{n} : {mod}.{n} = Tables.{n}.  Proof. reflexivity. Qed.")
open(os.path.join(here, "coq", "Proofs", "TableObligations.v"), "w").write("\n".join(ob) + "\n")
print(len(names), "tables")
